import XrsVerif.Proofs.ILViewshedModel
import XrsVerif.Proofs.ILViewshedIns
import XrsVerif.Proofs.ViewshedQuery
import XrsVerif.Proofs.NV
/-
  Proofs/ILViewshedOrder.lean -- the last step from the generated `_max_grad_in_status_struct` to the hand model's
  `query` over a linearly ordered field `K` (the domain of `query_decides`):

  * `predsOf_eq_filter`   on a tree with ordered keys (BST) the in-order predecessors of the node the search finds
                          are the nodes with a smaller key, nearest first -- the pointer walk of phase 2 visits
                          exactly the list the model filters (this was a modelling step validated only by the
                          correspondence run);
  * `queryP_eq_query`     hence `queryP = query` under BST;
  * `emb`, `mapT`    a tree over `K` seen in the ILang value domain `NV K` (all numbers non-NaN), and the model's
                          functions commute with it (`queryP_emb`; the interpolation divides only by non-zero spans);
  * `vsQuery_model`       `Gen.IL.vsQuery` run at `NV K` on arrays that hold (the image of) a BST `t0` returns
                          `some (query S t0 K ang g)`.
-/
set_option linter.unusedSectionVars false
set_option linter.unusedVariables false
set_option linter.unusedSimpArgs false
namespace XrsVerif.ILVs
open XrsVerif XrsVerif.IL XrsVerif.Viewshed

section order
variable {α : Type} [LinearOrder α]

theorem predsOf_eq_filter {t : Viewshed.Tree α} (hb : BST t) (K : α) :
    predsOf t K = (t.toList.filter (fun n => decide (n.key < K))).reverse := by
  induction t with
  | nil => simp [predsOf, Tree.toList]
  | node l n mx c r ihl ihr =>
    obtain ⟨hl, hr, hbl, hbr⟩ := hb
    simp only [predsOf, Tree.toList, List.filter_append, List.filter_cons, List.reverse_append]
    split
    · rename_i h
      have hn : ¬ n.key < K := not_lt.mpr (le_of_lt h)
      have hrr : r.toList.filter (fun n => decide (n.key < K)) = [] := by
        rw [List.filter_eq_nil_iff]
        intro b hb'
        have := hr b hb'
        simp only [decide_eq_true_eq, not_lt]
        exact le_of_lt (lt_trans h this)
      simp [hn, hrr, ihl hbl]
    · rename_i h
      split
      · rename_i h2
        have hll : l.toList.filter (fun n => decide (n.key < K)) = l.toList := by
          rw [List.filter_eq_self]
          intro a ha
          simpa using lt_trans (hl a ha) h2
        simp [h2, hll, ihr hbr]
      · rename_i h2
        have he : n.key = K := le_antisymm (not_lt.mp h) (not_lt.mp h2)
        have hll : l.toList.filter (fun n => decide (n.key < K)) = l.toList := by
          rw [List.filter_eq_self]
          intro a ha
          simpa [← he] using hl a ha
        have hrr : r.toList.filter (fun n => decide (n.key < K)) = [] := by
          rw [List.filter_eq_nil_iff]
          intro b hb'
          have := hr b hb'
          simp only [decide_eq_true_eq, not_lt, ← he]
          exact le_of_lt this
        simp [h2, hll, hrr]

end order

section field
variable {K : Type} [Field K] [LinearOrder K] [IsStrictOrderedRing K] [Trig K]

theorem queryP_eq_query {S : K} {t : Viewshed.Tree K} (hb : BST t) (Kk ang g : K) :
    queryP S t Kk ang g = query S t Kk ang g := by
  unfold queryP query
  rw [predsOf_eq_filter hb]

/-! ### a tree over `K` in the ILang value domain `NV K` -/

/-- a number of `K` as a (non-NaN) ILang value with the hand model's operations -/
def emb (a : K) : Fv (NV K) := ⟨some a⟩

def mapN {α β : Type} (f : α → β) (n : Viewshed.Node α) : Viewshed.Node β :=
  ⟨f n.key, f n.g0, f n.g1, f n.g2, f n.a0, f n.a1, f n.a2⟩

def mapT {α β : Type} (f : α → β) : Viewshed.Tree α → Viewshed.Tree β
  | .nil => .nil
  | .node l n mx c r => .node (mapT f l) (mapN f n) (f mx) c (mapT f r)

theorem emb_lt (a b : K) : (emb a < emb b) ↔ a < b := by
  show Fl.lt (some a : NV K) (some b) = true ↔ a < b
  simp

theorem emb_le (a b : K) : (emb a ≤ emb b) ↔ a ≤ b := by
  show Fl.le (some a : NV K) (some b) = true ↔ a ≤ b
  simp

theorem emb_decide_lt (a b : K) : decide (emb a < emb b) = decide (a < b) := by
  simp only [emb_lt]

theorem emb_decide_le (a b : K) : decide (emb a ≤ emb b) = decide (a ≤ b) := by
  simp only [emb_le]

theorem mx2_emb (a b : K) : mx2 (emb a) (emb b) = emb (mx2 a b) := by
  unfold mx2; simp only [emb_lt]; split <;> rfl

theorem mn2_emb (a b : K) : mn2 (emb a) (emb b) = emb (mn2 a b) := by
  unfold mn2; simp only [emb_lt]; split <;> rfl

theorem minv_emb (n : Viewshed.Node K) : minv (mapN emb n) = emb (minv n) := by
  simp only [minv, mapN, mn2_emb]

theorem mxOf_emb (S : K) (t : Viewshed.Tree K) : mxOf (emb S) (mapT emb t) = emb (mxOf S t) := by
  cases t <;> rfl

theorem contains_emb (t : Viewshed.Tree K) (k : K) : (mapT emb t).contains (emb k) = t.contains k := by
  induction t with
  | nil => rfl
  | node l n mx c r ihl ihr =>
    simp only [mapT, Tree.contains, mapN, emb_lt, ihl, ihr]

theorem short_emb (S : K) (t : Viewshed.Tree K) (k : K) : short (emb S) (mapT emb t) (emb k) = emb (short S t k) := by
  induction t with
  | nil => rfl
  | node l n mx c r ihl ihr =>
    simp only [mapT, short, emb_lt, ihl, ihr, mxOf_emb, minv_emb, mx2_emb]
    simp only [mapN, emb_lt]
    split
    · rfl
    · split <;> rfl

theorem toList_emb (t : Viewshed.Tree K) : (mapT emb t).toList = t.toList.map (mapN emb) := by
  induction t with
  | nil => rfl
  | node l n mx c r ihl ihr => simp [mapT, Tree.toList, ihl, ihr]

theorem predsOf_emb (t : Viewshed.Tree K) (k : K) :
    predsOf (mapT emb t) (emb k) = (predsOf t k).map (mapN emb) := by
  induction t with
  | nil => rfl
  | node l n mx c r ihl ihr =>
    simp only [mapT, predsOf, ihl, ihr, toList_emb]
    simp only [mapN, emb_lt]
    split
    · rfl
    · split <;> simp [mapN]

theorem spans_emb (n : Viewshed.Node K) (ang : K) : spans (mapN emb n) (emb ang) = spans n ang := by
  rw [Bool.eq_iff_iff]
  simp only [spans, mapN, Bool.and_eq_true, decide_eq_true_eq, emb_le]

theorem emb_add (a b : K) : emb a + emb b = emb (a + b) := rfl
theorem emb_sub (a b : K) : emb a - emb b = emb (a - b) := rfl
theorem emb_mul (a b : K) : emb a * emb b = emb (a * b) := rfl
theorem emb_div (a b : K) (h : b ≠ 0) : emb a / emb b = emb (a / b) := by
  show (⟨Fl.div (some a : NV K) (some b)⟩ : Fv (NV K)) = ⟨some (a / b)⟩
  simp [h]

/-- the interpolation never divides by zero on a node that spans the bearing -/
theorem itp_emb (n : Viewshed.Node K) (ang : K) (h : spans n ang = true) :
    itp (mapN emb n) (emb ang) = emb (itp n ang) := by
  rw [spans_iff] at h
  unfold itp
  simp only [mapN, emb_lt]
  split
  · rename_i h1
    have : n.a1 - n.a0 ≠ 0 := by have : n.a0 < n.a1 := lt_of_le_of_lt h.1 h1; exact ne_of_gt (sub_pos.mpr this)
    simp only [emb_sub, emb_mul, emb_div _ _ this, emb_add]
  · split
    · rename_i h1 h2
      have : n.a2 - n.a1 ≠ 0 := by have : n.a1 < n.a2 := lt_of_lt_of_le h2 h.2; exact ne_of_gt (sub_pos.mpr this)
      simp only [emb_sub, emb_mul, emb_div _ _ this, emb_add]
    · rfl

theorem walk_emb (ang g : K) (ns : List (Viewshed.Node K)) (acc : K) :
    walk (emb ang) (emb g) (fun n => itp n (emb ang)) (ns.map (mapN emb)) (emb acc) =
      emb (walk ang g (fun n => itp n ang) ns acc) := by
  induction ns generalizing acc with
  | nil => rfl
  | cons n ns ih =>
    simp only [List.map_cons, walk, spans_emb]
    split
    · rename_i hs
      simp only [itp_emb n ang hs, mx2_emb, emb_lt]
      split
      · rfl
      · exact ih _
    · exact ih _

theorem queryP_emb (S : K) (t : Viewshed.Tree K) (k ang g : K) :
    queryP (emb S) (mapT emb t) (emb k) (emb ang) (emb g) = emb (queryP S t k ang g) := by
  unfold queryP
  simp only [contains_emb, short_emb, emb_lt, predsOf_emb, walk_emb]
  split
  · split <;> rfl
  · rfl

/-- `SMALLEST_GRAD` in `K` -/
def smallestK : K := ((-10000000000000000000000 : Int) : K) / ((1 : Nat) : K)

theorem smallest_emb : (smallest : Fv (NV K)) = emb smallestK := rfl

/-- **the generated `_max_grad_in_status_struct` computes the hand model's `query`**: run at `NV K` on arrays that
    hold (the image of) a tree `t0` with ordered keys -- shape `sh`, well linked, no row twice, NIL row = sentinel --
    it returns `some (query S t0 distance angle gradient)` and leaves the arrays alone -/
theorem vsQuery_model (s : State (NV K)) (fuel n : Nat) (hv : VS s n) (hrun : s.ctl = .run) (sh : Sh)
    (hL : Linked (s.ia "tree_nodes") n (-1) sh) (hN : sh.idxs.Nodup) (hroot : s.ienv "root" = sh.ptr)
    (hS : vAt (s.fa "tree_vals") (n - 1) 7 = smallest) (t0 : Viewshed.Tree K)
    (habs : absT (s.fa "tree_vals") (s.ia "tree_nodes") sh = mapT emb t0) (hb : BST t0)
    (Kk ang g : K) (hd : s.fenv "distance" = some Kk) (ha : s.fenv "angle" = some ang) (hg : s.fenv "gradient" = some g)
    (hfuel : sh.size + sh.height + 2 ≤ fuel) :
    let q := Gen.IL.vsQuery.run s fuel
    q.ctl = .ret ∧ q.fenv "ret0" = some (query smallestK t0 Kk ang g) ∧ q.fa = s.fa ∧ q.ia = s.ia := by
  have hnf : ∀ nd ∈ predsOf (absT (s.fa "tree_vals") (s.ia "tree_nodes") sh) ⟨s.fenv "distance"⟩,
      ¬ (⟨s.fenv "distance"⟩ : Fv (NV K)) < nd.key := by
    rw [habs, hd]
    intro nd hnd
    change nd ∈ predsOf (mapT emb t0) (emb Kk) at hnd
    rw [predsOf_emb, predsOf_eq_filter hb] at hnd
    obtain ⟨m, hm, rfl⟩ := List.mem_map.mp hnd
    rw [List.mem_reverse, List.mem_filter] at hm
    have : m.key < Kk := by simpa using hm.2
    show ¬ (emb Kk < emb m.key)
    rw [emb_lt]
    exact not_lt.mpr (le_of_lt this)
  have h := vsQuery_refines s fuel n hv hrun sh hL hN hroot hS hnf hfuel
  rw [habs, hd, ha, hg] at h
  obtain ⟨h1, h2, h3, h4⟩ := h
  refine ⟨h1, ?_, h3, h4⟩
  rw [h2]
  change (queryP (emb smallestK) (mapT emb t0) (emb Kk) (emb ang) (emb g)).v = _
  rw [queryP_emb, queryP_eq_query hb]
  rfl

theorem rotL_emb (S : K) (t : Viewshed.Tree K) : rotL (emb S) (mapT emb t) = mapT emb (rotL S t) := by
  cases t with
  | nil => rfl
  | node xl xn xm xc r =>
    cases r with
    | nil => rfl
    | node yl yn ym yc yr =>
      simp only [mapT, rotL, recomp, recompM, mxOf_emb, minv_emb, mx2_emb]

theorem rotR_emb (S : K) (t : Viewshed.Tree K) : rotR (emb S) (mapT emb t) = mapT emb (rotR S t) := by
  cases t with
  | nil => rfl
  | node l yn ym yc yr =>
    cases l with
    | nil => rfl
    | node xl xn xm xc xr =>
      simp only [mapT, rotR, recomp, recompM, mxOf_emb, minv_emb, mx2_emb]

theorem mapT_emb_injective : ∀ (t u : Viewshed.Tree K), mapT emb t = mapT emb u → t = u := by
  intro t
  induction t with
  | nil => intro u h; cases u <;> simp_all [mapT]
  | node l n mx c r ihl ihr =>
    intro u h
    cases u with
    | nil => simp [mapT] at h
    | node l' n' mx' c' r' =>
      simp only [mapT, Tree.node.injEq, mapN, Node.mk.injEq, emb, Fv.mk.injEq, Option.some.injEq] at h
      obtain ⟨h1, h2, h3, h4, h5⟩ := h
      cases n; cases n'
      simp_all [ihl _ h1, ihr _ h5]

/-- over a linear order the insertion with the child's stored maximum travelling upwards is the hand model's `insCore`
    (while the propagation runs that maximum *is* the new node's `minv`) -/
theorem insCoreC_eq {α : Type} [LinearOrder α] (nn : Node α) : ∀ (t : Viewshed.Tree α),
    (insCoreC nn t).1 = (insCore nn t).1 ∧
      (insCoreC nn t).2 = (if (insCore nn t).2 = true then some (minv nn) else none) := by
  intro t
  induction t with
  | nil => simp [insCoreC, insCore, leafT]
  | node l n mx c r ihl ihr =>
    have key : ∀ (v : α), ¬ v < (if mx < v then v else mx) → (if mx < v then v else mx) = v := by
      intro v h
      by_cases h1 : mx < v
      · simp only [h1, if_true]
      · simp only [h1, if_false] at h ⊢
        exact le_antisymm (not_lt.mp h) (not_lt.mp h1)
    simp only [insCoreC, insCore]
    split
    · obtain ⟨e1, e2⟩ := ihl
      rcases hc : insCoreC nn l with ⟨l', _ | cm⟩
      · rw [hc] at e1 e2
        have hf : (insCore nn l).2 = false := by
          by_cases h : (insCore nn l).2 = true
          · simp [h] at e2
          · simpa using h
        rcases hm : insCore nn l with ⟨l2, f⟩
        rw [hm] at e1 hf
        simp only at e1 hf
        subst hf; subst e1
        simp
      · rw [hc] at e1 e2
        have hf : (insCore nn l).2 = true ∧ cm = minv nn := by
          by_cases h : (insCore nn l).2 = true
          · simp [h] at e2; exact ⟨h, e2⟩
          · simp [h] at e2
        rcases hm : insCore nn l with ⟨l2, f⟩
        rw [hm] at e1 hf
        simp only at e1 hf
        obtain ⟨rfl, rfl⟩ := hf
        subst e1
        simp only [if_true]
        refine ⟨trivial, ?_⟩
        by_cases hx : minv nn < (if mx < minv nn then minv nn else mx)
        · simp [hx]
        · simp [hx, key _ hx]
    · obtain ⟨e1, e2⟩ := ihr
      rcases hc : insCoreC nn r with ⟨r', _ | cm⟩
      · rw [hc] at e1 e2
        have hf : (insCore nn r).2 = false := by
          by_cases h : (insCore nn r).2 = true
          · simp [h] at e2
          · simpa using h
        rcases hm : insCore nn r with ⟨r2, f⟩
        rw [hm] at e1 hf
        simp only at e1 hf
        subst hf; subst e1
        simp
      · rw [hc] at e1 e2
        have hf : (insCore nn r).2 = true ∧ cm = minv nn := by
          by_cases h : (insCore nn r).2 = true
          · simp [h] at e2; exact ⟨h, e2⟩
          · simp [h] at e2
        rcases hm : insCore nn r with ⟨r2, f⟩
        rw [hm] at e1 hf
        simp only at e1 hf
        obtain ⟨rfl, rfl⟩ := hf
        subst e1
        simp only [if_true]
        refine ⟨trivial, ?_⟩
        by_cases hx : minv nn < (if mx < minv nn then minv nn else mx)
        · simp [hx]
        · simp [hx, key _ hx]

theorem insCoreC_emb (nn : Viewshed.Node K) : ∀ (t : Viewshed.Tree K),
    insCoreC (mapN emb nn) (mapT emb t) = (mapT emb (insCoreC nn t).1, (insCoreC nn t).2.map emb) := by
  intro t
  induction t with
  | nil => simp [insCoreC, mapT, leafT, minv_emb]
  | node l n mx c r ihl ihr =>
    have hk : ((mapN emb nn).key < (mapN emb n).key) ↔ nn.key < n.key := by simp only [mapN, emb_lt]
    simp only [mapT, insCoreC, hk]
    split
    · rw [ihl]
      rcases insCoreC nn l with ⟨l', _ | cm⟩
      · simp [mapT]
      · simp only [Option.map_some, emb_lt]
        split <;> split <;> simp_all [mapT, emb_lt]
    · rw [ihr]
      rcases insCoreC nn r with ⟨r', _ | cm⟩
      · simp [mapT]
      · simp only [Option.map_some, emb_lt]
        split <;> split <;> simp_all [mapT, emb_lt]

theorem atPath_emb (g : Viewshed.Tree (Fv (NV K)) → Viewshed.Tree (Fv (NV K))) (g0 : Viewshed.Tree K → Viewshed.Tree K)
    (hg : ∀ t, g (mapT emb t) = mapT emb (g0 t)) : ∀ (p : List Dir) (t : Viewshed.Tree K),
    atPath g p (mapT emb t) = mapT emb (atPath g0 p t) := by
  intro p
  induction p with
  | nil => intro t; exact hg t
  | cons d p ih =>
    intro t
    cases t with
    | nil => cases d <;> rfl
    | node l n mx c r => cases d <;> simp [atPath, mapT, ih]

end field
end XrsVerif.ILVs
