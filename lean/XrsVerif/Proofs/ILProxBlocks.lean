import XrsVerif.Proofs.ILProxTarget
/-
  Proofs/ILProxBlocks.lean -- symbolic execution of the blocks of one pixel of the generated
  `_process_proximity_line` (template `pixelBody N` of Proofs/ILangProx.lean): each block, run in a state with
  in-range indices, ends in an *explicitly given* state.  No model here; Proofs/ILProxPixel.lean relates the
  explicit states to `Prox.pixel`.
-/
namespace XrsVerif.IL.Px
open XrsVerif
variable {F : Type} [Fl F]
set_option linter.unusedSectionVars false
set_option linter.unusedSimpArgs false

/-- the shapes of the arrays of a line sweep over a `H × W` raster -/
structure LineShp (N : Names) (H W : Nat) (s : State F) : Prop where
  px : s.shp "pan_near_x" = [W]
  py : s.shp "pan_near_y" = [W]
  nx : s.shp "nearest_xs" = [W]
  ny : s.shp "nearest_ys" = [W]
  lp : s.shp "line_proximity" = [W]
  src : s.shp N.src = [W]
  xs : s.shp N.xs = [H, W]
  ys : s.shp N.ys = [H, W]

theorem LineShp.of_shp {N : Names} {H W : Nat} {s r : State F} (h : LineShp N H W s) (e : r.shp = s.shp) :
    LineShp N H W r :=
  ⟨e ▸ h.px, e ▸ h.py, e ▸ h.nx, e ▸ h.ny, e ▸ h.lp, e ▸ h.src, e ▸ h.xs, e ▸ h.ys⟩

/-- `_distance` between the cell `(tr, tc)` and the cell `(r, p)` of the coordinate grids -/
def cellDist (N : Names) (W : Nat) (s : State F) (tr tc r p : Nat) : F :=
  s.ext "_distance" ((s.fa N.xs).getD (tr * W + tc) Fl.nan) ((s.fa N.xs).getD (r * W + p) Fl.nan)
    ((s.fa N.ys).getD (tr * W + tc) Fl.nan) ((s.fa N.ys).getD (r * W + p) Fl.nan) (s.ienv (N.nm .distanceMetric))

/-- `dist ** 2` -/
def cellDist2 (N : Names) (W : Nat) (s : State F) (tr tc r p : Nat) : F :=
  Fl.mul (cellDist N W s tr tc r p) (cellDist N W s tr tc r p)

/-- the state after the six assignments `x1 = ...; ...; dist_sqr = dist ** 2` -/
def afterDist (N : Names) (W : Nat) (s : State F) (tr tc r p : Nat) : State F :=
  let e1 := setS s.fenv (N.nm .x1) ((s.fa N.xs).getD (tr * W + tc) Fl.nan)
  let e2 := setS e1 (N.nm .y1) ((s.fa N.ys).getD (tr * W + tc) Fl.nan)
  let e3 := setS e2 (N.nm .x2) ((s.fa N.xs).getD (r * W + p) Fl.nan)
  let e4 := setS e3 (N.nm .y2) ((s.fa N.ys).getD (r * W + p) Fl.nan)
  let e5 := setS e4 (N.nm .dist) (cellDist N W s tr tc r p)
  { s with fenv := setS e5 (N.nm .distSqr) (cellDist2 N W s tr tc r p) }

/-- `pan_near_x[p] = x; pan_near_y[p] = y` -/
def setPan (s : State F) (p : Nat) (x y : Int) : State F :=
  { s with ia := setS (setS s.ia "pan_near_x" ((s.ia "pan_near_x").set p x)) "pan_near_y" ((s.ia "pan_near_y").set p y) }

/-- `near_distance_square = d2` -/
def setNds (N : Names) (s : State F) (d2 : F) : State F :=
  { s with fenv := setS s.fenv (N.nm .nds) d2 }

section blocks
variable (N : Names) (hN : N.WF) (s : State F) (fuel : Nat) (hs : s.ctl = .run)
variable (H W r p : Nat) (hsh : LineShp N H W s) (hr : r < H) (hp : p < W)
variable (hrow : s.ienv (N.nm .lineId) = r) (hpix : s.ienv (N.nm .pixel) = p)
include hN hs hsh hr hp hrow hpix

theorem dist_exec (q : LV) (tail : St) (qn tr tc : Nat) (hq : qn < W) (htr : tr < H) (htc : tc < W)
    (hqv : s.ienv (N.nm q) = qn)
    (hx : (s.ia "pan_near_x").getD qn 0 = tc) (hy : (s.ia "pan_near_y").getD qn 0 = tr) :
    exec fuel (bDist N q tail) s = exec fuel tail (afterDist N W s tr tc r p) := by
  have hne := hN.nm_eq
  simp only [List.getD_eq_getElem?_getD] at hx hy
  simp only [bDist, exec_seq]
  simp [exec, hs, IE.ok, IE.eval, FE.ok, FE.eval, setS, hne, hsh.px, hsh.py, hsh.xs, hsh.ys, hrow, hpix, hqv, hx, hy,
    inRange_of_lt _ _ hr, inRange_of_lt _ _ hp, inRange_of_lt _ _ hq, inRange_of_lt _ _ htr, inRange_of_lt _ _ htc,
    off1_nat, off2_nat, afterDist, cellDist, cellDist2, BinOp.eval]

omit hN hs hsh hr hp hrow hpix in
/-- `near_distance_square = max_distance ** 2 * 2.0` -/
theorem nds_exec :
    exec fuel (bNds N) s = setNds N s
      (Fl.mul (Fl.mul (s.fenv (N.nm .maxDistance)) (s.fenv (N.nm .maxDistance))) (Fl.lit 2 1)) := by
  simp [bNds, exec, FE.ok, FE.eval, BinOp.eval, setNds]

/-- above phase, nothing remembered at `p` -/
theorem above_none (hx : (s.ia "pan_near_x").getD p 0 = -1) : exec fuel (bAbove N) s = s := by
  simp only [List.getD_eq_getElem?_getD] at hx
  simp [bAbove, exec, hs, BE.ok, BE.eval, IE.ok, IE.eval, cmpInt, hsh.px, hpix, inRange_of_lt _ _ hp, off1_nat, hx]

/-- above phase, the target `(tr, tc)` remembered at `p`: keep it if nearer than the bound, else forget it -/
theorem above_some (tr tc : Nat) (htr : tr < H) (htc : tc < W)
    (hx : (s.ia "pan_near_x").getD p 0 = tc) (hy : (s.ia "pan_near_y").getD p 0 = tr) :
    exec fuel (bAbove N) s =
      if Fl.lt (cellDist2 N W s tr tc r p) (s.fenv (N.nm .nds)) then
        setNds N (afterDist N W s tr tc r p) (cellDist2 N W s tr tc r p)
      else setPan (afterDist N W s tr tc r p) p (-1) (-1) := by
  have hne := hN.nm_eq
  have hx' := hx
  simp only [List.getD_eq_getElem?_getD] at hx'
  have hg : ¬ ((tc : Int) = -1) := by omega
  have hok : (BE.cmpI CmpOp.ne (IE.ld1 "pan_near_x" (IE.var (N.nm .pixel))) (IE.lit (-1))).ok s = true := by
    simp [BE.ok, IE.ok, IE.eval, hsh.px, hpix, inRange_of_lt _ _ hp]
  rw [bAbove, exec_ite _ _ _ _ _ hok]
  simp only [BE.eval, IE.eval, cmpInt, hsh.px, hpix, off1_nat, List.getD_eq_getElem?_getD, hx', ne_eq, hg,
    not_false_eq_true, decide_true, if_true]
  rw [dist_exec N hN s fuel hs H W r p hsh hr hp hrow hpix .pixel _ p tr tc hp htr htc hpix hx hy]
  cases hc : Fl.lt (cellDist2 N W s tr tc r p) (s.fenv (N.nm .nds)) <;>
    simp [exec, exec_seq, afterDist, hs, BE.ok, BE.eval, IE.ok, IE.eval, FE.ok, FE.eval, CmpOp.eval, setS, hne, hc,
      hsh.px, hsh.py, hpix, inRange_of_lt _ _ hp, off1_nat, setNds, setPan]

/-- a neighbour phase that is skipped at the start / end of the line -/
theorem nb_skip (g q lim : LV) (hg : s.ienv (N.nm g) = s.ienv (N.nm lim)) : exec fuel (bNb N g q lim) s = s := by
  simp [bNb, exec, hs, BE.ok, BE.eval, IE.ok, IE.eval, cmpInt, hg]

/-- a neighbour phase, nothing remembered at the neighbour `qn` -/
theorem nb_none (g q lim : LV) (qn : Nat) (hq : qn < W) (hqv : s.ienv (N.nm q) = qn)
    (hx : (s.ia "pan_near_x").getD qn 0 = -1) : exec fuel (bNb N g q lim) s = s := by
  simp only [List.getD_eq_getElem?_getD] at hx
  by_cases hg : s.ienv (N.nm g) = s.ienv (N.nm lim) <;>
    simp [bNb, exec, hs, BE.ok, BE.eval, IE.ok, IE.eval, cmpInt, hg, hsh.px, hqv, inRange_of_lt _ _ hq, off1_nat, hx]

/-- a neighbour phase, the target `(tr, tc)` remembered at the neighbour `qn`: adopt it if strictly nearer -/
theorem nb_some (g q lim : LV) (hg : s.ienv (N.nm g) ≠ s.ienv (N.nm lim)) (qn tr tc : Nat) (hq : qn < W)
    (htr : tr < H) (htc : tc < W) (hqv : s.ienv (N.nm q) = qn)
    (hx : (s.ia "pan_near_x").getD qn 0 = tc) (hy : (s.ia "pan_near_y").getD qn 0 = tr) :
    exec fuel (bNb N g q lim) s =
      if Fl.lt (cellDist2 N W s tr tc r p) (s.fenv (N.nm .nds)) then
        setPan (setNds N (afterDist N W s tr tc r p) (cellDist2 N W s tr tc r p)) p tc tr
      else afterDist N W s tr tc r p := by
  have hne := hN.nm_eq
  have hx' := hx
  have hy' := hy
  simp only [List.getD_eq_getElem?_getD] at hx' hy'
  have hg1 : ¬ ((tc : Int) = -1) := by omega
  have hok : (BE.and (BE.cmpI CmpOp.ne (IE.var (N.nm g)) (IE.var (N.nm lim)))
      (BE.cmpI CmpOp.ne (IE.ld1 "pan_near_x" (IE.var (N.nm q))) (IE.lit (-1)))).ok s = true := by
    simp [BE.ok, IE.ok, IE.eval, hsh.px, hqv, inRange_of_lt _ _ hq]
  rw [bNb, exec_ite _ _ _ _ _ hok]
  simp only [BE.eval, IE.eval, cmpInt, hsh.px, hqv, off1_nat, List.getD_eq_getElem?_getD, hx', ne_eq, hg, hg1,
    not_false_eq_true, decide_true, if_true, Bool.and_self]
  rw [dist_exec N hN s fuel hs H W r p hsh hr hp hrow hpix q _ qn tr tc hq htr htc hqv hx hy]
  have hq1 : (afterDist N W s tr tc r p).ienv (N.nm q) = qn := hqv
  cases hc : Fl.lt (cellDist2 N W s tr tc r p) (s.fenv (N.nm .nds)) <;>
    simp [exec, exec_seq, afterDist, hs, BE.ok, BE.eval, IE.ok, IE.eval, FE.ok, FE.eval, CmpOp.eval, setS, hne, hc,
      hsh.px, hsh.py, hpix, hqv, inRange_of_lt _ _ hp, inRange_of_lt _ _ hq, off1_nat, setNds, setPan, hx', hy']

omit hr hrow in
/-- a target pixel -/
theorem tgt_true (ht : s.benv (N.nm .isTarget) = true) :
    exec fuel (bTgt N) s =
      { s with
        fa := setS s.fa "line_proximity" ((s.fa "line_proximity").set p (Fl.lit 0 1))
        ia := setS (setS (setS (setS s.ia "nearest_xs" ((s.ia "nearest_xs").set p p))
          "nearest_ys" ((s.ia "nearest_ys").set p (s.ienv (N.nm .lineId))))
          "pan_near_x" ((s.ia "pan_near_x").set p p)) "pan_near_y" ((s.ia "pan_near_y").set p (s.ienv (N.nm .lineId)))
        ctl := .cont } := by
  simp [bTgt, exec, exec_seq, hs, BE.ok, BE.eval, IE.ok, IE.eval, FE.ok, FE.eval, ht, setS,
    hsh.px, hsh.py, hsh.nx, hsh.ny, hsh.lp, hpix, inRange_of_lt _ _ hp, off1_nat]

omit hN hsh hr hp hrow hpix hs in
theorem tgt_false (ht : s.benv (N.nm .isTarget) = false) : exec fuel (bTgt N) s = s := by
  simp [bTgt, exec, BE.ok, BE.eval, ht]

/-- the condition of "Update our proximity value." -/
def updCond (N : Names) (s : State F) (p : Nat) : Bool :=
  decide ((s.ia "pan_near_x").getD p 0 ≠ -1) &&
  (Fl.le (s.fenv (N.nm .nds)) (Fl.mul (s.fenv (N.nm .maxDistance)) (s.fenv (N.nm .maxDistance))) &&
   (Fl.lt ((s.fa "line_proximity").getD p Fl.nan) (Fl.lit 0 1) ||
    Fl.lt (s.fenv (N.nm .nds))
      (Fl.mul ((s.fa "line_proximity").getD p Fl.nan) ((s.fa "line_proximity").getD p Fl.nan))))

omit hr hrow in
theorem upd_exec :
    exec fuel (bUpd N) s =
      if updCond N s p then
        { s with
          fa := setS s.fa "line_proximity" ((s.fa "line_proximity").set p (Fl.sqrt (s.fenv (N.nm .nds))))
          ia := setS (setS s.ia "nearest_xs" ((s.ia "nearest_xs").set p ((s.ia "pan_near_x").getD p 0)))
            "nearest_ys" ((s.ia "nearest_ys").set p ((s.ia "pan_near_y").getD p 0)) }
      else s := by
  have hok : (BE.and (BE.cmpI CmpOp.ne (IE.ld1 "pan_near_x" (IE.var (N.nm .pixel))) (IE.lit (-1)))
        (BE.and (BE.cmpF CmpOp.ge (FE.bin BinOp.mul (FE.var (N.nm .maxDistance)) (FE.var (N.nm .maxDistance))) (FE.var (N.nm .nds)))
          (BE.or (BE.cmpF CmpOp.lt (FE.ld1 "line_proximity" (IE.var (N.nm .pixel))) (FE.ofInt (IE.lit 0)))
            (BE.cmpF CmpOp.lt (FE.var (N.nm .nds))
              (FE.bin BinOp.mul (FE.ld1 "line_proximity" (IE.var (N.nm .pixel))) (FE.ld1 "line_proximity" (IE.var (N.nm .pixel)))))))).ok s = true := by
    simp [BE.ok, IE.ok, IE.eval, FE.ok, hsh.px, hsh.lp, hpix, inRange_of_lt _ _ hp]
  rw [bUpd, exec_ite _ _ _ _ _ hok]
  have hcond : BE.eval s (BE.and (BE.cmpI CmpOp.ne (IE.ld1 "pan_near_x" (IE.var (N.nm .pixel))) (IE.lit (-1)))
        (BE.and (BE.cmpF CmpOp.ge (FE.bin BinOp.mul (FE.var (N.nm .maxDistance)) (FE.var (N.nm .maxDistance))) (FE.var (N.nm .nds)))
          (BE.or (BE.cmpF CmpOp.lt (FE.ld1 "line_proximity" (IE.var (N.nm .pixel))) (FE.ofInt (IE.lit 0)))
            (BE.cmpF CmpOp.lt (FE.var (N.nm .nds))
              (FE.bin BinOp.mul (FE.ld1 "line_proximity" (IE.var (N.nm .pixel))) (FE.ld1 "line_proximity" (IE.var (N.nm .pixel)))))))) = updCond N s p := by
    simp [BE.eval, IE.eval, FE.eval, cmpInt, CmpOp.eval, BinOp.eval, updCond, hsh.px, hsh.lp, hpix, off1_nat]
  rw [hcond]
  cases updCond N s p
  · simp [exec]
  · simp [exec, exec_seq, hs, IE.ok, IE.eval, FE.ok, FE.eval, UnOp.eval, setS, hsh.px, hsh.py, hsh.nx, hsh.ny, hsh.lp, hpix,
      inRange_of_lt _ _ hp, off1_nat]

end blocks

end XrsVerif.IL.Px
