import XrsVerif.Model.Local
/-! helper lemmas for Props/C17.lean (core Lean only) -/
namespace XrsVerif.Local

/-! ### min / max folds -/

theorem foldl_min_spec (xs : List Rat) (a : Rat) :
    (xs.foldl (fun m y => if y < m then y else m) a = a ∨ xs.foldl (fun m y => if y < m then y else m) a ∈ xs)
    ∧ xs.foldl (fun m y => if y < m then y else m) a ≤ a
    ∧ ∀ x ∈ xs, xs.foldl (fun m y => if y < m then y else m) a ≤ x := by
  induction xs generalizing a with
  | nil => simp
  | cons x xs ih =>
    simp only [List.foldl_cons]
    have h := ih (if x < a then x else a)
    refine ⟨?_, ?_, ?_⟩
    · rcases h.1 with h1 | h1
      · split at h1 <;> simp_all
      · exact Or.inr (List.mem_cons_of_mem _ h1)
    · have := h.2.1; split at this <;> grind
    · intro y hy
      rcases List.mem_cons.mp hy with rfl | hy
      · have := h.2.1; split at this <;> grind
      · exact h.2.2 y hy

theorem foldl_max_spec (xs : List Rat) (a : Rat) :
    (xs.foldl (fun m y => if m < y then y else m) a = a ∨ xs.foldl (fun m y => if m < y then y else m) a ∈ xs)
    ∧ a ≤ xs.foldl (fun m y => if m < y then y else m) a
    ∧ ∀ x ∈ xs, x ≤ xs.foldl (fun m y => if m < y then y else m) a := by
  induction xs generalizing a with
  | nil => simp
  | cons x xs ih =>
    simp only [List.foldl_cons]
    have h := ih (if a < x then x else a)
    refine ⟨?_, ?_, ?_⟩
    · rcases h.1 with h1 | h1
      · split at h1 <;> simp_all
      · exact Or.inr (List.mem_cons_of_mem _ h1)
    · have := h.2.1; split at this <;> grind
    · intro y hy
      rcases List.mem_cons.mp hy with rfl | hy
      · have := h.2.1; split at this <;> grind
      · exact h.2.2 y hy

theorem minOf_mem {xs : List Rat} (h : xs ≠ []) : minOf xs ∈ xs := by
  cases xs with
  | nil => contradiction
  | cons x xs =>
    rcases (foldl_min_spec xs x).1 with h1 | h1
    · simp [minOf, h1]
    · exact List.mem_cons_of_mem _ h1

theorem minOf_le {xs : List Rat} {x : Rat} (hx : x ∈ xs) : minOf xs ≤ x := by
  cases xs with
  | nil => cases hx
  | cons a xs =>
    rcases List.mem_cons.mp hx with rfl | hx
    · exact (foldl_min_spec xs x).2.1
    · exact (foldl_min_spec xs a).2.2 x hx

theorem maxOf_mem {xs : List Rat} (h : xs ≠ []) : maxOf xs ∈ xs := by
  cases xs with
  | nil => contradiction
  | cons x xs =>
    rcases (foldl_max_spec xs x).1 with h1 | h1
    · simp [maxOf, h1]
    · exact List.mem_cons_of_mem _ h1

theorem le_maxOf {xs : List Rat} {x : Rat} (hx : x ∈ xs) : x ≤ maxOf xs := by
  cases xs with
  | nil => cases hx
  | cons a xs =>
    rcases List.mem_cons.mp hx with rfl | hx
    · exact (foldl_max_spec xs x).2.1
    · exact (foldl_max_spec xs a).2.2 x hx

/-! ### first index of a value -/

theorem idxOf_first {xs : List Rat} {a : Rat} (ha : a ∈ xs) :
    ∃ h : xs.idxOf a < xs.length, xs[xs.idxOf a] = a ∧ ∀ j (hj : j < xs.idxOf a), xs[j]'(by omega) ≠ a := by
  have h : xs.idxOf a < xs.length := List.idxOf_lt_length_iff.mpr ha
  refine ⟨h, List.getElem_idxOf h, ?_⟩
  intro j hj
  have := List.not_of_lt_findIdx (p := (· == a)) (xs := xs) (i := j) (by simpa [List.idxOf] using hj)
  simpa using this

/-! ### sorting -/

theorem insertSorted_perm (a : Rat) (l : List Rat) : (insertSorted a l).Perm (a :: l) := by
  induction l with
  | nil => simp [insertSorted]
  | cons b t ih =>
    simp only [insertSorted]
    split
    · exact List.Perm.refl _
    · exact (List.Perm.cons b ih).trans (List.Perm.swap a b t)

theorem insertSorted_pairwise (a : Rat) {l : List Rat} (h : l.Pairwise (· ≤ ·)) :
    (insertSorted a l).Pairwise (· ≤ ·) := by
  induction l with
  | nil => simp [insertSorted]
  | cons b t ih =>
    rw [List.pairwise_cons] at h
    simp only [insertSorted]
    split
    · rename_i hab
      refine List.pairwise_cons.mpr ⟨?_, List.pairwise_cons.mpr h⟩
      intro x hx
      rcases List.mem_cons.mp hx with rfl | hx
      · exact hab
      · have := h.1 x hx; grind
    · rename_i hab
      refine List.pairwise_cons.mpr ⟨?_, ih h.2⟩
      intro x hx
      rcases List.mem_cons.mp ((insertSorted_perm a t).mem_iff.mp hx) with rfl | hx
      · grind
      · exact h.1 x hx

theorem sorted_perm (xs : List Rat) : (sorted xs).Perm xs := by
  induction xs with
  | nil => simp [sorted]
  | cons a t ih => exact (insertSorted_perm a _).trans (List.Perm.cons a ih)

theorem sorted_pairwise (xs : List Rat) : (sorted xs).Pairwise (· ≤ ·) := by
  induction xs with
  | nil => simp [sorted]
  | cons a t ih => exact insertSorted_pairwise a ih

theorem sorted_length (xs : List Rat) : (sorted xs).length = xs.length := (sorted_perm xs).length_eq

/-- in a sorted list the element at index `k` has at most `k` elements strictly below it and
    more than `k` elements at or below it -/
theorem pairwise_nth_counts {s : List Rat} (hs : s.Pairwise (· ≤ ·)) {k : Nat} (hk : k < s.length) :
    s.countP (fun x => decide (x < s[k])) ≤ k ∧ k < s.countP (fun x => decide (x ≤ s[k])) := by
  induction s generalizing k with
  | nil => simp at hk
  | cons a t ih =>
    rw [List.pairwise_cons] at hs
    cases k with
    | zero =>
      simp only [List.getElem_cons_zero, List.countP_cons, Rat.lt_irrefl, decide_false, Rat.le_refl,
        decide_true]
      have : t.countP (fun x => decide (x < a)) = 0 := by
        rw [List.countP_eq_zero]; intro x hx; have := hs.1 x hx; simp; grind
      simp [this]
    | succ k =>
      have hk' : k < t.length := by simpa using hk
      have ih' := ih hs.2 hk'
      have hak : a ≤ t[k] := hs.1 _ (List.getElem_mem hk')
      simp only [List.getElem_cons_succ, List.countP_cons]
      have h1 : (if decide (a ≤ t[k]) = true then 1 else 0) = 1 := by simp [hak]
      constructor
      · split <;> omega
      · rw [h1]; omega

/-- order-statistic characterisation: a value with fewer than `r` elements strictly below it and at
    least `r` elements at or below it is unique -/
theorem order_stat_unique {xs : List Rat} {r : Nat} {v w : Rat}
    (hv1 : xs.countP (fun x => decide (x < v)) < r) (hv2 : r ≤ xs.countP (fun x => decide (x ≤ v)))
    (hw1 : xs.countP (fun x => decide (x < w)) < r) (hw2 : r ≤ xs.countP (fun x => decide (x ≤ w))) :
    v = w := by
  have mono : ∀ a b : Rat, a < b → xs.countP (fun x => decide (x ≤ a)) ≤ xs.countP (fun x => decide (x < b)) := by
    intro a b hab
    apply List.countP_mono_left
    intro x _ hx
    simp only [decide_eq_true_eq] at hx ⊢
    grind
  rcases Std.lt_trichotomy v w with h | h | h
  · have := mono v w h; omega
  · exact h
  · have := mono w v h; omega

/-! ### median -/

theorem median_counts (xs : List Rat) (hne : xs ≠ []) :
    xs.length ≤ 2 * xs.countP (fun x => decide (x ≤ medianOf xs))
    ∧ xs.length ≤ 2 * xs.countP (fun x => decide (medianOf xs ≤ x)) := by
  have hp := sorted_perm xs
  have hs := sorted_pairwise xs
  have hl := sorted_length xs
  have hn : 0 < xs.length := List.length_pos_iff.mpr hne
  rw [← hp.countP_eq, ← hp.countP_eq, ← hl]
  generalize hS : sorted xs = s at *
  have hmed : medianOf xs = if s.length % 2 = 1 then s.getD (s.length / 2) 0
      else (s.getD (s.length / 2 - 1) 0 + s.getD (s.length / 2) 0) / 2 := by
    simp [medianOf, hS]
  have hcompl : ∀ m : Rat, s.length = s.countP (fun x => decide (m ≤ x)) + s.countP (fun x => decide (x < m)) := by
    intro m
    rw [List.length_eq_countP_add_countP (fun x => decide (m ≤ x)) (l := s)]
    congr 2
    funext x
    simp [Rat.not_le]
  by_cases hodd : s.length % 2 = 1
  · have hk : s.length / 2 < s.length := by omega
    have hm : medianOf xs = s[s.length / 2] := by
      rw [hmed, if_pos hodd]; simp [List.getD_eq_getElem?_getD, hk]
    have c := pairwise_nth_counts hs hk
    rw [hm]
    have := hcompl s[s.length / 2]
    omega
  · have hk1 : s.length / 2 - 1 < s.length := by omega
    have hk2 : s.length / 2 < s.length := by omega
    have hm : medianOf xs = (s[s.length / 2 - 1] + s[s.length / 2]) / 2 := by
      rw [hmed, if_neg hodd]; simp [List.getD_eq_getElem?_getD, hk1, hk2]
    have hab : s[s.length / 2 - 1] ≤ s[s.length / 2] := by
      have := List.pairwise_iff_getElem.mp hs (s.length / 2 - 1) (s.length / 2) hk1 hk2 (by omega)
      exact this
    have c1 := pairwise_nth_counts hs hk1
    have c2 := pairwise_nth_counts hs hk2
    have hlo : s[s.length / 2 - 1] ≤ medianOf xs := by rw [hm]; grind
    have hhi : medianOf xs ≤ s[s.length / 2] := by rw [hm]; grind
    have m1 : s.countP (fun x => decide (x ≤ s[s.length / 2 - 1])) ≤ s.countP (fun x => decide (x ≤ medianOf xs)) := by
      apply List.countP_mono_left; intro x _ hx; simp only [decide_eq_true_eq] at hx ⊢; grind
    have m2 : s.countP (fun x => decide (x < medianOf xs)) ≤ s.countP (fun x => decide (x < s[s.length / 2])) := by
      apply List.countP_mono_left; intro x _ hx; simp only [decide_eq_true_eq] at hx ⊢; grind
    have := hcompl (medianOf xs)
    omega
/-! ### first-occurrence dedup -/
section Dedup
variable {α : Type} [BEq α] [LawfulBEq α]

theorem mem_dedup {l : List α} {a : α} : a ∈ dedup l ↔ a ∈ l := by
  induction l with
  | nil => simp [dedup]
  | cons x xs ih => simp only [dedup, List.mem_cons, List.mem_filter, ih]; grind

theorem nodup_dedup (l : List α) : (dedup l).Nodup := by
  induction l with
  | nil => simp [dedup]
  | cons x xs ih =>
    simp only [dedup, List.nodup_cons, List.mem_filter]
    exact ⟨by simp, ih.filter _⟩

theorem dedup_append (l₁ l₂ : List α) :
    dedup (l₁ ++ l₂) = dedup l₁ ++ (dedup l₂).filter (fun x => decide (x ∉ l₁)) := by
  induction l₁ with
  | nil =>
    have : (dedup l₂).filter (fun _ => true) = dedup l₂ := List.filter_eq_self.mpr (by simp)
    simp [dedup, this]
  | cons x xs ih =>
    simp only [List.cons_append, dedup, ih, List.filter_append, List.filter_filter, List.cons.injEq, true_and]
    congr 1
    apply List.filter_congr
    intro y _
    by_cases h1 : y = x <;> by_cases h2 : y ∈ xs <;> simp [h1, h2]

/-- position in the dedup = number of distinct elements seen before the first occurrence -/
theorem idxOf_dedup {l : List α} {a : α} (ha : a ∈ l) :
    (dedup l).idxOf a = (dedup (l.take (l.idxOf a))).length := by
  induction l with
  | nil => cases ha
  | cons x xs ih =>
    by_cases hxa : x = a
    · subst hxa; simp [dedup]
    · have ha' : a ∈ xs := by simpa [Ne.symm hxa] using ha
      have hne : (x == a) = false := by simpa using hxa
      rw [List.idxOf_cons, hne]
      simp only [cond_false, List.take_succ_cons, dedup, List.length_cons]
      rw [List.idxOf_cons, hne]
      simp only [cond_false, Nat.add_right_cancel_iff]
      -- inside xs: split xs at the first occurrence of a
      have hk : xs.idxOf a < xs.length := List.idxOf_lt_length_iff.mpr ha'
      have hsplit : xs = xs.take (xs.idxOf a) ++ a :: xs.drop (xs.idxOf a + 1) := by
        conv => lhs; rw [← List.take_append_drop (xs.idxOf a) xs]
        rw [List.drop_eq_getElem_cons hk, List.getElem_idxOf hk]
      have hnot : a ∉ xs.take (xs.idxOf a) := by
        intro hmem
        obtain ⟨j, hj, hje⟩ := List.getElem_of_mem hmem
        rw [List.length_take] at hj
        have hj' : j < xs.idxOf a := by omega
        have := List.not_of_lt_findIdx (p := (· == a)) (xs := xs) (i := j) (by simpa [List.idxOf] using hj')
        rw [List.getElem_take] at hje
        simp [hje] at this
      generalize xs.take (xs.idxOf a) = pre at hsplit hnot
      generalize xs.drop (xs.idxOf a + 1) = post at hsplit
      subst hsplit
      rw [dedup_append, List.filter_append]
      have h1 : a ∉ (dedup pre).filter (fun y => !(y == x)) := by
        intro h; exact hnot (mem_dedup.mp (List.mem_filter.mp h).1)
      rw [List.idxOf_append, if_neg h1]
      have hax : (a == x) = false := by simpa using (Ne.symm hxa)
      simp [dedup, hnot, hax]

theorem not_mem_take_idxOf (l : List α) (a : α) : a ∉ l.take (l.idxOf a) := by
  intro hmem
  obtain ⟨j, hj, hje⟩ := List.getElem_of_mem hmem
  rw [List.length_take] at hj
  have hj' : j < l.idxOf a := by omega
  have := List.not_of_lt_findIdx (p := (· == a)) (xs := l) (i := j) (by simpa [List.idxOf] using hj')
  rw [List.getElem_take] at hje
  simp [hje] at this

theorem idxOf_dedup_mono {l : List α} {a b : α} (ha : a ∈ l) (hb : b ∈ l)
    (h : l.idxOf a < l.idxOf b) : (dedup l).idxOf a < (dedup l).idxOf b := by
  rw [idxOf_dedup ha, idxOf_dedup hb]
  have hk : l.idxOf a < l.length := List.idxOf_lt_length_iff.mpr ha
  obtain ⟨d, hd⟩ : ∃ d, l.idxOf b = l.idxOf a + (d + 1) := ⟨l.idxOf b - l.idxOf a - 1, by omega⟩
  rw [hd, List.take_add, List.drop_eq_getElem_cons hk, List.getElem_idxOf hk, List.take_succ_cons,
    dedup_append, List.length_append]
  have hnot := not_mem_take_idxOf l a
  simp only [dedup, List.filter_cons, hnot, not_false_eq_true, decide_true, ite_true, List.length_cons]
  omega

/-- **first-occurrence order**: `dedup` lists the distinct elements in the order in which they first
    appear -/
theorem idxOf_dedup_lt_iff {l : List α} {a b : α} (ha : a ∈ l) (hb : b ∈ l) :
    (dedup l).idxOf a < (dedup l).idxOf b ↔ l.idxOf a < l.idxOf b := by
  constructor
  · intro h
    rcases Nat.lt_trichotomy (l.idxOf a) (l.idxOf b) with h1 | h1 | h1
    · exact h1
    · have hk : l.idxOf a < l.length := List.idxOf_lt_length_iff.mpr ha
      have hk' : l.idxOf b < l.length := List.idxOf_lt_length_iff.mpr hb
      have e1 := List.getElem_idxOf hk
      have e2 := List.getElem_idxOf hk'
      have : a = b := by rw [← e1, ← e2]; simp [h1]
      subst this; omega
    · have := idxOf_dedup_mono hb ha h1; omega
  · exact idxOf_dedup_mono ha hb

theorem idxOf_inj_of_mem {l : List α} {a b : α} (ha : a ∈ l) (h : l.idxOf a = l.idxOf b) : a = b := by
  have hk : l.idxOf a < l.length := List.idxOf_lt_length_iff.mpr ha
  have hk' : l.idxOf b < l.length := by omega
  have e1 := List.getElem_idxOf hk
  have e2 := List.getElem_idxOf hk'
  rw [← e1, ← e2]; simp [h]

theorem lookup_zipIdx (K : List α) (n : Nat) (t : α) :
    (K.zipIdx n).lookup t = if t ∈ K then some (K.idxOf t + n) else none := by
  induction K generalizing n with
  | nil => simp
  | cons x xs ih =>
    simp only [List.zipIdx_cons, List.lookup_cons, List.mem_cons, List.idxOf_cons]
    by_cases h : t = x
    · subst h; simp
    · have h1 : (t == x) = false := by simpa using h
      have h2 : (x == t) = false := by simpa using (Ne.symm h)
      simp only [h1, h2, ih, cond_false]
      by_cases hm : t ∈ xs <;> simp [hm, h, Nat.add_assoc, Nat.add_comm 1 n]
end Dedup

/-! ### the combine loop equals its declarative description -/

def specId (K : List (List Rat)) (c : List V) : Option Nat :=
  if anyNaN c then none else some (K.idxOf (vals c) + 1)

theorem tuples_cons (c : List V) (cs : List (List V)) :
    tuples (c :: cs) = if anyNaN c then tuples cs else vals c :: tuples cs := by
  unfold tuples
  by_cases h : anyNaN c <;> simp [h]

theorem combine_fold (cells : List (List V)) (st : CState) (K : List (List Rat))
    (hd : st.dict = K.zipIdx 1) (hn : st.next = K.length + 1) :
    let K' := K ++ (dedup (tuples cells)).filter (fun t => decide (t ∉ K))
    (cells.foldl combineStep st).dict = K'.zipIdx 1
    ∧ (cells.foldl combineStep st).next = K'.length + 1
    ∧ (cells.foldl combineStep st).out = st.out ++ cells.map (specId K') := by
  induction cells generalizing st K with
  | nil => simp [tuples, dedup, hd, hn]
  | cons c cs ih =>
    simp only [List.foldl_cons, List.map_cons]
    by_cases hnan : anyNaN c = true
    · -- NaN cell: the dictionary is untouched
      have hstep : combineStep st c = { st with out := st.out ++ [none] } := by simp [combineStep, hnan]
      have := ih (combineStep st c) K (by rw [hstep]; exact hd) (by rw [hstep]; exact hn)
      rw [tuples_cons, if_pos hnan]
      refine ⟨this.1, this.2.1, ?_⟩
      rw [this.2.2, hstep]; simp [specId, hnan]
    · have hnan' : anyNaN c = false := by simpa using hnan
      rw [tuples_cons, if_neg hnan]
      by_cases hmem : vals c ∈ K
      · -- known tuple
        have hl : st.dict.lookup (vals c) = some (K.idxOf (vals c) + 1) := by
          rw [hd, lookup_zipIdx, if_pos hmem]
        have hstep : combineStep st c = { st with out := st.out ++ [some (K.idxOf (vals c) + 1)] } := by
          simp [combineStep, hnan', hl]
        have := ih (combineStep st c) K (by rw [hstep]; exact hd) (by rw [hstep]; exact hn)
        have hK : (dedup (vals c :: tuples cs)).filter (fun t => decide (t ∉ K))
            = (dedup (tuples cs)).filter (fun t => decide (t ∉ K)) := by
          simp only [dedup, List.filter_cons, hmem, not_true_eq_false, decide_false, Bool.false_eq_true,
            ite_false, List.filter_filter]
          apply List.filter_congr
          intro y _
          by_cases hy : y = vals c
          · subst hy; simp [hmem]
          · simp [hy]
        rw [hK]
        refine ⟨this.1, this.2.1, ?_⟩
        rw [this.2.2, hstep]
        simp [specId, hnan', List.idxOf_append, hmem]
      · -- new tuple: appended with the next id
        have hl : st.dict.lookup (vals c) = none := by rw [hd, lookup_zipIdx, if_neg hmem]
        have hstep : combineStep st c =
            { dict := st.dict ++ [(vals c, st.next)], next := st.next + 1, out := st.out ++ [some st.next] } := by
          simp [combineStep, hnan', hl]
        have hd1 : (combineStep st c).dict = (K ++ [vals c]).zipIdx 1 := by
          rw [hstep, List.zipIdx_append]; simp [hd, hn, Nat.add_comm]
        have := ih (combineStep st c) (K ++ [vals c]) hd1 (by rw [hstep]; simp [hn])
        have hK : K ++ (dedup (vals c :: tuples cs)).filter (fun t => decide (t ∉ K))
            = (K ++ [vals c]) ++ (dedup (tuples cs)).filter (fun t => decide (t ∉ K ++ [vals c])) := by
          simp only [dedup, List.filter_cons, hmem, not_false_eq_true, decide_true, ite_true,
            List.filter_filter, List.append_assoc, List.singleton_append, List.append_cancel_left_eq,
            List.cons.injEq, true_and]
          apply List.filter_congr
          intro y _
          by_cases h1 : y = vals c <;> by_cases h2 : y ∈ K <;> simp [h1, h2]
        rw [hK]
        refine ⟨this.1, this.2.1, ?_⟩
        rw [this.2.2, hstep]
        simp [specId, hnan', List.idxOf_append, hmem, hn]

/-! ### tuples without NaN -/

theorem anyNaN_iff_mem {c : List V} : anyNaN c = true ↔ none ∈ c := by
  simp only [anyNaN, List.any_eq_true]
  constructor
  · rintro ⟨x, hx, h⟩; cases x <;> simp_all
  · intro h; exact ⟨none, h, rfl⟩

@[simp] theorem anyNaN_map_some (xs : List Rat) : anyNaN (xs.map some) = false := by
  simp [anyNaN]

@[simp] theorem vals_map_some (xs : List Rat) : vals (xs.map some) = xs := by
  simp [vals, List.filterMap_map]

theorem eq_map_some_of_noNaN {c : List V} (h : anyNaN c = false) : c = (vals c).map some := by
  induction c with
  | nil => simp [vals]
  | cons x xs ih =>
    cases x with
    | none => simp [anyNaN] at h
    | some q =>
      have h' : anyNaN xs = false := by simpa [anyNaN] using h
      have := ih h'
      simp only [vals, List.filterMap_cons, id_eq, List.map_cons, List.cons.injEq, true_and] at this ⊢
      exact this

theorem vals_length_of_noNaN {c : List V} (h : anyNaN c = false) : (vals c).length = c.length := by
  conv => rhs; rw [eq_map_some_of_noNaN h]
  simp

/-! ### the key of `combine` is the inverse map -/

theorem lookup_swap_zipIdx {α : Type} (K : List α) (n i : Nat) :
    ((K.zipIdx n).map (fun p => (p.2, p.1))).lookup (i + n) = K[i]? := by
  induction K generalizing n i with
  | nil => simp
  | cons x xs ih =>
    simp only [List.zipIdx_cons, List.map_cons, List.lookup_cons]
    cases i with
    | zero => simp
    | succ i =>
      have h : (i + 1 + n == n) = false := by simp
      rw [h]
      have := ih (n + 1) i
      simpa [Nat.add_assoc, Nat.add_comm 1 n] using this

end XrsVerif.Local
