import XrsVerif.Proofs.KSimp
import XrsVerif.Model.Terrain
/-!
  Helper lemmas for C08, valid for *every* translated kernel and every value domain `F`:
  what `Kernel.run` puts at a cell, borders, locality / one-cell change at raster level, and how a
  cell-level symmetry (quarter turn of the window) lifts to the whole raster.
-/
set_option linter.unusedSectionVars false
set_option linter.unusedVariables false
namespace XrsVerif

/-- cell (y, x) of a raster given as rows; `none` outside the extent -/
def cellOf {α : Type} (g : List (List α)) (y x : Nat) : Option α := (g[y]?).bind (·[x]?)

variable {F : Type} [Fl F]

/-- the window of relative reads around the absolute position (y, x) -/
def windowAt (get : String → Int → Int → F) (y x : Nat) : String → Int → Int → F :=
  fun a dy dx => get a ((y : Int) + dy) ((x : Int) + dx)

/-- (y, x) is inside the loop nest `range(top, rows - bottom) × range(left, cols - right)` -/
def Kernel.inLoop (k : Kernel) (rows cols y x : Nat) : Prop :=
  k.top ≤ y ∧ y + k.bottom < rows ∧ k.left ≤ x ∧ x + k.right < cols

instance (k : Kernel) (rows cols y x : Nat) : Decidable (k.inLoop rows cols y x) := by
  unfold Kernel.inLoop; infer_instance

theorem Kernel.run_cellOf (k : Kernel) (rows cols : Nat) (env : String → F)
    (get : String → Int → Int → F) (vec : String → List F) (y x : Nat) (hy : y < rows) (hx : x < cols) :
    cellOf (k.run rows cols env get vec) y x =
      some (if k.inLoop rows cols y x then k.cell env (windowAt get y x) vec else k.fill.val) := by
  simp [cellOf, Kernel.run, Kernel.inLoop, hy, hx]
  rfl

theorem Kernel.run_cellOf_outside (k : Kernel) (rows cols : Nat) (env : String → F)
    (get : String → Int → Int → F) (vec : String → List F) (y x : Nat) (h : rows ≤ y ∨ cols ≤ x) :
    cellOf (k.run rows cols env get vec) y x = none := by
  by_cases hy : y < rows
  · have hx : ¬ x < cols := by omega
    simp [cellOf, Kernel.run, hy, hx]
  · simp [cellOf, Kernel.run, hy]

/-- the output has the shape of the input -/
theorem Kernel.run_shape (k : Kernel) (rows cols : Nat) (env : String → F)
    (get : String → Int → Int → F) (vec : String → List F) :
    (k.run rows cols env get vec).length = rows ∧ ∀ r ∈ k.run rows cols env get vec, r.length = cols := by
  constructor
  · simp [Kernel.run]
  · intro r hr
    simp only [Kernel.run, List.mem_map, List.mem_range] at hr
    obtain ⟨y, _, rfl⟩ := hr
    simp

/-- first / last row / column keep the value the output was allocated with, for every raster size -/
theorem Kernel.run_border (k : Kernel) (ht : 1 ≤ k.top) (hb : 1 ≤ k.bottom) (hl : 1 ≤ k.left)
    (hr : 1 ≤ k.right) (rows cols : Nat) (env : String → F) (get : String → Int → Int → F)
    (vec : String → List F) (y x : Nat) (hy : y < rows) (hx : x < cols)
    (hedge : y = 0 ∨ y + 1 = rows ∨ x = 0 ∨ x + 1 = cols) :
    cellOf (k.run rows cols env get vec) y x = some k.fill.val := by
  rw [k.run_cellOf rows cols env get vec y x hy hx]
  have : ¬ k.inLoop rows cols y x := by unfold Kernel.inLoop; omega
  simp [this]

/-- a raster too small to have an interior is all fill -/
theorem Kernel.run_small (k : Kernel) (ht : 1 ≤ k.top) (hb : 1 ≤ k.bottom) (hl : 1 ≤ k.left)
    (hr : 1 ≤ k.right) (rows cols : Nat) (hsmall : rows < 3 ∨ cols < 3) (env : String → F)
    (get : String → Int → Int → F) (vec : String → List F) (y x : Nat) (hy : y < rows) (hx : x < cols) :
    cellOf (k.run rows cols env get vec) y x = some k.fill.val := by
  rw [k.run_cellOf rows cols env get vec y x hy hx]
  have : ¬ k.inLoop rows cols y x := by unfold Kernel.inLoop; omega
  simp [this]

/-- **locality at raster level**: the output at (y, x) is a function of the input cells within the
    kernel's read radius of (y, x) -/
theorem Kernel.run_local (k : Kernel) (dr dc : Nat) (hw : readsWithin k.body.reads dr dc = true)
    (rows cols : Nat) (env : String → F) (g1 g2 : String → Int → Int → F) (vec : String → List F)
    (y x : Nat)
    (h : ∀ a (i j : Int), (y : Int) - dr ≤ i → i ≤ y + dr → (x : Int) - dc ≤ j → j ≤ x + dc →
        g1 a i j = g2 a i j) :
    cellOf (k.run rows cols env g1 vec) y x = cellOf (k.run rows cols env g2 vec) y x := by
  by_cases hin : y < rows ∧ x < cols
  · rw [k.run_cellOf rows cols env g1 vec y x hin.1 hin.2, k.run_cellOf rows cols env g2 vec y x hin.1 hin.2]
    congr 1
    split
    · apply Kernel.cell_local
      apply AgreeOn_of_within _ dr dc hw
      intro a dy dx h1 h2 h3 h4
      exact h a _ _ (by omega) (by omega) (by omega) (by omega)
    · rfl
  · rw [k.run_cellOf_outside rows cols env g1 vec y x (by omega),
        k.run_cellOf_outside rows cols env g2 vec y x (by omega)]

/-- **one-cell change**: two inputs that differ at most at (i0, j0) give the same output at every cell
    farther than the read radius from (i0, j0) -/
theorem Kernel.run_one_cell_change (k : Kernel) (dr dc : Nat) (hw : readsWithin k.body.reads dr dc = true)
    (rows cols : Nat) (env : String → F) (g1 g2 : String → Int → Int → F) (vec : String → List F)
    (i0 j0 : Int) (hdiff : ∀ a (i j : Int), (i ≠ i0 ∨ j ≠ j0) → g1 a i j = g2 a i j)
    (y x : Nat) (hfar : (y : Int) + dr < i0 ∨ i0 + dr < y ∨ (x : Int) + dc < j0 ∨ j0 + dc < x) :
    cellOf (k.run rows cols env g1 vec) y x = cellOf (k.run rows cols env g2 vec) y x := by
  apply k.run_local dr dc hw
  intro a i j h1 h2 h3 h4
  apply hdiff
  omega

theorem option_map_id {α : Type} (o : Option α) : o.map id = o := by cases o <;> rfl

/-! ### quarter turn -/

/-- the raster turned a quarter turn counter-clockwise (`np.rot90`): `new[i, j] = old[j, cols-1-i]`,
    where `cols` is the number of columns of the old raster (= number of rows of the new one) -/
def rotGet (cols : Nat) (get : String → Int → Int → F) : String → Int → Int → F :=
  fun a i j => get a j ((cols : Int) - 1 - i)

/-- the same turn applied to a window of relative offsets -/
def rotWin (w : String → Int → Int → F) : String → Int → Int → F :=
  fun a dy dx => w a dx (-dy)

/-- if turning the window changes a cell value by `φ` (identity for slope / curvature, the −90° shift
    for aspect) then turning the raster turns the output raster and applies `φ` to every cell -/
theorem Kernel.run_quarter_turn (k : Kernel) (m : Nat) (ht : k.top = m) (hb : k.bottom = m)
    (hl : k.left = m) (hr : k.right = m) (env : String → F) (vec : String → List F) (φ : F → F)
    (hfill : φ k.fill.val = k.fill.val)
    (rows cols : Nat) (get : String → Int → Int → F)
    (hcell : ∀ y x : Nat, k.cell env (rotWin (windowAt get y x)) vec = φ (k.cell env (windowAt get y x) vec))
    (i j : Nat) (hi : i < cols) (hj : j < rows) :
    cellOf (k.run cols rows env (rotGet cols get) vec) i j =
      (cellOf (k.run rows cols env get vec) j (cols - 1 - i)).map φ := by
  rw [k.run_cellOf cols rows env _ vec i j hi hj,
      k.run_cellOf rows cols env get vec j (cols - 1 - i) hj (by omega)]
  simp only [Option.map_some, Option.some.injEq]
  have hiff : k.inLoop cols rows i j ↔ k.inLoop rows cols j (cols - 1 - i) := by
    unfold Kernel.inLoop; rw [ht, hb, hl, hr]; omega
  by_cases hin : k.inLoop rows cols j (cols - 1 - i)
  · rw [if_pos hin, if_pos (hiff.2 hin), ← hcell]
    congr 1
    funext a dy dx
    simp only [windowAt, rotGet, rotWin]
    congr 1
    omega
  · rw [if_neg hin, if_neg (fun h => hin (hiff.1 h)), hfill]

/-- rasters whose windows give the same cell value everywhere give the same output raster -/
theorem Kernel.run_congr_cell (k : Kernel) (rows cols : Nat) (env : String → F)
    (g1 g2 : String → Int → Int → F) (vec : String → List F)
    (h : ∀ y x : Nat, k.cell env (windowAt g1 y x) vec = k.cell env (windowAt g2 y x) vec) :
    k.run rows cols env g1 vec = k.run rows cols env g2 vec := by
  unfold Kernel.run
  apply List.map_congr_left; intro y _
  apply List.map_congr_left; intro x _
  split
  · exact h y x
  · rfl

/-- a single-array window -/
def winOf (w : Int → Int → F) : String → Int → Int → F := fun _ dy dx => w dy dx

/-- every relative read of the body is one of the offsets in `l` -/
def readsIn (k : Kernel) (l : List (Int × Int)) : Bool :=
  k.body.reads.all fun r => l.contains (r.2.1, r.2.2)

/-- a kernel whose reads lie in `l` gives the same cell for windows that agree on `l` -/
theorem cell_congr_on (k : Kernel) (l : List (Int × Int)) (hr : readsIn k l = true) (env : String → F)
    (vec : String → List F) (w1 w2 : Int → Int → F) (h : ∀ p ∈ l, w1 p.1 p.2 = w2 p.1 p.2) :
    k.cell env (winOf w1) vec = k.cell env (winOf w2) vec := by
  apply Kernel.cell_local
  intro a dy dx hm
  simp only [readsIn, List.all_eq_true] at hr
  have := hr (a, dy, dx) hm
  simp only [List.contains_iff_mem] at this
  exact h (dy, dx) this

/-! ### NaN propagation through the remaining transcendental symbols (NV instance) -/
section nv
variable {K : Type} [Field K] [LinearOrder K] [IsStrictOrderedRing K] [Trig K]

/-- a window of finite values -/
def finW (z : Int → Int → K) : Int → Int → NV K := fun dy dx => some (z dy dx)
/-- no NaN at the offsets in `l` -/
def finiteOn (l : List (Int × Int)) (w : Int → Int → NV K) : Prop := ∀ p ∈ l, w p.1 p.2 ≠ none
/-- the values of a window (0 where NaN; only used where the window is finite) -/
def vals (w : Int → Int → NV K) : Int → Int → K := fun dy dx => (w dy dx).getD 0

theorem finiteOn_agree (l : List (Int × Int)) (w : Int → Int → NV K) (hf : finiteOn l w) :
    ∀ p ∈ l, w p.1 p.2 = finW (vals w) p.1 p.2 := by
  intro p hp
  have := hf p hp
  simp only [finW, vals]
  cases h : w p.1 p.2 with
  | none => exact absurd h this
  | some v => rfl

theorem fl_add_some_eq_map (a : NV K) (c : K) : Fl.add a (some c : NV K) = a.map (· + c) := by
  cases a <;> rfl

/-- **lifting a finite-window law to all windows.**  Let the transformed window be
    `(T w) p = (w (σ p)).map f` with `σ` a permutation of the read offsets `l`.  If the law
    `cell (T (finW z)) = φ (cell (finW z))` holds for finite windows, NaN at a read offset gives NaN, and
    `φ NaN = NaN`, then `cell (T w) = φ (cell w)` for every window, finite or not. -/
theorem cell_lift (k : Kernel) (l : List (Int × Int)) (hr : readsIn k l = true) (env : String → NV K)
    (vec : String → List (NV K)) (σ : Int × Int → Int × Int) (hσ : ∀ p ∈ l, σ p ∈ l)
    (hσ' : ∀ q ∈ l, ∃ p ∈ l, σ p = q) (f : K → K) (φ : NV K → NV K) (hφ : φ none = none)
    (hnan : ∀ (w : Int → Int → NV K) (p : Int × Int), p ∈ l → w p.1 p.2 = none →
        k.cell env (winOf w) vec = none)
    (hfin : ∀ z : Int → Int → K,
        k.cell env (winOf (finW fun dy dx => f (z (σ (dy, dx)).1 (σ (dy, dx)).2))) vec =
          φ (k.cell env (winOf (finW z)) vec))
    (w : Int → Int → NV K) :
    k.cell env (winOf fun dy dx => (w (σ (dy, dx)).1 (σ (dy, dx)).2).map f) vec =
      φ (k.cell env (winOf w) vec) := by
  by_cases hf : finiteOn l w
  · have hag := finiteOn_agree l w hf
    rw [cell_congr_on k l hr env vec w (finW (vals w)) hag, ← hfin (vals w)]
    apply cell_congr_on k l hr
    intro p hp
    have := hag (σ p) (hσ p hp)
    simp only [this, finW, Option.map_some]
  · simp only [finiteOn, not_forall] at hf
    obtain ⟨q, hq, hnone⟩ := hf
    have hnone' : w q.1 q.2 = none := by simpa using hnone
    obtain ⟨p, hp, rfl⟩ := hσ' q hq
    rw [hnan w (σ p) hq hnone', hφ]
    apply hnan _ p hp
    simp [hnone']
end nv

end XrsVerif
