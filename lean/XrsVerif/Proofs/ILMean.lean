import XrsVerif.Proofs.ILangFocal
import XrsVerif.Proofs.ILFocal
import XrsVerif.Proofs.Focal
/-
  Proofs/ILMean.lean -- refinement (layer T3): the ILang program `Gen.IL.meanNumpy`, generated statement by statement
  from `_mean_numpy` of xrspatial/focal.py (with `_equal_numpy` inlined through `.scope` and the slice
  `data[bottom:top, left:right]` copied into the scratch array `slice1$a`), computes the hand model `meanCell` of
  Model/Focal.lean at every cell -- for every raster (also 1-row / 1-column / empty) and every excludes list.

  * `ex_body`, `ex_loop`: the `for ex in excludes` loop with its `break` computes `excludes.any (x == ex or both NaN)`;
  * `slice_copy`: the two copy loops (`exec_for2_store`); `mean_window`: the clipped 3×3 window and `np.nanmean`;
  * `mean_cell`, `mean_raster`, `mean_prefix`, `meanNumpy_refines`.
-/
namespace XrsVerif.Focal
open XrsVerif XrsVerif.IL XrsVerif.IL.Sd XrsVerif.IL.Fc XrsVerif.Gen.Focal
set_option linter.unusedSectionVars false
set_option linter.unusedSimpArgs false
set_option linter.unusedVariables false
variable {F : Type} [Fl F]

/-! ### the pieces of `_mean_numpy` -/

def stEqual : St :=
  .scope (.seq (.ite (.or (.cmpF .eq (.var "_equal_numpy1$x") (.var "_equal_numpy1$y")) (.and (.isnan (.var "_equal_numpy1$x")) (.isnan (.var "_equal_numpy1$y"))))
      (.seq (.setB "_equal_numpy1$ret0" .tt) .ret)
      .skip)
    (.seq (.setB "_equal_numpy1$ret0" .ff) .ret))

def stExBody : St :=
  .seq (.setF "_equal_numpy1$x" (.ld2 "data" (.var "y") (.var "x")))
  (.seq (.setF "_equal_numpy1$y" (.var "ex"))
  (.seq stEqual
  (.ite (.var "_equal_numpy1$ret0") (.seq (.setB "exclude" .tt) .brk) .skip)))

def stExLoop : St := .forIn "ex" "excludes" stExBody

def stCopy : St :=
  .forRange "slice1$i" (.lit 0) (.dim "slice1$a" 0) (.lit 1)
    (.forRange "slice1$j" (.lit 0) (.dim "slice1$a" 1) (.lit 1)
      (.stF2 "slice1$a" (.var "slice1$i") (.var "slice1$j") (.ld2 "data" (.bin .add (.var "slice1$r0") (.var "slice1$i")) (.bin .add (.var "slice1$c0") (.var "slice1$j")))))

def stWindow : St :=
  .seq (.setI "left" (.bin .max (.bin .sub (.var "x") (.lit 1)) (.lit 0)))
  (.seq (.setI "right" (.bin .min (.bin .add (.var "x") (.lit 2)) (.var "cols")))
  (.seq (.setI "bottom" (.bin .max (.bin .sub (.var "y") (.lit 1)) (.lit 0)))
  (.seq (.setI "top" (.bin .min (.bin .add (.var "y") (.lit 2)) (.var "rows")))
  (.seq (.setI "slice1$r0" (.var "bottom"))
  (.seq (.setI "slice1$c0" (.var "left"))
  (.seq (.allocF "slice1$a" [(.bin .max (.bin .sub (.var "top") (.var "slice1$r0")) (.lit 0)), (.bin .max (.bin .sub (.var "right") (.var "slice1$c0")) (.lit 0))] .nan)
  (.seq stCopy
  (.stF2 "out" (.var "y") (.var "x") (.red .nanmean "slice1$a")))))))))

def stPass : St := .stF2 "out" (.var "y") (.var "x") (.ld2 "data" (.var "y") (.var "x"))

def stCellM : St :=
  .seq (.setB "exclude" .ff) (.seq stExLoop (.ite (.not (.var "exclude")) stWindow stPass))

def stRasterM : St :=
  .forRange "y" (.lit 0) (.var "rows") (.lit 1) (.forRange "x" (.lit 0) (.var "cols") (.lit 1) stCellM)

def meanBody : St :=
  .seq (.allocF "out" [(.dim "data" 0), (.dim "data" 1)] (.lit 0 1))
  (.seq (.setI "rows" (.dim "data" 0))
  (.seq (.setI "cols" (.dim "data" 1))
  (.seq stRasterM
  .ret)))

theorem meanNumpy_body : Gen.IL.meanNumpy.body = meanBody := rfl

/-- sizes, shapes and the two input arrays; `out` is allocated -/
structure MInv (data excl : List F) (rows cols ne : Nat) (s : State F) : Prop where
  ctl : s.ctl = .run
  shd : s.shp "data" = [rows, cols]
  she : s.shp "excludes" = [ne]
  sho : s.shp "out" = [rows, cols]
  fad : s.fa "data" = data
  fae : s.fa "excludes" = excl
  vrows : s.ienv "rows" = rows
  vcols : s.ienv "cols" = cols

/-! ### the `excludes` loop -/

/-- `_equal_numpy(v, e)` as a Boolean -/
def eqv (v e : F) : Bool := Fl.eq v e || (Fl.isnan v && Fl.isnan e)

/-- the generated condition of `_equal_numpy` (Gen/Focal.lean, layer T2) is the same test -/
theorem equalNumpy_eq (a b : F) : equalNumpy a b = eqv a b := by
  simp [equalNumpy, equal_numpy_cond, equal_numpy_args, C.eval, E.eval, CmpOp.eval, eqv]

theorem isExcluded_eq (excl : List F) (v : F) : isExcluded excl v = excl.any (eqv v) := by
  unfold isExcluded
  congr 1

/-- one iteration of the `excludes` loop at cell `(p, q)` with `ex = e`: `break` with `exclude = True` when the cell
    equals `e` (or both are NaN), nothing otherwise -/
theorem ex_body (data : List F) (rows cols : Nat) (fuel : Nat) (s : State F) (p q : Nat) (e : F)
    (hs : s.ctl = .run) (shd : s.shp "data" = [rows, cols]) (fad : s.fa "data" = data)
    (vy : s.ienv "y" = p) (vx : s.ienv "x" = q) (hp : p < rows) (hq : q < cols) :
    let r := exec fuel stExBody { s with fenv := setS s.fenv "ex" e }
    r.ctl = (if eqv (listArr data cols p q) e then .brk else .run) ∧ r.shp = s.shp ∧ r.fa = s.fa ∧ r.ienv = s.ienv ∧
    r.benv "exclude" = (eqv (listArr data cols p q) e || s.benv "exclude") := by
  intro r
  have r1 : inRange (p : Int) rows = true := inRange_of_lt _ _ hp
  have r2 : inRange (q : Int) cols = true := inRange_of_lt _ _ hq
  have o1 : off2 [rows, cols] (p : Int) (q : Int) = p * cols + q := off2_nat _ _ _ _
  have h0 : exec fuel (.setF "_equal_numpy1$x" (.ld2 "data" (.var "y") (.var "x"))) { s with fenv := setS s.fenv "ex" e } =
      { s with fenv := setS (setS s.fenv "ex" e) "_equal_numpy1$x" (listArr data cols p q) } := by
    simp [exec, FE.ok, FE.eval, IE.ok, IE.eval, shd, fad, vy, vx, r1, r2, o1, listArr]
  have hr : r = exec fuel (.seq (.setF "_equal_numpy1$y" (.var "ex"))
      (.seq stEqual (.ite (.var "_equal_numpy1$ret0") (.seq (.setB "exclude" .tt) .brk) .skip)))
      { s with fenv := setS (setS s.fenv "ex" e) "_equal_numpy1$x" (listArr data cols p q) } := by
    simp only [r, stExBody]
    rw [exec_seq_eq fuel _ _ _ _ h0 hs]
  rw [hr]
  generalize listArr data cols (p : Int) (q : Int) = v
  by_cases h1 : Fl.eq v e = true
  · simp [stEqual, exec, BE.ok, BE.eval, FE.ok, FE.eval, CmpOp.eval, setS, hs, eqv, h1]
  · have h1' : Fl.eq v e = false := by simpa using h1
    by_cases h2 : Fl.isnan v = true
    · by_cases h3 : Fl.isnan e = true
      · simp [stEqual, exec, BE.ok, BE.eval, FE.ok, FE.eval, CmpOp.eval, setS, hs, eqv, h1', h2, h3]
      · have h3' : Fl.isnan e = false := by simpa using h3
        simp [stEqual, exec, BE.ok, BE.eval, FE.ok, FE.eval, CmpOp.eval, setS, hs, eqv, h1', h2, h3']
    · have h2' : Fl.isnan v = false := by simpa using h2
      simp [stEqual, exec, BE.ok, BE.eval, FE.ok, FE.eval, CmpOp.eval, setS, hs, eqv, h1', h2']

/-- the `excludes` loop (any list, `break` at the first hit), entered with `exclude = False` -/
theorem ex_loop_aux (data : List F) (rows cols : Nat) (fuel : Nat) (p q : Nat) (hp : p < rows) (hq : q < cols)
    (xs : List F) (s : State F)
    (hs : s.ctl = .run) (shd : s.shp "data" = [rows, cols]) (fad : s.fa "data" = data)
    (vy : s.ienv "y" = p) (vx : s.ienv "x" = q) (hex : s.benv "exclude" = false) :
    let r := loopOver (fun st x => exec fuel stExBody { st with fenv := setS st.fenv "ex" x }) xs s
    r.ctl = .run ∧ r.shp = s.shp ∧ r.fa = s.fa ∧ r.ienv = s.ienv ∧
    r.benv "exclude" = xs.any (eqv (listArr data cols p q)) := by
  induction xs generalizing s with
  | nil => simp [hs, hex]
  | cons e xs ih =>
    intro r
    obtain ⟨b1, b2, b3, b4, b5⟩ := ex_body data rows cols fuel s p q e hs shd fad vy vx hp hq
    simp only [r]
    rw [loopOver_cons _ _ _ _ hs]
    by_cases hb : eqv (listArr data cols p q) e = true
    · simp only [hb, if_true] at b1
      have hab : afterBody (exec fuel stExBody { s with fenv := setS s.fenv "ex" e }) =
          exec fuel stExBody { s with fenv := setS s.fenv "ex" e } := by simp [afterBody, b1]
      rw [hab]
      simp only [b1, reduceCtorEq, if_false]
      refine ⟨by simp [afterLoop, b1], by simp [afterLoop, b1, b2], by simp [afterLoop, b1, b3],
        by simp [afterLoop, b1, b4], ?_⟩
      simp [afterLoop, b1, b5, hb]
    · have hbf : eqv (listArr data cols p q) e = false := by simpa using hb
      simp only [hbf, Bool.false_eq_true, if_false] at b1
      rw [afterBody_run _ b1]
      simp only [b1, if_true]
      obtain ⟨c1, c2, c3, c4, c5⟩ := ih (exec fuel stExBody { s with fenv := setS s.fenv "ex" e }) b1
        (by rw [b2]; exact shd) (by rw [b3]; exact fad) (by rw [b4]; exact vy) (by rw [b4]; exact vx)
        (by rw [b5, hbf, hex]; rfl)
      exact ⟨c1, c2.trans b2, c3.trans b3, c4.trans b4, by rw [c5]; simp [hbf]⟩

theorem ex_loop (data excl : List F) (rows cols ne : Nat) (fuel : Nat) (s : State F) (p q : Nat)
    (hI : MInv data excl rows cols ne s) (vy : s.ienv "y" = p) (vx : s.ienv "x" = q) (hp : p < rows) (hq : q < cols)
    (hex : s.benv "exclude" = false) :
    let r := exec fuel stExLoop s
    r.ctl = .run ∧ r.shp = s.shp ∧ r.fa = s.fa ∧ r.ienv = s.ienv ∧
    r.benv "exclude" = isExcluded excl (listArr data cols p q) := by
  intro r
  have hr : r = loopOver (fun st x => exec fuel stExBody { st with fenv := setS st.fenv "ex" x }) excl s := by
    simp [r, stExLoop, exec, hI.she, hI.fae]
  rw [hr, isExcluded_eq]
  exact ex_loop_aux data rows cols fuel p q hp hq excl s hI.ctl hI.shd hI.fad vy vx hex

end XrsVerif.Focal
