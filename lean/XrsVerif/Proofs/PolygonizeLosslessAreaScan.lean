import XrsVerif.Proofs.PolygonizeLosslessArea
import XrsVerif.Proofs.PolygonizeLosslessScan
import XrsVerif.Proofs.PolygonizeLosslessWF
/-
  C15, losslessness: area and orientation of the polygons `_scan` returns.

  `area_region`         Σ over the rings of a polygon of the shoelace areas = 2 · (number of pixels of the region)
                        (Green for every ring + the winding number w.r.t. all rings is the region's indicator);
  `orientation_region`  the exterior ring has positive area (anticlockwise), every hole ring negative area
                        (clockwise): around the exterior cycle the winding number is 1 on the region and 0 or 1
                        elsewhere, around a hole cycle 0 on the region and 0 or −1 elsewhere, −1 at the pixel
                        above the edge the hole was started from.
-/
set_option linter.unusedVariables false
namespace XrsVerif.Polygonize

theorem sumN_split (a b : Nat) (g : Nat → Int) : sumN (a + b) g = sumN a g + sumN b (fun i => g (a + i)) := by
  induction b with
  | zero => simp [sumN]
  | succ b ih => rw [← Nat.add_assoc]; simp only [sumN, ih]; omega

/-- sum over the flat indices = sum over rows of sums over columns -/
theorem sumN_flat (nx ny : Nat) (g : Nat → Int) :
    sumN (nx * ny) g = sumN ny (fun y => sumN nx (fun x => g (x + y * nx))) := by
  induction ny with
  | zero => simp [sumN]
  | succ ny ih =>
    rw [Nat.mul_succ, sumN_split, ih]
    simp only [sumN]
    congr 1
    apply sumN_congr
    intro x _
    rw [Nat.add_comm, Nat.mul_comm]

theorem countP_range (n : Nat) (p : Nat → Bool) :
    (((List.range n).countP p : Nat) : Int) = sumN n (fun i => if p i = true then 1 else 0) := by
  induction n with
  | zero => simp [sumN]
  | succ n ih =>
    rw [List.range_succ, List.countP_append]
    simp only [sumN, List.countP_cons, List.countP_nil]
    rw [← ih]
    split <;> simp

theorem sumN_nonneg {n : Nat} {g : Nat → Int} (h : ∀ i, i < n → 0 ≤ g i) : 0 ≤ sumN n g := by
  induction n with
  | zero => simp [sumN]
  | succ n ih =>
    simp only [sumN]
    have := ih (fun i hi => h i (by omega))
    have := h n (by omega)
    omega

theorem sumN_pos {n : Nat} {g : Nat → Int} (h : ∀ i, i < n → 0 ≤ g i) {a : Nat} (ha : a < n) (hpos : 0 < g a) :
    0 < sumN n g := by
  induction n with
  | zero => omega
  | succ n ih =>
    simp only [sumN]
    by_cases han : a = n
    · subst han
      have := sumN_nonneg (fun i hi => h i (by omega) : ∀ i, i < a → 0 ≤ g i)
      omega
    · have := ih (fun i hi => h i (by omega)) (by omega)
      have := h n (by omega)
      omega

theorem gsum_pos {nx ny : Nat} {F : Int → Int → Int}
    (h : ∀ X Y : Nat, X < nx → Y < ny → 0 ≤ F (X : Int) (Y : Int)) {X Y : Nat} (hX : X < nx) (hY : Y < ny)
    (hpos : 0 < F (X : Int) (Y : Int)) : 0 < gsum nx ny F := by
  unfold gsum
  apply sumN_pos (a := Y) _ hY
  · exact sumN_pos (fun x hx => h x Y hx hY) hX hpos
  · intro y hy; exact sumN_nonneg (fun x hx => h x y hx hy)

theorem gsum_neg' (nx ny : Nat) (F : Int → Int → Int) : gsum nx ny (fun x y => -F x y) = -gsum nx ny F := by
  unfold gsum
  rw [← sumN_neg]
  apply sumN_congr; intro y _; rw [sumN_neg]

theorem gsum_flatten (nx ny : Nat) (cs : List (List FSt)) :
    gsum nx ny (wcol cs.flatten) = (cs.map (fun c => gsum nx ny (wcol c))).sum := by
  induction cs with
  | nil =>
    have : ∀ x y : Int, wcol [] x y = 0 := wcol_nil
    simp [gsum, this, sumN_zero]
  | cons c cs ih =>
    rw [List.flatten_cons, List.map_cons, List.sum_cons, ← ih, ← gsum_add]
    exact gsum_congr (fun X Y _ _ => wcol_append c cs.flatten X Y)

theorem nodup_of_mem_flatten {cs : List (List FSt)} (h : cs.flatten.Nodup) {c : List FSt} (hc : c ∈ cs) :
    c.Nodup := by
  induction cs with
  | nil => cases hc
  | cons d cs ih =>
    rw [List.flatten_cons, List.nodup_append] at h
    rcases List.mem_cons.mp hc with e | e
    · rw [e]; exact h.1
    · exact ih h.2.1 e

section region
variable (nx ny : Nat) (hnx : 0 < nx) (regs : Nat → Nat) (conn8 : Bool)
  (E : Nat → Nat → Prop)
  (hE : ∀ p q, E p q → p < nx * ny ∧ q ∈ back nx conn8 p ∧ regs p = regs q)
  (hconn : ∀ p q, p < nx * ny → q < nx * ny → regs p = regs q → regs p ≠ 0 → Cl E p q)
include hnx hE hconn

/-- **area**: the shoelace areas of the rings of a polygon add up to twice the number of pixels of its region -/
theorem area_region {r f : Nat} {cs : List (List FSt)} (hr : 1 ≤ r) (hg : GoodReg nx ny regs r f cs)
    (hcov : ∀ X Y : Nat, X < nx → Y + 1 < ny → regs (X + Y * nx) = r → regs (X + (Y + 1) * nx) ≠ r →
      (⟨(X : Int), (Y : Int), .W⟩ : FSt) ∈ cs.flatten) :
    ((cs.map cycRing).map area2).sum = 2 * (((List.range (nx * ny)).countP (fun p => regs p == r) : Nat) : Int) := by
  have hR := inRegion_inRaster nx ny regs r
  have hclosed : Closed (inRegion nx ny regs r) cs.flatten := closed_flatten _ (fun c hc => (hg.cyc c hc).1)
  have hnd := hg.nodup
  obtain ⟨c0, rest, hcs, hE0, _⟩ := hg.head
  have hEf : Est nx f ∈ cs.flatten := by
    rw [hcs, List.flatten_cons]; exact List.mem_append_left _ hE0
  have hind := w_indicator hnx regs r hclosed (f := f)
    (fun p hp' hpr => region_const nx ny hnx regs conn8 E hE hconn (by omega) hg.inr hg.reg hclosed p hp' hpr)
    hg.first (by rw [hnd.count]; exact if_pos hEf)
    (fun X' Y' hX' hY' h1 h2 => by rw [hnd.count]; exact if_pos (hcov X' Y' hX' hY' h1 h2))
  have h1 : ((cs.map cycRing).map area2).sum = 2 * (cs.map (fun c => gsum nx ny (wcol c))).sum := by
    have key : ∀ ds : List (List FSt), (∀ c ∈ ds, IsCyc (inRegion nx ny regs r) c) →
        ((ds.map cycRing).map area2).sum = 2 * (ds.map (fun c => gsum nx ny (wcol c))).sum := by
      intro ds
      induction ds with
      | nil => intro _; simp
      | cons c ds ih =>
        intro h
        simp only [List.map_cons, List.sum_cons]
        rw [ih (fun c' hc' => h c' (List.mem_cons_of_mem _ hc')), green hR (h c List.mem_cons_self)]
        omega
    exact key cs hg.cyc
  rw [h1, ← gsum_flatten, countP_range, sumN_flat]
  congr 1
  unfold gsum
  apply sumN_congr; intro y hy
  apply sumN_congr; intro x hx
  rw [hind x hx y hy]
  simp only [beq_iff_eq]

/-- the winding number around a single cycle of the region: `a` on the region, `a`, `a − 1` or `0` elsewhere,
    where `a` is the number of occurrences of the S edge of the first pixel -/
theorem wcol_cycle_values {r f : Nat} {cs : List (List FSt)} (hr : 1 ≤ r) (hg : GoodReg nx ny regs r f cs)
    {c : List FSt} (hc : c ∈ cs) (X : Nat) (hX : X < nx) : ∀ Y : Nat, Y < ny →
      (regs (X + Y * nx) = r → wcol c (X : Int) (Y : Int) = (c.count (Est nx f) : Int)) ∧
      (wcol c (X : Int) (Y : Int) = (c.count (Est nx f) : Int) ∨
       wcol c (X : Int) (Y : Int) = (c.count (Est nx f) : Int) - 1 ∨ wcol c (X : Int) (Y : Int) = 0) := by
  have hR := inRegion_inRaster nx ny regs r
  have hcl := (hg.cyc c hc).1
  have hndc := nodup_of_mem_flatten hg.nodup hc
  have hin : ∀ Y : Nat, Y < ny → regs (X + Y * nx) = r → wcol c (X : Int) (Y : Int) = (c.count (Est nx f) : Int) := by
    intro Y hY hreg
    have hp : X + Y * nx < nx * ny := by
      have : (Y + 1) * nx ≤ ny * nx := Nat.mul_le_mul_right nx hY
      rw [Nat.add_mul, Nat.mul_comm ny nx] at this; omega
    have := region_const nx ny hnx regs conn8 E hE hconn (by omega) hg.inr hg.reg hcl _ hp hreg
    rw [w_first hnx regs r hcl hg.first] at this
    unfold wP at this
    rw [(xy_of X Y hX).1, (xy_of X Y hX).2] at this
    exact this
  intro Y
  induction Y with
  | zero =>
    intro hY
    refine ⟨hin 0 hY, ?_⟩
    by_cases hreg : regs (X + 0 * nx) = r
    · left; exact hin 0 hY hreg
    · right; right
      have e := wcol_succ c (X : Int) (-1)
      have z := wcol_below hcl hR (X : Int) (-1) (by omega)
      have c1 : c.count ⟨(X : Int), -1 + 1, .E⟩ = 0 := by
        apply hcl.count_invalid
        intro hv
        have h1 : inRegion nx ny regs r (X : Int) ((0 : Nat) : Int) = true := by
          have := hv.1; simpa using this
        exact hreg ((inRegion_nat nx ny regs r X 0).mp h1).2.2
      have c2 : c.count ⟨(X : Int), -1, .W⟩ = 0 := by
        apply hcl.count_invalid
        intro hv; have := hR _ _ hv.1; simp only at this; omega
      rw [z, c1, c2] at e
      simpa using e
  | succ Y ih =>
    intro hY
    refine ⟨hin (Y + 1) hY, ?_⟩
    by_cases hreg : regs (X + (Y + 1) * nx) = r
    · left; exact hin (Y + 1) hY hreg
    · have e := wcol_succ c (X : Int) (Y : Int)
      have c1 : c.count ⟨(X : Int), (Y : Int) + 1, .E⟩ = 0 := by
        apply hcl.count_invalid
        intro hv
        have h1 := hv.1
        simp only at h1
        have := (inRegion_nat nx ny regs r X (Y + 1)).mp (by simpa using h1)
        exact hreg this.2.2
      rw [c1] at e
      rw [Int.natCast_add, Int.natCast_one, e]
      obtain ⟨ih1, ih2⟩ := ih (by omega)
      by_cases hreg0 : regs (X + Y * nx) = r
      · have hw := hndc.count (a := (⟨(X : Int), (Y : Int), .W⟩ : FSt))
        have hle : c.count ⟨(X : Int), (Y : Int), .W⟩ ≤ 1 := by rw [hw]; split <;> omega
        rw [ih1 hreg0]; omega
      · rw [hcl.count_invalid (a := ⟨(X : Int), (Y : Int), .W⟩)
          (fun hv => hreg0 ((inRegion_nat nx ny regs r X Y).mp hv.1).2.2)]
        simpa using ih2

/-- **orientation**: the exterior ring is anticlockwise (positive area), every hole ring clockwise -/
theorem orientation_region {r f : Nat} {cs : List (List FSt)} (hr : 1 ≤ r) (hg : GoodReg nx ny regs r f cs) :
    ∃ c0 rest, cs = c0 :: rest ∧ 0 < area2 (cycRing c0) ∧ ∀ h ∈ rest, area2 (cycRing h) < 0 := by
  have hR := inRegion_inRaster nx ny regs r
  obtain ⟨c0, rest, hcs, hE0, hholes⟩ := hg.head
  have hnd0 : (c0 ++ rest.flatten).Nodup := by
    have := hg.nodup; rw [hcs, List.flatten_cons] at this; exact this
  obtain ⟨hn0, hnr, hdis⟩ := List.nodup_append.mp hnd0
  refine ⟨c0, rest, hcs, ?_, ?_⟩
  · -- exterior
    have hc0 : c0 ∈ cs := by rw [hcs]; exact List.mem_cons_self
    rw [green hR (hg.cyc c0 hc0)]
    have ha : (c0.count (Est nx f) : Int) = 1 := by rw [hn0.count, if_pos hE0]; rfl
    have hfx : f % nx < nx := Nat.mod_lt f hnx
    have hfy : f / nx < ny := div_lt_ny hnx hg.inr
    have hpos : 0 < gsum nx ny (wcol c0) := by
      apply gsum_pos (X := f % nx) (Y := f / nx) _ hfx hfy
      · have := (wcol_cycle_values nx ny hnx regs conn8 E hE hconn hr hg hc0 (f % nx) hfx (f / nx) hfy).1
          (by rw [decode_ij]; exact hg.reg)
        rw [this, ha]; omega
      · intro X Y hX hY
        have := (wcol_cycle_values nx ny hnx regs conn8 E hE hconn hr hg hc0 X hX Y hY).2
        rw [ha] at this; omega
    omega
  · -- holes
    intro h hh
    have hhc : h ∈ cs := by rw [hcs]; exact List.mem_cons_of_mem _ hh
    have hcl := (hg.cyc h hhc).1
    have hndh := nodup_of_mem_flatten hg.nodup hhc
    rw [green hR (hg.cyc h hhc)]
    have hnot : Est nx f ∉ h := fun hmem => hdis _ hE0 _ (List.mem_flatten.mpr ⟨h, hh, hmem⟩) rfl
    have ha : (h.count (Est nx f) : Int) = 0 := by rw [List.count_eq_zero_of_not_mem hnot]; rfl
    obtain ⟨q, hq1, hq2, hq3, hq4⟩ := hholes h hh
    -- the pixel above the start edge
    have hv := hcl.valid _ hq4
    have hx : (q - nx) % nx < nx := Nat.mod_lt _ hnx
    have hd := decode_ij nx (q - nx)
    have hup : (q - nx) % nx + ((q - nx) / nx + 1) * nx = q := by rw [Nat.add_mul]; omega
    have hy1 : (q - nx) / nx + 1 < ny := by
      have : (q - nx) / nx + 1 ≤ q / nx := by
        rw [Nat.le_div_iff_mul_le hnx]; omega
      have := div_lt_ny hnx hq2
      omega
    have hregl : regs ((q - nx) % nx + (q - nx) / nx * nx) = r :=
      ((inRegion_nat nx ny regs r _ _).mp hv.1).2.2
    have hneg : 0 < gsum nx ny (fun x y => -wcol h x y) := by
      apply gsum_pos (X := (q - nx) % nx) (Y := (q - nx) / nx + 1) _ hx hy1
      · have e := wcol_succ h (((q - nx) % nx : Nat) : Int) (((q - nx) / nx : Nat) : Int)
        have c1 : h.count ⟨(((q - nx) % nx : Nat) : Int), (((q - nx) / nx : Nat) : Int) + 1, .E⟩ = 0 := by
          apply hcl.count_invalid
          intro hv'
          have h1 := hv'.1
          simp only at h1
          have := (inRegion_nat nx ny regs r ((q - nx) % nx) ((q - nx) / nx + 1)).mp (by simpa using h1)
          rw [hup] at this
          exact hq3 this.2.2
        have c2 : h.count ⟨(((q - nx) % nx : Nat) : Int), (((q - nx) / nx : Nat) : Int), .W⟩ = 1 := by
          rw [hndh.count]; exact if_pos hq4
        have w0 := (wcol_cycle_values nx ny hnx regs conn8 E hE hconn hr hg hhc _ hx ((q - nx) / nx) (by omega)).1 hregl
        rw [c1, c2, w0, ha] at e
        rw [Int.natCast_add, Int.natCast_one, e]; omega
      · intro X Y hX hY
        have := (wcol_cycle_values nx ny hnx regs conn8 E hE hconn hr hg hhc X hX Y hY).2
        rw [ha] at this; omega
    rw [gsum_neg'] at hneg
    omega

/-- area and orientation of the polygons `_scan` returns -/
theorem scan_area {V : Type} (values : Nat → V) (hrank : Ranked regs (nx * ny))
    (sc : Scan V)
    (hsc : (List.range (nx * ny)).foldl (scanStep nx ny regs values) ⟨[], [], 0, [], [], true⟩ = sc) :
    ∀ i, i < sc.regionDone →
      ((sc.polys.getD i []).map area2).sum =
        2 * (((List.range (nx * ny)).countP (fun p => regs p == i + 1) : Nat) : Int) ∧
      ∃ ext holes, sc.polys.getD i [] = ext :: holes ∧ 0 < area2 ext ∧ ∀ h ∈ holes, area2 h < 0 := by
  obtain ⟨cyc, fs, h0⟩ := scan_inv nx ny hnx regs values hrank
  rw [hsc] at h0
  have h := h0
  intro i hi
  have hpol : sc.polys.getD i [] = (cyc (i + 1)).map cycRing := by
    rw [List.getD_eq_getElem?_getD, h.polys, List.getElem?_map, List.getElem?_range hi]; rfl
  obtain ⟨hg, _⟩ := h.good (i + 1) (by omega) (by omega)
  rw [hpol]
  have hcov : ∀ X' Y' : Nat, X' < nx → Y' + 1 < ny → regs (X' + Y' * nx) = i + 1 →
      regs (X' + (Y' + 1) * nx) ≠ i + 1 → (⟨(X' : Int), (Y' : Int), .W⟩ : FSt) ∈ (cyc (i + 1)).flatten := by
    intro X' Y' hX' hY' h1 h2
    have hq : X' + (Y' + 1) * nx < nx * ny := by
      have : (Y' + 1 + 1) * nx ≤ ny * nx := Nat.mul_le_mul_right nx hY'
      rw [Nat.add_mul (Y' + 1) 1, Nat.mul_comm ny nx] at this; omega
    have hsub : X' + (Y' + 1) * nx - nx = X' + Y' * nx := by rw [Nat.add_mul]; omega
    have hmem := h.cov (X' + (Y' + 1) * nx) (by rw [Nat.add_mul]; omega) hq (by rw [hsub, h1]; exact h2)
      (by rw [hsub, h1]; omega)
    have := ((h.v2 _).mp hmem).2.2.2.2
    rw [hsub, h1] at this
    simp only [Wst, (xy_of X' Y' hX').1, (xy_of X' Y' hX').2] at this
    exact this
  refine ⟨area_region nx ny hnx regs conn8 E hE hconn (by omega) hg hcov, ?_⟩
  obtain ⟨c0, rest, hcs, hp, hn⟩ := orientation_region nx ny hnx regs conn8 E hE hconn (by omega) hg
  refine ⟨cycRing c0, rest.map cycRing, by rw [hcs]; rfl, hp, ?_⟩
  intro hring hmem
  obtain ⟨c, hc, e⟩ := List.mem_map.mp hmem
  rw [← e]; exact hn c hc

/-- every ring `_scan` returns is well formed -/
theorem scan_wf {V : Type} (values : Nat → V) (hrank : Ranked regs (nx * ny))
    (sc : Scan V)
    (hsc : (List.range (nx * ny)).foldl (scanStep nx ny regs values) ⟨[], [], 0, [], [], true⟩ = sc) :
    ∀ i, i < sc.regionDone → ∀ ring ∈ sc.polys.getD i [], ringWellFormed nx ny ring = true := by
  obtain ⟨cyc, fs, h0⟩ := scan_inv nx ny hnx regs values hrank
  rw [hsc] at h0
  have h := h0
  intro i hi ring hring
  have hpol : sc.polys.getD i [] = (cyc (i + 1)).map cycRing := by
    rw [List.getD_eq_getElem?_getD, h.polys, List.getElem?_map, List.getElem?_range hi]; rfl
  obtain ⟨hg, _⟩ := h.good (i + 1) (by omega) (by omega)
  rw [hpol] at hring
  obtain ⟨c, hc, e⟩ := List.mem_map.mp hring
  rw [← e]
  exact ringWellFormed_cyc (inRegion_inRaster nx ny regs (i + 1)) (hg.cyc c hc)

end region

end XrsVerif.Polygonize
