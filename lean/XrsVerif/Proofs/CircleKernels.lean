import XrsVerif.Proofs.KSimp
import XrsVerif.Model.CircleKernels
import Mathlib.Data.Rat.Floor
import Mathlib.Tactic.Positivity
import Mathlib.Tactic.NormNum
import Mathlib.Tactic.Linarith
import Mathlib.Tactic.Ring
set_option linter.unusedSectionVars false
set_option linter.unusedVariables false
/-! Helper lemmas for the circle / annulus kernel model of C19 (Model/CircleKernels.lean evaluated
    over `NV K`): linspace on integer end points, the generated predicate on integer samples, the
    padded inner kernel, `int(r / cellsize)` as a floor, and A.9 (`inEllipse_mono`). -/
namespace XrsVerif.CircleK
open XrsVerif XrsVerif.DistStr

/-- the ellipse predicate of `_ellipse_kernel` on integer offsets:
    `(x / hw)² + (y / hh)² ≤ 1` with the divisions cleared -/
def inEllipse (hw hh x y : ℤ) : Prop := (x * hh) ^ 2 + (y * hw) ^ 2 ≤ (hw * hh) ^ 2

instance (hw hh x y : ℤ) : Decidable (inEllipse hw hh x y) := by unfold inEllipse; infer_instance

section
variable {K : Type} [Field K] [LinearOrder K] [IsStrictOrderedRing K] [Trig K]

theorem ofInt_eq (n : ℤ) : (ofInt n : NV K) = some (n : K) := by
  simp [ofInt]

/-- `np.linspace(-h, h, 2h+1)[j] = j - h` -/
theorem linspaceAt_centred (h : ℤ) (hh : 0 ≤ h) (j : ℕ) (hj : (j : ℤ) ≤ 2 * h) :
    (linspaceAt (-h) h (2 * h + 1) j : NV K) = some ((j : K) - (h : K)) := by
  unfold linspaceAt
  by_cases h0 : h = 0
  · subst h0
    have : j = 0 := by omega
    subst this
    simp [ofInt]
  · have hpos : 0 < h := lt_of_le_of_ne hh (Ne.symm h0)
    have hne : ((2 * h + 1 - 1 : ℤ) : K) ≠ 0 := by
      have : (2 * h + 1 - 1 : ℤ) ≠ 0 := by omega
      exact_mod_cast this
    have hle : ¬ (2 * h + 1 ≤ 1) := by omega
    simp only [hle, if_false, ofInt_eq, fl_div, fl_mul, fl_add, hne, Option.some.injEq]
    have e : ((h - -h : ℤ) : K) = ((2 * h + 1 - 1 : ℤ) : K) := by congr 1; ring
    rw [e, div_self hne]
    push_cast; ring

/-- the generated predicate on integer samples is the 0/1 value of `inEllipse` -/
theorem pred_eq (hw hh x y : ℤ) :
    Gen.ellipse_pred.cell (predEnv (some (x : K)) (some (y : K)) (some (hw : K)) (some (hh : K)))
        (fun _ _ _ => (none : NV K)) (fun _ => []) =
      some (if inEllipse hw hh x y then 1 else 0) := by
  have key : ((x : K) * hh * (x * hh) + y * hw * (y * hw) ≤ hw * hh * (hw * hh)) ↔ inEllipse hw hh x y := by
    unfold inEllipse
    rw [← Int.cast_le (R := K)]
    push_cast
    constructor <;> intro h <;> nlinarith [h]
  ksimp [Gen.ellipse_pred, predEnv]
  by_cases h : inEllipse hw hh x y
  · simp [h, key.mpr h]
  · simp [h, mt key.mp h]

/-- entry (i, j) of `_ellipse_kernel(hw, hh)` is the mask of the offset (j - hw, i - hh) -/
theorem ellipseEntry_eq (hw hh : ℤ) (h1 : 0 ≤ hw) (h2 : 0 ≤ hh) (i j : ℕ)
    (hi : (i : ℤ) ≤ 2 * hh) (hj : (j : ℤ) ≤ 2 * hw) :
    (ellipseEntry hw hh i j : NV K) = some (if inEllipse hw hh (j - hw) (i - hh) then 1 else 0) := by
  unfold ellipseEntry
  simp only [Gen.ellipse_x_start, Gen.ellipse_x_stop, Gen.ellipse_x_num, Gen.ellipse_y_start,
    Gen.ellipse_y_stop, Gen.ellipse_y_num]
  rw [linspaceAt_centred hw h1 j hj, linspaceAt_centred hh h2 i hi, ofInt_eq, ofInt_eq]
  have := pred_eq (K := K) hw hh (j - hw) (i - hh)
  push_cast at this
  exact this

theorem ellipseKernel_ok (hw hh : ℤ) (h1 : 0 ≤ hw) (h2 : 0 ≤ hh) :
    (ellipseKernel hw hh : Except String (KGrid (NV K))) =
      .ok ⟨(2 * hh + 1).toNat, (2 * hw + 1).toNat, ellipseEntry hw hh⟩ := by
  unfold ellipseKernel
  have a : ¬ (Gen.ellipse_x_num hw hh < 0 ∨ Gen.ellipse_y_num hw hh < 0) := by
    simp only [Gen.ellipse_x_num, Gen.ellipse_y_num]; omega
  have b : ¬ (Gen.ellipse_x_axis ≠ 1 ∨ Gen.ellipse_y_axis ≠ 0) := by decide
  rw [if_neg a, if_neg b]
  simp only [Gen.ellipse_x_num, Gen.ellipse_y_num]

theorem ellipseKernel_neg (hw hh : ℤ) (h : hw < 0 ∨ hh < 0) :
    (ellipseKernel hw hh : Except String (KGrid (NV K))) = .error "ValueError" := by
  unfold ellipseKernel
  have a : (Gen.ellipse_x_num hw hh < 0 ∨ Gen.ellipse_y_num hw hh < 0) := by
    simp only [Gen.ellipse_x_num, Gen.ellipse_y_num]; omega
  rw [if_pos a]
end

/-! ### `int(r / cellsize)` -/
theorem pyInt_eq_floor (q : ℚ) (hq : 0 ≤ q) : pyInt q = ⌊q⌋ := by
  unfold pyInt
  rw [Int.tdiv_eq_ediv_of_nonneg (Rat.num_nonneg.mpr hq), Rat.floor_def']

theorem pyInt_nonneg (q : ℚ) (hq : 0 ≤ q) : 0 ≤ pyInt q := by
  rw [pyInt_eq_floor q hq]; exact Int.floor_nonneg.mpr hq

theorem pyInt_mono (a b : ℚ) (ha : 0 ≤ a) (hab : a ≤ b) : pyInt a ≤ pyInt b := by
  rw [pyInt_eq_floor a ha, pyInt_eq_floor b (le_trans ha hab)]; exact Int.floor_le_floor hab

theorem pyFloorDiv_two (k : ℤ) : pyFloorDiv (2 * k) 2 = k := by
  unfold pyFloorDiv
  rw [Int.fdiv_eq_ediv_of_nonneg _ (by norm_num)]; omega
end XrsVerif.CircleK

namespace XrsVerif.CircleK
open XrsVerif XrsVerif.DistStr

theorem circleKernel_fin {F : Type} [Fl F] (rnd : ℚ → ℚ) (cx cy r : ℚ) (hx : cx ≠ 0) (hy : cy ≠ 0) :
    (circleKernel rnd cx cy (.val (.fin r)) : Except String (KGrid F)) =
      ellipseKernel (pyInt (rnd (r / cx))) (pyInt (rnd (r / cy))) := by
  simp [circleKernel, halfWidth, hx, hy, Gen.circle_half_w, Gen.circle_half_h]

/-- A.9: the centred inner ellipse is contained in the outer one -/
theorem inEllipse_mono (a b a' b' x y : ℤ)
    (ha' : 0 ≤ a') (hb' : 0 ≤ b') (haa : a' ≤ a) (hbb : b' ≤ b)
    (hx : |x| ≤ a') (hy : |y| ≤ b')
    (hin : inEllipse a' b' x y) : inEllipse a b x y := by
  unfold inEllipse at *
  have hx2 : x^2 ≤ a'^2 := by
    have := abs_le.mp hx; nlinarith
  have hy2 : y^2 ≤ b'^2 := by
    have := abs_le.mp hy; nlinarith
  have ha0 : 0 ≤ a := le_trans ha' haa
  have hb0 : 0 ≤ b := le_trans hb' hbb
  have ha2 : a'^2 ≤ a^2 := by nlinarith
  have hb2 : b'^2 ≤ b^2 := by nlinarith
  by_cases hza : a' = 0
  · subst hza
    have : x = 0 := by
      have := abs_le.mp hx; omega
    subst this
    nlinarith [sq_nonneg y, sq_nonneg a, sq_nonneg b]
  by_cases hzb : b' = 0
  · subst hzb
    have : y = 0 := by
      have := abs_le.mp hy; omega
    subst this
    nlinarith [sq_nonneg x, sq_nonneg a, sq_nonneg b]
  have hap : 0 < a'^2 := by positivity
  have hbp : 0 < b'^2 := by positivity
  have key : ((x * b)^2 + (y * a)^2) * (a'^2 * b'^2) ≤ (a * b)^2 * (a'^2 * b'^2) := by
    have hU : 0 ≤ (x * b')^2 := sq_nonneg _
    have hV : 0 ≤ (y * a')^2 := sq_nonneg _
    have e1 : (x * b)^2 * (a'^2 * b'^2) = (x * b')^2 * (b^2 * a'^2) := by ring
    have e2 : (y * a)^2 * (a'^2 * b'^2) = (y * a')^2 * (a^2 * b'^2) := by ring
    have s1 : (x * b')^2 * (b^2 * a'^2) ≤ (x * b')^2 * (b^2 * a^2) := by
      apply mul_le_mul_of_nonneg_left _ hU; nlinarith [sq_nonneg b]
    have s2 : (y * a')^2 * (a^2 * b'^2) ≤ (y * a')^2 * (a^2 * b^2) := by
      apply mul_le_mul_of_nonneg_left _ hV; nlinarith [sq_nonneg a]
    have s3 : ((x * b')^2 + (y * a')^2) * (a^2 * b^2) ≤ (a' * b')^2 * (a^2 * b^2) := by
      apply mul_le_mul_of_nonneg_right hin; positivity
    nlinarith
  have hpos : 0 < a'^2 * b'^2 := by positivity
  exact le_of_mul_le_mul_right key hpos

section
variable {K : Type} [Field K] [LinearOrder K] [IsStrictOrderedRing K] [Trig K]

/-- the inner mask as seen from the outer kernel's centre: 1 at offsets inside the inner array that
    satisfy the inner ellipse, 0 elsewhere (the padding) -/
def innerAt (hw hh x y : ℤ) : Prop := |x| ≤ hw ∧ |y| ≤ hh ∧ inEllipse hw hh x y

instance (hw hh x y : ℤ) : Decidable (innerAt hw hh x y) := by unfold innerAt; infer_instance

theorem annulusOf_ellipse (HW HH hw hh : ℤ) (h1 : 0 ≤ hw) (h2 : 0 ≤ hh) (h3 : hw ≤ HW) (h4 : hh ≤ HH) :
    ∃ g : KGrid (NV K),
      annulusOf ⟨(2 * HH + 1).toNat, (2 * HW + 1).toNat, ellipseEntry HW HH⟩
                ⟨(2 * hh + 1).toNat, (2 * hw + 1).toNat, ellipseEntry hw hh⟩ = .ok g ∧
      g.rows = (2 * HH + 1).toNat ∧ g.cols = (2 * HW + 1).toNat ∧
      ∀ i j : ℕ, (i : ℤ) ≤ 2 * HH → (j : ℤ) ≤ 2 * HW →
        g.cell i j = some ((if inEllipse HW HH (j - HW) (i - HH) then (1 : K) else 0)
                          - (if innerAt hw hh (j - HW) (i - HH) then 1 else 0)) := by
  unfold annulusOf
  simp only [Gen.annulus_pad_before_rows, Gen.annulus_pad_after_rows, Gen.annulus_pad_before_cols,
    Gen.annulus_pad_after_cols]
  have e1 : (((2 * HH + 1).toNat : ℤ) - ((2 * hh + 1).toNat : ℤ)) = 2 * (HH - hh) := by omega
  have e2 : (((2 * HW + 1).toNat : ℤ) - ((2 * hw + 1).toNat : ℤ)) = 2 * (HW - hw) := by omega
  rw [e1, e2, pyFloorDiv_two, pyFloorDiv_two]
  unfold pad
  have c : ¬ (HH - hh < 0 ∨ HH - hh < 0 ∨ HW - hw < 0 ∨ HW - hw < 0) := by omega
  rw [if_neg c]
  simp only []
  have r : ¬ ((2 * hh + 1).toNat + (HH - hh).toNat + (HH - hh).toNat ≠ (2 * HH + 1).toNat ∨
      (2 * hw + 1).toNat + (HW - hw).toNat + (HW - hw).toNat ≠ (2 * HW + 1).toNat) := by omega
  rw [if_neg r]
  refine ⟨_, rfl, rfl, rfl, ?_⟩
  intro i j hi hj
  simp only []
  rw [ellipseEntry_eq HW HH (le_trans h1 h3) (le_trans h2 h4) i j hi hj]
  by_cases hin : (HH - hh).toNat ≤ i ∧ i < (HH - hh).toNat + (2 * hh + 1).toNat ∧
      (HW - hw).toNat ≤ j ∧ j < (HW - hw).toNat + (2 * hw + 1).toNat
  · rw [if_pos hin]
    rw [ellipseEntry_eq hw hh h1 h2 _ _ (by omega) (by omega)]
    have ex : (((j - (HW - hw).toNat : ℕ) : ℤ) - hw) = (j : ℤ) - HW := by omega
    have ey : (((i - (HH - hh).toNat : ℕ) : ℤ) - hh) = (i : ℤ) - HH := by omega
    rw [ex, ey]
    have hab : |(j : ℤ) - HW| ≤ hw ∧ |(i : ℤ) - HH| ≤ hh := by
      constructor <;> rw [abs_le] <;> omega
    simp [combine, Gen.annulus_outer_first, Gen.annulus_combine_op, BinOp.eval, innerAt, hab.1, hab.2]
  · rw [if_neg hin]
    have hab : ¬ (|(j : ℤ) - HW| ≤ hw ∧ |(i : ℤ) - HH| ≤ hh) := by
      intro ⟨a, b⟩
      rw [abs_le] at a b
      apply hin; omega
    have : ¬ innerAt hw hh (j - HW) (i - HH) := fun h => hab ⟨h.1, h.2.1⟩
    simp [combine, Gen.annulus_outer_first, Gen.annulus_combine_op, BinOp.eval, this, ofInt, Gen.annulus_pad_constant]
end
end XrsVerif.CircleK
