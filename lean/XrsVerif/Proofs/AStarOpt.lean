import XrsVerif.Proofs.AStarInv
import Mathlib.Algebra.Order.Field.Basic
import Mathlib.Tactic.Ring
import Mathlib.Tactic.Linarith
import Mathlib.Tactic.Positivity
/-
  Optimality of the A* loop over exact arithmetic: costs in an arbitrary linearly ordered field
  `K`, step lengths `wt`, heuristic `hh`; the only assumption for optimality is that the
  heuristic is consistent (`hh u ≤ wt u v + hh v` along every allowed step).

    * `pop_optimal`   the cell taken off the open list carries the length of a shortest route
    * `JK`            the Dijkstra-style invariant (closed cells are final, their neighbours relaxed)
    * `jk_expand`     it survives one expansion
-/
set_option linter.unusedSectionVars false
set_option linter.unusedVariables false
namespace XrsVerif.AStar
variable {K : Type} [Field K] [LinearOrder K] [IsStrictOrderedRing K]

/-- exact arithmetic in `K`; `big` is the sentinel `(height + width)^2` -/
def fieldOps (wt hh : Cell → Cell → K) : Ops K where
  zero := 0
  add := (· + ·)
  lt a b := decide (a < b)
  step := wt
  heur := hh
  big h w := ((h : K) + (w : K)) * ((h : K) + (w : K))

/-- an environment whose costs are computed exactly -/
def Exact (e : Env K) (wt hh : Cell → Cell → K) : Prop := e.ops = fieldOps wt hh

/-- consistency of the heuristic along allowed steps between crossable cells -/
def Consistent (e : Env K) (wt hh : Cell → Cell → K) : Prop :=
  ∀ u v, Free e u → Free e v → Adj e u v → hh u e.goal ≤ wt u v + hh v e.goal

section
variable {e : Env K} {wt hh : Cell → Cell → K}

theorem route_free {C : Type} {e : Env C} {v : Cell} {l : C} (h : Route e v l) : Free e v := by
  cases h with
  | start hf => exact hf
  | step _ _ hf => exact hf

/-! ### `_min_cost_pixel_id` over a linear order: an argmin, or nothing below the sentinel -/

theorem minStep_spec (hx : Exact e wt hh) (st : St K) (acc : Option Cell × K) (x : Cell)
    (hacc : ∀ c, acc.1 = some c → acc.2 = st.f c) :
    (∀ c, (minStep e st acc x).1 = some c → (minStep e st acc x).2 = st.f c) ∧
    (minStep e st acc x).2 ≤ acc.2 ∧
    (st.isOpen x = true → (minStep e st acc x).2 ≤ st.f x) ∧
    ((minStep e st acc x).1 = none → (minStep e st acc x).2 = acc.2) := by
  unfold minStep
  rw [hx]
  simp only [fieldOps]
  by_cases hop : st.isOpen x = true
  · by_cases hlt : st.f x < acc.2
    · simp only [hop, hlt, decide_true, Bool.and_self, if_true]
      refine ⟨?_, le_of_lt hlt, fun _ => le_refl _, ?_⟩
      · intro c hc; simp at hc; rw [hc]
      · intro h; simp at h
    · simp only [hop, hlt, decide_false, Bool.and_false, Bool.false_eq_true, if_false]
      exact ⟨hacc, le_refl _, fun _ => not_lt.mp hlt, fun _ => trivial⟩
  · simp only [hop, Bool.false_and, Bool.false_eq_true, if_false]
    exact ⟨hacc, le_refl _, fun h => h.elim, fun _ => trivial⟩

theorem minFold_spec (hx : Exact e wt hh) (st : St K) :
    ∀ (l : List Cell) (acc : Option Cell × K), (∀ c, acc.1 = some c → acc.2 = st.f c) →
      (∀ c, (l.foldl (minStep e st) acc).1 = some c → (l.foldl (minStep e st) acc).2 = st.f c) ∧
      (l.foldl (minStep e st) acc).2 ≤ acc.2 ∧
      (∀ y ∈ l, st.isOpen y = true → (l.foldl (minStep e st) acc).2 ≤ st.f y) ∧
      ((l.foldl (minStep e st) acc).1 = none → (l.foldl (minStep e st) acc).2 = acc.2)
  | [], acc, hacc => by simpa using hacc
  | x :: l, acc, hacc => by
    obtain ⟨s1, s2, s3, s4⟩ := minStep_spec hx st acc x hacc
    obtain ⟨i1, i2, i3, i4⟩ := minFold_spec hx st l (minStep e st acc x) s1
    simp only [List.foldl_cons]
    refine ⟨i1, le_trans i2 s2, ?_, ?_⟩
    · intro y hy hop
      rcases List.mem_cons.mp hy with rfl | hy
      · exact le_trans i2 (s3 hop)
      · exact i3 y hy hop
    · intro hn
      rw [i4 hn]
      apply s4
      -- the accumulator can only go from `none` to `some`, never back
      by_contra hne
      obtain ⟨c, hc⟩ := Option.ne_none_iff_exists'.mp hne
      have : ∀ (l : List Cell) (a : Option Cell × K), a.1 ≠ none → (l.foldl (minStep e st) a).1 ≠ none := by
        intro l
        induction l with
        | nil => intro a h; simpa using h
        | cons y l ih =>
          intro a h
          simp only [List.foldl_cons]
          apply ih
          unfold minStep
          split
          · simp
          · exact h
      exact this l _ (by rw [hc]; simp) hn

/-- the popped cell has the least `cost` among the open cells -/
theorem minCostOpen_le (hx : Exact e wt hh) {st : St K} {u : Cell} (h : minCostOpen e st = some u)
    {y : Cell} (hy : inside e.h e.w y = true) (hop : st.isOpen y = true) : st.f u ≤ st.f y := by
  obtain ⟨i1, _, i3, _⟩ := minFold_spec hx st (cells e.h e.w) (none, e.ops.big e.h e.w) (by simp)
  unfold minCostOpen at h
  rw [← i1 u h]
  exact i3 y (mem_cells.mpr hy) hop

/-- `(NONE, NONE)`: no open cell is below the sentinel -/
theorem minCostOpen_none (hx : Exact e wt hh) {st : St K} (h : minCostOpen e st = none)
    {y : Cell} (hy : inside e.h e.w y = true) (hop : st.isOpen y = true) :
    e.ops.big e.h e.w ≤ st.f y := by
  obtain ⟨_, _, i3, i4⟩ := minFold_spec hx st (cells e.h e.w) (none, e.ops.big e.h e.w) (by simp)
  unfold minCostOpen at h
  have := i3 y (mem_cells.mpr hy) hop
  rw [i4 h] at this
  exact this

/-! ### the Dijkstra-style invariant -/

structure JK (e : Env K) (wt hh : Cell → Cell → K) (st : St K) : Prop where
  /-- a closed cell carries the length of a shortest route -/
  closed_opt : ∀ u, st.isClosed u = true → ∀ l, Route e u l → st.g u ≤ l
  /-- every crossable, not yet closed neighbour of a closed cell is open and relaxed -/
  relaxed : ∀ u, st.isClosed u = true → ∀ v, Adj e u v → Free e v → st.isClosed v = false →
    st.isOpen v = true ∧ st.g v ≤ st.g u + wt u v
  f_def : ∀ v, st.isOpen v = true → st.f v = st.g v + hh v e.goal

theorem g_start {C : Type} {e : Env C} {st : St C} (hc : Core e st) (h : seen st e.start) :
    st.g e.start = e.ops.zero := by
  obtain ⟨n, l, hw, hch, _⟩ := hc.chain e.start h
  have : walk st.parent e.start 1 e.start = some [e.start] := by simp [walk]
  have := walk_det hw this
  subst this
  simp only [IsChain] at hch
  exact hch.2

/-- a route to a cell that is not closed yet passes an open cell whose `cost` is at most the
    route's length plus the heuristic at its end -/
theorem frontier_bound (hx : Exact e wt hh) (hcons : Consistent e wt hh) {st : St K}
    (hi : Inv e st) (hj : JK e wt hh st) {v : Cell} {l : K} (hr : Route e v l) :
    st.isClosed v = false → ∃ y, st.isOpen y = true ∧ st.f y ≤ l + hh v e.goal := by
  induction hr with
  | start hf =>
    intro hncl
    have hseen := hi.core.start_seen hf
    have hop : st.isOpen e.start = true := by
      rcases hseen with h | h
      · exact h
      · rw [h] at hncl; cases hncl
    refine ⟨e.start, hop, ?_⟩
    rw [hj.f_def _ hop, g_start hi.core hseen]
  | @step u v l hr hadj hf ih =>
    intro hncl
    have hadd : e.ops.add l (e.ops.step u v) = l + wt u v := by rw [hx]; rfl
    rw [hadd]
    by_cases hcu : st.isClosed u = true
    · obtain ⟨hop, hg⟩ := hj.relaxed u hcu v hadj hf hncl
      refine ⟨v, hop, ?_⟩
      rw [hj.f_def _ hop]
      have := hj.closed_opt u hcu l hr
      linarith
    · obtain ⟨y, hy, hfy⟩ := ih (by simpa using hcu)
      refine ⟨y, hy, ?_⟩
      have := hcons u v (route_free hr) hf hadj
      linarith

/-- the cell `_min_cost_pixel_id` picks already carries the length of a shortest route -/
theorem pop_optimal (hx : Exact e wt hh) (hcons : Consistent e wt hh) {st : St K}
    (hi : Inv e st) (hj : JK e wt hh st) {u : Cell} (hmin : minCostOpen e st = some u) :
    ∀ l, Route e u l → st.g u ≤ l := by
  intro l hr
  have hop := minCostOpen_open hmin
  obtain ⟨y, hy, hfy⟩ := frontier_bound hx hcons hi hj hr (hi.core.open_not_closed u hop)
  have hle := minCostOpen_le hx hmin (hi.core.open_free y hy).1 hy
  rw [hj.f_def u hop] at hle
  linarith

/-- relaxing the neighbour `u + off` leaves it open with `g ≤ g u + wt` (when it is crossable
    and not closed) -/
theorem relax_target_field (hx : Exact e wt hh) (u : Cell) (s : St K) (off : Cell)
    (hf : Free e (u.1 + off.1, u.2 + off.2)) (hncl : s.isClosed (u.1 + off.1, u.2 + off.2) = false)
    (hu : s.isClosed u = true) :
    (relax e u s off).isOpen (u.1 + off.1, u.2 + off.2) = true ∧
    (relax e u s off).g (u.1 + off.1, u.2 + off.2) ≤ s.g u + wt u (u.1 + off.1, u.2 + off.2) := by
  rcases relax_target e u s off hf hncl with ⟨h1, h2, h3⟩ | ⟨_, h3⟩
  · rw [h3]
    rw [hx] at h2
    simp only [fieldOps, decide_eq_true_eq] at h2
    exact ⟨h1, le_of_lt h2⟩
  · rw [h3]
    simp only [upd_same, true_and]
    rw [hx]; exact le_refl _

theorem jk_expand (hx : Exact e wt hh) (hcons : Consistent e wt hh) {st : St K}
    (hi : Inv e st) (hj : JK e wt hh st) {u : Cell} (hmin : minCostOpen e st = some u) :
    JK e wt hh (expand e st u) := by
  have hop := minCostOpen_open hmin
  have hucl : (upd st.isClosed u true) u = true := by simp
  have hfold := foldl_inv (relax e u)
    (fun s => s.isClosed = upd st.isClosed u true ∧
      (∀ c, upd st.isClosed u true c = true → s.g c = st.g c) ∧
      (∀ c, st.isOpen c = true → c ≠ u → s.isOpen c = true ∧ s.g c ≤ st.g c) ∧
      (∀ c, s.isOpen c = true → s.f c = s.g c + hh c e.goal))
    (fun off s => Free e (u.1 + off.1, u.2 + off.2) →
      upd st.isClosed u true (u.1 + off.1, u.2 + off.2) = false →
      s.isOpen (u.1 + off.1, u.2 + off.2) = true ∧
      s.g (u.1 + off.1, u.2 + off.2) ≤ st.g u + wt u (u.1 + off.1, u.2 + off.2))
    e.nbrs (close st u)
    (by
      refine ⟨rfl, fun _ _ => rfl, ?_, ?_⟩
      · intro c hc hcu
        exact ⟨by simpa [close, upd_other _ _ hcu] using hc, le_refl _⟩
      · intro c hc
        by_cases hcu : c = u
        · subst hcu; simp [close] at hc
        · exact hj.f_def c (by simpa [close, upd_other _ _ hcu] using hc))
    (by
      intro b a _ ⟨p1, p2, p3, p4⟩
      constructor
      · rcases relax_cases e u b a with h | ⟨hin, hcr, hncl, hnot, h⟩
        · rw [h]; exact ⟨p1, p2, p3, p4⟩
        · rw [h]
          generalize hv : ((u.1 + a.1, u.2 + a.2) : Cell) = v at *
          have hncl' : upd st.isClosed u true v = false := by rw [← p1]; exact hncl
          refine ⟨p1, ?_, ?_, ?_⟩
          · intro c hc
            have hcv : c ≠ v := fun h => by rw [h, hncl'] at hc; cases hc
            simp only [upd_other _ _ hcv]; exact p2 c hc
          · intro c hc hcu
            obtain ⟨q1, q2⟩ := p3 c hc hcu
            by_cases hcv : c = v
            · subst hcv
              refine ⟨by simp, ?_⟩
              simp only [upd_same]
              have : ¬ (b.g c < e.ops.add (b.g u) (e.ops.step u c)) := by
                intro hlt
                apply hnot
                refine ⟨q1, ?_⟩
                rw [hx]; simp only [fieldOps, decide_eq_true_eq]
                rw [hx] at hlt; exact hlt
              exact le_trans (not_lt.mp this) q2
            · simp only [upd_other _ _ hcv]; exact ⟨q1, q2⟩
          · intro c hc
            by_cases hcv : c = v
            · subst hcv
              simp only [upd_same]
              rw [hx]; rfl
            · simp only [upd_other _ _ hcv] at hc ⊢
              exact p4 c hc
      · intro hf hncl
        have hb : b.isClosed (u.1 + a.1, u.2 + a.2) = false := by rw [p1]; exact hncl
        have hbu : b.isClosed u = true := by rw [p1]; exact hucl
        have := relax_target_field hx u b a hf hb hbu
        rw [p2 u hucl] at this
        exact this)
    (by
      intro b a a' _ ⟨p1, p2, p3, p4⟩ hq hf hncl
      obtain ⟨q1, q2⟩ := hq hf hncl
      rcases relax_cases e u b a' with h | ⟨hin, hcr, hncl', hnot, h⟩
      · rw [h]; exact ⟨q1, q2⟩
      · rw [h]
        by_cases hvv : ((u.1 + a.1, u.2 + a.2) : Cell) = (u.1 + a'.1, u.2 + a'.2)
        · rw [← hvv]
          simp only [upd_same]
          refine ⟨trivial, ?_⟩
          rw [hx]; simp only [fieldOps]
          rw [p2 u hucl]
        · simp only [upd_other _ _ hvv]
          exact ⟨q1, q2⟩)
  obtain ⟨⟨p1, p2, p3, p4⟩, hq⟩ := hfold
  have hexp : expand e st u = e.nbrs.foldl (relax e u) (close st u) := rfl
  rw [← hexp] at p1 p2 p3 p4 hq
  refine ⟨?_, ?_, p4⟩
  · intro c hc l hr
    rw [p1] at hc
    rw [p2 c hc]
    by_cases hcu : c = u
    · subst hcu; exact pop_optimal hx hcons hi hj hmin l hr
    · rw [upd_other _ _ hcu] at hc
      exact hj.closed_opt c hc l hr
  · intro x hxc v hadj hf hvn
    rw [p1] at hxc hvn
    by_cases hxu : x = u
    · subst hxu
      obtain ⟨off, hoff, rfl⟩ := hadj
      have := hq off hoff hf hvn
      rw [p2 x hucl]
      exact this
    · have hxc' : st.isClosed x = true := by rwa [upd_other _ _ hxu] at hxc
      have hvu : v ≠ u := fun h => by rw [h, hucl] at hvn; cases hvn
      have hvn' : st.isClosed v = false := by rwa [upd_other _ _ hvu] at hvn
      obtain ⟨r1, r2⟩ := hj.relaxed x hxc' v hadj hf hvn'
      obtain ⟨q1, q2⟩ := p3 v r1 hvu
      rw [p2 x hxc]
      exact ⟨q1, le_trans q2 r2⟩

theorem jk_init (hx : Exact e wt hh) : JK e wt hh (init e) := by
  refine ⟨?_, ?_, ?_⟩
  · intro u hu; unfold init at hu; split at hu <;> simp at hu
  · intro u hu; unfold init at hu; split at hu <;> simp at hu
  · intro v hv
    unfold init at hv ⊢
    split at hv
    · rename_i hc
      have : v = e.start := by
        by_contra hne; simp [upd_other _ _ hne] at hv
      subst this
      simp only [hc, if_true, upd_same]
      rw [hx]; rfl
    · simp at hv

/-! ### the sentinel `(h + w)^2` is above every cost the loop can produce -/

def closedCount (e : Env K) (st : St K) : Nat := (cells e.h e.w).countP st.isClosed

structure JB (e : Env K) (hh : Cell → Cell → K) (s : K) (st : St K) : Prop where
  /-- after `k` expansions no listed cell is farther than `k` longest steps -/
  g_bound : ∀ v, seen st v → st.g v ≤ s * (closedCount e st : K)
  f_def : ∀ v, st.isOpen v = true → st.f v = st.g v + hh v e.goal

theorem jb_init (hx : Exact e wt hh) (s : K) : JB e hh s (init e) := by
  refine ⟨?_, (jk_init hx).f_def⟩
  intro v _
  have h0 : closedCount e (init e) = 0 := by
    unfold closedCount init
    split <;> simp
  have hg : (init e).g v = 0 := by
    unfold init; split <;> (simp only; rw [hx]; rfl)
  rw [h0, hg]; simp

theorem closedCount_expand {st : St K} {u : Cell} (hc : Core e st) (hu : st.isOpen u = true) :
    closedCount e st < closedCount e (expand e st u) := by
  unfold closedCount
  rw [(expand_facts hc hu).2.1]
  refine countP_lt_of_flip (u := u) ?_ (mem_cells.mpr (hc.open_free u hu).1) (by simp)
    (hc.open_not_closed u hu)
  intro x hx
  by_cases hxu : x = u
  · subst hxu; simp
  · simpa [upd_other _ _ hxu] using hx

theorem jb_expand (hx : Exact e wt hh) {s : K} (hs0 : 0 ≤ s) (hwt : ∀ u v, Adj e u v → wt u v ≤ s)
    {st : St K} (hi : Inv e st) (hj : JB e hh s st) {u : Cell} (hu : st.isOpen u = true) :
    JB e hh s (expand e st u) := by
  have hucl : (upd st.isClosed u true) u = true := by simp
  have hgu : st.g u ≤ s * (closedCount e st : K) := hj.g_bound u (Or.inl hu)
  have hfold := foldl_inv (relax e u)
    (fun b => b.isClosed = upd st.isClosed u true ∧ b.g u = st.g u ∧
      (∀ v, seen b v → b.g v ≤ s * ((closedCount e st : K) + 1)) ∧
      (∀ c, b.isOpen c = true → b.f c = b.g c + hh c e.goal))
    (fun _ _ => True) e.nbrs (close st u)
    (by
      refine ⟨rfl, rfl, ?_, ?_⟩
      · intro v hv
        have := hj.g_bound v ((seen_close hu v).mp hv)
        have h2 : s * (closedCount e st : K) ≤ s * ((closedCount e st : K) + 1) :=
          mul_le_mul_of_nonneg_left (by linarith) hs0
        exact le_trans this h2
      · intro c hc
        by_cases hcu : c = u
        · subst hcu; simp [close] at hc
        · exact hj.f_def c (by simpa [close, upd_other _ _ hcu] using hc))
    (by
      intro b a ha ⟨p1, p2, p3, p4⟩
      refine ⟨?_, trivial⟩
      rcases relax_cases e u b a with h | ⟨hin, hcr, hncl, hnot, h⟩
      · rw [h]; exact ⟨p1, p2, p3, p4⟩
      · rw [h]
        generalize hv : ((u.1 + a.1, u.2 + a.2) : Cell) = v at *
        have huv : u ≠ v := fun h => by rw [← h, p1, hucl] at hncl; cases hncl
        refine ⟨p1, ?_, ?_, ?_⟩
        · simp only [upd_other _ _ huv]; exact p2
        · intro c hc
          by_cases hcv : c = v
          · subst hcv
            simp only [upd_same]
            rw [hx]; simp only [fieldOps]
            rw [p2]
            have := hwt u c ⟨a, ha, hv.symm⟩
            have h2 : s * ((closedCount e st : K) + 1) = s * (closedCount e st : K) + s := by ring
            rw [h2]; linarith
          · simp only [upd_other _ _ hcv]
            apply p3
            rcases hc with hc | hc
            · exact Or.inl (by simpa [upd_other _ _ hcv] using hc)
            · exact Or.inr hc
        · intro c hc
          by_cases hcv : c = v
          · subst hcv
            simp only [upd_same]
            rw [hx]; rfl
          · simp only [upd_other _ _ hcv] at hc ⊢
            exact p4 c hc)
    (by intros; trivial)
  obtain ⟨⟨_, _, p3, p4⟩, _⟩ := hfold
  have hexp : expand e st u = e.nbrs.foldl (relax e u) (close st u) := rfl
  rw [← hexp] at p3 p4
  refine ⟨?_, p4⟩
  intro v hv
  have hcc := closedCount_expand hi.core hu
  have h1 : ((closedCount e st : K) + 1) ≤ (closedCount e (expand e st u) : K) := by
    exact_mod_cast hcc
  exact le_trans (p3 v hv) (mul_le_mul_of_nonneg_left h1 hs0)

/-- `_min_cost_pixel_id` cannot come back empty-handed while a cell is open -/
theorem no_sentinel (hx : Exact e wt hh) {s : K} (hs0 : 0 ≤ s) (hs2 : s < 2)
    (hhb : ∀ v, Free e v → hh v e.goal ≤ (e.h : K) + (e.w : K))
    {st : St K} (hi : Inv e st) (hj : JB e hh s st) (hany : anyOpen e st = true)
    (hmin : minCostOpen e st = none) : False := by
  obtain ⟨y, hy, hop⟩ := List.any_eq_true.mp hany
  have hin := mem_cells.mp hy
  have hbig := minCostOpen_none hx hmin hin hop
  rw [hj.f_def y hop] at hbig
  have hg := hj.g_bound y (Or.inl hop)
  have hh' := hhb y (hi.core.open_free y hop)
  have hcc : (closedCount e st : K) ≤ (e.h : K) * (e.w : K) := by
    have : closedCount e st ≤ e.h * e.w := by
      unfold closedCount
      calc _ ≤ (cells e.h e.w).length := List.countP_le_length
        _ = e.h * e.w := length_cells _ _
    exact_mod_cast this
  obtain ⟨h1, h2, h3, h4⟩ := inside_iff.mp hin
  have hH : (1 : K) ≤ (e.h : K) := by
    have : 1 ≤ e.h := by omega
    exact_mod_cast this
  have hW : (1 : K) ≤ (e.w : K) := by
    have : 1 ≤ e.w := by omega
    exact_mod_cast this
  have hbigv : e.ops.big e.h e.w = ((e.h : K) + (e.w : K)) * ((e.h : K) + (e.w : K)) := by
    rw [hx]; rfl
  rw [hbigv] at hbig
  have hHW : 0 < (e.h : K) * (e.w : K) := by positivity
  have a1 : s * (closedCount e st : K) ≤ s * ((e.h : K) * (e.w : K)) :=
    mul_le_mul_of_nonneg_left hcc hs0
  have a2 : s * ((e.h : K) * (e.w : K)) < 2 * ((e.h : K) * (e.w : K)) :=
    mul_lt_mul_of_pos_right hs2 hHW
  have a3 : (e.h : K) ≤ (e.h : K) * (e.h : K) := by nlinarith
  have a4 : (e.w : K) ≤ (e.w : K) * (e.w : K) := by nlinarith
  have a5 : ((e.h : K) + (e.w : K)) * ((e.h : K) + (e.w : K)) =
      (e.h : K) * (e.h : K) + 2 * ((e.h : K) * (e.w : K)) + (e.w : K) * (e.w : K) := by ring
  linarith

/-- **A\* over exact costs**: what `search` returns, in every case -/
theorem search_exact (hx : Exact e wt hh) (hcons : Consistent e wt hh)
    (hs : inside e.h e.w e.start = true) {s : K} (hs0 : 0 ≤ s) (hs2 : s < 2)
    (hwt : ∀ u v, Adj e u v → wt u v ≤ s)
    (hhb : ∀ v, Free e v → hh v e.goal ≤ (e.h : K) + (e.w : K)) :
    match search e with
    | .path chain g => ValidPath e chain g ∧ ∀ l, Route e e.goal l → g e.goal ≤ l
    | .noPath => ∀ l, ¬ Route e e.goal l
    | .anomaly _ => False := by
  have := search_spec e hs (fun st => JK e wt hh st ∧ JB e hh s st)
    (fun st u hi hj hmin _ =>
      ⟨jk_expand hx hcons hi hj.1 hmin, jb_expand hx hs0 hwt hi hj.2 (minCostOpen_open hmin)⟩)
    ⟨jk_init hx, jb_init hx s⟩
  cases hsearch : search e with
  | path chain g =>
    rw [hsearch] at this
    obtain ⟨hv, st0, hi, hj, hmin, rfl⟩ := this
    exact ⟨hv, pop_optimal hx hcons hi hj.1 hmin⟩
  | noPath => rw [hsearch] at this; exact this
  | anomaly w =>
    rw [hsearch] at this
    obtain ⟨st', hi, hj, hany, hmin⟩ := this
    exact no_sentinel hx hs0 hs2 hhb hi hj.2 hany hmin

end
end XrsVerif.AStar
