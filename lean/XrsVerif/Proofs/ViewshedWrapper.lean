import XrsVerif.Model.ViewshedWrapper
import Mathlib.Tactic.Ring
import Mathlib.Tactic.Linarith
import Mathlib.Tactic.FieldSimp
/-
  C05 -- lemmas about the wrapper glue (Model/ViewshedWrapper.lean): nearest coordinate, the equality lookup,
  the cell size of equally spaced coordinates, the key as a squared coordinate distance.
-/
namespace XrsVerif.ViewshedWrapper
open XrsVerif.Gen.Viewshed XrsVerif.ViewshedEvents

theorem dist_eq_abs (a b : Rat) : dist a b = |a - b| := by
  unfold dist
  split
  · rename_i h
    rw [abs_of_nonpos (by linarith)]; ring
  · rename_i h
    rw [abs_of_nonneg (by linarith)]

/-- `nearest` returns an element of the list, at the index it reports, and no coordinate is nearer -/
theorem nearest_spec (v : Rat) : ∀ (l : List Rat) (i : Nat) (b : Rat), nearest v l = some (i, b) →
    l[i]? = some b ∧ ∀ c ∈ l, dist b v ≤ dist c v
  | [], i, b, h => by simp [nearest] at h
  | c :: cs, i, b, h => by
    unfold nearest at h
    cases hr : nearest v cs with
    | none =>
      rw [hr] at h
      simp at h
      obtain ⟨rfl, rfl⟩ := h
      have : cs = [] := by
        cases cs with
        | nil => rfl
        | cons d ds =>
          unfold nearest at hr
          cases h2 : nearest v ds <;> simp [h2] at hr
          split at hr <;> simp at hr
      subst this
      simp
    | some p =>
      obtain ⟨j, b'⟩ := p
      rw [hr] at h
      have ih := nearest_spec v cs j b' hr
      simp only at h
      split at h
      · rename_i hlt
        simp at h
        obtain ⟨rfl, rfl⟩ := h
        have hle : dist c v ≤ dist b' v := by
          rcases hlt with h1 | h1
          · exact le_of_lt h1
          · exact le_of_eq h1.1
        refine ⟨by simp, ?_⟩
        intro d hd
        rcases List.mem_cons.mp hd with rfl | hd
        · exact le_refl _
        · exact le_trans hle (ih.2 d hd)
      · rename_i hge
        simp at h
        obtain ⟨rfl, rfl⟩ := h
        refine ⟨by simpa using ih.1, ?_⟩
        intro d hd
        rcases List.mem_cons.mp hd with rfl | hd
        · exact not_lt.mp (fun hh => hge (Or.inl hh))
        · exact ih.2 d hd

theorem nearest_isSome (v : Rat) : ∀ (l : List Rat), l ≠ [] → ∃ p, nearest v l = some p
  | [], h => absurd rfl h
  | c :: cs, _ => by
    unfold nearest
    cases nearest v cs with
    | none => exact ⟨_, rfl⟩
    | some p =>
      simp only
      split <;> exact ⟨_, rfl⟩

/-- the equality lookup `np.where(coords == b)[0][0]` finds an index holding `b` -/
theorem findIdx_eq_spec (l : List Rat) (b : Rat) (hb : b ∈ l) :
    l.findIdx (fun c => c == b) < l.length ∧ l[l.findIdx (fun c => c == b)]? = some b := by
  have hlt : l.findIdx (fun c => c == b) < l.length :=
    List.findIdx_lt_length_of_exists ⟨b, hb, by simp⟩
  refine ⟨hlt, ?_⟩
  have := List.findIdx_getElem (w := hlt)
  simp at this
  simp [List.getElem?_eq_getElem hlt, this]

/-- the observer's index along an axis is an index of a nearest coordinate (whatever the order of the coordinates) -/
theorem obsIndex_nearest (cs : List Rat) (v : Rat) (hne : cs ≠ []) :
    ∃ i, (nearest v cs).map (fun p => cs.findIdx (fun c => c == p.2)) = some i ∧ ∃ hi : i < cs.length,
      ∀ j (hj : j < cs.length), dist cs[i] v ≤ dist cs[j] v := by
  obtain ⟨⟨k, b⟩, hk⟩ := nearest_isSome v cs hne
  have hs := nearest_spec v cs k b hk
  have hb : b ∈ cs := List.mem_of_getElem? hs.1
  obtain ⟨hlt, hget⟩ := findIdx_eq_spec cs b hb
  refine ⟨_, by simp [hk], hlt, ?_⟩
  intro j hj
  have e : cs[cs.findIdx (fun c => c == b)] = b := by
    have := List.getElem?_eq_getElem hlt
    rw [this] at hget
    exact Option.some.inj hget
  rw [e]
  exact hs.2 _ (List.getElem_mem hj)

/-! ### equally spaced coordinates -/

theorem coordsAP_length (c0 d : Rat) (n : Nat) : (coordsAP c0 d n).length = n := by simp [coordsAP]

theorem coordsAP_getElem (c0 d : Rat) (n j : Nat) (hj : j < (coordsAP c0 d n).length) :
    (coordsAP c0 d n)[j] = c0 + (j : Rat) * d := by
  simp [coordsAP]

theorem coordsAP_head (c0 d : Rat) (n : Nat) (hn : 1 ≤ n) : (coordsAP c0 d n).head? = some c0 := by
  cases n with
  | zero => omega
  | succ m => simp [coordsAP, List.range_succ_eq_map]

theorem coordsAP_getLast (c0 d : Rat) (n : Nat) (hn : 1 ≤ n) :
    (coordsAP c0 d n).getLast? = some (c0 + ((n - 1 : Nat) : Rat) * d) := by
  cases n with
  | zero => omega
  | succ m => simp [coordsAP, List.range_succ]

theorem coordsAP_ne_nil (c0 d : Rat) (n : Nat) (hn : 1 ≤ n) : coordsAP c0 d n ≠ [] := by
  intro h
  have := coordsAP_length c0 d n
  rw [h] at this
  simp at this
  omega

/-- `(c[-1] - c[0]) / (n - 1)` of equally spaced coordinates is the (signed) step -/
theorem span_div (c0 d : Rat) (n : Nat) (hn : 2 ≤ n) :
    ((c0 + ((n - 1 : Nat) : Rat) * d) - c0) / ((n : Rat) - 1) = d := by
  have h1 : ((n - 1 : Nat) : Rat) = (n : Rat) - 1 := by
    have : 1 ≤ n := by omega
    push_cast [Nat.cast_sub this]
    ring
  have h2 : (n : Rat) - 1 ≠ 0 := by
    have : (2 : Rat) ≤ (n : Rat) := by exact_mod_cast hn
    intro h; linarith
  rw [h1]
  field_simp
  ring

/-- the key the kernels compute from the signed steps is the squared distance between the two cells' coordinates -/
theorem key_eq_coord_dist (x0 dx y0 dy : Rat) (vr vc row col : Int) :
    key dx dy vr vc row col =
      ((x0 + (col : Rat) * dx) - (x0 + (vc : Rat) * dx)) ^ 2 + ((y0 + (row : Rat) * dy) - (y0 + (vr : Rat) * dy)) ^ 2 := by
  unfold key
  push_cast
  ring

end XrsVerif.ViewshedWrapper
