import XrsVerif.Model.Regions
/-
  Lemmas about the two-pass labelling model (Model/Regions.lean), used by Props/C16.lean and
  Props/C15.lean.  Core Lean only.

  * the pass-2 inner loop (`inner`, stale captured labels): `inner_eqpres` (a relabel never separates
    equal labels), `pass2_cell_unifies` (DESIGN.md A.5: afterwards all captured labels are one),
    `foldl_inner_SInv` (it only joins classes that touch the current cell), `foldl_inner_pos`;
  * pass 1 invariant `P1Inv`, pass 2 invariant `P2Inv`;
  * generic results `complete_g`, `sound_g`, `positive_g` over any window graph;
  * the raster instance: `mem_gridCells`, `gridCells_nodup`, `gridNbrs_closed`, and the clamped
    windows are exactly "self or a 4- or 8-adjacent cell inside the raster".
-/
set_option linter.unusedVariables false
set_option linter.unusedSectionVars false
namespace XrsVerif.Regions

section generic
variable {α V : Type} [DecidableEq α]

/-! ### the inner loop of pass 2 -/

theorem replace_eqpres (lab : α → Nat) (a b : Nat) (p q : α) (h : lab p = lab q) :
    replace lab a b p = replace lab a b q := by
  simp [replace, h]

theorem inner_eqpres (lab : α → Nat) (mn : Option Nat) (a : Nat) (p q : α) (h : lab p = lab q) :
    (inner (lab, mn) a).1 p = (inner (lab, mn) a).1 q := by
  cases mn with
  | none => simpa [inner] using h
  | some mv =>
    simp only [inner]
    split
    · exact h
    · split <;> exact replace_eqpres _ _ _ _ _ h

theorem foldl_inner_eqpres (l : List Nat) (lab : α → Nat) (mn : Option Nat) (p q : α)
    (h : lab p = lab q) :
    (l.foldl inner (lab, mn)).1 p = (l.foldl inner (lab, mn)).1 q := by
  induction l generalizing lab mn with
  | nil => simpa using h
  | cons a l ih =>
    simp only [List.foldl]
    have := inner_eqpres lab mn a p q h
    cases hst : inner (lab, mn) a with
    | mk lab' mn' =>
      rw [hst] at this
      exact ih lab' mn' this

/-- invariant of the inner loop: the current labelling is `ρ ∘ lab0`; every captured value seen so
    far is renamed to the current minimum `m`, which is the least seen value and fixed by ρ;
    unseen values are untouched -/
structure Inv (lab0 lab : α → Nat) (seen : List Nat) (m : Option Nat) : Prop where
  ex : ∃ ρ : Nat → Nat, (∀ x, lab x = ρ (lab0 x)) ∧
        (∀ mv, m = some mv → mv ∈ seen ∧ ρ mv = mv ∧ (∀ v ∈ seen, ρ v = mv ∧ mv ≤ v)) ∧
        (∀ v, v ∉ seen → ρ v = v) ∧ (m = none → seen = [])

theorem inner_inv (lab0 lab : α → Nat) (seen : List Nat) (m : Option Nat) (a : Nat)
    (h : Inv lab0 lab seen m) :
    Inv lab0 (inner (lab, m) a).1 (seen ++ [a]) (inner (lab, m) a).2 := by
  obtain ⟨ρ, hlab, hm, hun, hnone⟩ := h.ex
  cases m with
  | none =>
    have hs := hnone rfl; subst hs
    refine ⟨ρ, ?_, ?_, ?_, ?_⟩
    · simpa [inner] using hlab
    · intro mv hmv; simp [inner] at hmv; subst hmv
      have := hun a (by simp)
      simp [this]
    · intro v hv; exact hun v (by simp)
    · intro h; simp [inner] at h
  | some mv =>
    obtain ⟨hmem, hfix, hall⟩ := hm mv rfl
    by_cases h1 : mv = a
    · subst h1
      refine ⟨ρ, ?_, ?_, ?_, ?_⟩
      · simpa [inner] using hlab
      · intro mv' hmv'; simp [inner] at hmv'; subst hmv'
        refine ⟨by simp [hmem], hfix, ?_⟩
        intro v hv
        rcases List.mem_append.mp hv with hv | hv
        · exact hall v hv
        · simp at hv; subst hv; exact ⟨hfix, Nat.le_refl _⟩
      · intro v hv; exact hun v (by intro hh; exact hv (by simp [hh]))
      · intro h; simp [inner] at h
    · by_cases h2 : a < mv
      · have ha_unseen : a ∉ seen := by
          intro hin; have := (hall a hin).2; omega
        refine ⟨fun v => if ρ v = mv then a else ρ v, ?_, ?_, ?_, ?_⟩
        · intro x; simp [inner, h1, h2, replace, hlab]
        · intro mv' hmv'; simp [inner, h1, h2] at hmv'; subst hmv'
          have hρa : ρ a = a := hun a ha_unseen
          refine ⟨by simp, ?_, ?_⟩
          · simp [hρa] <;> (intro h; omega)
          · intro v hv
            rcases List.mem_append.mp hv with hv | hv
            · have := hall v hv; simp [this.1]; omega
            · simp at hv; subst hv; simp [hρa] <;> (intro h; omega)
        · intro v hv
          have hv' : v ∉ seen := fun hh => hv (by simp [hh])
          have := hun v hv'
          simp [this]; intro h; subst h; exact absurd hmem hv'
        · intro h; simp [inner, h1, h2] at h
      · have h3 : mv < a := by omega
        refine ⟨fun v => if ρ v = a then mv else ρ v, ?_, ?_, ?_, ?_⟩
        · intro x; simp [inner, h1, h2, replace, hlab]
        · intro mv' hmv'; simp [inner, h1, h2] at hmv'; subst hmv'
          refine ⟨by simp [hmem], ?_, ?_⟩
          · simp [hfix]
          · intro v hv
            rcases List.mem_append.mp hv with hv | hv
            · have := hall v hv; simp [this.1]; exact this.2
            · simp at hv; subst hv
              by_cases hin : v ∈ seen
              · have := hall v hin; simp [this.1]; omega
              · have := hun v hin; simp [this]; omega
        · intro v hv
          have hv' : v ∉ seen := fun hh => hv (by simp [hh])
          have hva : v ≠ a := fun hh => hv (by simp [hh])
          have := hun v hv'
          simp [this, hva]
        · intro h; simp [inner, h1, h2] at h

/-- after the loop every captured label has been unified (DESIGN.md A.5) -/
theorem pass2_cell_unifies (lab0 : α → Nat) (aw : List Nat) (x y : α)
    (hx : lab0 x ∈ aw) (hy : lab0 y ∈ aw) :
    (aw.foldl inner (lab0, none)).1 x = (aw.foldl inner (lab0, none)).1 y := by
  have key : ∀ (l : List Nat) (lab : α → Nat) (seen : List Nat) (m : Option Nat),
      Inv lab0 lab seen m →
      Inv lab0 (l.foldl inner (lab, m)).1 (seen ++ l) (l.foldl inner (lab, m)).2 := by
    intro l
    induction l with
    | nil => intro lab seen m h; simpa using h
    | cons a l ih =>
      intro lab seen m h
      have := ih (inner (lab, m) a).1 (seen ++ [a]) (inner (lab, m) a).2 (inner_inv lab0 lab seen m a h)
      simpa [List.foldl, List.append_assoc] using this
  have h0 : Inv lab0 lab0 [] none := ⟨⟨id, by simp, by simp, by simp, by simp⟩⟩
  have hfin := key aw lab0 [] none h0
  obtain ⟨ρ, hlab, hm, _, hnone⟩ := hfin.ex
  simp only [List.nil_append] at *
  cases hmm : (aw.foldl inner (lab0, none)).2 with
  | none => have := hnone hmm; subst this; simp at hx
  | some mv =>
    obtain ⟨_, _, hall⟩ := hm mv hmm
    rw [hlab x, hlab y, (hall _ hx).1, (hall _ hy).1]

/-- soundness invariant of the inner loop at centre `c`, for an equivalence `C`:
    equal positive labels are `C`-related; every cell whose label is one of the captured values
    `AW` is `C`-related to `c`; the running minimum is a captured value -/
structure SInv (C : α → α → Prop) (c : α) (AW : List Nat) (lab : α → Nat) (mn : Option Nat) : Prop where
  K : ∀ p q, lab p = lab q → 0 < lab p → C p q
  L : ∀ v ∈ AW, ∀ p, lab p = v → C p c
  M : ∀ mv, mn = some mv → mv ∈ AW

theorem replace_SInv {C : α → α → Prop} (hsymm : ∀ p q, C p q → C q p)
    (htrans : ∀ p q r, C p q → C q r → C p r) {c : α} {AW : List Nat} (hpos : ∀ v ∈ AW, 0 < v)
    {lab : α → Nat} {mn mn' : Option Nat} (h : SInv C c AW lab mn) {x y : Nat}
    (hx : x ∈ AW) (hy : y ∈ AW) (hm' : ∀ mv, mn' = some mv → mv ∈ AW) :
    SInv C c AW (replace lab x y) mn' := by
  refine ⟨?_, ?_, hm'⟩
  · intro p q hpq hp
    simp only [replace] at hpq hp
    by_cases h1 : lab p = x <;> by_cases h2 : lab q = x <;> simp [h1, h2] at hpq hp
    · exact h.K p q (by rw [h1, h2]) (by rw [h1]; exact hpos x hx)
    · exact htrans _ _ _ (h.L x hx p h1) (hsymm _ _ (h.L y hy q hpq.symm))
    · exact htrans _ _ _ (h.L y hy p hpq) (hsymm _ _ (h.L x hx q h2))
    · exact h.K p q hpq hp
  · intro v hv p hp
    simp only [replace] at hp
    by_cases h1 : lab p = x
    · exact h.L x hx p h1
    · simp [h1] at hp; exact h.L v hv p hp

theorem inner_SInv {C : α → α → Prop} (hsymm : ∀ p q, C p q → C q p)
    (htrans : ∀ p q r, C p q → C q r → C p r) {c : α} {AW : List Nat} (hpos : ∀ v ∈ AW, 0 < v)
    {lab : α → Nat} {mn : Option Nat} (h : SInv C c AW lab mn) {a : Nat} (ha : a ∈ AW) :
    SInv C c AW (inner (lab, mn) a).1 (inner (lab, mn) a).2 := by
  cases mn with
  | none => exact ⟨h.K, h.L, by intro mv hmv; simp [inner] at hmv; subst hmv; exact ha⟩
  | some mv =>
    have hmv : mv ∈ AW := h.M mv rfl
    simp only [inner]
    split
    · exact h
    · split
      · exact replace_SInv hsymm htrans hpos h hmv ha (by intro v hv; simp at hv; subst hv; exact ha)
      · exact replace_SInv hsymm htrans hpos h ha hmv (by intro v hv; simp at hv; subst hv; exact hmv)

theorem foldl_inner_SInv {C : α → α → Prop} (hsymm : ∀ p q, C p q → C q p)
    (htrans : ∀ p q r, C p q → C q r → C p r) {c : α} {AW : List Nat} (hpos : ∀ v ∈ AW, 0 < v)
    (l : List Nat) (hl : ∀ a ∈ l, a ∈ AW) {lab : α → Nat} {mn : Option Nat}
    (h : SInv C c AW lab mn) :
    SInv C c AW (l.foldl inner (lab, mn)).1 (l.foldl inner (lab, mn)).2 := by
  induction l generalizing lab mn with
  | nil => simpa using h
  | cons a l ih =>
    simp only [List.foldl]
    have h1 := inner_SInv hsymm htrans hpos h (hl a (by simp))
    cases hst : inner (lab, mn) a with
    | mk lab' mn' =>
      rw [hst] at h1
      exact ih (fun b hb => hl b (by simp [hb])) h1

theorem inner_pos (lab : α → Nat) (mn : Option Nat) (a : Nat) (ha : 0 < a)
    (hmn : ∀ mv, mn = some mv → 0 < mv) (p : α) (hp : 0 < lab p) :
    0 < (inner (lab, mn) a).1 p ∧ (∀ mv, (inner (lab, mn) a).2 = some mv → 0 < mv) := by
  cases mn with
  | none => exact ⟨by simpa [inner] using hp, by intro mv h; simp [inner] at h; omega⟩
  | some mv =>
    have := hmn mv rfl
    simp only [inner]
    split
    · exact ⟨hp, hmn⟩
    · split
      · refine ⟨?_, by intro v hv; simp at hv; omega⟩
        simp only [replace]; split <;> omega
      · refine ⟨?_, by intro v hv; simp at hv; omega⟩
        simp only [replace]; split <;> omega

theorem foldl_inner_pos (l : List Nat) (hl : ∀ a ∈ l, 0 < a) (lab : α → Nat) (mn : Option Nat)
    (hmn : ∀ mv, mn = some mv → 0 < mv) (p : α) (hp : 0 < lab p) :
    0 < (l.foldl inner (lab, mn)).1 p := by
  induction l generalizing lab mn with
  | nil => simpa using hp
  | cons a l ih =>
    simp only [List.foldl]
    have h1 := inner_pos lab mn a (hl a (by simp)) hmn p hp
    cases hst : inner (lab, mn) a with
    | mk lab' mn' =>
      rw [hst] at h1
      exact ih (fun b hb => hl b (by simp [hb])) lab' mn' h1.2 h1.1

/-! ### connectivity in a window graph -/

/-- equivalence closure of "centre `p` (a cell of `cells`) sees the matching window cell `q`" -/
inductive Conn (cells : List α) (nbrs : α → List α) (m : V → V → Bool) (data : α → Option V) :
    α → α → Prop
  | link (p q : α) (v : V) : p ∈ cells → data p = some v → q ∈ nbrs p → matched m data v q = true →
      Conn cells nbrs m data p q
  | refl (p : α) : Conn cells nbrs m data p p
  | symm {p q : α} : Conn cells nbrs m data p q → Conn cells nbrs m data q p
  | trans {p q r : α} : Conn cells nbrs m data p q → Conn cells nbrs m data q r →
      Conn cells nbrs m data p r

theorem matched_some {m : V → V → Bool} {data : α → Option V} {v : V} {q : α}
    (h : matched m data v q = true) : ∃ w, data q = some w ∧ m v w = true := by
  unfold matched at h
  split at h
  · simp at h
  · exact ⟨_, by assumption, h⟩

theorem matched_of {m : V → V → Bool} {data : α → Option V} {v w : V} {q : α}
    (hq : data q = some w) (h : m v w = true) : matched m data v q = true := by
  simp [matched, hq, h]

theorem mem_matchesOf {nbrs : α → List α} {m : V → V → Bool} {data : α → Option V} {v : V} {p q : α} :
    q ∈ matchesOf nbrs m data v p ↔ q ∈ nbrs p ∧ matched m data v q = true := by
  simp [matchesOf, List.mem_filter]

/-! ### pass 1 -/

/-- `p`'s label is the label of one of its matching window cells -/
def Good (nbrs : α → List α) (m : V → V → Bool) (data : α → Option V) (lab : α → Nat) (p : α) : Prop :=
  ∃ v, data p = some v ∧ ∃ q0, q0 ∈ nbrs p ∧ matched m data v q0 = true ∧ lab q0 = lab p

structure P1Inv (cells : List α) (nbrs : α → List α) (m : V → V → Bool) (data : α → Option V)
    (done : List α) (lab : α → Nat) (uid : Nat) : Prop where
  upos : 0 < uid
  lt : ∀ p, lab p < uid
  pos : ∀ p, 0 < lab p ↔ (p ∈ done ∧ data p ≠ none)
  K : ∀ p q, lab p = lab q → 0 < lab p → Conn cells nbrs m data p q
  good : ∀ p q v w, p ∈ done → q ∈ done → data p = some v → data q = some w → q ∈ nbrs p →
    p ∈ nbrs q → m v w = true → m w v = true → Good nbrs m data lab p ∨ Good nbrs m data lab q

theorem good_stable {nbrs : α → List α} {m : V → V → Bool} {data : α → Option V} {lab : α → Nat}
    {c : α} {x : Nat} (hc : lab c = 0) {p : α} (hp : 0 < lab p) (h : Good nbrs m data lab p) :
    Good nbrs m data (setL lab c x) p := by
  obtain ⟨v, hv, q0, hq0, hm, hl⟩ := h
  refine ⟨v, hv, q0, hq0, hm, ?_⟩
  have h1 : p ≠ c := by intro hh; subst hh; omega
  have h2 : q0 ≠ c := by intro hh; subst hh; omega
  simp [setL, h1, h2, hl]

theorem step1_P1Inv {cells : List α} {nbrs : α → List α} {m : V → V → Bool} {data : α → Option V}
    {done : List α} {lab : α → Nat} {uid : Nat} (h : P1Inv cells nbrs m data done lab uid)
    {c : α} (hc : c ∉ done) (hcc : c ∈ cells) :
    P1Inv cells nbrs m data (done ++ [c]) (step1 nbrs m data (lab, uid) c).1
      (step1 nbrs m data (lab, uid) c).2 := by
  have hc0 : lab c = 0 := by
    have h0 : ¬ 0 < lab c := fun hh => hc ((h.pos c).mp hh).1
    omega
  unfold step1
  cases hd : data c with
  | none =>
    refine ⟨h.upos, h.lt, ?_, h.K, ?_⟩
    · intro p; rw [h.pos p]
      constructor
      · intro hh; exact ⟨by simp [hh.1], hh.2⟩
      · intro hh
        rcases List.mem_append.mp hh.1 with h1 | h1
        · exact ⟨h1, hh.2⟩
        · simp at h1; subst h1; exact absurd hd hh.2
    · intro p q v w hp hq hvp hwq
      have hp' : p ∈ done := by
        rcases List.mem_append.mp hp with h1 | h1
        · exact h1
        · simp at h1; subst h1; rw [hd] at hvp; cases hvp
      have hq' : q ∈ done := by
        rcases List.mem_append.mp hq with h1 | h1
        · exact h1
        · simp at h1; subst h1; rw [hd] at hwq; cases hwq
      exact h.good p q v w hp' hq' hvp hwq
  | some v =>
    simp only
    cases hf : (matchesOf nbrs m data v c).find? (fun q => 0 < lab q) with
    | some q0 =>
      simp only
      have hq0m := List.mem_of_find?_eq_some hf
      have hq0p : 0 < lab q0 := by simpa using List.find?_some hf
      obtain ⟨hq0n, hq0match⟩ := mem_matchesOf.mp hq0m
      have hq0c : q0 ≠ c := by intro hh; subst hh; omega
      have hgoodc : Good nbrs m data (setL lab c (lab q0)) c :=
        ⟨v, hd, q0, hq0n, hq0match, by simp [setL, hq0c]⟩
      refine ⟨h.upos, ?_, ?_, ?_, ?_⟩
      · intro p; simp only [setL]; split
        · exact h.lt q0
        · exact h.lt p
      · intro p; simp only [setL]; split
        · rename_i hpc; subst hpc
          simp [hq0p, hd]
        · rename_i hpc
          rw [h.pos p]; simp [hpc]
      · intro p q hpq hp
        simp only [setL] at hpq hp
        have hlink : Conn cells nbrs m data c q0 := Conn.link c q0 v hcc hd hq0n hq0match
        by_cases h1 : p = c <;> by_cases h2 : q = c <;> simp [h1, h2] at hpq hp
        · subst h1; subst h2; exact Conn.refl _
        · subst h1; exact Conn.trans hlink (h.K q0 q hpq hq0p)
        · subst h2; exact Conn.trans (h.K p q0 hpq hp) (Conn.symm hlink)
        · exact h.K p q hpq hp
      · intro p q v' w hp hq hvp hwq hqn hpn hm1 hm2
        by_cases h1 : p = c
        · subst h1; exact Or.inl hgoodc
        · by_cases h2 : q = c
          · subst h2; exact Or.inr hgoodc
          · have hp' : p ∈ done := by
              rcases List.mem_append.mp hp with h3 | h3
              · exact h3
              · simp at h3; exact absurd h3 h1
            have hq' : q ∈ done := by
              rcases List.mem_append.mp hq with h3 | h3
              · exact h3
              · simp at h3; exact absurd h3 h2
            have hpp : 0 < lab p := (h.pos p).mpr ⟨hp', by simp [hvp]⟩
            have hqp : 0 < lab q := (h.pos q).mpr ⟨hq', by simp [hwq]⟩
            rcases h.good p q v' w hp' hq' hvp hwq hqn hpn hm1 hm2 with hg | hg
            · exact Or.inl (good_stable hc0 hpp hg)
            · exact Or.inr (good_stable hc0 hqp hg)
    | none =>
      simp only
      have hnone : ∀ q, q ∈ nbrs c → matched m data v q = true → lab q = 0 := by
        intro q hq hm
        have := List.find?_eq_none.mp hf q (mem_matchesOf.mpr ⟨hq, hm⟩)
        simp at this; exact this
      refine ⟨by omega, ?_, ?_, ?_, ?_⟩
      · intro p; simp only [setL]; split
        · omega
        · have := h.lt p; omega
      · intro p; simp only [setL]; split
        · rename_i hpc; subst hpc
          simp [h.upos, hd]
        · rename_i hpc
          rw [h.pos p]; simp [hpc]
      · intro p q hpq hp
        simp only [setL] at hpq hp
        by_cases h1 : p = c <;> by_cases h2 : q = c <;> simp [h1, h2] at hpq hp
        · subst h1; subst h2; exact Conn.refl _
        · have := h.lt q; omega
        · have := h.lt p; omega
        · exact h.K p q hpq hp
      · intro p q v' w hp hq hvp hwq hqn hpn hm1 hm2
        have stable : ∀ p, p ≠ c → p ∈ done ++ [c] → p ∈ done := by
          intro p h1 hp
          rcases List.mem_append.mp hp with h3 | h3
          · exact h3
          · simp at h3; exact absurd h3 h1
        by_cases h1 : p = c
        · subst h1
          rw [hd] at hvp; cases hvp
          by_cases h2 : q = p
          · subst h2
            rw [hd] at hwq; cases hwq
            exact Or.inl ⟨v, hd, q, hqn, matched_of hd hm1, rfl⟩
          · have hq' := stable q h2 hq
            have hqp : 0 < lab q := (h.pos q).mpr ⟨hq', by simp [hwq]⟩
            have := hnone q hqn (matched_of hwq hm1)
            omega
        · by_cases h2 : q = c
          · subst h2
            rw [hd] at hwq; cases hwq
            have hp' := stable p h1 hp
            have hpp : 0 < lab p := (h.pos p).mpr ⟨hp', by simp [hvp]⟩
            have := hnone p hpn (matched_of hvp hm2)
            omega
          · have hp' := stable p h1 hp
            have hq' := stable q h2 hq
            have hpp : 0 < lab p := (h.pos p).mpr ⟨hp', by simp [hvp]⟩
            have hqp : 0 < lab q := (h.pos q).mpr ⟨hq', by simp [hwq]⟩
            rcases h.good p q v' w hp' hq' hvp hwq hqn hpn hm1 hm2 with hg | hg
            · exact Or.inl (good_stable hc0 hpp hg)
            · exact Or.inr (good_stable hc0 hqp hg)

theorem foldl_step1_P1Inv {cells : List α} {nbrs : α → List α} {m : V → V → Bool}
    {data : α → Option V} (rest : List α) :
    ∀ (done : List α) (st : (α → Nat) × Nat), (done ++ rest).Nodup → (∀ c ∈ rest, c ∈ cells) →
      P1Inv cells nbrs m data done st.1 st.2 →
      P1Inv cells nbrs m data (done ++ rest) (rest.foldl (step1 nbrs m data) st).1
        (rest.foldl (step1 nbrs m data) st).2 := by
  induction rest with
  | nil => intro done st _ _ h; simpa using h
  | cons c rest ih =>
    intro done st hnd hsub h
    have hc : c ∉ done := by
      intro hin
      have := (List.nodup_append.mp hnd).2.2 c hin c (by simp)
      exact this rfl
    have h1 := step1_P1Inv (c := c) h hc (hsub c (by simp))
    have := ih (done ++ [c]) (step1 nbrs m data st c) (by simpa [List.append_assoc] using hnd)
      (fun x hx => hsub x (by simp [hx])) h1
    simpa [List.foldl, List.append_assoc] using this

theorem pass1_P1Inv {cells : List α} {nbrs : α → List α} {m : V → V → Bool}
    {data : α → Option V} (hnd : cells.Nodup) :
    P1Inv cells nbrs m data cells (pass1 cells nbrs m data).1 (pass1 cells nbrs m data).2 := by
  have h0 : P1Inv cells nbrs m data [] (fun _ => 0) 1 :=
    ⟨by omega, by intro p; omega, by intro p; simp, by intro p q _ h; omega,
     by intro p q v w hp; simp at hp⟩
  have := foldl_step1_P1Inv (cells := cells) (nbrs := nbrs) (m := m) (data := data) cells []
    ((fun _ => 0), 1) (by simpa using hnd) (fun c hc => hc) h0
  simpa [pass1] using this

/-! ### pass 2 -/

structure P2Inv (cells : List α) (nbrs : α → List α) (m : V → V → Bool) (data : α → Option V)
    (lab1 : α → Nat) (done : List α) (lab : α → Nat) : Prop where
  eqp : ∀ p q, lab1 p = lab1 q → lab p = lab q
  K : ∀ p q, lab p = lab q → 0 < lab p → Conn cells nbrs m data p q
  pos : ∀ p, p ∈ cells → data p ≠ none → 0 < lab p
  uni : ∀ p v, p ∈ done → data p = some v → ∀ q q', q ∈ matchesOf nbrs m data v p →
    q' ∈ matchesOf nbrs m data v p → lab q = lab q'

theorem step2_P2Inv {cells : List α} {nbrs : α → List α} {m : V → V → Bool} {data : α → Option V}
    (hclosed : ∀ p, p ∈ cells → ∀ q, q ∈ nbrs p → q ∈ cells)
    {lab1 : α → Nat} {done : List α} {st : (α → Nat) × Option Nat}
    (h : P2Inv cells nbrs m data lab1 done st.1)
    {c : α} (hcc : c ∈ cells) :
    P2Inv cells nbrs m data lab1 (done ++ [c]) (step2 nbrs m data st c).1 := by
  obtain ⟨lab, mn0⟩ := st
  simp only at h
  unfold step2
  cases hd : data c with
  | none =>
    refine ⟨h.eqp, h.K, h.pos, ?_⟩
    intro p v hp hv
    rcases List.mem_append.mp hp with h1 | h1
    · exact h.uni p v h1 hv
    · simp at h1; subst h1; rw [hd] at hv; cases hv
  | some v =>
    simp only
    -- facts about the captured labels
    have hAWpos : ∀ a ∈ (matchesOf nbrs m data v c).map lab, 0 < a := by
      intro a ha
      obtain ⟨q, hq, rfl⟩ := List.mem_map.mp ha
      obtain ⟨hqn, hqm⟩ := mem_matchesOf.mp hq
      obtain ⟨w, hw, _⟩ := matched_some hqm
      exact h.pos q (hclosed c hcc q hqn) (by simp [hw])
    have hS0 : SInv (Conn cells nbrs m data) c ((matchesOf nbrs m data v c).map lab) lab none := by
      refine ⟨h.K, ?_, by intro mv hmv; cases hmv⟩
      intro a ha p hp
      obtain ⟨q, hq, rfl⟩ := List.mem_map.mp ha
      obtain ⟨hqn, hqm⟩ := mem_matchesOf.mp hq
      have hpos : 0 < lab p := by rw [hp]; exact hAWpos _ ha
      exact Conn.trans (h.K p q hp hpos) (Conn.symm (Conn.link c q v hcc hd hqn hqm))
    have hS := foldl_inner_SInv (C := Conn cells nbrs m data) (fun _ _ => Conn.symm)
      (fun _ _ _ => Conn.trans) hAWpos _ (fun a ha => ha) hS0
    refine ⟨?_, hS.K, ?_, ?_⟩
    · intro p q hpq
      exact foldl_inner_eqpres _ _ _ _ _ (h.eqp p q hpq)
    · intro p hp hdp
      exact foldl_inner_pos _ hAWpos _ _ (by intro mv hmv; cases hmv) p (h.pos p hp hdp)
    · intro p v' hp hv' q q' hq hq'
      rcases List.mem_append.mp hp with h1 | h1
      · exact foldl_inner_eqpres _ _ _ _ _ (h.uni p v' h1 hv' q q' hq hq')
      · simp at h1; subst h1
        rw [hd] at hv'; cases hv'
        exact pass2_cell_unifies lab _ q q' (List.mem_map.mpr ⟨q, hq, rfl⟩)
          (List.mem_map.mpr ⟨q', hq', rfl⟩)

theorem foldl_step2_P2Inv {cells : List α} {nbrs : α → List α} {m : V → V → Bool}
    {data : α → Option V} (hclosed : ∀ p, p ∈ cells → ∀ q, q ∈ nbrs p → q ∈ cells)
    {lab1 : α → Nat} (rest : List α) :
    ∀ (done : List α) (st : (α → Nat) × Option Nat), (∀ c ∈ rest, c ∈ cells) →
      P2Inv cells nbrs m data lab1 done st.1 →
      P2Inv cells nbrs m data lab1 (done ++ rest) (rest.foldl (step2 nbrs m data) st).1 := by
  induction rest with
  | nil => intro done st _ h; simpa using h
  | cons c rest ih =>
    intro done st hsub h
    have h1 := step2_P2Inv hclosed h (hsub c (by simp))
    have := ih (done ++ [c]) (step2 nbrs m data st c) (fun x hx => hsub x (by simp [hx])) h1
    simpa [List.foldl, List.append_assoc] using this

theorem label_P2Inv {cells : List α} {nbrs : α → List α} {m : V → V → Bool}
    {data : α → Option V} (hnd : cells.Nodup)
    (hclosed : ∀ p, p ∈ cells → ∀ q, q ∈ nbrs p → q ∈ cells) :
    P2Inv cells nbrs m data (pass1 cells nbrs m data).1 cells (label cells nbrs m data) := by
  have h1 := pass1_P1Inv (nbrs := nbrs) (m := m) (data := data) hnd
  have h0 : P2Inv cells nbrs m data (pass1 cells nbrs m data).1 [] (pass1 cells nbrs m data).1 :=
    ⟨fun _ _ h => h, h1.K, fun p hp hdp => (h1.pos p).mpr ⟨hp, hdp⟩,
     by intro p v hp; simp at hp⟩
  have := foldl_step2_P2Inv hclosed cells [] ((pass1 cells nbrs m data).1, none) (fun c hc => hc) h0
  simpa [label, pass2, pass2St] using this

/-! ### the generic results -/

/-- two cells that see each other and match both ways end with the same label -/
theorem complete_g {cells : List α} {nbrs : α → List α} {m : V → V → Bool} {data : α → Option V}
    (hnd : cells.Nodup) (hclosed : ∀ p, p ∈ cells → ∀ q, q ∈ nbrs p → q ∈ cells)
    {p q : α} {v w : V} (hp : p ∈ cells) (hq : q ∈ cells) (hv : data p = some v)
    (hw : data q = some w) (hqn : q ∈ nbrs p) (hpn : p ∈ nbrs q) (h1 : m v w = true)
    (h2 : m w v = true) :
    label cells nbrs m data p = label cells nbrs m data q := by
  have P1 := pass1_P1Inv (nbrs := nbrs) (m := m) (data := data) hnd
  have P2 := label_P2Inv (m := m) (data := data) hnd hclosed
  rcases P1.good p q v w hp hq hv hw hqn hpn h1 h2 with hg | hg
  · obtain ⟨v', hv', q0, hq0n, hq0m, hl⟩ := hg
    rw [hv] at hv'; cases hv'
    have e1 := P2.eqp q0 p hl
    have e2 := P2.uni p v hp hv q0 q (mem_matchesOf.mpr ⟨hq0n, hq0m⟩)
      (mem_matchesOf.mpr ⟨hqn, matched_of hw h1⟩)
    rw [← e1, e2]
  · obtain ⟨w', hw', p0, hp0n, hp0m, hl⟩ := hg
    rw [hw] at hw'; cases hw'
    have e1 := P2.eqp p0 q hl
    have e2 := P2.uni q w hq hw p0 p (mem_matchesOf.mpr ⟨hp0n, hp0m⟩)
      (mem_matchesOf.mpr ⟨hpn, matched_of hv h2⟩)
    rw [← e1, e2]

/-- equal labels of non-NaN cells are witnessed by a chain of matching window steps -/
theorem sound_g {cells : List α} {nbrs : α → List α} {m : V → V → Bool} {data : α → Option V}
    (hnd : cells.Nodup) (hclosed : ∀ p, p ∈ cells → ∀ q, q ∈ nbrs p → q ∈ cells)
    {p q : α} (hp : p ∈ cells) (hdp : data p ≠ none)
    (h : label cells nbrs m data p = label cells nbrs m data q) :
    Conn cells nbrs m data p q := by
  have P2 := label_P2Inv (m := m) (data := data) hnd hclosed
  exact P2.K p q h (P2.pos p hp hdp)

theorem positive_g {cells : List α} {nbrs : α → List α} {m : V → V → Bool} {data : α → Option V}
    (hnd : cells.Nodup) (hclosed : ∀ p, p ∈ cells → ∀ q, q ∈ nbrs p → q ∈ cells)
    {p : α} (hp : p ∈ cells) (hdp : data p ≠ none) : 0 < label cells nbrs m data p :=
  (label_P2Inv (m := m) (data := data) hnd hclosed).pos p hp hdp

end generic


/-! ### the raster instance -/

theorem mem_gridCells {rows cols : Nat} {c : Cell} :
    c ∈ gridCells rows cols ↔ c.1 < rows ∧ c.2 < cols := by
  obtain ⟨y, x⟩ := c
  simp [gridCells, List.mem_flatMap, List.mem_map, List.mem_range]

theorem gridCells_succ (rows cols : Nat) :
    gridCells (rows + 1) cols = gridCells rows cols ++ (List.range cols).map fun x => (rows, x) := by
  simp [gridCells, List.range_succ, List.flatMap_append]

theorem gridCells_nodup (rows cols : Nat) : (gridCells rows cols).Nodup := by
  induction rows with
  | zero => simp [gridCells]
  | succ r ih =>
    rw [gridCells_succ, List.nodup_append]
    refine ⟨ih, ?_, ?_⟩
    · unfold List.Nodup
      rw [List.pairwise_map]
      exact (List.nodup_range (n := cols)).imp (by intro a b h; simpa using h)
    · intro a ha b hb hab
      subst hab
      have h1 := mem_gridCells.mp ha
      obtain ⟨x, _, rfl⟩ := List.mem_map.mp hb
      simp at h1

/-- standard adjacency of two raster cells: 4-neighbourhood (share an edge) or 8-neighbourhood
    (share an edge or a corner) -/
def Adj (n8 : Bool) (p q : Cell) : Prop :=
  if n8 then p ≠ q ∧ p.1 ≤ q.1 + 1 ∧ q.1 ≤ p.1 + 1 ∧ p.2 ≤ q.2 + 1 ∧ q.2 ≤ p.2 + 1
  else (p.1 = q.1 ∧ (p.2 + 1 = q.2 ∨ q.2 + 1 = p.2)) ∨ (p.2 = q.2 ∧ (p.1 + 1 = q.1 ∨ q.1 + 1 = p.1))

instance (n8 : Bool) (p q : Cell) : Decidable (Adj n8 p q) := by unfold Adj; infer_instance

theorem Adj.symm {n8 : Bool} {p q : Cell} (h : Adj n8 p q) : Adj n8 q p := by
  obtain ⟨y, x⟩ := p
  obtain ⟨y', x'⟩ := q
  unfold Adj at *
  cases n8 <;> simp at * <;> omega

theorem gridNbrs_closed (rows cols : Nat) (n8 : Bool) (p : Cell) (hp : p ∈ gridCells rows cols)
    (q : Cell) (hq : q ∈ gridNbrs rows cols n8 p) : q ∈ gridCells rows cols := by
  rw [mem_gridCells] at *
  obtain ⟨y, x⟩ := p
  obtain ⟨y', x'⟩ := q
  cases n8 <;>
    simp [gridNbrs, window, window8, window4, clampAdd] at hq hp ⊢ <;> omega

theorem mem_gridNbrs_of_adj {rows cols : Nat} {n8 : Bool} {p q : Cell}
    (hp : p ∈ gridCells rows cols) (hq : q ∈ gridCells rows cols) (h : Adj n8 p q) :
    q ∈ gridNbrs rows cols n8 p := by
  rw [mem_gridCells] at *
  obtain ⟨y, x⟩ := p
  obtain ⟨y', x'⟩ := q
  cases n8 <;>
    simp [gridNbrs, window, window8, window4, clampAdd, Adj] at h hq hp ⊢ <;> omega

theorem adj_of_mem_gridNbrs {rows cols : Nat} {n8 : Bool} {p q : Cell}
    (hp : p ∈ gridCells rows cols) (hq : q ∈ gridNbrs rows cols n8 p) :
    q = p ∨ Adj n8 p q := by
  rw [mem_gridCells] at *
  obtain ⟨y, x⟩ := p
  obtain ⟨y', x'⟩ := q
  cases n8 <;>
    simp [gridNbrs, window, window8, window4, clampAdd, Adj] at hq hp ⊢ <;> omega

theorem regionsList_eq {V : Type} (rows cols : Nat) (n8 : Bool) (m : V → V → Bool)
    (data : Cell → Option V) :
    regionsList rows cols n8 m data = (gridCells rows cols).map (regions rows cols n8 m data) := rfl

/-! ### the property's vocabulary on a raster -/

section spec
variable {V : Type}

/-- one step of a path: `p`, `q` cells of the raster, 4- (8-) adjacent, both non-NaN, and the value
    of `q` is close to the value of `p` (`m` = the code's `isclose` with `p` as reference) -/
def Step (rows cols : Nat) (n8 : Bool) (m : V → V → Bool) (data : Cell → Option V) (p q : Cell) : Prop :=
  p ∈ gridCells rows cols ∧ q ∈ gridCells rows cols ∧ Adj n8 p q ∧
    ∃ v w, data p = some v ∧ data q = some w ∧ m v w = true

/-- joined by a chain of steps (equivalence closure, inside the raster) -/
inductive Connected (rows cols : Nat) (n8 : Bool) (m : V → V → Bool) (data : Cell → Option V) :
    Cell → Cell → Prop
  | step {p q : Cell} : Step rows cols n8 m data p q → Connected rows cols n8 m data p q
  | refl (p : Cell) : p ∈ gridCells rows cols → Connected rows cols n8 m data p p
  | symm {p q : Cell} : Connected rows cols n8 m data p q → Connected rows cols n8 m data q p
  | trans {p q r : Cell} : Connected rows cols n8 m data p q → Connected rows cols n8 m data q r →
      Connected rows cols n8 m data p r

theorem Connected.mem {rows cols : Nat} {n8 : Bool} {m : V → V → Bool} {data : Cell → Option V}
    {p q : Cell} (h : Connected rows cols n8 m data p q) :
    p ∈ gridCells rows cols ∧ q ∈ gridCells rows cols := by
  induction h with
  | step h => exact ⟨h.1, h.2.1⟩
  | refl p hp => exact ⟨hp, hp⟩
  | symm _ ih => exact ⟨ih.2, ih.1⟩
  | trans _ _ ih1 ih2 => exact ⟨ih1.1, ih2.2⟩

theorem Conn.mem_iff {α : Type} {cells : List α} {nbrs : α → List α} {m : V → V → Bool}
    {data : α → Option V} (hclosed : ∀ p, p ∈ cells → ∀ q, q ∈ nbrs p → q ∈ cells) {p q : α}
    (h : Conn cells nbrs m data p q) : p ∈ cells ↔ q ∈ cells := by
  induction h with
  | link p q v hp hv hq hm => exact ⟨fun _ => hclosed p hp q hq, fun _ => hp⟩
  | refl p => exact Iff.rfl
  | symm _ ih => exact ih.symm
  | trans _ _ ih1 ih2 => exact ih1.trans ih2

/-- a chain of window steps of the model is a chain of adjacency steps of the raster -/
theorem connected_of_conn {rows cols : Nat} {n8 : Bool} {m : V → V → Bool} {data : Cell → Option V}
    {p q : Cell} (h : Conn (gridCells rows cols) (gridNbrs rows cols n8) m data p q) :
    p ∈ gridCells rows cols → Connected rows cols n8 m data p q := by
  have hclosed := gridNbrs_closed rows cols n8
  induction h with
  | link p q v hp hv hq hm =>
    intro _
    rcases adj_of_mem_gridNbrs hp hq with h1 | h1
    · subst h1; exact Connected.refl _ hp
    · obtain ⟨w, hw, hmw⟩ := matched_some hm
      exact Connected.step ⟨hp, hclosed p hp q hq, h1, v, w, hv, hw, hmw⟩
  | refl p => intro hp; exact Connected.refl p hp
  | symm h ih => intro hq; exact Connected.symm (ih ((Conn.mem_iff hclosed h).mpr hq))
  | trans h1 h2 ih1 ih2 =>
    intro hp; exact Connected.trans (ih1 hp) (ih2 ((Conn.mem_iff hclosed h1).mp hp))

/-- a path of raster cells that all hold the value `v`, consecutive cells adjacent -/
inductive ValuePath (rows cols : Nat) (n8 : Bool) (data : Cell → Option V) (v : V) : Cell → Cell → Prop
  | single (p : Cell) : data p = some v → ValuePath rows cols n8 data v p p
  | cons (p q r : Cell) : data p = some v → q ∈ gridCells rows cols → Adj n8 p q →
      ValuePath rows cols n8 data v q r → ValuePath rows cols n8 data v p r

theorem ValuePath.ends {rows cols : Nat} {n8 : Bool} {data : Cell → Option V} {v : V} {p q : Cell}
    (h : ValuePath rows cols n8 data v p q) : data p = some v ∧ data q = some v := by
  induction h with
  | single p hp => exact ⟨hp, hp⟩
  | cons p q r hp _ _ _ ih => exact ⟨hp, ih.2⟩

theorem ValuePath.trans {rows cols : Nat} {n8 : Bool} {data : Cell → Option V} {v : V} {p q r : Cell}
    (h1 : ValuePath rows cols n8 data v p q) (h2 : ValuePath rows cols n8 data v q r) :
    ValuePath rows cols n8 data v p r := by
  induction h1 with
  | single p hp => exact h2
  | cons p q' r' hp hq hadj _ ih => exact ValuePath.cons p q' r hp hq hadj (ih h2)

theorem ValuePath.symm {rows cols : Nat} {n8 : Bool} {data : Cell → Option V} {v : V} {p q : Cell}
    (h : ValuePath rows cols n8 data v p q) (hp : p ∈ gridCells rows cols) :
    ValuePath rows cols n8 data v q p := by
  induction h with
  | single p hp' => exact ValuePath.single p hp'
  | cons p q' r hdp hq hadj _ ih =>
    exact (ih hq).trans (ValuePath.cons q' p p (ValuePath.ends ‹_›).1 hp hadj.symm (ValuePath.single p hdp))

/-- for exact-equality matching, a chain of steps is a path of cells all holding one value -/
theorem valuePath_of_connected [DecidableEq V] {rows cols : Nat} {n8 : Bool} {data : Cell → Option V}
    {p q : Cell} (h : Connected rows cols n8 (fun a b => decide (a = b)) data p q) :
    ∀ v, (data p = some v ∨ data q = some v) →
      ValuePath rows cols n8 data v p q ∧ ValuePath rows cols n8 data v q p := by
  induction h with
  | step h =>
    intro v hv
    obtain ⟨hp, hq, hadj, v', w, hv', hw, hm⟩ := h
    have : v' = w := by simpa using hm
    subst this
    have : v' = v := by
      rcases hv with hv | hv
      · rw [hv'] at hv; cases hv; rfl
      · rw [hw] at hv; cases hv; rfl
    subst this
    exact ⟨ValuePath.cons _ _ _ hv' hq hadj (ValuePath.single _ hw),
           ValuePath.cons _ _ _ hw hp hadj.symm (ValuePath.single _ hv')⟩
  | refl p hp =>
    intro v hv
    have : data p = some v := by rcases hv with hv | hv <;> exact hv
    exact ⟨ValuePath.single p this, ValuePath.single p this⟩
  | symm _ ih => intro v hv; exact (ih v hv.symm).symm
  | trans _ _ ih1 ih2 =>
    intro v hv
    rcases hv with hv | hv
    · have a := ih1 v (Or.inl hv)
      have b := ih2 v (Or.inl a.1.ends.2)
      exact ⟨a.1.trans b.1, b.2.trans a.2⟩
    · have b := ih2 v (Or.inr hv)
      have a := ih1 v (Or.inr b.1.ends.1)
      exact ⟨a.1.trans b.1, b.2.trans a.2⟩

theorem connected_of_valuePath [DecidableEq V] {rows cols : Nat} {n8 : Bool} {data : Cell → Option V}
    {v : V} {p q : Cell} (h : ValuePath rows cols n8 data v p q) (hp : p ∈ gridCells rows cols) :
    Connected rows cols n8 (fun a b => decide (a = b)) data p q := by
  induction h with
  | single p _ => exact Connected.refl p hp
  | cons p q' r hdp hq hadj hrest ih =>
    exact Connected.trans (Connected.step ⟨hp, hq, hadj, v, v, hdp, hrest.ends.1, by simp⟩) (ih hq)

end spec

end XrsVerif.Regions
