import XrsVerif.Proofs.ILProxPixel
/-
  Proofs/ILProxSweep.lean -- step 3: the sweep loop of the generated `_process_proximity_line`
  (`for pixel in range(start, end, step)`, forward and backward) is the model's `Prox.sweepN`, and the whole
  function (prologue; loop; return) refines it -- for the template `lineBody N` and hence, by
  `proximityLine_is_template`, for `Gen.IL.proximityLine`.
-/
namespace XrsVerif.IL.Px
open XrsVerif XrsVerif.Prox
variable {F : Type} [Fl F]
set_option linter.unusedSectionVars false
set_option linter.unusedSimpArgs false
attribute [-simp] List.getD_eq_getElem?_getD

theorem afterBody_proj (r : State F) :
    (afterBody r).ia = r.ia ∧ (afterBody r).fa = r.fa ∧ (afterBody r).shp = r.shp ∧ (afterBody r).ext = r.ext ∧
    (afterBody r).ienv = r.ienv ∧ (afterBody r).fenv = r.fenv ∧ (afterBody r).benv = r.benv := by
  unfold afterBody; split <;> simp

theorem FrameS.afterBody {S : LV → Bool} {N : Names} {s r : State F} (h : FrameS S N s r) : FrameS S N s (afterBody r) := by
  obtain ⟨h1, h2, h3, h4, h5, h6, h7⟩ := afterBody_proj r
  exact ⟨h3 ▸ h.shp, h4 ▸ h.ext, h5 ▸ h.ienv, h6 ▸ h.fenv, h7 ▸ h.benv, h1 ▸ h.ia, h2 ▸ h.fa⟩

/-- the positions `range(start, end, step)` runs through -/
def sweepList (W : Nat) (fwd : Bool) : List Int :=
  if fwd then (List.range W).map (fun (k : Nat) => (k : Int)) else (List.range W).reverse.map (fun (k : Nat) => (k : Int))

theorem sweepList_length (W : Nat) (fwd : Bool) : (sweepList W fwd).length = W := by
  unfold sweepList; split <;> simp

theorem sweepList_get (W : Nat) (fwd : Bool) (k : Nat) (h : k < (sweepList W fwd).length) :
    (sweepList W fwd)[k] = ((posOf W fwd k : Nat) : Int) := by
  have hk : k < W := by simpa [sweepList_length] using h
  unfold sweepList posOf at *
  cases fwd <;> simp <;> omega

theorem exec_seq_assoc (fuel : Nat) (a b d : St) (s : State F) :
    exec fuel (.seq (.seq a b) d) s = exec fuel (.seq a (.seq b d)) s := by
  simp only [exec_seq]
  by_cases h : (exec fuel a s).ctl = .run <;> simp [h]

variable {N : Names} (hN : N.WF) {c : Cfg} {emb : Nat → F} {tg : Nat → Nat → Bool} {row : Nat} {fwd : Bool}
include hN

/-- **step 3**: the sweep loop is `Prox.sweepN … c.W` -/
theorem sweepLoop_refines (fuel : Nat) (s : State F) (m0 : LineSt) (hs : s.ctl = .run)
    (env : SweepEnv N c emb tg row fwd s) (rel : LineRel c emb s m0) :
    (exec fuel (sweepLoop N) s).ctl = .run ∧ FrameS LV.sweepScratch N s (exec fuel (sweepLoop N) s) ∧
    LineRel c emb (exec fuel (sweepLoop N) s) (sweepN c tg row fwd m0 c.W) := by
  have hrange : rangeList (IE.eval s (.var (N.nm .start))) (IE.eval s (.var (N.nm .end_))) (IE.eval s (.var (N.nm .step))) =
      sweepList c.W fwd := by
    simp only [IE.eval, env.start, env.end_, env.step, sweepList]
    cases fwd
    · simpa using rangeList_down c.W
    · simpa using rangeList_up c.W
  have hstep0 : IE.eval s (.var (N.nm .step)) ≠ 0 := by
    simp only [IE.eval, env.step]; cases fwd <;> simp
  have := forRange_list (N.nm .pixel) (.var (N.nm .start)) (.var (N.nm .end_)) (.var (N.nm .step)) (pixelBody N) s fuel
    (sweepList c.W fwd) hs rfl rfl rfl hstep0 hrange
    (fun k st => FrameS LV.sweepScratch N s st ∧ LineRel c emb st (sweepN c tg row fwd m0 k))
    ⟨FrameS.refl _ N s, rel⟩
    (by
      intro k hk st hst ⟨fr, rl⟩
      have hkW : k < c.W := by simpa [sweepList_length] using hk
      rw [sweepList_get c.W fwd k hk]
      generalize hst1 : ({ st with ienv := setS st.ienv (N.nm .pixel) ((posOf c.W fwd k : Nat) : Int) } : State F) = st1
      have f1 : FrameS LV.sweepScratch N st st1 := by
        subst hst1
        refine ⟨rfl, rfl, ?_, fun _ _ => rfl, fun _ _ => rfl, fun _ _ _ _ _ => rfl, fun _ _ => rfl⟩
        intro v hv; simp [setS, hv .pixel rfl]
      have e1 : st1.ia = st.ia ∧ st1.fa = st.fa ∧ st1.ctl = .run ∧
          st1.ienv (N.nm .pixel) = ((posOf c.W fwd k : Nat) : Int) := by
        subst hst1; exact ⟨rfl, rfl, hst, by simp⟩
      obtain ⟨e1i, e1f, c1, hpix⟩ := e1
      have env1 := env.of_frame hN (fr.trans f1)
      obtain ⟨hc, hf, hr⟩ := pixel_refines hN fuel st1 (sweepN c tg row fwd m0 k) k hkW c1 env1 (rl.congr e1i e1f) hpix
      obtain ⟨h1, h2, _⟩ := afterBody_proj (exec fuel (pixelBody N) st1)
      refine ⟨(afterBody_ctl_run _).2 hc, ?_, ?_⟩
      · exact (fr.trans (f1.trans (hf.mono (fun a ha => by simp [LV.sweepScratch, ha])))).afterBody
      · exact hr.congr h1 h2)
  rw [sweepList_length] at this
  exact ⟨this.1, this.2.1, this.2.2⟩

/-! ### the whole function -/

/-- the inputs of one call of `_process_proximity_line` on line `row`, and the hypotheses that tie them to the
    model (`SweepEnv` without the four locals the prologue sets) -/
structure LineEnv (N : Names) (c : Cfg) (emb : Nat → F) (tg : Nat → Nat → Bool) (row : Nat) (fwd : Bool)
    (s : State F) : Prop where
  shp : LineShp N c.H c.W s
  vshp : s.shp N.vals = [(s.fa N.vals).length]
  row_lt : row < c.H
  row_eq : s.ienv (N.nm .lineId) = (row : Int)
  fwd_eq : s.benv (N.nm .isForward) = fwd
  width : s.ienv (N.nm .width) = (c.W : Int)
  arith : Arith c emb (s.fenv (N.nm .maxDistance))
  dist : ∀ tr tc r p, tr < c.H → tc < c.W → r < c.H → p < c.W →
    cellDist2 N c.W s tr tc r p = emb (dist2 c tr tc r p)
  tgt : ∀ p, p < c.W → targetTest ((s.fa N.src).getD p Fl.nan) (s.fa N.vals) = tg row p

omit hN in
/-- the integer environment after the prologue -/
def prologueEnv (N : Names) (W : Nat) (fwd : Bool) (s : State F) : String → Int :=
  setS (setS (setS (setS s.ienv (N.nm .start) (if fwd then 0 else (W : Int) - 1))
    (N.nm .end_) (if fwd then (W : Int) else -1)) (N.nm .step) (if fwd then 1 else -1))
    (N.nm .nValues) ((s.fa N.vals).length : Int)

/-- the prologue (`start`, `end`, `step`, `n_values`) leads to a state `s1` in which the loop's environment holds -/
theorem prologue_exec (fuel : Nat) (s : State F) (hs : s.ctl = .run)
    (env : LineEnv N c emb tg row fwd s) (tail : St) :
    ∃ s1 : State F, exec fuel (prologueThen N tail) s = exec fuel tail s1 ∧
      s1.ctl = .run ∧ FrameS LV.lineScratch N s s1 ∧ s1.ia = s.ia ∧ s1.fa = s.fa ∧ SweepEnv N c emb tg row fwd s1 := by
  have hne := hN.nm_eq
  refine ⟨{ s with ienv := prologueEnv N c.W fwd s }, ?_, hs,
    ⟨rfl, rfl, ?_, fun _ _ => rfl, fun _ _ => rfl, fun _ _ _ _ _ => rfl, fun _ _ => rfl⟩, rfl, rfl, ?_⟩
  · have hf := env.fwd_eq
    have hw := env.width
    have hv := env.vshp
    generalize hX : (exec fuel tail : State F → State F) = X
    cases fwd <;>
      simp [prologueThen, prologueEnv, exec, exec_seq, hs, BE.ok, BE.eval, IE.ok, IE.eval, IOp.eval, hne, hf, hw, hv, hX,
        List.getD_cons_zero]
    all_goals
      try
        (congr 2
         funext w
         simp only [setS]
         by_cases h1 : w = N.nm .nValues <;> by_cases h2 : w = N.nm .step <;> by_cases h3 : w = N.nm .end_ <;>
           by_cases h4 : w = N.nm .start <;> simp_all)
  · intro v hv
    simp [prologueEnv, setS, hv .start rfl, hv .end_ rfl, hv .step rfl, hv .nValues rfl]
  · exact ⟨env.shp.of_shp rfl, env.vshp, by simp [prologueEnv, setS, hne], env.row_lt,
      by simpa [prologueEnv, setS, hne] using env.row_eq,
      by simp [prologueEnv, setS, hne], by simp [prologueEnv, setS, hne], by simp [prologueEnv, setS, hne], env.arith,
      fun tr tc r p h1 h2 h3 h4 => by
        have := env.dist tr tc r p h1 h2 h3 h4
        simpa [cellDist2, cellDist, prologueEnv, setS, hne] using this,
      env.tgt⟩

/-- **`_process_proximity_line` refines `Prox.sweepN`** (template form): called on well-formed inputs related to
    the model line state `m0`, it returns (`ret`), and its five arrays are related to the model's state after
    the whole sweep; everything else but its own locals is unchanged -/
theorem lineBody_refines (fuel : Nat) (s : State F) (m0 : LineSt) (hs : s.ctl = .run)
    (env : LineEnv N c emb tg row fwd s) (rel : LineRel c emb s m0) :
    (exec fuel (lineBody N) s).ctl = .ret ∧ FrameS LV.lineScratch N s (exec fuel (lineBody N) s) ∧
    LineRel c emb (exec fuel (lineBody N) s) (sweepN c tg row fwd m0 c.W) := by
  obtain ⟨s1, hsplit, c1, f1, i1, a1, env1⟩ := prologue_exec hN fuel s hs env (.seq (sweepLoop N) .ret)
  rw [lineBody, hsplit]
  obtain ⟨c2, f2, r2⟩ := sweepLoop_refines hN fuel s1 m0 c1 env1 (rel.congr i1 a1)
  rw [exec_seq_run _ _ _ _ c2]
  generalize exec fuel (sweepLoop N) s1 = s2 at c2 f2 r2
  have hret : exec fuel .ret s2 = { s2 with ctl := .ret } := by simp [exec]
  rw [hret]
  refine ⟨rfl, ?_, r2.congr rfl rfl⟩
  have f12 := f1.trans (f2.mono (fun a ha => by simp [LV.lineScratch, ha]))
  exact ⟨f12.shp, f12.ext, f12.ienv, f12.fenv, f12.benv, f12.ia, f12.fa⟩

omit hN in
/-- **the generated `_process_proximity_line` refines `Prox.sweepN`**: for every state `s` holding well-formed
    inputs (`LineEnv`: shapes, `line_id = row < H`, `width = W`, `is_forward = fwd`, the hypotheses `Arith` on the
    number domain and `dist` on `_distance`, the target test = `tg row`) whose five work arrays are related to a
    model line state `m0`, the program returns and its work arrays are related to `sweepN c tg row fwd m0 W` --
    all `W` pixels, forward or backward; nothing else but its own locals changes. -/
theorem proximityLine_refines (fuel : Nat) (s : State F) (m0 : LineSt) (hs : s.ctl = .run)
    (env : LineEnv N0 c emb tg row fwd s) (rel : LineRel c emb s m0) :
    let r := Gen.IL.proximityLine.run s fuel
    r.ctl = .ret ∧ LineRel c emb r (sweepN c tg row fwd m0 c.W) ∧ FrameS LV.lineScratch N0 s r := by
  simp only [Prog.run, proximityLine_is_template]
  obtain ⟨h1, h2, h3⟩ := lineBody_refines N0_wf fuel s m0 hs env rel
  exact ⟨h1, h3, h2⟩

end XrsVerif.IL.Px
