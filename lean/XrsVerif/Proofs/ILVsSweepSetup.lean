import XrsVerif.Proofs.ILVsSweepGrad
import XrsVerif.Proofs.ILViewshedBase
import Mathlib.Tactic.Positivity
/-
  Proofs/ILVsSweepSetup.lean -- the set-up of the generated `_viewshed_cpu_sweep` (`sweepSetup`): the sizes, the two arrays
  of the status structure with the dummy root in row 0 and the NIL row last (`_create_status_struct`, `createStruct_exec`),
  the stack of idle rows (`idleInit`), the node buffer: `sweepSetup_exec`.
-/
namespace XrsVerif.ILSw
open XrsVerif XrsVerif.IL
variable {F : Type} [Fl F]
set_option linter.unusedSectionVars false
set_option linter.unusedSimpArgs false
set_option linter.unusedVariables false

/-- `SMALLEST_GRAD` -/
def smallF : F := Fl.lit (-10000000000000000000000) 1

/-- row `r` of the value array after `_create_tree_nodes(…, x, val, color)`: the first seven entries of `val`, then `SMALLEST_GRAD` -/
def nodeRowV (sv : List F) (r : Nat) (dv : List F) : List F :=
  (((((((sv.set (r * 8 + 0) (dv.getD 0 Fl.nan)).set (r * 8 + 1) (dv.getD 1 Fl.nan)).set (r * 8 + 2) (dv.getD 2 Fl.nan)).set
    (r * 8 + 3) (dv.getD 3 Fl.nan)).set (r * 8 + 4) (dv.getD 4 Fl.nan)).set (r * 8 + 5) (dv.getD 5 Fl.nan)).set
    (r * 8 + 6) (dv.getD 6 Fl.nan)).set (r * 8 + 7) smallF

/-- row `r` of the link array after `_create_tree_nodes`: the colour, then three NIL links -/
def nodeRowS (ss : List Int) (r : Nat) (c : Int) : List Int :=
  (((ss.set (r * 4 + 0) c).set (r * 4 + 1) (-1)).set (r * 4 + 2) (-1)).set (r * 4 + 3) (-1)

theorem createNode_exec (p dv : String) (s : State F) (fuel N : Nat) (x : Int) (hs : s.ctl = .run)
    (shV : s.shp "status_values" = [N, 8]) (shS : s.shp "status_struct" = [N, 4]) (shD : s.shp dv = [10])
    (hdv : dv ≠ "status_values") (hx : s.ienv (p ++ "x") = x) (hxr : -1 ≤ x ∧ x < N) (hN : 0 < N) :
    exec fuel (createNode p dv) s =
      { s with fa := setS s.fa "status_values" (nodeRowV (s.fa "status_values") (ILVs.rowOf N x) (s.fa dv)),
               ia := setS s.ia "status_struct" (nodeRowS (s.ia "status_struct") (ILVs.rowOf N x) (s.ienv (p ++ "color"))) } := by
  obtain ⟨ie, fe, be, ia, fa, shp, ext, ctl⟩ := s
  simp only at hs shV shS shD hx; subst hs
  have hin : inRange x N = true := ILVs.inRange_ptr N x hxr hN
  have o0 := ILVs.off2_ptr N 8 x 0
  have o1 := ILVs.off2_ptr N 8 x 1
  have o2 := ILVs.off2_ptr N 8 x 2
  have o3 := ILVs.off2_ptr N 8 x 3
  have o4 := ILVs.off2_ptr N 8 x 4
  have o5 := ILVs.off2_ptr N 8 x 5
  have o6 := ILVs.off2_ptr N 8 x 6
  have o7 := ILVs.off2_ptr N 8 x 7
  have q0 := ILVs.off2_ptr N 4 x 0
  have q1 := ILVs.off2_ptr N 4 x 1
  have q2 := ILVs.off2_ptr N 4 x 2
  have q3 := ILVs.off2_ptr N 4 x 3
  simp only [Nat.cast_ofNat, Nat.cast_zero, Nat.cast_one] at o0 o1 o2 o3 o4 o5 o6 o7 q0 q1 q2 q3
  have i8 : ∀ k : Nat, k < 8 → inRange (k : Int) 8 = true := fun k hk => inRange_of_lt k 8 hk
  have i4 : ∀ k : Nat, k < 4 → inRange (k : Int) 4 = true := fun k hk => inRange_of_lt k 4 hk
  have i10 : ∀ k : Nat, k < 10 → inRange (k : Int) 10 = true := fun k hk => inRange_of_lt k 10 hk
  have a0 := i8 0 (by omega); have a1 := i8 1 (by omega); have a2 := i8 2 (by omega); have a3 := i8 3 (by omega)
  have a4 := i8 4 (by omega); have a5 := i8 5 (by omega); have a6 := i8 6 (by omega); have a7 := i8 7 (by omega)
  have b0 := i4 0 (by omega); have b1 := i4 1 (by omega); have b2 := i4 2 (by omega); have b3 := i4 3 (by omega)
  have c0 := i10 0 (by omega); have c1 := i10 1 (by omega); have c2 := i10 2 (by omega); have c3 := i10 3 (by omega)
  have c4 := i10 4 (by omega); have c5 := i10 5 (by omega); have c6 := i10 6 (by omega)
  have d0 := off1_nat 10 0; have d1 := off1_nat 10 1; have d2 := off1_nat 10 2; have d3 := off1_nat 10 3
  have d4 := off1_nat 10 4; have d5 := off1_nat 10 5; have d6 := off1_nat 10 6
  simp only [Nat.cast_ofNat, Nat.cast_zero, Nat.cast_one] at a0 a1 a2 a3 a4 a5 a6 a7 b0 b1 b2 b3 c0 c1 c2 c3 c4 c5 c6 d0 d1 d2 d3 d4 d5 d6
  have hdv' : ¬ ("status_values" = dv) := fun e => hdv e.symm
  simp [createNode, exec, IE.ok, IE.eval, FE.ok, FE.eval, shV, shS, shD, hx, hin, setS_apply, setS_setS, hdv, hdv',
    o0, o1, o2, o3, o4, o5, o6, o7, q0, q1, q2, q3, a0, a1, a2, a3, a4, a5, a6, a7, b0, b1, b2, b3, c0, c1, c2, c3, c4, c5, c6,
    d0, d1, d2, d3, d4, d5, d6, nodeRowV, nodeRowS, smallF]

/-- the dummy value array `[0, -1, -1, S, S, S, 0, 0, 0, S]` of `_create_status_struct` -/
def dummyVals : List F :=
  [Fl.lit 0 1, Fl.lit (-1) 1, Fl.lit (-1) 1, smallF, smallF, smallF, Fl.lit 0 1, Fl.lit 0 1, Fl.lit 0 1, smallF]

/-- the value array after `_create_status_struct`: the dummy root in row 0, the NIL row last -/
def svInit (N : Nat) : List F := nodeRowV (nodeRowV (List.replicate (N * 8) (Fl.lit 0 1)) 0 dummyVals) (N - 1) dummyVals

/-- the link array after `_create_status_struct`: both rows black with NIL links; the NIL row's links then set to `num_nodes` -/
def ssInit (N : Nat) : List Int :=
  (((nodeRowS (nodeRowS (List.replicate (N * 4) 0) 0 1) (N - 1) 1).set ((N - 1) * 4 + 1) (N : Int)).set ((N - 1) * 4 + 2) (N : Int)).set
    ((N - 1) * 4 + 3) (N : Int)

/-- the first statements of `_create_status_struct`: the dummy value array -/
def dvInit : List St :=
  let dv := "_create_status_struct1$dummy_node_value"
  [.allocF dv [(.lit 10)] (.lit 0 1), .stF1 dv (.lit 0) (.lit 0 1), .stF1 dv (.lit 1) (.ofInt (.lit (-1))),
   .stF1 dv (.lit 2) (.ofInt (.lit (-1))), .stF1 dv (.lit 3) (.lit (-10000000000000000000000) 1),
   .stF1 dv (.lit 4) (.lit (-10000000000000000000000) 1), .stF1 dv (.lit 5) (.lit (-10000000000000000000000) 1),
   .stF1 dv (.lit 6) (.lit 0 1), .stF1 dv (.lit 7) (.lit 0 1), .stF1 dv (.lit 8) (.lit 0 1),
   .stF1 dv (.lit 9) (.lit (-10000000000000000000000) 1)]

theorem dvInit_exec (s : State F) (fuel : Nat) (hs : s.ctl = .run) :
    exec fuel (ILVs.seqL dvInit) s =
      { s with fa := setS s.fa "_create_status_struct1$dummy_node_value" dummyVals,
               shp := setS s.shp "_create_status_struct1$dummy_node_value" [10] } := by
  obtain ⟨ie, fe, be, ia, fa, shp, ext, ctl⟩ := s
  simp only at hs; subst hs
  simp [dvInit, ILVs.seqL, exec, IE.ok, IE.eval, FE.ok, FE.eval, setS_apply, setS_setS, inRange, normIdx, off1, dummyVals, smallF,
    List.replicate]

theorem exec_seqK_ne (fuel : Nat) (l : List St) (k : St) (s : State F) (hl : l ≠ []) :
    exec fuel (ILVs.seqK l k) s = exec fuel (.seq (ILVs.seqL l) k) s := by
  cases l with
  | nil => exact absurd rfl hl
  | cons a as => exact ILVs.exec_seqK fuel as a k s

/-- the rest of `_create_status_struct`: the root row, the NIL row, the NIL row's links -/
def csRest : St :=
  let c := "_create_status_struct1$"
  let dv := "_create_status_struct1$dummy_node_value"
  (.seq (.setI (c ++ "root") (.lit 0))
  (.seq (.setI (c ++ "_create_tree_nodes2$x") (.var (c ++ "root")))
  (.seq (.setI (c ++ "_create_tree_nodes2$color") (.lit 1))
  (.seq (createNode (c ++ "_create_tree_nodes2$") dv)
  (.seq (.setI (c ++ "_create_tree_nodes3$x") (.lit (-1)))
  (.seq (.setI (c ++ "_create_tree_nodes3$color") (.lit 1))
  (.seq (createNode (c ++ "_create_tree_nodes3$") dv)
  (.seq (.setI (c ++ "num_nodes") (.dim "status_values" 0))
  (.seq (.stI2 "status_struct" (.lit (-1)) (.lit 1) (.var (c ++ "num_nodes")))
  (.seq (.stI2 "status_struct" (.lit (-1)) (.lit 2) (.var (c ++ "num_nodes")))
  (.seq (.stI2 "status_struct" (.lit (-1)) (.lit 3) (.var (c ++ "num_nodes")))
  (.seq (.setI (c ++ "ret0") (.var (c ++ "root")))
  .ret))))))))))))

theorem createStruct_split : createStruct = ILVs.seqK dvInit csRest := rfl

/-- the scalars `_create_status_struct` assigns -/
def csLocals : List String :=
  ["_create_status_struct1$root", "_create_status_struct1$_create_tree_nodes2$x", "_create_status_struct1$_create_tree_nodes2$color",
   "_create_status_struct1$_create_tree_nodes3$x", "_create_status_struct1$_create_tree_nodes3$color",
   "_create_status_struct1$num_nodes", "_create_status_struct1$ret0"]

theorem createStruct_exec (s : State F) (fuel N : Nat) (hs : s.ctl = .run)
    (shV : s.shp "status_values" = [N, 8]) (shS : s.shp "status_struct" = [N, 4])
    (hV : s.fa "status_values" = List.replicate (N * 8) (Fl.lit 0 1)) (hS : s.ia "status_struct" = List.replicate (N * 4) 0)
    (hN : 2 ≤ N) :
    ∃ ie fa' ia' shp', exec fuel (.scope createStruct) s = { s with ienv := ie, fa := fa', ia := ia', shp := shp', ctl := .run } ∧
      ie "_create_status_struct1$ret0" = 0 ∧ (∀ v, v ∉ csLocals → ie v = s.ienv v) ∧
      fa' "status_values" = svInit N ∧
      (∀ a, a ≠ "status_values" → a ≠ "_create_status_struct1$dummy_node_value" → fa' a = s.fa a) ∧
      ia' "status_struct" = ssInit N ∧ (∀ a, a ≠ "status_struct" → ia' a = s.ia a) ∧
      (∀ a, a ≠ "_create_status_struct1$dummy_node_value" → shp' a = s.shp a) := by
  obtain ⟨ie, fe, be, ia, fa, shp, ext, ctl⟩ := s
  simp only at hs shV shS hV hS; subst hs
  have hN0 : 0 < N := by omega
  have hbody : exec fuel createStruct ⟨ie, fe, be, ia, fa, shp, ext, .run⟩ =
      exec fuel csRest ⟨ie, fe, be, ia, setS fa "_create_status_struct1$dummy_node_value" dummyVals,
        setS shp "_create_status_struct1$dummy_node_value" [10], ext, .run⟩ := by
    rw [createStruct_split, exec_seqK_ne _ _ _ _ (by simp [dvInit]), exec_seq_eq _ _ _ _ _ (dvInit_exec _ fuel rfl) rfl]
  have hQ : Post fuel csRest (⟨ie, fe, be, ia, setS fa "_create_status_struct1$dummy_node_value" dummyVals,
        setS shp "_create_status_struct1$dummy_node_value" [10], ext, .run⟩ : State F)
      (fun r => r.ctl = .ret ∧ r.fenv = fe ∧ r.benv = be ∧ r.ext = ext ∧
        r.ienv "_create_status_struct1$ret0" = 0 ∧ (∀ v, v ∉ csLocals → r.ienv v = ie v) ∧
        r.fa "status_values" = svInit N ∧
        (∀ a, a ≠ "status_values" → a ≠ "_create_status_struct1$dummy_node_value" → r.fa a = fa a) ∧
        r.ia "status_struct" = ssInit N ∧ (∀ a, a ≠ "status_struct" → r.ia a = ia a) ∧
        (∀ a, a ≠ "_create_status_struct1$dummy_node_value" → r.shp a = shp a)) := by
    simp only [csRest]
    refine Post.seq_eq _ (exec_setI_lit _ _ _ _) rfl ?_
    dsimp only
    refine Post.seq_eq _ (ILVs.exec_setI _ _ _ _ (by simp [IE.ok])) rfl ?_
    simp only [IE.eval, setS_same]
    refine Post.seq_eq _ (exec_setI_lit _ _ _ _) rfl ?_
    dsimp only
    refine Post.seq_eq _ (createNode_exec _ _ _ fuel N 0 rfl (by simpa [setS_apply] using shV) (by simpa [setS_apply] using shS)
      (by simp [setS_apply]) (by decide) (by simp [setS_apply, IE.eval]) (by omega) hN0) rfl ?_
    simp [setS_apply, hV, hS, show ILVs.rowOf N 0 = 0 from ILVs.rowOf_nat N 0]
    refine Post.seq_eq _ (exec_setI_lit _ _ _ _) rfl ?_
    dsimp only
    refine Post.seq_eq _ (exec_setI_lit _ _ _ _) rfl ?_
    dsimp only
    refine Post.seq_eq _ (createNode_exec _ _ _ fuel N (-1) rfl (by simpa [setS_apply] using shV) (by simpa [setS_apply] using shS)
      (by simp [setS_apply]) (by decide) (by simp [setS_apply]) (by omega) hN0) rfl ?_
    simp [setS_apply, ILVs.rowOf_neg_one, setS_setS]
    have g1 : (0 : Int) ≤ -1 + (N : Int) := by omega
    have g2 : -1 + (N : Int) < N := by omega
    have g3 : (-1 + (N : Int)).toNat = N - 1 := by omega
    unfold Post
    simp [exec, IE.ok, IE.eval, shV, shS, setS_apply, inRange, normIdx, off2, g1, g2, g3, svInit, ssInit, setS_setS]
    refine ⟨?_, ?_, ?_, ?_⟩
    · intro v hv
      simp [csLocals] at hv
      simp [hv]
    · intro a h1 h2; simp [h1, h2]
    · intro a h1; simp [h1]
    · intro a h1; simp [h1]
  unfold Post at hQ
  obtain ⟨q1, q2, q3, q4, q5, q6, q7, q8, q9, q10, q11⟩ := hQ
  rw [ILVs.exec_scope, hbody]
  generalize exec fuel csRest (⟨ie, fe, be, ia, setS fa "_create_status_struct1$dummy_node_value" dummyVals,
    setS shp "_create_status_struct1$dummy_node_value" [10], ext, .run⟩ : State F) = r at *
  refine ⟨r.ienv, r.fa, r.ia, r.shp, ?_, q5, q6, q7, q8, q9, q10, q11⟩
  simp only [q1, if_true]
  obtain ⟨a, b, c, d, e, f, g, h⟩ := r
  simp only at q2 q3 q4
  subst q2 q3 q4
  rfl

/-! ### filling a 1-D integer array -/

/-- the first `k` cells overwritten with `f 0 … f (k-1)` -/
def fillK (l : List Int) (f : Nat → Int) (k : Nat) : List Int := (List.range k).foldl (fun acc c => acc.set c (f c)) l

theorem fillK_succ (l : List Int) (f : Nat → Int) (k : Nat) : fillK l f (k + 1) = (fillK l f k).set k (f k) := by
  simp [fillK, List.range_succ, List.foldl_append]

@[simp] theorem length_fillK (l : List Int) (f : Nat → Int) (k : Nat) : (fillK l f k).length = l.length := by
  induction k with
  | zero => rfl
  | succ k ih => rw [fillK_succ, List.length_set, ih]

theorem getD_fillK (l : List Int) (f : Nat → Int) (k idx : Nat) (d : Int) :
    (fillK l f k).getD idx d = if idx < k ∧ idx < l.length then f idx else l.getD idx d := by
  induction k with
  | zero =>
    have : ¬ (idx < 0 ∧ idx < l.length) := by omega
    simp only [this, if_false]; rfl
  | succ k ih =>
    rw [fillK_succ, Px.getD_set, ih, length_fillK]
    by_cases h1 : k = idx
    · subst h1
      by_cases h2 : k < l.length
      · simp [h2]
      · simp [h2]
    · by_cases h2 : idx < k ∧ idx < l.length
      · have : idx < k + 1 ∧ idx < l.length := by omega
        simp [h1, h2, this]
      · have : ¬ (idx < k + 1 ∧ idx < l.length) := by omega
        simp [h1, h2, this]

/-- `for kv in range(C): a[kv] = val` on a 1-D integer array -/
theorem fillLoop_exec (a kv : String) (hiE val : IE) (s : State F) (fuel L C : Nat) (f : Nat → Int)
    (hs : s.ctl = .run) (hshp : s.shp a = [L]) (hCL : C ≤ L) (hC : 0 < C)
    (hhi : hiE.ok s = true ∧ hiE.eval s = (C : Int))
    (hst : ∀ (k : Nat) (l : List Int), k < C →
      val.ok { s with ienv := setS s.ienv kv (k : Int), ia := setS s.ia a l } = true ∧
      val.eval { s with ienv := setS s.ienv kv (k : Int), ia := setS s.ia a l } = f k) :
    exec fuel (.forRange kv (.lit 0) hiE (.lit 1) (.stI1 a (.var kv) val)) s =
      { s with ienv := setS s.ienv kv ((C - 1 : Nat) : Int), ia := setS s.ia a (fillK (s.ia a) f C) } := by
  obtain ⟨ie, fe, be, ia, fa, shp, ext, ctl⟩ := s
  simp only at hs hshp hhi hst
  subst hs
  have h := Px.forRange_up kv hiE (.stI1 a (.var kv) val) _ fuel C rfl hhi.1 hhi.2
    (fun k st => st = ⟨setS ie kv (if k = 0 then ie kv else ((k - 1 : Nat) : Int)), fe, be,
        setS ia a (fillK (ia a) f k), fa, shp, ext, .run⟩)
    (by
      have e1 : setS ie kv (ie kv) = ie := setS_self' _ _
      have e2 : setS ia a (ia a) = ia := setS_self' _ _
      simp [fillK, e1, e2])
    (fun k hk st hrun hP => by
      subst hP
      obtain ⟨o1, o2⟩ := hst k (fillK (ia a) f k) hk
      simp only [setS_setS] at *
      have hin : inRange (k : Int) L = true := inRange_of_lt k L (by omega)
      simp [exec, o1, o2, IE.ok, IE.eval, hshp, hin, off1_nat, setS_apply, afterBody, fillK_succ, setS_setS])
  rw [h.2]
  have : ¬ C = 0 := by omega
  simp [this]

theorem exec_allocF (fuel : Nat) (a : String) (dims : List IE) (fill : FE) (s : State F)
    (hok : dims.all (·.ok s) = true) (hf : fill.ok s = true) (hnn : dims.all (fun d => decide (0 ≤ d.eval s)) = true) :
    exec fuel (.allocF a dims fill) s =
      { s with shp := setS s.shp a (dims.map fun d => (d.eval s).toNat),
               fa := setS s.fa a (List.replicate ((dims.map fun d => (d.eval s).toNat).foldl (· * ·) 1) (fill.eval s)) } := by
  simp only [exec, hok, hf, hnn, Bool.and_self, if_true]

theorem exec_allocI (fuel : Nat) (a : String) (dims : List IE) (fill : IE) (s : State F)
    (hok : dims.all (·.ok s) = true) (hf : fill.ok s = true) (hnn : dims.all (fun d => decide (0 ≤ d.eval s)) = true) :
    exec fuel (.allocI a dims fill) s =
      { s with shp := setS s.shp a (dims.map fun d => (d.eval s).toNat),
               ia := setS s.ia a (List.replicate ((dims.map fun d => (d.eval s).toNat).foldl (· * ·) 1) (fill.eval s)) } := by
  simp only [exec, hok, hf, hnn, Bool.and_self, if_true]

/-- the stack of idle rows after the set-up: `idle[0] = N - 2` (its height), `idle[i] = N - i` below the top -/
def idleInit (N : Nat) : List Int := (fillK (List.replicate N 0) (fun i => (N : Int) - i) (N - 1)).set 0 ((N : Int) - 2)

/-- what the set-up of the sweep leaves behind -/
structure SweepSetup (s r : State F) (h w N : Nat) : Prop where
  ctl : r.ctl = .run
  nr : r.ienv "n_rows" = h
  nc : r.ienv "n_cols" = w
  nn : r.ienv "num_nodes" = N
  root : r.ienv "root" = 0
  shV : r.shp "status_values" = [N, 8]
  shS : r.shp "status_struct" = [N, 4]
  shI : r.shp "idle" = [N]
  shN : r.shp "status_node" = [7]
  sv : r.fa "status_values" = svInit N
  ss : r.ia "status_struct" = ssInit N
  idle : r.ia "idle" = idleInit N
  node : r.fa "status_node" = List.replicate 7 (Fl.lit 0 1)
  fenv : r.fenv = s.fenv
  vp : r.ienv "vp_row" = s.ienv "vp_row" ∧ r.ienv "vp_col" = s.ienv "vp_col"
  keepF : ∀ a, a ∈ ["raster", "data", "event_aes", "visibility_grid"] → r.fa a = s.fa a ∧ r.shp a = s.shp a
  keepI : r.ia "event_rcts" = s.ia "event_rcts" ∧ r.shp "event_rcts" = s.shp "event_rcts"

theorem sweepSetup_exec (s : State F) (fuel h w vc N : Nat) (hs : s.ctl = .run) (shR : s.shp "raster" = [h, w])
    (hvc : s.ienv "vp_col" = vc) (hvcw : vc ≤ w) (hN : (w : Int) - vc + w * h + 10 = (N : Int)) :
    SweepSetup s (exec fuel (ILVs.seqL sweepSetup) s) h w N := by
  obtain ⟨ie, fe, be, ia, fa, shp, ext, ctl⟩ := s
  simp only at hs shR hvc; subst hs
  have hwh : (0 : Int) ≤ (w : Int) * h := by positivity
  have hN2 : 10 ≤ N := by omega
  show Post fuel _ _ (fun r => SweepSetup _ r h w N)
  simp only [sweepSetup, ILVs.seqL]
  refine Post.seq_eq _ (ILVs.exec_setI _ _ _ _ (by simp [IE.ok, shR])) rfl ?_
  refine Post.seq_eq _ (ILVs.exec_setI _ _ _ _ (by simp [IE.ok, shR])) rfl ?_
  refine Post.seq_eq _ (ILVs.exec_setI _ _ _ _ (by simp [IE.ok])) rfl ?_
  simp [IE.eval, IOp.eval, shR, setS_apply, hvc, hN]
  refine Post.seq_eq _ (exec_allocF _ _ _ _ _ (by simp [IE.ok]) (by simp [FE.ok]) (by simp [IE.eval, setS_apply])) rfl ?_
  simp [IE.eval, FE.eval, setS_apply]
  refine Post.seq_eq _ (exec_allocI _ _ _ _ _ (by simp [IE.ok]) (by simp [IE.ok]) (by simp [IE.eval, setS_apply])) rfl ?_
  simp [IE.eval, setS_apply]
  obtain ⟨ie1, fa1, ia1, shp1, e1, c1, c2, c3, c4, c5, c6, c7⟩ := createStruct_exec (F := F)
    ⟨setS (setS (setS ie "n_rows" h) "n_cols" w) "num_nodes" N, fe, be, setS ia "status_struct" (List.replicate (N * 4) 0),
      setS fa "status_values" (List.replicate (N * 8) (Fl.lit 0 1)),
      setS (setS shp "status_values" [N, 8]) "status_struct" [N, 4], ext, .run⟩ fuel N rfl (by simp [setS_apply])
    (by simp [setS_apply]) (by simp [setS_apply]) (by simp [setS_apply]) (by omega)
  refine Post.seq_eq _ e1 rfl ?_
  refine Post.seq_eq _ (ILVs.exec_setI _ _ _ _ (by simp [IE.ok])) rfl ?_
  simp only [IE.eval, c1]
  refine Post.seq_eq _ (exec_allocI _ _ _ _ _ (by simp [IE.ok]) (by simp [IE.ok])
    (by simp [IE.eval, setS_apply, c2 "num_nodes" (by decide)])) rfl ?_
  simp [IE.eval, setS_apply, c2 "num_nodes" (by decide)]
  have hshI : (setS shp1 "idle" [N]) "idle" = [N] := by simp [setS_apply]
  refine Post.seq_eq _ (fillLoop_exec "idle" "i" (.bin .sub (.var "num_nodes") (.lit 1)) (.bin .sub (.var "num_nodes") (.var "i")) _ fuel N
    (N - 1) (fun i => (N : Int) - i) rfl hshI (by omega) (by omega)
    (by simp [IE.ok, IE.eval, IOp.eval, setS_apply, c2 "num_nodes" (by decide)]; omega)
    (by intro k l hk; simp [IE.ok, IE.eval, IOp.eval, setS_apply, c2 "num_nodes" (by decide)])) rfl ?_
  simp [setS_apply]
  have hN0 : (0 : Int) < N := by omega
  have hn0 : ¬ ((N : Int) ≤ 0) := by omega
  have hNn : 0 < N := by omega
  unfold Post
  simp [exec, IE.ok, IE.eval, FE.ok, FE.eval, IOp.eval, setS_apply, setS_setS, inRange, normIdx, off1, hN0, hn0, hNn,
    c2 "num_nodes" (by decide)]
  refine ⟨rfl, ?_, ?_, ?_, ?_, ?_, ?_, ?_, ?_, ?_, ?_, ?_, ?_, rfl, ?_, ?_, ?_⟩ <;>
    simp [setS_apply, c2 _ (show "n_rows" ∉ csLocals by decide), c2 _ (show "n_cols" ∉ csLocals by decide),
      c2 _ (show "num_nodes" ∉ csLocals by decide), c2 _ (show "vp_row" ∉ csLocals by decide),
      c2 _ (show "vp_col" ∉ csLocals by decide), c7, c3, c5, idleInit,
      c4 "raster" (by decide) (by decide), c4 "data" (by decide) (by decide), c4 "event_aes" (by decide) (by decide),
      c4 "visibility_grid" (by decide) (by decide), c6 "event_rcts" (by decide), c6 "idle" (by decide)]
end XrsVerif.ILSw
