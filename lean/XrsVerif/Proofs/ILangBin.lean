import XrsVerif.Proofs.ILang
/-
  Proofs/ILangBin.lean -- generic ILang lemmas added for the refinement proof of `_cpu_bin`
  (Proofs/ILBin.lean): one rewriting rule per statement kind (so a proof can step through a program without
  unfolding `exec` over a whole block; `seq` / `while` rules are in Proofs/ILang.lean), `fdiv` by a positive literal,
  the bounds check of a possibly negative index.
-/
namespace XrsVerif.IL
open XrsVerif
variable {F : Type} [Fl F]
set_option linter.unusedSectionVars false

theorem exec_seq (fuel : Nat) (a b : St) (s : State F) :
    exec fuel (.seq a b) s =
      if (exec fuel a s).ctl = .run then exec fuel b (exec fuel a s) else exec fuel a s := by
  simp only [exec]

theorem exec_setI (fuel : Nat) (v : String) (e : IE) (s : State F) (h : e.ok s = true) :
    exec fuel (.setI v e) s = { s with ienv := setS s.ienv v (e.eval s) } := by
  simp only [exec, h, if_true]

theorem exec_setF (fuel : Nat) (v : String) (e : FE) (s : State F) (h : e.ok s = true) :
    exec fuel (.setF v e) s = { s with fenv := setS s.fenv v (e.eval s) } := by
  simp only [exec, h, if_true]

theorem exec_ite_true (fuel : Nat) (c : BE) (t f : St) (s : State F) (hok : c.ok s = true)
    (h : c.eval s = true) : exec fuel (.ite c t f) s = exec fuel t s := by
  simp only [exec, hok, h, if_true]

theorem exec_ite_false (fuel : Nat) (c : BE) (t f : St) (s : State F) (hok : c.ok s = true)
    (h : c.eval s = false) : exec fuel (.ite c t f) s = exec fuel f s := by
  simp [exec, hok, h]

theorem exec_ite_err (fuel : Nat) (c : BE) (t f : St) (s : State F) (hok : c.ok s = false) :
    exec fuel (.ite c t f) s = s.error "index" := by
  simp [exec, hok]

theorem exec_skip (fuel : Nat) (s : State F) : exec fuel .skip s = s := by simp only [exec]
theorem exec_brk (fuel : Nat) (s : State F) : exec fuel .brk s = { s with ctl := .brk } := by simp only [exec]
theorem exec_ret (fuel : Nat) (s : State F) : exec fuel .ret s = { s with ctl := .ret } := by simp only [exec]

/-- one iteration whose body ends normally (`Proofs/ILang.lean: exec_while_step` without the `continue` case and
    without the control reset) -/
theorem exec_while_step_run (fuel : Nat) (c : BE) (b : St) (s : State F) (hok : c.ok s = true)
    (h : c.eval s = true) (hb : (exec fuel b s).ctl = .run) :
    exec (fuel + 1) (.while c b) s = exec fuel (.while c b) (exec fuel b s) := by
  simp only [exec, hok, h, if_true]
  split <;> simp_all

theorem exec_forRange (fuel : Nat) (v : String) (lo hi step : IE) (body : St) (s : State F)
    (h : (lo.ok s && hi.ok s && step.ok s && decide (step.eval s ≠ 0)) = true) :
    exec fuel (.forRange v lo hi step body) s =
      loopOver (fun st i => exec fuel body { st with ienv := setS st.ienv v i })
        (rangeList (lo.eval s) (hi.eval s) (step.eval s)) s := by
  simp only [exec, h, if_true]

/-- `a // 2` (Python floor division as translated: `Int.fdiv`) is Lean's `a / 2` -/
theorem fdiv_two (a : Int) : Int.fdiv a 2 = a / 2 := by
  rw [Int.fdiv_eq_ediv_of_nonneg] ; decide

/-- an index that passed the bounds check, possibly negative (wrapped once) -/
theorem inRange_iff (i : Int) (n : Nat) :
    inRange i n = true ↔ (0 ≤ i ∧ i < n) ∨ (i < 0 ∧ 0 ≤ i + n) := by
  unfold inRange normIdx
  split <;> simp <;> omega

end XrsVerif.IL
