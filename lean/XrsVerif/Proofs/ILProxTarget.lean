import XrsVerif.Proofs.ILangProx
import XrsVerif.Model.Proximity
/-
  Proofs/ILProxTarget.lean -- step 1 of the refinement of the generated `_process_proximity_line`:
  the target-test block (`is_target = False; if n_values == 0: ... else: for i in range(n_values): ...`)
  computes `targetTest` (the test on numbers), and `targetTest` is the model's `Prox.isTargetVal` under any
  reading `toVal : F → Prox.Val` of the numbers that respects `==`, `!= 0` and `isfinite`.
-/
namespace XrsVerif.IL.Px
open XrsVerif
variable {F : Type} [Fl F]
set_option linter.unusedSectionVars false
set_option linter.unusedSimpArgs false

/-- the target test of `_process_proximity_line` on numbers: default = non-zero and finite,
    explicit `values` = `==` with one of them -/
def targetTest (x : F) (vals : List F) : Bool :=
  if vals.length = 0 then (!(Fl.eq x (Fl.lit 0 1)) && Fl.isfinite x) else vals.any (fun v => Fl.eq x v)

/-- `is_target = False` -/
theorem init_exec (N : Names) (s : State F) (fuel : Nat) :
    exec fuel (bInit N) s = { s with benv := setS s.benv (N.nm .isTarget) false } := by
  simp [bInit, exec, BE.ok, BE.eval]

/-- the test block, started with `is_target = False` -/
theorem test_exec (N : Names) (hN : N.WF) (s : State F) (fuel : Nat) (hs : s.ctl = .run)
    (p W nv : Nat) (hp : p < W) (hpix : s.ienv (N.nm .pixel) = p) (hshp : s.shp N.src = [W])
    (hvshp : s.shp N.vals = [nv]) (hnv : s.ienv (N.nm .nValues) = nv) (hvlen : (s.fa N.vals).length = nv)
    (hf : s.benv (N.nm .isTarget) = false) :
    let r := exec fuel (bTest N) s
    r.ctl = .run ∧ r.benv (N.nm .isTarget) = targetTest ((s.fa N.src).getD p Fl.nan) (s.fa N.vals) ∧
    ScalOnly s r ∧ r.fenv = s.fenv ∧ (∀ v, v ≠ N.nm .i → r.ienv v = s.ienv v) ∧
    (∀ v, v ≠ N.nm .isTarget → r.benv v = s.benv v) := by
  have hne := hN.nm_eq
  generalize hx : (s.fa N.src).getD p Fl.nan = x
  simp only [List.getD_eq_getElem?_getD] at hx
  by_cases h0 : nv = 0
  · subst h0
    have hl : (s.fa N.vals) = [] := by simpa using hvlen
    have hr : exec fuel (bTest N) s =
        if (!(Fl.eq x (Fl.lit 0 1)) && Fl.isfinite x) then { s with benv := setS s.benv (N.nm .isTarget) true } else s := by
      cases h1 : Fl.eq x (Fl.lit 0 1) <;> cases h2 : Fl.isfinite x <;>
        simp [exec, bTest, hs, BE.ok, BE.eval, IE.ok, IE.eval, FE.ok, FE.eval, cmpInt, hpix, hshp, hnv,
          inRange_of_lt _ _ hp, off1_nat, CmpOp.eval, hx, h1, h2]
    simp only [hr, targetTest, hl, List.length_nil, if_true]
    cases (!(Fl.eq x (Fl.lit 0 1)) && Fl.isfinite x)
    · exact ⟨hs, hf, ScalOnly.refl s, rfl, fun _ _ => rfl, fun _ _ => rfl⟩
    · refine ⟨hs, by simp, ⟨rfl, rfl, rfl, rfl⟩, rfl, fun _ _ => rfl, fun v hv => by simp [setS, hv]⟩
  · have hnv0 : ¬ ((nv : Int) = 0) := by omega
    have hvl0 : ¬ ((s.fa N.vals).length = 0) := by omega
    have hok : (BE.cmpI CmpOp.eq (IE.var (N.nm .nValues)) (IE.lit 0)).ok s = true := rfl
    rw [bTest, exec_ite _ _ _ _ _ hok]
    simp only [BE.eval, IE.eval, cmpInt, hnv, hnv0, decide_false, Bool.false_eq_true, if_false]
    have := forRange_up (N.nm .i) (.var (N.nm .nValues))
      (.ite (.cmpF .eq (.ld1 N.src (.var (N.nm .pixel))) (.ld1 N.vals (.var (N.nm .i)))) (.setB (N.nm .isTarget) .tt) .skip)
      s fuel nv hs rfl (by simp [IE.eval, hnv])
      (fun k st => ScalOnly s st ∧ st.fenv = s.fenv ∧ (∀ v, v ≠ N.nm .i → st.ienv v = s.ienv v) ∧
        (∀ v, v ≠ N.nm .isTarget → st.benv v = s.benv v) ∧
        st.benv (N.nm .isTarget) = ((s.fa N.vals).take k).any (fun v => Fl.eq x v))
      ⟨ScalOnly.refl s, rfl, fun v _ => rfl, fun v _ => rfl, by simp [hf]⟩
      (by
        intro k hk st hst ⟨so, hf, hi, hb, ht⟩
        have hpx : st.ienv (N.nm .pixel) = p := by rw [hi _ (by simp [hne]), hpix]
        have hkl : k < (s.fa N.vals).length := by omega
        cases hc : Fl.eq x ((s.fa N.vals)[k])
        all_goals
          simp [exec, hst, BE.ok, BE.eval, IE.ok, IE.eval, FE.ok, FE.eval, setS, hne, hpx, so.shp, so.fa, hshp, hvshp,
            inRange_of_lt _ _ hp, inRange_of_lt _ _ hk, off1_nat, CmpOp.eval, hkl, hc, afterBody, any_take_succ _ _ _ hkl, ht, hx]
          refine ⟨⟨by simp [so.fa], by simp [so.ia], by simp [so.shp], by simp [so.ext]⟩, hf, ?_, ?_⟩
          · intro v hv; simp [hv, hi v hv]
          · first | exact hb | (intro v hv; simp [hv, hb v hv]))
    simp only [targetTest, hvl0, if_false]
    obtain ⟨hc, so, hf, hi, hb, ht⟩ := this
    refine ⟨hc, ?_, so, hf, hi, hb⟩
    rw [ht, ← hvlen, List.take_length]

/-! ### the model's reading of the test -/

/-- a reading of the numbers as the model's raster values that respects the three tests the code uses -/
structure ValReading (toVal : F → Prox.Val) : Prop where
  eq : ∀ x y : F, Fl.eq x y = Prox.Val.ieq (toVal x) (toVal y)
  zero : toVal (Fl.lit 0 1 : F) = .fin 0
  finite : ∀ x : F, Fl.isfinite x = (match toVal x with | .fin _ => true | _ => false)

/-- **step 1**: the test block computes the model's `isTargetVal` -/
theorem targetTest_model (toVal : F → Prox.Val) (h : ValReading toVal) (x : F) (vals : List F) :
    targetTest x vals = Prox.isTargetVal (vals.map toVal) (toVal x) := by
  unfold targetTest Prox.isTargetVal
  by_cases hv : vals = []
  · subst hv
    simp only [List.length_nil, if_true, List.map_nil, List.isEmpty_nil]
    rw [h.eq, h.zero, h.finite]
    cases hx : toVal x <;> simp [Prox.Val.ieq, bne]
  · have h1 : ¬ vals.length = 0 := by simpa using hv
    have h2 : (vals.map toVal).isEmpty = false := by cases vals <;> simp_all
    simp only [h1, if_false, h2, Bool.false_eq_true, List.any_map]
    congr 1; funext v; simp [h.eq]

end XrsVerif.IL.Px
