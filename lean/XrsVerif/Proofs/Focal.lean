import XrsVerif.Model.Focal
import XrsVerif.Proofs.KSimp
/-!
  Helper lemmas and specification-level definitions for C09 (Props/C09.lean).

  Part 1 (any `Fl` instance, i.e. also IEEE `Float`): the index bookkeeping of `_apply_numpy`,
  `_mean_numpy` and `_convolve_2d_numpy` -- loops over `intRange`, buffer updates, slices.
  Part 2 (`NV K`, NaN or an element of an ordered field): the NaN-ignoring reductions.
-/
set_option linter.unusedSectionVars false
set_option linter.unusedVariables false
namespace XrsVerif.Focal
open XrsVerif XrsVerif.Gen.Focal

section Generic
variable {F : Type} [Fl F]

theorem mem_intRange (lo hi k : Int) : k ∈ intRange lo hi ↔ lo ≤ k ∧ k < hi := by
  simp only [intRange, List.mem_map, List.mem_range]
  constructor
  · rintro ⟨a, ha, rfl⟩; omega
  · intro h; exact ⟨(k - lo).toNat, by omega, by omega⟩

/-- a fold of buffer updates none of which touches position (i, j) -/
theorem foldl_miss {κ : Type} (ks : List κ) (step : Arr F → κ → Arr F) (i j : Int)
    (hmiss : ∀ k ∈ ks, ∀ b, step b k i j = b i j) (b0 : Arr F) :
    (ks.foldl step b0) i j = b0 i j := by
  induction ks generalizing b0 with
  | nil => rfl
  | cons k rest ih =>
    simp only [List.foldl_cons]
    rw [ih (fun k' hk' => hmiss k' (List.mem_cons_of_mem _ hk'))]
    exact hmiss k List.mem_cons_self b0

/-- a fold of buffer updates where exactly the iteration `k0` may write position (i, j) -/
theorem foldl_upd_at {κ : Type} (ks : List κ) (step : Arr F → κ → Arr F) (i j : Int) (k0 : κ)
    (c : Bool) (v : F)
    (hk0 : ∀ b, step b k0 i j = if c then v else b i j)
    (hmiss : ∀ k ∈ ks, k ≠ k0 → ∀ b, step b k i j = b i j)
    (hin : k0 ∈ ks) (b0 : Arr F) :
    (ks.foldl step b0) i j = if c then v else b0 i j := by
  induction ks generalizing b0 with
  | nil => simp at hin
  | cons k rest ih =>
    simp only [List.foldl_cons]
    have hm' : ∀ k' ∈ rest, k' ≠ k0 → ∀ b, step b k' i j = b i j :=
      fun k' hk' => hmiss k' (List.mem_cons_of_mem _ hk')
    by_cases hk : k = k0
    · subst hk
      by_cases hr : k ∈ rest
      · rw [ih hm' hr, hk0]; split <;> rfl
      · rw [foldl_miss rest step i j (fun k' hk' => hm' k' hk' (fun e => hr (e ▸ hk'))), hk0]
    · have hr : k0 ∈ rest := by
        rcases List.mem_cons.mp hin with h | h
        · exact absurd h.symm hk
        · exact h
      rw [ih hm' hr, hmiss k List.mem_cons_self hk]

/-- the closed form of the window handed to the reducer at output cell (y, x):
    position (a, b) holds `data[y - krows/2 + a, x - kcols/2 + b]` when that cell is inside the raster and
    `kernel[a, b] == 1`, and `init a b` (NaN in the real code) otherwise -/
def gatherSpec (data kernel : Arr F) (rows cols krows kcols : Nat) (init : Arr F) (y x : Int) : Arr F :=
  fun a b =>
    let i := y - ((krows / 2 : Nat) : Int) + a
    let j := x - ((kcols / 2 : Nat) : Int) + b
    if (decide (0 ≤ i ∧ i < rows ∧ 0 ≤ j ∧ j < cols) && Fl.eq (kernel a b) (Fl.lit 1 1)) then data i j
    else init a b

/-- one gather iteration, read at position (i, j) -/
theorem applyStep_at (data kernel : Arr F) (v : ApplyVars) (buf : Arr F) (i j : Int) :
    applyStep data kernel v buf i j =
      if apply_in_bounds v = true ∧
          Fl.eq (kernel (apply_test_idx v).1 (apply_test_idx v).2) (Fl.lit apply_test_val 1) = true ∧
          i = (apply_store_idx v).1 ∧ j = (apply_store_idx v).2
      then data (apply_read_idx v).1 (apply_read_idx v).2 else buf i j := by
  unfold applyStep
  by_cases h1 : apply_in_bounds v = true
  · by_cases h2 : Fl.eq (kernel (apply_test_idx v).1 (apply_test_idx v).2) (Fl.lit apply_test_val 1) = true
    · simp only [h1, h2, if_true, true_and, Arr.set]
    · simp only [h1, h2, if_true, true_and, false_and, if_false]; rfl
  · simp only [h1, false_and, if_false]; rfl

theorem applyGather_eq (data kernel : Arr F) (rows cols krows kcols : Nat) (buf0 : Arr F) (y x a b : Int)
    (ha : 0 ≤ a) (ha' : a < krows) (hb : 0 ≤ b) (hb' : b < kcols) :
    applyGather data kernel rows cols krows kcols buf0 y x a b =
      gatherSpec data kernel rows cols krows kcols buf0 y x a b := by
  unfold applyGather gatherSpec
  simp only [applyVars, apply_hrows, apply_hcols, apply_ky_lo, apply_ky_hi, apply_kx_lo, apply_kx_hi]
  have h2a : a ≤ 2 * ((krows / 2 : Nat) : Int) := by omega
  have h2b : b ≤ 2 * ((kcols / 2 : Nat) : Int) := by omega
  generalize ((krows / 2 : Nat) : Int) = hr at *
  generalize ((kcols / 2 : Nat) : Int) = hc at *
  -- the one iteration that can write (a, b)
  rw [foldl_upd_at _ _ a b (y - hr + a)
        (decide (0 ≤ y - hr + a ∧ y - hr + a < rows ∧ 0 ≤ x - hc + b ∧ x - hc + b < cols) &&
          Fl.eq (kernel a b) (Fl.lit 1 1))
        (data (y - hr + a) (x - hc + b))]
  · intro bf
    rw [foldl_upd_at _ _ a b (x - hc + b)
        (decide (0 ≤ y - hr + a ∧ y - hr + a < rows ∧ 0 ≤ x - hc + b ∧ x - hc + b < cols) &&
          Fl.eq (kernel a b) (Fl.lit 1 1))
        (data (y - hr + a) (x - hc + b))]
    · intro bf2
      rw [applyStep_at]
      simp only [apply_in_bounds, apply_test_idx, apply_test_val, apply_store_idx, apply_read_idx]
      have e1 : y - hr + a - (y - hr) = a := by omega
      have e2 : x - hc + b - (x - hc) = b := by omega
      simp only [e1, e2, and_self, and_true, Bool.and_eq_true, decide_eq_true_eq]
      have e3 : ((y - hr + a ≥ 0 ∧ y - hr + a < (rows : Int)) ∧ x - hc + b ≥ 0) ∧ x - hc + b < (cols : Int) ↔
          (0 ≤ y - hr + a ∧ y - hr + a < rows ∧ 0 ≤ x - hc + b ∧ x - hc + b < cols) := by omega
      simp only [e3]
    · intro kx _ hne bf2
      rw [applyStep_at]
      simp only [apply_store_idx]
      have : ¬ (b = kx - (x - hc)) := by omega
      simp only [this, and_false, if_false]
    · rw [mem_intRange]; omega
  · intro ky _ hne bf
    apply foldl_miss
    intro kx _ bf2
    rw [applyStep_at]
    simp only [apply_store_idx]
    have : ¬ (a = ky - (y - hr)) := by omega
    simp only [this, false_and, and_false, if_false]
  · rw [mem_intRange]; omega

/-- the window the reducer receives at output cell (y, x), in closed form (NaN outside the footprint) -/
def specWindow (data kernel : Arr F) (rows cols krows kcols : Nat) (y x : Int) : List (List F) :=
  windowOf (gatherSpec data kernel rows cols krows kcols nanArr y x) krows kcols

theorem windowOf_congr (b1 b2 : Arr F) (r c : Nat)
    (h : ∀ a b : Int, 0 ≤ a → a < r → 0 ≤ b → b < c → b1 a b = b2 a b) : windowOf b1 r c = windowOf b2 r c := by
  unfold windowOf
  apply List.map_congr_left
  intro a ha
  apply List.map_congr_left
  intro b hb
  rw [List.mem_range] at ha hb
  exact h a b (by omega) (by omega) (by omega) (by omega)

theorem applyCells_eq (data kernel : Arr F) (rows cols krows kcols : Nat) (func : List (List F) → F)
    (hfill : apply_fill_each_step = true) (cells : List (Int × Int)) (prev : Arr F) :
    applyCells data kernel rows cols krows kcols func cells prev =
      cells.map fun c => func (specWindow data kernel rows cols krows kcols c.1 c.2) := by
  induction cells generalizing prev with
  | nil => rfl
  | cons c rest ih =>
    obtain ⟨y, x⟩ := c
    simp only [applyCells, hfill, if_true, List.map_cons]
    rw [ih]
    congr 2
    unfold specWindow
    apply windowOf_congr
    intro a b h1 h2 h3 h4
    exact applyGather_eq data kernel rows cols krows kcols nanArr y x a b h1 h2 h3 h4


/-! ### intervals, slices, footprints -/

theorem intRange_nil (lo hi : Int) (h : hi ≤ lo) : intRange lo hi = [] := by
  unfold intRange
  have : (hi - lo).toNat = 0 := by omega
  rw [this]; rfl

theorem intRange_cons (lo hi : Int) (h : lo < hi) : intRange lo hi = lo :: intRange (lo + 1) hi := by
  unfold intRange
  obtain ⟨n, hn⟩ : ∃ n : Nat, (hi - lo).toNat = n + 1 := ⟨(hi - lo).toNat - 1, by omega⟩
  have hn' : (hi - (lo + 1)).toNat = n := by omega
  rw [hn, hn', List.range_succ_eq_map, List.map_cons, List.map_map]
  congr 1
  · simp
  · apply List.map_congr_left; intro k _; simp only [Function.comp]; push_cast; omega

theorem intRange_of_len (lo hi : Int) (n : Nat) (h : hi - lo = n) :
    intRange lo hi = (List.range n).map fun (k : Nat) => lo + (k : Int) := by
  unfold intRange
  have : (hi - lo).toNat = n := by omega
  rw [this]

/-- filtering an interval by an interval gives the intersection -/
theorem filter_intRange (a b lo hi : Int) :
    (intRange a b).filter (fun i => decide (lo ≤ i ∧ i < hi)) = intRange (max a lo) (min b hi) := by
  obtain ⟨n, hn⟩ : ∃ n : Nat, (b - a).toNat = n := ⟨_, rfl⟩
  induction n generalizing a with
  | zero =>
    rw [intRange_nil a b (by omega), intRange_nil _ _ (by omega)]; rfl
  | succ n ih =>
    rw [intRange_cons a b (by omega), List.filter_cons, ih (a + 1) (by omega)]
    by_cases h : lo ≤ a ∧ a < hi
    · simp only [h, and_self, decide_true, if_true]
      rw [intRange_cons (max a lo) (min b hi) (by omega)]
      congr 1
      · omega
      · congr 1; omega
    · simp only [h, decide_false, Bool.false_eq_true, if_false]
      by_cases h2 : a < lo
      · have e : max (a + 1) lo = max a lo := by omega
        rw [e]
      · rw [intRange_nil _ _ (by omega), intRange_nil _ _ (by omega)]

/-- a slice-style double loop over filtered index lists = a filtered loop over the index pairs -/
theorem prod_filter {β : Type} (la lb : List Nat) (fi fj : Nat → Int) (p q : Int → Bool) (f : Int → Int → β) :
    ((la.map fi).filter p).flatMap (fun i => ((lb.map fj).filter q).map (f i)) =
      (la.flatMap fun a => lb.map fun b => (a, b)).filterMap
        (fun ab => if p (fi ab.1) && q (fj ab.2) then some (f (fi ab.1) (fj ab.2)) else none) := by
  have inner : ∀ (i : Int) (a : Nat), fi a = i → p i = true →
      ((lb.map fj).filter q).map (f i) =
        (lb.map fun b => (a, b)).filterMap
          (fun ab => if p (fi ab.1) && q (fj ab.2) then some (f (fi ab.1) (fj ab.2)) else none) := by
    intro i a hia hp
    induction lb with
    | nil => rfl
    | cons b rest ih =>
      simp only [List.map_cons, List.filter_cons, List.filterMap_cons, hia, hp, Bool.true_and]
      by_cases hq : q (fj b) = true
      · simp [hq, ih]
      · simp [hq, ih]
  have innerF : ∀ (a : Nat), p (fi a) = false →
      (lb.map fun b => (a, b)).filterMap
          (fun ab => if p (fi ab.1) && q (fj ab.2) then some (f (fi ab.1) (fj ab.2)) else none) = [] := by
    intro a hp
    induction lb with
    | nil => rfl
    | cons b rest ih => simp [hp, List.filterMap_cons]
  induction la with
  | nil => rfl
  | cons a rest ih =>
    simp only [List.map_cons, List.filter_cons, List.flatMap_cons, List.filterMap_append]
    by_cases hp : p (fi a) = true
    · simp only [hp, if_true, List.flatMap_cons, ih]
      rw [inner (fi a) a rfl hp]
    · have hp' : p (fi a) = false := by simpa using hp
      simp only [hp', Bool.false_eq_true, if_false, ih, innerF a hp', List.nil_append]

/-- the data cells selected by `sel` among the positions of a `krows × kcols` window centred on (y, x) that lie
    inside the raster -- row-major, NaN cells included -/
def footprintSel (sel : Int → Int → Bool) (data : Arr F) (rows cols krows kcols : Nat) (y x : Int) : List F :=
  (allCells krows kcols).filterMap fun p =>
    let i := y - ((krows / 2 : Nat) : Int) + p.1
    let j := x - ((kcols / 2 : Nat) : Int) + p.2
    if decide (0 ≤ i ∧ i < rows) && decide (0 ≤ j ∧ j < cols) && sel p.1 p.2 then some (data i j) else none

/-- the input cells lying under the 1-entries of the kernel centred on (y, x), clipped at the raster edge -/
def footprint (data kernel : Arr F) (rows cols krows kcols : Nat) (y x : Int) : List F :=
  footprintSel (fun a b => Fl.eq (kernel a b) (Fl.lit 1 1)) data rows cols krows kcols y x

theorem mem_allCells (r c : Nat) (p : Int × Int) :
    p ∈ allCells r c ↔ ∃ a b : Nat, a < r ∧ b < c ∧ p = ((a : Int), (b : Int)) := by
  simp only [allCells, List.mem_flatMap, List.mem_map, List.mem_range]
  constructor
  · rintro ⟨a, ha, b, hb, rfl⟩; exact ⟨a, b, ha, hb, rfl⟩
  · rintro ⟨a, b, ha, hb, rfl⟩; exact ⟨a, ha, b, hb, rfl⟩

/-- `mapM` in `Except` when every element succeeds -/
theorem mapM_ok {α β : Type} (l : List α) (f : α → Except String β) (g : α → β)
    (h : ∀ a ∈ l, f a = .ok (g a)) : l.mapM f = .ok (l.map g) := by
  induction l with
  | nil => rfl
  | cons a rest ih =>
    rw [List.mapM_cons, h a List.mem_cons_self, ih (fun a' ha' => h a' (List.mem_cons_of_mem _ ha'))]
    rfl

theorem flatten_windowOf (b : Arr F) (r c : Nat) :
    (windowOf b r c).flatten = (allCells r c).map fun p => b p.1 p.2 := by
  unfold windowOf allCells
  rw [List.flatten_eq_flatMap, List.flatMap_map, List.map_flatMap]
  simp only [List.map_map, Function.comp]
  rfl

theorem allCells_eq (r c : Nat) :
    allCells r c = ((List.range r).flatMap fun a => (List.range c).map fun b => (a, b)).map
      (fun ab : Nat × Nat => ((ab.1 : Int), (ab.2 : Int))) := by
  unfold allCells
  rw [List.map_flatMap]
  simp only [List.map_map]
  rfl

/-- the slice `data[max(y-1,0):min(y+2,rows), max(x-1,0):min(x+2,cols)]` of `_mean_numpy` is the full 3x3
    footprint clipped at the raster edge -/
theorem mean_slice_eq (data : Arr F) (rows cols : Nat) (y x : Int) :
    sliceCells data (max (y - 1) 0) (min (y + 2) rows) (max (x - 1) 0) (min (x + 2) cols) =
      footprintSel (fun _ _ => true) data rows cols 3 3 y x := by
  unfold sliceCells footprintSel
  rw [← filter_intRange (y - 1) (y + 2) 0 rows, ← filter_intRange (x - 1) (x + 2) 0 cols,
      intRange_of_len (y - 1) (y + 2) 3 (by omega), intRange_of_len (x - 1) (x + 2) 3 (by omega),
      prod_filter, allCells_eq, List.filterMap_map]
  apply List.filterMap_congr
  intro ab _
  simp only [Function.comp, Bool.and_true]
  have e1 : y - ((3 / 2 : Nat) : Int) + (ab.1 : Int) = y - 1 + (ab.1 : Int) := by norm_num
  have e2 : x - ((3 / 2 : Nat) : Int) + (ab.2 : Int) = x - 1 + (ab.2 : Int) := by norm_num
  rw [e1, e2]

/-- in the interior the accumulated products of `_convolve_2d_numpy` are `kernel[a, b] * data[i - wkx + a, j - wky + b]`
    over the whole kernel, row-major -/
theorem conv_terms_eq (data kernel : Arr F) (nx ny nkx nky : Nat) (i j : Int)
    (hi0 : ((nkx / 2 : Nat) : Int) ≤ i) (hi1 : i < (nx : Int) - ((nkx / 2 : Nat) : Int))
    (hj0 : ((nky / 2 : Nat) : Int) ≤ j) (hj1 : j < (ny : Int) - ((nky / 2 : Nat) : Int))
    (hoddx : nkx % 2 = 1) (hoddy : nky % 2 = 1) :
    convTerms data kernel nx ny nkx nky i j =
      (allCells nkx nky).map fun p =>
        Fl.mul (kernel p.1 p.2) (data (i - ((nkx / 2 : Nat) : Int) + p.1) (j - ((nky / 2 : Nat) : Int) + p.2)) := by
  unfold convTerms
  simp only [convVars, conv_wkx, conv_wky, conv_ii_lo, conv_ii_hi, conv_jj_lo, conv_jj_hi, conv_kernel_idx, conv_data_idx]
  have a1 : max (i - ((nkx / 2 : Nat) : Int)) 0 = i - ((nkx / 2 : Nat) : Int) := by omega
  have a2 : min (i + ((nkx / 2 : Nat) : Int) + 1) (nx : Int) = i + ((nkx / 2 : Nat) : Int) + 1 := by omega
  have a3 : max (j - ((nky / 2 : Nat) : Int)) 0 = j - ((nky / 2 : Nat) : Int) := by omega
  have a4 : min (j + ((nky / 2 : Nat) : Int) + 1) (ny : Int) = j + ((nky / 2 : Nat) : Int) + 1 := by omega
  rw [a1, a2, a3, a4,
      intRange_of_len (i - ((nkx / 2 : Nat) : Int)) (i + ((nkx / 2 : Nat) : Int) + 1) nkx (by omega),
      intRange_of_len (j - ((nky / 2 : Nat) : Int)) (j + ((nky / 2 : Nat) : Int) + 1) nky (by omega)]
  unfold allCells
  rw [List.flatMap_map, List.map_flatMap]
  apply List.flatMap_congr
  intro a _
  simp only [List.map_map]
  apply List.map_congr_left
  intro b _
  simp only [Function.comp]
  congr 2 <;> omega

end Generic

section NVPart
variable {K : Type} [Field K] [LinearOrder K] [IsStrictOrderedRing K] [Trig K]

/-- the non-NaN entries of a list of `NV K` cells, in order -/
def vals (w : List (NV K)) : List K := w.filterMap id

theorem valid_eq (w : List (NV K)) : valid w = (vals w).map some := by
  induction w with
  | nil => rfl
  | cons v rest ih =>
    cases v with
    | none => simpa [valid, vals] using ih
    | some a =>
      simp only [valid, vals] at ih ⊢
      simp [List.filter_cons, List.filterMap_cons, ih]

theorem foldl_add_some (l : List K) (acc : K) :
    (l.map some).foldl (Fl.add : NV K → NV K → NV K) (some acc) = some (acc + l.sum) := by
  induction l generalizing acc with
  | nil => simp
  | cons a rest ih => simp [ih, add_assoc]

theorem fsum_some (l : List K) : fsum (l.map (some : K → NV K)) = some l.sum := by
  unfold fsum
  have : (Fl.lit 0 1 : NV K) = some 0 := by simp
  rw [this, foldl_add_some]; simp

theorem natLit_eq (n : Nat) : (natLit n : NV K) = some (n : K) := by
  simp [natLit]

theorem nansum_eq (w : List (NV K)) : nansum w = some (vals w).sum := by
  unfold nansum; rw [valid_eq, fsum_some]

theorem nanmean_eq (w : List (NV K)) :
    nanmean w = if vals w = [] then none else some ((vals w).sum / ((vals w).length : K)) := by
  unfold nanmean
  rw [nansum_eq, valid_eq, List.length_map, natLit_eq, fl_div]
  by_cases h : vals w = []
  · simp [h]
  · have : ((vals w).length : K) ≠ 0 := by
      simpa [List.length_eq_zero_iff] using h
    simp [h, this]


theorem foldl_max_some (l : List K) (m0 : K) :
    ∃ m, (l.map some).foldl (fun (m x : NV K) => if Fl.lt m x then x else m) (some m0) = some m ∧
      (m = m0 ∨ m ∈ l) ∧ m0 ≤ m ∧ ∀ v ∈ l, v ≤ m := by
  induction l generalizing m0 with
  | nil => exact ⟨m0, rfl, Or.inl rfl, le_refl _, by simp⟩
  | cons a rest ih =>
    simp only [List.map_cons, List.foldl_cons, fl_lt]
    by_cases h : m0 < a
    · obtain ⟨m, hm, hmem, hle, hall⟩ := ih a
      refine ⟨m, by simpa [h] using hm, ?_, le_trans (le_of_lt h) hle, ?_⟩
      · rcases hmem with rfl | hm'
        · exact Or.inr List.mem_cons_self
        · exact Or.inr (List.mem_cons_of_mem _ hm')
      · intro v hv
        rcases List.mem_cons.mp hv with rfl | hv'
        · exact hle
        · exact hall v hv'
    · obtain ⟨m, hm, hmem, hle, hall⟩ := ih m0
      refine ⟨m, by simpa [h] using hm, ?_, hle, ?_⟩
      · rcases hmem with rfl | hm'
        · exact Or.inl rfl
        · exact Or.inr (List.mem_cons_of_mem _ hm')
      · intro v hv
        rcases List.mem_cons.mp hv with rfl | hv'
        · exact le_trans (not_lt.mp h) hle
        · exact hall v hv'

theorem foldl_min_some (l : List K) (m0 : K) :
    ∃ m, (l.map some).foldl (fun (m x : NV K) => if Fl.lt x m then x else m) (some m0) = some m ∧
      (m = m0 ∨ m ∈ l) ∧ m ≤ m0 ∧ ∀ v ∈ l, m ≤ v := by
  induction l generalizing m0 with
  | nil => exact ⟨m0, rfl, Or.inl rfl, le_refl _, by simp⟩
  | cons a rest ih =>
    simp only [List.map_cons, List.foldl_cons, fl_lt]
    by_cases h : a < m0
    · obtain ⟨m, hm, hmem, hle, hall⟩ := ih a
      refine ⟨m, by simpa [h] using hm, ?_, le_trans hle (le_of_lt h), ?_⟩
      · rcases hmem with rfl | hm'
        · exact Or.inr List.mem_cons_self
        · exact Or.inr (List.mem_cons_of_mem _ hm')
      · intro v hv
        rcases List.mem_cons.mp hv with rfl | hv'
        · exact hle
        · exact hall v hv'
    · obtain ⟨m, hm, hmem, hle, hall⟩ := ih m0
      refine ⟨m, by simpa [h] using hm, ?_, hle, ?_⟩
      · rcases hmem with rfl | hm'
        · exact Or.inl rfl
        · exact Or.inr (List.mem_cons_of_mem _ hm')
      · intro v hv
        rcases List.mem_cons.mp hv with rfl | hv'
        · exact le_trans hle (not_lt.mp h)
        · exact hall v hv'

/-- `m` is the greatest element of the list -/
def IsMaxOf (l : List K) (m : K) : Prop := m ∈ l ∧ ∀ v ∈ l, v ≤ m
/-- `m` is the least element of the list -/
def IsMinOf (l : List K) (m : K) : Prop := m ∈ l ∧ ∀ v ∈ l, m ≤ v

theorem nanmax_empty (w : List (NV K)) (h : vals w = []) : nanmax w = none := by
  unfold nanmax; rw [valid_eq, h]; rfl

theorem nanmin_empty (w : List (NV K)) (h : vals w = []) : nanmin w = none := by
  unfold nanmin; rw [valid_eq, h]; rfl

theorem nanmax_some (w : List (NV K)) (h : vals w ≠ []) : ∃ m, nanmax w = some m ∧ IsMaxOf (vals w) m := by
  unfold nanmax; rw [valid_eq]
  cases hv : vals w with
  | nil => exact absurd hv h
  | cons a rest =>
    obtain ⟨m, hm, hmem, hle, hall⟩ := foldl_max_some rest a
    refine ⟨m, by simpa [fmaxL] using hm, ?_, ?_⟩
    · rcases hmem with rfl | h'
      · exact List.mem_cons_self
      · exact List.mem_cons_of_mem _ h'
    · intro v hv'
      rcases List.mem_cons.mp hv' with rfl | h'
      · exact hle
      · exact hall v h'

theorem nanmin_some (w : List (NV K)) (h : vals w ≠ []) : ∃ m, nanmin w = some m ∧ IsMinOf (vals w) m := by
  unfold nanmin; rw [valid_eq]
  cases hv : vals w with
  | nil => exact absurd hv h
  | cons a rest =>
    obtain ⟨m, hm, hmem, hle, hall⟩ := foldl_min_some rest a
    refine ⟨m, by simpa [fminL] using hm, ?_, ?_⟩
    · rcases hmem with rfl | h'
      · exact List.mem_cons_self
      · exact List.mem_cons_of_mem _ h'
    · intro v hv'
      rcases List.mem_cons.mp hv' with rfl | h'
      · exact hle
      · exact hall v h'

/-- population variance of a list: mean of the squared deviations from the mean -/
def popVar (l : List K) : K :=
  (l.map fun v => (v - l.sum / (l.length : K)) * (v - l.sum / (l.length : K))).sum / (l.length : K)

theorem nanvar_eq (w : List (NV K)) :
    nanvar w = if vals w = [] then none else some (popVar (vals w)) := by
  unfold nanvar
  simp only [nanmean_eq, valid_eq, List.length_map, natLit_eq]
  by_cases h : vals w = []
  · simp [h, fsum]
  · have hne : ((vals w).length : K) ≠ 0 := by simpa [List.length_eq_zero_iff] using h
    simp only [h, if_false, List.map_map]
    have : ((fun v : NV K => Fl.mul (Fl.sub v (some ((vals w).sum / ((vals w).length : K))))
              (Fl.sub v (some ((vals w).sum / ((vals w).length : K))))) ∘ some) =
           (some ∘ fun v : K => (v - (vals w).sum / ((vals w).length : K)) * (v - (vals w).sum / ((vals w).length : K))) := by
      funext v; simp
    rw [this, ← List.map_map, fsum_some, fl_div]
    simp [hne, popVar]

theorem nanstd_eq (w : List (NV K)) :
    nanstd w = if vals w = [] then none else some (Trig.sqrt (popVar (vals w))) := by
  unfold nanstd; rw [nanvar_eq]; split <;> simp

/-! ### the footprint of the window, and negation (used by `hotspots_negate`) -/

theorem fl_eq_one (k : NV K) : (Fl.eq k (Fl.lit 1 1 : NV K) = true) ↔ k = some 1 := by
  cases k with
  | none => simp
  | some a => simp

/-- the non-NaN cells the reducer sees are exactly the non-NaN input cells under the 1-entries of the kernel
    (clipped at the raster edge), in row-major order -/
theorem vals_specWindow (data kernel : Arr (NV K)) (rows cols krows kcols : Nat) (y x : Int) :
    vals (specWindow data kernel rows cols krows kcols y x).flatten =
      vals (footprint data kernel rows cols krows kcols y x) := by
  unfold specWindow footprint footprintSel vals
  rw [flatten_windowOf, List.filterMap_map, List.filterMap_filterMap]
  apply List.filterMap_congr
  intro p _
  simp only [Function.comp, gatherSpec, nanArr, id]
  generalize y - ((krows / 2 : Nat) : Int) + p.1 = i
  generalize x - ((kcols / 2 : Nat) : Int) + p.2 = j
  by_cases h1 : 0 ≤ i <;> by_cases h2 : i < (rows : Int) <;> by_cases h3 : 0 ≤ j <;>
    by_cases h4 : j < (cols : Int) <;> simp [h1, h2, h3, h4] <;> split <;> rfl

/-- the raster with every cell negated -/
def negArr (d : Arr (NV K)) : Arr (NV K) := fun i j => Fl.neg (d i j)

theorem vals_map_neg (l : List (NV K)) : vals (l.map Fl.neg) = (vals l).map fun v => -v := by
  induction l with
  | nil => rfl
  | cons a rest ih =>
    cases a with
    | none =>
      have : vals ((none :: rest).map Fl.neg) = vals (rest.map Fl.neg) := rfl
      rw [this, ih]; rfl
    | some v =>
      have : vals ((some v :: rest).map Fl.neg) = (-v) :: vals (rest.map Fl.neg) := rfl
      rw [this, ih]; rfl

theorem sum_map_neg (l : List K) : (l.map fun v => -v).sum = -l.sum := by
  induction l with
  | nil => simp
  | cons a rest ih => simp [ih]; ring

theorem nanmean_neg (l : List (NV K)) : nanmean (l.map Fl.neg) = Fl.neg (nanmean l) := by
  rw [nanmean_eq, nanmean_eq, vals_map_neg, sum_map_neg, List.length_map]
  by_cases h : vals l = []
  · simp [h]
  · simp [h, neg_div]

theorem popVar_neg (l : List K) : popVar (l.map fun v => -v) = popVar l := by
  unfold popVar
  rw [sum_map_neg, List.length_map, List.map_map]
  congr 2
  apply List.map_congr_left
  intro v _
  simp only [Function.comp]
  ring

theorem nanstd_neg (l : List (NV K)) : nanstd (l.map Fl.neg) = nanstd l := by
  rw [nanstd_eq, nanstd_eq, vals_map_neg, popVar_neg]
  simp

theorem cellsOf_neg (d : Arr (NV K)) (r c : Nat) : cellsOf (negArr d) r c = (cellsOf d r c).map Fl.neg := by
  unfold cellsOf negArr; rw [List.map_map]; rfl

theorem fl_add_neg (a b : NV K) : Fl.add (Fl.neg a) (Fl.neg b) = Fl.neg (Fl.add a b) := by
  cases a <;> cases b <;> simp [neg_add]
  ring

theorem fl_mul_neg (a b : NV K) : Fl.mul a (Fl.neg b) = Fl.neg (Fl.mul a b) := by
  cases a <;> cases b <;> simp

theorem foldl_add_neg (l : List (NV K)) (acc : NV K) :
    (l.map Fl.neg).foldl Fl.add (Fl.neg acc) = Fl.neg (l.foldl Fl.add acc) := by
  induction l generalizing acc with
  | nil => rfl
  | cons a rest ih => simp only [List.map_cons, List.foldl_cons, fl_add_neg, ih]

theorem fsum_neg (l : List (NV K)) : fsum (l.map Fl.neg) = Fl.neg (fsum l) := by
  unfold fsum
  have : (Fl.lit 0 1 : NV K) = Fl.neg (Fl.lit 0 1) := by simp
  rw [this, foldl_add_neg]
  simp

theorem convTerms_neg (d k : Arr (NV K)) (nx ny nkx nky : Nat) (i j : Int) :
    convTerms (negArr d) k nx ny nkx nky i j = (convTerms d k nx ny nkx nky i j).map Fl.neg := by
  unfold convTerms negArr
  simp only [List.map_flatMap, List.map_map]
  apply List.flatMap_congr
  intro ii _
  apply List.map_congr_left
  intro jj _
  simp only [Function.comp, fl_mul_neg]

theorem convolve_neg (d k : Arr (NV K)) (nx ny nkx nky : Nat) :
    convolve (negArr d) k nx ny nkx nky = (convolve d k nx ny nkx nky).map Fl.neg := by
  unfold convolve
  rw [List.map_map]
  apply List.map_congr_left
  intro c _
  simp only [Function.comp, convCell, convTerms_neg, fsum_neg]
  split
  · rfl
  · simp [conv_fill_nan]

theorem zscore_neg (m gm gs : NV K) :
    Fl.div (Fl.sub (Fl.neg m) (Fl.neg gm)) gs = Fl.neg (Fl.div (Fl.sub m gm) gs) := by
  cases m <;> cases gm <;> cases gs <;> simp
  rename_i a b c
  by_cases h : c = 0
  · simp [h]
  · simp [h]; ring

theorem hotspotsZ_neg (d k : Arr (NV K)) (rows cols krows kcols : Nat) :
    hotspotsZ (negArr d) k rows cols krows kcols =
      (hotspotsZ d k rows cols krows kcols).map fun zs => zs.map Fl.neg := by
  unfold hotspotsZ
  simp only [cellsOf_neg, nanmean_neg, nanstd_neg, convolve_neg]
  split
  · rfl
  · simp only [Except.map, List.map_map]
    congr 1
    apply List.map_congr_left
    intro m _
    simp only [Function.comp, zscore_neg]

end NVPart
end XrsVerif.Focal
