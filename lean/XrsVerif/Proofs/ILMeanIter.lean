import XrsVerif.Proofs.ILMeanRefines
/-
  Proofs/ILMeanIter.lean -- from the flat row-major arrays of the generated `_mean_numpy` to the nested-rows model
  `meanPass` / `meanIter` of Model/Focal.lean (the model `focal.mean` iterates): one run of the generated program on the
  flattened raster is one `meanPass`; `p` runs fed back into each other are `meanIter … p`.
-/
namespace XrsVerif.Focal
open XrsVerif XrsVerif.IL XrsVerif.IL.Sd XrsVerif.IL.Fc XrsVerif.Gen.Focal
set_option linter.unusedSectionVars false
set_option linter.unusedSimpArgs false
set_option linter.unusedVariables false
variable {F : Type} [Fl F]

/-- a raster given as nested rows has `rows` rows of `cols` cells -/
def RowsWF (rows cols : Nat) (g : Rows F) : Prop := g.length = rows ∧ ∀ r ∈ g, r.length = cols

theorem flatten_getElem? {α : Type} (g : List (List α)) (c : Nat) (h : ∀ r ∈ g, r.length = c) (i j : Nat)
    (hi : i < g.length) (hj : j < c) : g.flatten[i * c + j]? = (g[i]?.getD [])[j]? := by
  induction g generalizing i with
  | nil => simp at hi
  | cons r g ih =>
    have hr : r.length = c := h r (by simp)
    cases i with
    | zero =>
      simp only [List.flatten_cons, Nat.zero_mul, Nat.zero_add, List.getElem?_cons_zero, Option.getD_some]
      rw [List.getElem?_append_left (by omega)]
    | succ i =>
      simp only [List.flatten_cons, List.getElem?_cons_succ]
      rw [List.getElem?_append_right (by rw [hr, Nat.succ_mul]; omega)]
      have e : (i + 1) * c + j - r.length = i * c + j := by rw [hr, Nat.succ_mul]; omega
      rw [e]
      exact ih (fun r' hr' => h r' (by simp [hr'])) i (by simpa using hi)

theorem RowsWF.flatten_length {rows cols : Nat} {g : Rows F} (h : RowsWF rows cols g) :
    g.flatten.length = rows * cols := by
  obtain ⟨h1, h2⟩ := h
  subst h1
  induction g with
  | nil => simp
  | cons r g ih =>
    simp only [List.flatten_cons, List.length_append, List.length_cons]
    rw [ih (fun r' hr' => h2 r' (by simp [hr'])), h2 r (by simp), Nat.succ_mul]; omega

/-- the flattened raster read as a 2-D array agrees with the nested rows on the raster -/
theorem listArr_flatten {rows cols : Nat} {g : Rows F} (h : RowsWF rows cols g) (i j : Int)
    (hi0 : 0 ≤ i) (hi1 : i < rows) (hj0 : 0 ≤ j) (hj1 : j < cols) :
    listArr g.flatten cols i j = g.get i j := by
  unfold listArr Rows.get
  rw [if_pos ⟨hi0, hj0⟩, List.getD_eq_getElem?_getD,
    flatten_getElem? g cols h.2 i.toNat j.toNat (by rw [h.1]; omega) (by omega)]

/-- `meanCell` only looks at cells of the raster -/
theorem meanCell_congr (D1 D2 : Arr F) (rows cols : Nat) (excl : List F) (y x : Int)
    (hD : ∀ i j : Int, 0 ≤ i → i < rows → 0 ≤ j → j < cols → D1 i j = D2 i j)
    (hy0 : 0 ≤ y) (hy1 : y < rows) (hx0 : 0 ≤ x) (hx1 : x < cols) :
    meanCell D1 rows cols excl y x = meanCell D2 rows cols excl y x := by
  simp only [meanCell, mean_excluded_pass_through, if_true, mean_reducer, npReducer, mean_row_lo, mean_row_hi,
    mean_col_lo, mean_col_hi]
  rw [hD y x hy0 hy1 hx0 hx1]
  have hs : sliceCells D1 (max (y - 1) 0) (min (y + 2) rows) (max (x - 1) 0) (min (x + 2) cols) =
      sliceCells D2 (max (y - 1) 0) (min (y + 2) rows) (max (x - 1) 0) (min (x + 2) cols) := by
    unfold sliceCells
    apply List.flatMap_congr
    intro i hi
    apply List.map_congr_left
    intro j hj
    have hi' := (mem_intRange' _ _ _).mp hi
    have hj' := (mem_intRange' _ _ _).mp hj
    exact hD i j (by omega) (by omega) (by omega) (by omega)
  rw [hs]

/-- the flat specification of Proofs/ILMeanRefines.lean is the model's `meanPass`, flattened -/
theorem meanOut_eq_meanPass {rows cols : Nat} (excl : List F) {g : Rows F} (h : RowsWF rows cols g) :
    meanOut g.flatten excl rows cols = (meanPass rows cols excl g).flatten := by
  unfold meanOut meanPass allCells
  rw [List.map_flatMap, ← List.flatMap_def]
  apply List.flatMap_congr
  intro y hy
  rw [List.map_map]
  apply List.map_congr_left
  intro x hx
  have hy' := List.mem_range.mp hy
  have hx' := List.mem_range.mp hx
  exact meanCell_congr _ _ rows cols excl y x
    (fun i j a b c d => listArr_flatten h i j a b c d) (by omega) (by omega) (by omega) (by omega)

theorem meanPass_wf (rows cols : Nat) (excl : List F) (g : Rows F) : RowsWF rows cols (meanPass rows cols excl g) := by
  refine ⟨by simp [meanPass], ?_⟩
  intro r hr
  simp only [meanPass, List.mem_map] at hr
  obtain ⟨y, _, rfl⟩ := hr
  simp

theorem meanIter_wf (rows cols : Nat) (excl : List F) (p : Nat) (g : Rows F) (h : RowsWF rows cols g) :
    RowsWF rows cols (meanIter rows cols excl p g) := by
  cases p with
  | zero => exact h
  | succ p => exact meanPass_wf rows cols excl _

/-- one run of the generated `_mean_numpy` on a flat `rows × cols` raster -/
def ilMeanPass (excl : List F) (rows cols fuel : Nat) (data : List F) : List F :=
  ((Gen.IL.meanNumpy.run (meanState data excl rows cols) fuel).fa "out")

theorem ilMeanPass_eq {rows cols : Nat} (excl : List F) (fuel : Nat) {g : Rows F} (h : RowsWF rows cols g) :
    ilMeanPass excl rows cols fuel g.flatten = (meanPass rows cols excl g).flatten := by
  unfold ilMeanPass
  rw [(meanNumpy_refines g.flatten excl rows cols excl.length _ fuel (meanState_input _ _ _ _)).2.2.2.2]
  exact meanOut_eq_meanPass excl h

/-- `p` runs of the generated program, each fed the output of the previous one, are `p` passes of the model -/
theorem ilMeanPass_iterate {rows cols : Nat} (excl : List F) (fuel : Nat) (p : Nat) {g : Rows F} (h : RowsWF rows cols g) :
    (ilMeanPass excl rows cols fuel)^[p] g.flatten = (meanIter rows cols excl p g).flatten := by
  induction p with
  | zero => rfl
  | succ p ih =>
    rw [Function.iterate_succ_apply', ih]
    exact ilMeanPass_eq excl fuel (meanIter_wf rows cols excl p g h)

end XrsVerif.Focal
