import XrsVerif.Proofs.ILangTrim
import XrsVerif.Proofs.Trim
import XrsVerif.Gen.IL
/-
  Proofs/ILTrim.lean -- refinement: the programs `Gen.IL.trim` / `Gen.IL.crop`, translated statement by
  statement from `zonal._trim` / `zonal._crop` (layer T3), compute `Trim.bounds rows cols hit` of
  Model/Trim.lean, for every raster size (0 included), every list, every number type `[Fl F]`.
-/
namespace XrsVerif.IL.TrimScan
open XrsVerif XrsVerif.IL XrsVerif.IL.Tr
variable {F : Type} [Fl F]
set_option linter.unusedSectionVars false
set_option linter.unusedVariables false

/-! ### the per-cell tests -/

/-- `e == val or (np.isnan(e) and np.isnan(val))` -/
def trimMatch (e v : F) : Bool := Fl.eq e v || (Fl.isnan e && Fl.isnan v)

/-- `_trim`: a cell is a hit (kept) iff no listed value matches it -/
def trimHit (L : List F) (v : F) : Bool := !(L.any fun e => trimMatch e v)

/-- `_crop`: a cell is a hit (selected) iff some listed value `==` it -/
def cropHit (L : List F) (v : F) : Bool := L.any fun e => Fl.eq e v

def trimInner (ev : String) : St :=
  .ite (.or (.cmpF .eq (.var ev) (.var "val")) (.and (.isnan (.var ev)) (.isnan (.var "val"))))
    (.seq (.setB "is_nodata" .tt) .brk) .skip

/-- what `_trim` does with `val = data[y, x]` -/
def trimCell (ev lst : String) : St :=
  .seq (.setB "is_nodata" .ff)
  (.seq (.forIn ev lst (trimInner ev))
  (.ite (.not (.var "is_nodata")) (.seq (.setB "scan_complete" .tt) .brk) .skip))

def cropInner (ev : String) : St :=
  .ite (.cmpF .eq (.var ev) (.var "val")) (.seq (.setB "scan_complete" .tt) .brk) .cont

/-- what `_crop` does with `val = data[y, x]` -/
def cropCell (ev lst : String) : St :=
  .seq (.forIn ev lst (cropInner ev))
  (.ite (.var "scan_complete") .brk .skip)

/-- contract of a per-cell test relative to the arrays of `s`: started with `scan_complete = False` it leaves
    integers and arrays alone, sets `scan_complete` to `hitv val` and breaks out of the line loop iff it is set -/
def CellSpec (cell : St) (s : State F) (hitv : F → Bool) : Prop :=
  ∀ (fuel : Nat) (st : State F), st.ctl = .run → st.benv "scan_complete" = false →
    st.fa = s.fa → st.shp = s.shp →
    (exec fuel cell st).ienv = st.ienv ∧ (exec fuel cell st).fa = st.fa ∧ (exec fuel cell st).shp = st.shp ∧
    (exec fuel cell st).benv "scan_complete" = hitv (st.fenv "val") ∧
    (exec fuel cell st).ctl = if hitv (st.fenv "val") then .brk else .run

theorem trimLoop (fuel : Nat) (ev : String) (hev : ev ≠ "val") (L : List F) (st : State F)
    (h : st.ctl = .run) (hn : st.benv "is_nodata" = false) :
    let r := loopOver (fun st x => exec fuel (trimInner ev) { st with fenv := setS st.fenv ev x }) L st
    r.ctl = .run ∧ r.ienv = st.ienv ∧ r.fa = st.fa ∧ r.shp = st.shp ∧
    r.benv "is_nodata" = L.any (fun e => trimMatch e (st.fenv "val")) ∧
    r.benv "scan_complete" = st.benv "scan_complete" := by
  induction L generalizing st with
  | nil => simp [h, hn]
  | cons e L ih =>
    intro r
    have hv : ("val" = ev) = False := by simp; exact fun h => hev h.symm
    by_cases hm : trimMatch e (st.fenv "val") = true
    · have hf : exec fuel (trimInner ev) { st with fenv := setS st.fenv ev e } =
          { st with fenv := setS st.fenv ev e, benv := setS st.benv "is_nodata" true, ctl := .brk } := by
        simp only [trimMatch] at hm
        simp [trimInner, exec_ite, exec_seq, exec_setB, exec_brk, BE.ok, FE.ok, BE.eval, FE.eval, CmpOp.eval,
          setS, hv, hm, h]
      have : r = { (exec fuel (trimInner ev) { st with fenv := setS st.fenv ev e }) with ctl := .run } :=
        loopOver_cons_brk _ _ _ _ h (by rw [hf])
      rw [this, hf]
      simp [setS, hm]
    · have hm' : trimMatch e (st.fenv "val") = false := by simpa using hm
      have hf : exec fuel (trimInner ev) { st with fenv := setS st.fenv ev e } =
          { st with fenv := setS st.fenv ev e } := by
        simp only [trimMatch] at hm'
        simp [trimInner, exec_ite, exec_skip, BE.ok, FE.ok, BE.eval, FE.eval, CmpOp.eval, setS, hv, hm']
      have : r = loopOver _ L (afterBody (exec fuel (trimInner ev) { st with fenv := setS st.fenv ev e })) :=
        loopOver_cons_run _ _ _ _ h (by rw [hf]; simp [afterBody, h])
      rw [this, hf, afterBody_run _ (by simp [h])]
      have := ih { st with fenv := setS st.fenv ev e } h hn
      simp only [setS, hv, if_false] at this
      simp [this, hm']

/-- the per-cell test of `_trim` meets the contract, for the list `lst` of `s` -/
theorem trimCell_spec (ev lst : String) (hev : ev ≠ "val") (s : State F) (hl : (s.shp lst).length = 1) :
    CellSpec (trimCell ev lst) s (trimHit (s.fa lst)) := by
  intro fuel st hc hsc hfa hshp
  have h0 : exec fuel (.setB "is_nodata" .ff) st = { st with benv := setS st.benv "is_nodata" false } := by
    simp [exec_setB, BE.ok, BE.eval]
  have hl' : (st.shp lst).length = 1 := by rw [hshp]; exact hl
  obtain ⟨l1, l2, l3, l4, l5, l6⟩ := trimLoop fuel ev hev (st.fa lst)
    { st with benv := setS st.benv "is_nodata" false, ctl := .run } rfl (by simp)
  simp only [trimCell, exec_seq, h0, hc, if_true, exec_forIn, hl', l1]
  generalize loopOver _ _ _ = r at l1 l2 l3 l4 l5 l6
  simp only [setS] at l6
  simp only [show ("scan_complete" = "is_nodata") = False by decide, if_false] at l6
  rw [hfa] at l5
  cases hh : trimHit (s.fa lst) (st.fenv "val") <;> simp only [trimHit] at hh
  · have hh' : (s.fa lst).any (fun e => trimMatch e (st.fenv "val")) = true := by simpa using hh
    simp [exec_ite, exec_skip, BE.ok, BE.eval, l5, hh', l2, l3, l4, l6, hsc, l1]
  · have hh' : (s.fa lst).any (fun e => trimMatch e (st.fenv "val")) = false := by simpa using hh
    simp [exec_ite, exec_seq, exec_setB, exec_brk, BE.ok, BE.eval, l5, hh', l2, l3, l4, l1]

theorem cropLoop (fuel : Nat) (ev : String) (hev : ev ≠ "val") (L : List F) (st : State F)
    (h : st.ctl = .run) (hn : st.benv "scan_complete" = false) :
    let r := loopOver (fun st x => exec fuel (cropInner ev) { st with fenv := setS st.fenv ev x }) L st
    r.ctl = .run ∧ r.ienv = st.ienv ∧ r.fa = st.fa ∧ r.shp = st.shp ∧
    r.benv "scan_complete" = L.any (fun e => Fl.eq e (st.fenv "val")) := by
  induction L generalizing st with
  | nil => simp [h, hn]
  | cons e L ih =>
    intro r
    have hv : ("val" = ev) = False := by simp; exact fun h => hev h.symm
    by_cases hm : Fl.eq e (st.fenv "val") = true
    · have hf : exec fuel (cropInner ev) { st with fenv := setS st.fenv ev e } =
          { st with fenv := setS st.fenv ev e, benv := setS st.benv "scan_complete" true, ctl := .brk } := by
        simp [cropInner, exec_ite, exec_seq, exec_setB, exec_brk, BE.ok, FE.ok, BE.eval, FE.eval, CmpOp.eval,
          setS, hv, hm, h]
      have : r = { (exec fuel (cropInner ev) { st with fenv := setS st.fenv ev e }) with ctl := .run } :=
        loopOver_cons_brk _ _ _ _ h (by rw [hf])
      rw [this, hf]
      simp [setS, hm]
    · have hm' : Fl.eq e (st.fenv "val") = false := by simpa using hm
      have hf : exec fuel (cropInner ev) { st with fenv := setS st.fenv ev e } =
          { st with fenv := setS st.fenv ev e, ctl := .cont } := by
        simp [cropInner, exec_ite, exec_cont, BE.ok, FE.ok, BE.eval, FE.eval, CmpOp.eval, setS, hv, hm']
      have hab : afterBody ({ st with fenv := setS st.fenv ev e, ctl := .cont } : State F) =
          { st with fenv := setS st.fenv ev e, ctl := .run } := by simp [afterBody]
      have : r = loopOver _ L (afterBody (exec fuel (cropInner ev) { st with fenv := setS st.fenv ev e })) :=
        loopOver_cons_run _ _ _ _ h (by rw [hf, hab])
      rw [this, hf, hab]
      have := ih { st with fenv := setS st.fenv ev e, ctl := .run } rfl hn
      simp only [setS, hv, if_false] at this
      simp [this, hm']

/-- the per-cell test of `_crop` meets the contract, for the list `lst` of `s` -/
theorem cropCell_spec (ev lst : String) (hev : ev ≠ "val") (s : State F) (hl : (s.shp lst).length = 1) :
    CellSpec (cropCell ev lst) s (cropHit (s.fa lst)) := by
  intro fuel st hc hsc hfa hshp
  have hl' : (st.shp lst).length = 1 := by rw [hshp]; exact hl
  obtain ⟨l1, l2, l3, l4, l5⟩ := cropLoop fuel ev hev (st.fa lst) st hc hsc
  simp only [cropCell, exec_seq, if_true, exec_forIn, hl', l1]
  generalize loopOver _ _ _ = r at l1 l2 l3 l4 l5
  rw [hfa] at l5
  cases hh : cropHit (s.fa lst) (st.fenv "val") <;> simp only [cropHit] at hh
  · simp [exec_ite, exec_skip, BE.ok, BE.eval, l5, hh, l2, l3, l4, l1]
  · simp [exec_ite, exec_brk, BE.ok, BE.eval, l5, hh, l2, l3, l4]

/-! ### one directional scan, as a function of its variables, range and index order -/

/-- `data[y, x]` with the outer / inner loop variable as row index -/
def load (rowOuter : Bool) (outer inner : String) : FE :=
  if rowOuter then .ld2 "data" (.var outer) (.var inner) else .ld2 "data" (.var inner) (.var outer)

/-- `for <inner> in range(<innerN>): val = data[.., ..]; <cell test>` -/
def lineLoop (inner innerN : String) (ld : FE) (cell : St) : St :=
  .forRange inner (.lit 0) (.var innerN) (.lit 1) (.seq (.setF "val" ld) cell)

def outerBody (outer inner res innerN : String) (ld : FE) (cell : St) : St :=
  .seq (.ite (.var "scan_complete") .brk .skip)
  (.seq (.setI res (.var outer))
  (lineLoop inner innerN ld cell))

/-- `<res> = 0; scan_complete = False; for <outer> in range(<olo>, <ohi>, <ostep>): if scan_complete: break;
    <res> = <outer>; <line loop>` -/
def scanSt (outer inner res innerN : String) (olo ohi ostep : IE) (ld : FE) (cell : St) : St :=
  .seq (.setI res (.lit 0))
  (.seq (.setB "scan_complete" .ff)
  (.forRange outer olo ohi ostep (outerBody outer inner res innerN ld cell)))

/-- the scan followed by the rest of the function, in the right-nested form the translator emits -/
def scanThen (outer inner res innerN : String) (olo ohi ostep : IE) (ld : FE) (cell rest : St) : St :=
  .seq (.setI res (.lit 0))
  (.seq (.setB "scan_complete" .ff)
  (.seq (.forRange outer olo ohi ostep (outerBody outer inner res innerN ld cell)) rest))

theorem exec_scanThen (fuel : Nat) (outer inner res innerN : String) (olo ohi ostep : IE) (ld : FE)
    (cell rest : St) (s : State F) :
    exec fuel (scanThen outer inner res innerN olo ohi ostep ld cell rest) s =
      if (exec fuel (scanSt outer inner res innerN olo ohi ostep ld cell) s).ctl = .run then
        exec fuel rest (exec fuel (scanSt outer inner res innerN olo ohi ostep ld cell) s)
      else exec fuel (scanSt outer inner res innerN olo ohi ostep ld cell) s := by
  rw [scanThen, scanSt, exec_seq3]

/-- does line `o` hold a hit: the model's inner loop -/
def lineHit (ni : Nat) (hitv : F → Bool) (val : Nat → Nat → F) (o : Nat) : Bool :=
  (List.range ni).any fun i => hitv (val o i)

section scan
variable (outer inner res innerN : String) (ld : FE) (cell : St) (s : State F) (hitv : F → Bool)
  (val : Nat → Nat → F) (no ni : Nat)
  (hoi : outer ≠ inner) (hro : res ≠ outer) (hri : res ≠ inner)
  (hno : innerN ≠ outer) (hni : innerN ≠ inner) (hnr : innerN ≠ res)
  (hcell : CellSpec cell s hitv)
  (hld : ∀ (st : State F) (o i : Nat), st.fa = s.fa → st.shp = s.shp → st.ienv outer = o → st.ienv inner = i →
      o < no → i < ni → ld.ok st = true ∧ ld.eval st = val o i)
include hoi hcell hld

theorem lineLoop_spec (fuel : Nat) (o : Nat) (ho : o < no) (xs : List Nat) (hxs : ∀ x ∈ xs, x < ni)
    (st : State F) (hc : st.ctl = .run) (hsc : st.benv "scan_complete" = false)
    (hfa : st.fa = s.fa) (hshp : st.shp = s.shp) (hout : st.ienv outer = o) :
    let r := loopOver (fun st i => exec fuel (.seq (.setF "val" ld) cell) { st with ienv := setS st.ienv inner i })
      (xs.map fun (k : Nat) => (k : Int)) st
    r.ctl = .run ∧ r.fa = s.fa ∧ r.shp = s.shp ∧ (∀ v, v ≠ inner → r.ienv v = st.ienv v) ∧
    r.benv "scan_complete" = xs.any (fun i => hitv (val o i)) := by
  induction xs generalizing st with
  | nil => simp [hc, hsc, hfa, hshp]
  | cons x xs ih =>
    intro r
    have hx : x < ni := hxs x (by simp)
    obtain ⟨k1, k2⟩ := hld { st with ienv := setS st.ienv inner (x : Int) } o x hfa hshp
      (by simp [setS, hoi, hout]) (by simp [setS]) ho hx
    obtain ⟨c1, c2, c3, c4, c5⟩ := hcell fuel
      { st with ienv := setS st.ienv inner (x : Int), fenv := setS st.fenv "val" (val o x) } hc hsc hfa hshp
    have hbody : exec fuel (.seq (.setF "val" ld) cell) { st with ienv := setS st.ienv inner (x : Int) } =
        exec fuel cell { st with ienv := setS st.ienv inner (x : Int), fenv := setS st.fenv "val" (val o x) } := by
      rw [exec_seq, exec_setF, if_pos k1, k2]
      exact if_pos hc
    simp only [setS_same] at c4 c5
    cases hh : hitv (val o x)
    · simp only [hh, Bool.false_eq_true, if_false] at c4 c5
      have : r = loopOver _ (xs.map fun (k : Nat) => (k : Int)) (afterBody (exec fuel (.seq (.setF "val" ld) cell)
          { st with ienv := setS st.ienv inner (x : Int) })) :=
        loopOver_cons_run _ _ _ _ hc (by rw [hbody, afterBody_run _ c5]; exact c5)
      rw [this, hbody, afterBody_run _ c5]
      obtain ⟨i1, i2, i3, i4, i5⟩ := ih (fun y hy => hxs y (by simp [hy])) _ c5 c4 (c2.trans hfa) (c3.trans hshp)
        (by rw [c1]; simp [setS, hoi, hout])
      refine ⟨i1, i2, i3, ?_, ?_⟩
      · intro v hv; rw [i4 v hv, c1]; simp [setS, hv]
      · rw [i5]; simp [hh]
    · simp only [hh, if_true] at c4 c5
      have : r = { (exec fuel (.seq (.setF "val" ld) cell) { st with ienv := setS st.ienv inner (x : Int) })
          with ctl := .run } := loopOver_cons_brk _ _ _ _ hc (by rw [hbody]; exact c5)
      rw [this, hbody]
      refine ⟨rfl, c2.trans hfa, c3.trans hshp, ?_, ?_⟩
      · intro v hv; show (exec fuel cell _).ienv v = _; rw [c1]; simp [setS, hv]
      · show (exec fuel cell _).benv _ = _; rw [c4]; simp [hh]

include hro hri hno hni hnr

/-- the outer loop, started anywhere in the model's fold: `(res, scan_complete)` follow `Trim.scan`'s step -/
theorem outerLoop_spec (fuel : Nat) (ys : List Nat) (hys : ∀ y ∈ ys, y < no) (st : State F) (c : Nat) (b : Bool)
    (hc : st.ctl = .run) (hfa : st.fa = s.fa) (hshp : st.shp = s.shp) (hin : st.ienv innerN = ni)
    (hres : st.ienv res = c) (hsc : st.benv "scan_complete" = b) :
    let r := loopOver (fun st i => exec fuel (outerBody outer inner res innerN ld cell)
        { st with ienv := setS st.ienv outer i }) (ys.map fun (k : Nat) => (k : Int)) st
    let m := ys.foldl (fun (a : Nat × Bool) y => if a.2 then a else (y, lineHit ni hitv val y)) (c, b)
    r.ctl = .run ∧ r.fa = s.fa ∧ r.shp = s.shp ∧
    (∀ v, v ≠ outer → v ≠ inner → v ≠ res → r.ienv v = st.ienv v) ∧
    r.ienv res = m.1 ∧ r.benv "scan_complete" = m.2 := by
  induction ys generalizing st c b with
  | nil => simp [hc, hfa, hshp, hres, hsc]
  | cons y ys ih =>
    intro r m
    obtain ⟨ienv, fenv, benv, ia, fa, shp, ext, ctl⟩ := st
    replace hc : ctl = .run := hc
    replace hfa : fa = s.fa := hfa
    replace hshp : shp = s.shp := hshp
    replace hin : ienv innerN = ni := hin
    replace hres : ienv res = c := hres
    replace hsc : benv "scan_complete" = b := hsc
    subst hc
    cases b
    · -- not yet complete: `res = y`, then the line loop
      have hbody : exec fuel (outerBody outer inner res innerN ld cell)
          ⟨setS ienv outer (y : Int), fenv, benv, ia, fa, shp, ext, .run⟩ =
          loopOver (fun st i => exec fuel (.seq (.setF "val" ld) cell) { st with ienv := setS st.ienv inner i })
            ((List.range ni).map fun (k : Nat) => (k : Int))
            ⟨setS (setS ienv outer (y : Int)) res (y : Int), fenv, benv, ia, fa, shp, ext, .run⟩ := by
        simp [outerBody, lineLoop, exec_seq, exec_ite, exec_skip, exec_setI, exec_forRange, BE.ok, BE.eval, IE.ok,
          IE.eval, hsc, setS, hnr, hno, hin, rangeList_up]
      obtain ⟨q1, q2, q3, q4, q5⟩ := lineLoop_spec outer inner ld cell s hitv val no ni hoi hcell hld fuel y
        (hys y (by simp)) (List.range ni) (fun x hx => List.mem_range.mp hx)
        ⟨setS (setS ienv outer (y : Int)) res (y : Int), fenv, benv, ia, fa, shp, ext, .run⟩ rfl hsc hfa hshp
        (by simp [setS, hro.symm])
      rw [← hbody] at q1 q2 q3 q4 q5
      have : r = loopOver _ (ys.map fun (k : Nat) => (k : Int)) (afterBody (exec fuel (outerBody outer inner res innerN ld cell)
          ⟨setS ienv outer (y : Int), fenv, benv, ia, fa, shp, ext, .run⟩)) :=
        loopOver_cons_run _ _ _ _ rfl (by rw [afterBody_run _ q1]; exact q1)
      rw [this, afterBody_run _ q1]
      obtain ⟨i1, i2, i3, i4, i5, i6⟩ := ih (fun z hz => hys z (by simp [hz])) _ y (lineHit ni hitv val y)
        q1 q2 q3 (by rw [q4 _ hni]; simp [setS, hnr, hno, hin]) (by rw [q4 _ hri]; simp [setS]) q5
      refine ⟨i1, i2, i3, ?_, ?_, ?_⟩
      · intro v h1 h2 h3; rw [i4 v h1 h2 h3, q4 v h2]; simp [setS, h1, h3]
      · rw [i5]; simp [m]
      · rw [i6]; simp [m]
    · -- complete: `break`
      have hbody : exec fuel (outerBody outer inner res innerN ld cell)
          ⟨setS ienv outer (y : Int), fenv, benv, ia, fa, shp, ext, .run⟩ =
          ⟨setS ienv outer (y : Int), fenv, benv, ia, fa, shp, ext, .brk⟩ := by
        simp [outerBody, exec_seq, exec_ite, exec_brk, BE.ok, BE.eval, hsc]
      have : r = { (exec fuel (outerBody outer inner res innerN ld cell)
          ⟨setS ienv outer (y : Int), fenv, benv, ia, fa, shp, ext, .run⟩) with ctl := .run } :=
        loopOver_cons_brk _ _ _ _ rfl (by rw [hbody])
      rw [this, hbody]
      have hm : m = (c, true) := by simp [m, Trim.scan_fold_done]
      rw [hm]
      refine ⟨rfl, hfa, hshp, ?_, ?_, hsc⟩
      · intro v h1 h2 h3; simp [setS, h1]
      · simp [setS, hro, hres]

/-- **the parametric scan lemma.**  A scan statement run in a state whose arrays are those of `s`, whose outer range
    evaluates to the naturals `ys` (all below the outer extent) and whose inner extent variable holds `ni`, ends
    normally with `(res, scan_complete) = Trim.scan ys (line holds a hit)`; arrays and all integer variables other
    than the two loop variables and `res` are untouched. -/
theorem scanSt_spec (olo ohi ostep : IE) (fuel : Nat) (ys : List Nat) (hys : ∀ y ∈ ys, y < no) (st : State F)
    (hc : st.ctl = .run) (hfa : st.fa = s.fa) (hshp : st.shp = s.shp) (hin : st.ienv innerN = ni)
    (hr : ∀ st' : State F, (∀ v, v ≠ res → st'.ienv v = st.ienv v) →
      olo.ok st' = true ∧ ohi.ok st' = true ∧ ostep.ok st' = true ∧ ostep.eval st' ≠ 0 ∧
      rangeList (olo.eval st') (ohi.eval st') (ostep.eval st') = ys.map fun (k : Nat) => (k : Int)) :
    let r := exec fuel (scanSt outer inner res innerN olo ohi ostep ld cell) st
    r.ctl = .run ∧ r.fa = s.fa ∧ r.shp = s.shp ∧
    (∀ v, v ≠ outer → v ≠ inner → v ≠ res → r.ienv v = st.ienv v) ∧
    r.ienv res = (Trim.scan ys (lineHit ni hitv val)).1 ∧
    r.benv "scan_complete" = (Trim.scan ys (lineHit ni hitv val)).2 := by
  intro r
  obtain ⟨ienv, fenv, benv, ia, fa, shp, ext, ctl⟩ := st
  replace hc : ctl = .run := hc
  replace hfa : fa = s.fa := hfa
  replace hshp : shp = s.shp := hshp
  replace hin : ienv innerN = ni := hin
  subst hc
  obtain ⟨r1, r2, r3, r4, r5⟩ := hr ⟨setS ienv res 0, fenv, setS benv "scan_complete" false, ia, fa, shp, ext, .run⟩
    (fun v hv => by simp [setS, hv])
  have hrun : r = loopOver (fun st i => exec fuel (outerBody outer inner res innerN ld cell)
        { st with ienv := setS st.ienv outer i }) (ys.map fun (k : Nat) => (k : Int))
        ⟨setS ienv res 0, fenv, setS benv "scan_complete" false, ia, fa, shp, ext, .run⟩ := by
    simp only [r, scanSt, exec_seq, exec_setI, exec_setB, exec_forRange, IE.ok, IE.eval, BE.ok, BE.eval, if_true,
      r1, r2, r3, r4, r5, Bool.and_self, ne_eq, not_false_eq_true, decide_true]
  rw [hrun]
  obtain ⟨o1, o2, o3, o4, o5, o6⟩ := outerLoop_spec outer inner res innerN ld cell s hitv val no ni hoi hro hri hno hni
    hnr hcell hld fuel ys hys ⟨setS ienv res 0, fenv, setS benv "scan_complete" false, ia, fa, shp, ext, .run⟩ 0 false
    rfl hfa hshp (by simp [setS, hnr, hin]) (by simp [setS]) (by simp [setS])
  refine ⟨o1, o2, o3, ?_, o5, o6⟩
  intro v h1 h2 h3; rw [o4 v h1 h2 h3]; simp [setS, h3]

end scan

/-! ### the two ranges and the two index orders that occur -/

/-- `range(0, n, 1)` with `n` in variable `nv` -/
theorem upRange_spec (nv res : String) (hnv : nv ≠ res) (n : Nat) (st : State F) (hn : st.ienv nv = n)
    (st' : State F) (h : ∀ v, v ≠ res → st'.ienv v = st.ienv v) :
    (IE.lit 0).ok st' = true ∧ (IE.var nv).ok st' = true ∧ (IE.lit 1).ok st' = true ∧ (IE.lit 1).eval st' ≠ 0 ∧
    rangeList ((IE.lit 0).eval st') ((IE.var nv).eval st') ((IE.lit 1).eval st') =
      (List.range n).map fun (k : Nat) => (k : Int) := by
  simp [IE.ok, IE.eval, h nv hnv, hn, rangeList_up]

/-- `range(n - 1, -1, -1)` with `n` in variable `nv` -/
theorem downRange_spec (nv res : String) (hnv : nv ≠ res) (n : Nat) (st : State F) (hn : st.ienv nv = n)
    (st' : State F) (h : ∀ v, v ≠ res → st'.ienv v = st.ienv v) :
    (IE.bin .sub (.var nv) (.lit 1)).ok st' = true ∧ (IE.lit (-1)).ok st' = true ∧ (IE.lit (-1)).ok st' = true ∧
    (IE.lit (-1)).eval st' ≠ 0 ∧
    rangeList ((IE.bin .sub (.var nv) (.lit 1)).eval st') ((IE.lit (-1)).eval st') ((IE.lit (-1)).eval st') =
      (List.range n).reverse.map fun (k : Nat) => (k : Int) := by
  simp [IE.ok, IE.eval, IOp.eval, h nv hnv, hn, rangeList_down]

/-- the cell `data[y, x]` of a `rows × cols` array (row-major) -/
def cellAt (s : State F) (cols y x : Nat) : F := (s.fa "data").getD (y * cols + x) Fl.nan

theorem load_row_spec (outer inner : String) (s : State F) (rows cols : Nat) (hd : s.shp "data" = [rows, cols])
    (st : State F) (o i : Nat) (hfa : st.fa = s.fa) (hshp : st.shp = s.shp) (ho : st.ienv outer = o)
    (hi : st.ienv inner = i) (h1 : o < rows) (h2 : i < cols) :
    (load true outer inner).ok st = true ∧ (load true outer inner).eval st = cellAt s cols o i := by
  simp [load, FE.ok, FE.eval, IE.ok, IE.eval, hfa, hshp, hd, ho, hi, inRange_of_lt, h1, h2, off2_nat, cellAt]

theorem load_col_spec (outer inner : String) (s : State F) (rows cols : Nat) (hd : s.shp "data" = [rows, cols])
    (st : State F) (o i : Nat) (hfa : st.fa = s.fa) (hshp : st.shp = s.shp) (ho : st.ienv outer = o)
    (hi : st.ienv inner = i) (h1 : o < cols) (h2 : i < rows) :
    (load false outer inner).ok st = true ∧ (load false outer inner).eval st = cellAt s cols i o := by
  simp [load, FE.ok, FE.eval, IE.ok, IE.eval, hfa, hshp, hd, ho, hi, inRange_of_lt, h1, h2, off2_nat, cellAt]

/-! ### the kernel: four scans, the early empty return after the first, the final return -/

/-- `if not scan_complete: return 0, -1, 0, -1` -/
def emptyRet : St :=
  .ite (.not (.var "scan_complete"))
    (.seq (.setI "ret0" (.lit 0)) (.seq (.setI "ret1" (.lit (-1))) (.seq (.setI "ret2" (.lit 0))
      (.seq (.setI "ret3" (.lit (-1))) .ret))))
    .skip

/-- `return top, bottom, left, right` -/
def retTail : St :=
  .seq (.setI "ret0" (.var "top")) (.seq (.setI "ret1" (.var "bottom")) (.seq (.setI "ret2" (.var "left"))
    (.seq (.setI "ret3" (.var "right")) .ret)))

/-- the common body of `_trim` and `_crop` after `rows, cols = data.shape`: four instances of `scanThen`
    (rows upwards, rows downwards, columns upwards, columns downwards), with the per-cell tests as parameters -/
def kernel (c1 c2 c3 c4 : St) : St :=
  scanThen "y" "x" "top" "cols" (.lit 0) (.var "rows") (.lit 1) (load true "y" "x") c1
  (.seq emptyRet
  (scanThen "y" "x" "bottom" "cols" (.bin .sub (.var "rows") (.lit 1)) (.lit (-1)) (.lit (-1)) (load true "y" "x") c2
  (scanThen "x" "y" "left" "rows" (.lit 0) (.var "cols") (.lit 1) (load false "x" "y") c3
  (scanThen "x" "y" "right" "rows" (.bin .sub (.var "cols") (.lit 1)) (.lit (-1)) (.lit (-1)) (load false "x" "y") c4
  retTail))))

theorem kernel_spec (c1 c2 c3 c4 : St) (s : State F) (hitv : F → Bool)
    (h1 : CellSpec c1 s hitv) (h2 : CellSpec c2 s hitv) (h3 : CellSpec c3 s hitv) (h4 : CellSpec c4 s hitv)
    (rows cols : Nat) (hd : s.shp "data" = [rows, cols]) (fuel : Nat) (st : State F)
    (hc : st.ctl = .run) (hfa : st.fa = s.fa) (hshp : st.shp = s.shp)
    (hR : st.ienv "rows" = rows) (hC : st.ienv "cols" = cols) :
    let r := exec fuel (kernel c1 c2 c3 c4) st
    r.ctl = .ret ∧ (⟨r.ienv "ret0", r.ienv "ret1", r.ienv "ret2", r.ienv "ret3"⟩ : Trim.Bounds) =
      Trim.bounds rows cols (fun y x => hitv (cellAt s cols y x)) := by
  intro r
  have e1 : lineHit cols hitv (cellAt s cols) = Trim.rowHit cols (fun y x => hitv (cellAt s cols y x)) := rfl
  have e2 : lineHit rows hitv (fun o i => cellAt s cols i o) =
      Trim.colHit rows (fun y x => hitv (cellAt s cols y x)) := rfl
  have mr : ∀ n, ∀ y ∈ List.range n, y < n := fun n y hy => List.mem_range.mp hy
  have mr' : ∀ n, ∀ y ∈ (List.range n).reverse, y < n := fun n y hy => List.mem_range.mp (List.mem_reverse.mp hy)
  -- scan 1: rows upwards
  have A := scanSt_spec "y" "x" "top" "cols" (load true "y" "x") c1 s hitv (cellAt s cols) rows cols
    (by decide) (by decide) (by decide) (by decide) (by decide) (by decide) h1 (load_row_spec "y" "x" s rows cols hd)
    (.lit 0) (.var "rows") (.lit 1) fuel (List.range rows) (mr rows) st hc hfa hshp hC
    (upRange_spec "rows" "top" (by decide) rows st hR)
  simp only [r, kernel]
  rw [exec_scanThen]
  generalize exec fuel (scanSt "y" "x" "top" "cols" _ _ _ _ c1) st = s2 at A ⊢
  obtain ⟨a1, a2, a3, a4, a5, a6⟩ := A
  rw [e1] at a5 a6
  simp only [a1, if_true]
  rw [exec_seq]
  cases ht : (Trim.scan (List.range rows) (Trim.rowHit cols (fun y x => hitv (cellAt s cols y x)))).2
  · -- nothing found: the empty window
    rw [ht] at a6
    have : exec fuel emptyRet s2 = { s2 with
        ienv := (setS (setS (setS (setS s2.ienv "ret0" 0) "ret1" (-1)) "ret2" 0) "ret3" (-1)), ctl := .ret } := by
      simp [emptyRet, exec_ite, exec_seq, exec_setI, exec_ret, BE.ok, BE.eval, IE.ok, IE.eval, a6, a1]
    rw [this]
    simp [setS, Trim.bounds, ht]
  · rw [ht] at a6
    have : exec fuel emptyRet s2 = s2 := by
      simp [emptyRet, exec_ite, exec_skip, BE.ok, BE.eval, a6]
    rw [this]
    simp only [a1, if_true]
    -- scan 2: rows downwards
    have B := scanSt_spec "y" "x" "bottom" "cols" (load true "y" "x") c2 s hitv (cellAt s cols) rows cols
      (by decide) (by decide) (by decide) (by decide) (by decide) (by decide) h2 (load_row_spec "y" "x" s rows cols hd)
      (.bin .sub (.var "rows") (.lit 1)) (.lit (-1)) (.lit (-1)) fuel (List.range rows).reverse (mr' rows) s2 a1 a2 a3
      (by rw [a4 _ (by decide) (by decide) (by decide)]; exact hC)
      (downRange_spec "rows" "bottom" (by decide) rows s2 (by rw [a4 _ (by decide) (by decide) (by decide)]; exact hR))
    rw [exec_scanThen]
    generalize exec fuel (scanSt "y" "x" "bottom" "cols" _ _ _ _ c2) s2 = s3 at B ⊢
    obtain ⟨b1, b2, b3, b4, b5, b6⟩ := B
    rw [e1] at b5
    simp only [b1, if_true]
    -- scan 3: columns upwards
    have hR3 : s3.ienv "rows" = rows := by
      rw [b4 _ (by decide) (by decide) (by decide), a4 _ (by decide) (by decide) (by decide)]; exact hR
    have hC3 : s3.ienv "cols" = cols := by
      rw [b4 _ (by decide) (by decide) (by decide), a4 _ (by decide) (by decide) (by decide)]; exact hC
    have C := scanSt_spec "x" "y" "left" "rows" (load false "x" "y") c3 s hitv (fun o i => cellAt s cols i o) cols rows
      (by decide) (by decide) (by decide) (by decide) (by decide) (by decide) h3 (load_col_spec "x" "y" s rows cols hd)
      (.lit 0) (.var "cols") (.lit 1) fuel (List.range cols) (mr cols) s3 b1 b2 b3 hR3
      (upRange_spec "cols" "left" (by decide) cols s3 hC3)
    rw [exec_scanThen]
    generalize exec fuel (scanSt "x" "y" "left" "rows" _ _ _ _ c3) s3 = s4 at C ⊢
    obtain ⟨c1', c2', c3', c4', c5', c6'⟩ := C
    rw [e2] at c5'
    simp only [c1', if_true]
    -- scan 4: columns downwards
    have hR4 : s4.ienv "rows" = rows := by rw [c4' _ (by decide) (by decide) (by decide)]; exact hR3
    have hC4 : s4.ienv "cols" = cols := by rw [c4' _ (by decide) (by decide) (by decide)]; exact hC3
    have D := scanSt_spec "x" "y" "right" "rows" (load false "x" "y") c4 s hitv (fun o i => cellAt s cols i o) cols rows
      (by decide) (by decide) (by decide) (by decide) (by decide) (by decide) h4 (load_col_spec "x" "y" s rows cols hd)
      (.bin .sub (.var "cols") (.lit 1)) (.lit (-1)) (.lit (-1)) fuel (List.range cols).reverse (mr' cols) s4 c1' c2' c3'
      hR4 (downRange_spec "cols" "right" (by decide) cols s4 hC4)
    rw [exec_scanThen]
    generalize exec fuel (scanSt "x" "y" "right" "rows" _ _ _ _ c4) s4 = s5 at D ⊢
    obtain ⟨d1, d2, d3, d4, d5, d6⟩ := D
    rw [e2] at d5
    simp only [d1, if_true]
    -- the four results
    have t5 : s5.ienv "top" = s2.ienv "top" := by
      rw [d4 _ (by decide) (by decide) (by decide), c4' _ (by decide) (by decide) (by decide),
        b4 _ (by decide) (by decide) (by decide)]
    have bo5 : s5.ienv "bottom" = s3.ienv "bottom" := by
      rw [d4 _ (by decide) (by decide) (by decide), c4' _ (by decide) (by decide) (by decide)]
    have l5 : s5.ienv "left" = s4.ienv "left" := by
      rw [d4 _ (by decide) (by decide) (by decide)]
    simp [retTail, exec_seq, exec_setI, exec_ret, IE.ok, IE.eval, d1, setS, t5, bo5, l5, a5, b5, c5', d5, Trim.bounds,
      ht]

/-! ### the generated programs are instances of `kernel` -/

/-- `rows, cols = data.shape`, then the four scans with `_trim`'s per-cell test -/
def trimBody : St :=
  .seq (.setI "rows" (.dim "data" 0))
  (.seq (.setI "cols" (.dim "data" 1))
  (kernel (trimCell "e" "excludes") (trimCell "e" "excludes") (trimCell "e" "excludes") (trimCell "e" "excludes")))

/-- `rows, cols = data.shape`, the four `-1` initialisations, then the four scans with `_crop`'s per-cell test -/
def cropBody : St :=
  .seq (.setI "rows" (.dim "data" 0))
  (.seq (.setI "cols" (.dim "data" 1))
  (.seq (.setI "top" (.lit (-1)))
  (.seq (.setI "bottom" (.lit (-1)))
  (.seq (.setI "left" (.lit (-1)))
  (.seq (.setI "right" (.lit (-1)))
  (kernel (cropCell "v" "values") (cropCell "e" "values") (cropCell "e" "values") (cropCell "e" "values")))))))

/-- the program translated from the current source of `zonal._trim` is exactly four instances of the scan -/
theorem trim_body_eq : Gen.IL.trim.body = trimBody := by decide

/-- the program translated from the current source of `zonal._crop` is exactly four instances of the scan -/
theorem crop_body_eq : Gen.IL.crop.body = cropBody := by decide

end XrsVerif.IL.TrimScan

namespace XrsVerif.IL
open XrsVerif XrsVerif.IL.TrimScan XrsVerif.IL.Tr
variable {F : Type} [Fl F]

/-- `rows, cols = data.shape` -/
theorem shape_prefix (fuel : Nat) (rest : St) (s : State F) (rows cols : Nat) (hs : s.ctl = .run)
    (hd : s.shp "data" = [rows, cols]) :
    exec fuel (.seq (.setI "rows" (.dim "data" 0)) (.seq (.setI "cols" (.dim "data" 1)) rest)) s =
      exec fuel rest { s with ienv := setS (setS s.ienv "rows" rows) "cols" cols } := by
  have h1 : exec fuel (.setI "rows" (.dim "data" 0)) s = { s with ienv := setS s.ienv "rows" rows } := by
    simp [exec_setI, IE.ok, IE.eval, hd]
  have h2 : exec fuel (.setI "cols" (.dim "data" 1)) { s with ienv := setS s.ienv "rows" rows } =
      { s with ienv := setS (setS s.ienv "rows" rows) "cols" cols } := by
    simp [exec_setI, IE.ok, IE.eval, hd]
  rw [exec_seq_of_run _ _ _ _ _ h1 hs, exec_seq_of_run _ _ _ _ _ h2 hs]

/-- **Refinement, `_trim`.**  For every state holding a `rows × cols` array `data` (any size, 0 included) and a 1-D
    array `excludes`, the generated program returns (`ret0..ret3`, control `ret`) the model's
    `Trim.bounds rows cols hit`, a cell being a hit iff no listed value `e` has `e == v or (isnan e and isnan v)`. -/
theorem trim_refines (s : State F) (fuel rows cols : Nat) (hs : s.ctl = .run)
    (hd : s.shp "data" = [rows, cols]) (he : (s.shp "excludes").length = 1) :
    let r := Gen.IL.trim.run s fuel
    r.ctl = .ret ∧ (⟨r.ienv "ret0", r.ienv "ret1", r.ienv "ret2", r.ienv "ret3"⟩ : Trim.Bounds) =
      Trim.bounds rows cols (fun y x => trimHit (s.fa "excludes") (cellAt s cols y x)) := by
  have hc := trimCell_spec "e" "excludes" (by decide) s he
  simp only [Prog.run, trim_body_eq, trimBody]
  rw [shape_prefix fuel _ s rows cols hs hd]
  exact kernel_spec _ _ _ _ s _ hc hc hc hc rows cols hd fuel _ hs rfl rfl (by simp [setS]) (by simp [setS])

/-- **Refinement, `_crop`.**  For every state holding a `rows × cols` array `data` (any size, 0 included) and a 1-D
    array `values`, the generated program returns (`ret0..ret3`, control `ret`) the model's
    `Trim.bounds rows cols hit`, a cell being a hit iff some listed value `==` it. -/
theorem crop_refines (s : State F) (fuel rows cols : Nat) (hs : s.ctl = .run)
    (hd : s.shp "data" = [rows, cols]) (he : (s.shp "values").length = 1) :
    let r := Gen.IL.crop.run s fuel
    r.ctl = .ret ∧ (⟨r.ienv "ret0", r.ienv "ret1", r.ienv "ret2", r.ienv "ret3"⟩ : Trim.Bounds) =
      Trim.bounds rows cols (fun y x => cropHit (s.fa "values") (cellAt s cols y x)) := by
  have hv := cropCell_spec "v" "values" (by decide) s he
  have hc := cropCell_spec "e" "values" (by decide) s he
  simp only [Prog.run, crop_body_eq, cropBody]
  rw [shape_prefix fuel _ s rows cols hs hd]
  have h4 : ∀ (st : State F) (v : String) (n : Int) (rest : St), st.ctl = .run →
      exec fuel (.seq (.setI v (.lit n)) rest) st = exec fuel rest { st with ienv := setS st.ienv v n } := by
    intro st v n rest h
    exact exec_seq_of_run _ _ _ _ _ (by simp [exec_setI, IE.ok, IE.eval]) h
  rw [h4, h4, h4, h4]
  · exact kernel_spec _ _ _ _ s _ hv hc hc hc rows cols hd fuel _ hs rfl rfl (by simp [setS]) (by simp [setS])
  all_goals exact hs

/-! ### states that hold a raster -/

/-- the four results of a finished run -/
def progBounds (r : State F) : Trim.Bounds := ⟨r.ienv "ret0", r.ienv "ret1", r.ienv "ret2", r.ienv "ret3"⟩

/-- row-major cells of a `rows × cols` raster -/
def flatCells (rows cols : Nat) (cell : Nat → Nat → F) : List F :=
  (List.range (rows * cols)).map fun k => cell (k / cols) (k % cols)

omit [Fl F] in
theorem flatCells_getD (rows cols : Nat) (cell : Nat → Nat → F) (d : F) (y x : Nat) (hy : y < rows) (hx : x < cols) :
    (flatCells rows cols cell).getD (y * cols + x) d = cell y x := by
  have hlt : y * cols + x < rows * cols :=
    calc y * cols + x < y * cols + cols := by omega
      _ = (y + 1) * cols := by rw [Nat.add_mul, Nat.one_mul]
      _ ≤ rows * cols := Nat.mul_le_mul_right _ hy
  have hdiv : (y * cols + x) / cols = y := by
    rw [Nat.add_comm, Nat.add_mul_div_right _ _ (by omega), Nat.div_eq_of_lt hx, Nat.zero_add]
  have hmod : (y * cols + x) % cols = x := by
    rw [Nat.add_comm, Nat.add_mul_mod_self_right, Nat.mod_eq_of_lt hx]
  simp [flatCells, List.getD, hlt, hdiv, hmod]

/-- what the wrappers hand to the kernel: a 2-D array `data` and a 1-D array `lstName` -/
def inputState (rows cols : Nat) (data : List F) (lstName : String) (lst : List F) : State F :=
  { (State.empty : State F) with
    fa := setS (setS (fun _ => []) "data" data) lstName lst
    shp := setS (setS (fun _ => []) "data" [rows, cols]) lstName [lst.length] }

/-- `s` is ready to run a kernel on the `rows × cols` raster `cell` and the list `lst` -/
structure Holds (s : State F) (rows cols : Nat) (cell : Nat → Nat → F) (lstName : String) (lst : List F) : Prop where
  run : s.ctl = .run
  shape : s.shp "data" = [rows, cols]
  cells : ∀ y x, y < rows → x < cols → cellAt s cols y x = cell y x
  lshape : (s.shp lstName).length = 1
  list : s.fa lstName = lst

theorem inputState_holds (rows cols : Nat) (cell : Nat → Nat → F) (lstName : String) (h : lstName ≠ "data")
    (lst : List F) : Holds (inputState rows cols (flatCells rows cols cell) lstName lst) rows cols cell lstName lst := by
  have h' : ("data" = lstName) = False := by simp; exact fun e => h e.symm
  refine ⟨rfl, by simp [inputState, setS, h'], ?_, by simp [inputState, setS], by simp [inputState, setS]⟩
  intro y x hy hx
  have := flatCells_getD rows cols cell Fl.nan y x hy hx
  simpa [cellAt, inputState, setS, h'] using this

end XrsVerif.IL
