import XrsVerif.Proofs.ILViewshedQuery
/-
  Proofs/ILViewshedModel.lean -- from the zipper functions of the refinement proofs back to the hand model
  (Model/Viewshed.lean), still for every `[Fl F]`:

  * `queryP`            the model's `query` with the list of phase 2 given *structurally* (`predsOf`: the in-order
                        predecessors of the node the search finds) instead of by the filter `key < K`;
  * `queryZ_eq`         what the generated program computes (`queryZ`) is `queryP` of the abstracted tree;
  * `vsQuery_refines`   hence `Gen.IL.vsQuery` returns `queryP smallest (absT ...) distance angle gradient`.
  `queryP = query` needs the keys to be ordered (`Proofs/ILViewshedOrder.lean`).
-/
set_option linter.unusedSectionVars false
set_option linter.unusedVariables false
namespace XrsVerif.ILVs
open XrsVerif XrsVerif.IL XrsVerif.Viewshed
variable {F : Type} [Fl F]

/-- the two-phase query with the phase-2 list given structurally -/
def queryP {α : Type} [LT α] [DecidableLT α] [LE α] [DecidableLE α] [Add α] [Sub α] [Mul α] [Div α]
    (S : α) (t : Tree α) (K ang g : α) : α :=
  if t.contains K then
    let s := short S t K
    if g < s then s else walk ang g (fun n => itp n ang) (predsOf t K) S
  else S

theorem findZ_isSome_contains (vals : List F) (nodes : List Int) (K : Fv F) (sh : Sh) (c : Ctx) :
    (absT vals nodes sh).contains K = (findZ vals K sh c).isSome := by
  rw [findPtr_contains]
  cases h : findZ vals K sh c with
  | none => simp [findZ_none vals K sh c h]
  | some pos =>
    obtain ⟨l, k, r, c'⟩ := pos
    have := (findZ_some vals K sh c l k r c' h).1
    simp [this]

/-- what the program computes is the model's query (with the structural phase-2 list) on the abstracted tree,
    provided the NIL row holds the sentinel -/
theorem queryZ_eq (vals : List F) (nodes : List Int) (n : Nat) (sh : Sh) (K ang g : Fv F)
    (hS : vAt vals (n - 1) 7 = smallest) :
    queryZ vals n sh K ang g = queryP smallest (absT vals nodes sh) K ang g := by
  unfold queryZ queryP
  rw [findZ_isSome_contains vals nodes K sh []]
  cases h : findZ vals K sh [] with
  | none => simp
  | some pos =>
    obtain ⟨l, k, r, c⟩ := pos
    have h1 := shortCtx_findZ vals nodes n K smallest hS sh [] l k r c h
    have h2 := preds_findZ vals nodes K sh [] l k r c h
    simp only [shortCtx] at h1
    simp only [predsCtx, List.map_nil, List.append_nil] at h2
    simp only [Option.isSome_some, if_true, queryPos, h1, h2]

theorem queryNoFail_of (vals : List F) (nodes : List Int) (sh : Sh) (K : Fv F)
    (h : ∀ nd ∈ predsOf (absT vals nodes sh) K, ¬ K < nd.key) : QueryNoFail vals sh K := by
  unfold QueryNoFail
  cases hz : findZ vals K sh [] with
  | none => trivial
  | some pos =>
    obtain ⟨l, k, r, c⟩ := pos
    have h2 := preds_findZ vals nodes K sh [] l k r c hz
    simp only [predsCtx, List.map_nil, List.append_nil] at h2
    intro i hi
    have : nodeAt vals i ∈ predsOf (absT vals nodes sh) K := by
      rw [← h2]; exact List.mem_map_of_mem hi
    have := h _ this
    simp only [nodeAt_key, fv_lt] at this
    simpa using this

/-- **Refinement of `_max_grad_in_status_struct`**: on a state whose arrays hold a well-linked tree (shape `sh`,
    no row twice, NIL row = sentinel) and on which the code's `raise ValueError` is not reached, the generated
    program returns the hand model's query of the abstracted tree and leaves the arrays alone. -/
theorem vsQuery_refines (s : State F) (fuel n : Nat) (hv : VS s n) (hrun : s.ctl = .run) (sh : Sh)
    (hL : Linked (s.ia "tree_nodes") n (-1) sh) (hN : sh.idxs.Nodup) (hroot : s.ienv "root" = sh.ptr)
    (hS : vAt (s.fa "tree_vals") (n - 1) 7 = smallest)
    (hnf : ∀ nd ∈ predsOf (absT (s.fa "tree_vals") (s.ia "tree_nodes") sh) ⟨s.fenv "distance"⟩,
      ¬ (⟨s.fenv "distance"⟩ : Fv F) < nd.key)
    (hfuel : sh.size + sh.height + 2 ≤ fuel) :
    let q := Gen.IL.vsQuery.run s fuel
    q.ctl = .ret ∧
      q.fenv "ret0" = (queryP smallest (absT (s.fa "tree_vals") (s.ia "tree_nodes") sh)
        ⟨s.fenv "distance"⟩ ⟨s.fenv "angle"⟩ ⟨s.fenv "gradient"⟩).v ∧
      q.fa = s.fa ∧ q.ia = s.ia := by
  have := vsQuery_run s fuel n hv hrun sh hL hN hroot (queryNoFail_of _ (s.ia "tree_nodes") sh _ hnf) hfuel
  rw [queryZ_eq _ (s.ia "tree_nodes") n sh _ _ _ hS] at this
  exact this

end XrsVerif.ILVs
