import XrsVerif.Proofs.ILVsSweepEv
import XrsVerif.Proofs.ILViewshedModel
/-
  Proofs/ILVsSweepCenter.lean -- one CENTER event of the generated sweep: the inlined `_max_grad_in_status_struct` as a
  black box with the contract `QryContract` (= what `vsQuery_refines` proves of the stand-alone `Gen.IL.vsQuery`), the test
  `max <= status_node[TN_GRAD_1]`, and the visibility write (`visWrite_exec`: `_get_vertical_ang` + `_set_visibility`).
  `evBody_center`: the whole loop body for an event of type CENTER.
-/
namespace XrsVerif.ILSw
open XrsVerif XrsVerif.IL XrsVerif.ILVs XrsVerif.Viewshed
variable {F : Type} [Fl F]
set_option linter.unusedSectionVars false
set_option linter.unusedSimpArgs false
set_option linter.unusedVariables false

/-- the two arrays of the status structure in a state of the sweep (`VS` of Proofs/ILViewshedBase.lean under the sweep's
    array names) -/
structure SVS (s : State F) (n : Nat) : Prop where
  shpV : s.shp "status_values" = [n, 8]
  shpN : s.shp "status_struct" = [n, 4]
  lenV : (s.fa "status_values").length = n * 8
  lenN : (s.ia "status_struct").length = n * 4
  pos : 0 < n

/-- **contract of an inlined `_max_grad_in_status_struct`** (locals prefixed `P`): what `vsQuery_refines` proves of the
    stand-alone program `Gen.IL.vsQuery`, stated for the copy inside the sweep (arrays `status_values` / `status_struct`):
    on arrays holding a well-linked tree it returns the model's two-phase query of the abstracted tree, writes no array
    and no scalar outside its own prefix -/
def QryContract (F : Type) [Fl F] (qry : St) (P : String) : Prop :=
  ∀ (s : State F) (fuel n : Nat) (sh : Sh), s.ctl = .run → SVS s n →
    Linked (s.ia "status_struct") n (-1) sh → sh.idxs.Nodup → s.ienv (P ++ "root") = sh.ptr →
    vAt (s.fa "status_values") (n - 1) 7 = smallest →
    (∀ nd ∈ predsOf (absT (s.fa "status_values") (s.ia "status_struct") sh) ⟨s.fenv (P ++ "distance")⟩,
      ¬ (⟨s.fenv (P ++ "distance")⟩ : Fv F) < nd.key) →
    sh.size + sh.height + 2 ≤ fuel →
    ∃ ie' fe' be', exec fuel (.scope qry) s = { s with ienv := ie', fenv := fe', benv := be' } ∧
      fe' (P ++ "ret0") = (queryP smallest (absT (s.fa "status_values") (s.ia "status_struct") sh)
        ⟨s.fenv (P ++ "distance")⟩ ⟨s.fenv (P ++ "angle")⟩ ⟨s.fenv (P ++ "gradient")⟩).v ∧
      (∀ v, P.isPrefixOf v = false → ie' v = s.ienv v) ∧ (∀ v, P.isPrefixOf v = false → fe' v = s.fenv v)

/-- **the visibility write**: with a positive key the inlined `_get_vertical_ang` + `_set_visibility` store the vertical angle
    `vangF vp_elev key (elev + target)` into `visibility_grid[status_row, status_col]`, provided the closing assertion
    `vert_ang >= 0` holds for that value; nothing else in the grid changes -/
theorem visWrite_exec (s : State F) (fuel h w ne : Nat) (r c k : Nat) (e0 e1 e2 e3 e4 e5 e6 : F)
    (hs : s.ctl = .run) (shV : s.shp "visibility_grid" = [h, w]) (shN : s.shp "status_node" = [7])
    (hE : s.fa "status_node" = [e0, e1, e2, e3, e4, e5, e6]) (shA : s.shp "event_aes" = [ne, 4]) (hk : k < ne)
    (hrow : s.ienv "status_row" = r) (hcol : s.ienv "status_col" = c) (hr : r < h) (hc : c < w) (hae : s.ienv "row$e_ae" = k)
    (hpos : Fl.lt (Fl.lit 0 1) (Fl.abs e0) = true)
    (hge : Fl.le (Fl.lit 0 1) (vangF (s.fenv "vp_elev") e0 (Fl.add (aeAt s k 2) (s.fenv "vp_target"))) = true) :
    ∃ ie' fe', exec fuel visWrite s = ⟨ie', fe', s.benv, s.ia,
      setS s.fa "visibility_grid" ((s.fa "visibility_grid").set (r * w + c)
        (vangF (s.fenv "vp_elev") e0 (Fl.add (aeAt s k 2) (s.fenv "vp_target")))), s.shp, s.ext, .run⟩ ∧
      (∀ v ∈ swLiveI, ie' v = s.ienv v) ∧ (∀ v ∈ swLiveF, fe' v = s.fenv v) := by
  obtain ⟨ie, fe, be, ia, fa, shp, ext, ctl⟩ := s
  simp only at hs shV shN hE shA hrow hcol hae hpos hge; subst hs
  have hvb := fun s h1 h2 => (vangBody_exec (F := F) "_get_vertical_ang108$" s fuel h1).1 h2
  have ik : inRange (k : Int) ne = true := inRange_of_lt k ne hk
  have o42 : off2 [ne, 4] (k : Int) (2 : Int) = k * 4 + 2 := off2_nat ne 4 k 2
  have j42 : inRange (2 : Int) 4 = true := by decide
  have n0 : inRange (0 : Int) 7 = true := by decide
  have m0 : off1 [7] (0 : Int) = 0 := by decide
  have ir : inRange (r : Int) h = true := inRange_of_lt r h hr
  have ic : inRange (c : Int) w = true := inRange_of_lt c w hc
  have orc : off2 [h, w] (r : Int) (c : Int) = r * w + c := off2_nat h w r c
  simp [aeAt] at hge
  simp [visWrite, ae, exec, IE.ok, IE.eval, FE.ok, FE.eval, BE.ok, BE.eval, CmpOp.eval, BinOp.eval, shV, shN, shA, hE, hrow, hcol, hae,
    setS_apply, ik, o42, j42, n0, m0, ir, ic, orc, hvb, hpos, vangEnv, hge, aeAt]
  refine ⟨?_, ?_⟩
  · intro v hv
    simp [swLiveI] at hv
    rcases hv with rfl | rfl | rfl | rfl | rfl | rfl | rfl | rfl <;> simp
  · intro v hv
    simp [swLiveF] at hv
    rcases hv with rfl | rfl | rfl | rfl <;> simp


/-- the prefix of the inlined query in the sweep -/
def qP : String := "_max_grad_in_status_struct101$"

/-- **one CENTER event, after the common prefix** (the query a black box with contract `QryContract`): the status structure is
    queried with the cell's key, the event's bearing and the cell's centre gradient; `mx` is the model's two-phase query of
    the abstracted tree.  If `mx <= gradient` the cell is visible and its vertical angle is written into
    `visibility_grid[status_row, status_col]`; otherwise the grid is untouched.  No other array changes. -/
theorem centerBranch_exec (hq : QryContract F qryLoop qP) (s : State F) (fuel n h w ne : Nat) (sh : Sh) (r c k : Nat)
    (key g1 e1 e3 e4 e5 e6 : F) (hs : s.ctl = .run) (hv : SVS s n)
    (hL : Linked (s.ia "status_struct") n (-1) sh) (hN : sh.idxs.Nodup) (hroot : s.ienv "root" = sh.ptr)
    (hS : vAt (s.fa "status_values") (n - 1) 7 = smallest)
    (hnf : ∀ nd ∈ predsOf (absT (s.fa "status_values") (s.ia "status_struct") sh) ⟨key⟩, ¬ (⟨key⟩ : Fv F) < nd.key)
    (hfuel : sh.size + sh.height + 2 ≤ fuel)
    (shV : s.shp "visibility_grid" = [h, w]) (shN : s.shp "status_node" = [7])
    (hE : s.fa "status_node" = [key, e1, g1, e3, e4, e5, e6]) (shA : s.shp "event_aes" = [ne, 4]) (hk : k < ne)
    (hrow : s.ienv "status_row" = r) (hcol : s.ienv "status_col" = c) (hr : r < h) (hc : c < w) (hae : s.ienv "row$e_ae" = k)
    (hpos : Fl.lt (Fl.lit 0 1) (Fl.abs key) = true)
    (hge : Fl.le (Fl.lit 0 1) (vangF (s.fenv "vp_elev") key (Fl.add (aeAt s k 2) (s.fenv "vp_target"))) = true) :
    let mx := (queryP smallest (absT (s.fa "status_values") (s.ia "status_struct") sh) ⟨key⟩ ⟨aeAt s k 0⟩ ⟨g1⟩).v
    ∃ ie' fe' be', exec fuel (centerBranch qryLoop) s = ⟨ie', fe', be', s.ia,
      setS s.fa "visibility_grid" (if Fl.le mx g1 = true then (s.fa "visibility_grid").set (r * w + c)
        (vangF (s.fenv "vp_elev") key (Fl.add (aeAt s k 2) (s.fenv "vp_target"))) else s.fa "visibility_grid"),
      s.shp, s.ext, .run⟩ ∧
      (∀ v ∈ swLiveI, ie' v = s.ienv v) ∧ (∀ v ∈ swLiveF, fe' v = s.fenv v) := by
  intro mx
  obtain ⟨ie, fe, be, ia, fa, shp, ext, ctl⟩ := s
  simp only at hs hv hL hN hroot hS hnf shV shN hE shA hrow hcol hae hge; subst hs
  have ik : inRange (k : Int) ne = true := inRange_of_lt k ne hk
  have o40 : off2 [ne, 4] (k : Int) (0 : Int) = k * 4 + 0 := off2_nat ne 4 k 0
  have j40 : inRange (0 : Int) 4 = true := by decide
  have n0 : inRange (0 : Int) 7 = true := by decide
  have m0 : off1 [7] (0 : Int) = 0 := by decide
  have n2 : inRange (2 : Int) 7 = true := by decide
  have m2 : off1 [7] (2 : Int) = 2 := by decide
  -- the state handed to the query
  let s1 : State F := ⟨setS ie "_max_grad_in_status_struct101$root" (ie "root"),
    setS (setS (setS fe "_max_grad_in_status_struct101$distance" key) "_max_grad_in_status_struct101$angle"
      ((fa "event_aes").getD (k * 4 + 0) Fl.nan)) "_max_grad_in_status_struct101$gradient" g1, be, ia, fa, shp, ext, .run⟩
  obtain ⟨ie2, fe2, be2, hex, hret, hfi, hff⟩ := hq s1 fuel n sh rfl ⟨hv.shpV, hv.shpN, hv.lenV, hv.lenN, hv.pos⟩ hL hN
    (by simp [s1, qP, setS_apply, hroot]) hS (by simpa [s1, qP, setS_apply] using hnf) hfuel
  simp [s1, qP, setS_apply] at hex hret
  have hvw := fun s' h1 h2 h3 h4 h5 h6 h7 h8 h9 => visWrite_exec (F := F) s' fuel h w ne r c k key e1 g1 e3 e4 e5 e6 h1 h2 h3 h4 h5 hk
    h6 h7 hr hc h8 hpos h9
  simp only [centerBranch]
  generalize hQ : St.scope qryLoop = Q at hex ⊢
  by_cases hvis : Fl.le mx g1 = true
  · have hvis' : Fl.le (fe2 "_max_grad_in_status_struct101$ret0") g1 = true := by rw [hret]; exact hvis
    simp [exec, IE.ok, IE.eval, FE.ok, FE.eval, BE.ok, BE.eval, CmpOp.eval, shN, shA, hE, hae, setS_apply, ae, ik, o40, j40, n0, m0, n2, m2,
      hex, hvis', hvis]
    have e_row : ie2 "status_row" = r := by rw [hfi _ (by decide)]; simpa [s1, setS_apply] using hrow
    have e_col : ie2 "status_col" = c := by rw [hfi _ (by decide)]; simpa [s1, setS_apply] using hcol
    have e_ae : ie2 "row$e_ae" = k := by rw [hfi _ (by decide)]; simpa [s1, setS_apply] using hae
    have e_ve : fe2 "vp_elev" = fe "vp_elev" := by rw [hff _ (by decide)]; simp [s1, setS_apply]
    have e_vt : fe2 "vp_target" = fe "vp_target" := by rw [hff _ (by decide)]; simp [s1, setS_apply]
    obtain ⟨ie3, fe3, h3, l1, l2⟩ := hvw ⟨ie2, setS fe2 "max" (fe2 "_max_grad_in_status_struct101$ret0"), be2, ia, fa, shp, ext, .run⟩
      rfl shV shN hE shA e_row e_col e_ae (by simpa [setS_apply, aeAt, e_ve, e_vt] using hge)
    simp [setS_apply, aeAt, e_ve, e_vt] at h3
    refine ⟨ie3, fe3, ⟨be2, ?_⟩, ?_, ?_⟩
    · rw [h3]; simp [aeAt]
    · intro v hv
      rw [l1 v hv]
      simp [swLiveI] at hv
      rcases hv with rfl | rfl | rfl | rfl | rfl | rfl | rfl | rfl <;> simp only [] <;> rw [hfi _ (by decide)] <;> simp [s1, setS_apply]
    · intro v hv
      rw [l2 v hv]
      simp [swLiveF] at hv
      rcases hv with rfl | rfl | rfl | rfl <;> simp [setS_apply] <;> rw [hff _ (by decide)] <;> simp [s1, setS_apply]
  · have hvis' : ¬ Fl.le (fe2 "_max_grad_in_status_struct101$ret0") g1 = true := by rw [hret]; exact hvis
    simp [exec, IE.ok, IE.eval, FE.ok, FE.eval, BE.ok, BE.eval, CmpOp.eval, shN, shA, hE, hae, setS_apply, ae, ik, o40, j40, n0, m0, n2, m2,
      hex, hvis', hvis, setS_self']
    refine ⟨?_, ?_⟩
    · intro v hv
      simp [swLiveI] at hv
      rcases hv with rfl | rfl | rfl | rfl | rfl | rfl | rfl | rfl <;> rw [hfi _ (by decide)] <;> simp [s1, setS_apply]
    · intro v hv
      simp [swLiveF] at hv
      rcases hv with rfl | rfl | rfl | rfl <;> simp [setS_apply] <;> rw [hff _ (by decide)] <;> simp [s1, setS_apply]

/-- **one iteration of the event loop for a CENTER event** (in terms of the inlined query as a black box): the node buffer
    gets the cell's key and centre gradient; the status structure is queried at the event's bearing; if the answer `mx`
    (the model's two-phase query of the tree held by the arrays) is `<=` the gradient, the vertical angle of the cell is
    written into the visibility grid, otherwise the grid is untouched.  The status structure, the idle stack, the event
    arrays are unchanged. -/
theorem evBody_center (hq : QryContract F qryLoop qP) (ins del : St) (s : State F) (fuel n h w ne : Nat) (sh : Sh) (r c k : Nat)
    (inv : EvInv s ne k) (hv : SVS s n)
    (hL : Linked (s.ia "status_struct") n (-1) sh) (hN : sh.idxs.Nodup) (hroot : s.ienv "root" = sh.ptr)
    (hS : vAt (s.fa "status_values") (n - 1) 7 = smallest) (shV : s.shp "visibility_grid" = [h, w])
    (hr0 : rctAt s k 0 = r) (hc0 : rctAt s k 1 = c) (hty : rctAt s k 2 = 0) (hr : r < h) (hc : c < w)
    (hfuel : sh.size + sh.height + 2 ≤ fuel) :
    let key := keyF (r : Int) (c : Int) (s.ienv "vp_row") (s.ienv "vp_col") (s.fenv "ew_res") (s.fenv "ns_res")
    let g1 := gradCellF (r : Int) (c : Int) (Fl.add (aeAt s k 2) (s.fenv "vp_target")) (s.ienv "vp_row") (s.ienv "vp_col")
      (s.fenv "vp_elev") (s.fenv "ew_res") (s.fenv "ns_res")
    let mx := (queryP smallest (absT (s.fa "status_values") (s.ia "status_struct") sh) ⟨key⟩ ⟨aeAt s k 0⟩ ⟨g1⟩).v
    (∀ nd ∈ predsOf (absT (s.fa "status_values") (s.ia "status_struct") sh) ⟨key⟩, ¬ (⟨key⟩ : Fv F) < nd.key) →
    Fl.lt (Fl.lit 0 1) (Fl.abs key) = true →
    Fl.le (Fl.lit 0 1) (vangF (s.fenv "vp_elev") key (Fl.add (aeAt s k 2) (s.fenv "vp_target"))) = true →
    ∃ ie' fe' be', exec fuel (evBody ins del qryLoop) s = ⟨ie', fe', be', s.ia,
      setS (setS s.fa "status_node" [key, Fl.nan, g1, Fl.nan, Fl.nan, Fl.nan, Fl.nan]) "visibility_grid"
        (if Fl.le mx g1 = true then (s.fa "visibility_grid").set (r * w + c)
          (vangF (s.fenv "vp_elev") key (Fl.add (aeAt s k 2) (s.fenv "vp_target"))) else s.fa "visibility_grid"),
      s.shp, s.ext, .run⟩ ∧
      (∀ v ∈ swLiveI, ie' v = s.ienv v) ∧ (∀ v ∈ swLiveF, fe' v = s.fenv v) := by
  intro key g1 mx hnf hpos hge
  obtain ⟨ie1, fe1, hex, p1, p2, p3, p4, p5, p6, p7⟩ := evPrefix_exec
    (.ite (.cmpI .eq (.var "etype") (.lit 1)) (enterBranch ins)
    (.ite (.cmpI .eq (.var "etype") (.lit (-1))) (exitBranch del)
    (.ite (.cmpI .eq (.var "etype") (.lit 0)) (centerBranch qryLoop) .skip))) s fuel ne k inv
  rw [hr0, hc0] at hex
  rw [hr0] at p1
  rw [hc0] at p2
  rw [hty] at p3
  rw [evBody, hex]
  simp [exec, BE.ok, BE.eval, IE.ok, IE.eval, cmpInt, p3]
  have q_vr : ie1 "vp_row" = s.ienv "vp_row" := p6 _ (by simp [swLiveI])
  have q_vc : ie1 "vp_col" = s.ienv "vp_col" := p6 _ (by simp [swLiveI])
  have q_rt : ie1 "root" = s.ienv "root" := p6 _ (by simp [swLiveI])
  have q_ve : fe1 "vp_elev" = s.fenv "vp_elev" := p7 _ (by simp [swLiveF])
  have q_vt : fe1 "vp_target" = s.fenv "vp_target" := p7 _ (by simp [swLiveF])
  obtain ⟨ie2, fe2, be2, h2, l1, l2⟩ := centerBranch_exec hq
    ⟨ie1, fe1, s.benv, s.ia, setS s.fa "status_node" [key, Fl.nan, g1, Fl.nan, Fl.nan, Fl.nan, Fl.nan], s.shp, s.ext, .run⟩
    fuel n h w ne sh r c k key g1 Fl.nan Fl.nan Fl.nan Fl.nan Fl.nan rfl
    ⟨hv.shpV, hv.shpN, by simpa [setS_apply] using hv.lenV, hv.lenN, hv.pos⟩ hL hN (q_rt.trans hroot)
    (by simpa [setS_apply] using hS) (by simpa [setS_apply] using hnf) hfuel shV inv.shN (by simp [setS_apply]) inv.shA inv.hk
    p1 p2 hr hc p5 hpos (by simpa [setS_apply, aeAt, q_ve, q_vt] using hge)
  simp [setS_apply, aeAt, q_ve, q_vt] at h2
  refine ⟨ie2, fe2, ⟨be2, ?_⟩, fun v hv => (l1 v hv).trans (p6 v hv), fun v hv => (l2 v hv).trans (p7 v hv)⟩
  rw [h2]
  simp [aeAt, mx]
end XrsVerif.ILSw
