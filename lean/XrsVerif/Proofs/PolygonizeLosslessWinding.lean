import XrsVerif.Proofs.Polygonize
/-
  C15, losslessness: winding numbers of closed lists of follower states.

  A list `L` of boundary-edge states of a region predicate `R` is *closed* when `L.map (step R)` is a
  permutation of `L` (every followed ring, and every concatenation of followed rings, is).  For such a
  list two "winding numbers" of a pixel are defined by counting unit edges:
    `wcol L x y`  vertical ray downwards:  #E-states in column x at or below row y  −  #W-states below;
    `wrow L x y`  horizontal ray to the right: #N-states in row y at or right of x  −  #S-states right.
  `balance`       at every pixel corner as many edges of `L` start as end (from the permutation);
  `wrow_eq_wcol`  both counts agree;
  `w_adjacent`    the winding number is the same for two 8-adjacent pixels of the region (the diagonal
                  case is the turn-right-first rule of the follower).
  Core Lean only.
-/
set_option linter.unusedVariables false
namespace XrsVerif.Polygonize

theorem countP_add_count {α : Type} [DecidableEq α] (p q : α → Bool) (a : α) (L : List α)
    (h : ∀ s, p s = (q s || s == a)) (hq : q a = false) : L.countP p = L.countP q + L.count a := by
  induction L with
  | nil => simp
  | cons s L ih =>
    rw [List.countP_cons, List.countP_cons, List.count_cons, ih, h s]
    by_cases hs : s = a
    · subst hs; simp [hq]; omega
    · have : (s == a) = false := by simpa using hs
      simp [this]; omega

theorem count_eq_zero_of_not_mem' {L : List FSt} {a : FSt} (h : a ∉ L) : L.count a = 0 :=
  List.count_eq_zero_of_not_mem h

def cE (L : List FSt) (x y : Int) : Nat := L.countP fun s => s.d == .E && s.x == x && decide (s.y ≤ y)
def cW (L : List FSt) (x y : Int) : Nat := L.countP fun s => s.d == .W && s.x == x && decide (s.y < y)
def cN (L : List FSt) (x y : Int) : Nat := L.countP fun s => s.d == .N && s.y == y && decide (x ≤ s.x)
def cS (L : List FSt) (x y : Int) : Nat := L.countP fun s => s.d == .S && s.y == y && decide (x < s.x)

/-- vertical ray downwards from the centre of pixel `(x, y)`: E-edges minus W-edges crossed -/
def wcol (L : List FSt) (x y : Int) : Int := (cE L x y : Int) - (cW L x y : Int)
/-- horizontal ray to the right from the centre of pixel `(x, y)`: N-edges minus S-edges crossed -/
def wrow (L : List FSt) (x y : Int) : Int := (cN L x y : Int) - (cS L x y : Int)

theorem cE_succ (L : List FSt) (x y : Int) : cE L x (y + 1) = cE L x y + L.count ⟨x, y + 1, .E⟩ := by
  unfold cE
  apply countP_add_count
  · intro ⟨sx, sy, sd⟩
    cases sd <;> grind
  · simp; try omega

theorem cW_succ (L : List FSt) (x y : Int) : cW L x (y + 1) = cW L x y + L.count ⟨x, y, .W⟩ := by
  unfold cW
  apply countP_add_count
  · intro ⟨sx, sy, sd⟩
    cases sd <;> grind
  · simp; try omega

theorem cN_pred (L : List FSt) (x y : Int) : cN L x y = cN L (x + 1) y + L.count ⟨x, y, .N⟩ := by
  unfold cN
  apply countP_add_count
  · intro ⟨sx, sy, sd⟩
    cases sd <;> grind
  · simp; try omega

theorem cS_pred (L : List FSt) (x y : Int) : cS L x y = cS L (x + 1) y + L.count ⟨x + 1, y, .S⟩ := by
  unfold cS
  apply countP_add_count
  · intro ⟨sx, sy, sd⟩
    cases sd <;> grind
  · simp; try omega

/-- vertical jump of `wcol` -/
theorem wcol_succ (L : List FSt) (x y : Int) :
    wcol L x (y + 1) = wcol L x y + (L.count ⟨x, y + 1, .E⟩ : Int) - (L.count ⟨x, y, .W⟩ : Int) := by
  unfold wcol; rw [cE_succ, cW_succ]; omega

/-- horizontal jump of `wrow` -/
theorem wrow_pred (L : List FSt) (x y : Int) :
    wrow L x y = wrow L (x + 1) y + (L.count ⟨x, y, .N⟩ : Int) - (L.count ⟨x + 1, y, .S⟩ : Int) := by
  unfold wrow; rw [cN_pred, cS_pred]; omega

/-- a closed list of boundary-edge states of `R`: stepping every state permutes the list -/
structure Closed (R : Int → Int → Bool) (L : List FSt) : Prop where
  valid : ∀ s ∈ L, Valid R s
  perm : (L.map (step R)).Perm L

theorem Closed.append {R : Int → Int → Bool} {L M : List FSt} (hL : Closed R L) (hM : Closed R M) :
    Closed R (L ++ M) :=
  ⟨fun s hs => (List.mem_append.mp hs).elim (hL.valid s) (hM.valid s),
   by rw [List.map_append]; exact hL.perm.append hM.perm⟩

theorem Closed.nil (R : Int → Int → Bool) : Closed R [] :=
  ⟨fun s hs => absurd hs (List.not_mem_nil), List.Perm.refl _⟩

theorem Closed.count_invalid {R : Int → Int → Bool} {L : List FSt} (hL : Closed R L) {a : FSt}
    (ha : ¬ Valid R a) : L.count a = 0 :=
  List.count_eq_zero_of_not_mem fun h => ha (hL.valid a h)

theorem countP_four (p : FSt → Bool) (a b c d : FSt) (L : List FSt)
    (h : ∀ s, (if p s = true then 1 else 0 : Nat) =
      (if (s == a) = true then 1 else 0) + (if (s == b) = true then 1 else 0) +
      (if (s == c) = true then 1 else 0) + (if (s == d) = true then 1 else 0)) :
    L.countP p = L.count a + L.count b + L.count c + L.count d := by
  induction L with
  | nil => simp
  | cons s L ih =>
    rw [List.countP_cons, List.count_cons, List.count_cons, List.count_cons, List.count_cons, ih, h s]
    omega

/-- the edges of `L` that start at the corner `(x+1, y+1)` -/
theorem out_count (L : List FSt) (x y : Int) :
    L.countP (fun s => s.corner == (x + 1, y + 1)) =
      L.count ⟨x + 1, y + 1, .E⟩ + L.count ⟨x, y, .W⟩ + L.count ⟨x, y + 1, .N⟩ + L.count ⟨x + 1, y, .S⟩ := by
  apply countP_four
  intro ⟨sx, sy, sd⟩
  cases sd <;> simp [FSt.corner] <;> grind

/-- the edges of `L` that end at the corner `(x+1, y+1)` -/
theorem in_count (L : List FSt) (x y : Int) :
    L.countP (fun s => (s.corner.1 + s.d.dx, s.corner.2 + s.d.dy) == (x + 1, y + 1)) =
      L.count ⟨x, y + 1, .E⟩ + L.count ⟨x + 1, y, .W⟩ + L.count ⟨x, y, .N⟩ + L.count ⟨x + 1, y + 1, .S⟩ := by
  apply countP_four
  intro ⟨sx, sy, sd⟩
  cases sd <;> simp [FSt.corner, Dir.dx, Dir.dy] <;> grind

/-- at every pixel corner as many edges of a closed list start as end -/
theorem balance {R : Int → Int → Bool} {L : List FSt} (hL : Closed R L) (x y : Int) :
    L.count ⟨x + 1, y + 1, .E⟩ + L.count ⟨x, y, .W⟩ + L.count ⟨x, y + 1, .N⟩ + L.count ⟨x + 1, y, .S⟩ =
    L.count ⟨x, y + 1, .E⟩ + L.count ⟨x + 1, y, .W⟩ + L.count ⟨x, y, .N⟩ + L.count ⟨x + 1, y + 1, .S⟩ := by
  rw [← out_count, ← in_count, ← hL.perm.countP_eq, List.countP_map]
  apply List.countP_congr
  intro s _
  simp only [Function.comp, corner_step]

/-- the region predicate is false outside the `nx × ny` raster -/
def InRaster (R : Int → Int → Bool) (nx ny : Nat) : Prop :=
  ∀ x y, R x y = true → 0 ≤ x ∧ x < nx ∧ 0 ≤ y ∧ y < ny

theorem Closed.bounds {R : Int → Int → Bool} {nx ny : Nat} {L : List FSt} (hL : Closed R L)
    (hR : InRaster R nx ny) {s : FSt} (hs : s ∈ L) : 0 ≤ s.x ∧ s.x < nx ∧ 0 ≤ s.y ∧ s.y < ny :=
  hR _ _ (hL.valid s hs).1

theorem wrow_right {R : Int → Int → Bool} {nx ny : Nat} {L : List FSt} (hL : Closed R L)
    (hR : InRaster R nx ny) (x y : Int) (hx : (nx : Int) ≤ x) : wrow L x y = 0 := by
  have h1 : cN L x y = 0 := by
    unfold cN; rw [List.countP_eq_zero]; intro s hs
    have := hL.bounds hR hs; simp; intro _ _; omega
  have h2 : cS L x y = 0 := by
    unfold cS; rw [List.countP_eq_zero]; intro s hs
    have := hL.bounds hR hs; simp; intro _ _; omega
  unfold wrow; rw [h1, h2]; rfl

theorem count_right {R : Int → Int → Bool} {nx ny : Nat} {L : List FSt} (hL : Closed R L)
    (hR : InRaster R nx ny) (x y : Int) (d : Dir) (hx : (nx : Int) ≤ x) : L.count ⟨x, y, d⟩ = 0 :=
  List.count_eq_zero_of_not_mem fun h => by have := hL.bounds hR h; simp only at this; omega

/-- vertical jump of `wrow` (from `balance`, by induction from the right border) -/
theorem wrow_succ {R : Int → Int → Bool} {nx ny : Nat} {L : List FSt} (hL : Closed R L)
    (hR : InRaster R nx ny) (y : Int) : ∀ (t : Nat) (x : Int), (nx : Int) - x ≤ t →
    wrow L x (y + 1) = wrow L x y + (L.count ⟨x, y + 1, .E⟩ : Int) - (L.count ⟨x, y, .W⟩ : Int) := by
  intro t
  induction t with
  | zero =>
    intro x hx
    rw [wrow_right hL hR x _ (by omega), wrow_right hL hR x _ (by omega),
      count_right hL hR x _ _ (by omega), count_right hL hR x _ _ (by omega)]
    rfl
  | succ t ih =>
    intro x hx
    have h := ih (x + 1) (by omega)
    have b := balance hL x y
    rw [wrow_pred L x (y + 1), wrow_pred L x y, h]
    omega

theorem wcol_below {R : Int → Int → Bool} {nx ny : Nat} {L : List FSt} (hL : Closed R L)
    (hR : InRaster R nx ny) (x y : Int) (hy : y < 0) : wcol L x y = 0 := by
  have h1 : cE L x y = 0 := by
    unfold cE; rw [List.countP_eq_zero]; intro s hs
    have := hL.bounds hR hs; simp; intro _ _; omega
  have h2 : cW L x y = 0 := by
    unfold cW; rw [List.countP_eq_zero]; intro s hs
    have := hL.bounds hR hs; simp; intro _ _; omega
  unfold wcol; rw [h1, h2]; rfl

theorem wrow_below {R : Int → Int → Bool} {nx ny : Nat} {L : List FSt} (hL : Closed R L)
    (hR : InRaster R nx ny) (x y : Int) (hy : y < 0) : wrow L x y = 0 := by
  have h1 : cN L x y = 0 := by
    unfold cN; rw [List.countP_eq_zero]; intro s hs
    have := hL.bounds hR hs; simp; intro _ _; omega
  have h2 : cS L x y = 0 := by
    unfold cS; rw [List.countP_eq_zero]; intro s hs
    have := hL.bounds hR hs; simp; intro _ _; omega
  unfold wrow; rw [h1, h2]; rfl

/-- the two ways of counting agree: the winding number of a pixel w.r.t. a closed list -/
theorem wrow_eq_wcol {R : Int → Int → Bool} {nx ny : Nat} {L : List FSt} (hL : Closed R L)
    (hR : InRaster R nx ny) (x : Int) : ∀ (t : Nat) (y : Int), y < t → wrow L x y = wcol L x y := by
  intro t
  induction t with
  | zero => intro y hy; rw [wrow_below hL hR x y (by omega), wcol_below hL hR x y (by omega)]
  | succ t ih =>
    intro y hy
    by_cases h0 : y < t
    · exact ih y h0
    · have e : y = (y - 1) + 1 := by omega
      rw [e, wrow_succ hL hR (y - 1) ((nx : Int) - x).toNat x (by omega), wcol_succ, ih (y - 1) (by omega)]

theorem wrow_eq_wcol' {R : Int → Int → Bool} {nx ny : Nat} {L : List FSt} (hL : Closed R L)
    (hR : InRaster R nx ny) (x y : Int) : wrow L x y = wcol L x y :=
  wrow_eq_wcol hL hR x (y + 1).toNat y (by omega)

/-! ### validity and the step in normal form -/

theorem valid_E_iff (R : Int → Int → Bool) (x y : Int) :
    Valid R ⟨x, y, .E⟩ ↔ R x y = true ∧ R x (y - 1) = false := by
  simp [Valid, FSt.rightCell, Dir.left, Dir.dx, Dir.dy]
theorem valid_W_iff (R : Int → Int → Bool) (x y : Int) :
    Valid R ⟨x, y, .W⟩ ↔ R x y = true ∧ R x (y + 1) = false := by
  simp [Valid, FSt.rightCell, Dir.left, Dir.dx, Dir.dy]
theorem valid_N_iff (R : Int → Int → Bool) (x y : Int) :
    Valid R ⟨x, y, .N⟩ ↔ R x y = true ∧ R (x + 1) y = false := by
  simp [Valid, FSt.rightCell, Dir.left, Dir.dx, Dir.dy]
theorem valid_S_iff (R : Int → Int → Bool) (x y : Int) :
    Valid R ⟨x, y, .S⟩ ↔ R x y = true ∧ R (x - 1) y = false := by
  simp [Valid, FSt.rightCell, Dir.left, Dir.dx, Dir.dy]

/-- a state and its successor occur equally often in a closed list -/
theorem Closed.count_step {R : Int → Int → Bool} {L : List FSt} (hL : Closed R L) {a : FSt}
    (ha : Valid R a) : L.count (step R a) = L.count a := by
  rw [← hL.perm.count_eq, List.count_eq_countP, List.countP_map, List.count_eq_countP]
  apply List.countP_congr
  intro s hs
  simp only [Function.comp, beq_iff_eq]
  constructor
  · intro h; exact step_injective R s a (hL.valid s hs) ha h
  · intro h; rw [h]

/-- the winding number does not change between vertically adjacent pixels of the region -/
theorem w_vert {R : Int → Int → Bool} {L : List FSt} (hL : Closed R L) (x y : Int)
    (h1 : R x y = true) (h2 : R x (y + 1) = true) : wcol L x (y + 1) = wcol L x y := by
  rw [wcol_succ, hL.count_invalid (a := ⟨x, y + 1, .E⟩), hL.count_invalid (a := ⟨x, y, .W⟩)]
  · simp
  · rw [valid_W_iff]; simp [h2]
  · rw [valid_E_iff]; simp [h1]

/-- ... nor between horizontally adjacent pixels of the region -/
theorem w_horiz {R : Int → Int → Bool} {L : List FSt} (hL : Closed R L) (x y : Int)
    (h1 : R x y = true) (h2 : R (x + 1) y = true) : wrow L x y = wrow L (x + 1) y := by
  rw [wrow_pred, hL.count_invalid (a := ⟨x, y, .N⟩), hL.count_invalid (a := ⟨x + 1, y, .S⟩)]
  · simp
  · rw [valid_S_iff]; simp [h1]
  · rw [valid_N_iff]; simp [h2]

/-- diagonal pinch SW–NE: the follower turns right from the N side of the lower pixel onto the S side
    (heading E) of the upper one, so both edges occur equally often -/
theorem w_diag1 {R : Int → Int → Bool} {nx ny : Nat} {L : List FSt} (hL : Closed R L)
    (hR : InRaster R nx ny) (x y : Int)
    (h1 : R x y = true) (h2 : R (x + 1) (y + 1) = true) (h3 : R (x + 1) y = false)
    (h4 : R x (y + 1) = false) : wcol L (x + 1) (y + 1) = wcol L x y := by
  have hv : Valid R ⟨x, y, .N⟩ := by rw [valid_N_iff]; exact ⟨h1, h3⟩
  have hs : step R ⟨x, y, .N⟩ = ⟨x + 1, y + 1, .E⟩ := by
    simp [step, FSt.aheadRight, Dir.left, Dir.dx, Dir.dy, Dir.right, h2]
  have hc := hL.count_step hv
  rw [hs] at hc
  have e1 := wcol_succ L (x + 1) y
  have e2 := wrow_pred L x y
  rw [hL.count_invalid (a := ⟨x + 1, y, .W⟩) (by rw [valid_W_iff]; simp [h3])] at e1
  rw [hL.count_invalid (a := ⟨x + 1, y, .S⟩) (by rw [valid_S_iff]; simp [h3])] at e2
  rw [wrow_eq_wcol' hL hR, wrow_eq_wcol' hL hR] at e2
  omega

/-- diagonal pinch NW–SE: from the S side (heading E) of the upper pixel the follower turns right onto
    the W side (heading S) of the lower one -/
theorem w_diag2 {R : Int → Int → Bool} {nx ny : Nat} {L : List FSt} (hL : Closed R L)
    (hR : InRaster R nx ny) (x y : Int)
    (h1 : R x (y + 1) = true) (h2 : R (x + 1) y = true) (h3 : R x y = false)
    (h4 : R (x + 1) (y + 1) = false) : wcol L x (y + 1) = wcol L (x + 1) y := by
  have hv : Valid R ⟨x, y + 1, .E⟩ := by rw [valid_E_iff]; simp [h1, h3]
  have hs : step R ⟨x, y + 1, .E⟩ = ⟨x + 1, y, .S⟩ := by
    simp [step, FSt.aheadRight, Dir.left, Dir.dx, Dir.dy, Dir.right, h2]
  have hc := hL.count_step hv
  rw [hs] at hc
  have e1 := wcol_succ L x y
  have e2 := wrow_pred L x y
  rw [hL.count_invalid (a := ⟨x, y, .W⟩) (by rw [valid_W_iff]; simp [h3])] at e1
  rw [hL.count_invalid (a := ⟨x, y, .N⟩) (by rw [valid_N_iff]; simp [h3])] at e2
  rw [wrow_eq_wcol' hL hR, wrow_eq_wcol' hL hR] at e2
  omega

/-- **the winding number w.r.t. a closed list is the same for 8-adjacent pixels of the region**
    (W, S, SW, SE neighbour of `(x, y)`) -/
theorem w_adjacent {R : Int → Int → Bool} {nx ny : Nat} {L : List FSt} (hL : Closed R L)
    (hR : InRaster R nx ny) (x y : Int) (h : R x y = true) :
    (R (x - 1) y = true → wcol L (x - 1) y = wcol L x y) ∧
    (R x (y - 1) = true → wcol L x (y - 1) = wcol L x y) ∧
    (R (x - 1) (y - 1) = true → wcol L (x - 1) (y - 1) = wcol L x y) ∧
    (R (x + 1) (y - 1) = true → wcol L (x + 1) (y - 1) = wcol L x y) := by
  have hW : R (x - 1) y = true → wcol L (x - 1) y = wcol L x y := by
    intro h1
    have := w_horiz hL (x - 1) y h1 (by rw [Int.sub_add_cancel]; exact h)
    rw [Int.sub_add_cancel, wrow_eq_wcol' hL hR, wrow_eq_wcol' hL hR] at this
    exact this
  have hS : R x (y - 1) = true → wcol L x (y - 1) = wcol L x y := by
    intro h1
    have := w_vert hL x (y - 1) h1 (by rw [Int.sub_add_cancel]; exact h)
    rw [Int.sub_add_cancel] at this
    exact this.symm
  refine ⟨hW, hS, ?_, ?_⟩
  · intro h1
    by_cases ha : R x (y - 1) = true
    · -- through the S neighbour
      have := w_horiz hL (x - 1) (y - 1) h1 (by rw [Int.sub_add_cancel]; exact ha)
      rw [Int.sub_add_cancel, wrow_eq_wcol' hL hR, wrow_eq_wcol' hL hR] at this
      rw [this]; exact hS ha
    · by_cases hb : R (x - 1) y = true
      · have := w_vert hL (x - 1) (y - 1) h1 (by rw [Int.sub_add_cancel]; exact hb)
        rw [Int.sub_add_cancel] at this
        rw [← this]; exact hW hb
      · have := w_diag1 hL hR (x - 1) (y - 1) h1 (by simp only [Int.sub_add_cancel]; exact h)
          (by simp only [Int.sub_add_cancel]; simpa using ha) (by simp only [Int.sub_add_cancel]; simpa using hb)
        simp only [Int.sub_add_cancel] at this
        exact this.symm
  · intro h1
    by_cases ha : R x (y - 1) = true
    · have := w_horiz hL x (y - 1) ha h1
      rw [wrow_eq_wcol' hL hR, wrow_eq_wcol' hL hR] at this
      rw [← this]; exact hS ha
    · by_cases hb : R (x + 1) y = true
      · have := w_vert hL (x + 1) (y - 1) h1 (by rw [Int.sub_add_cancel]; exact hb)
        rw [Int.sub_add_cancel] at this
        have h2 := w_horiz hL x y h hb
        rw [wrow_eq_wcol' hL hR, wrow_eq_wcol' hL hR] at h2
        rw [← this, h2]
      · have := w_diag2 hL hR x (y - 1) (by simp only [Int.sub_add_cancel]; exact h) h1
          (by simpa using ha) (by simp only [Int.sub_add_cancel]; simpa using hb)
        simp only [Int.sub_add_cancel] at this
        exact this.symm

end XrsVerif.Polygonize
