import XrsVerif.Proofs.ILRegionsAssign
/-
  Proofs/ILRegionsCell.lean -- the common front part of a cell step of both passes of `Gen.IL.areaConnectivity`:
  `val = data[y, x]`, the NaN guard, the window gathering and the match block, composed.

  `afterMatch s ie' v SW AW` is the state in which the rest of the cell step (`assign1` resp. `merge`) starts:
  `val = v`, `src_window = SW`, `area_window = AW`, `neighbor_matches = matchIdx (closeF v) SW`.
  `cell1_front` / `cell2_front`: at a non-NaN cell `(y, x)` the cell step is the rest run in
  `afterMatch s ie' data[y,x] (nbrs.map data) (nbrs.map out)` with `nbrs = gridNbrs rows cols (n = 8) (y, x)`;
  `cell1_nan` / `cell2_nan`: what happens at a NaN cell.
-/
namespace XrsVerif.IL.Rg
open XrsVerif XrsVerif.IL XrsVerif.Regions
variable {F : Type} [Fl F]
set_option linter.unusedSectionVars false
set_option linter.unusedVariables false
set_option linter.unusedSimpArgs false

/-- the state after `val = …`, gathering and the match block -/
def afterMatch (s : State F) (ie' : String → Int) (v : F) (SW AW : List F) : State F :=
  { s with
    ienv := ie',
    fenv := setS (setS (setS s.fenv "val" v) "rtol" (Fl.lit 1 100000)) "atol" (Fl.lit 1 100000000),
    shp := setS (setS s.shp "is_close" [SW.length]) "neighbor_matches" [(matchIdx (closeF v) SW).length],
    ia := setS (setS s.ia "is_close" (SW.map fun a => if closeF v a then (1 : Int) else 0))
            "neighbor_matches" ((matchIdx (closeF v) SW).map natCast),
    fa := setS (setS s.fa "src_window" SW) "area_window" AW }

section proj
variable (s : State F) (ie' : String → Int) (v : F) (SW AW : List F)

theorem afterMatch_ctl : (afterMatch s ie' v SW AW).ctl = s.ctl := rfl
theorem afterMatch_ienv : (afterMatch s ie' v SW AW).ienv = ie' := rfl
theorem afterMatch_shp_nm :
    (afterMatch s ie' v SW AW).shp "neighbor_matches" = [(matchIdx (closeF v) SW).length] := by
  simp [afterMatch]
theorem afterMatch_ia_nm :
    (afterMatch s ie' v SW AW).ia "neighbor_matches" = (matchIdx (closeF v) SW).map natCast := by
  simp [afterMatch]
theorem afterMatch_shp (a : String) (h1 : a ≠ "is_close") (h2 : a ≠ "neighbor_matches") :
    (afterMatch s ie' v SW AW).shp a = s.shp a := by
  simp [afterMatch, setS, h1, h2]
theorem afterMatch_fa_aw : (afterMatch s ie' v SW AW).fa "area_window" = AW := by simp [afterMatch]
theorem afterMatch_fa_sw : (afterMatch s ie' v SW AW).fa "src_window" = SW := by simp [afterMatch, setS]
theorem afterMatch_fa (a : String) (h1 : a ≠ "src_window") (h2 : a ≠ "area_window") :
    (afterMatch s ie' v SW AW).fa a = s.fa a := by
  simp [afterMatch, setS, h1, h2]
end proj

/-- `val = data[y, x]` -/
theorem exec_setVal (fuel rows cols y x : Nat) (hy : y < rows) (hx : x < cols) (s : State F)
    (hyv : s.ienv "y" = (y : Int)) (hxv : s.ienv "x" = (x : Int)) (hd : s.shp "data" = [rows, cols]) :
    exec fuel (.setF "val" (.ld2 "data" (.var "y") (.var "x"))) s =
      { s with fenv := setS s.fenv "val" (at_ cols (s.fa "data") (y, x)) } := by
  rw [exec_setF]
  simp only [FE.ok, IE.ok, FE.eval, IE.eval, hyv, hxv, hd, List.length_cons, List.length_nil, List.getD_cons_zero,
    List.getD_cons_succ, decide_true, Bool.and_true, Bool.true_and, inRange_of_lt _ _ hy, inRange_of_lt _ _ hx,
    off2_nat, if_true, at_, pos]

/-- a first-pass step at a NaN cell: `out[y, x] = val; continue` -/
theorem cell1_nan (fuel rows cols n : Nat) (D : List F) (y x : Nat) (hy : y < rows) (hx : x < cols) (s : State F)
    (g : Geo rows cols n D s) (hyv : s.ienv "y" = (y : Int)) (hxv : s.ienv "x" = (x : Int))
    (hnan : Fl.isnan (at_ cols D (y, x)) = true) :
    afterBody (exec fuel cell1 s) =
      { s with
        fenv := setS s.fenv "val" (at_ cols D (y, x)),
        fa := setS s.fa "out" ((s.fa "out").set (pos cols (y, x)) (at_ cols D (y, x))) } := by
  let s1 : State F := { s with fenv := setS s.fenv "val" (at_ cols D (y, x)) }
  have hite : exec fuel (.ite (.isnan (.var "val")) (.seq (.stF2 "out" (.var "y") (.var "x") (.var "val")) .cont) .skip) s1 =
      { s1 with fa := setS s.fa "out" ((s.fa "out").set (pos cols (y, x)) (at_ cols D (y, x))), ctl := .cont } := by
    rw [exec_ite]
    have hv : s1.fenv "val" = at_ cols D (y, x) := by simp only [s1, setS_same]
    simp only [BE.ok, FE.ok, BE.eval, FE.eval, hv, hnan, if_true]
    rw [exec_seq, exec_store_out fuel rows cols y x hy hx _ _ (by simp [FE.ok]) (by exact hyv) (by exact hxv)
      (by exact g.oshp), if_pos (by exact g.run), exec_cont]
    simp only [FE.eval, hv]
    rfl
  unfold cell1
  rw [exec_seq, exec_setVal fuel rows cols y x hy hx s hyv hxv g.dshp, g.dat, if_pos (by exact g.run), exec_seq,
    show ({ s with fenv := setS s.fenv "val" (at_ cols D (y, x)) } : State F) = s1 from rfl, hite,
    if_neg (by simp)]
  simp only [afterBody, s1, g.run]

/-- a first-pass step at a non-NaN cell, up to the assignment -/
theorem cell1_front (fuel rows cols n : Nat) (hn : n = 4 ∨ n = 8) (D : List F) (y x : Nat) (hy : y < rows)
    (hx : x < cols) (s : State F) (g : Geo rows cols n D s) (hyv : s.ienv "y" = (y : Int))
    (hxv : s.ienv "x" = (x : Int)) (hnan : Fl.isnan (at_ cols D (y, x)) = false) :
    ∃ ie' : String → Int, (∀ v, v ≠ "elem1$k" → v ≠ "where2$n" → v ≠ "where2$k" → ie' v = s.ienv v) ∧
      exec fuel cell1 s = exec fuel assign1
        (afterMatch s ie' (at_ cols D (y, x))
          ((gridNbrs rows cols (decide (n = 8)) (y, x)).map (at_ cols D))
          ((gridNbrs rows cols (decide (n = 8)) (y, x)).map (at_ cols (s.fa "out")))) := by
  let s1 : State F := { s with fenv := setS s.fenv "val" (at_ cols D (y, x)) }
  have hg := exec_gather fuel rows cols n y x hn hy hx s1 g.run hyv hxv g.rv g.cv g.nv g.dshp g.oshp g.sshp g.ashp
    g.slen g.alen
  have hl := gridNbrs_length rows cols n hn (y, x)
  let s2 : State F :=
    { s1 with
      fa := setS (setS s1.fa "src_window" ((gridNbrs rows cols (decide (n = 8)) (y, x)).map (at_ cols (s1.fa "data"))))
              "area_window" ((gridNbrs rows cols (decide (n = 8)) (y, x)).map (at_ cols (s1.fa "out"))) }
  have hsw2 : s2.fa "src_window" = (gridNbrs rows cols (decide (n = 8)) (y, x)).map (at_ cols D) := by
    simp only [s2, s1]
    rw [setS_other _ _ _ _ (by decide), setS_same, g.dat]
  obtain ⟨ie', hie, hm⟩ := exec_matchThen fuel "elem1$k" "where2$n" "where2$k" (by decide) assign1 n s2 g.run g.sshp
    (by rw [hsw2]; simp [hl])
  refine ⟨ie', hie, ?_⟩
  unfold cell1
  rw [exec_seq, exec_setVal fuel rows cols y x hy hx s hyv hxv g.dshp, g.dat, if_pos (by exact g.run), exec_seq,
    exec_ite]
  simp only [BE.ok, FE.ok, BE.eval, FE.eval, setS_same, hnan, if_true, Bool.false_eq_true, if_false, exec_skip]
  rw [if_pos (by exact g.run), exec_seq]
  rw [show ({ s with fenv := setS s.fenv "val" (at_ cols D (y, x)) } : State F) = s1 from rfl, hg,
    if_pos (by exact g.run)]
  rw [show ({ s1 with
      fa := setS (setS s1.fa "src_window" ((gridNbrs rows cols (decide (n = 8)) (y, x)).map (at_ cols (s1.fa "data"))))
              "area_window" ((gridNbrs rows cols (decide (n = 8)) (y, x)).map (at_ cols (s1.fa "out"))) } : State F)
      = s2 from rfl, hm, hsw2]
  have hv : s2.fenv "val" = at_ cols D (y, x) := by simp only [s2, s1, setS_same]
  rw [hv]
  have hd : s1.fa "data" = D := g.dat
  simp only [afterMatch, s2, hd, List.length_map, hl]
  rfl

/-- a second-pass step at a NaN cell: the windows are gathered, then `continue` -/
theorem cell2_nan (fuel rows cols n : Nat) (hn : n = 4 ∨ n = 8) (D : List F) (y x : Nat) (hy : y < rows)
    (hx : x < cols) (s : State F) (g : Geo rows cols n D s) (hyv : s.ienv "y" = (y : Int))
    (hxv : s.ienv "x" = (x : Int)) (hnan : Fl.isnan (at_ cols D (y, x)) = true) :
    afterBody (exec fuel cell2 s) =
      { s with
        fenv := setS s.fenv "val" (at_ cols D (y, x)),
        fa := setS (setS s.fa "src_window" ((gridNbrs rows cols (decide (n = 8)) (y, x)).map (at_ cols D)))
                "area_window" ((gridNbrs rows cols (decide (n = 8)) (y, x)).map (at_ cols (s.fa "out"))) } := by
  have hg := exec_gather fuel rows cols n y x hn hy hx s g.run hyv hxv g.rv g.cv g.nv g.dshp g.oshp g.sshp g.ashp
    g.slen g.alen
  unfold cell2
  rw [exec_seq, hg, if_pos (by exact g.run), exec_seq,
    exec_setVal fuel rows cols y x hy hx _ (by exact hyv) (by exact hxv) (by exact g.dshp), if_pos (by exact g.run),
    exec_seq, exec_ite]
  have hd : setS (setS s.fa "src_window" ((gridNbrs rows cols (decide (n = 8)) (y, x)).map (at_ cols (s.fa "data"))))
      "area_window" ((gridNbrs rows cols (decide (n = 8)) (y, x)).map (at_ cols (s.fa "out"))) "data" = D := by
    rw [setS_other _ _ _ _ (by decide), setS_other _ _ _ _ (by decide)]; exact g.dat
  simp only [BE.ok, FE.ok, BE.eval, FE.eval, setS_same, hd, hnan, if_true, exec_cont]
  simp only [afterBody, if_neg (show ¬ (Ctl.cont = Ctl.run) by decide), g.dat]
  simp only [g.run]

/-- a second-pass step at a non-NaN cell, up to the merge loop -/
theorem cell2_front (fuel rows cols n : Nat) (hn : n = 4 ∨ n = 8) (D : List F) (y x : Nat) (hy : y < rows)
    (hx : x < cols) (s : State F) (g : Geo rows cols n D s) (hyv : s.ienv "y" = (y : Int))
    (hxv : s.ienv "x" = (x : Int)) (hnan : Fl.isnan (at_ cols D (y, x)) = false) :
    ∃ ie' : String → Int, (∀ v, v ≠ "elem3$k" → v ≠ "where4$n" → v ≠ "where4$k" → ie' v = s.ienv v) ∧
      exec fuel cell2 s = exec fuel merge
        (afterMatch s ie' (at_ cols D (y, x))
          ((gridNbrs rows cols (decide (n = 8)) (y, x)).map (at_ cols D))
          ((gridNbrs rows cols (decide (n = 8)) (y, x)).map (at_ cols (s.fa "out")))) := by
  have hg := exec_gather fuel rows cols n y x hn hy hx s g.run hyv hxv g.rv g.cv g.nv g.dshp g.oshp g.sshp g.ashp
    g.slen g.alen
  have hl := gridNbrs_length rows cols n hn (y, x)
  let s2 : State F :=
    { s with
      fenv := setS s.fenv "val" (at_ cols D (y, x)),
      fa := setS (setS s.fa "src_window" ((gridNbrs rows cols (decide (n = 8)) (y, x)).map (at_ cols (s.fa "data"))))
              "area_window" ((gridNbrs rows cols (decide (n = 8)) (y, x)).map (at_ cols (s.fa "out"))) }
  have hsw2 : s2.fa "src_window" = (gridNbrs rows cols (decide (n = 8)) (y, x)).map (at_ cols D) := by
    simp only [s2]
    rw [setS_other _ _ _ _ (by decide), setS_same, g.dat]
  obtain ⟨ie', hie, hm⟩ := exec_matchThen fuel "elem3$k" "where4$n" "where4$k" (by decide) merge n s2 g.run g.sshp
    (by rw [hsw2]; simp [hl])
  refine ⟨ie', hie, ?_⟩
  unfold cell2
  rw [exec_seq, hg, if_pos (by exact g.run), exec_seq,
    exec_setVal fuel rows cols y x hy hx _ (by exact hyv) (by exact hxv) (by exact g.dshp), if_pos (by exact g.run),
    exec_seq, exec_ite]
  have hd : setS (setS s.fa "src_window" ((gridNbrs rows cols (decide (n = 8)) (y, x)).map (at_ cols (s.fa "data"))))
      "area_window" ((gridNbrs rows cols (decide (n = 8)) (y, x)).map (at_ cols (s.fa "out"))) "data" = D := by
    rw [setS_other _ _ _ _ (by decide), setS_other _ _ _ _ (by decide)]; exact g.dat
  simp only [BE.ok, FE.ok, BE.eval, FE.eval, setS_same, hd, hnan, if_true, Bool.false_eq_true, if_false, exec_skip]
  rw [if_pos (by exact g.run)]
  rw [show ({ s with
      fenv := setS s.fenv "val" (at_ cols D (y, x)),
      fa := setS (setS s.fa "src_window" ((gridNbrs rows cols (decide (n = 8)) (y, x)).map (at_ cols (s.fa "data"))))
              "area_window" ((gridNbrs rows cols (decide (n = 8)) (y, x)).map (at_ cols (s.fa "out"))) } : State F)
      = s2 from rfl, hm, hsw2]
  have hv : s2.fenv "val" = at_ cols D (y, x) := by simp only [s2, setS_same]
  rw [hv]
  simp only [afterMatch, s2, g.dat, List.length_map, hl]

end XrsVerif.IL.Rg
