import XrsVerif.Proofs.PolygonizeLosslessFollow
/-
  C15, losslessness: the even-odd test on the (vertex-compressed) ring equals the count of unit edges.

  `crossings (cycRing c) i j`  -- vertical ring edges strictly right of the centre of pixel (i, j) spanning its
  height, the test used by `inRing` / `inPolygon` / `losslessB` --  equals the number of N-headed states of
  the cycle `c` in row `j` at or right of `i` plus the number of S-headed states in row `j` right of `i`
  (`crossings_cycRing`).  A ring vertex is recorded only when the heading changes; a compressed vertical
  edge spans the height of row `j` iff exactly one of its unit edges does (`hit_add`).
  Core Lean only.
-/
set_option linter.unusedVariables false
namespace XrsVerif.Polygonize

theorem ite_toNat (b : Bool) [inst : Decidable (b = true)] : (@ite Nat (b = true) inst 1 0) = b.toNat := by
  cases b <;> simp

/-- the edge `p → q` is vertical, strictly right of the centre of pixel `(i, j)` and spans its height -/
def hit (i j : Int) (p q : Int × Int) : Bool :=
  p.1 == q.1 && decide (2 * i + 1 < 2 * p.1) && decide (2 * p.2 < 2 * j + 1 ∨ 2 * q.2 < 2 * j + 1)
    && decide (2 * j + 1 < 2 * p.2 ∨ 2 * j + 1 < 2 * q.2)

/-- crossings of the polyline `p :: l` -/
def pc (i j : Int) : Int × Int → List (Int × Int) → Nat
  | _, [] => 0
  | p, q :: l => (hit i j p q).toNat + pc i j q l

theorem crossings_eq_pc (i j : Int) (p : Int × Int) (l : List (Int × Int)) :
    crossings (p :: l) i j = pc i j p l := by
  induction l generalizing p with
  | nil => simp [crossings, edgesOf, pc]
  | cons q l ih =>
    have := ih q
    simp only [crossings, edgesOf, List.tail_cons, List.zip_cons_cons, List.countP_cons, pc, ite_toNat] at this ⊢
    rw [this, Nat.add_comm]
    congr 2
    simp only [hit]
    congr 1
    · congr 1
      rw [decide_eq_decide]; omega
    · rw [decide_eq_decide]; omega

/-- `B` lies ahead of `A` (or on it) in direction `d` -/
def Beh (d : Dir) (A B : Int × Int) : Prop :=
  match d with
  | .E => A.2 = B.2 ∧ A.1 ≤ B.1
  | .W => A.2 = B.2 ∧ B.1 ≤ A.1
  | .N => A.1 = B.1 ∧ A.2 ≤ B.2
  | .S => A.1 = B.1 ∧ B.2 ≤ A.2

theorem toNat_of_or {b1 b2 b3 : Bool} (h : b1 = true ↔ (b2 = true ∨ b3 = true)) (hd : ¬(b2 = true ∧ b3 = true)) :
    b1.toNat = b2.toNat + b3.toNat := by
  cases b1 <;> cases b2 <;> cases b3 <;> simp at *

/-- extending a straight segment by one unit edge adds that unit edge's crossing -/
theorem hit_add' (i j : Int) (d : Dir) (A B C : Int × Int) (h : Beh d A B)
    (h1 : C.1 = B.1 + d.dx) (h2 : C.2 = B.2 + d.dy) :
    (hit i j A C).toNat = (hit i j A B).toNat + (hit i j B C).toNat := by
  obtain ⟨a1, a2⟩ := A
  obtain ⟨b1, b2⟩ := B
  obtain ⟨c1, c2⟩ := C
  apply toNat_of_or <;> cases d <;> simp only [Beh, Dir.dx, Dir.dy] at h h1 h2 <;>
    simp only [hit, Bool.and_eq_true, decide_eq_true_eq, beq_iff_eq] <;> omega

theorem hit_add (i j : Int) (d : Dir) (A B : Int × Int) (h : Beh d A B) :
    (hit i j A (B.1 + d.dx, B.2 + d.dy)).toNat =
      (hit i j A B).toNat + (hit i j B (B.1 + d.dx, B.2 + d.dy)).toNat :=
  hit_add' i j d A B _ h rfl rfl

theorem beh_next (d : Dir) (A B : Int × Int) (h : Beh d A B) : Beh d A (B.1 + d.dx, B.2 + d.dy) := by
  cases d <;> simp only [Beh, Dir.dx, Dir.dy] at h ⊢ <;> omega

theorem beh_self (d : Dir) (B : Int × Int) : Beh d B B := by
  cases d <;> simp [Beh]

/-- the recorded vertices in forward order -/
def fwdPts : Option Dir → List FSt → List (Int × Int)
  | _, [] => []
  | prev, s :: l => if prev ≠ some s.d then s.corner :: fwdPts (some s.d) l else fwdPts (some s.d) l

theorem recPts_eq (prev : Option Dir) (l : List FSt) (acc : List (Int × Int)) :
    recPts prev l acc = (fwdPts prev l).reverse ++ acc := by
  induction l generalizing prev acc with
  | nil => simp [recPts, fwdPts]
  | cons s l ih =>
    simp only [recPts, fwdPts]
    split
    · rw [ih]; simp
    · rw [ih]

/-- the unit edge of a state crosses the ray -/
def unitHit (i j : Int) (s : FSt) : Bool := hit i j s.corner (s.corner.1 + s.d.dx, s.corner.2 + s.d.dy)

/-- the polyline from `A` through the vertices recorded along `s, step s, …` to the final corner -/
theorem pc_orbit (R : Int → Int → Bool) (i j : Int) : ∀ (k : Nat) (s : FSt) (d' : Dir) (A : Int × Int),
    Beh d' A s.corner →
    pc i j A (fwdPts (some d') (orbitL (step R) k s) ++ [(iterS (step R) k s).corner]) =
      (hit i j A s.corner).toNat + (orbitL (step R) k s).countP (unitHit i j) := by
  intro k
  induction k with
  | zero => intro s d' A _; simp [orbitL, fwdPts, iterS, pc]
  | succ k ih =>
    intro s d' A hb
    simp only [orbitL, fwdPts, iterS, List.countP_cons, ite_toNat]
    have hc := corner_step R s
    split
    · rename_i hne
      rw [List.cons_append, pc, ih (step R s) s.d s.corner (by rw [hc]; exact beh_next _ _ _ (beh_self _ _))]
      simp only [unitHit, hc]
      omega
    · rename_i heq
      have hd : d' = s.d := by
        have : some d' = some s.d := by simpa using heq
        exact Option.some.inj this
      subst hd
      rw [ih (step R s) s.d A (by rw [hc]; exact beh_next _ _ _ hb)]
      have := hit_add i j s.d A s.corner hb
      simp only [unitHit, hc] at this ⊢
      omega

theorem unitHit_split (i j : Int) (L : List FSt) : L.countP (unitHit i j) = cN L i j + cS L i j := by
  unfold cN cS
  induction L with
  | nil => simp
  | cons s L ih =>
    simp only [List.countP_cons, ih, ite_toNat]
    have : (unitHit i j s).toNat =
        (s.d == Dir.N && s.y == j && decide (i ≤ s.x)).toNat +
        (s.d == Dir.S && s.y == j && decide (i < s.x)).toNat := by
      obtain ⟨x, y, d⟩ := s
      simp only [← ite_toNat]
      cases d <;> simp [unitHit, hit, FSt.corner, Dir.dx, Dir.dy] <;> grind
    omega

/-- **even-odd test on the compressed ring = count of unit edges of the cycle** -/
theorem crossings_cycRing (R : Int → Int → Bool) (i j : Int) (m : Nat) (start : FSt) (hm : 1 ≤ m)
    (hit' : iterS (step R) m start = start) :
    crossings (cycRing (orbitL (step R) m start)) i j =
      cN (orbitL (step R) m start) i j + cS (orbitL (step R) m start) i j := by
  obtain ⟨k, rfl⟩ : ∃ k, m = k + 1 := ⟨m - 1, by omega⟩
  rw [← unitHit_split]
  simp only [cycRing, recPts_eq, List.append_nil, List.reverse_reverse]
  simp only [orbitL, fwdPts, ne_eq, reduceCtorEq, not_false_eq_true, if_true, List.cons_append,
    List.take_succ_cons, List.take_zero, List.countP_cons, ite_toNat]
  rw [crossings_eq_pc]
  have := pc_orbit R i j k (step R start) start.d start.corner
    (by rw [corner_step]; exact beh_next _ _ _ (beh_self _ _))
  have e : iterS (step R) k (step R start) = start := hit'
  rw [e] at this
  rw [this]
  simp only [unitHit, corner_step]
  omega

end XrsVerif.Polygonize
