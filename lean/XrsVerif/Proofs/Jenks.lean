import XrsVerif.Model.Jenks
import XrsVerif.Proofs.Bin
import Mathlib.Tactic.Ring
import Mathlib.Tactic.Linarith
import Mathlib.Tactic.FieldSimp
import Mathlib.Tactic.Positivity
import Mathlib.Algebra.Order.Field.Basic
/-! Helper lemmas for the Jenks part of C12 -/
set_option linter.unusedVariables false
set_option linter.unusedSimpArgs false
namespace XrsVerif.Jenks

theorem S_add (x : Nat → Rat) (i a b : Nat) : S x i (a + b) = S x i a + S x (i + a) b := by
  induction b with
  | zero => simp [S]
  | succ b ih => rw [← Nat.add_assoc]; simp only [S, ih, Nat.add_assoc]; ring

theorem Q_add (x : Nat → Rat) (i a b : Nat) : Q x i (a + b) = Q x i a + Q x (i + a) b := by
  induction b with
  | zero => simp [Q]
  | succ b ih => rw [← Nat.add_assoc]; simp only [Q, ih, Nat.add_assoc]; ring

theorem ssd_single (x : Nat → Rat) (i : Nat) : ssd x i (i + 1) = 0 := by
  unfold ssd
  have : i + 1 - i = 1 := by omega
  rw [this]; simp [S, Q]

/-- splitting a class never increases the sum of squared deviations -/
theorem ssd_split (x : Nat → Rat) (i m l : Nat) (h1 : i < m) (h2 : m < l) :
    ssd x i m + ssd x m l ≤ ssd x i l := by
  obtain ⟨a, rfl⟩ : ∃ a, m = i + a := ⟨m - i, by omega⟩
  obtain ⟨b, rfl⟩ : ∃ b, l = i + a + b := ⟨l - (i + a), by omega⟩
  have ha : 0 < a := by omega
  have hb : 0 < b := by omega
  unfold ssd
  rw [show i + a - i = a by omega, show i + a + b - (i + a) = b by omega, show i + a + b - i = a + b by omega]
  rw [S_add, Q_add]
  generalize S x i a = sA
  generalize S x (i + a) b = sB
  generalize Q x i a = qA
  generalize Q x (i + a) b = qB
  have haq : (0 : Rat) < (a : Rat) := by exact_mod_cast ha
  have hbq : (0 : Rat) < (b : Rat) := by exact_mod_cast hb
  push_cast
  have key : (sA + sB) * (sA + sB) / ((a : Rat) + b) ≤ sA * sA / a + sB * sB / b := by
    rw [div_add_div _ _ (ne_of_gt haq) (ne_of_gt hbq), div_le_div_iff₀ (by positivity) (by positivity)]
    nlinarith [sq_nonneg ((b : Rat) * sA - a * sB), mul_pos haq hbq, mul_pos (mul_pos haq hbq) (add_pos haq hbq),
      mul_nonneg (mul_nonneg haq.le hbq.le) (sq_nonneg ((b : Rat) * sA - a * sB))]
  linarith

theorem foldl_step_some (cs : List (Rat × Nat)) (c0 : Rat × Nat) :
    ∃ c, cs.foldl step (some c0) = some c ∧ (c = c0 ∨ c ∈ cs) ∧ c.1 ≤ c0.1 ∧ ∀ c' ∈ cs, c.1 ≤ c'.1 := by
  induction cs generalizing c0 with
  | nil => exact ⟨c0, rfl, Or.inl rfl, le_refl _, by simp⟩
  | cons a as ih =>
    simp only [List.foldl_cons]
    have hstep : step (some c0) a = some (if c0.1 ≥ a.1 then a else c0) := by
      obtain ⟨v, b⟩ := c0
      simp only [step]; split <;> rfl
    rw [hstep]
    obtain ⟨c, h1, h2, h3, h4⟩ := ih (if c0.1 ≥ a.1 then a else c0)
    refine ⟨c, h1, ?_, ?_, ?_⟩
    · rcases h2 with h2 | h2
      · split at h2
        · right; rw [h2]; simp
        · left; exact h2
      · right; simp [h2]
    · split at h3
      · rename_i hge; exact le_trans h3 hge
      · exact h3
    · intro c' hc'
      rcases List.mem_cons.mp hc' with rfl | hc'
      · split at h3
        · exact h3
        · rename_i hge; exact le_of_lt (lt_of_le_of_lt h3 (not_le.mp hge))
      · exact h4 c' hc'

/-- the fold over the candidates returns one of them, of minimal cost -/
theorem foldl_step_none (cs : List (Rat × Nat)) (hne : cs ≠ []) :
    ∃ c, cs.foldl step none = some c ∧ c ∈ cs ∧ ∀ c' ∈ cs, c.1 ≤ c'.1 := by
  cases cs with
  | nil => exact absurd rfl hne
  | cons a as =>
    simp only [List.foldl_cons, step]
    obtain ⟨c, h1, h2, h3, h4⟩ := foldl_step_some as a
    refine ⟨c, h1, ?_, ?_⟩
    · rcases h2 with h2 | h2 <;> simp [h2]
    · intro c' hc'
      rcases List.mem_cons.mp hc' with rfl | hc'
      · exact h3
      · exact h4 c' hc'
/-- one DP cell: for `l >= 2` the fold returns the minimum over the last break `i4 in [1, l-1]` and the
    recorded lower class limit realises it -/
theorem cellVL_spec (x : Nat → Rat) (vprev : Nat → Rat) (l : Nat) (hl : 2 ≤ l) :
    (∀ i, 1 ≤ i → i < l → (cellVL x vprev l).1 ≤ ssd x i l + vprev i) ∧
    (2 ≤ (cellVL x vprev l).2 ∧ (cellVL x vprev l).2 ≤ l ∧
      (cellVL x vprev l).1 = ssd x ((cellVL x vprev l).2 - 1) l + vprev ((cellVL x vprev l).2 - 1)) := by
  have hne : cands x vprev l ≠ [] := by
    unfold cands
    intro h
    have := congrArg List.length h
    simp at this; omega
  obtain ⟨c, h1, h2, h3⟩ := foldl_step_none (cands x vprev l) hne
  have hc : cellVL x vprev l = c := by unfold cellVL; rw [h1]; rfl
  rw [hc]
  constructor
  · intro i hi1 hil
    have hm : (ssd x i l + vprev i, i + 1) ∈ cands x vprev l := by
      unfold cands
      rw [List.mem_map]
      refine ⟨l - 1 - i, by simp; omega, ?_⟩
      have : l - 1 - (l - 1 - i) = i := by omega
      simp only [this]
    exact h3 _ hm
  · unfold cands at h2
    rw [List.mem_map] at h2
    obtain ⟨m, hm, rfl⟩ := h2
    simp only [List.mem_range] at hm
    refine ⟨by simp; omega, by simp; omega, ?_⟩
    simp

theorem col_length (x : Nat → Rat) (n j : Nat) : (col x n j).length = n + 1 := by
  cases j <;> simp [col, firstCol, nextCol]

theorem V_one (x : Nat → Rat) (n l : Nat) (h2 : 2 ≤ l) (hl : l ≤ n) : V x n 1 l = ssd x 0 l := by
  unfold V col firstCol
  have h0 : ¬ l = 0 := by omega
  have h1 : ¬ l = 1 := by omega
  simp [List.getD_eq_getElem?_getD, List.getElem?_map, List.getElem?_range (show l < n + 1 by omega), h0, h1]

theorem V_at_one (x : Nat → Rat) (n j : Nat) (hn : 1 ≤ n) : V x n (j + 1) 1 = 0 := by
  unfold V
  cases j <;> simp [col, firstCol, nextCol, List.getD_eq_getElem?_getD, List.getElem?_map,
    List.getElem?_range (show 1 < n + 1 by omega)]

theorem VL_succ (x : Nat → Rat) (n j l : Nat) (h2 : 2 ≤ l) (hl : l ≤ n) :
    V x n (j + 2) l = (cellVL x (V x n (j + 1)) l).1 ∧ L x n (j + 2) l = (cellVL x (V x n (j + 1)) l).2 := by
  have h0 : ¬ l = 0 := by omega
  have h1 : ¬ l = 1 := by omega
  have hV : (fun i => ((col x n j).getD i (0, 0)).1) = V x n (j + 1) := by
    funext i; unfold V; simp
  unfold V L
  simp only [show j + 2 - 1 = j + 1 by omega, col, nextCol]
  simp [List.getD_eq_getElem?_getD, List.getElem?_map, List.getElem?_range (show l < n + 1 by omega), h0, h1, hV]
/-- the recurrence of the dynamic programme -/
theorem recurrence (x : Nat → Rat) (n j l : Nat) (h2 : 2 ≤ l) (hl : l ≤ n) :
    (∀ i, 1 ≤ i → i < l → V x n (j + 2) l ≤ ssd x i l + V x n (j + 1) i) ∧
    2 ≤ L x n (j + 2) l ∧ L x n (j + 2) l ≤ l ∧
    V x n (j + 2) l = ssd x (L x n (j + 2) l - 1) l + V x n (j + 1) (L x n (j + 2) l - 1) := by
  obtain ⟨hV, hL⟩ := VL_succ x n j l h2 hl
  rw [hV, hL]
  obtain ⟨a, b, c, d⟩ := cellVL_spec x (V x n (j + 1)) l h2
  exact ⟨a, b, c, d⟩

/-- a partition of the first `l` elements into non-empty contiguous classes, given by the class sizes,
    last class first -/
def IsPartition (l : Nat) (sizes : List Nat) : Prop := (∀ s ∈ sizes, 1 ≤ s) ∧ sizes.sum = l

theorem V_single (x : Nat → Rat) (n j l : Nat) (h1 : 1 ≤ l) (hl : l ≤ n) :
    V x n 1 l = ssd x 0 l := by
  by_cases h : l = 1
  · subst h; rw [V_at_one x n 0 hl]; exact (ssd_single x 0).symm
  · exact V_one x n l (by omega) hl

/-- lower bound: no partition into at most `j` classes costs less than the table entry -/
theorem lower (x : Nat → Rat) (n : Nat) (j : Nat) :
    ∀ l, 1 ≤ l → l ≤ n → ∀ sizes, IsPartition l sizes → 1 ≤ sizes.length → sizes.length ≤ j + 1 →
      V x n (j + 1) l ≤ cost x l sizes := by
  induction j with
  | zero =>
    intro l h1 hl sizes hp hlen1 hlen
    match sizes, hp, hlen1, hlen with
    | [s], hp, _, _ =>
      have : s = l := by simpa [IsPartition] using hp.2
      subst this
      simp only [cost, Nat.sub_self, add_zero]
      exact le_of_eq (V_single x n 0 s h1 hl)
  | succ j ih =>
    intro l h1 hl sizes hp hlen1 hlen
    match sizes, hp, hlen1, hlen with
    | [s], hp, _, _ =>
      have : s = l := by simpa [IsPartition] using hp.2
      subst this
      simp only [cost, Nat.sub_self, add_zero]
      by_cases h : s = 1
      · subst h; rw [V_at_one x n (j + 1) hl]; exact le_of_eq (ssd_single x 0).symm
      · have hs2 : 2 ≤ s := by omega
        have hr := (recurrence x n j s hs2 hl).1 (s - 1) (by omega) (by omega)
        have h0 : ssd x (s - 1) s = 0 := by
          have := ssd_single x (s - 1); rwa [show s - 1 + 1 = s by omega] at this
        have hi := ih (s - 1) (by omega) (by omega) [s - 1] ⟨by simp; omega, by simp⟩ (by simp) (by simp)
        simp only [cost, Nat.sub_self, add_zero] at hi
        have hsp := ssd_split x 0 (s - 1) s (by omega) (by omega)
        linarith
    | s :: t :: rest, hp, _, hlen =>
      have hs1 : 1 ≤ s := hp.1 s (by simp)
      have ht1 : 1 ≤ t := hp.1 t (by simp)
      have hsum : s + (t + rest.sum) = l := by simpa [IsPartition] using hp.2
      have hr := (recurrence x n j l (by omega) hl).1 (l - s) (by omega) (by omega)
      have hi := ih (l - s) (by omega) (by omega) (t :: rest)
        ⟨fun s' hs' => hp.1 s' (by simp [hs']), by simp; omega⟩ (by simp) (by simp at hlen ⊢; omega)
      simp only [cost] at hi ⊢
      linarith

/-- the walk back through `lower_class_limits` yields a partition into at most `j+1` classes whose cost
    is the table entry -/
theorem attained (x : Nat → Rat) (n : Nat) (j : Nat) :
    ∀ l, 1 ≤ l → l ≤ n →
      IsPartition l (back x n j l) ∧ 1 ≤ (back x n j l).length ∧ (back x n j l).length ≤ j + 1 ∧
      cost x l (back x n j l) = V x n (j + 1) l := by
  induction j with
  | zero =>
    intro l h1 hl
    refine ⟨⟨by simp [back]; omega, by simp [back]⟩, by simp [back], by simp [back], ?_⟩
    simp only [back, cost, Nat.sub_self, add_zero]
    exact (V_single x n 0 l h1 hl).symm
  | succ j ih =>
    intro l h1 hl
    by_cases h : l ≤ 1
    · have : l = 1 := by omega
      subst this
      simp only [back, h, if_true]
      refine ⟨⟨by simp, by simp⟩, by simp, by simp, ?_⟩
      simp only [cost, Nat.sub_self, add_zero]
      rw [V_at_one x n (j + 1) hl]; exact ssd_single x 0
    · obtain ⟨_, hb2, hbl, hv⟩ := recurrence x n j l (by omega) hl
      simp only [back, h, if_false]
      generalize L x n (j + 2) l = b at *
      obtain ⟨⟨ip1, ip2⟩, il1, il2, ic⟩ := ih (b - 1) (by omega) (by omega)
      refine ⟨⟨?_, ?_⟩, by simp, by simp; omega, ?_⟩
      · intro s hs
        rcases List.mem_cons.mp hs with rfl | hs
        · omega
        · exact ip1 s hs
      · simp [ip2]; omega
      · simp only [cost]
        rw [show l - (l - (b - 1)) = b - 1 by omega, ic, hv]
/-- the break extraction of `_run_jenks` walks the same path as `back`: when the walk uses all `j+1`
    classes, the stored values are the largest element of each class -/
theorem kgo_eq (x : Nat → Rat) (n : Nat) (j : Nat) :
    ∀ l, 1 ≤ l → l ≤ n → (back x n j l).length = j + 1 → ∀ acc,
      kgo x n j l (x (l - 1) :: acc) = some (uppers x l (back x n j l) ++ acc) := by
  induction j with
  | zero =>
    intro l h1 hl _ acc
    simp [kgo, back, uppers]
  | succ j ih =>
    intro l h1 hl hfull acc
    by_cases h : l ≤ 1
    · simp [back, h] at hfull
    · obtain ⟨_, hb2, hbl, _⟩ := recurrence x n j l (by omega) hl
      simp only [back, h, if_false, List.length_cons] at hfull
      simp only [kgo, back, h, if_false, uppers]
      generalize L x n (j + 2) l = b at *
      have hb : ¬ b < 2 := by omega
      simp only [hb, if_false]
      have := ih (b - 1) (by omega) (by omega) (by omega) (x (l - 1) :: acc)
      rw [show b - 1 - 1 = b - 2 by omega] at this
      rw [this, show l - (l - (b - 1)) = b - 1 by omega]
      simp

theorem kclass_eq (xs : List Rat) (k : Nat) (hn : 1 ≤ xs.length) (hk : 1 ≤ k)
    (hfull : (back (fun i => xs.getD i 0) xs.length (k - 1) xs.length).length = k) :
    kclass xs k = some ((fun i => xs.getD i 0) 0 ::
      uppers (fun i => xs.getD i 0) xs.length (back (fun i => xs.getD i 0) xs.length (k - 1) xs.length)) := by
  unfold kclass
  have h0 : ¬ (xs.length = 0 ∨ k = 0) := by omega
  simp only [h0, if_false]
  have := kgo_eq (fun i => xs.getD i 0) xs.length (k - 1) xs.length hn (le_refl _) (by omega) []
  simp only [List.append_nil] at this
  rw [this]; rfl

/-- for ascending data the class maxima ascend and none exceeds the last element -/
theorem uppers_sorted (x : Nat → Rat) (sizes : List Nat) :
    ∀ l, IsPartition l sizes → (∀ i j, i ≤ j → j < l → x i ≤ x j) →
      (uppers x l sizes).Pairwise (· ≤ ·) ∧ ∀ u ∈ uppers x l sizes, u ≤ x (l - 1) := by
  induction sizes with
  | nil => intro l _ _; simp [uppers]
  | cons s rest ih =>
    intro l hp hx
    have hs1 : 1 ≤ s := hp.1 s (by simp)
    have hsum : s + rest.sum = l := by simpa [IsPartition] using hp.2
    obtain ⟨ih1, ih2⟩ := ih (l - s) ⟨fun s' hs' => hp.1 s' (by simp [hs']), by omega⟩
      (fun i j hij hj => hx i j hij (by omega))
    simp only [uppers]
    by_cases hr : rest = []
    · subst hr; simp [uppers]
    · have hrs : 1 ≤ rest.sum := by
        obtain ⟨t, ht⟩ := List.exists_mem_of_ne_nil rest hr
        have := hp.1 t (by simp [ht])
        have := List.single_le_sum (fun _ _ => Nat.zero_le _) t ht
        omega
      constructor
      · rw [List.pairwise_append]
        refine ⟨ih1, by simp, ?_⟩
        intro a ha b hb
        simp only [List.mem_singleton] at hb
        subst hb
        exact le_trans (ih2 a ha) (hx _ _ (by omega) (by omega))
      · intro u hu
        rcases List.mem_append.mp hu with hu | hu
        · exact le_trans (ih2 u hu) (hx _ _ (by omega) (by omega))
        · simp only [List.mem_singleton] at hu; subst hu; exact le_refl _

theorem uppers_length (x : Nat → Rat) (sizes : List Nat) : ∀ l, (uppers x l sizes).length = sizes.length := by
  induction sizes with
  | nil => intro l; simp [uppers]
  | cons s rest ih => intro l; simp [uppers, ih]

theorem insertS_sorted (a : Rat) (l : List Rat) (h : l.Pairwise (· ≤ ·)) : (insertS a l).Pairwise (· ≤ ·) ∧
    ∀ y, y ∈ insertS a l ↔ y = a ∨ y ∈ l := by
  induction l with
  | nil => simp [insertS]
  | cons b bs ih =>
    rw [List.pairwise_cons] at h
    obtain ⟨ih1, ih2⟩ := ih h.2
    unfold insertS
    split
    · rename_i hab
      refine ⟨?_, by simp⟩
      rw [List.pairwise_cons]
      refine ⟨?_, List.pairwise_cons.mpr h⟩
      intro y hy
      rcases List.mem_cons.mp hy with rfl | hy
      · exact hab
      · exact le_trans hab (h.1 y hy)
    · rename_i hab
      refine ⟨?_, ?_⟩
      · rw [List.pairwise_cons]
        refine ⟨?_, ih1⟩
        intro y hy
        rcases (ih2 y).mp hy with rfl | hy
        · exact le_of_lt (not_le.mp hab)
        · exact h.1 y hy
      · intro y; simp [ih2 y]; tauto

theorem sortQ_sorted (l : List Rat) : (sortQ l).Pairwise (· ≤ ·) ∧ ∀ y, y ∈ sortQ l ↔ y ∈ l := by
  induction l with
  | nil => simp [sortQ]
  | cons a as ih =>
    have := insertS_sorted a (sortQ as) ih.1
    refine ⟨this.1, ?_⟩
    intro y
    show y ∈ insertS a (sortQ as) ↔ _
    rw [this.2 y, ih.2 y]; simp
theorem getD_sorted (xs : List Rat) (hs : xs.Pairwise (· ≤ ·)) (i j : Nat) (hij : i ≤ j) (hj : j < xs.length) :
    xs.getD i 0 ≤ xs.getD j 0 := by
  have hi : i < xs.length := by omega
  simp only [List.getD_eq_getElem?_getD, List.getElem?_eq_getElem hi, List.getElem?_eq_getElem hj, Option.getD_some]
  rcases Nat.lt_or_eq_of_le hij with h | h
  · exact (List.pairwise_iff_getElem.mp hs) _ _ _ _ h
  · subst h; exact le_refl _

/-! ### every class is used when there are enough different values -/

/-- the data are ascending (what `data.sort()` establishes) -/
def Sorted (x : Nat → Rat) (n : Nat) : Prop := ∀ i j, i ≤ j → j < n → x i ≤ x j

/-- number of strict ascents `x p < x (p + 1)` among the first `l` elements (`p + 1 < l`) -/
def asc (x : Nat → Rat) : Nat → Nat
  | 0 => 0
  | l+1 => asc x l + (if 0 < l ∧ x (l - 1) < x l then 1 else 0)

theorem S_le (x : Nat → Rat) (i : Nat) (M : Rat) : ∀ c, (∀ t, t < c → x (i + t) ≤ M) → S x i c ≤ (c : Rat) * M := by
  intro c
  induction c with
  | zero => intro _; simp [S]
  | succ c ih =>
    intro h
    have h1 := ih (fun t ht => h t (by omega))
    have h2 := h c (by omega)
    simp only [S]; push_cast; linarith

theorem S_ge (x : Nat → Rat) (i : Nat) (m : Rat) : ∀ c, (∀ t, t < c → m ≤ x (i + t)) → (c : Rat) * m ≤ S x i c := by
  intro c
  induction c with
  | zero => intro _; simp [S]
  | succ c ih =>
    intro h
    have h1 := ih (fun t ht => h t (by omega))
    have h2 := h c (by omega)
    simp only [S]; push_cast; linarith

/-- splitting a class between two different means strictly decreases the sum of squared deviations -/
theorem ssd_split_strict (x : Nat → Rat) (i m l : Nat) (h1 : i < m) (h2 : m < l)
    (hlt : S x i (m - i) * ((l - m : Nat) : Rat) < S x m (l - m) * ((m - i : Nat) : Rat)) :
    ssd x i m + ssd x m l < ssd x i l := by
  obtain ⟨a, rfl⟩ : ∃ a, m = i + a := ⟨m - i, by omega⟩
  obtain ⟨b, rfl⟩ : ∃ b, l = i + a + b := ⟨l - (i + a), by omega⟩
  have ha : 0 < a := by omega
  have hb : 0 < b := by omega
  unfold ssd
  rw [show i + a - i = a by omega, show i + a + b - (i + a) = b by omega, show i + a + b - i = a + b by omega] at *
  rw [S_add, Q_add]
  generalize S x i a = sA at *
  generalize S x (i + a) b = sB at *
  generalize Q x i a = qA
  generalize Q x (i + a) b = qB
  have haq : (0 : Rat) < (a : Rat) := by exact_mod_cast ha
  have hbq : (0 : Rat) < (b : Rat) := by exact_mod_cast hb
  push_cast
  have key : (sA + sB) * (sA + sB) / ((a : Rat) + b) < sA * sA / a + sB * sB / b := by
    rw [div_add_div _ _ (ne_of_gt haq) (ne_of_gt hbq), div_lt_div_iff₀ (by positivity) (by positivity)]
    have hd : 0 < sB * a - sA * b := sub_pos.mpr hlt
    nlinarith [mul_pos hd hd]
  linarith

/-- ... in particular between two different consecutive values of ascending data -/
theorem ssd_split_ascent (x : Nat → Rat) (n : Nat) (hs : Sorted x n) (i m l : Nat) (h1 : i < m) (h2 : m < l)
    (hl : l ≤ n) (hasc : x (m - 1) < x m) : ssd x i m + ssd x m l < ssd x i l := by
  apply ssd_split_strict x i m l h1 h2
  have hA := S_le x i (x (m - 1)) (m - i) (fun t ht => hs _ _ (by omega) (by omega))
  have hB := S_ge x m (x m) (l - m) (fun t ht => hs _ _ (by omega) (by omega))
  have ha : (0 : Rat) < ((m - i : Nat) : Rat) := by exact_mod_cast (by omega : 0 < m - i)
  have hb : (0 : Rat) < ((l - m : Nat) : Rat) := by exact_mod_cast (by omega : 0 < l - m)
  calc S x i (m - i) * ((l - m : Nat) : Rat) ≤ ((m - i : Nat) : Rat) * x (m - 1) * ((l - m : Nat) : Rat) :=
        mul_le_mul_of_nonneg_right hA hb.le
    _ < ((m - i : Nat) : Rat) * x m * ((l - m : Nat) : Rat) := by
        apply mul_lt_mul_of_pos_right _ hb
        exact mul_lt_mul_of_pos_left hasc ha
    _ = ((l - m : Nat) : Rat) * x m * ((m - i : Nat) : Rat) := by ring
    _ ≤ S x m (l - m) * ((m - i : Nat) : Rat) := mul_le_mul_of_nonneg_right hB ha.le

/-- without an ascent at or after position `m`, the first `m + d` elements have at most one ascent more than the
    first `m` (the one across the boundary, which needs `m ≥ 1`) -/
theorem asc_no_inner (x : Nat → Rat) (m : Nat) : ∀ d, (∀ p, m ≤ p → p + 1 < m + d → ¬ x p < x (p + 1)) →
    asc x (m + d) ≤ asc x m + (if 0 < m then 1 else 0) := by
  intro d
  induction d with
  | zero => intro _; simp
  | succ d ih =>
    intro h
    have h1 := ih (fun p hp hp' => h p hp (by omega))
    rw [show m + (d + 1) = (m + d) + 1 by omega]
    simp only [asc]
    by_cases hd : d = 0
    · subst hd
      simp only [Nat.add_zero] at *
      split <;> split <;> simp_all
    · have hno := h (m + d - 1) (by omega) (by omega)
      rw [show m + d - 1 + 1 = m + d by omega] at hno
      have : ¬ (0 < m + d ∧ x (m + d - 1) < x (m + d)) := fun hh => hno hh.2
      rw [if_neg this]; omega

/-- a partition of ascending data into fewer classes than there are ascents + 1 can be refined by one class
    with a strictly smaller within-class sum of squared deviations -/
theorem improve (x : Nat → Rat) (n : Nat) (hs : Sorted x n) :
    ∀ sizes l, l ≤ n → IsPartition l sizes → 1 ≤ sizes.length → sizes.length ≤ asc x l →
      ∃ sizes', IsPartition l sizes' ∧ sizes'.length = sizes.length + 1 ∧ cost x l sizes' < cost x l sizes := by
  intro sizes
  induction sizes with
  | nil => intro l _ _ h; simp at h
  | cons s rest ih =>
    intro l hl hp hlen hasc
    have hs1 : 1 ≤ s := hp.1 s (by simp)
    have hsum : s + rest.sum = l := by simpa [IsPartition] using hp.2
    by_cases hin : ∃ p, l - s ≤ p ∧ p + 1 < l ∧ x p < x (p + 1)
    · obtain ⟨p, hp1, hp2, hp3⟩ := hin
      refine ⟨(l - (p + 1)) :: (p + 1 - (l - s)) :: rest, ⟨?_, ?_⟩, by simp, ?_⟩
      · intro t ht
        simp only [List.mem_cons] at ht
        rcases ht with rfl | rfl | ht
        · omega
        · omega
        · exact hp.1 t (by simp [ht])
      · simp; omega
      · simp only [cost]
        rw [show l - (l - (p + 1)) = p + 1 by omega, show p + 1 - (p + 1 - (l - s)) = l - s by omega]
        have := ssd_split_ascent x n hs (l - s) (p + 1) l (by omega) (by omega) hl (by simpa using hp3)
        linarith
    · have hno : ∀ p, l - s ≤ p → p + 1 < l - s + s → ¬ x p < x (p + 1) := by
        intro p h1 h2 h3; exact hin ⟨p, h1, by omega, h3⟩
      have hb := asc_no_inner x (l - s) s hno
      rw [show l - s + s = l by omega] at hb
      cases rest with
      | nil =>
        have : l - s = 0 := by simp at hsum; omega
        rw [this] at hb
        simp [asc] at hb hasc
        omega
      | cons t rest' =>
        have hpr : IsPartition (l - s) (t :: rest') :=
          ⟨fun s' hs' => hp.1 s' (by simp [List.mem_cons] at hs' ⊢; tauto), by simp at hsum ⊢; omega⟩
        have hlen' : (t :: rest').length ≤ asc x (l - s) := by
          simp only [List.length_cons] at hasc ⊢
          split at hb <;> omega
        obtain ⟨r', hr1, hr2, hr3⟩ := ih (l - s) (by omega) hpr (by simp) hlen'
        refine ⟨s :: r', ⟨?_, ?_⟩, by simp [hr2], ?_⟩
        · intro u hu
          rcases List.mem_cons.mp hu with rfl | hu
          · exact hs1
          · exact hr1.1 u hu
        · simp [hr1.2]; omega
        · simp only [cost] at hr3 ⊢; linarith

/-- **all `k` classes are used** when the ascending data have at least `k - 1` strict ascents (= at least `k`
    different values): the back-tracked optimal partition cannot have fewer classes, because it could then be
    refined at an ascent inside a class, contradicting `lower` -/
theorem back_full (x : Nat → Rat) (n k : Nat) (hs : Sorted x n) (hn : 1 ≤ n) (hk : 1 ≤ k) (ha : k ≤ asc x n + 1) :
    (back x n (k - 1) n).length = k := by
  obtain ⟨h1, h2, h3, h4⟩ := attained x n (k - 1) n hn (le_refl _)
  by_contra hne
  have hlt : (back x n (k - 1) n).length ≤ asc x n := by omega
  obtain ⟨s', p1, p2, p3⟩ := improve x n hs _ n (le_refl _) h1 h2 hlt
  have := lower x n (k - 1) n hn (le_refl _) s' p1 (by omega) (by omega)
  rw [h4] at p3
  linarith

/-- the values of ascending data: at most one more than there are ascents -/
theorem values_le_asc (x : Nat → Rat) (n : Nat) (hs : Sorted x n) :
    ∀ l, l ≤ n → ∃ vals : List Rat, vals.length ≤ asc x l + 1 ∧ ∀ i, i < l → x i ∈ vals := by
  intro l
  induction l with
  | zero => intro _; exact ⟨[], by simp, by intro i hi; omega⟩
  | succ l ih =>
    intro hl
    obtain ⟨vals, hv1, hv2⟩ := ih (by omega)
    by_cases h0 : l = 0
    · subst h0
      refine ⟨[x 0], by simp [asc], ?_⟩
      intro i hi
      have : i = 0 := by omega
      subst this; simp
    · by_cases hlt : x (l - 1) < x l
      · refine ⟨x l :: vals, ?_, ?_⟩
        · simp only [asc, List.length_cons]
          rw [if_pos ⟨by omega, hlt⟩]; omega
        · intro i hi
          by_cases hil : i = l
          · subst hil; simp
          · exact List.mem_cons_of_mem _ (hv2 i (by omega))
      · refine ⟨vals, by simp only [asc]; omega, ?_⟩
        intro i hi
        by_cases hil : i = l
        · subst hil
          have h1 : x (i - 1) ≤ x i := hs _ _ (by omega) (by omega)
          have : x i = x (i - 1) := le_antisymm (not_lt.mp hlt) h1
          rw [this]; exact hv2 (i - 1) (by omega)
        · exact hv2 i (by omega)

open XrsVerif.Bin in
/-- at least `k` different sample values ⇒ the optimal partition of the sorted sample uses all `k` classes -/
theorem sample_full (sample : List Rat) (k : Nat) (hk : 1 ≤ k) (hku : k ≤ (uniq sample).length) :
    (back (fun i => (sortQ sample).getD i 0) (sortQ sample).length (k - 1) (sortQ sample).length).length = k := by
  obtain ⟨hss, hsm⟩ := sortQ_sorted sample
  generalize sortQ sample = xs at *
  have hsorted : Sorted (fun i => xs.getD i 0) xs.length := fun i j hij hj => getD_sorted xs hss i j hij hj
  obtain ⟨vals, hv1, hv2⟩ := values_le_asc _ _ hsorted xs.length (le_refl _)
  have hsub : uniq sample ⊆ vals := by
    intro a ha
    have : a ∈ xs := (hsm a).mpr ((mem_uniq a sample).mp ha)
    obtain ⟨i, hi, rfl⟩ := List.getElem_of_mem this
    have := hv2 i hi
    simpa [List.getD_eq_getElem?_getD, List.getElem?_eq_getElem hi] using this
  have hnd : (uniq sample).Nodup := (uniq_sorted sample).imp ne_of_lt
  have hlen := hnd.length_le_of_subset hsub
  have hn : 1 ≤ xs.length := by
    by_contra h
    have : xs = [] := List.eq_nil_of_length_eq_zero (by omega)
    subst this
    have : uniq sample = [] := by
      cases hu : uniq sample with
      | nil => rfl
      | cons a t =>
        have : a ∈ uniq sample := by rw [hu]; simp
        have := (hsm a).mpr ((mem_uniq a sample).mp this)
        simp at this
    rw [this] at hku; simp at hku; omega
  exact back_full _ _ k hsorted hn hk (by omega)
end XrsVerif.Jenks
