import XrsVerif.Proofs.ILangBin
import XrsVerif.Proofs.Bin
import XrsVerif.Gen.IL
/-
  Proofs/ILBin.lean -- refinement: the program `Gen.IL.cpuBin`, translated statement by statement from
  `classify._cpu_bin` of /repo's current source (harness/facts_il.py), computes the hand model `Bin.cellG`
  (Model/Bin.lean: first-bin test, last-bin test, `Bin.loop`, `getW`) in every cell -- for every number type
  `[Fl F]` (only `Fl.lt`, `Fl.le`, `Fl.isfinite`, `Fl.nan` are used), every raster shape (empty too), every
  `bins` of length >= 1 (NaN, unsorted, ±inf: whatever the comparisons answer) and `new_values` at least as
  long as `bins`.

  Structure: the program is cut into named blocks (`whileBody`, `whileS`, `searchBlock`, `findBin`, `storeCell`,
  `cellBody`, `xLoop`, `yLoop`, `prologue`); `body_eq : Gen.IL.cpuBin.body = ...` is closed by `rfl`, so any edit
  of the source that changes the translation breaks it.  One lemma per block, composed with the loop rules
  of Proofs/ILang.lean.
-/
set_option linter.unusedSectionVars false
set_option linter.unusedVariables false
set_option linter.unusedSimpArgs false
namespace XrsVerif.ILBin
open XrsVerif XrsVerif.IL
variable {F : Type} [Fl F]

/-! ### the blocks of the generated program -/

def whileBody : St :=
  (.seq (.ite (.cmpF .lt (.ld1 "bins" (.var "mid")) (.var "val"))
    (.setI "start" (.bin .add (.var "mid") (.lit 1)))
    (.ite (.cmpF .gt (.var "val") (.ld1 "bins" (.bin .sub (.var "mid") (.lit 1))))
      .brk
      (.setI "end" (.bin .sub (.var "mid") (.lit 1)))))
  (.setI "mid" (.bin .fdiv (.bin .add (.var "end") (.var "start")) (.lit 2))))

def whileS : St := .while (.cmpI .le (.var "start") (.var "end")) whileBody

def searchBlock : St :=
  (.seq (.setI "start" (.lit 0))
  (.seq (.setI "end" (.bin .sub (.var "nbins") (.lit 1)))
  (.seq (.setI "mid" (.bin .fdiv (.bin .add (.var "end") (.var "start")) (.lit 2)))
  (.seq whileS
  (.setI "val_bin" (.var "mid"))))))

def findBin : St :=
  (.ite (.isfinite (.var "val"))
    (.ite (.cmpF .le (.var "val") (.ld1 "bins" (.lit 0)))
      (.setI "val_bin" (.lit 0))
      (.ite (.cmpF .le (.var "val") (.ld1 "bins" (.bin .sub (.var "nbins") (.lit 1))))
        searchBlock
        .skip))
    .skip)

def storeCell : St :=
  (.ite (.cmpI .gt (.var "val_bin") (.lit (-1)))
    (.stF2 "out" (.var "y") (.var "x") (.ld1 "new_values" (.var "val_bin")))
    (.stF2 "out" (.var "y") (.var "x") .nan))

def cellBody : St :=
  (.seq (.setF "val" (.ld2 "data" (.var "y") (.var "x")))
  (.seq (.setI "val_bin" (.lit (-1)))
  (.seq findBin storeCell)))

def xLoop : St := .forRange "x" (.lit 0) (.var "cols") (.lit 1) cellBody
def yLoop : St := .forRange "y" (.lit 0) (.var "rows") (.lit 1) xLoop

def prologue (rest : St) : St :=
  (.seq (.allocF "out" [(.dim "data" 0), (.dim "data" 1)] (.lit 0 1))
  (.seq (.allocF "out" [(.dim "out" 0), (.dim "out" 1)] .nan)
  (.seq (.setI "rows" (.dim "data" 0))
  (.seq (.setI "cols" (.dim "data" 1))
  (.seq (.setI "nbins" (.dim "bins" 0))
  rest)))))

/-- the generated program is the composition of these blocks (the tie: this `rfl` is about the regenerated
    `Gen.IL.cpuBin`) -/
theorem body_eq : Gen.IL.cpuBin.body = prologue (.seq yLoop .ret) := rfl

/-! ### reads of `bins` / `new_values` -/

/-- a 1-D read that passed the bounds check is the model's wrapped read `getW` -/
theorem getD_off1_getW (l : List F) (nb : Nat) (hl : l.length = nb) (i : Int) (h : inRange i nb = true) (d : F) :
    l.getD (off1 [nb] i) d = Bin.getW d l i := by
  rw [inRange_iff] at h
  unfold off1 normIdx Bin.getW
  simp only [List.getD_cons_zero, hl]
  by_cases hi : i < 0
  · have : (0 : Int) ≤ i + nb := by omega
    simp [hi, this]
  · have : (0 : Int) ≤ i := by omega
    simp [hi, this]

theorem getElem?_off1_getW (l : List F) (nb : Nat) (hl : l.length = nb) (i : Int) (h : inRange i nb = true) (d : F) :
    l[off1 [nb] i]?.getD d = Bin.getW d l i := by
  rw [← List.getD_eq_getElem?_getD]; exact getD_off1_getW l nb hl i h d

theorem ld1_ok (s : State F) (a : String) (i : IE) (nb : Nat) (hs : s.shp a = [nb]) (hi : i.ok s = true)
    (hr : inRange (i.eval s) nb = true) : (FE.ld1 a i).ok s = true := by
  simp [FE.ok, hs, hi, hr]

theorem ld1_eval (s : State F) (a : String) (i : IE) (nb : Nat) (hs : s.shp a = [nb])
    (hl : (s.fa a).length = nb) (hr : inRange (i.eval s) nb = true) :
    (FE.ld1 a i).eval s = Bin.getW Fl.nan (s.fa a) (i.eval s) := by
  simp only [FE.eval, hs]
  exact getD_off1_getW _ nb hl _ hr _

/-! ### the `while` loop = `Bin.loop` -/

/-- `bins[i] < val` on the current state (wrapped read) -/
def below (s : State F) : Int → Bool := fun i => Fl.lt (Bin.getW Fl.nan (s.fa "bins") i) (s.fenv "val")
/-- `val <= bins[i]` -/
def atMost (s : State F) : Int → Bool := fun i => Fl.le (s.fenv "val") (Bin.getW Fl.nan (s.fa "bins") i)

/-- `r` differs from `s` at most in the integer variables `vars` (and in control) -/
structure SameButI (vars : List String) (s r : State F) : Prop where
  fenv : r.fenv = s.fenv
  benv : r.benv = s.benv
  ia : r.ia = s.ia
  fa : r.fa = s.fa
  shp : r.shp = s.shp
  ext : r.ext = s.ext
  ienv : ∀ v, v ∉ vars → r.ienv v = s.ienv v

theorem SameButI.trans {vars : List String} {a b c : State F} (h1 : SameButI vars a b) (h2 : SameButI vars b c) :
    SameButI vars a c :=
  ⟨h2.fenv.trans h1.fenv, h2.benv.trans h1.benv, h2.ia.trans h1.ia, h2.fa.trans h1.fa, h2.shp.trans h1.shp,
   h2.ext.trans h1.ext, fun v hv => (h2.ienv v hv).trans (h1.ienv v hv)⟩

theorem below_congr {s r : State F} (hfa : r.fa = s.fa) (hfe : r.fenv = s.fenv) : below r = below s := by
  unfold below; rw [hfa, hfe]

/-- the three ways through the loop body, for `start <= end` (so `0 <= mid < nbins`) -/
theorem whileBody_right (fuel : Nat) (s : State F) (nb : Nat) (hrun : s.ctl = .run) (hs : s.shp "bins" = [nb])
    (hl : (s.fa "bins").length = nb) (h0 : 0 ≤ s.ienv "mid") (h1 : s.ienv "mid" < nb)
    (hb : below s (s.ienv "mid") = true) :
    exec fuel whileBody s =
      { s with ienv := setS (setS s.ienv "start" (s.ienv "mid" + 1)) "mid"
                 ((s.ienv "end" + (s.ienv "mid" + 1)) / 2) } := by
  have hr : inRange (s.ienv "mid") nb = true := by rw [inRange_iff]; omega
  have hb' : Fl.lt ((s.fa "bins")[off1 [nb] (s.ienv "mid")]?.getD Fl.nan) (s.fenv "val") = true := by
    rw [getElem?_off1_getW _ nb hl _ hr]; exact hb
  simp [whileBody, exec, BE.ok, BE.eval, FE.ok, FE.eval, IE.ok, IE.eval, CmpOp.eval, IOp.eval, hs, hr, hrun,
    hb', setS, fdiv_two]

/-- `mid - 1` passes the bounds check even for `mid = 0`: numba (and `normIdx`) wrap `bins[-1]` to the last bin -/
theorem inRange_pred (m : Int) (nb : Nat) (h0 : 0 ≤ m) (h1 : m < nb) : inRange (m - 1) nb = true := by
  rw [inRange_iff]; omega

theorem whileBody_break (fuel : Nat) (s : State F) (nb : Nat) (hrun : s.ctl = .run) (hs : s.shp "bins" = [nb])
    (hl : (s.fa "bins").length = nb) (h0 : 0 ≤ s.ienv "mid") (h1 : s.ienv "mid" < nb)
    (hb : below s (s.ienv "mid") = false) (hc : below s (s.ienv "mid" - 1) = true) :
    exec fuel whileBody s = { s with ctl := .brk } := by
  have hr : inRange (s.ienv "mid") nb = true := by rw [inRange_iff]; omega
  have hr2 := inRange_pred _ nb h0 h1
  have hb' : Fl.lt ((s.fa "bins")[off1 [nb] (s.ienv "mid")]?.getD Fl.nan) (s.fenv "val") = false := by
    rw [getElem?_off1_getW _ nb hl _ hr]; exact hb
  have hc' : Fl.lt ((s.fa "bins")[off1 [nb] (s.ienv "mid" - 1)]?.getD Fl.nan) (s.fenv "val") = true := by
    rw [getElem?_off1_getW _ nb hl _ hr2]; exact hc
  simp [whileBody, exec, BE.ok, BE.eval, FE.ok, FE.eval, IE.ok, IE.eval, CmpOp.eval, IOp.eval, hs, hr, hr2, hrun,
    hb', hc', setS, fdiv_two]

theorem whileBody_left (fuel : Nat) (s : State F) (nb : Nat) (hrun : s.ctl = .run) (hs : s.shp "bins" = [nb])
    (hl : (s.fa "bins").length = nb) (h0 : 0 ≤ s.ienv "mid") (h1 : s.ienv "mid" < nb)
    (hb : below s (s.ienv "mid") = false) (hc : below s (s.ienv "mid" - 1) = false) :
    exec fuel whileBody s =
      { s with ienv := setS (setS s.ienv "end" (s.ienv "mid" - 1)) "mid"
                 ((s.ienv "mid" - 1 + s.ienv "start") / 2) } := by
  have hr : inRange (s.ienv "mid") nb = true := by rw [inRange_iff]; omega
  have hr2 := inRange_pred _ nb h0 h1
  have hb' : Fl.lt ((s.fa "bins")[off1 [nb] (s.ienv "mid")]?.getD Fl.nan) (s.fenv "val") = false := by
    rw [getElem?_off1_getW _ nb hl _ hr]; exact hb
  have hc' : Fl.lt ((s.fa "bins")[off1 [nb] (s.ienv "mid" - 1)]?.getD Fl.nan) (s.fenv "val") = false := by
    rw [getElem?_off1_getW _ nb hl _ hr2]; exact hc
  simp [whileBody, exec, BE.ok, BE.eval, FE.ok, FE.eval, IE.ok, IE.eval, CmpOp.eval, IOp.eval, hs, hr, hr2, hrun,
    hb', hc', setS, fdiv_two]

theorem cmp_start_end (s : State F) :
    (BE.cmpI .le (.var "start") (.var "end")).eval s = decide (s.ienv "start" ≤ s.ienv "end") := rfl

/-- **the `while` of the generated program computes `Bin.loop`**: entered with `0 <= start`, `end < nbins`,
    `start <= end + 1`, `mid = (end + start) // 2` and more fuel than `end - start + 1` it ends normally (never by
    fuel, never by an index error -- the read `bins[mid - 1]` with `mid = 0` wraps to the last bin exactly like the
    model's `getW`), `mid` holds the model's result for any fuel `n >= end - start + 1` of the model, and only
    `start`, `end`, `mid` have changed -/
theorem while_refines (nb : Nat) (n : Nat) : ∀ (fuel : Nat) (s : State F),
    s.ctl = .run → s.shp "bins" = [nb] → (s.fa "bins").length = nb →
    0 ≤ s.ienv "start" → s.ienv "end" < nb → s.ienv "start" ≤ s.ienv "end" + 1 →
    s.ienv "mid" = (s.ienv "end" + s.ienv "start") / 2 →
    (s.ienv "end" - s.ienv "start" + 1).toNat ≤ n → n < fuel →
    (exec fuel whileS s).ctl = .run ∧
    (exec fuel whileS s).ienv "mid" = Bin.loop (below s) n (s.ienv "start") (s.ienv "end") ∧
    SameButI ["start", "end", "mid"] s (exec fuel whileS s) := by
  induction n with
  | zero =>
    intro fuel s hrun hs hl h0 h1 h2 hm hn hf
    obtain ⟨f, rfl⟩ : ∃ f, fuel = f + 1 := ⟨fuel - 1, by omega⟩
    have hex : exec (f + 1) whileS s = s := by
      unfold whileS
      exact exec_while_done f _ _ s (by simp [BE.ok, IE.ok])
        (by rw [cmp_start_end]; simp; omega)
    rw [hex]
    refine ⟨hrun, ?_, ⟨rfl, rfl, rfl, rfl, rfl, rfl, fun _ _ => rfl⟩⟩
    rw [hm]; rfl
  | succ n ih =>
    intro fuel s hrun hs hl h0 h1 h2 hm hn hf
    obtain ⟨f, rfl⟩ : ∃ f, fuel = f + 1 := ⟨fuel - 1, by omega⟩
    have hcok : (BE.cmpI .le (.var "start") (.var "end")).ok s = true := by simp [BE.ok, IE.ok]
    by_cases hle : s.ienv "start" ≤ s.ienv "end"
    · have hcev : (BE.cmpI .le (.var "start") (.var "end")).eval s = true := by
        rw [cmp_start_end]; simpa using hle
      have hm0 : 0 ≤ s.ienv "mid" := by omega
      have hm1 : s.ienv "mid" < nb := by omega
      have hms : s.ienv "start" ≤ s.ienv "mid" := by omega
      have hme : s.ienv "mid" ≤ s.ienv "end" := by omega
      rw [Bin.loop.eq_def]
      simp only [hle, if_true, ← hm]
      cases hb : below s (s.ienv "mid") with
      | true =>
        have hbody := whileBody_right f s nb hrun hs hl hm0 hm1 hb
        have hstep : exec (f + 1) whileS s = exec f whileS (exec f whileBody s) := by
          unfold whileS
          exact exec_while_step_run f _ _ s hcok hcev (by rw [hbody]; exact hrun)
        rw [hstep, hbody]
        generalize hs1 : ({ s with ienv := (setS (setS s.ienv "start" (s.ienv "mid" + 1)) "mid"
                 ((s.ienv "end" + (s.ienv "mid" + 1)) / 2)) } : State F) = s1
        have e1 : s1.ienv "start" = s.ienv "mid" + 1 := by subst hs1; simp [setS]
        have e2 : s1.ienv "end" = s.ienv "end" := by subst hs1; simp [setS]
        have e3 : s1.ienv "mid" = (s.ienv "end" + (s.ienv "mid" + 1)) / 2 := by subst hs1; simp [setS]
        have hfr : SameButI ["start", "end", "mid"] s s1 := by
          subst hs1
          refine ⟨rfl, rfl, rfl, rfl, rfl, rfl, fun v hv => ?_⟩
          simp only [List.mem_cons, List.not_mem_nil, or_false, not_or] at hv
          simp [setS, hv.1, hv.2.2]
        have := ih f s1 (by subst hs1; exact hrun) (by rw [hfr.shp]; exact hs) (by rw [hfr.fa]; exact hl)
          (by omega) (by omega) (by omega) (by rw [e3, e2, e1]) (by omega) (by omega)
        obtain ⟨r1, r2, r3⟩ := this
        refine ⟨r1, ?_, hfr.trans r3⟩
        rw [r2, below_congr hfr.fa hfr.fenv, e1, e2]; rfl
      | false =>
        cases hc : below s (s.ienv "mid" - 1) with
        | true =>
          have hbody := whileBody_break f s nb hrun hs hl hm0 hm1 hb hc
          have hstep : exec (f + 1) whileS s = { exec f whileBody s with ctl := .run } := by
            unfold whileS
            exact exec_while_break f _ _ s hcok hcev (by rw [hbody])
          rw [hstep, hbody]
          refine ⟨rfl, ?_, ⟨rfl, rfl, rfl, rfl, rfl, rfl, fun _ _ => rfl⟩⟩
          simp
        | false =>
          have hbody := whileBody_left f s nb hrun hs hl hm0 hm1 hb hc
          have hstep : exec (f + 1) whileS s = exec f whileS (exec f whileBody s) := by
            unfold whileS
            exact exec_while_step_run f _ _ s hcok hcev (by rw [hbody]; exact hrun)
          rw [hstep, hbody]
          generalize hs1 : ({ s with ienv := (setS (setS s.ienv "end" (s.ienv "mid" - 1)) "mid"
                 ((s.ienv "mid" - 1 + s.ienv "start") / 2)) } : State F) = s1
          have e1 : s1.ienv "start" = s.ienv "start" := by subst hs1; simp [setS]
          have e2 : s1.ienv "end" = s.ienv "mid" - 1 := by subst hs1; simp [setS]
          have e3 : s1.ienv "mid" = (s.ienv "mid" - 1 + s.ienv "start") / 2 := by subst hs1; simp [setS]
          have hfr : SameButI ["start", "end", "mid"] s s1 := by
            subst hs1
            refine ⟨rfl, rfl, rfl, rfl, rfl, rfl, fun v hv => ?_⟩
            simp only [List.mem_cons, List.not_mem_nil, or_false, not_or] at hv
            simp [setS, hv.2.1, hv.2.2]
          have := ih f s1 (by subst hs1; exact hrun) (by rw [hfr.shp]; exact hs) (by rw [hfr.fa]; exact hl)
            (by omega) (by omega) (by omega) (by rw [e3, e2, e1]) (by omega) (by omega)
          obtain ⟨r1, r2, r3⟩ := this
          refine ⟨r1, ?_, hfr.trans r3⟩
          rw [r2, below_congr hfr.fa hfr.fenv, e1, e2]; rfl
    · have hex : exec (f + 1) whileS s = s := by
        unfold whileS
        exact exec_while_done f _ _ s hcok
          (by rw [cmp_start_end]; simpa using hle)
      rw [hex, Bin.loop.eq_def]
      simp only [hle, if_false]
      exact ⟨hrun, hm, ⟨rfl, rfl, rfl, rfl, rfl, rfl, fun _ _ => rfl⟩⟩

/-! ### the search block, the bin of a cell -/

/-- bounds of the model loop for *any* comparison answers: started with `start <= end + 1` it returns an index in
    `[start - 1, end]` -/
theorem loop_range (below : Int → Bool) (n : Nat) : ∀ (start stp : Int), start ≤ stp + 1 →
    start - 1 ≤ Bin.loop below n start stp ∧ Bin.loop below n start stp ≤ stp := by
  induction n with
  | zero => intro start stp h; simp only [Bin.loop]; omega
  | succ n ih =>
    intro start stp h
    rw [Bin.loop.eq_def]
    simp only []
    by_cases hle : start ≤ stp
    · simp only [hle, if_true]
      have hm1 : start ≤ (stp + start) / 2 := by omega
      have hm2 : (stp + start) / 2 ≤ stp := by omega
      split
      · have := ih ((stp + start) / 2 + 1) stp (by omega); omega
      · split
        · omega
        · have := ih start ((stp + start) / 2 - 1) (by omega); omega
    · simp only [hle, if_false]; omega

/-- the state in which the generated `while` is entered -/
def enter (s : State F) (nb : Nat) : State F :=
  { s with ienv := setS (setS (setS s.ienv "start" 0) "end" ((nb : Int) - 1)) "mid" (((nb : Int) - 1 + 0) / 2) }

theorem searchBlock_eq (fuel : Nat) (s : State F) (nb : Nat) (hrun : s.ctl = .run) (hnb : s.ienv "nbins" = nb) :
    exec fuel searchBlock s = exec fuel (.seq whileS (.setI "val_bin" (.var "mid"))) (enter s nb) := by
  simp [searchBlock, enter, exec, IE.ok, IE.eval, IOp.eval, hrun, hnb, fdiv_two, setS]

/-- the search block leaves `Bin.loop below nbins 0 (nbins - 1)` in `val_bin` -/
theorem searchBlock_refines (fuel : Nat) (s : State F) (nb : Nat) (hrun : s.ctl = .run)
    (hnb : s.ienv "nbins" = nb) (hs : s.shp "bins" = [nb]) (hl : (s.fa "bins").length = nb) (hf : nb < fuel) :
    (exec fuel searchBlock s).ctl = .run ∧
    (exec fuel searchBlock s).ienv "val_bin" = Bin.loop (below s) nb 0 ((nb : Int) - 1) ∧
    SameButI ["start", "end", "mid", "val_bin"] s (exec fuel searchBlock s) := by
  rw [searchBlock_eq fuel s nb hrun hnb]
  have e1 : (enter s nb).ienv "start" = 0 := by simp [enter, setS]
  have e2 : (enter s nb).ienv "end" = (nb : Int) - 1 := by simp [enter, setS]
  have e3 : (enter s nb).ienv "mid" = ((nb : Int) - 1 + 0) / 2 := by simp [enter, setS]
  have hfr : SameButI ["start", "end", "mid", "val_bin"] s (enter s nb) := by
    refine ⟨rfl, rfl, rfl, rfl, rfl, rfl, fun v hv => ?_⟩
    simp only [List.mem_cons, List.not_mem_nil, or_false, not_or] at hv
    simp [enter, setS, hv.1, hv.2.1, hv.2.2.1]
  obtain ⟨w1, w2, w3⟩ := while_refines nb nb fuel (enter s nb) hrun (by rw [hfr.shp]; exact hs)
    (by rw [hfr.fa]; exact hl) (by omega) (by omega) (by omega) (by rw [e3, e2, e1]) (by omega) hf
  rw [exec_seq_run _ _ _ _ w1, exec_setI _ _ _ _ (by simp [IE.ok])]
  refine ⟨w1, ?_, ?_⟩
  · simp only [setS_same, IE.eval]
    rw [w2, below_congr hfr.fa hfr.fenv, e1, e2]
  · have w3' : SameButI ["start", "end", "mid", "val_bin"] (enter s nb) (exec fuel whileS (enter s nb)) :=
      ⟨w3.fenv, w3.benv, w3.ia, w3.fa, w3.shp, w3.ext, fun v hv => w3.ienv v (by
        simp only [List.mem_cons, List.not_mem_nil, or_false, not_or] at hv ⊢
        exact ⟨hv.1, hv.2.1, hv.2.2.1⟩)⟩
    refine (hfr.trans w3').trans ⟨rfl, rfl, rfl, rfl, rfl, rfl, fun v hv => ?_⟩
    simp only [List.mem_cons, List.not_mem_nil, or_false, not_or] at hv
    simp [setS, hv.2.2.2]

/-- the bin the model assigns to the value in `val`: `-1` for a non-finite value, else `Bin.search` -/
def binOf (s : State F) : Int :=
  if Fl.isfinite (s.fenv "val") then Bin.search Fl.lt Fl.le Fl.nan (s.fa "bins") (s.fenv "val") else -1

/-- `if np.isfinite(val): ...` leaves the model's bin in `val_bin`.  With an empty `bins` only a non-finite value
    gets through (`hne`): a finite one reads `bins[0]` out of range, see `findBin_no_bins`. -/
theorem findBin_refines (fuel : Nat) (s : State F) (nb : Nat) (hrun : s.ctl = .run)
    (hnb : s.ienv "nbins" = nb) (hs : s.shp "bins" = [nb]) (hl : (s.fa "bins").length = nb)
    (hf : 1 ≤ nb → nb < fuel)
    (hne : 1 ≤ nb ∨ Fl.isfinite (s.fenv "val") = false) (hvb : s.ienv "val_bin" = -1) :
    (exec fuel findBin s).ctl = .run ∧
    (exec fuel findBin s).ienv "val_bin" = binOf s ∧
    SameButI ["start", "end", "mid", "val_bin"] s (exec fuel findBin s) := by
  have hfok : (BE.isfinite (.var "val")).ok s = true := rfl
  have hfev : (BE.isfinite (.var "val")).eval s = Fl.isfinite (s.fenv "val") := rfl
  unfold findBin binOf
  cases hfin : Fl.isfinite (s.fenv "val") with
  | false =>
    rw [exec_ite_false _ _ _ _ _ hfok (by rw [hfev, hfin]), exec_skip]
    exact ⟨hrun, hvb, ⟨rfl, rfl, rfl, rfl, rfl, rfl, fun _ _ => rfl⟩⟩
  | true =>
    have hnb1 : 1 ≤ nb := by
      rcases hne with h | h
      · exact h
      · rw [hfin] at h; cases h
    rw [exec_ite_true _ _ _ _ _ hfok (by rw [hfev, hfin])]
    have hr0 : inRange ((IE.lit 0).eval s) nb = true := by rw [inRange_iff]; left; simp [IE.eval]; omega
    have hok0 : (BE.cmpF .le (.var "val") (.ld1 "bins" (.lit 0))).ok s = true := by
      have := ld1_ok s "bins" (.lit 0) nb hs rfl hr0
      simp only [BE.ok, this]; rfl
    have hev0 : (BE.cmpF .le (.var "val") (.ld1 "bins" (.lit 0))).eval s = atMost s 0 := by
      show Fl.le (s.fenv "val") ((FE.ld1 "bins" (.lit 0)).eval s) = _
      rw [ld1_eval s "bins" (.lit 0) nb hs hl hr0]; rfl
    have hsearch : Bin.search Fl.lt Fl.le Fl.nan (s.fa "bins") (s.fenv "val") =
        if atMost s 0 then 0 else if atMost s ((nb : Int) - 1) then Bin.loop (below s) nb 0 ((nb : Int) - 1)
        else -1 := by
      unfold Bin.search Bin.searchP; rw [hl]; rfl
    simp only [if_true]
    rw [hsearch]
    cases h0 : atMost s 0 with
    | true =>
      rw [exec_ite_true _ _ _ _ _ hok0 (by rw [hev0, h0]), exec_setI _ _ _ _ rfl]
      refine ⟨hrun, by simp [IE.eval], ⟨rfl, rfl, rfl, rfl, rfl, rfl, fun v hv => ?_⟩⟩
      simp only [List.mem_cons, List.not_mem_nil, or_false, not_or] at hv
      simp [setS, hv.2.2.2]
    | false =>
      rw [exec_ite_false _ _ _ _ _ hok0 (by rw [hev0, h0])]
      have hidx : (IE.bin .sub (.var "nbins") (.lit 1)).eval s = (nb : Int) - 1 := by
        simp [IE.eval, IOp.eval, hnb]
      have hr1 : inRange ((IE.bin .sub (.var "nbins") (.lit 1)).eval s) nb = true := by
        rw [hidx, inRange_iff]; omega
      have hok1 : (BE.cmpF .le (.var "val") (.ld1 "bins" (.bin .sub (.var "nbins") (.lit 1)))).ok s = true := by
        have := ld1_ok s "bins" (.bin .sub (.var "nbins") (.lit 1)) nb hs rfl hr1
        simp only [BE.ok, this]; rfl
      have hev1 : (BE.cmpF .le (.var "val") (.ld1 "bins" (.bin .sub (.var "nbins") (.lit 1)))).eval s =
          atMost s ((nb : Int) - 1) := by
        show Fl.le (s.fenv "val") ((FE.ld1 "bins" (.bin .sub (.var "nbins") (.lit 1))).eval s) = _
        rw [ld1_eval s "bins" _ nb hs hl hr1, hidx]; rfl
      cases h1 : atMost s ((nb : Int) - 1) with
      | true =>
        rw [exec_ite_true _ _ _ _ _ hok1 (by rw [hev1, h1])]
        simpa using searchBlock_refines fuel s nb hrun hnb hs hl (hf hnb1)
      | false =>
        rw [exec_ite_false _ _ _ _ _ hok1 (by rw [hev1, h1]), exec_skip]
        exact ⟨hrun, by simpa using hvb, ⟨rfl, rfl, rfl, rfl, rfl, rfl, fun _ _ => rfl⟩⟩

/-- range of the model's bin: `-1 <= bin < nbins`, whatever the comparisons answer -/
theorem binOf_range (s : State F) (nb : Nat) (hl : (s.fa "bins").length = nb) :
    -1 ≤ binOf s ∧ binOf s < max nb 1 := by
  unfold binOf Bin.search Bin.searchP
  rw [hl]
  split
  · split
    · omega
    · split
      · have := loop_range (fun i => Fl.lt (Bin.getW Fl.nan (s.fa "bins") i) (s.fenv "val")) nb 0 ((nb : Int) - 1)
          (by omega)
        omega
      · omega
  · omega

/-! ### one cell -/

/-- `out[y, x] = new_values[val_bin]` / `nan` -/
theorem storeCell_run (fuel : Nat) (s : State F) (rows cols nv y x : Nat) (hrun : s.ctl = .run)
    (ho : s.shp "out" = [rows, cols]) (hn : s.shp "new_values" = [nv]) (hnl : (s.fa "new_values").length = nv)
    (hy : s.ienv "y" = y) (hx : s.ienv "x" = x) (hyr : y < rows) (hxc : x < cols)
    (hb0 : -1 ≤ s.ienv "val_bin") (hb1 : s.ienv "val_bin" < nv ∨ s.ienv "val_bin" = -1) :
    exec fuel storeCell s =
      { s with fa := setS s.fa "out" ((s.fa "out").set (y * cols + x)
          (if s.ienv "val_bin" > -1 then Bin.getW Fl.nan (s.fa "new_values") (s.ienv "val_bin") else Fl.nan)) } := by
  have hiy := inRange_of_lt y rows hyr
  have hix := inRange_of_lt x cols hxc
  by_cases hb : s.ienv "val_bin" > -1
  · have hr : inRange (s.ienv "val_bin") nv = true := by rw [inRange_iff]; omega
    have hg := getElem?_off1_getW (s.fa "new_values") nv hnl _ hr (Fl.nan : F)
    simp [storeCell, exec, BE.ok, BE.eval, IE.ok, IE.eval, FE.ok, FE.eval, cmpInt, ho, hn, hy, hx, hiy, hix, hb,
      hr, hg, off2_nat]
  · have hb' : ¬ (-1 < s.ienv "val_bin") := hb
    simp [storeCell, exec, BE.ok, BE.eval, IE.ok, IE.eval, FE.ok, FE.eval, cmpInt, ho, hy, hx, hiy, hix, hb, hb',
      off2_nat]

/-- what the loops keep fixed: the inputs, the shape of `out`, the three size variables -/
structure Env (D B NV : List F) (rows cols nb nv : Nat) (st : State F) : Prop where
  dshp : st.shp "data" = [rows, cols]
  dfa : st.fa "data" = D
  bshp : st.shp "bins" = [nb]
  bfa : st.fa "bins" = B
  nshp : st.shp "new_values" = [nv]
  nfa : st.fa "new_values" = NV
  oshp : st.shp "out" = [rows, cols]
  olen : (st.fa "out").length = rows * cols
  rowsV : st.ienv "rows" = rows
  colsV : st.ienv "cols" = cols
  nbinsV : st.ienv "nbins" = nb

/-- the model of one cell at the program's number type -/
abbrev cellF (B NV : List F) (v : F) : F := Bin.cellG Fl.lt Fl.le Fl.isfinite Fl.nan B NV v

/-- **one loop body = one model cell**: `out[y, x]` becomes `cellG bins new_values data[y, x]`, nothing else that
    matters changes -/
theorem cellBody_refines (fuel : Nat) (st : State F) (D B NV : List F) (rows cols nb nv y x : Nat)
    (hrun : st.ctl = .run) (he : Env D B NV rows cols nb nv st)
    (hD : D.length = rows * cols) (hB : B.length = nb) (hNV : NV.length = nv) (hnv : nb ≤ nv)
    (hf : 1 ≤ nb → nb < fuel)
    (hy : st.ienv "y" = y) (hx : st.ienv "x" = x) (hyr : y < rows) (hxc : x < cols)
    (hne : 1 ≤ nb ∨ Fl.isfinite (D.getD (y * cols + x) Fl.nan) = false) :
    (exec fuel cellBody st).ctl = .run ∧ Env D B NV rows cols nb nv (exec fuel cellBody st) ∧
    (exec fuel cellBody st).ienv "y" = y ∧
    (exec fuel cellBody st).fa "out" = (st.fa "out").set (y * cols + x) (cellF B NV (D.getD (y * cols + x) Fl.nan)) := by
  have hiy := inRange_of_lt y rows hyr
  have hix := inRange_of_lt x cols hxc
  -- the two assignments
  generalize hs2 : ({ st with fenv := setS st.fenv "val" (D.getD (y * cols + x) Fl.nan),
                              ienv := setS st.ienv "val_bin" (-1) } : State F) = s2
  have hstep : exec fuel cellBody st = exec fuel (.seq findBin storeCell) s2 := by
    subst hs2
    simp [cellBody, exec, FE.ok, FE.eval, IE.ok, IE.eval, he.dshp, he.dfa, hy, hx, hiy, hix, hrun, off2_nat,
      List.getD_eq_getElem?_getD]
  have f1 : s2.ctl = .run := by subst hs2; exact hrun
  have f2 : s2.fenv "val" = D.getD (y * cols + x) Fl.nan := by subst hs2; simp
  have f3 : s2.ienv "val_bin" = -1 := by subst hs2; simp
  have f4 : s2.fa = st.fa := by subst hs2; rfl
  have f5 : s2.shp = st.shp := by subst hs2; rfl
  have f6 : ∀ v, v ≠ "val_bin" → s2.ienv v = st.ienv v := by
    intro v hv; subst hs2; simp [setS, hv]
  obtain ⟨g1, g2, g3⟩ := findBin_refines fuel s2 nb f1 (by rw [f6 _ (by decide)]; exact he.nbinsV)
    (by rw [f5]; exact he.bshp) (by rw [f4, he.bfa]; exact hB) hf (by rw [f2]; exact hne) f3
  generalize hs3 : exec fuel findBin s2 = s3 at g1 g2 g3
  have hvars : ∀ v, v ∉ ["start", "end", "mid", "val_bin"] → s3.ienv v = st.ienv v := by
    intro v hv
    rw [g3.ienv v hv]
    apply f6
    simp only [List.mem_cons, List.not_mem_nil, or_false, not_or] at hv
    exact hv.2.2.2
  have hbin : binOf s2 = (if Fl.isfinite (D.getD (y * cols + x) Fl.nan) then
      Bin.search Fl.lt Fl.le Fl.nan B (D.getD (y * cols + x) Fl.nan) else -1) := by
    unfold binOf; rw [f2, f4, he.bfa]
  have hrange := binOf_range s2 nb (by rw [f4, he.bfa]; exact hB)
  have hstore := storeCell_run fuel s3 rows cols nv y x g1 (by rw [g3.shp, f5]; exact he.oshp)
    (by rw [g3.shp, f5]; exact he.nshp) (by rw [g3.fa, f4, he.nfa]; exact hNV)
    (by rw [hvars _ (by decide)]; exact hy) (by rw [hvars _ (by decide)]; exact hx) hyr hxc
    (by rw [g2]; exact hrange.1)
    (by
      rw [g2]
      rcases hne with h | h
      · left; omega
      · right; rw [hbin, h]; rfl)
  rw [hstep, exec_seq_run _ _ _ _ (by rw [hs3]; exact g1), hs3, hstore]
  refine ⟨g1, ⟨?_, ?_, ?_, ?_, ?_, ?_, ?_, ?_, ?_, ?_, ?_⟩, ?_, ?_⟩
  · show s3.shp "data" = _; rw [g3.shp, f5]; exact he.dshp
  · simp [setS, g3.fa, f4, he.dfa]
  · show s3.shp "bins" = _; rw [g3.shp, f5]; exact he.bshp
  · simp [setS, g3.fa, f4, he.bfa]
  · show s3.shp "new_values" = _; rw [g3.shp, f5]; exact he.nshp
  · simp [setS, g3.fa, f4, he.nfa]
  · show s3.shp "out" = _; rw [g3.shp, f5]; exact he.oshp
  · simp only [setS_same, List.length_set, g3.fa, f4]; exact he.olen
  · show s3.ienv "rows" = _; rw [hvars _ (by decide)]; exact he.rowsV
  · show s3.ienv "cols" = _; rw [hvars _ (by decide)]; exact he.colsV
  · show s3.ienv "nbins" = _; rw [hvars _ (by decide)]; exact he.nbinsV
  · show s3.ienv "y" = _; rw [hvars _ (by decide)]; exact hy
  · show setS s3.fa "out" _ "out" = _
    rw [setS_same, g3.fa, f4, he.nfa, g2, hbin]
    unfold cellF Bin.cellG
    cases Fl.isfinite (D.getD (y * cols + x) Fl.nan) <;> simp

/-! ### the two `for` loops -/

theorem env_setI {D B NV : List F} {rows cols nb nv : Nat} {st : State F} (he : Env D B NV rows cols nb nv st)
    (v : String) (k : Int) (h1 : v ≠ "rows") (h2 : v ≠ "cols") (h3 : v ≠ "nbins") :
    Env D B NV rows cols nb nv { st with ienv := setS st.ienv v k } :=
  ⟨he.dshp, he.dfa, he.bshp, he.bfa, he.nshp, he.nfa, he.oshp, he.olen,
   by simp [setS, Ne.symm h1, he.rowsV], by simp [setS, Ne.symm h2, he.colsV], by simp [setS, Ne.symm h3, he.nbinsV]⟩

/-- the inner loop fills row `y` -/
theorem xLoop_refines (fuel : Nat) (st : State F) (D B NV : List F) (rows cols nb nv y : Nat)
    (hrun : st.ctl = .run) (he : Env D B NV rows cols nb nv st)
    (hD : D.length = rows * cols) (hB : B.length = nb) (hNV : NV.length = nv) (hnv : nb ≤ nv) (hf : nb < fuel)
    (hy : st.ienv "y" = y) (hyr : y < rows)
    (hne : 1 ≤ nb ∨ ∀ v ∈ D, Fl.isfinite v = false)
    (hprev : ∀ i, i < y * cols → (st.fa "out")[i]?.getD Fl.nan = cellF B NV (D[i]?.getD Fl.nan)) :
    (exec fuel xLoop st).ctl = .run ∧ Env D B NV rows cols nb nv (exec fuel xLoop st) ∧
    ∀ i, i < (y + 1) * cols → ((exec fuel xLoop st).fa "out")[i]?.getD Fl.nan = cellF B NV (D[i]?.getD Fl.nan) := by
  unfold xLoop
  rw [exec_forRange _ _ _ _ _ _ _ (by simp [IE.ok, IE.eval])]
  have hr : rangeList ((IE.lit 0).eval st) ((IE.var "cols").eval st) ((IE.lit 1).eval st) =
      (List.range cols).map (fun (k : Nat) => (k : Int)) := by
    simp only [IE.eval, he.colsV]; exact rangeList_up cols
  rw [hr]
  have := loopOver_inv (fun st i => exec fuel cellBody { st with ienv := setS st.ienv "x" i })
    ((List.range cols).map (fun (k : Nat) => (k : Int)))
    (fun k s => Env D B NV rows cols nb nv s ∧ s.ienv "y" = y ∧
      ∀ i, i < y * cols + k → (s.fa "out")[i]?.getD Fl.nan = cellF B NV (D[i]?.getD Fl.nan))
    st hrun ⟨he, hy, by simpa using hprev⟩
    (by
      intro x hx s hsrun ⟨hse, hsy, hsp⟩
      simp only [List.length_map, List.length_range] at hx
      simp only [List.getElem_map, List.getElem_range]
      have hidx : y * cols + x < rows * cols := by
        have : (y + 1) * cols ≤ rows * cols := Nat.mul_le_mul_right cols hyr
        rw [Nat.add_mul, Nat.one_mul] at this
        omega
      have hne' : 1 ≤ nb ∨ Fl.isfinite (D.getD (y * cols + x) Fl.nan) = false := by
        rcases hne with h | h
        · exact Or.inl h
        · right; apply h
          rw [List.getD_eq_getElem?_getD, List.getElem?_eq_getElem (by omega)]
          simp
      obtain ⟨c1, c2, c3, c4⟩ := cellBody_refines fuel { s with ienv := setS s.ienv "x" (x : Int) } D B NV rows cols nb nv
        y x hsrun (env_setI hse "x" x (by decide) (by decide) (by decide)) hD hB hNV hnv (fun _ => hf)
        (by simp [setS, hsy]) (by simp [setS]) hyr hx hne'
      rw [afterBody_run _ c1]
      refine ⟨c1, c2, c3, ?_⟩
      intro i hi
      rw [c4]
      simp only [List.getElem?_set]
      by_cases hix : y * cols + x = i
      · subst hix
        have : y * cols + x < (s.fa "out").length := by rw [hse.olen]; exact hidx
        simp [this, List.getD_eq_getElem?_getD]
      · simp only [hix, if_false]
        exact hsp i (by omega))
  simp only [List.length_map, List.length_range] at this
  refine ⟨this.1, this.2.1, ?_⟩
  intro i hi
  exact this.2.2.2 i (by rw [Nat.add_mul, Nat.one_mul] at hi; exact hi)

/-- the outer loop fills all rows -/
theorem yLoop_refines (fuel : Nat) (st : State F) (D B NV : List F) (rows cols nb nv : Nat)
    (hrun : st.ctl = .run) (he : Env D B NV rows cols nb nv st)
    (hD : D.length = rows * cols) (hB : B.length = nb) (hNV : NV.length = nv) (hnv : nb ≤ nv) (hf : nb < fuel)
    (hne : 1 ≤ nb ∨ ∀ v ∈ D, Fl.isfinite v = false) :
    (exec fuel yLoop st).ctl = .run ∧ Env D B NV rows cols nb nv (exec fuel yLoop st) ∧
    ∀ i, i < rows * cols → ((exec fuel yLoop st).fa "out")[i]?.getD Fl.nan = cellF B NV (D[i]?.getD Fl.nan) := by
  unfold yLoop
  rw [exec_forRange _ _ _ _ _ _ _ (by simp [IE.ok, IE.eval])]
  have hr : rangeList ((IE.lit 0).eval st) ((IE.var "rows").eval st) ((IE.lit 1).eval st) =
      (List.range rows).map (fun (k : Nat) => (k : Int)) := by
    simp only [IE.eval, he.rowsV]; exact rangeList_up rows
  rw [hr]
  have := loopOver_inv (fun st i => exec fuel xLoop { st with ienv := setS st.ienv "y" i })
    ((List.range rows).map (fun (k : Nat) => (k : Int)))
    (fun k s => Env D B NV rows cols nb nv s ∧
      ∀ i, i < k * cols → (s.fa "out")[i]?.getD Fl.nan = cellF B NV (D[i]?.getD Fl.nan))
    st hrun ⟨he, by simp⟩
    (by
      intro y hy s hsrun ⟨hse, hsp⟩
      simp only [List.length_map, List.length_range] at hy
      simp only [List.getElem_map, List.getElem_range]
      obtain ⟨c1, c2, c3⟩ := xLoop_refines fuel { s with ienv := setS s.ienv "y" (y : Int) } D B NV rows cols nb nv y
        hsrun (env_setI hse "y" y (by decide) (by decide) (by decide)) hD hB hNV hnv hf (by simp [setS]) hy hne hsp
      rw [afterBody_run _ c1]
      exact ⟨c1, c2, c3⟩)
  simp only [List.length_map, List.length_range] at this
  exact ⟨this.1, this.2.1, this.2.2⟩

/-! ### the whole program -/

/-- the state after the five statements before the loops -/
def afterPrologue (s : State F) (rows cols nb : Nat) : State F :=
  { s with
    shp := setS (setS s.shp "out" [rows, cols]) "out" [rows, cols]
    fa := setS (setS s.fa "out" (List.replicate (rows * cols) (Fl.lit 0 1))) "out" (List.replicate (rows * cols) Fl.nan)
    ienv := setS (setS (setS s.ienv "rows" rows) "cols" cols) "nbins" nb }

theorem prologue_run (fuel : Nat) (rest : St) (s : State F) (rows cols nb : Nat) (hrun : s.ctl = .run)
    (hd : s.shp "data" = [rows, cols]) (hb : s.shp "bins" = [nb]) :
    exec fuel (prologue rest) s = exec fuel rest (afterPrologue s rows cols nb) := by
  simp [prologue, afterPrologue, exec, IE.ok, IE.eval, FE.ok, FE.eval, hd, hb, hrun, setS]

/-- **refinement**: on well-formed inputs (shapes match the array lengths; `bins` not empty -- or no finite cell at
    all; `new_values` at least as long as `bins`; more fuel than `nbins`, the bound on the iterations of the binary
    search) the program generated from `_cpu_bin` ends with `return`, `out` has the raster's shape and holds the
    hand model `Bin.cellG` of every cell, and the inputs are unchanged. -/
theorem cpuBin_refines (s : State F) (fuel rows cols nb nv : Nat) (hrun : s.ctl = .run)
    (hd : s.shp "data" = [rows, cols]) (hdl : (s.fa "data").length = rows * cols)
    (hb : s.shp "bins" = [nb]) (hbl : (s.fa "bins").length = nb)
    (hn : s.shp "new_values" = [nv]) (hnl : (s.fa "new_values").length = nv)
    (hnv : nb ≤ nv) (hf : nb < fuel)
    (hne : 1 ≤ nb ∨ ∀ v ∈ s.fa "data", Fl.isfinite v = false) :
    let r := Gen.IL.cpuBin.run s fuel
    r.ctl = .ret ∧ r.shp "out" = [rows, cols] ∧
    r.fa "out" = (s.fa "data").map (Bin.cellG Fl.lt Fl.le Fl.isfinite Fl.nan (s.fa "bins") (s.fa "new_values")) ∧
    r.fa "data" = s.fa "data" ∧ r.fa "bins" = s.fa "bins" ∧ r.fa "new_values" = s.fa "new_values" := by
  simp only [Prog.run, body_eq]
  rw [prologue_run fuel _ s rows cols nb hrun hd hb]
  have he : Env (s.fa "data") (s.fa "bins") (s.fa "new_values") rows cols nb nv (afterPrologue s rows cols nb) := by
    refine ⟨?_, ?_, ?_, ?_, ?_, ?_, ?_, ?_, ?_, ?_, ?_⟩ <;> simp [afterPrologue, setS, hd, hb, hn]
  obtain ⟨c1, c2, c3⟩ := yLoop_refines fuel (afterPrologue s rows cols nb) _ _ _ rows cols nb nv hrun he hdl hbl hnl
    hnv hf hne
  rw [exec_seq_run _ _ _ _ c1, exec_ret]
  refine ⟨rfl, c2.oshp, ?_, c2.dfa, c2.bfa, c2.nfa⟩
  apply List.ext_getElem?
  intro i
  by_cases hi : i < rows * cols
  · have h1 := c3 i hi
    have hlen : i < ((exec fuel yLoop (afterPrologue s rows cols nb)).fa "out").length := by rw [c2.olen]; exact hi
    rw [List.getElem?_eq_getElem hlen] at h1 ⊢
    rw [List.getElem?_eq_getElem (by rw [hdl]; exact hi)] at h1
    simp only [Option.getD_some] at h1
    simp [h1, List.getElem?_eq_getElem (show i < (s.fa "data").length by rw [hdl]; exact hi)]
  · rw [List.getElem?_eq_none (by rw [c2.olen]; omega), List.getElem?_eq_none (by simp [hdl]; omega)]

end XrsVerif.ILBin
