import XrsVerif.Proofs.ILViewshedDelRefines
/-
  Proofs/ILViewshedDelTree.lean -- `_delete_from_tree` as a function on model trees, *in the form the code has it*
  (`rbDeleteP`): the search for the key, the choice of the spliced-out node, the four passes (`delPassT`) and the colour
  fix-up (`rbDelFix`), generic in the number type and in the code's `==` (`eqf`); and the generated program computes it
  (`vsDelete_refines_tree`): positions on the arrays (`findZ`, `leftmostZ`, `splicePos`) abstract to positions on the
  tree (`findTZ`, `leftmostTZ`, `splicePosT`).
-/
set_option linter.unusedSectionVars false
set_option linter.unusedVariables false
set_option linter.unusedSimpArgs false
namespace XrsVerif.ILVs
open XrsVerif XrsVerif.IL XrsVerif.Viewshed

section model
variable {α : Type} [LT α] [DecidableLT α] [LE α] [DecidableLE α]

/-- the search for the key on a model tree: the node found and its ancestors (innermost first) -/
def findTZ (K : α) : Tree α → List (TFr α) → Option (Tree α × Node α × α × Bool × Tree α × List (TFr α))
  | .nil, _ => none
  | .node l n mx c r, acc =>
    if K < n.key then findTZ K l (.L n mx c r :: acc)
    else if n.key < K then findTZ K r (.R l n mx c :: acc)
    else some (l, n, mx, c, r, acc)

/-- the leftmost node of `.node l n mx c r` below `acc`: content, colour, right subtree, ancestors -/
def leftmostTZ : Tree α → Node α → α → Bool → Tree α → List (TFr α) → Node α × Bool × Tree α × List (TFr α)
  | .nil, n, _, c, r, acc => (n, c, r, acc)
  | .node a b bm bc cc, n, mx, c, r, acc => leftmostTZ a b bm bc cc (.L n mx c r :: acc)

def isNilT : Tree α → Bool
  | .nil => true
  | .node _ _ _ _ _ => false

/-- the position at which the deletion works: (`x`'s subtree, `y`'s content, `y` red, the ancestors of `y`, the
    number of frames between `y` and `z`) -/
def splicePosT (l : Tree α) (n : Node α) (mx : α) (c : Bool) (r : Tree α) (acc : List (TFr α)) :
    Tree α × Node α × Bool × List (TFr α) × Option Nat :=
  match l, r with
  | .nil, r => (r, n, c, acc, none)
  | .node a b bm bc cc, .nil => (.node a b bm bc cc, n, c, acc, none)
  | .node a b bm bc cc, .node rl m mm mc rr =>
    ((leftmostTZ rl m mm mc rr (.R (.node a b bm bc cc) n mx c :: acc)).2.2.1,
     (leftmostTZ rl m mm mc rr (.R (.node a b bm bc cc) n mx c :: acc)).1,
     (leftmostTZ rl m mm mc rr (.R (.node a b bm bc cc) n mx c :: acc)).2.1,
     (leftmostTZ rl m mm mc rr (.R (.node a b bm bc cc) n mx c :: acc)).2.2.2,
     some ((leftmostTZ rl m mm mc rr (.R (.node a b bm bc cc) n mx c :: acc)).2.2.2.length - (acc.length + 1)))

/-- the deletion at a found position: the four passes, then the fix-up when `y` was black and `x` is a node -/
def rbDeleteAt (eqf : α → α → Bool) (S : α) (P : Tree α × Node α × Bool × List (TFr α) × Option Nat) : Tree α :=
  if !P.2.2.1 && !(isNilT P.1) then
    rbDelFix S (P.2.2.2.1.map TFr.dir)
      (plugT (delPassT eqf S P.1 P.2.1 P.2.2.2.1 P.2.2.2.2).1 (delPassT eqf S P.1 P.2.1 P.2.2.2.1 P.2.2.2.2).2)
  else plugT (delPassT eqf S P.1 P.2.1 P.2.2.2.1 P.2.2.2.2).1 (delPassT eqf S P.1 P.2.1 P.2.2.2.1 P.2.2.2.2).2

/-- **`_delete_from_tree` on a model tree, as the code has it**; `none` = the key is absent (the code raises) -/
def rbDeleteP (eqf : α → α → Bool) (S K : α) (t : Tree α) : Option (Tree α) :=
  (findTZ K t []).map fun p => rbDeleteAt eqf S (splicePosT p.1 p.2.1 p.2.2.1 p.2.2.2.1 p.2.2.2.2.1 p.2.2.2.2.2)

end model

variable {F : Type} [Fl F]

/-! ### positions on the arrays abstract to positions on the tree -/

theorem findZ_abs (V : List F) (N : List Int) (K : Fv F) : ∀ (sh : Sh) (c : Ctx) (l : Sh) (z : Nat) (r : Sh) (c' : Ctx),
    findZ V K sh c = some (l, z, r, c') →
    findTZ K (absT V N sh) (absCtx V N c) =
      some (absT V N l, nodeAt V z, vAt V z 7, decide (nAt N z 0 = 0), absT V N r, absCtx V N c') := by
  intro sh
  induction sh with
  | nil => intro c l z r c' h; simp [findZ] at h
  | node sl j sr ihl ihr =>
    intro c l z r c' h
    simp only [findZ] at h
    simp only [absT, findTZ]
    by_cases h1 : K < vAt V j 0
    · rw [if_pos h1] at h
      rw [if_pos (show K < (nodeAt V j).key from h1)]
      exact ihl _ _ _ _ _ h
    · rw [if_neg h1] at h
      rw [if_neg (show ¬ K < (nodeAt V j).key from h1)]
      by_cases h2 : vAt V j 0 < K
      · rw [if_pos h2] at h
        rw [if_pos (show (nodeAt V j).key < K from h2)]
        exact ihr _ _ _ _ _ h
      · rw [if_neg h2] at h
        rw [if_neg (show ¬ (nodeAt V j).key < K from h2)]
        simp only [Option.some.injEq, Prod.mk.injEq] at h
        obtain ⟨rfl, rfl, rfl, rfl⟩ := h
        rfl

theorem leftmostZ_abs (V : List F) (N : List Int) : ∀ (rl : Sh) (m : Nat) (rr : Sh) (acc : Ctx),
    leftmostTZ (absT V N rl) (nodeAt V m) (vAt V m 7) (decide (nAt N m 0 = 0)) (absT V N rr) (absCtx V N acc) =
      (nodeAt V (leftmostZ rl m rr acc).1, decide (nAt N (leftmostZ rl m rr acc).1 0 = 0),
        absT V N (leftmostZ rl m rr acc).2.1, absCtx V N (leftmostZ rl m rr acc).2.2) := by
  intro rl
  induction rl with
  | nil => intro m rr acc; rfl
  | node a b c iha _ =>
    intro m rr acc
    exact iha b c (.L m rr :: acc)

theorem splicePos_abs (V : List F) (N : List Int) (l : Sh) (z : Nat) (r : Sh) (ctx : Ctx) :
    splicePosT (absT V N l) (nodeAt V z) (vAt V z 7) (decide (nAt N z 0 = 0)) (absT V N r) (absCtx V N ctx) =
      (absT V N (splicePos l z r ctx).1, nodeAt V (splicePos l z r ctx).2.1,
        decide (nAt N (splicePos l z r ctx).2.1 0 = 0), absCtx V N (splicePos l z r ctx).2.2.1,
        (splicePos l z r ctx).2.2.2) := by
  cases l with
  | nil => rfl
  | node a b c =>
    cases r with
    | nil => rfl
    | node rl m rr =>
      have h := leftmostZ_abs V N rl m rr (.R (.node a b c) z :: ctx)
      simp only [splicePos, splicePosT, absT]
      have h' : leftmostTZ (absT V N rl) (nodeAt V m) (vAt V m 7) (decide (nAt N m 0 = 0)) (absT V N rr)
          (TFr.R (Tree.node (absT V N a) (nodeAt V b) (vAt V b 7) (decide (nAt N b 0 = 0)) (absT V N c)) (nodeAt V z)
            (vAt V z 7) (decide (nAt N z 0 = 0)) :: absCtx V N ctx) = _ := h
      rw [h']
      simp only [absCtx_length]
      rfl

theorem map_dir_absCtx (V : List F) (N : List Int) (ctx : Ctx) : (absCtx V N ctx).map TFr.dir = ctx.map Fr.dir := by
  induction ctx with
  | nil => rfl
  | cons fr rest ih =>
    have : absCtx V N (fr :: rest) = absFr V N fr :: absCtx V N rest := rfl
    rw [this, List.map_cons, List.map_cons, ih]
    cases fr <;> rfl

theorem isNilT_absT (V : List F) (N : List Int) (sh : Sh) : isNilT (absT V N sh) = decide (sh.ptr = -1) := by
  cases sh with
  | nil => rfl
  | node a b c =>
    simp only [absT, isNilT, Sh.ptr]
    exact (decide_eq_false (by omega)).symm

/-- **`_delete_from_tree` refines `rbDeleteP`**: the arrays afterwards hold the value of the code-form deletion of the
    key from the tree the arrays held -/
theorem vsDelete_refines_tree (s : State F) (fuel n : Nat) (hv : VS s n) (hrun : s.ctl = .run) (sh : Sh)
    (hL : Linked (s.ia "tree_nodes") n (-1) sh) (hN : sh.idxs.Nodup) (hroot : s.ienv "root" = sh.ptr)
    (l : Sh) (z : Nat) (r : Sh) (ctx : Ctx)
    (hfind : findZ (s.fa "tree_vals") ⟨s.fenv "key"⟩ sh [] = some (l, z, r, ctx))
    (hbig : ¬ (l = .nil ∧ r = .nil ∧ ctx = []))
    (hnil : nAt (s.ia "tree_nodes") (n - 1) 0 = 1) (hcol : ∀ j ∈ sh.idxs, ColV (nAt (s.ia "tree_nodes") j 0))
    (hf : sh.height + 2 ≤ fuel) :
    let q := Gen.IL.vsDelete.run s fuel
    let S : Fv F := vAt (s.fa "tree_vals") (n - 1) 7
    q.ctl = .ret ∧ VS q n ∧ ∃ sh' : Sh, Linked (q.ia "tree_nodes") n (-1) sh' ∧ sh'.idxs.Nodup ∧
      ((splicePos l z r ctx).2.1 :: sh'.idxs).Perm sh.idxs ∧
      rbDeleteP feq S ⟨s.fenv "key"⟩ (absT (s.fa "tree_vals") (s.ia "tree_nodes") sh) =
        some (absT (q.fa "tree_vals") (q.ia "tree_nodes") sh') ∧
      q.ienv "ret0" = sh'.ptr ∧ q.ienv "ret1" = (splicePos l z r ctx).2.1 ∧ vAt (q.fa "tree_vals") (n - 1) 7 = S ∧
      nAt (q.ia "tree_nodes") (n - 1) 0 = 1 ∧ (∀ j ∈ sh'.idxs, ColV (nAt (q.ia "tree_nodes") j 0)) ∧
      (∀ a, a ≠ "tree_nodes" → q.ia a = s.ia a) ∧ (∀ a, a ≠ "tree_vals" → q.fa a = s.fa a) ∧ q.shp = s.shp := by
  intro q S
  obtain ⟨c1, c2, sh', c3, c4, c5, c6, c7, c8, c9, c10, c11, c12, c13, c14⟩ :=
    vsDelete_refines s fuel n hv hrun sh hL hN hroot l z r ctx hfind hbig hnil hcol hf
  refine ⟨c1, c2, sh', c3, c4, c5, ?_, c7, c8, c9, c10, c11, c12, c13, c14⟩
  have hft := findZ_abs (s.fa "tree_vals") (s.ia "tree_nodes") ⟨s.fenv "key"⟩ sh [] l z r ctx hfind
  have hctx0 : absCtx (s.fa "tree_vals") (s.ia "tree_nodes") [] = [] := rfl
  rw [hctx0] at hft
  -- `y` is a row of the tree: its colour cell is sane
  obtain ⟨yl, yr, _, _, p2, _, _⟩ := splicePos_spec l z r ctx
  obtain ⟨_, hplug, _, _⟩ := findZ_some _ _ sh [] l z r ctx hfind
  simp only [plug] at hplug
  have hymem : (splicePos l z r ctx).2.1 ∈ sh.idxs := by
    rw [← hplug, ← p2]; exact mem_plug _ _ _ (by simp [Sh.idxs])
  have hyc := hcol _ hymem
  rw [c6]
  unfold rbDeleteP
  rw [hft]
  simp only [Option.map_some, splicePos_abs, rbDeleteAt, map_dir_absCtx, isNilT_absT, delPassArr]
  congr 1
  by_cases hc : nAt (s.ia "tree_nodes") (splicePos l z r ctx).2.1 0 = 1 ∧ (splicePos l z r ctx).1.ptr ≠ -1
  · have h0 : ¬ nAt (s.ia "tree_nodes") (splicePos l z r ctx).2.1 0 = 0 := by rw [hc.1]; decide
    rw [if_pos hc, if_pos (by simp [h0, hc.2])]
  · rw [if_neg hc, if_neg]
    intro hh
    simp only [Bool.and_eq_true, Bool.not_eq_true', decide_eq_false_iff_not] at hh
    exact hc ⟨(colV_black hyc).mpr hh.1, hh.2⟩

end XrsVerif.ILVs
