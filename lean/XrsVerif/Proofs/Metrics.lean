import XrsVerif.Proofs.KSimp
import XrsVerif.Gen.Kernels
import XrsVerif.Proofs.Sphere
import Mathlib.Analysis.SpecialFunctions.Trigonometric.Inverse
import Mathlib.Analysis.SpecialFunctions.Trigonometric.Arctan
import Mathlib.Analysis.SpecialFunctions.Complex.Arg
import Mathlib.Analysis.Complex.Norm
import Mathlib.Tactic.Positivity
import Mathlib.Tactic.NormNum
/-
  Helper definitions and lemmas for the three distance functions of C19.

  `manhattan`, `euclidean`, `greatCircle`, `greatCircleFailed` are the *generated* kernels
  (`Gen.manhattan_distance` ... translated from xrspatial/proximity.py on every run) evaluated on finite
  coordinates over `NV K`; a point is `(x, y)` (for the sphere `(longitude, latitude)` in degrees) and
  the argument order of the Python functions `(x1, x2, y1, y2)` is kept in the environments.
-/
set_option linter.unusedSectionVars false
set_option linter.unusedVariables false
namespace XrsVerif.Metrics
open XrsVerif

section generic
variable {K : Type} [Field K] [LinearOrder K] [IsStrictOrderedRing K] [Trig K]

def env4 (x1 x2 y1 y2 : NV K) : String → NV K :=
  envOf [("x1", x1), ("x2", x2), ("y1", y1), ("y2", y2)]
def env5 (x1 x2 y1 y2 r : NV K) : String → NV K :=
  envOf [("x1", x1), ("x2", x2), ("y1", y1), ("y2", y2), ("radius", r)]

/-- `manhattan_distance(p.x, q.x, p.y, q.y)` -/
def manhattan (p q : K × K) : NV K :=
  Gen.manhattan_distance.cell (env4 (some p.1) (some q.1) (some p.2) (some q.2)) (fun _ _ _ => none) (fun _ => [])
/-- `euclidean_distance(p.x, q.x, p.y, q.y)` -/
def euclidean (p q : K × K) : NV K :=
  Gen.euclidean_distance.cell (env4 (some p.1) (some q.1) (some p.2) (some q.2)) (fun _ _ _ => none) (fun _ => [])
/-- `great_circle_distance(p.lon, q.lon, p.lat, q.lat, R)`: the returned value ... -/
def greatCircle (R : K) (p q : K × K) : NV K :=
  Gen.great_circle_distance.cell (env5 (some p.1) (some q.1) (some p.2) (some q.2) (some R)) (fun _ _ _ => none) (fun _ => [])
/-- ... and the exception it raises, if any -/
def greatCircleFailed (R : K) (p q : K × K) : Option String :=
  Gen.great_circle_distance.cellFailed (env5 (some p.1) (some q.1) (some p.2) (some q.2) (some R)) (fun _ _ _ => none) (fun _ => [])

/-- longitude in [-180, 180] and latitude in [-90, 90] -/
def inRange (p : K × K) : Prop := -180 ≤ p.1 ∧ p.1 ≤ 180 ∧ -90 ≤ p.2 ∧ p.2 ≤ 90

/-- `np.pi` as the kernels see it -/
def piK : K := 4 * Trig.atan 1
/-- `np.radians` -/
def rad (d : K) : K := d * (piK / 180)
/-- the haversine term `a` of `great_circle_distance` -/
def hav (p q : K × K) : K :=
  Trig.sin ((rad q.2 - rad p.2) / 2) * Trig.sin ((rad q.2 - rad p.2) / 2)
    + Trig.cos (rad p.2) * Trig.cos (rad q.2)
      * (Trig.sin ((rad q.1 - rad p.1) / 2) * Trig.sin ((rad q.1 - rad p.1) / 2))

/-- a validation statement `if c: raise m` followed by `rest` -/
theorem exec_seq_guard {F : Type} [Fl F] (c : C) (m : String) (rest : S) (rd : String → Int → Int → F)
    (vec : String → List F) (st : KSt F) (h : st.halted = false) :
    (S.seq (S.ite c (S.fail m) S.skip) rest).exec rd vec st =
      if c.eval ⟨st.env, rd, vec⟩ then { st with halted := true, failed := some m }
      else rest.exec rd vec st := by
  simp only [S.exec]
  split <;> simp [h]

theorem manhattan_val (p q : K × K) : manhattan p q = some (|p.1 - q.1| + |p.2 - q.2|) := by
  unfold manhattan env4
  ksimp [Gen.manhattan_distance]

theorem euclidean_val (p q : K × K) :
    euclidean p q = some (Trig.sqrt ((p.1 - q.1) * (p.1 - q.1) + (p.2 - q.2) * (p.2 - q.2))) := by
  unfold euclidean env4
  ksimp [Gen.euclidean_distance]

/-- the four range tests raise exactly outside [-180,180] x [-90,90] (either point) -/
theorem gc_failed_iff (R : K) (p q : K × K) :
    (greatCircleFailed R p q).isSome ↔ ¬ (inRange p ∧ inRange q) := by
  unfold greatCircleFailed Kernel.cellFailed
  simp only [Gen.great_circle_distance]
  rw [exec_seq_guard _ _ _ _ _ _ rfl]
  split
  · rename_i h
    simp [C.eval, E.eval, CmpOp.eval, env5, envOf] at h
    simp only [inRange, Option.isSome_some, true_iff]
    rintro ⟨⟨a, b, -, -⟩, -⟩
    rcases h with h | h <;> linarith
  rw [exec_seq_guard _ _ _ _ _ _ rfl]
  split
  · rename_i h
    simp [C.eval, E.eval, CmpOp.eval, env5, envOf] at h
    simp only [inRange, Option.isSome_some, true_iff]
    rintro ⟨-, ⟨a, b, -, -⟩⟩
    rcases h with h | h <;> linarith
  rw [exec_seq_guard _ _ _ _ _ _ rfl]
  split
  · rename_i h
    simp [C.eval, E.eval, CmpOp.eval, env5, envOf] at h
    simp only [inRange, Option.isSome_some, true_iff]
    rintro ⟨⟨-, -, a, b⟩, -⟩
    rcases h with h | h <;> linarith
  rw [exec_seq_guard _ _ _ _ _ _ rfl]
  split
  · rename_i h
    simp [C.eval, E.eval, CmpOp.eval, env5, envOf] at h
    simp only [inRange, Option.isSome_some, true_iff]
    rintro ⟨-, ⟨-, -, a, b⟩⟩
    rcases h with h | h <;> linarith
  rename_i h1 h2 h3 h4
  simp [C.eval, E.eval, CmpOp.eval, env5, envOf] at h1 h2 h3 h4
  have : inRange p ∧ inRange q := ⟨⟨h1.2, h1.1, h3.2, h3.1⟩, ⟨h2.2, h2.1, h4.2, h4.1⟩⟩
  simp [S.exec, this]

/-- inside the range the kernel returns the haversine formula -/
theorem gc_val (R : K) (p q : K × K) (hp : inRange p) (hq : inRange q) :
    greatCircle R p q = some (R * 2 * Trig.asin (Trig.sqrt (hav p q))) := by
  obtain ⟨a1, a2, a3, a4⟩ := hp
  obtain ⟨b1, b2, b3, b4⟩ := hq
  have c1 := not_lt.mpr a1
  have c2 := not_lt.mpr a2
  have c3 := not_lt.mpr a3
  have c4 := not_lt.mpr a4
  have d1 := not_lt.mpr b1
  have d2 := not_lt.mpr b2
  have d3 := not_lt.mpr b3
  have d4 := not_lt.mpr b4
  unfold greatCircle env5
  ksimp [Gen.great_circle_distance, c1, c2, c3, c4, d1, d2, d3, d4, hav, rad, piK]

end generic

/-! ### the real interpretation of sqrt / sin / cos / arcsin / arctan / arctan2 -/

/-- Mathlib's real functions (`arctan2 y x` = argument of `x + y i`) -/
@[instance_reducible] noncomputable def realTrig : Trig ℝ :=
  ⟨Real.sqrt, Real.arctan, fun y x => Complex.arg ⟨x, y⟩, Real.exp, Real.sin, Real.cos, Real.arcsin⟩

section real
attribute [local instance] realTrig
open Real

@[simp] theorem trig_sqrt (x : ℝ) : Trig.sqrt x = Real.sqrt x := rfl
@[simp] theorem trig_sin (x : ℝ) : Trig.sin x = Real.sin x := rfl
@[simp] theorem trig_cos (x : ℝ) : Trig.cos x = Real.cos x := rfl
@[simp] theorem trig_asin (x : ℝ) : Trig.asin x = Real.arcsin x := rfl
@[simp] theorem trig_atan (x : ℝ) : Trig.atan x = Real.arctan x := rfl

theorem piK_eq : (piK : ℝ) = π := by
  simp only [piK, trig_atan, Real.arctan_one]; ring

theorem rad_eq (d : ℝ) : rad d = d * (π / 180) := by rw [rad, piK_eq]

/-- Minkowski in the plane: `sqrt((a+c)² + (b+d)²) ≤ sqrt(a² + b²) + sqrt(c² + d²)` -/
theorem sqrt_triangle (a b c d : ℝ) :
    Real.sqrt ((a + c) * (a + c) + (b + d) * (b + d)) ≤
      Real.sqrt (a * a + b * b) + Real.sqrt (c * c + d * d) := by
  have h := norm_add_le (⟨a, b⟩ : ℂ) ⟨c, d⟩
  simpa [Complex.norm_def, Complex.normSq_apply] using h

theorem sqrt_sumsq_eq_zero (a b : ℝ) : Real.sqrt (a * a + b * b) = 0 ↔ a = 0 ∧ b = 0 := by
  rw [Real.sqrt_eq_zero (add_nonneg (mul_self_nonneg a) (mul_self_nonneg b))]
  constructor
  · intro h
    have ha : a * a = 0 := by nlinarith [mul_self_nonneg a, mul_self_nonneg b]
    have hb : b * b = 0 := by nlinarith [mul_self_nonneg a, mul_self_nonneg b]
    exact ⟨mul_self_eq_zero.mp ha, mul_self_eq_zero.mp hb⟩
  · rintro ⟨rfl, rfl⟩; simp

/-- latitude in range: the cosine of the latitude is non-negative -/
theorem cos_rad_nonneg (y : ℝ) (h1 : -90 ≤ y) (h2 : y ≤ 90) : 0 ≤ Real.cos (rad y) := by
  rw [rad_eq]
  apply Real.cos_nonneg_of_neg_pi_div_two_le_of_le <;> nlinarith [Real.pi_pos]

theorem hav_nonneg (p q : ℝ × ℝ) (hp : inRange p) (hq : inRange q) : 0 ≤ hav p q := by
  unfold hav
  simp only [trig_sin, trig_cos]
  have h1 := cos_rad_nonneg p.2 hp.2.2.1 hp.2.2.2
  have h2 := cos_rad_nonneg q.2 hq.2.2.1 hq.2.2.2
  exact add_nonneg (mul_self_nonneg _) (mul_nonneg (mul_nonneg h1 h2) (mul_self_nonneg _))

theorem hav_symm (p q : ℝ × ℝ) : hav p q = hav q p := by
  unfold hav
  simp only [trig_sin, trig_cos]
  have e1 : (rad q.2 - rad p.2) / 2 = -((rad p.2 - rad q.2) / 2) := by ring
  have e2 : (rad q.1 - rad p.1) / 2 = -((rad p.1 - rad q.1) / 2) := by ring
  rw [e1, e2, Real.sin_neg, Real.sin_neg]
  ring

theorem hav_self (p : ℝ × ℝ) : hav p p = 0 := by
  unfold hav
  simp

/-- two coordinate pairs name the same point of the sphere: equal latitude, and equal longitude
    unless the point is a pole or the longitudes are the two names -180 / 180 of the antimeridian -/
def samePoint (p q : ℝ × ℝ) : Prop :=
  p.2 = q.2 ∧ (p.1 = q.1 ∨ |p.2| = 90 ∨ |p.1 - q.1| = 360)

theorem cos_rad_eq_zero_iff (y : ℝ) (h1 : -90 ≤ y) (h2 : y ≤ 90) : Real.cos (rad y) = 0 ↔ |y| = 90 := by
  rw [rad_eq]
  have hpi := Real.pi_pos
  constructor
  · intro h
    by_contra hne
    have hlt : |y| < 90 := lt_of_le_of_ne (abs_le.mpr ⟨h1, h2⟩) hne
    have ⟨l, u⟩ := abs_lt.mp hlt
    have : 0 < Real.cos (y * (π / 180)) := by
      apply Real.cos_pos_of_mem_Ioo
      constructor <;> nlinarith
    linarith
  · intro h
    rcases abs_eq (by norm_num : (0:ℝ) ≤ 90) |>.mp h with h | h
    · rw [h, show (90:ℝ) * (π / 180) = π / 2 by ring, Real.cos_pi_div_two]
    · rw [h, show (-90:ℝ) * (π / 180) = -(π / 2) by ring, Real.cos_neg, Real.cos_pi_div_two]

theorem sin_half_dlat_eq_zero_iff (a b : ℝ) (ha : -90 ≤ a ∧ a ≤ 90) (hb : -90 ≤ b ∧ b ≤ 90) :
    Real.sin ((rad b - rad a) / 2) = 0 ↔ a = b := by
  rw [rad_eq, rad_eq]
  have hpi := Real.pi_pos
  rw [Real.sin_eq_zero_iff_of_lt_of_lt (by nlinarith [ha.1, ha.2, hb.1, hb.2]) (by nlinarith [ha.1, ha.2, hb.1, hb.2])]
  constructor
  · intro h
    have : (b - a) * π = 0 := by linarith
    rcases mul_eq_zero.mp this with h | h
    · linarith
    · linarith
  · rintro rfl; ring

theorem sin_half_dlon_eq_zero_iff (a b : ℝ) (ha : -180 ≤ a ∧ a ≤ 180) (hb : -180 ≤ b ∧ b ≤ 180) :
    Real.sin ((rad b - rad a) / 2) = 0 ↔ (a = b ∨ |a - b| = 360) := by
  rw [rad_eq, rad_eq]
  have hpi := Real.pi_pos
  have e : (b * (π / 180) - a * (π / 180)) / 2 = (b - a) / 360 * π := by ring
  rw [e]
  constructor
  · intro h
    by_cases hlt : |a - b| < 360
    · left
      have ⟨l, u⟩ := abs_lt.mp hlt
      have := (Real.sin_eq_zero_iff_of_lt_of_lt (x := (b - a) / 360 * π) (by nlinarith) (by nlinarith)).mp h
      rcases mul_eq_zero.mp this with h | h
      · linarith
      · linarith
    · right
      have : |a - b| ≤ 360 := abs_le.mpr ⟨by linarith [ha.1, hb.2], by linarith [ha.2, hb.1]⟩
      linarith [not_lt.mp hlt]
  · rintro (rfl | h)
    · simp
    · rcases abs_eq (by norm_num : (0:ℝ) ≤ 360) |>.mp h with h | h
      · have : (b - a) / 360 * π = -π := by rw [show b - a = -360 by linarith]; ring
        rw [this, Real.sin_neg, Real.sin_pi, neg_zero]
      · have : (b - a) / 360 * π = π := by rw [show b - a = 360 by linarith]; ring
        rw [this, Real.sin_pi]

theorem hav_eq_zero_iff (p q : ℝ × ℝ) (hp : inRange p) (hq : inRange q) :
    hav p q = 0 ↔ samePoint p q := by
  have c1 := cos_rad_nonneg p.2 hp.2.2.1 hp.2.2.2
  have c2 := cos_rad_nonneg q.2 hq.2.2.1 hq.2.2.2
  unfold hav samePoint
  simp only [trig_sin, trig_cos]
  set s1 := Real.sin ((rad q.2 - rad p.2) / 2) with hs1
  set s2 := Real.sin ((rad q.1 - rad p.1) / 2) with hs2
  have n1 : 0 ≤ s1 * s1 := mul_self_nonneg _
  have n2 : 0 ≤ Real.cos (rad p.2) * Real.cos (rad q.2) * (s2 * s2) :=
    mul_nonneg (mul_nonneg c1 c2) (mul_self_nonneg _)
  have lat := sin_half_dlat_eq_zero_iff p.2 q.2 ⟨hp.2.2.1, hp.2.2.2⟩ ⟨hq.2.2.1, hq.2.2.2⟩
  have lon := sin_half_dlon_eq_zero_iff p.1 q.1 ⟨hp.1, hp.2.1⟩ ⟨hq.1, hq.2.1⟩
  have z1 := cos_rad_eq_zero_iff p.2 hp.2.2.1 hp.2.2.2
  have z2 := cos_rad_eq_zero_iff q.2 hq.2.2.1 hq.2.2.2
  constructor
  · intro h
    have e1 : s1 * s1 = 0 := by linarith
    have e2 : Real.cos (rad p.2) * Real.cos (rad q.2) * (s2 * s2) = 0 := by linarith
    have hlat : p.2 = q.2 := lat.mp (mul_self_eq_zero.mp e1)
    refine ⟨hlat, ?_⟩
    rcases mul_eq_zero.mp e2 with h | h
    · rcases mul_eq_zero.mp h with h | h
      · exact Or.inr (Or.inl (z1.mp h))
      · exact Or.inr (Or.inl (by rw [hlat]; exact z2.mp h))
    · rcases lon.mp (mul_self_eq_zero.mp h) with h | h
      · exact Or.inl h
      · exact Or.inr (Or.inr h)
  · rintro ⟨hlat, h⟩
    have e1 : s1 = 0 := lat.mpr hlat
    rw [e1]
    rcases h with h | h | h
    · have e2 : s2 = 0 := lon.mpr (Or.inl h)
      rw [e2]; ring
    · rw [z1.mpr h]; ring
    · have e2 : s2 = 0 := lon.mpr (Or.inr h)
      rw [e2]; ring

/-- the haversine term of the kernel is `Sphere.hv` of the coordinates in radians -/
theorem hav_eq_hv (p q : ℝ × ℝ) : hav p q = Sphere.hv (rad p.1) (rad p.2) (rad q.1) (rad q.2) := by
  unfold hav Sphere.hv
  simp only [trig_sin, trig_cos]

theorem rad_lat_range (p : ℝ × ℝ) (hp : inRange p) : -(π / 2) ≤ rad p.2 ∧ rad p.2 ≤ π / 2 := by
  rw [rad_eq]
  have := Real.pi_pos
  constructor <;> nlinarith [hp.2.2.1, hp.2.2.2]

/-- central angles obey the triangle inequality -/
theorem hav_triangle (p q r : ℝ × ℝ) (hp : inRange p) (hq : inRange q) (hr : inRange r) :
    2 * Real.arcsin (Real.sqrt (hav p r)) ≤
      2 * Real.arcsin (Real.sqrt (hav p q)) + 2 * Real.arcsin (Real.sqrt (hav q r)) := by
  rw [hav_eq_hv, hav_eq_hv, hav_eq_hv]
  exact Sphere.haversine_triangle _ _ _ _ _ _ (rad_lat_range p hp).1 (rad_lat_range p hp).2
    (rad_lat_range q hq).1 (rad_lat_range q hq).2 (rad_lat_range r hr).1 (rad_lat_range r hr).2

end real
end XrsVerif.Metrics
