import XrsVerif.Proofs.ILang
import XrsVerif.Gen.IL
/-
  Proofs/ILangProx.lean -- the generated `_process_proximity_line` as a *template over its variable names*.

  `Gen.IL.processNumpy` contains the body of `_process_proximity_line` four times (`.scope`, locals prefixed
  `_process_proximity_line<k>$`, array parameters replaced by the caller's arrays).  So that one proof
  serves the stand-alone program `Gen.IL.proximityLine` and the four inlined copies, the statements of the
  line sweep are written once as `lineBody N` for a naming `N : Names` (an injective map from the 21 scalar
  names `LV` to strings and the four read-only array names); `proximityLine_is_template` and
  (Proofs/ILProxNumpy.lean) the four `scope`s are checked to be instances by `rfl` -- a source edit of the
  line function changes `Gen/IL.lean` and breaks these `rfl`s.

  Also here: list lemmas (`getD_set`), the frame predicate `Mods`, array-read helpers.
-/
namespace XrsVerif.IL.Px
open XrsVerif
variable {F : Type} [Fl F]
set_option linter.unusedSectionVars false

/-! ### lists -/

theorem getD_set {α} (l : List α) (i j : Nat) (a d : α) :
    (l.set i a).getD j d = if i = j ∧ j < l.length then a else l.getD j d := by
  simp only [List.getD_eq_getElem?_getD, List.getElem?_set]
  by_cases h : i = j <;> by_cases h2 : j < l.length <;> simp [h, h2]

theorem getD_set_same {α} (l : List α) (i : Nat) (a d : α) (h : i < l.length) :
    (l.set i a).getD i d = a := by simp [h]

theorem getD_set_ne {α} (l : List α) (i j : Nat) (a d : α) (h : i ≠ j) :
    (l.set i a).getD j d = l.getD j d := by simp [h]

theorem any_take_succ {α} (l : List α) (f : α → Bool) (k : Nat) (h : k < l.length) :
    (l.take (k + 1)).any f = ((l.take k).any f || f l[k]) := by
  rw [List.take_succ_eq_append_getElem h]
  simp only [List.any_append, List.any_cons, List.any_nil, Bool.or_false]

/-! ### sequencing -/

theorem exec_seq (fuel : Nat) (a b : St) (s : State F) :
    exec fuel (.seq a b) s =
      if (exec fuel a s).ctl = .run then exec fuel b (exec fuel a s) else exec fuel a s := by
  rw [exec]

theorem exec_ite (fuel : Nat) (c : BE) (t f : St) (s : State F) (hok : c.ok s = true) :
    exec fuel (.ite c t f) s = if c.eval s then exec fuel t s else exec fuel f s := by
  rw [exec]; simp [hok]

/-- nothing but scalars changed -/
structure ScalOnly (s r : State F) : Prop where
  fa : r.fa = s.fa
  ia : r.ia = s.ia
  shp : r.shp = s.shp
  ext : r.ext = s.ext

theorem ScalOnly.refl (s : State F) : ScalOnly s s := ⟨rfl, rfl, rfl, rfl⟩

theorem ScalOnly.trans {s r t : State F} (h1 : ScalOnly s r) (h2 : ScalOnly r t) : ScalOnly s t :=
  ⟨h2.fa.trans h1.fa, h2.ia.trans h1.ia, h2.shp.trans h1.shp, h2.ext.trans h1.ext⟩

/-! ### `for` loops with an invariant -/

/-- a `for` loop over the list `xs` its range evaluates to; every iteration ends in `run` or `continue` -/
theorem forRange_list (v : String) (lo hi step : IE) (body : St) (s : State F) (fuel : Nat) (xs : List Int)
    (hs : s.ctl = .run) (hlo : lo.ok s = true) (hhi : hi.ok s = true) (hst : step.ok s = true)
    (hne : step.eval s ≠ 0) (hxs : rangeList (lo.eval s) (hi.eval s) (step.eval s) = xs)
    (P : Nat → State F → Prop) (h0 : P 0 s)
    (hstep : ∀ (k : Nat) (hk : k < xs.length) (st : State F), st.ctl = .run → P k st →
      (afterBody (exec fuel body { st with ienv := setS st.ienv v xs[k] })).ctl = .run ∧
      P (k + 1) (afterBody (exec fuel body { st with ienv := setS st.ienv v xs[k] }))) :
    (exec fuel (.forRange v lo hi step body) s).ctl = .run ∧
    P xs.length (exec fuel (.forRange v lo hi step body) s) := by
  simp only [exec, hlo, hhi, hst, hne, ne_eq, not_false_eq_true, decide_true, Bool.and_self, if_true, hxs]
  exact loopOver_inv _ xs P s hs h0 (fun i hi st h1 h2 => hstep i hi st h1 h2)

/-- `for v in range(n)` -/
theorem forRange_up (v : String) (hi : IE) (body : St) (s : State F) (fuel n : Nat)
    (hs : s.ctl = .run) (hok : hi.ok s = true) (hhi : hi.eval s = (n : Int))
    (P : Nat → State F → Prop) (h0 : P 0 s)
    (hstep : ∀ (k : Nat), k < n → ∀ st : State F, st.ctl = .run → P k st →
      (afterBody (exec fuel body { st with ienv := setS st.ienv v (k : Int) })).ctl = .run ∧
      P (k + 1) (afterBody (exec fuel body { st with ienv := setS st.ienv v (k : Int) }))) :
    (exec fuel (.forRange v (.lit 0) hi (.lit 1) body) s).ctl = .run ∧
    P n (exec fuel (.forRange v (.lit 0) hi (.lit 1) body) s) := by
  have h := forRange_list v (.lit 0) hi (.lit 1) body s fuel ((List.range n).map (fun (k : Nat) => (k : Int)))
    hs rfl hok rfl (by simp [IE.eval]) (by simp only [IE.eval, hhi]; exact rangeList_up n) P h0
    (fun k hk st h1 h2 => by
      have hk' : k < n := by simpa using hk
      simpa using hstep k hk' st h1 h2)
  simpa using h

/-- `for v in range(n - 1, -1, -1)`: the k-th iteration has `v = n - 1 - k` -/
theorem forRange_down (v : String) (lo : IE) (body : St) (s : State F) (fuel n : Nat)
    (hs : s.ctl = .run) (hok : lo.ok s = true) (hlo : lo.eval s = (n : Int) - 1)
    (P : Nat → State F → Prop) (h0 : P 0 s)
    (hstep : ∀ (k : Nat), k < n → ∀ st : State F, st.ctl = .run → P k st →
      (afterBody (exec fuel body { st with ienv := setS st.ienv v ((n - 1 - k : Nat) : Int) })).ctl = .run ∧
      P (k + 1) (afterBody (exec fuel body { st with ienv := setS st.ienv v ((n - 1 - k : Nat) : Int) }))) :
    (exec fuel (.forRange v lo (.lit (-1)) (.lit (-1)) body) s).ctl = .run ∧
    P n (exec fuel (.forRange v lo (.lit (-1)) (.lit (-1)) body) s) := by
  have h := forRange_list v lo (.lit (-1)) (.lit (-1)) body s fuel
    ((List.range n).reverse.map (fun (k : Nat) => (k : Int)))
    hs hok rfl rfl (by simp [IE.eval]) (by simp only [IE.eval, hlo]; exact rangeList_down n) P h0
    (fun k hk st h1 h2 => by
      have hk' : k < n := by simpa using hk
      simpa using hstep k hk' st h1 h2)
  simpa using h

/-! ### names -/

/-- the scalar variables of `_process_proximity_line` (parameters first) -/
inductive LV
  | isForward | lineId | width | maxDistance | distanceMetric
  | start | end_ | step | nValues | pixel | i | isTarget | nds | x1 | y1 | x2 | y2 | dist | distSqr | last | tr
  deriving DecidableEq, Repr

def LV.base : LV → String
  | .isForward => "is_forward" | .lineId => "line_id" | .width => "width"
  | .maxDistance => "max_distance" | .distanceMetric => "distance_metric"
  | .start => "start" | .end_ => "end" | .step => "step" | .nValues => "n_values" | .pixel => "pixel"
  | .i => "i" | .isTarget => "is_target" | .nds => "near_distance_square"
  | .x1 => "x1" | .y1 => "y1" | .x2 => "x2" | .y2 => "y2" | .dist => "dist" | .distSqr => "dist_sqr"
  | .last => "last" | .tr => "tr"

/-- a naming of the line function: scalar names, and the arrays passed for `source_line`, `xs`, `ys`, `values`
    (the five arrays it writes keep their names in every copy) -/
structure Names where
  nm : LV → String
  src : String
  xs : String
  ys : String
  vals : String

/-- well-formed: distinct scalars; the read-only numeric arrays are not `line_proximity` -/
structure Names.WF (N : Names) : Prop where
  inj : ∀ a b, N.nm a = N.nm b → a = b
  src_ne : N.src ≠ "line_proximity"
  xs_ne : N.xs ≠ "line_proximity"
  ys_ne : N.ys ≠ "line_proximity"
  vals_ne : N.vals ≠ "line_proximity"

theorem Names.WF.nm_eq {N : Names} (h : N.WF) (a b : LV) : (N.nm a = N.nm b) = (a = b) := by
  apply propext; constructor
  · exact h.inj a b
  · intro e; rw [e]

/-- the naming with a common prefix -/
def Names.pfx (p src xs ys vals : String) : Names :=
  { nm := fun a => p ++ a.base, src := src, xs := xs, ys := ys, vals := vals }

theorem LV.base_inj (a b : LV) (h : a.base = b.base) : a = b := by
  cases a <;> cases b <;> first | rfl | (exfalso; revert h; decide)

theorem Names.pfx_wf (p src xs ys vals : String) (h1 : src ≠ "line_proximity") (h2 : xs ≠ "line_proximity")
    (h3 : ys ≠ "line_proximity") (h4 : vals ≠ "line_proximity") : (Names.pfx p src xs ys vals).WF :=
  { inj := fun a b h => LV.base_inj a b ((String.append_right_inj p).1 h)
    src_ne := h1, xs_ne := h2, ys_ne := h3, vals_ne := h4 }

/-! ### the template -/
section template
variable (N : Names)

/-- `is_target = False` -/
def bInit : St := .setB (N.nm .isTarget) .ff

/-- "Is the current pixel a target pixel?" -/
def bTest : St :=
  .ite (.cmpI .eq (.var (N.nm .nValues)) (.lit 0))
    (.ite (.and (.cmpF .ne (.ld1 N.src (.var (N.nm .pixel))) (.ofInt (.lit 0))) (.isfinite (.ld1 N.src (.var (N.nm .pixel)))))
      (.setB (N.nm .isTarget) .tt)
      .skip)
    (.forRange (N.nm .i) (.lit 0) (.var (N.nm .nValues)) (.lit 1)
      (.ite (.cmpF .eq (.ld1 N.src (.var (N.nm .pixel))) (.ld1 N.vals (.var (N.nm .i))))
        (.setB (N.nm .isTarget) .tt)
        .skip))

/-- `if is_target: ...; continue` -/
def bTgt : St :=
  .ite (.var (N.nm .isTarget))
    (.seq (.stF1 "line_proximity" (.var (N.nm .pixel)) (.lit 0 1))
    (.seq (.stI1 "nearest_xs" (.var (N.nm .pixel)) (.var (N.nm .pixel)))
    (.seq (.stI1 "nearest_ys" (.var (N.nm .pixel)) (.var (N.nm .lineId)))
    (.seq (.stI1 "pan_near_x" (.var (N.nm .pixel)) (.var (N.nm .pixel)))
    (.seq (.stI1 "pan_near_y" (.var (N.nm .pixel)) (.var (N.nm .lineId)))
    .cont)))))
    .skip

/-- `near_distance_square = max_distance ** 2 * 2.0` -/
def bNds : St :=
  .setF (N.nm .nds) (.bin .mul (.bin .mul (.var (N.nm .maxDistance)) (.var (N.nm .maxDistance))) (.lit 2 1))

/-- the six assignments that compute `dist_sqr` for the target remembered at position `q` -/
def bDist (q : LV) (tail : St) : St :=
  (.seq (.setF (N.nm .x1) (.ld2 N.xs (.ld1 "pan_near_y" (.var (N.nm q))) (.ld1 "pan_near_x" (.var (N.nm q)))))
  (.seq (.setF (N.nm .y1) (.ld2 N.ys (.ld1 "pan_near_y" (.var (N.nm q))) (.ld1 "pan_near_x" (.var (N.nm q)))))
  (.seq (.setF (N.nm .x2) (.ld2 N.xs (.var (N.nm .lineId)) (.var (N.nm .pixel))))
  (.seq (.setF (N.nm .y2) (.ld2 N.ys (.var (N.nm .lineId)) (.var (N.nm .pixel))))
  (.seq (.setF (N.nm .dist) (.ext "_distance" (.var (N.nm .x1)) (.var (N.nm .x2)) (.var (N.nm .y1)) (.var (N.nm .y2)) (.var (N.nm .distanceMetric))))
  (.seq (.setF (N.nm .distSqr) (.bin .mul (.var (N.nm .dist)) (.var (N.nm .dist))))
  tail))))))

/-- "Are we near(er) to the closest target to the above (below) pixel?" -/
def bAbove : St :=
  .ite (.cmpI .ne (.ld1 "pan_near_x" (.var (N.nm .pixel))) (.lit (-1)))
    (bDist N .pixel
      (.ite (.cmpF .lt (.var (N.nm .distSqr)) (.var (N.nm .nds)))
        (.setF (N.nm .nds) (.var (N.nm .distSqr)))
        (.seq (.stI1 "pan_near_x" (.var (N.nm .pixel)) (.lit (-1)))
        (.stI1 "pan_near_y" (.var (N.nm .pixel)) (.lit (-1))))))
    .skip

/-- "... to the left (right) pixel?" (`q = last`, `lim = start`, tested on `pixel`) and
    "... to the topright (bottom left) pixel?" (`q = tr`, `lim = end`, tested on `tr`) -/
def bNb (g q lim : LV) : St :=
  .ite (.and (.cmpI .ne (.var (N.nm g)) (.var (N.nm lim))) (.cmpI .ne (.ld1 "pan_near_x" (.var (N.nm q))) (.lit (-1))))
    (bDist N q
      (.ite (.cmpF .lt (.var (N.nm .distSqr)) (.var (N.nm .nds)))
        (.seq (.setF (N.nm .nds) (.var (N.nm .distSqr)))
        (.seq (.stI1 "pan_near_x" (.var (N.nm .pixel)) (.ld1 "pan_near_x" (.var (N.nm q))))
        (.stI1 "pan_near_y" (.var (N.nm .pixel)) (.ld1 "pan_near_y" (.var (N.nm q))))))
        .skip))
    .skip

def bLastSet : St := .setI (N.nm .last) (.bin .sub (.var (N.nm .pixel)) (.var (N.nm .step)))
def bTrSet : St := .setI (N.nm .tr) (.bin .add (.var (N.nm .pixel)) (.var (N.nm .step)))

/-- "Update our proximity value." -/
def bUpd : St :=
  .ite (.and (.cmpI .ne (.ld1 "pan_near_x" (.var (N.nm .pixel))) (.lit (-1)))
        (.and (.cmpF .ge (.bin .mul (.var (N.nm .maxDistance)) (.var (N.nm .maxDistance))) (.var (N.nm .nds)))
          (.or (.cmpF .lt (.ld1 "line_proximity" (.var (N.nm .pixel))) (.ofInt (.lit 0)))
               (.cmpF .lt (.var (N.nm .nds)) (.bin .mul (.ld1 "line_proximity" (.var (N.nm .pixel))) (.ld1 "line_proximity" (.var (N.nm .pixel))))))))
    (.seq (.stF1 "line_proximity" (.var (N.nm .pixel)) (.un .sqrt (.var (N.nm .nds))))
    (.seq (.stI1 "nearest_xs" (.var (N.nm .pixel)) (.ld1 "pan_near_x" (.var (N.nm .pixel))))
    (.stI1 "nearest_ys" (.var (N.nm .pixel)) (.ld1 "pan_near_y" (.var (N.nm .pixel))))))
    .skip

/-- the candidate phases and the update of a non-target pixel -/
def bCand : St :=
  (.seq (bNds N)
  (.seq (bAbove N)
  (.seq (bLastSet N)
  (.seq (bNb N .pixel .last .start)
  (.seq (bTrSet N)
  (.seq (bNb N .tr .tr .end_)
  (bUpd N)))))))

/-- the loop body: one pixel -/
def pixelBody : St :=
  (.seq (bInit N)
  (.seq (bTest N)
  (.seq (bTgt N)
  (bCand N))))

/-- `start`, `end`, `step`, `n_values`, then `tail` -/
def prologueThen (tail : St) : St :=
  (.seq (.setI (N.nm .start) (.bin .sub (.var (N.nm .width)) (.lit 1)))
  (.seq (.setI (N.nm .end_) (.lit (-1)))
  (.seq (.setI (N.nm .step) (.lit (-1)))
  (.seq (.ite (.var (N.nm .isForward))
    (.seq (.setI (N.nm .start) (.lit 0))
    (.seq (.setI (N.nm .end_) (.var (N.nm .width)))
    (.setI (N.nm .step) (.lit 1))))
    .skip)
  (.seq (.setI (N.nm .nValues) (.dim N.vals 0))
  tail)))))

def sweepLoop : St :=
  .forRange (N.nm .pixel) (.var (N.nm .start)) (.var (N.nm .end_)) (.var (N.nm .step)) (pixelBody N)

end template

/-- `_process_proximity_line` with the names of `N` (same statements as `Gen.IL.proximityLine.body`,
    prologue; loop; return) -/
def lineBody (N : Names) : St := prologueThen N (.seq (sweepLoop N) .ret)

/-- the stand-alone program uses the plain names -/
def N0 : Names := Names.pfx "" "source_line" "xs" "ys" "values"

theorem N0_wf : N0.WF := Names.pfx_wf _ _ _ _ _ (by decide) (by decide) (by decide) (by decide)

/-- **the generated `_process_proximity_line` is the template at the plain names** -/
theorem proximityLine_is_template : Gen.IL.proximityLine.body = lineBody N0 := rfl

end XrsVerif.IL.Px
