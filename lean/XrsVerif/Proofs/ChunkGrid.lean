import XrsVerif.Proofs.ZonalDask
import Mathlib.Data.List.Perm.Basic
/-
  Proofs/ChunkGrid.lean -- the dask chunk grid is a partition of the raster:
  for every list of row chunk sizes summing to `h` and column chunk sizes summing to `w`, the blocks
  of `gridBlocks w rs cs`, concatenated, are a permutation of the flat indices `0 .. h*w-1`;
  and `pairBlocks` with the rechunk (`align = true`) pairs every zones block with the values block
  over the same cells, whatever the chunking the values arrived with.
-/
set_option linter.unusedSectionVars false
set_option linter.unusedVariables false
namespace XrsVerif.Zonal

/-- consecutive chunk ranges tile `[off, off + sum)` -/
theorem chunkRanges_flat (cs : List Nat) (off : Nat) :
    (chunkRanges off cs).flatMap (fun r => List.range' r.1 r.2) = List.range' off cs.sum := by
  induction cs generalizing off with
  | nil => simp [chunkRanges]
  | cons c cs ih =>
    simp only [chunkRanges, List.flatMap_cons, List.sum_cons, ih]
    rw [List.range'_append_1]

theorem flatMap_swap {α β γ : Type} (l1 : List α) (l2 : List β) (f : α → β → List γ) :
    (l1.flatMap (fun a => l2.flatMap (fun b => f a b))).Perm (l2.flatMap (fun b => l1.flatMap (fun a => f a b))) := by
  induction l1 with
  | nil => simp
  | cons a l1 ih =>
    simp only [List.flatMap_cons]
    exact (List.Perm.append_left _ ih).trans (List.flatMap_append_perm l2 (f a) (fun b => l1.flatMap (fun a => f a b)))

/-- row-major enumeration of an `h × w` raster -/
theorem rowMajor_eq_range (h w : Nat) :
    (List.range' 0 h).flatMap (fun i => (List.range' 0 w).map (fun j => i * w + j)) = List.range (h * w) := by
  induction h with
  | zero => simp
  | succ h ih =>
    rw [List.range'_1_concat, List.flatMap_append, ih]
    simp only [Nat.zero_add, List.flatMap_cons, List.flatMap_nil, List.append_nil]
    rw [Nat.succ_mul, List.range_add]
    congr 1
    rw [List.range_eq_range']

/-- **the chunk grid partitions the raster** -/
theorem gridBlocks_perm (h w : Nat) (rs cs : List Nat) (hr : rs.sum = h) (hc : cs.sum = w) :
    (gridBlocks w rs cs).flatten.Perm (List.range (h * w)) := by
  unfold gridBlocks
  have hflat : ∀ (l : List (Nat × Nat)) (f : Nat × Nat → List (List Nat)),
      (l.flatMap f).flatten = l.flatMap (fun a => (f a).flatten) := by
    intro l f
    induction l with
    | nil => rfl
    | cons a l ih => simp [ih]
  rw [hflat]
  simp only [← List.flatMap_def]
  have step : ∀ r : Nat × Nat,
      ((chunkRanges 0 cs).flatMap (fun c => blockCells w r c)).Perm
        ((List.range' r.1 r.2).flatMap (fun i => (List.range' 0 w).map (fun j => i * w + j))) := by
    intro r
    unfold blockCells
    refine (flatMap_swap (chunkRanges 0 cs) (List.range' r.1 r.2)
      (fun c i => (List.range' c.1 c.2).map (fun j => i * w + j))).trans ?_
    apply List.Perm.of_eq
    congr 1
    funext i
    rw [← List.map_flatMap, chunkRanges_flat, hc]
  have h2 : ((chunkRanges 0 rs).flatMap (fun r => (chunkRanges 0 cs).flatMap (fun c => blockCells w r c))).Perm
      ((chunkRanges 0 rs).flatMap (fun r =>
        (List.range' r.1 r.2).flatMap (fun i => (List.range' 0 w).map (fun j => i * w + j)))) :=
    List.Perm.flatMap_left _ (fun r _ => step r)
  refine h2.trans (List.Perm.of_eq ?_)
  rw [← List.flatMap_assoc, chunkRanges_flat, hr, rowMajor_eq_range]

/-- with the rechunk every pair of `zip(zones_blocks, values_blocks)` covers the same cells, namely a
    block of the *zones* chunking -- whatever chunking `vch` the values arrived with -/
theorem pairBlocks_aligned (w : Nat) (zch vch : List Nat × List Nat) (perms : List (List Nat))
    (hl : perms.length = (gridBlocks w zch.1 zch.2).length) :
    (∀ b ∈ pairBlocks true w zch vch perms, b.vc = b.zc) ∧
    (pairBlocks true w zch vch perms).map (fun b => b.zc) = gridBlocks w zch.1 zch.2 ∧
    (pairBlocks true w zch vch perms).map (fun b => b.perm) = perms := by
  unfold pairBlocks
  simp only [if_true]
  generalize gridBlocks w zch.1 zch.2 = zb at hl
  induction zb generalizing perms with
  | nil =>
    cases perms with
    | nil => simp
    | cons p ps => simp at hl
  | cons z zb ih =>
    cases perms with
    | nil => simp at hl
    | cons p ps =>
      have := ih ps (by simpa using hl)
      simp only [List.zip_cons_cons, List.map_cons, List.mem_cons, forall_eq_or_imp, true_and]
      exact ⟨this.1, by rw [this.2.1], by rw [this.2.2]⟩

end XrsVerif.Zonal
