import XrsVerif.Proofs.ILViewshedDelCopy
import XrsVerif.Proofs.ILViewshedFixDelMain
/-
  Proofs/ILViewshedDelMain.lean -- `_delete_from_tree` after the choice of the node `y` to splice out (`delRest`):
  the splice, the four recomputation passes and the colour fix-up, composed.

  * `delRest_spec`   with `y` at the position `cy` (one child NIL) and `z = y` or `z` the frame `below.length` levels
                     above: the arrays afterwards hold `rbDelFix` (when `y` was black and its child `x` is a node) of
                     the pass-form model `delPassT` (Proofs/ILViewshedDelPass.lean) plugged together; linkage, the NIL
                     row, the colour sanity are kept; `ret0` = the new root, `ret1` = `y` (the freed row).
-/
set_option linter.unusedSectionVars false
set_option linter.unusedVariables false
set_option linter.unusedSimpArgs false
namespace XrsVerif.ILVs
open XrsVerif XrsVerif.IL XrsVerif.Viewshed
variable {F : Type} [Fl F]

theorem exec_seqK' (fuel : Nat) (as : List St) (hne : as ≠ []) (k : St) (s : State F) :
    exec fuel (seqK as k) s = exec fuel (.seq (seqL as) k) s := by
  cases as with
  | nil => exact absurd rfl hne
  | cons a r => exact exec_seqK fuel r a k s

theorem exec_seq_congr (fuel : Nat) (a x y : St) (s : State F) (h : ∀ s' : State F, exec fuel x s' = exec fuel y s') :
    exec fuel (.seq a x) s = exec fuel (.seq a y) s := by
  simp only [exec_seq, h]

theorem exec_seq3K (fuel : Nat) (a b c k : St) (s : State F) (h : (exec fuel (.seq (.seq a b) c) s).ctl = .run) :
    exec fuel (.seq a (.seq b (.seq c k))) s = exec fuel k (exec fuel (.seq (.seq a b) c) s) := by
  rw [exec_seq_assoc, exec_seq_assoc, exec_seq_run _ _ _ _ h]

/-- the cut of `delRest`: guard, then splice + L1 + F1, then the rest -/
theorem delRest_exec (fuel : Nat) (s : State F) (y : Nat) (hy : s.ienv "y" = y) (hrun : s.ctl = .run)
    (h1 : (exec fuel (.seq (.seq (seqL delSpliceItems) delL1) (seqL (recompFixItems "10"))) s).ctl = .run) :
    exec fuel delRest s = exec fuel (.seq delCopy (.seq delFixCall delEnd))
      (exec fuel (.seq (.seq (seqL delSpliceItems) delL1) (seqL (recompFixItems "10"))) s) := by
  have hne : ¬ ((y : Int) = -1) := by omega
  have hg : exec fuel delGuard s = s := by
    simp only [delGuard]
    rw [exec_ite_false _ _ _ _ _ (by simp [BE.ok, IE.ok_var, IE.ok_lit]) (by simp [BE.eval, IE.eval_var, IE.eval_lit, cmpInt, hy, hne]),
      exec_skip]
  rw [delRest_eq]
  simp only [delRest']
  rw [exec_seq_run _ _ _ _ (by rw [hg]; exact hrun), hg]
  rw [exec_seqK' _ _ (by intro h; cases h)]
  rw [exec_seq_congr _ _ _ _ _ (fun s' => exec_seq_congr _ _ _ _ s' (fun s'' => exec_seqK' fuel _ (by intro h; cases h) _ s''))]
  exact exec_seq3K _ _ _ _ _ _ h1

theorem l1f1T_fst {α : Type} [LT α] [DecidableLT α] [LE α] [DecidableLE α] (eqf : α → α → Bool) (S : α) (xT : Tree α)
    (yn : Node α) (frames : List (TFr α)) (hne : frames ≠ []) : (l1f1T eqf S xT yn frames).1 = xT := by
  unfold l1f1T
  have hlen := scanT_length (l1Step eqf S (minv yn)) frames (mxOf S xT)
  cases hsc : scanT (l1Step eqf S (minv yn)) (mxOf S xT) frames with
  | nil =>
    rw [hsc] at hlen
    exact absurd (List.length_eq_zero_iff.mp hlen.symm) hne
  | cons f rest => rfl

theorem rootOr_ptr (xsh : Sh) (old : Int) (cy : Ctx) (ysh : Sh) (hold : old = (plug ysh cy).ptr) :
    rootOr xsh.ptr old cy = (plug xsh cy).ptr := by
  cases cy with
  | nil => rfl
  | cons fr rest => simp only [rootOr, hold]; exact plug_ptr_cons fr rest _ _

theorem delEnd_spec (fuel : Nat) (s : State F) (hrun : s.ctl = .run) :
    exec fuel delEnd s =
      { s with ienv := setS (setS s.ienv "ret0" (s.ienv "root")) "ret1" (s.ienv "deleted"), ctl := .ret } := by
  simp only [delEnd]
  rw [exec_seq_run _ _ _ _ (by rw [exec_setI _ _ _ _ (IE.ok_var _ _)]; exact hrun), exec_setI _ _ _ _ (IE.ok_var _ _),
    IE.eval_var, exec_seq_run _ _ _ _ (by rw [exec_setI _ _ _ _ (IE.ok_var _ _)]; exact hrun),
    exec_setI _ _ _ _ (IE.ok_var _ _), IE.eval_var, exec_ret]
  simp [setS]

/-- the pass-form model on the abstraction of a position: `x`'s subtree and the ancestors of `y` after the passes,
    plugged together -/
def delPassArr (V : List F) (N : List Int) (n : Nat) (xsh : Sh) (y : Nat) (cy : Ctx) (jz : Option Nat) : Tree (Fv F) :=
  plugT (delPassT feq (vAt V (n - 1) 7) (absT V N xsh) (nodeAt V y) (absCtx V N cy) jz).1
    (delPassT feq (vAt V (n - 1) 7) (absT V N xsh) (nodeAt V y) (absCtx V N cy) jz).2

theorem delCopy_wI : "x" ∉ wI delCopy ∧ "root" ∉ wI delCopy ∧ "y" ∉ wI delCopy ∧ "deleted" ∉ wI delCopy := by decide
theorem delFixThen_wI : "deleted" ∉ wI delFixThen := by decide

/-- **`_delete_from_tree` after the choice of `y`** -/
theorem delRest_spec (fuel n : Nat) (s : State F) (hv : VS s n) (hrun : s.ctl = .run) (cy : Ctx) (yl : Sh) (y : Nat) (yr : Sh)
    (xsh : Sh) (hxsh : xsh = spliceSub yl yr) (hone : yl = .nil ∨ yr = .nil)
    (hL : Linked (s.ia "tree_nodes") n (-1) (plug (.node yl y yr) cy)) (hN : (plug (.node yl y yr) cy).idxs.Nodup)
    (hy : s.ienv "y" = y) (hroot : s.ienv "root" = (plug (.node yl y yr) cy).ptr)
    (hne : cy = [] → xsh ≠ .nil) (hnil : nAt (s.ia "tree_nodes") (n - 1) 0 = 1)
    (hcol : ∀ j ∈ (plug (.node yl y yr) cy).idxs, ColV (nAt (s.ia "tree_nodes") j 0)) (jz : Option Nat)
    (hz : (jz = none ∧ s.ienv "z" = y) ∨
      (∃ below zf above, jz = some below.length ∧ cy = below ++ zf :: above ∧ s.ienv "z" = (zf.idx : Int) ∧ y ≠ zf.idx))
    (hf : cy.length + 2 ≤ fuel) :
    (exec fuel delRest s).ctl = .ret ∧ VS (exec fuel delRest s) n ∧
    ∃ sh' : Sh, Linked ((exec fuel delRest s).ia "tree_nodes") n (-1) sh' ∧ sh'.idxs = (plug xsh cy).idxs ∧
      absT ((exec fuel delRest s).fa "tree_vals") ((exec fuel delRest s).ia "tree_nodes") sh' =
        (if nAt (s.ia "tree_nodes") y 0 = 1 ∧ xsh.ptr ≠ -1
          then rbDelFix (vAt (s.fa "tree_vals") (n - 1) 7) (cy.map Fr.dir)
            (delPassArr (s.fa "tree_vals") (s.ia "tree_nodes") n xsh y cy jz)
          else delPassArr (s.fa "tree_vals") (s.ia "tree_nodes") n xsh y cy jz) ∧
      (exec fuel delRest s).ienv "ret0" = sh'.ptr ∧ (exec fuel delRest s).ienv "ret1" = y ∧
      vAt ((exec fuel delRest s).fa "tree_vals") (n - 1) 7 = vAt (s.fa "tree_vals") (n - 1) 7 ∧
      nAt ((exec fuel delRest s).ia "tree_nodes") (n - 1) 0 = 1 ∧
      (∀ j ∈ sh'.idxs, ColV (nAt ((exec fuel delRest s).ia "tree_nodes") j 0)) := by
  have hne' : cy = [] → spliceSub yl yr ≠ .nil := by rw [← hxsh]; exact hne
  obtain ⟨a1, a2, a3, a4, a5, a6, a7, a8, a9, a10, a11⟩ := delL1F1_spec fuel n s hv hrun cy yl y yr hone hL hN hy hne' (by omega)
  obtain ⟨g1, g2, g3, g4, g5, g6, g7, g8, g9⟩ := spliceArr_linked cy yl y yr hone hL hN hv.lenN hv.pos
  rw [delRest_exec fuel s y hy hrun a1]
  rw [← hxsh] at a3 a4 a5 a6 a7 a8 g1 g2 g3 g4 g5 g6 g7 g8 g9
  generalize hs1 : exec fuel (.seq (.seq (seqL delSpliceItems) delL1) (seqL (recompFixItems "10"))) s = s1
    at a1 a2 a3 a4 a5 a6 a7 a8 a9 a10 a11
  generalize hN' : spliceArr (s.ia "tree_nodes") n xsh.ptr cy = N' at a3 a4 a5 g1 g3 g4 g5 g6 g7
  have hyn : y + 1 < n := Linked.idx_lt hL y (mem_plug _ cy _ (by simp [Sh.idxs]))
  have hctxlt : ∀ i ∈ ctxIdxs cy, i + 1 < n := fun i hi =>
    Linked.idx_lt hL i ((mem_plug_iff cy _ i).mpr (Or.inr hi))
  -- the NIL row's stored maximum
  have hS1 : vAt (s1.fa "tree_vals") (n - 1) 7 = vAt (s.fa "tree_vals") (n - 1) 7 := by
    refine a6 _ _ (by decide) (Or.inr ⟨fun h => ?_, fun hc => ?_⟩)
    · have := hctxlt _ ((frameRows_sublist cy).subset h); omega
    · cases xsh with
      | nil => exact absurd rfl (hne hc)
      | node a b c =>
        have : b + 1 < n := Linked.idx_lt g1 b (mem_plug _ cy _ (by simp [Sh.idxs]))
        simp only [Sh.ptr]; omega
  have hnodeY : nodeAt (s1.fa "tree_vals") y = nodeAt (s.fa "tree_vals") y := by
    simp only [nodeAt]
    rw [a6 y 0 (by decide) (Or.inl (by decide)), a6 y 1 (by decide) (Or.inl (by decide)), a6 y 2 (by decide) (Or.inl (by decide)),
      a6 y 3 (by decide) (Or.inl (by decide)), a6 y 4 (by decide) (Or.inl (by decide)), a6 y 5 (by decide) (Or.inl (by decide)),
      a6 y 6 (by decide) (Or.inl (by decide))]
  have hxT : absT (s.fa "tree_vals") N' xsh = absT (s.fa "tree_vals") (s.ia "tree_nodes") xsh := absT_col g4 xsh
  -- the successor copy
  have key : ∃ s2 : State F, exec fuel delCopy s1 = s2 ∧ s2.ctl = .run ∧ VS s2 n ∧ s2.ia "tree_nodes" = N' ∧
      absT (s2.fa "tree_vals") N' (plug xsh cy) = delPassArr (s.fa "tree_vals") (s.ia "tree_nodes") n xsh y cy jz ∧
      vAt (s2.fa "tree_vals") (n - 1) 7 = vAt (s.fa "tree_vals") (n - 1) 7 ∧
      s2.ienv "x" = xsh.ptr ∧ s2.ienv "root" = (plug xsh cy).ptr ∧ s2.ienv "y" = y ∧ s2.ienv "deleted" = y := by
    have hrt : s1.ienv "root" = (plug xsh cy).ptr := by rw [a8]; exact rootOr_ptr xsh _ cy _ hroot
    rcases hz with ⟨hjz, hzy⟩ | ⟨below, zf, above, hjz, hcy, hzv, hyz⟩
    · refine ⟨s1, delCopyA_spec fuel s1 a1 y a9 (by rw [a11]; exact hzy), a1, a2, a3, ?_, hS1, a7, hrt, a9, a10⟩
      rw [absT_plug, a4, a5, hjz]
      rfl
    · have hfr := exec_frame fuel delCopy s1
      obtain ⟨b1, b2, b3, b4, b5, b6, b7⟩ := delCopyB_spec fuel n s1 a2 a1 xsh y below zf above hyz hyn
        (by rw [a3, ← hcy]; exact g1) (by rw [← hcy]; exact g2) (by rw [← hcy]; exact g9) a9 (by rw [a11]; exact hzv) a7
        (by rw [a3, ← hcy]; exact g6) (by rw [hcy] at hf; simp at hf; omega)
      rw [a3] at b4 b5
      rw [← hcy] at b5
      refine ⟨_, rfl, b1, b2, by rw [b3]; exact a3, ?_, by rw [b6]; exact hS1, by rw [hfr.ienv _ delCopy_wI.1]; exact a7,
        by rw [hfr.ienv _ delCopy_wI.2.1]; exact hrt, by rw [hfr.ienv _ delCopy_wI.2.2.1]; exact a9,
        by rw [hfr.ienv _ delCopy_wI.2.2.2]; exact a10⟩
      have hcne : absCtx (s.fa "tree_vals") (s.ia "tree_nodes") cy ≠ [] := by
        rw [hcy]; intro h
        have := congrArg List.length h
        rw [absCtx_length] at this
        simp at this
      have h1 := l1f1T_fst feq (vAt (s.fa "tree_vals") (n - 1) 7) (absT (s.fa "tree_vals") (s.ia "tree_nodes") xsh)
        (nodeAt (s.fa "tree_vals") y) _ hcne
      rw [absT_plug, b4, b5, a4, a5, hS1, hnodeY, hjz]
      simp only [delPassArr, delPassT]
      rw [h1]
  obtain ⟨s2, k1, k2, k3, k4, k5, k6, k7, k8, k9, k10⟩ := key
  rw [exec_seq_run _ _ _ _ (by rw [k1]; exact k2), k1]
  -- the colour fix-up
  have hiny : inRange (y : Int) n = true := inRange_ptr n _ (by omega) k3.pos
  have tok : BE.ok s2 (.and (.cmpI .eq (.ld2 "tree_nodes" (.var "y") (.lit 0)) (.lit 1)) (.cmpI .ne (.var "x") (.lit (-1)))) = true := by
    simp [BE.ok, okN s2 n k3.shpN, k9, hiny, IE.ok_var, IE.ok_lit]
  have tev : BE.eval s2 (.and (.cmpI .eq (.ld2 "tree_nodes" (.var "y") (.lit 0)) (.lit 1)) (.cmpI .ne (.var "x") (.lit (-1)))) =
      (decide (nAt (s.ia "tree_nodes") y 0 = 1) && decide (xsh.ptr ≠ -1)) := by
    simp only [BE.eval_and, BE.eval_cmpI, evalN s2 n k3.shpN _ 0 (by decide : (0 : Int) ≤ 0), k9, rowOf_nat, IE.eval_var,
      IE.eval_lit, k7, cmpInt, k4, (by decide : (0 : Int).toNat = 0), g4]
  have hnil2 : nAt (s2.ia "tree_nodes") (n - 1) 0 = 1 := by rw [k4, g4]; exact hnil
  have hcol2 : ∀ j ∈ (plug xsh cy).idxs, ColV (nAt (s2.ia "tree_nodes") j 0) := fun j hj => by
    rw [k4, g4]; exact hcol j (g8 j hj)
  by_cases hc : nAt (s.ia "tree_nodes") y 0 = 1 ∧ xsh.ptr ≠ -1
  · rw [if_pos hc]
    obtain ⟨xl, x, xr, hx⟩ : ∃ xl x xr, xsh = .node xl x xr := by
      cases xsh with
      | nil => exact absurd rfl hc.2
      | node a b c => exact ⟨a, b, c, rfl⟩
    rw [hx] at g1 g2 k5 k7 k8 hcol2 hc tev
    have hfr := exec_frame fuel delFixThen s2
    obtain ⟨f1, f2, sh', f3, f4, f5, f6, f7, f8, f9⟩ := delFixThen_spec fuel n s2 xl x xr cy k3 k2 (by rw [k4]; exact g1) g2 k7 k8
      hnil2 hcol2 hf
    rw [delFixCall_eq, exec_seq_run _ _ _ _ (by
      rw [exec_ite_true _ _ _ _ _ tok (by rw [tev]; simp [hc.1, hc.2])]; exact f1),
      exec_ite_true _ _ _ _ _ tok (by rw [tev]; simp [hc.1, hc.2])]
    generalize hs3 : exec fuel delFixThen s2 = s3 at f1 f2 f3 f5 f6 f7 f8 f9 hfr
    rw [delEnd_spec fuel s3 f1]
    rw [k4] at f5
    refine ⟨rfl, ⟨f2.shpV, f2.shpN, f2.lenV, f2.lenN, f2.pos⟩, sh', f3, by rw [f4, hx], ?_, by simp [setS, f6],
      by simp [setS]; rw [hfr.ienv _ delFixThen_wI]; exact k10, by rw [← k6]; exact f7, f8, f9⟩
    show absT (s3.fa "tree_vals") (s3.ia "tree_nodes") sh' = _
    rw [f5, k5, k6, hx]
  · rw [if_neg hc]
    rw [delFixCall_eq, exec_seq_run _ _ _ _ (by
      rw [exec_ite_false _ _ _ _ _ tok (by rw [tev]; simpa using hc), exec_skip]; exact k2),
      exec_ite_false _ _ _ _ _ tok (by rw [tev]; simpa using hc), exec_skip, delEnd_spec fuel s2 k2]
    refine ⟨rfl, ⟨k3.shpV, k3.shpN, k3.lenV, k3.lenN, k3.pos⟩, plug xsh cy, by
      show Linked (s2.ia "tree_nodes") n (-1) _
      rw [k4]; exact g1, rfl, ?_, by simp [setS, k8], by simp [setS, k10], k6, hnil2, hcol2⟩
    show absT (s2.fa "tree_vals") (s2.ia "tree_nodes") _ = _
    rw [k4]; exact k5

end XrsVerif.ILVs
