import XrsVerif.Proofs.ILProxLoops
import XrsVerif.Proofs.ILProxRel
/-
  Proofs/ILProxMerge.lean -- the generated `_calc_direction` (`dirF`), its inlined copies, and the statement
  that writes `output_img[line][i]` after a sweep (`mergeStmt`).
-/
namespace XrsVerif.IL.Px
open XrsVerif XrsVerif.Prox
variable {F : Type} [Fl F]
set_option linter.unusedSectionVars false
set_option linter.unusedSimpArgs false
attribute [-simp] List.getD_eq_getElem?_getD
attribute [local simp] List.getD_cons_zero List.getD_cons_succ

/-- `_calc_direction(x1, x2, y1, y2)` on numbers -/
def dirF (x1 x2 y1 y2 : F) : F :=
  if (Fl.eq x1 x2 && Fl.eq y1 y2) = true then Fl.lit 0 1
  else
    if Fl.lt (Fl.mul (Fl.atan2 (Fl.neg (Fl.sub y2 y1)) (Fl.sub x2 x1)) (Fl.lit 2864789 50000)) (Fl.lit 0 1) = true then
      Fl.sub (Fl.lit 90 1) (Fl.mul (Fl.atan2 (Fl.neg (Fl.sub y2 y1)) (Fl.sub x2 x1)) (Fl.lit 2864789 50000))
    else if Fl.lt (Fl.lit 90 1) (Fl.mul (Fl.atan2 (Fl.neg (Fl.sub y2 y1)) (Fl.sub x2 x1)) (Fl.lit 2864789 50000)) = true then
      Fl.add (Fl.sub (Fl.lit 360 1) (Fl.mul (Fl.atan2 (Fl.neg (Fl.sub y2 y1)) (Fl.sub x2 x1)) (Fl.lit 2864789 50000))) (Fl.lit 90 1)
    else Fl.sub (Fl.lit 90 1) (Fl.mul (Fl.atan2 (Fl.neg (Fl.sub y2 y1)) (Fl.sub x2 x1)) (Fl.lit 2864789 50000))

/-- the locals of `_calc_direction` -/
def dirLocals : List String := ["x1", "x2", "y1", "y2", "x", "y", "d", "ret0"]

/-- the body of `_calc_direction` (any prefix `D`), run to its `return`: only numeric locals change, `ret0` is `dirF` -/
theorem dirBody_exec (D : String) (u : State F) (fuel : Nat) (hu : u.ctl = .run) :
    ∃ e : String → F, exec fuel (dirBody D) u = { u with fenv := e, ctl := .ret } ∧
      e (D ++ "ret0") = dirF (u.fenv (D ++ "x1")) (u.fenv (D ++ "x2")) (u.fenv (D ++ "y1")) (u.fenv (D ++ "y2")) ∧
      ∀ v, (∀ x ∈ dirLocals, v ≠ D ++ x) → e v = u.fenv v := by
  generalize hx1 : u.fenv (D ++ "x1") = x1
  generalize hx2 : u.fenv (D ++ "x2") = x2
  generalize hy1 : u.fenv (D ++ "y1") = y1
  generalize hy2 : u.fenv (D ++ "y2") = y2
  cases h0 : (Fl.eq x1 x2 && Fl.eq y1 y2) with
  | true =>
    refine ⟨setS u.fenv (D ++ "ret0") (Fl.lit 0 1), ?_, by simp [dirF, h0], ?_⟩
    · simp at h0
      simp [dirBody, exec, exec_seq, hu, BE.ok, BE.eval, FE.ok, FE.eval, IE.ok, IE.eval, CmpOp.eval, hx1, hx2, hy1, hy2, h0]
    · intro v hv; simp [setS, hv "ret0" (by simp [dirLocals])]
  | false =>
    generalize hd : Fl.mul (Fl.atan2 (Fl.neg (Fl.sub y2 y1)) (Fl.sub x2 x1)) (Fl.lit 2864789 50000) = d
    have key : ∀ res : F,
        (dirF x1 x2 y1 y2 = res) →
        (exec fuel (dirBody D) u = { u with fenv := setS (setS (setS (setS (setS u.fenv (D ++ "x") (Fl.sub x2 x1))
            (D ++ "y") (Fl.sub y2 y1)) (D ++ "d") d) (D ++ "d") res) (D ++ "ret0") res, ctl := .ret }) →
        ∃ e : String → F, exec fuel (dirBody D) u = { u with fenv := e, ctl := .ret } ∧
          e (D ++ "ret0") = dirF x1 x2 y1 y2 ∧ ∀ v, (∀ x ∈ dirLocals, v ≠ D ++ x) → e v = u.fenv v := by
      intro res h1 h2
      refine ⟨_, h2, by simp [h1], ?_⟩
      intro v hv
      simp [setS, hv "ret0" (by simp [dirLocals]), hv "d" (by simp [dirLocals]), hv "x" (by simp [dirLocals]),
        hv "y" (by simp [dirLocals])]
    have h0' : ¬ (Fl.eq x1 x2 = true ∧ Fl.eq y1 y2 = true) := by simpa using h0
    cases h1 : Fl.lt d (Fl.lit 0 1) with
    | true =>
      apply key (Fl.sub (Fl.lit 90 1) d)
      · simp [dirF, h0, hd, h1]
      · simp [dirBody, exec, exec_seq, hu, BE.ok, BE.eval, FE.ok, FE.eval, IE.ok, IE.eval, CmpOp.eval, BinOp.eval, UnOp.eval,
          hx1, hx2, hy1, hy2, h0', setS, hd, h1]
    | false =>
      cases h2 : Fl.lt (Fl.lit 90 1) d with
      | true =>
        apply key (Fl.add (Fl.sub (Fl.lit 360 1) d) (Fl.lit 90 1))
        · simp [dirF, h0, hd, h1, h2]
        · simp [dirBody, exec, exec_seq, hu, BE.ok, BE.eval, FE.ok, FE.eval, IE.ok, IE.eval, CmpOp.eval, BinOp.eval, UnOp.eval,
            hx1, hx2, hy1, hy2, h0', setS, hd, h1, h2]
      | false =>
        apply key (Fl.sub (Fl.lit 90 1) d)
        · simp [dirF, h0, hd, h1, h2]
        · simp [dirBody, exec, exec_seq, hu, BE.ok, BE.eval, FE.ok, FE.eval, IE.ok, IE.eval, CmpOp.eval, BinOp.eval, UnOp.eval,
            hx1, hx2, hy1, hy2, h0', setS, hd, h1, h2]

/-- **the generated `_calc_direction` computes `dirF`** -/
theorem calcDirection_refines (s : State F) (fuel : Nat) (hs : s.ctl = .run) :
    let r := Gen.IL.calcDirection.run s fuel
    r.ctl = .ret ∧ r.fenv "ret0" = dirF (s.fenv "x1") (s.fenv "x2") (s.fenv "y1") (s.fenv "y2") := by
  simp only [Prog.run, calcDirection_is_template]
  obtain ⟨e, h1, h2, _⟩ := dirBody_exec "" s fuel hs
  rw [h1]
  exact ⟨rfl, by simpa using h2⟩

/-! ### writing `output_img[line][i]` -/

theorem exec_setF_seq (fuel : Nat) (v : String) (e : FE) (rest : St) (s : State F) (hs : s.ctl = .run)
    (hok : e.ok s = true) :
    exec fuel (.seq (.setF v e) rest) s = exec fuel rest { s with fenv := setS s.fenv v (e.eval s) } := by
  rw [exec_seq_run] <;> simp [exec, hok, hs]

/-- what the merge statement leaves unchanged -/
structure MFrame (D : String) (s r : State F) : Prop where
  shp : r.shp = s.shp
  ext : r.ext = s.ext
  ienv : r.ienv = s.ienv
  benv : r.benv = s.benv
  ia : r.ia = s.ia
  fa : ∀ a, a ≠ "output_img" → r.fa a = s.fa a
  fenv : ∀ v, (∀ x ∈ dirLocals, v ≠ D ++ x) → r.fenv v = s.fenv v

theorem MFrame.refl (D : String) (s : State F) : MFrame D s s :=
  ⟨rfl, rfl, rfl, rfl, rfl, fun _ _ => rfl, fun _ _ => rfl⟩

/-- the shapes and indices the merge statement works with -/
structure MergeCtx (H W n k : Nat) (s : State F) : Prop where
  run : s.ctl = .run
  hn : n < H
  hk : k < W
  line : s.ienv "line" = n
  i : s.ienv "i" = k
  nx : s.shp "nearest_xs" = [W]
  ny : s.shp "nearest_ys" = [W]
  lp : s.shp "line_proximity" = [W]
  img : s.shp "img" = [H, W]
  xc : s.shp "x_coords" = [H, W]
  yc : s.shp "y_coords" = [H, W]
  out : s.shp "output_img" = [H, W]
  lout : (s.fa "output_img").length = H * W

theorem MergeCtx.idx {H W n k : Nat} {s : State F} (h : MergeCtx H W n k s) : n * W + k < H * W := by
  have : (n + 1) * W ≤ H * W := Nat.mul_le_mul_right W h.hn
  have := h.hk
  rw [Nat.add_mul] at *
  omega

/-- DIRECTION mode: `output_img[line][i] = _calc_direction(...)` for the nearest target `(tr, tc)` -/
theorem dirCall_exec (D : String) (s : State F) (fuel H W n k tr tc : Nat) (cx : MergeCtx H W n k s)
    (htr : tr < H) (htc : tc < W) (hx : (s.ia "nearest_xs").getD k 0 = tc) (hy : (s.ia "nearest_ys").getD k 0 = tr) :
    ∃ e : String → F, exec fuel (dirCall D) s =
        { s with fenv := e, fa := setS s.fa "output_img" ((s.fa "output_img").set (n * W + k)
          (dirF ((s.fa "x_coords").getD (n * W + k) Fl.nan) ((s.fa "x_coords").getD (tr * W + tc) Fl.nan)
            ((s.fa "y_coords").getD (n * W + k) Fl.nan) ((s.fa "y_coords").getD (tr * W + tc) Fl.nan))) } ∧
      ∀ v, (∀ x ∈ dirLocals, v ≠ D ++ x) → e v = s.fenv v := by
  have hs := cx.run
  have rk := inRange_of_lt _ _ cx.hk
  have rn := inRange_of_lt _ _ cx.hn
  have rtr := inRange_of_lt _ _ htr
  have rtc := inRange_of_lt _ _ htc
  unfold dirCall
  simp only [exec_setF_seq, hs, FE.ok, FE.eval, IE.ok, IE.eval, cx.xc, cx.yc, cx.nx, cx.ny, cx.line, cx.i, rk, rn, rtr, rtc,
    off1_nat, off2_nat, hx, hy, List.length_cons, List.length_nil, List.getD_cons_zero, List.getD_cons_succ,
    Bool.and_self, decide_true, Nat.reduceAdd]
  generalize hu : ({ s with fenv := (setS (setS (setS (setS s.fenv (D ++ "x1") ((s.fa "x_coords").getD (n * W + k) Fl.nan))
      (D ++ "x2") ((s.fa "x_coords").getD (tr * W + tc) Fl.nan)) (D ++ "y1") ((s.fa "y_coords").getD (n * W + k) Fl.nan))
      (D ++ "y2") ((s.fa "y_coords").getD (tr * W + tc) Fl.nan)), ctl := .run } : State F) = u
  have hu1 : u.ctl = .run ∧ u.fenv (D ++ "x1") = (s.fa "x_coords").getD (n * W + k) Fl.nan ∧
      u.fenv (D ++ "x2") = (s.fa "x_coords").getD (tr * W + tc) Fl.nan ∧
      u.fenv (D ++ "y1") = (s.fa "y_coords").getD (n * W + k) Fl.nan ∧
      u.fenv (D ++ "y2") = (s.fa "y_coords").getD (tr * W + tc) Fl.nan ∧
      (∀ v, (∀ x ∈ dirLocals, v ≠ D ++ x) → u.fenv v = s.fenv v) ∧
      u.ienv = s.ienv ∧ u.benv = s.benv ∧ u.ia = s.ia ∧ u.fa = s.fa ∧ u.shp = s.shp ∧ u.ext = s.ext := by
    subst hu
    refine ⟨rfl, by simp [setS], by simp [setS], by simp [setS], by simp [setS], ?_, rfl, rfl, rfl, rfl, rfl, rfl⟩
    intro v hv
    simp [setS, hv "x1" (by simp [dirLocals]), hv "x2" (by simp [dirLocals]), hv "y1" (by simp [dirLocals]),
      hv "y2" (by simp [dirLocals])]
  obtain ⟨uc, u1, u2, u3, u4, uf, ui, ub, uia, ufa, ush, uex⟩ := hu1
  obtain ⟨e, he, hret, hfr⟩ := dirBody_exec D u fuel uc
  have hsc : exec fuel (.scope (dirBody D)) u = { u with fenv := e, ctl := .run } := by
    rw [exec_scope_ret _ _ _ (by rw [he]), he]
  rw [exec_seq_run _ _ _ _ (by rw [hsc]), hsc]
  refine ⟨e, ?_, fun v hv => (hfr v hv).trans (uf v hv)⟩
  rw [u1, u2, u3, u4] at hret
  have idx := cx.idx
  simp [exec, IE.ok, IE.eval, FE.ok, FE.eval, ush, ui, cx.out, cx.line, cx.i, rk, rn, off2_nat, hret, ub, uia, ufa, uex]

/-- the value `output_img[line][i]` holds after the merge statement, `old` being its previous value and `t` the
    target in `nearest_xs/ys[i]` -/
def mergeVal (mode : Int) (img xc yc : List F) (W n k : Nat) (old : F) : Tgt → F
  | none => old
  | some t =>
    if mode = 1 then img.getD (t.1 * W + t.2) Fl.nan
    else if mode = 2 then
      dirF (xc.getD (n * W + k) Fl.nan) (xc.getD (t.1 * W + t.2) Fl.nan)
        (yc.getD (n * W + k) Fl.nan) (yc.getD (t.1 * W + t.2) Fl.nan)
    else old

/-- `if nearest_xs[i] != -1 and line_proximity[i] >= 0: …` for the model's nearest target `t` at `i = k` -/
theorem mergeStmt_exec (D : String) (s : State F) (fuel H W n k : Nat) (cx : MergeCtx H W n k s) (t : Tgt)
    (hrel : tgtRel H W ((s.ia "nearest_xs").getD k 0) ((s.ia "nearest_ys").getD k 0) t)
    (hlp : t ≠ none → Fl.le (Fl.lit 0 1) ((s.fa "line_proximity").getD k Fl.nan) = true) :
    let r := exec fuel (mergeStmt D) s
    r.ctl = .run ∧ MFrame D s r ∧ (r.fa "output_img").length = H * W ∧
    (r.fa "output_img").getD (n * W + k) Fl.nan =
      mergeVal (s.ienv "process_mode") (s.fa "img") (s.fa "x_coords") (s.fa "y_coords") W n k
        ((s.fa "output_img").getD (n * W + k) Fl.nan) t ∧
    ∀ j, j ≠ n * W + k → (r.fa "output_img").getD j Fl.nan = (s.fa "output_img").getD j Fl.nan := by
  have hs := cx.run
  have rk := inRange_of_lt _ _ cx.hk
  have rn := inRange_of_lt _ _ cx.hn
  have idx := cx.idx
  cases t with
  | none =>
    have hx : (s.ia "nearest_xs").getD k 0 = -1 := hrel
    have : exec fuel (mergeStmt D) s = s := by
      simp [mergeStmt, exec, BE.ok, BE.eval, IE.ok, IE.eval, FE.ok, cmpInt, cx.nx, cx.lp, cx.i, rk, off1_nat, hx]
    simp only [this]
    exact ⟨hs, MFrame.refl D s, cx.lout, by simp [mergeVal], by simp⟩
  | some t =>
    obtain ⟨hx, hy, htr, htc⟩ := hrel
    have hx1 : ¬ ((t.2 : Int) = -1) := by omega
    have hl := hlp (by simp)
    have rtr := inRange_of_lt _ _ htr
    have rtc := inRange_of_lt _ _ htc
    have hok : (BE.and (BE.cmpI CmpOp.ne (IE.ld1 "nearest_xs" (IE.var "i")) (IE.lit (-1)))
        (BE.cmpF CmpOp.ge (FE.ld1 "line_proximity" (IE.var "i")) (FE.ofInt (IE.lit 0)))).ok s = true := by
      simp [BE.ok, IE.ok, IE.eval, FE.ok, cx.nx, cx.lp, cx.i, rk]
    rw [mergeStmt, exec_ite _ _ _ _ _ hok]
    simp only [BE.eval, IE.eval, FE.eval, cmpInt, CmpOp.eval, cx.nx, cx.lp, cx.i, off1_nat, hx, hl, ne_eq, hx1,
      not_false_eq_true, decide_true, Bool.and_self, if_true]
    by_cases hm1 : s.ienv "process_mode" = 1
    · have : exec fuel (.ite (.cmpI .eq (.var "process_mode") (.lit 1))
          (.stF2 "output_img" (.var "line") (.var "i") (.ld2 "img" (.ld1 "nearest_ys" (.var "i")) (.ld1 "nearest_xs" (.var "i"))))
          (.ite (.cmpI .eq (.var "process_mode") (.lit 2)) (dirCall D) .skip)) s =
          { s with fa := setS s.fa "output_img" ((s.fa "output_img").set (n * W + k) ((s.fa "img").getD (t.1 * W + t.2) Fl.nan)) } := by
        simp [exec, BE.ok, BE.eval, IE.ok, IE.eval, FE.ok, FE.eval, cmpInt, hm1, cx.out, cx.img, cx.nx, cx.ny, cx.line, cx.i,
          rk, rn, off1_nat, off2_nat, hx, hy, rtr, rtc]
      rw [this]
      refine ⟨hs, ⟨rfl, rfl, rfl, rfl, rfl, fun a ha => by simp [setS, ha], fun _ _ => rfl⟩, by simp [setS, cx.lout], ?_, ?_⟩
      · simp [setS, getD_set, cx.lout, idx, mergeVal, hm1]
      · intro j hj; simp [setS, getD_set_ne _ _ _ _ _ (Ne.symm hj)]
    · by_cases hm2 : s.ienv "process_mode" = 2
      · obtain ⟨e, he, hfr⟩ := dirCall_exec D s fuel H W n k t.1 t.2 cx htr htc hx hy
        have : exec fuel (.ite (.cmpI .eq (.var "process_mode") (.lit 1))
            (.stF2 "output_img" (.var "line") (.var "i") (.ld2 "img" (.ld1 "nearest_ys" (.var "i")) (.ld1 "nearest_xs" (.var "i"))))
            (.ite (.cmpI .eq (.var "process_mode") (.lit 2)) (dirCall D) .skip)) s = exec fuel (dirCall D) s := by
          rw [exec_ite _ _ _ _ _ rfl]
          simp only [BE.eval, IE.eval, cmpInt, hm1, decide_false, Bool.false_eq_true, if_false]
          rw [exec_ite _ _ _ _ _ rfl]
          simp only [BE.eval, IE.eval, cmpInt, hm2, decide_true, if_true]
        rw [this, he]
        refine ⟨hs, ⟨rfl, rfl, rfl, rfl, rfl, fun a ha => by simp [setS, ha], hfr⟩, by simp [setS, cx.lout], ?_, ?_⟩
        · have : ¬ ((2 : Int) = 1) := by decide
          simp [setS, getD_set, cx.lout, idx, mergeVal, hm2, this]
        · intro j hj; simp [setS, getD_set_ne _ _ _ _ _ (Ne.symm hj)]
      · have : exec fuel (.ite (.cmpI .eq (.var "process_mode") (.lit 1))
            (.stF2 "output_img" (.var "line") (.var "i") (.ld2 "img" (.ld1 "nearest_ys" (.var "i")) (.ld1 "nearest_xs" (.var "i"))))
            (.ite (.cmpI .eq (.var "process_mode") (.lit 2)) (dirCall D) .skip)) s = s := by
          rw [exec_ite _ _ _ _ _ rfl]
          simp only [BE.eval, IE.eval, cmpInt, hm1, decide_false, Bool.false_eq_true, if_false]
          rw [exec_ite _ _ _ _ _ rfl]
          simp [BE.eval, IE.eval, cmpInt, hm2, exec]
        rw [this]
        exact ⟨hs, MFrame.refl D s, cx.lout, by simp [mergeVal, hm1, hm2], fun _ _ => rfl⟩

/-! ### the three loops that write `output_img[line]` -/

/-- what a merge loop leaves unchanged (`fas` = the numeric arrays it may write) -/
structure MLFrame (D : String) (fas : List String) (s r : State F) : Prop where
  shp : r.shp = s.shp
  ext : r.ext = s.ext
  ienv : ∀ v, v ≠ "i" → r.ienv v = s.ienv v
  benv : r.benv = s.benv
  ia : r.ia = s.ia
  fa : ∀ a, a ∉ fas → r.fa a = s.fa a
  fenv : ∀ v, (∀ x ∈ dirLocals, v ≠ D ++ x) → r.fenv v = s.fenv v

theorem MLFrame.refl (D : String) (fas : List String) (s : State F) : MLFrame D fas s s :=
  ⟨rfl, rfl, fun _ _ => rfl, rfl, rfl, fun _ _ => rfl, fun _ _ => rfl⟩

/-- the shapes a line of `_process_numpy` works with (`line = n`) -/
structure RowCtx (H W n : Nat) (s : State F) : Prop where
  run : s.ctl = .run
  hn : n < H
  line : s.ienv "line" = n
  width : s.ienv "width" = W
  nx : s.shp "nearest_xs" = [W]
  ny : s.shp "nearest_ys" = [W]
  lp : s.shp "line_proximity" = [W]
  img : s.shp "img" = [H, W]
  xc : s.shp "x_coords" = [H, W]
  yc : s.shp "y_coords" = [H, W]
  out : s.shp "output_img" = [H, W]
  dist : s.shp "img_distance" = [H, W]
  lout : (s.fa "output_img").length = H * W
  ldist : (s.fa "img_distance").length = H * W
  llp : (s.fa "line_proximity").length = W

theorem RowCtx.idx {H W n : Nat} {s : State F} (h : RowCtx H W n s) (k : Nat) (hk : k < W) : n * W + k < H * W := by
  have : (n + 1) * W ≤ H * W := Nat.mul_le_mul_right W h.hn
  rw [Nat.add_mul] at *
  omega

/-- `for i in range(width): <merge>`: entry `q` of line `n` of `output_img` becomes `mergeVal … nr[q]` -/
theorem mergeLoop_exec (D : String) (s : State F) (fuel H W n : Nat) (cx : RowCtx H W n s) (nr : List Tgt)
    (hrel : ∀ q, q < W → tgtRel H W ((s.ia "nearest_xs").getD q 0) ((s.ia "nearest_ys").getD q 0) (nr.getD q none))
    (hlp : ∀ q, q < W → nr.getD q none ≠ none → Fl.le (Fl.lit 0 1) ((s.fa "line_proximity").getD q Fl.nan) = true) :
    let r := exec fuel (mergeLoop D) s
    r.ctl = .run ∧ MLFrame D ["output_img"] s r ∧ (r.fa "output_img").length = H * W ∧
    (∀ q, q < W → (r.fa "output_img").getD (n * W + q) Fl.nan =
      mergeVal (s.ienv "process_mode") (s.fa "img") (s.fa "x_coords") (s.fa "y_coords") W n q
        ((s.fa "output_img").getD (n * W + q) Fl.nan) (nr.getD q none)) ∧
    (∀ j, (j < n * W ∨ n * W + W ≤ j) → (r.fa "output_img").getD j Fl.nan = (s.fa "output_img").getD j Fl.nan) := by
  exact forRange_up "i" (.var "width") (mergeStmt D) s fuel W cx.run rfl (by simp [IE.eval, cx.width])
    (fun k r => MLFrame D ["output_img"] s r ∧ (r.fa "output_img").length = H * W ∧
      (∀ q, q < k → (r.fa "output_img").getD (n * W + q) Fl.nan =
        mergeVal (s.ienv "process_mode") (s.fa "img") (s.fa "x_coords") (s.fa "y_coords") W n q
          ((s.fa "output_img").getD (n * W + q) Fl.nan) (nr.getD q none)) ∧
      (∀ j, (j < n * W ∨ n * W + k ≤ j) → (r.fa "output_img").getD j Fl.nan = (s.fa "output_img").getD j Fl.nan))
    ⟨MLFrame.refl _ _ s, cx.lout, fun q hq => absurd hq (Nat.not_lt_zero q), fun _ _ => rfl⟩
    (by
      intro k hk st hst ⟨fr, l0, hq, hj⟩
      generalize hst1 : ({ st with ienv := setS st.ienv "i" (k : Int) } : State F) = st1
      have e : st1.ctl = .run ∧ st1.ienv "i" = k ∧ (∀ v, v ≠ "i" → st1.ienv v = st.ienv v) ∧ st1.shp = st.shp ∧
          st1.fa = st.fa ∧ st1.ia = st.ia ∧ st1.fenv = st.fenv ∧ st1.benv = st.benv ∧ st1.ext = st.ext := by
        subst hst1; exact ⟨hst, by simp [setS], fun v hv => by simp [setS, hv], rfl, rfl, rfl, rfl, rfl, rfl⟩
      obtain ⟨c1, i1, ie1, sh1, fa1, ia1, fe1, be1, ex1⟩ := e
      have o1 : st1.fa "output_img" = st.fa "output_img" := by rw [fa1]
      have cx1 : MergeCtx H W n k st1 :=
        ⟨c1, cx.hn, hk, by rw [ie1 _ (by decide), fr.ienv _ (by decide), cx.line], i1,
         by rw [sh1, fr.shp, cx.nx], by rw [sh1, fr.shp, cx.ny], by rw [sh1, fr.shp, cx.lp], by rw [sh1, fr.shp, cx.img],
         by rw [sh1, fr.shp, cx.xc], by rw [sh1, fr.shp, cx.yc], by rw [sh1, fr.shp, cx.out], by rw [o1, l0]⟩
      have hr1 := hrel k hk
      rw [← fr.ia, ← ia1] at hr1
      have hl1 := hlp k hk
      rw [← fr.fa "line_proximity" (by decide), ← fa1] at hl1
      obtain ⟨c2, f2, l2, v2, o2⟩ := mergeStmt_exec D st1 fuel H W n k cx1 (nr.getD k none) hr1 hl1
      rw [afterBody_run _ c2]
      generalize exec fuel (mergeStmt D) st1 = st2 at c2 f2 l2 v2 o2
      refine ⟨c2, ⟨?_, ?_, ?_, ?_, ?_, ?_, ?_⟩, l2, ?_, ?_⟩
      · rw [f2.shp, sh1, fr.shp]
      · rw [f2.ext, ex1, fr.ext]
      · intro v hv; rw [f2.ienv, ie1 v hv, fr.ienv v hv]
      · rw [f2.benv, be1, fr.benv]
      · rw [f2.ia, ia1, fr.ia]
      · intro a ha; rw [f2.fa a (by simpa using ha), fa1, fr.fa a ha]
      · intro v hv; rw [f2.fenv v hv, fe1, fr.fenv v hv]
      · intro q hq'
        by_cases hqk : q = k
        · subst hqk
          rw [v2, ie1 _ (by decide), fr.ienv _ (by decide), fa1, fr.fa "img" (by decide), fr.fa "x_coords" (by decide),
            fr.fa "y_coords" (by decide), hj _ (Or.inr (Nat.le_refl _))]
        · rw [o2 _ (by omega), o1]; exact hq q (by omega)
      · intro j hj'
        rw [o2 _ (by omega), o1]; exact hj j (by omega))

/-- the state after `i = k; img_distance[line][i] = line_proximity[i]` -/
def storeSt (st : State F) (n W k : Nat) : State F :=
  { st with
    ienv := setS st.ienv "i" (k : Int)
    fa := setS st.fa "img_distance" ((st.fa "img_distance").set (n * W + k) ((st.fa "line_proximity").getD k Fl.nan)) }

/-- the last loop of a top-down line: `img_distance[line][i] = line_proximity[i]`, then the merge -/
theorem storeMergeLoop_exec (D : String) (s : State F) (fuel H W n : Nat) (cx : RowCtx H W n s) (nr : List Tgt)
    (hrel : ∀ q, q < W → tgtRel H W ((s.ia "nearest_xs").getD q 0) ((s.ia "nearest_ys").getD q 0) (nr.getD q none))
    (hlp : ∀ q, q < W → nr.getD q none ≠ none → Fl.le (Fl.lit 0 1) ((s.fa "line_proximity").getD q Fl.nan) = true) :
    let r := exec fuel (storeMergeLoop D) s
    r.ctl = .run ∧ MLFrame D ["output_img", "img_distance"] s r ∧ (r.fa "output_img").length = H * W ∧
    (r.fa "img_distance").length = H * W ∧
    (∀ q, q < W → (r.fa "output_img").getD (n * W + q) Fl.nan =
      mergeVal (s.ienv "process_mode") (s.fa "img") (s.fa "x_coords") (s.fa "y_coords") W n q
        ((s.fa "output_img").getD (n * W + q) Fl.nan) (nr.getD q none) ∧
      (r.fa "img_distance").getD (n * W + q) Fl.nan = (s.fa "line_proximity").getD q Fl.nan) ∧
    (∀ j, (j < n * W ∨ n * W + W ≤ j) → (r.fa "output_img").getD j Fl.nan = (s.fa "output_img").getD j Fl.nan ∧
      (r.fa "img_distance").getD j Fl.nan = (s.fa "img_distance").getD j Fl.nan) := by
  exact forRange_up "i" (.var "width") (storeMergeLoopBody D) s fuel W cx.run rfl (by simp [IE.eval, cx.width])
    (fun k r => MLFrame D ["output_img", "img_distance"] s r ∧ (r.fa "output_img").length = H * W ∧
      (r.fa "img_distance").length = H * W ∧
      (∀ q, q < k → (r.fa "output_img").getD (n * W + q) Fl.nan =
        mergeVal (s.ienv "process_mode") (s.fa "img") (s.fa "x_coords") (s.fa "y_coords") W n q
          ((s.fa "output_img").getD (n * W + q) Fl.nan) (nr.getD q none) ∧
        (r.fa "img_distance").getD (n * W + q) Fl.nan = (s.fa "line_proximity").getD q Fl.nan) ∧
      (∀ j, (j < n * W ∨ n * W + k ≤ j) → (r.fa "output_img").getD j Fl.nan = (s.fa "output_img").getD j Fl.nan ∧
        (r.fa "img_distance").getD j Fl.nan = (s.fa "img_distance").getD j Fl.nan))
    ⟨MLFrame.refl _ _ s, cx.lout, cx.ldist, fun q hq => absurd hq (Nat.not_lt_zero q), fun _ _ => ⟨rfl, rfl⟩⟩
    (by
      intro k hk st hst ⟨fr, l0, ld0, hq, hj⟩
      have idx := cx.idx k hk
      -- img_distance[line][i] = line_proximity[i]
      generalize hst1 : storeSt st n W k = st1
      have hb : exec fuel (storeMergeLoopBody D) { st with ienv := setS st.ienv "i" (k : Int) } = exec fuel (mergeStmt D) st1 := by
        subst hst1
        rw [storeMergeLoopBody, exec_seq_run]
        all_goals
          simp [storeSt, exec, hst, IE.ok, IE.eval, FE.ok, FE.eval, setS, fr.shp, cx.dist, cx.lp, fr.ienv "line" (by decide), cx.line,
            inRange_of_lt _ _ hk, inRange_of_lt _ _ cx.hn, off1_nat, off2_nat]
      rw [hb]
      have e : st1.ctl = .run ∧ st1.ienv "i" = k ∧ (∀ v, v ≠ "i" → st1.ienv v = st.ienv v) ∧ st1.shp = st.shp ∧
          (∀ a, a ≠ "img_distance" → st1.fa a = st.fa a) ∧
          st1.fa "img_distance" = (st.fa "img_distance").set (n * W + k) ((st.fa "line_proximity").getD k Fl.nan) ∧
          st1.ia = st.ia ∧ st1.fenv = st.fenv ∧ st1.benv = st.benv ∧ st1.ext = st.ext := by
        subst hst1
        exact ⟨hst, by simp [storeSt, setS], fun v hv => by simp [storeSt, setS, hv], rfl,
          fun a ha => by simp [storeSt, setS, ha], by simp [storeSt, setS], rfl, rfl, rfl, rfl⟩
      obtain ⟨c1, i1, ie1, sh1, fa1, d1, ia1, fe1, be1, ex1⟩ := e
      have o1 : st1.fa "output_img" = st.fa "output_img" := fa1 _ (by decide)
      have cx1 : MergeCtx H W n k st1 :=
        ⟨c1, cx.hn, hk, by rw [ie1 _ (by decide), fr.ienv _ (by decide), cx.line], i1,
         by rw [sh1, fr.shp, cx.nx], by rw [sh1, fr.shp, cx.ny], by rw [sh1, fr.shp, cx.lp], by rw [sh1, fr.shp, cx.img],
         by rw [sh1, fr.shp, cx.xc], by rw [sh1, fr.shp, cx.yc], by rw [sh1, fr.shp, cx.out], by rw [o1, l0]⟩
      have hr1 := hrel k hk
      rw [← fr.ia, ← ia1] at hr1
      have hl1 := hlp k hk
      rw [← fr.fa "line_proximity" (by decide), ← fa1 "line_proximity" (by decide)] at hl1
      obtain ⟨c2, f2, l2, v2, o2⟩ := mergeStmt_exec D st1 fuel H W n k cx1 (nr.getD k none) hr1 hl1
      rw [afterBody_run _ c2]
      generalize exec fuel (mergeStmt D) st1 = st2 at c2 f2 l2 v2 o2
      have d2 : st2.fa "img_distance" = (st.fa "img_distance").set (n * W + k) ((st.fa "line_proximity").getD k Fl.nan) := by
        rw [f2.fa _ (by decide), d1]
      refine ⟨c2, ⟨?_, ?_, ?_, ?_, ?_, ?_, ?_⟩, l2, by rw [d2]; simpa using ld0, ?_, ?_⟩
      · rw [f2.shp, sh1, fr.shp]
      · rw [f2.ext, ex1, fr.ext]
      · intro v hv; rw [f2.ienv, ie1 v hv, fr.ienv v hv]
      · rw [f2.benv, be1, fr.benv]
      · rw [f2.ia, ia1, fr.ia]
      · intro a ha
        simp only [List.mem_cons, List.not_mem_nil, or_false, not_or] at ha
        rw [f2.fa a ha.1, fa1 a ha.2, fr.fa a (by simp [ha])]
      · intro v hv; rw [f2.fenv v hv, fe1, fr.fenv v hv]
      · intro q hq'
        by_cases hqk : q = k
        · subst hqk
          refine ⟨?_, ?_⟩
          · rw [v2, ie1 _ (by decide), fr.ienv _ (by decide), fa1 _ (by decide), fa1 _ (by decide), fa1 _ (by decide),
              fr.fa "img" (by decide), fr.fa "x_coords" (by decide), fr.fa "y_coords" (by decide), o1,
              (hj _ (Or.inr (Nat.le_refl _))).1]
          · rw [d2, getD_set_same _ _ _ _ (by rw [ld0]; exact idx), fr.fa "line_proximity" (by decide)]
        · refine ⟨?_, ?_⟩
          · rw [o2 _ (by omega), o1]; exact (hq q (by omega)).1
          · rw [d2, getD_set_ne _ _ _ _ _ (by omega)]; exact (hq q (by omega)).2
      · intro j hj'
        refine ⟨?_, ?_⟩
        · rw [o2 _ (by omega), o1]; exact (hj j (by omega)).1
        · rw [d2, getD_set_ne _ _ _ _ _ (by omega)]; exact (hj j (by omega)).2)

/-- "final post processing of distances": a negative `line_proximity[i]` becomes NaN, otherwise the merge -/
theorem finalLoop_exec (D : String) (s : State F) (fuel H W n : Nat) (cx : RowCtx H W n s) (nr : List Tgt)
    (hrel : ∀ q, q < W → tgtRel H W ((s.ia "nearest_xs").getD q 0) ((s.ia "nearest_ys").getD q 0) (nr.getD q none))
    (hlp : ∀ q, q < W → nr.getD q none ≠ none →
      Fl.lt ((s.fa "line_proximity").getD q Fl.nan) (Fl.lit 0 1) = false ∧
      Fl.le (Fl.lit 0 1) ((s.fa "line_proximity").getD q Fl.nan) = true) :
    let r := exec fuel (finalLoop D) s
    r.ctl = .run ∧ MLFrame D ["output_img", "line_proximity"] s r ∧ (r.fa "output_img").length = H * W ∧
    (r.fa "line_proximity").length = W ∧
    (∀ q, q < W → (r.fa "output_img").getD (n * W + q) Fl.nan =
      mergeVal (s.ienv "process_mode") (s.fa "img") (s.fa "x_coords") (s.fa "y_coords") W n q
        ((s.fa "output_img").getD (n * W + q) Fl.nan) (nr.getD q none) ∧
      (r.fa "line_proximity").getD q Fl.nan =
        if Fl.lt ((s.fa "line_proximity").getD q Fl.nan) (Fl.lit 0 1) = true then Fl.nan
        else (s.fa "line_proximity").getD q Fl.nan) ∧
    (∀ j, (j < n * W ∨ n * W + W ≤ j) → (r.fa "output_img").getD j Fl.nan = (s.fa "output_img").getD j Fl.nan) := by
  have := forRange_up "i" (.var "width") (finalLoopBody D) s fuel W cx.run rfl (by simp [IE.eval, cx.width])
    (fun k r => MLFrame D ["output_img", "line_proximity"] s r ∧ (r.fa "output_img").length = H * W ∧
      (r.fa "line_proximity").length = W ∧
      (∀ q, q < k → (r.fa "output_img").getD (n * W + q) Fl.nan =
        mergeVal (s.ienv "process_mode") (s.fa "img") (s.fa "x_coords") (s.fa "y_coords") W n q
          ((s.fa "output_img").getD (n * W + q) Fl.nan) (nr.getD q none) ∧
        (r.fa "line_proximity").getD q Fl.nan =
          if Fl.lt ((s.fa "line_proximity").getD q Fl.nan) (Fl.lit 0 1) = true then Fl.nan
          else (s.fa "line_proximity").getD q Fl.nan) ∧
      (∀ j, (j < n * W ∨ n * W + k ≤ j) → (r.fa "output_img").getD j Fl.nan = (s.fa "output_img").getD j Fl.nan) ∧
      (∀ q, k ≤ q → (r.fa "line_proximity").getD q Fl.nan = (s.fa "line_proximity").getD q Fl.nan))
    ⟨MLFrame.refl _ _ s, cx.lout, cx.llp, fun q hq => absurd hq (Nat.not_lt_zero q), fun _ _ => rfl, fun _ _ => rfl⟩
    (by
      intro k hk st hst ⟨fr, l0, ll0, hq, hj, hl⟩
      have idx := cx.idx k hk
      generalize hst1 : ({ st with ienv := setS st.ienv "i" (k : Int) } : State F) = st1
      have e : st1.ctl = .run ∧ st1.ienv "i" = k ∧ (∀ v, v ≠ "i" → st1.ienv v = st.ienv v) ∧ st1.shp = st.shp ∧
          st1.fa = st.fa ∧ st1.ia = st.ia ∧ st1.fenv = st.fenv ∧ st1.benv = st.benv ∧ st1.ext = st.ext := by
        subst hst1; exact ⟨hst, by simp [setS], fun v hv => by simp [setS, hv], rfl, rfl, rfl, rfl, rfl, rfl⟩
      obtain ⟨c1, i1, ie1, sh1, fa1, ia1, fe1, be1, ex1⟩ := e
      have o1 : st1.fa "output_img" = st.fa "output_img" := by rw [fa1]
      have lpk : (st1.fa "line_proximity").getD k Fl.nan = (s.fa "line_proximity").getD k Fl.nan := by
        rw [fa1]; exact hl k (Nat.le_refl _)
      have shlp : st1.shp "line_proximity" = [W] := by rw [sh1, fr.shp, cx.lp]
      have hok : (BE.cmpF CmpOp.lt (FE.ld1 "line_proximity" (IE.var "i")) (FE.ofInt (IE.lit 0))).ok st1 = true := by
        simp [BE.ok, FE.ok, IE.ok, IE.eval, shlp, i1, inRange_of_lt _ _ hk]
      rw [finalLoopBody, exec_ite _ _ _ _ _ hok]
      simp only [BE.eval, FE.eval, IE.eval, CmpOp.eval, shlp, i1, off1_nat, lpk]
      cases hneg : Fl.lt ((s.fa "line_proximity").getD k Fl.nan) (Fl.lit 0 1) with
      | true =>
        simp only [if_true]
        have hnr : nr.getD k none = none := by
          cases hnk : nr.getD k none with
          | none => rfl
          | some t =>
            have := (hlp k hk (by rw [hnk]; simp)).1
            rw [hneg] at this; cases this
        have hx : exec fuel (.stF1 "line_proximity" (.var "i") .nan) st1 =
            { st1 with fa := setS st1.fa "line_proximity" ((st1.fa "line_proximity").set k Fl.nan) } := by
          simp [exec, IE.ok, IE.eval, FE.ok, FE.eval, shlp, i1, inRange_of_lt _ _ hk, off1_nat]
        rw [hx, afterBody_run _ (by exact c1)]
        refine ⟨c1, ⟨?_, ?_, ?_, ?_, ?_, ?_, ?_⟩, by simp [setS, o1, l0], by simp [setS, fa1, ll0], ?_, ?_, ?_⟩
        · rw [sh1, fr.shp]
        · rw [ex1, fr.ext]
        · intro v hv; rw [ie1 v hv, fr.ienv v hv]
        · rw [be1, fr.benv]
        · rw [ia1, fr.ia]
        · intro a ha
          simp only [List.mem_cons, List.not_mem_nil, or_false, not_or] at ha
          simp [setS, ha.2, fa1, fr.fa a (by simp [ha])]
        · intro v hv; rw [fe1, fr.fenv v hv]
        · intro q hq'
          by_cases hqk : q = k
          · subst hqk
            refine ⟨?_, ?_⟩
            · simp only [setS, show ("output_img" = "line_proximity") = False by decide, if_false, o1]
              rw [hnr, (hj _ (Or.inr (Nat.le_refl _)))]
              simp [mergeVal]
            · simp [setS, fa1, getD_set, ll0, hk, hneg]
          · refine ⟨?_, ?_⟩
            · simp only [setS, show ("output_img" = "line_proximity") = False by decide, if_false, o1]
              exact (hq q (by omega)).1
            · simp only [setS, if_true, fa1]
              rw [getD_set_ne _ _ _ _ _ (by omega)]; exact (hq q (by omega)).2
        · intro j hj'
          simp only [setS, show ("output_img" = "line_proximity") = False by decide, if_false, o1]
          exact hj j (by omega)
        · intro q hq'
          simp only [setS, if_true, fa1]
          rw [getD_set_ne _ _ _ _ _ (by omega)]; exact hl q (by omega)
      | false =>
        simp only [Bool.false_eq_true, if_false]
        have cx1 : MergeCtx H W n k st1 :=
          ⟨c1, cx.hn, hk, by rw [ie1 _ (by decide), fr.ienv _ (by decide), cx.line], i1,
           by rw [sh1, fr.shp, cx.nx], by rw [sh1, fr.shp, cx.ny], shlp, by rw [sh1, fr.shp, cx.img],
           by rw [sh1, fr.shp, cx.xc], by rw [sh1, fr.shp, cx.yc], by rw [sh1, fr.shp, cx.out], by rw [o1, l0]⟩
        have hr1 := hrel k hk
        rw [← fr.ia, ← ia1] at hr1
        have hl1 : nr.getD k none ≠ none → Fl.le (Fl.lit 0 1) ((st1.fa "line_proximity").getD k Fl.nan) = true := by
          intro h; rw [lpk]; exact (hlp k hk h).2
        obtain ⟨c2, f2, l2, v2, o2⟩ := mergeStmt_exec D st1 fuel H W n k cx1 (nr.getD k none) hr1 hl1
        rw [afterBody_run _ c2]
        generalize exec fuel (mergeStmt D) st1 = st2 at c2 f2 l2 v2 o2
        have lp2 : st2.fa "line_proximity" = st.fa "line_proximity" := by rw [f2.fa _ (by decide), fa1]
        refine ⟨c2, ⟨?_, ?_, ?_, ?_, ?_, ?_, ?_⟩, l2, by rw [lp2, ll0], ?_, ?_, ?_⟩
        · rw [f2.shp, sh1, fr.shp]
        · rw [f2.ext, ex1, fr.ext]
        · intro v hv; rw [f2.ienv, ie1 v hv, fr.ienv v hv]
        · rw [f2.benv, be1, fr.benv]
        · rw [f2.ia, ia1, fr.ia]
        · intro a ha
          simp only [List.mem_cons, List.not_mem_nil, or_false, not_or] at ha
          rw [f2.fa a ha.1, fa1, fr.fa a (by simp [ha])]
        · intro v hv; rw [f2.fenv v hv, fe1, fr.fenv v hv]
        · intro q hq'
          by_cases hqk : q = k
          · subst hqk
            refine ⟨?_, ?_⟩
            · rw [v2, ie1 _ (by decide), fr.ienv _ (by decide), fa1, fr.fa "img" (by decide), fr.fa "x_coords" (by decide),
                fr.fa "y_coords" (by decide), hj _ (Or.inr (Nat.le_refl _))]
            · rw [lp2, hl q (Nat.le_refl _), hneg]; simp
          · refine ⟨?_, ?_⟩
            · rw [o2 _ (by omega), o1]; exact (hq q (by omega)).1
            · rw [lp2]; exact (hq q (by omega)).2
        · intro j hj'
          rw [o2 _ (by omega), o1]; exact hj j (by omega)
        · intro q hq'
          rw [lp2]; exact hl q (by omega))
  exact ⟨this.1, this.2.1, this.2.2.1, this.2.2.2.1, this.2.2.2.2.1, this.2.2.2.2.2.1⟩

end XrsVerif.IL.Px
