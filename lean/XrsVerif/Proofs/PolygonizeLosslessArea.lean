import XrsVerif.Proofs.PolygonizeLosslessRing
import Mathlib.Tactic.Ring
/-
  C15, losslessness: discrete Green.  The shoelace area of the ring of a followed cycle is twice the sum,
  over the pixels of the raster, of the winding number of the cycle around the pixel (`green`).

  `area2_cycRing`   shoelace sum of the vertex-compressed ring = sum of the unit-edge terms of the cycle
                    (collinear pieces add up: `cross_add`);
  `sum_ucross`      for a closed list in the raster: Σ unit terms = Σ_pixels wcol + Σ_pixels wrow  (each state
                    contributes to exactly the pixels above / left of its edge; the E- and W-headed states
                    are equally many because stepping permutes the list and moves every corner by its heading).
-/
set_option linter.unusedVariables false
set_option linter.unusedSimpArgs false
namespace XrsVerif.Polygonize

/-- shoelace term of the edge `p → q` -/
def cross (p q : Int × Int) : Int := p.1 * q.2 - q.1 * p.2

/-- shoelace sum of the polyline `p :: l` -/
def ac : Int × Int → List (Int × Int) → Int
  | _, [] => 0
  | p, q :: l => cross p q + ac q l

theorem area2_eq_ac (p : Int × Int) (l : List (Int × Int)) : area2 (p :: l) = ac p l := by
  induction l generalizing p with
  | nil => simp [area2, edgesOf, ac]
  | cons q l ih =>
    have := ih q
    simp only [area2, edgesOf, List.tail_cons, List.zip_cons_cons, List.map_cons, List.sum_cons, ac, cross] at this ⊢
    rw [this]

theorem cross_add (d : Dir) (A B : Int × Int) (h : Beh d A B) :
    cross A (B.1 + d.dx, B.2 + d.dy) = cross A B + cross B (B.1 + d.dx, B.2 + d.dy) := by
  obtain ⟨a1, a2⟩ := A
  obtain ⟨b1, b2⟩ := B
  cases d <;> simp only [Beh, Dir.dx, Dir.dy, cross] at h ⊢ <;> obtain ⟨h1, h2⟩ := h <;> subst h1 <;> ring

/-- shoelace term of the unit edge of a state -/
def ucross (s : FSt) : Int := cross s.corner (s.corner.1 + s.d.dx, s.corner.2 + s.d.dy)

theorem ac_orbit (R : Int → Int → Bool) : ∀ (k : Nat) (s : FSt) (d' : Dir) (A : Int × Int),
    Beh d' A s.corner →
    ac A (fwdPts (some d') (orbitL (step R) k s) ++ [(iterS (step R) k s).corner]) =
      cross A s.corner + ((orbitL (step R) k s).map ucross).sum := by
  intro k
  induction k with
  | zero => intro s d' A _; simp [orbitL, fwdPts, iterS, ac]
  | succ k ih =>
    intro s d' A hb
    simp only [orbitL, fwdPts, iterS, List.map_cons, List.sum_cons]
    have hc := corner_step R s
    split
    · rename_i hne
      rw [List.cons_append, ac, ih (step R s) s.d s.corner (by rw [hc]; exact beh_next _ _ _ (beh_self _ _))]
      simp only [ucross, hc]
    · rename_i heq
      have hd : d' = s.d := by
        have : some d' = some s.d := by simpa using heq
        exact Option.some.inj this
      subst hd
      rw [ih (step R s) s.d A (by rw [hc]; exact beh_next _ _ _ hb)]
      have := cross_add s.d A s.corner hb
      simp only [ucross, hc] at this ⊢
      rw [this]; ring

/-- shoelace sum of the compressed ring = sum of the unit-edge terms of the cycle -/
theorem area2_cycRing (R : Int → Int → Bool) (m : Nat) (start : FSt) (hm : 1 ≤ m)
    (hit' : iterS (step R) m start = start) :
    area2 (cycRing (orbitL (step R) m start)) = ((orbitL (step R) m start).map ucross).sum := by
  obtain ⟨k, rfl⟩ : ∃ k, m = k + 1 := ⟨m - 1, by omega⟩
  simp only [cycRing, recPts_eq, List.append_nil, List.reverse_reverse]
  simp only [orbitL, fwdPts, ne_eq, reduceCtorEq, not_false_eq_true, if_true, List.cons_append,
    List.take_succ_cons, List.take_zero, List.map_cons, List.sum_cons]
  rw [area2_eq_ac]
  have := ac_orbit R k (step R start) start.d start.corner
    (by rw [corner_step]; exact beh_next _ _ _ (beh_self _ _))
  have e : iterS (step R) k (step R start) = start := hit'
  rw [e] at this
  rw [this]
  simp only [ucross, corner_step]

theorem ucross_eq (s : FSt) : ucross s =
    match s.d with
    | .E => -s.y
    | .W => s.y + 1
    | .N => s.x + 1
    | .S => -s.x := by
  obtain ⟨x, y, d⟩ := s
  cases d <;> simp only [ucross, cross, FSt.corner, Dir.dx, Dir.dy] <;> ring

/-! ### sums over the pixels of the raster -/

/-- `g 0 + … + g (n-1)` -/
def sumN : Nat → (Nat → Int) → Int
  | 0, _ => 0
  | n + 1, g => sumN n g + g n

theorem sumN_congr {n : Nat} {f g : Nat → Int} (h : ∀ i, i < n → f i = g i) : sumN n f = sumN n g := by
  induction n with
  | zero => rfl
  | succ n ih => simp only [sumN]; rw [ih (fun i hi => h i (by omega)), h n (by omega)]

theorem sumN_add (n : Nat) (f g : Nat → Int) : sumN n (fun i => f i + g i) = sumN n f + sumN n g := by
  induction n with
  | zero => rfl
  | succ n ih => simp only [sumN, ih]; omega

theorem sumN_sub (n : Nat) (f g : Nat → Int) : sumN n (fun i => f i - g i) = sumN n f - sumN n g := by
  induction n with
  | zero => rfl
  | succ n ih => simp only [sumN, ih]; omega

theorem sumN_zero (n : Nat) : sumN n (fun _ => 0) = 0 := by
  induction n with
  | zero => rfl
  | succ n ih => simp only [sumN, ih]; rfl

theorem sumN_single (n a : Nat) (v : Int) (ha : a < n) : sumN n (fun i => if i = a then v else 0) = v := by
  induction n with
  | zero => omega
  | succ n ih =>
    simp only [sumN]
    by_cases h : a = n
    · subst h
      rw [sumN_congr (g := fun _ => 0) (fun i hi => by rw [if_neg (by omega)]), sumN_zero]; simp
    · rw [ih (by omega), if_neg (by omega)]; omega

theorem sumN_ge (n a : Nat) (ha : a ≤ n) : sumN n (fun i => if a ≤ i then 1 else 0) = (n : Int) - a := by
  induction n with
  | zero => have : a = 0 := by omega
            subst this; rfl
  | succ n ih =>
    simp only [sumN]
    by_cases h : a = n + 1
    · subst h
      rw [sumN_congr (g := fun _ => 0) (fun i hi => by rw [if_neg (by omega)]), sumN_zero, if_neg (by omega)]
      omega
    · rw [ih (by omega), if_pos (by omega)]; omega

theorem sumN_gt (n a : Nat) (ha : a < n) : sumN n (fun i => if a < i then 1 else 0) = (n : Int) - 1 - a := by
  have := sumN_ge n (a + 1) (by omega)
  rw [sumN_congr (g := fun i => if a + 1 ≤ i then 1 else 0) (fun i _ => by simp only [Nat.succ_le_iff]), this]
  omega

theorem sumN_le (n a : Nat) (ha : a < n) : sumN n (fun i => if i ≤ a then 1 else 0) = (a : Int) + 1 := by
  have key : ∀ n, sumN n (fun i => if i ≤ a then 1 else 0) = ((min n (a + 1) : Nat) : Int) := by
    intro n
    induction n with
    | zero => simp [sumN]
    | succ n ih =>
      simp only [sumN, ih]
      split <;> omega
  rw [key]; omega

theorem sumN_lt (n a : Nat) (ha : a ≤ n) : sumN n (fun i => if i < a then 1 else 0) = (a : Int) := by
  have key : ∀ n, sumN n (fun i => if i < a then 1 else 0) = ((min n a : Nat) : Int) := by
    intro n
    induction n with
    | zero => simp [sumN]
    | succ n ih =>
      simp only [sumN, ih]
      split <;> omega
  rw [key]; omega

/-- sum over the pixels of the raster -/
def gsum (nx ny : Nat) (F : Int → Int → Int) : Int :=
  sumN ny (fun y => sumN nx (fun x => F (x : Int) (y : Int)))

theorem gsum_add (nx ny : Nat) (F G : Int → Int → Int) :
    gsum nx ny (fun x y => F x y + G x y) = gsum nx ny F + gsum nx ny G := by
  unfold gsum
  rw [← sumN_add]
  apply sumN_congr
  intro y _
  rw [← sumN_add]

theorem gsum_congr {nx ny : Nat} {F G : Int → Int → Int}
    (h : ∀ X Y : Nat, X < nx → Y < ny → F (X : Int) (Y : Int) = G (X : Int) (Y : Int)) :
    gsum nx ny F = gsum nx ny G := by
  unfold gsum
  apply sumN_congr
  intro y hy
  apply sumN_congr
  intro x hx
  exact h x y hx hy

theorem sumN_single_and (n a : Nat) (P : Prop) [Decidable P] (v : Int) (ha : a < n) :
    sumN n (fun i => if a = i ∧ P then v else 0) = if P then v else 0 := by
  by_cases hP : P
  · rw [if_pos hP, sumN_congr (g := fun i => if i = a then v else 0), sumN_single n a v ha]
    intro i _
    by_cases h : a = i
    · rw [if_pos ⟨h, hP⟩, if_pos h.symm]
    · rw [if_neg (fun hh => h hh.1), if_neg (fun hh => h hh.symm)]
  · rw [if_neg hP, sumN_congr (g := fun _ => 0), sumN_zero]
    intro i _; rw [if_neg (fun hh => hP hh.2)]

theorem sumN_and_single (n a : Nat) (P : Nat → Prop) [DecidablePred P] (v : Int) (ha : a < n) :
    sumN n (fun i => if a = i ∧ P i then v else 0) = if P a then v else 0 := by
  rw [sumN_congr (g := fun i => if a = i ∧ P a then v else 0), sumN_single_and n a (P a) v ha]
  intro i _
  by_cases h : a = i
  · subst h; rfl
  · rw [if_neg (fun hh => h hh.1), if_neg (fun hh => h hh.1)]

theorem sumN_neg (n : Nat) (f : Nat → Int) : sumN n (fun i => -f i) = -sumN n f := by
  induction n with
  | zero => rfl
  | succ n ih => simp only [sumN, ih]; omega

/-- what a state contributes to `Σ_pixels wcol` -/
def tcol (ny : Nat) (s : FSt) : Int :=
  match s.d with
  | .E => (ny : Int) - s.y
  | .W => -((ny : Int) - 1 - s.y)
  | _ => 0

/-- what a state contributes to `Σ_pixels wrow` -/
def trow (s : FSt) : Int :=
  match s.d with
  | .N => s.x + 1
  | .S => -s.x
  | _ => 0

theorem gsum_wcol_single (nx ny : Nat) (s : FSt) (h : 0 ≤ s.x ∧ s.x < nx ∧ 0 ≤ s.y ∧ s.y < ny) :
    gsum nx ny (wcol [s]) = tcol ny s := by
  obtain ⟨x, y, d⟩ := s
  obtain ⟨h0, h1, h2, h3⟩ := h
  simp only at h0 h1 h2 h3
  obtain ⟨X0, rfl⟩ := Int.eq_ofNat_of_zero_le h0
  obtain ⟨Y0, rfl⟩ := Int.eq_ofNat_of_zero_le h2
  have hX : X0 < nx := by omega
  have hY : Y0 < ny := by omega
  unfold gsum
  cases d
  · -- E
    have e : ∀ x y : Nat, wcol [⟨X0, Y0, .E⟩] x y = if X0 = x ∧ Y0 ≤ y then 1 else 0 := by
      intro x y; simp [wcol, cE, cW, List.countP_cons]
    simp only [e, tcol]
    rw [sumN_congr (g := fun y => if Y0 ≤ y then 1 else 0) (fun y _ => sumN_single_and nx X0 _ 1 hX),
      sumN_ge ny Y0 (by omega)]
  · -- N
    have e : ∀ x y : Nat, wcol [⟨X0, Y0, .N⟩] x y = 0 := by
      intro x y; simp [wcol, cE, cW, List.countP_cons]
    simp only [e, tcol, sumN_zero]
  · -- W
    have e : ∀ x y : Nat, wcol [⟨X0, Y0, .W⟩] x y = -(if X0 = x ∧ Y0 < y then 1 else 0) := by
      intro x y; simp [wcol, cE, cW, List.countP_cons]
    simp only [e, tcol, sumN_neg]
    rw [sumN_congr (g := fun y => if Y0 < y then 1 else 0) (fun y _ => sumN_single_and nx X0 _ 1 hX),
      sumN_gt ny Y0 hY]
  · -- S
    have e : ∀ x y : Nat, wcol [⟨X0, Y0, .S⟩] x y = 0 := by
      intro x y; simp [wcol, cE, cW, List.countP_cons]
    simp only [e, tcol, sumN_zero]

theorem gsum_wrow_single (nx ny : Nat) (s : FSt) (h : 0 ≤ s.x ∧ s.x < nx ∧ 0 ≤ s.y ∧ s.y < ny) :
    gsum nx ny (wrow [s]) = trow s := by
  obtain ⟨x, y, d⟩ := s
  obtain ⟨h0, h1, h2, h3⟩ := h
  simp only at h0 h1 h2 h3
  obtain ⟨X0, rfl⟩ := Int.eq_ofNat_of_zero_le h0
  obtain ⟨Y0, rfl⟩ := Int.eq_ofNat_of_zero_le h2
  have hX : X0 < nx := by omega
  have hY : Y0 < ny := by omega
  unfold gsum
  cases d
  · have e : ∀ x y : Nat, wrow [⟨X0, Y0, .E⟩] x y = 0 := by
      intro x y; simp [wrow, cN, cS, List.countP_cons]
    simp only [e, trow, sumN_zero]
  · -- N
    have e : ∀ x y : Nat, wrow [⟨X0, Y0, .N⟩] x y = if Y0 = y ∧ x ≤ X0 then 1 else 0 := by
      intro x y; simp [wrow, cN, cS, List.countP_cons]
    simp only [e, trow]
    rw [sumN_congr (g := fun y => if Y0 = y ∧ True then sumN nx (fun x => if x ≤ X0 then 1 else 0) else 0),
      sumN_single_and ny Y0 True _ hY, if_pos trivial, sumN_le nx X0 hX]
    intro y _
    by_cases hy : Y0 = y
    · rw [if_pos ⟨hy, trivial⟩]; apply sumN_congr; intro x _; simp [hy]
    · rw [if_neg (fun hh => hy hh.1), sumN_congr (g := fun _ => 0), sumN_zero]
      intro x _; rw [if_neg (fun hh => hy hh.1)]
  · have e : ∀ x y : Nat, wrow [⟨X0, Y0, .W⟩] x y = 0 := by
      intro x y; simp [wrow, cN, cS, List.countP_cons]
    simp only [e, trow, sumN_zero]
  · -- S
    have e : ∀ x y : Nat, wrow [⟨X0, Y0, .S⟩] x y = -(if Y0 = y ∧ x < X0 then 1 else 0) := by
      intro x y; simp [wrow, cN, cS, List.countP_cons]
    simp only [e, trow, sumN_neg]
    rw [sumN_congr (g := fun y => if Y0 = y ∧ True then sumN nx (fun x => if x < X0 then 1 else 0) else 0),
      sumN_single_and ny Y0 True _ hY, if_pos trivial, sumN_lt nx X0 (by omega)]
    intro y _
    by_cases hy : Y0 = y
    · rw [if_pos ⟨hy, trivial⟩]; apply sumN_congr; intro x _; simp [hy]
    · rw [if_neg (fun hh => hy hh.1), sumN_congr (g := fun _ => 0), sumN_zero]
      intro x _; rw [if_neg (fun hh => hy hh.1)]

theorem wcol_cons (s : FSt) (L : List FSt) (x y : Int) : wcol (s :: L) x y = wcol [s] x y + wcol L x y := by
  simp only [wcol, cE, cW, List.countP_cons, List.countP_nil]; omega

theorem wrow_cons (s : FSt) (L : List FSt) (x y : Int) : wrow (s :: L) x y = wrow [s] x y + wrow L x y := by
  simp only [wrow, cN, cS, List.countP_cons, List.countP_nil]; omega

theorem gsum_wcol_list (nx ny : Nat) (L : List FSt)
    (h : ∀ s ∈ L, 0 ≤ s.x ∧ s.x < nx ∧ 0 ≤ s.y ∧ s.y < ny) :
    gsum nx ny (wcol L) = (L.map (tcol ny)).sum := by
  induction L with
  | nil =>
    have : ∀ x y : Int, wcol [] x y = 0 := by intro x y; simp [wcol, cE, cW]
    simp only [gsum, this, sumN_zero, List.map_nil, List.sum_nil]
  | cons s L ih =>
    have e : gsum nx ny (wcol (s :: L)) = gsum nx ny (fun x y => wcol [s] x y + wcol L x y) :=
      gsum_congr (fun X Y _ _ => wcol_cons s L X Y)
    rw [e, gsum_add, gsum_wcol_single nx ny s (h s List.mem_cons_self),
      ih (fun t ht => h t (List.mem_cons_of_mem _ ht)), List.map_cons, List.sum_cons]

theorem gsum_wrow_list (nx ny : Nat) (L : List FSt)
    (h : ∀ s ∈ L, 0 ≤ s.x ∧ s.x < nx ∧ 0 ≤ s.y ∧ s.y < ny) :
    gsum nx ny (wrow L) = (L.map trow).sum := by
  induction L with
  | nil =>
    have : ∀ x y : Int, wrow [] x y = 0 := by intro x y; simp [wrow, cN, cS]
    simp only [gsum, this, sumN_zero, List.map_nil, List.sum_nil]
  | cons s L ih =>
    have e : gsum nx ny (wrow (s :: L)) = gsum nx ny (fun x y => wrow [s] x y + wrow L x y) :=
      gsum_congr (fun X Y _ _ => wrow_cons s L X Y)
    rw [e, gsum_add, gsum_wrow_single nx ny s (h s List.mem_cons_self),
      ih (fun t ht => h t (List.mem_cons_of_mem _ ht)), List.map_cons, List.sum_cons]

theorem perm_sum {l m : List Int} (h : l.Perm m) : l.sum = m.sum := by
  induction h with
  | nil => rfl
  | cons a _ ih => simp only [List.sum_cons, ih]
  | swap a b l => simp only [List.sum_cons]; omega
  | trans _ _ ih1 ih2 => exact ih1.trans ih2

theorem sum_map_add (L : List FSt) (f g : FSt → Int) :
    (L.map (fun s => f s + g s)).sum = (L.map f).sum + (L.map g).sum := by
  induction L with
  | nil => simp
  | cons s L ih => simp only [List.map_cons, List.sum_cons, ih]; omega

/-- a closed list has as many E-headed as W-headed states: the headings' x-components sum to zero -/
theorem sum_dx {R : Int → Int → Bool} {L : List FSt} (hL : Closed R L) : (L.map (fun s => s.d.dx)).sum = 0 := by
  have h1 := perm_sum ((hL.perm.map (fun s => s.corner.1)))
  rw [List.map_map] at h1
  have h2 : (L.map ((fun s => s.corner.1) ∘ step R)) = L.map (fun s => s.corner.1 + s.d.dx) := by
    apply List.map_congr_left; intro s _; simp only [Function.comp, corner_step]
  rw [h2, sum_map_add] at h1
  omega

theorem ucross_split (ny : Nat) (s : FSt) : ucross s = tcol ny s + trow s + (-(ny : Int)) * s.d.dx := by
  rw [ucross_eq]
  obtain ⟨x, y, d⟩ := s
  cases d <;> simp only [tcol, trow, Dir.dx] <;> omega

theorem sum_map_mul (L : List FSt) (c : Int) (f : FSt → Int) :
    (L.map (fun s => c * f s)).sum = c * (L.map f).sum := by
  induction L with
  | nil => simp
  | cons s L ih => simp only [List.map_cons, List.sum_cons, ih]; ring

/-- **discrete Green** for a closed list of boundary edges inside the raster: the sum of the shoelace terms
    of its unit edges is twice the sum over all pixels of the winding number -/
theorem sum_ucross {R : Int → Int → Bool} {nx ny : Nat} {L : List FSt} (hL : Closed R L)
    (hR : InRaster R nx ny) : (L.map ucross).sum = 2 * gsum nx ny (wcol L) := by
  have hb : ∀ s ∈ L, 0 ≤ s.x ∧ s.x < nx ∧ 0 ≤ s.y ∧ s.y < ny := fun s hs => hL.bounds hR hs
  have e1 : L.map ucross = L.map (fun s => (tcol ny s + trow s) + (-(ny : Int)) * s.d.dx) := by
    apply List.map_congr_left; intro s _; exact ucross_split ny s
  have e2 : gsum nx ny (wrow L) = gsum nx ny (wcol L) :=
    gsum_congr (fun X Y _ _ => wrow_eq_wcol' hL hR X Y)
  rw [e1, sum_map_add, sum_map_add, sum_map_mul, sum_dx hL, ← gsum_wcol_list nx ny L hb,
    ← gsum_wrow_list nx ny L hb, e2]
  ring

/-- **discrete Green for a followed ring**: shoelace area of the ring = 2 · Σ_pixels winding number -/
theorem green {R : Int → Int → Bool} {nx ny : Nat} (hR : InRaster R nx ny) {c : List FSt}
    (hc : Closed R c ∧ ∃ m start, 1 ≤ m ∧ c = orbitL (step R) m start ∧ iterS (step R) m start = start) :
    area2 (cycRing c) = 2 * gsum nx ny (wcol c) := by
  obtain ⟨hcl, m, start, hm, e, hit⟩ := hc
  rw [← sum_ucross hcl hR, e]
  exact area2_cycRing R m start hm hit

end XrsVerif.Polygonize
