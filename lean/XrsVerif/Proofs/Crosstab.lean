import XrsVerif.Proofs.Zonal
import XrsVerif.Model.Crosstab
import Mathlib.Algebra.Order.Field.Basic
import Mathlib.Algebra.BigOperators.Group.List.Basic
import Mathlib.Tactic.FieldSimp
import Mathlib.Tactic.Ring
/-
  Proofs/Crosstab.lean -- helper lemmas for C04 (and the crosstab half of C03):
  * `strides` over the sorted values of a zone are the running totals of the category counts;
  * the `cat_start` loop (`catLoop`) emits, for every selected category, its own count plus the
    counts of the unselected categories skipped since the last selected one (`emit`) -- nothing but
    its own count when the offset is advanced for every category;
  * the per-zone rows of the repaired sort-and-stride are the rows of the true contingency table.
-/
set_option linter.unusedSectionVars false
set_option linter.unusedVariables false
namespace XrsVerif.Zonal

variable {κ γ : Type} [LinearOrder κ] [LinearOrder γ]

/-! ### strides of a sorted plain list = running totals of the counts -/

/-- running totals: `prefixFrom c [k1, k2, ..] = [c + k1, c + k1 + k2, ..]` -/
def prefixFrom : Nat → List Nat → List Nat
  | _, [] => []
  | c, k :: ks => (c + k) :: prefixFrom (c + k) ks

theorem takeWhile_eq_filter_plain (s : List γ) (z : γ) (hs : s.Pairwise (· ≤ ·)) (hge : ∀ x ∈ s, z ≤ x) :
    s.takeWhile (· == z) = s.filter (· == z) := by
  induction s with
  | nil => rfl
  | cons p s ih =>
    rw [List.pairwise_cons] at hs
    have hp := hge p (by simp)
    by_cases h : p = z
    · simp only [List.takeWhile, List.filter, h, beq_self_eq_true]
      rw [ih hs.2 (fun q hq => hge q (by simp [hq]))]
    · have hlt : z < p := lt_of_le_of_ne hp (Ne.symm h)
      have hnone : ∀ q ∈ s, ¬ (q == z) = true := by
        intro q hq; have := hs.1 q hq; simp; intro h'; order
      have hbeq : (p == z) = false := by simp [h]
      simp only [List.takeWhile, List.filter, hbeq]
      symm; rw [List.filter_eq_nil_iff]; exact hnone

theorem dropWhile_gt_plain (s : List γ) (z : γ) (hs : s.Pairwise (· ≤ ·)) (hge : ∀ x ∈ s, z ≤ x) :
    ∀ q ∈ s.dropWhile (· == z), z < q := by
  induction s with
  | nil => simp
  | cons p s ih =>
    rw [List.pairwise_cons] at hs
    by_cases h : p = z
    · simp only [List.dropWhile, h, beq_self_eq_true]
      exact ih hs.2 (fun q hq => hge q (by simp [hq]))
    · have hbeq : (p == z) = false := by simp [h]
      have hp := hge p (by simp)
      simp only [List.dropWhile, hbeq]
      intro q hq
      rcases List.mem_cons.mp hq with rfl | hq
      · exact lt_of_le_of_ne hp (Ne.symm h)
      · have := hs.1 q hq; order

theorem count_dropWhile_of_ne (z z' : γ) (hne : z ≠ z') (s : List γ) :
    (s.dropWhile (· == z)).count z' = s.count z' := by
  induction s with
  | nil => rfl
  | cons q s ih =>
    by_cases h : q = z
    · subst h
      simp only [List.dropWhile, beq_self_eq_true]
      rw [ih, List.count_cons_of_ne hne]
    · have hbeq : (q == z) = false := by simp [h]
      simp only [List.dropWhile, hbeq]

/-- the pointer loop over the sorted values of a zone records the running totals of the category counts -/
theorem strides_eq_prefix (s : List γ) (us : List γ) (c : Nat)
    (hs : s.Pairwise (· ≤ ·)) (hu : us.Pairwise (· < ·)) (hmem : ∀ x ∈ s, x ∈ us) :
    strides s c us = prefixFrom c (us.map (fun u => s.count u)) := by
  induction us generalizing s c with
  | nil => rfl
  | cons u us ih =>
    rw [List.pairwise_cons] at hu
    have hge : ∀ x ∈ s, u ≤ x := by
      intro x hx
      rcases List.mem_cons.mp (hmem x hx) with h | h
      · exact le_of_eq h.symm
      · exact le_of_lt (hu.1 _ h)
    have hk : (s.takeWhile (· == u)).length = s.count u := by
      rw [takeWhile_eq_filter_plain s u hs hge, List.count_eq_length_filter]
    simp only [strides, List.map_cons, prefixFrom, hk]
    congr 1
    have hd : s.drop (s.count u) = s.dropWhile (· == u) := by
      rw [← hk]; exact drop_length_takeWhile _ _
    rw [hd]
    have hsub : (s.dropWhile (· == u)).Sublist s := List.dropWhile_sublist _
    rw [ih (s.dropWhile (· == u)) (c + s.count u) (hs.sublist hsub) hu.2]
    · congr 1
      apply List.map_congr_left
      intro u' hu'
      exact count_dropWhile_of_ne u u' (ne_of_lt (hu.1 u' hu')) s
    · intro x hx
      have h1 := dropWhile_gt_plain s u hs hge x hx
      rcases List.mem_cons.mp (hmem x (hsub.subset hx)) with h | h
      · exact absurd h1 (by rw [h]; exact lt_irrefl _)
      · exact h

/-! ### the `cat_start` loop -/

/-- what `catLoop` emits in terms of the per-category counts: a selected category reports its own
    count plus `acc`, the counts of the unselected categories skipped since the last selected one
    (always 0 when the offset advances for every category) -/
def emit (always : Bool) (sel : γ → Bool) : Nat → List (γ × Nat) → List (γ × Nat)
  | _, [] => []
  | acc, (c, k) :: rest =>
    if sel c then (c, acc + k) :: emit always sel 0 rest
    else emit always sel (if always then 0 else acc + k) rest

theorem zip_prefixFrom_cons (u : γ) (us : List γ) (c k : Nat) (ks : List Nat) :
    (u :: us).zip (prefixFrom c (k :: ks)) = (u, c + k) :: us.zip (prefixFrom (c + k) ks) := rfl

theorem catLoop_eq_emit (always : Bool) (sel : γ → Bool) (us : List γ) (ks : List Nat) (cs c0 : Nat)
    (h : cs ≤ c0) :
    catLoop always sel cs (us.zip (prefixFrom c0 ks)) = emit always sel (c0 - cs) (us.zip ks) := by
  induction us generalizing ks cs c0 with
  | nil => simp [catLoop, emit]
  | cons u us ih =>
    cases ks with
    | nil => simp [prefixFrom, catLoop, emit]
    | cons k ks =>
      rw [zip_prefixFrom_cons]
      simp only [List.zip_cons_cons, catLoop, emit]
      by_cases hs : sel u = true
      · simp only [hs, if_true]
        rw [ih ks (c0 + k) (c0 + k) (Nat.le_refl _)]
        simp only [Nat.sub_self]
        congr 2
        omega
      · have hs' : sel u = false := by simpa using hs
        simp only [hs', Bool.false_eq_true, if_false]
        cases always with
        | true =>
          simp only [if_true]
          rw [ih ks (c0 + k) (c0 + k) (Nat.le_refl _)]
          simp
        | false =>
          simp only [Bool.false_eq_true, if_false]
          rw [ih ks cs (c0 + k) (by omega)]
          congr 1
          omega

/-- with the offset advanced for every category the loop reports exactly the selected categories' own counts -/
theorem emit_always (sel : γ → Bool) (l : List (γ × Nat)) :
    emit true sel 0 l = l.filter (fun p => sel p.1) := by
  induction l with
  | nil => rfl
  | cons p l ih =>
    obtain ⟨c, k⟩ := p
    by_cases hs : sel c = true
    · simp [emit, hs, ih]
    · have hs' : sel c = false := by simpa using hs
      simp [emit, hs', ih]

/-! ### lookups in the emitted association list -/

theorem lookupD_map {α β : Type} [DecidableEq α] (d : β) (k : α) (l : List α) (g : α → β) :
    lookupD d k (l.map (fun a => (a, g a))) = if k ∈ l then g k else d := by
  induction l with
  | nil => simp [lookupD]
  | cons a l ih =>
    simp only [List.map_cons, lookupD, ih, List.mem_cons]
    by_cases h : a = k
    · subst h; simp
    · have : ¬ k = a := fun e => h e.symm
      simp [h, this]

/-! ### one zone -/

/-- the finite valid values of a slice -/
def finVals (valid : X γ → Bool) (slice : List (X γ)) : List γ := (slice.filter valid).filterMap X.toFin?

/-- `_single_zone_crosstab_2d` in terms of counts: for any `always` the loop is `emit` over the
    per-category counts of the zone's valid values -/
theorem singleZone2d_eq (always : Bool) (valid : X γ → Bool) (uniqCats catIds : List γ) (slice : List (X γ))
    (hu : uniqCats.Pairwise (· < ·)) (hmem : ∀ x ∈ finVals valid slice, x ∈ uniqCats) :
    singleZone2d always valid uniqCats catIds slice
      = ((slice.filter valid).length,
          emit always (fun c => catIds.contains c) 0
            (uniqCats.zip (uniqCats.map (fun c => (finVals valid slice).count c)))) := by
  unfold singleZone2d
  simp only
  congr 1
  have hp := perm_isort ((slice.filter valid).filterMap X.toFin?)
  rw [strides_eq_prefix _ uniqCats 0 (sorted_isort _) hu (fun x hx => hmem x (hp.subset hx))]
  rw [catLoop_eq_emit always _ uniqCats _ 0 0 (Nat.le_refl _)]
  simp only [Nat.sub_self]
  congr 2
  apply List.map_congr_left
  intro c _
  exact hp.count_eq c

/-! ### the whole 2-D table -/

/-- the entry the property asks for: number of cells of `order` with zone `z` whose value is the
    valid (finite, not nodata) number `c` -/
def countZC (zones : Nat → X κ) (values : Nat → X γ) (valid : X γ → Bool) (order : List Nat) (z : κ) (c : γ) : Nat :=
  (finVals valid ((order.filter (fun i => zones i == .fin z)).map values)).count c

/-- `countZC` literally counts cells -/
theorem countZC_eq_cells (zones : Nat → X κ) (values : Nat → X γ) (valid : X γ → Bool) (order : List Nat)
    (z : κ) (c : γ) :
    countZC zones values valid order z c
      = (order.filter (fun i => zones i == .fin z && (valid (values i) && values i == .fin c))).length := by
  unfold countZC finVals
  induction order with
  | nil => rfl
  | cons i l ih =>
    rw [List.filter_cons, List.filter_cons]
    by_cases hz : (zones i == X.fin z) = true
    · simp only [hz, if_true, List.map_cons, Bool.true_and]
      rw [List.filter_cons]
      by_cases hv : valid (values i) = true
      · simp only [hv, if_true, Bool.true_and]
        cases hvi : values i with
        | fin q =>
          by_cases hq : q = c
          · subst hq; simp [X.toFin?, ih]
          · have : (X.fin q == X.fin c) = false := by simp [hq]
            simp [X.toFin?, hq, this, ih]
        | nan => simpa [X.toFin?, List.filterMap_cons] using ih
        | ninf => simpa [X.toFin?, List.filterMap_cons] using ih
        | pinf => simpa [X.toFin?, List.filterMap_cons] using ih
      · have hv' : valid (values i) = false := by simpa using hv
        simpa [hv'] using ih
    · have hz' : (zones i == X.fin z) = false := by simpa using hz
      simpa [hz'] using ih

theorem countZC_perm (zones : Nat → X κ) (values : Nat → X γ) (valid : X γ → Bool) (o₁ o₂ : List Nat)
    (h : o₁.Perm o₂) (z : κ) (c : γ) :
    countZC zones values valid o₁ z c = countZC zones values valid o₂ z c := by
  unfold countZC finVals
  exact (((((h.filter _).map _).filter _).filterMap _).count_eq c)

theorem mem_findCats2d (values : Nat → X γ) (valid : X γ → Bool) (cells : List Nat) (c : γ) :
    c ∈ findCats2d values valid cells ↔ ∃ i ∈ cells, valid (values i) = true ∧ values i = .fin c := by
  rw [findCats2d, mem_sortDedup, List.mem_filterMap]
  constructor
  · rintro ⟨i, hi, h⟩
    refine ⟨i, hi, ?_⟩
    by_cases hv : valid (values i) = true
    · cases hvi : values i <;> simp_all [X.toFin?]
    · simp_all
  · rintro ⟨i, hi, hv, hvi⟩
    refine ⟨i, hi, ?_⟩
    rw [if_pos hv, hvi]; rfl

/-- the per-zone loop on the repaired sort-and-stride: one row per selected zone, computed from the
    cells of exactly that zone -/
theorem zoneRows2d_fixed (always : Bool) (zones : Nat → X κ) (values : Nat → X γ) (valid : X γ → Bool)
    (cells perm : List Nat) (uniq : List κ) (sel : κ → Bool) (uniqCats catIds : List γ)
    (hp : SortsCells zones cells perm) (hu : CoversCells zones cells uniq) :
    zoneRows2d true always zones values valid uniq sel uniqCats catIds perm
      = (uniq.filter sel).map (fun z =>
          singleZone2d always valid uniqCats catIds ((perm.filter (fun i => zones i == .fin z)).map values)) := by
  unfold zoneRows2d
  simp only
  rw [slices_fixed zones values cells perm uniq hp hu, zip_map_self, List.filter_map, List.map_map]
  rfl

/-- the row of one zone, for any treatment of the running offset, in terms of the true counts -/
def rowOf (always : Bool) (uniqCats cats : List γ) (total : Nat) (counts : List Nat) : Nat × List Nat :=
  (total, cats.map (fun c => lookupD 0 c (emit always (fun c => cats.contains c) 0 (uniqCats.zip counts))))

theorem zoneRows2d_rows (always : Bool) (zones : Nat → X κ) (values : Nat → X γ) (valid : X γ → Bool)
    (cells perm : List Nat) (uniq : List κ) (sel : κ → Bool) (catIds : Option (List γ))
    (hp : SortsCells zones cells perm) (hu : CoversCells zones cells uniq) :
    let uniqCats := findCats2d values valid cells
    let cats := selectIds uniqCats catIds
    (zoneRows2d true always zones values valid uniq sel uniqCats cats perm).map
        (fun r => (r.1, cats.map (fun c => lookupD 0 c r.2)))
      = (uniq.filter sel).map (fun z =>
          rowOf always uniqCats cats (zoneCells zones values valid perm z).length
            (uniqCats.map (countZC zones values valid perm z))) := by
  intro uniqCats cats
  rw [zoneRows2d_fixed always zones values valid cells perm uniq sel uniqCats cats hp hu, List.map_map]
  apply List.map_congr_left
  intro z _
  have hmem : ∀ x ∈ finVals valid ((perm.filter (fun i => zones i == .fin z)).map values), x ∈ uniqCats := by
    intro x hx
    unfold finVals at hx
    rw [List.mem_filterMap] at hx
    obtain ⟨v, hv, hvx⟩ := hx
    rw [List.mem_filter, List.mem_map] at hv
    obtain ⟨⟨i, hi, rfl⟩, hval⟩ := hv
    rw [mem_findCats2d]
    refine ⟨i, hp.isPerm.subset (List.mem_filter.mp hi).1, hval, ?_⟩
    cases hvi : values i <;> simp_all [X.toFin?]
  simp only [Function.comp]
  rw [singleZone2d_eq always valid uniqCats cats _ (sorted_sortDedup _) hmem]
  rfl

/-- with the offset advanced for every category a row holds exactly the selected categories' counts -/
theorem rowOf_always (uniqCats : List γ) (catIds : Option (List γ)) (total : Nat) (g : γ → Nat) :
    rowOf true uniqCats (selectIds uniqCats catIds) total (uniqCats.map g)
      = (total, (selectIds uniqCats catIds).map g) := by
  unfold rowOf
  congr 1
  apply List.map_congr_left
  intro c hc
  rw [emit_always, zip_map_self, List.filter_map, Function.comp_def]
  simp only
  rw [lookupD_map]
  have hcu : c ∈ uniqCats := by
    cases catIds with
    | none => exact hc
    | some req => simp only [selectIds, List.mem_filter, List.contains_eq_mem, decide_eq_true_eq] at hc; exact hc.2
  simp [List.mem_filter, hcu, hc]

theorem zoneLabels_sorted (uniq : List κ) (zoneIds : Option (List κ)) :
    zoneLabels true uniq zoneIds = uniq.filter (fun u => (selectIds uniq zoneIds).contains u)
      ∧ uniq.filter (fun u => (selectIds uniq zoneIds).contains u) = uniq.filter (wanted zoneIds) := by
  cases zoneIds with
  | none =>
    have : wanted (none : Option (List κ)) = fun _ => true := rfl
    simp only [zoneLabels, selectIds, this]
    constructor
    · symm; apply List.filter_eq_self.mpr; intro a ha; simp [ha]
    · apply List.filter_congr; intro a ha; simp [ha]
  | some req =>
    simp only [zoneLabels, selectIds, if_true]
    constructor
    · apply List.filter_congr; intro a ha; simp [List.mem_filter, ha]
    · apply List.filter_congr; intro a ha; simp [List.mem_filter, ha, wanted]

/-- **the 2-D count table of the repaired code** (indices stripped before the gather, offset advanced
    for every category, rows listed in computed order), for every sorting permutation -/
theorem crosstabNumpy2d_fixed (zones : Nat → X κ) (values : Nat → X γ) (valid : X γ → Bool)
    (cells perm : List Nat) (zoneIds : Option (List κ)) (catIds : Option (List γ))
    (hp : SortsCells zones cells perm) :
    crosstabNumpy2d true true true zones values valid cells zoneIds catIds perm
      = some { zone := wantedZones zones cells zoneIds
               cats := selectIds (findCats2d values valid cells) catIds
               total := (wantedZones zones cells zoneIds).map (fun z => (zoneCells zones values valid cells z).length)
               rows := (wantedZones zones cells zoneIds).map (fun z =>
                  (selectIds (findCats2d values valid cells) catIds).map (countZC zones values valid cells z)) } := by
  have hu := uniqueZones_covers zones cells
  have hl := zoneLabels_sorted (uniqueZones zones cells) zoneIds
  have hrows := zoneRows2d_rows true zones values valid cells perm (uniqueZones zones cells)
    (fun u => (selectIds (uniqueZones zones cells) zoneIds).contains u) catIds hp hu
  simp only at hrows
  unfold crosstabNumpy2d
  simp only
  have hlen : (zoneLabels true (uniqueZones zones cells) zoneIds).length
      = (zoneRows2d true true zones values valid (uniqueZones zones cells)
          (fun u => (selectIds (uniqueZones zones cells) zoneIds).contains u)
          (findCats2d values valid cells) (selectIds (findCats2d values valid cells) catIds) perm).length := by
    have := congrArg List.length hrows
    simp only [List.length_map] at this
    rw [this, hl.1]
  rw [if_neg (by rw [hlen]; simp)]
  have h1 := congrArg (List.map Prod.fst) hrows
  have h2 := congrArg (List.map Prod.snd) hrows
  simp only [List.map_map, Function.comp_def] at h1 h2
  simp only [wantedZones]
  rw [hl.1, hl.2]
  rw [hl.2] at h1 h2
  congr 2
  · rw [h1]
    apply List.map_congr_left
    intro z _
    simp only [rowOf]
    exact (zoneCells_perm zones values valid perm cells hp.isPerm z).length_eq
  · rw [h2]
    apply List.map_congr_left
    intro z _
    have := rowOf_always (findCats2d values valid cells) catIds
      (zoneCells zones values valid perm z).length (countZC zones values valid perm z)
    rw [this]
    apply List.map_congr_left
    intro c _
    exact countZC_perm zones values valid perm cells hp.isPerm z c

/-! ### 3-D -/

theorem layerCol_fixed {ν ρ : Type} (zones : Nat → X κ) (layer : Nat → ν) (valid : ν → Bool) (func : List ν → ρ)
    (cells perm : List Nat) (uniq : List κ) (sel : κ → Bool)
    (hp : SortsCells zones cells perm) (hu : CoversCells zones cells uniq) :
    layerCol true zones layer valid func uniq sel perm
      = (uniq.filter sel).map (fun z => func (zoneCells zones layer valid perm z)) := by
  unfold layerCol
  simp only
  rw [slices_fixed zones layer cells perm uniq hp hu, zip_map_self, List.filter_map, List.map_map]
  rfl

/-- **the 3-D table of the repaired code**: every entry is `func` of the valid cells of that layer
    inside that zone (enumerated in `perm` order) -/
theorem crosstabNumpy3d_fixed {ν ρ : Type} [DecidableEq γ] (zones : Nat → X κ) (layers : List (γ × (Nat → ν)))
    (valid : ν → Bool) (func : List ν → ρ) (cells perm : List Nat)
    (zoneIds : Option (List κ)) (catIds : Option (List γ)) (hp : SortsCells zones cells perm) :
    crosstabNumpy3d true true zones layers valid func cells zoneIds catIds perm
      = some { zone := wantedZones zones cells zoneIds
               cats := selectIds (layers.map Prod.fst) catIds
               cols := (selectIds (layers.map Prod.fst) catIds).map (fun c =>
                  optCol (layers.find? (fun l => l.1 == c)) (fun l =>
                    (wantedZones zones cells zoneIds).map (fun z => func (zoneCells zones l.2 valid perm z)))) } := by
  have hu := uniqueZones_covers zones cells
  have hl := zoneLabels_sorted (uniqueZones zones cells) zoneIds
  unfold crosstabNumpy3d
  simp only
  rw [if_neg (by rw [hl.1]; simp)]
  simp only [wantedZones]
  rw [hl.1, hl.2]
  congr 2
  apply List.map_congr_left
  intro c _
  cases hfind : layers.find? (fun l => l.1 == c) with
  | none => rfl
  | some l =>
    simp only [optCol]
    rw [layerCol_fixed zones l.2 valid func cells perm _ _ hp hu, hl.2]

/-! ### percentages -/

theorem sum_count_eq_length (cats : List γ) (hc : cats.Pairwise (· < ·)) (l : List γ) (hl : ∀ x ∈ l, x ∈ cats) :
    (cats.map (fun c => l.count c)).sum = l.length := by
  induction l with
  | nil => simp
  | cons x l ih =>
    have hx : x ∈ cats := hl x (by simp)
    have step : ∀ (cs : List γ), cs.Pairwise (· < ·) →
        (cs.map (fun c => (x :: l).count c)).sum = (cs.map (fun c => l.count c)).sum + (if x ∈ cs then 1 else 0) := by
      intro cs hcs
      induction cs with
      | nil => simp
      | cons a cs ihc =>
        rw [List.pairwise_cons] at hcs
        have e := ihc hcs.2
        have hcount : (x :: l).count a = l.count a + (if x = a then 1 else 0) := by
          rw [List.count_cons]; simp
        rw [List.map_cons, List.sum_cons, List.map_cons, List.sum_cons, e, hcount]
        by_cases hxa : x = a
        · subst hxa
          have : x ∉ cs := fun h => lt_irrefl _ (hcs.1 x h)
          simp [this]; omega
        · simp [hxa]; omega
    rw [step cats hc, ih (fun y hy => hl y (List.mem_cons_of_mem _ hy))]
    simp [hx]

/-- the category counts of a zone add up to its number of valid cells (all categories present) -/
theorem sum_countZC (zones : Nat → X κ) (values : Nat → X γ) (valid : X γ → Bool) (cells : List Nat) (z : κ)
    (hfin : ∀ v, valid v = true → v.isFin = true) :
    ((findCats2d values valid cells).map (countZC zones values valid cells z)).sum
      = (zoneCells zones values valid cells z).length := by
  unfold countZC
  rw [sum_count_eq_length (findCats2d values valid cells) (by unfold findCats2d; exact sorted_sortDedup _)]
  · unfold finVals zoneCells
    have : ∀ l : List (X γ), (∀ v ∈ l, v.isFin = true) → (l.filterMap X.toFin?).length = l.length := by
      intro l hl
      induction l with
      | nil => rfl
      | cons a l ih =>
        have ha := hl a (by simp)
        cases a <;> simp_all [X.isFin, X.toFin?]
    apply this
    intro v hv
    exact hfin v (List.mem_filter.mp hv).2
  · intro x hx
    unfold finVals at hx
    rw [List.mem_filterMap] at hx
    obtain ⟨v, hv, hvx⟩ := hx
    rw [List.mem_filter, List.mem_map] at hv
    obtain ⟨⟨i, hi, rfl⟩, hval⟩ := hv
    rw [mem_findCats2d]
    refine ⟨i, (List.mem_filter.mp hi).1, hval, ?_⟩
    cases hvi : values i <;> simp_all [X.toFin?]

theorem percent_sum {F : Type} [Field F] [CharZero F] (ns : List Nat) (total : Nat) (ht : total ≠ 0)
    (hs : ns.sum = total) :
    (ns.map (fun (n : Nat) => (n : F) / (total : F) * ((100 : Nat) : F))).sum = ((100 : Nat) : F) := by
  have hT : (total : F) ≠ 0 := Nat.cast_ne_zero.mpr ht
  have : ∀ l : List Nat, (l.map (fun (n : Nat) => (n : F) / (total : F) * ((100 : Nat) : F))).sum
      = ((l.sum : Nat) : F) / (total : F) * ((100 : Nat) : F) := by
    intro l
    induction l with
    | nil => simp
    | cons a l ih => rw [List.map_cons, List.sum_cons, ih, List.sum_cons, Nat.cast_add]; ring
  rw [this, hs]
  field_simp

end XrsVerif.Zonal
