import XrsVerif.Proofs.ILViewshedArr
/-
  Proofs/ILViewshedIns.lean -- the pure part of the refinement of `_insert_into_tree` up to the colour fixup:

  * `insCoreC`     the hand model's `insCore` with the value that travels upwards being the child's *stored* maximum
                   (what the code compares with) instead of the fixed `minv` of the new node -- the same function on a
                   linear order (`insCoreC_eq`, Proofs/ILViewshedOrder.lean), the code's behaviour on any `Fl`;
  * tree zippers (`TFr`, `plugT`), the descent `insPathT`, the upward propagation `propT`, and
    `propT_insPathT : propT (some (minv nn)) (leaf nn) (insPathT K t []) = (insCoreC nn t).1`;
  * the same on the arrays: `insZ` (the descent on shapes), `absCtx` (a context read off the arrays), `propArr` (the
    array after the propagation loop), and `absT_propArr`: the abstraction of the tree after the loop is `propT`.
-/
set_option linter.unusedSectionVars false
set_option linter.unusedVariables false
set_option linter.unusedSimpArgs false
namespace XrsVerif.ILVs
open XrsVerif XrsVerif.IL XrsVerif.Viewshed

section tree
variable {α : Type} [LT α] [DecidableLT α] [LE α] [DecidableLE α]

/-- the new leaf -/
def leafT (nn : Node α) : Tree α := .node .nil nn (minv nn) true .nil

/-- `_insert_into_tree` up to the fixup, with the child's stored maximum travelling upwards: the new subtree and,
    while the propagation loop is still running, the stored maximum of its root -/
def insCoreC (nn : Node α) : Tree α → Tree α × Option α
  | .nil => (leafT nn, some (minv nn))
  | .node l n mx c r =>
    if nn.key < n.key then
      match insCoreC nn l with
      | (l', some cm) =>
        let mx' := if mx < cm then cm else mx
        (.node l' n mx' c r, if cm < mx' then none else some mx')
      | (l', none) => (.node l' n mx c r, none)
    else
      match insCoreC nn r with
      | (r', some cm) =>
        let mx' := if mx < cm then cm else mx
        (.node l n mx' c r', if cm < mx' then none else some mx')
      | (r', none) => (.node l n mx c r', none)

inductive TFr (α : Type) where
  | L (n : Node α) (mx : α) (c : Bool) (r : Tree α) : TFr α
  | R (l : Tree α) (n : Node α) (mx : α) (c : Bool) : TFr α

def plugT : Tree α → List (TFr α) → Tree α
  | t, [] => t
  | t, .L n mx c r :: rest => plugT (.node t n mx c r) rest
  | t, .R l n mx c :: rest => plugT (.node l n mx c t) rest

/-- the descent of the insertion: to the empty slot (equal keys go right) -/
def insPathT (K : α) : Tree α → List (TFr α) → List (TFr α)
  | .nil, c => c
  | .node l n mx col r, c =>
    if K < n.key then insPathT K l (.L n mx col r :: c) else insPathT K r (.R l n mx col :: c)

/-- the propagation loop, frame by frame: `some cm` = still running, `cm` the stored maximum of the subtree below -/
def propT : Option α → Tree α → List (TFr α) → Tree α
  | _, t, [] => t
  | none, t, fr :: rest => plugT t (fr :: rest)
  | some cm, t, .L n mx c r :: rest =>
    let mx' := if mx < cm then cm else mx
    propT (if cm < mx' then none else some mx') (.node t n mx' c r) rest
  | some cm, t, .R l n mx c :: rest =>
    let mx' := if mx < cm then cm else mx
    propT (if cm < mx' then none else some mx') (.node l n mx' c t) rest

theorem propT_none (t : Tree α) (c : List (TFr α)) : propT none t c = plugT t c := by
  cases c <;> rfl

theorem propT_insPathT (nn : Node α) : ∀ (t : Tree α) (c : List (TFr α)),
    propT (some (minv nn)) (leafT nn) (insPathT nn.key t c) = propT (insCoreC nn t).2 (insCoreC nn t).1 c := by
  intro t
  induction t with
  | nil => intro c; rfl
  | node l n mx col r ihl ihr =>
    intro c
    simp only [insPathT, insCoreC]
    split
    · rw [ihl]
      rcases h : insCoreC nn l with ⟨l', _ | cm⟩
      · simp [propT_none, propT, plugT]
      · simp [propT]
    · rw [ihr]
      rcases h : insCoreC nn r with ⟨r', _ | cm⟩
      · simp [propT_none, propT, plugT]
      · simp [propT]

end tree

section arrays
variable {F : Type} [Fl F]

/-- the descent on shapes -/
def insZ (vals : List F) (K : Fv F) : Sh → Ctx → Ctx
  | .nil, c => c
  | .node l i r, c => if K < vAt vals i 0 then insZ vals K l (.L i r :: c) else insZ vals K r (.R l i :: c)

theorem insZ_plug (vals : List F) (K : Fv F) : ∀ (sh : Sh) (c : Ctx), plug .nil (insZ vals K sh c) = plug sh c := by
  intro sh
  induction sh with
  | nil => intro c; rfl
  | node l i r ihl ihr =>
    intro c
    simp only [insZ]
    split
    · rw [ihl]; rfl
    · rw [ihr]; rfl

/-- a context read off the arrays -/
def absFr (V : List F) (N : List Int) : Fr → TFr (Fv F)
  | .L i r => .L (nodeAt V i) (vAt V i 7) (decide (nAt N i 0 = 0)) (absT V N r)
  | .R l i => .R (absT V N l) (nodeAt V i) (vAt V i 7) (decide (nAt N i 0 = 0))

def absCtx (V : List F) (N : List Int) (ctx : Ctx) : List (TFr (Fv F)) := ctx.map (absFr V N)

theorem absT_plug (V : List F) (N : List Int) : ∀ (ctx : Ctx) (sub : Sh),
    absT V N (plug sub ctx) = plugT (absT V N sub) (absCtx V N ctx) := by
  intro ctx
  induction ctx with
  | nil => intro sub; rfl
  | cons fr rest ih =>
    intro sub
    cases fr with
    | L i r => simp only [plug, absCtx, List.map_cons, absFr, plugT]; rw [ih]; rfl
    | R l i => simp only [plug, absCtx, List.map_cons, absFr, plugT]; rw [ih]; rfl

theorem absCtx_insZ (V : List F) (N : List Int) (K : Fv F) : ∀ (sh : Sh) (c : Ctx),
    absCtx V N (insZ V K sh c) = insPathT K (absT V N sh) (absCtx V N c) := by
  intro sh
  induction sh with
  | nil => intro c; rfl
  | node l i r ihl ihr =>
    intro c
    simp only [insZ, absT, insPathT, nodeAt_key]
    by_cases h : K < vAt V i 0
    · simp only [h, if_true]; rw [ihl]; rfl
    · simp only [h, if_false]; rw [ihr]; rfl

/-- the rows of a context: the frame rows and the rows of the sibling subtrees -/
def ctxIdxs : Ctx → List Nat
  | [] => []
  | .L i r :: rest => i :: r.idxs ++ ctxIdxs rest
  | .R l i :: rest => i :: l.idxs ++ ctxIdxs rest

theorem idxs_plug_perm : ∀ (ctx : Ctx) (sub : Sh), (plug sub ctx).idxs.Perm (sub.idxs ++ ctxIdxs ctx) := by
  intro ctx
  induction ctx with
  | nil => intro sub; simp [plug, ctxIdxs]
  | cons fr rest ih =>
    intro sub
    cases fr with
    | L i r =>
      refine (ih (.node sub i r)).trans ?_
      simp [Sh.idxs, ctxIdxs]
    | R l i =>
      refine (ih (.node l i sub)).trans ?_
      simp only [Sh.idxs, ctxIdxs, List.append_assoc, List.cons_append]
      have : (l.idxs ++ i :: (sub.idxs ++ ctxIdxs rest)).Perm (sub.idxs ++ i :: (l.idxs ++ ctxIdxs rest)) := by
        have h1 : (l.idxs ++ i :: (sub.idxs ++ ctxIdxs rest)).Perm (i :: (l.idxs ++ (sub.idxs ++ ctxIdxs rest))) :=
          List.perm_middle
        have h2 : (sub.idxs ++ i :: (l.idxs ++ ctxIdxs rest)).Perm (i :: (sub.idxs ++ (l.idxs ++ ctxIdxs rest))) :=
          List.perm_middle
        refine h1.trans (List.Perm.trans ?_ h2.symm)
        refine List.Perm.cons i ?_
        rw [← List.append_assoc, ← List.append_assoc]
        exact List.Perm.append_right _ List.perm_append_comm
      exact this

theorem nodup_plug_iff (ctx : Ctx) (sub : Sh) :
    (plug sub ctx).idxs.Nodup ↔ (sub.idxs ++ ctxIdxs ctx).Nodup := (idxs_plug_perm ctx sub).nodup_iff

theorem mem_plug_iff (ctx : Ctx) (sub : Sh) (j : Nat) :
    j ∈ (plug sub ctx).idxs ↔ j ∈ sub.idxs ∨ j ∈ ctxIdxs ctx := by
  rw [(idxs_plug_perm ctx sub).mem_iff, List.mem_append]

/-- a context none of whose rows is written keeps its abstraction -/
theorem absCtx_congr {V V' : List F} {N N' : List Int} : ∀ (ctx : Ctx),
    (∀ i ∈ ctxIdxs ctx, (∀ c, c < 8 → vAt V' i c = vAt V i c) ∧ nAt N' i 0 = nAt N i 0) →
    absCtx V' N' ctx = absCtx V N ctx := by
  intro ctx
  induction ctx with
  | nil => intro _; rfl
  | cons fr rest ih =>
    intro h
    have hrest := ih (fun i hi => h i (by cases fr <;> simp [ctxIdxs, hi]))
    simp only [absCtx, List.map_cons] at hrest ⊢
    rw [hrest]
    congr 1
    cases fr with
    | L i r =>
      obtain ⟨hv, hn⟩ := h i (by simp [ctxIdxs])
      simp only [absFr, nodeAt, hv 0 (by decide), hv 1 (by decide), hv 2 (by decide), hv 3 (by decide), hv 4 (by decide),
        hv 5 (by decide), hv 6 (by decide), hv 7 (by decide), hn,
        absT_congr r (fun j hj => h j (by simp [ctxIdxs, hj]))]
    | R l i =>
      obtain ⟨hv, hn⟩ := h i (by simp [ctxIdxs])
      simp only [absFr, nodeAt, hv 0 (by decide), hv 1 (by decide), hv 2 (by decide), hv 3 (by decide), hv 4 (by decide),
        hv 5 (by decide), hv 6 (by decide), hv 7 (by decide), hn,
        absT_congr l (fun j hj => h j (by simp [ctxIdxs, hj]))]

/-- a context none of whose link cells is written stays linked -/
theorem CtxLinked.congr {N N' : List Int} {n : Nat} : ∀ {ctx : Ctx} {c : Int}, CtxLinked N n c ctx →
    (∀ i ∈ ctxIdxs ctx, nAt N' i 1 = nAt N i 1 ∧ nAt N' i 2 = nAt N i 2 ∧ nAt N' i 3 = nAt N i 3) →
    CtxLinked N' n c ctx := by
  intro ctx
  induction ctx with
  | nil => intro _ _ _; trivial
  | cons fr rest ih =>
    intro c h hc
    cases fr with
    | L i r =>
      obtain ⟨h1, h2, h3, h4, h5, h6, h7⟩ := h
      obtain ⟨c1, c2, c3⟩ := hc i (by simp [ctxIdxs])
      exact ⟨h1, by rw [c1]; exact h2, by rw [c2]; exact h3, h4, by rw [c3]; exact h5,
        h6.congr (fun j hj => hc j (by simp [ctxIdxs, hj])), ih h7 (fun j hj => hc j (by simp [ctxIdxs, hj]))⟩
    | R l i =>
      obtain ⟨h1, h2, h3, h4, h5, h6, h7⟩ := h
      obtain ⟨c1, c2, c3⟩ := hc i (by simp [ctxIdxs])
      exact ⟨h1, by rw [c1]; exact h2, by rw [c2]; exact h3, h4, by rw [c3]; exact h5,
        h6.congr (fun j hj => hc j (by simp [ctxIdxs, hj])), ih h7 (fun j hj => hc j (by simp [ctxIdxs, hj]))⟩

/-- a locally linked position is a position of a linked tree (converse of `unplug`) -/
theorem replug {N : List Int} {n : Nat} : ∀ (ctx : Ctx) (sub : Sh), Linked N n (ctxPar ctx) sub →
    CtxLinked N n sub.ptr ctx → Linked N n (-1) (plug sub ctx) := by
  intro ctx
  induction ctx with
  | nil => intro sub h _; exact h
  | cons fr rest ih =>
    intro sub h hc
    cases fr with
    | L i r =>
      obtain ⟨h1, h2, h3, h4, h5, h6, h7⟩ := hc
      exact ih (.node sub i r) ⟨h1, h2, h3, h5, h, h6⟩ h7
    | R l i =>
      obtain ⟨h1, h2, h3, h4, h5, h6, h7⟩ := hc
      exact ih (.node l i sub) ⟨h1, h2, h3, h5, h6, h⟩ h7

/-- the frame rows are among the rows of the context -/
theorem frameRows_sublist : ∀ (ctx : Ctx), (ctx.map Fr.idx).Sublist (ctxIdxs ctx) := by
  intro ctx
  induction ctx with
  | nil => exact List.Sublist.slnil
  | cons fr rest ih =>
    cases fr with
    | L i r =>
      simp only [List.map_cons, Fr.idx, ctxIdxs]
      exact List.Sublist.cons_cons i (ih.trans (List.sublist_append_right _ _))
    | R l i =>
      simp only [List.map_cons, Fr.idx, ctxIdxs]
      exact List.Sublist.cons_cons i (ih.trans (List.sublist_append_right _ _))

theorem insZ_ne_nil (vals : List F) (K : Fv F) : ∀ (sh : Sh) (c : Ctx), (sh ≠ .nil ∨ c ≠ []) → insZ vals K sh c ≠ [] := by
  intro sh
  induction sh with
  | nil => intro c h; rcases h with h | h; exact absurd rfl h; simpa [insZ] using h
  | node l i r ihl ihr =>
    intro c _
    simp only [insZ]
    split
    · exact ihl _ (Or.inr (by simp))
    · exact ihr _ (Or.inr (by simp))

/-- the array `tree_vals` after the propagation loop of `_insert_into_tree`, started below the context `ctx` with the
    child's stored maximum `cm` -/
def propArr (V : List F) (cm : Fv F) : Ctx → List F
  | [] => V
  | fr :: rest =>
    let p := fr.idx
    let mx := vAt V p 7
    let mx' := if mx < cm then cm else mx
    let V1 := if mx < cm then V.set (p * 8 + 7) cm.v else V
    if cm < mx' then V1 else propArr V1 mx' rest

theorem propArr_cons (V : List F) (cm : Fv F) (fr : Fr) (rest : Ctx) :
    propArr V cm (fr :: rest) =
      if vAt V fr.idx 7 < cm then
        (if cm < cm then V.set (fr.idx * 8 + 7) cm.v else propArr (V.set (fr.idx * 8 + 7) cm.v) cm rest)
      else
        (if cm < vAt V fr.idx 7 then V else propArr V (vAt V fr.idx 7) rest) := by
  simp only [propArr]
  by_cases h : vAt V fr.idx 7 < cm <;> simp only [h, if_true, if_false]

theorem propArr_length : ∀ (ctx : Ctx) (V : List F) (cm : Fv F), (propArr V cm ctx).length = V.length := by
  intro ctx
  induction ctx with
  | nil => intro V cm; rfl
  | cons fr rest ih =>
    intro V cm
    rw [propArr_cons]
    by_cases h1 : vAt V fr.idx 7 < cm
    · simp only [h1, if_true]
      by_cases h2 : cm < cm
      · simp [h2]
      · simp [h2, ih]
    · simp only [h1, if_false]
      by_cases h2 : cm < vAt V fr.idx 7
      · simp [h2]
      · simp [h2, ih]

/-- `V1` is `V` with the stored maximum of row `p` replaced by `m` -/
def SetMax (V V1 : List F) (p : Nat) (m : Fv F) : Prop :=
  (∀ i, i ≠ p → ∀ c, c < 8 → vAt V1 i c = vAt V i c) ∧ (∀ c, c < 7 → vAt V1 p c = vAt V p c) ∧ vAt V1 p 7 = m ∧
    V1.length = V.length

theorem SetMax.refl (V : List F) (p : Nat) : SetMax V V p (vAt V p 7) :=
  ⟨fun _ _ _ _ => rfl, fun _ _ => rfl, rfl, rfl⟩

theorem SetMax.set (V : List F) (p : Nat) (m : Fv F) (hp : p * 8 + 7 < V.length) : SetMax V (V.set (p * 8 + 7) m.v) p m := by
  refine ⟨fun i hi c hc => ?_, fun c hc => ?_, ?_, by simp⟩
  · rw [vAt_set _ _ _ _ _ _ (by decide) hc hp]; simp [hi]
  · rw [vAt_set _ _ _ _ _ _ (by decide) (by omega) hp]
    have : ¬ (c = 7) := by omega
    simp [this]
  · rw [vAt_set _ _ _ _ _ _ (by decide) (by decide) hp]; simp

theorem SetMax.nodeAt {V V1 : List F} {p : Nat} {m : Fv F} (h : SetMax V V1 p m) : nodeAt V1 p = nodeAt V p := by
  simp only [ILVs.nodeAt, h.2.1 0 (by decide), h.2.1 1 (by decide), h.2.1 2 (by decide), h.2.1 3 (by decide),
    h.2.1 4 (by decide), h.2.1 5 (by decide), h.2.1 6 (by decide)]

theorem SetMax.absT {V V1 : List F} {p : Nat} {m : Fv F} (h : SetMax V V1 p m) (N : List Int) (sub : Sh)
    (hp : p ∉ sub.idxs) : ILVs.absT V1 N sub = ILVs.absT V N sub :=
  absT_congr sub (fun i hi => ⟨fun c hc => h.1 i (fun e => hp (e ▸ hi)) c hc, rfl⟩)

theorem SetMax.absCtx {V V1 : List F} {p : Nat} {m : Fv F} (h : SetMax V V1 p m) (N : List Int) (ctx : Ctx)
    (hp : p ∉ ctxIdxs ctx) : ILVs.absCtx V1 N ctx = ILVs.absCtx V N ctx :=
  absCtx_congr ctx (fun i hi => ⟨fun c hc => h.1 i (fun e => hp (e ▸ hi)) c hc, rfl⟩)

/-- **the propagation loop on the arrays is the propagation on the model tree** -/
theorem absT_propArr (N : List Int) : ∀ (ctx : Ctx) (V : List F) (sub : Sh) (cm : Fv F),
    (sub.idxs ++ ctxIdxs ctx).Nodup → (∀ i ∈ ctxIdxs ctx, i * 8 + 7 < V.length) →
    absT (propArr V cm ctx) N (plug sub ctx) = propT (some cm) (absT V N sub) (absCtx V N ctx) := by
  intro ctx
  induction ctx with
  | nil => intro V sub cm _ _; rfl
  | cons fr rest ih =>
    intro V sub cm hn hlen
    rw [propArr_cons]
    cases fr with
    | L p r =>
      simp only [Fr.idx, ctxIdxs] at hn hlen ⊢
      have hn' : ((Sh.node sub p r).idxs ++ ctxIdxs rest).Nodup := by
        simpa [Sh.idxs, List.append_assoc] using hn
      have hnd := List.nodup_append.mp hn
      have hp_sub : p ∉ sub.idxs := fun h => hnd.2.2 p h p (by simp) rfl
      have hnd2 := List.nodup_cons.mp hnd.2.1
      have hp_r : p ∉ r.idxs := fun h => hnd2.1 (by simp [h])
      have hp_rest : p ∉ ctxIdxs rest := fun h => hnd2.1 (by simp [h])
      have hlenp : p * 8 + 7 < V.length := hlen p (by simp)
      have hlen' : ∀ (V1 : List F), V1.length = V.length → ∀ i ∈ ctxIdxs rest, i * 8 + 7 < V1.length :=
        fun V1 e i hi => by rw [e]; exact hlen i (by simp [hi])
      have key : ∀ (V1 : List F) (m : Fv F), SetMax V V1 p m →
          absT V1 N (.node sub p r) = .node (absT V N sub) (nodeAt V p) m (decide (nAt N p 0 = 0)) (absT V N r) ∧
            absCtx V1 N rest = absCtx V N rest := by
        intro V1 m h
        refine ⟨?_, h.absCtx N rest hp_rest⟩
        simp only [absT, h.nodeAt, h.absT N sub hp_sub, h.absT N r hp_r, h.2.2.1]
      simp only [absCtx, List.map_cons, absFr]
      by_cases h1 : vAt V p 7 < cm
      · simp only [h1, if_true, propT]
        have hs := SetMax.set V p cm hlenp
        obtain ⟨k1, k2⟩ := key _ _ hs
        by_cases h2 : cm < cm
        · simp only [h2, if_true, propT_none]
          show absT _ N (plug (.node sub p r) rest) = _
          rw [absT_plug, k1, k2]; rfl
        · simp only [h2, if_false]
          show absT _ N (plug (.node sub p r) rest) = _
          rw [ih _ (.node sub p r) cm hn' (hlen' _ hs.2.2.2), k1, k2]; rfl
      · simp only [h1, if_false, propT]
        have hs := SetMax.refl V p
        obtain ⟨k1, k2⟩ := key _ _ hs
        by_cases h2 : cm < vAt V p 7
        · simp only [h2, if_true, propT_none]
          show absT _ N (plug (.node sub p r) rest) = _
          rw [absT_plug, k1]; rfl
        · simp only [h2, if_false]
          show absT _ N (plug (.node sub p r) rest) = _
          rw [ih _ (.node sub p r) _ hn' (hlen' _ rfl), k1]; rfl
    | R l p =>
      simp only [Fr.idx, ctxIdxs] at hn hlen ⊢
      have hnd := List.nodup_append.mp hn
      have hp_sub : p ∉ sub.idxs := fun h => hnd.2.2 p h p (by simp) rfl
      have hnd2 := List.nodup_cons.mp hnd.2.1
      have hp_l : p ∉ l.idxs := fun h => hnd2.1 (by simp [h])
      have hp_rest : p ∉ ctxIdxs rest := fun h => hnd2.1 (by simp [h])
      have hn' : ((Sh.node l p sub).idxs ++ ctxIdxs rest).Nodup := by
        have hperm : ((Sh.node l p sub).idxs ++ ctxIdxs rest).Perm (sub.idxs ++ (p :: (l.idxs ++ ctxIdxs rest))) := by
          simp only [Sh.idxs, List.append_assoc, List.cons_append]
          have h1 : (l.idxs ++ p :: (sub.idxs ++ ctxIdxs rest)).Perm (p :: (l.idxs ++ (sub.idxs ++ ctxIdxs rest))) :=
            List.perm_middle
          have h2 : (sub.idxs ++ p :: (l.idxs ++ ctxIdxs rest)).Perm (p :: (sub.idxs ++ (l.idxs ++ ctxIdxs rest))) :=
            List.perm_middle
          refine h1.trans (List.Perm.trans ?_ h2.symm)
          refine List.Perm.cons p ?_
          rw [← List.append_assoc, ← List.append_assoc]
          exact List.Perm.append_right _ List.perm_append_comm
        exact hperm.nodup_iff.mpr (by simpa using hn)
      have hlenp : p * 8 + 7 < V.length := hlen p (by simp)
      have hlen' : ∀ (V1 : List F), V1.length = V.length → ∀ i ∈ ctxIdxs rest, i * 8 + 7 < V1.length :=
        fun V1 e i hi => by rw [e]; exact hlen i (by simp [hi])
      have key : ∀ (V1 : List F) (m : Fv F), SetMax V V1 p m →
          absT V1 N (.node l p sub) = .node (absT V N l) (nodeAt V p) m (decide (nAt N p 0 = 0)) (absT V N sub) ∧
            absCtx V1 N rest = absCtx V N rest := by
        intro V1 m h
        refine ⟨?_, h.absCtx N rest hp_rest⟩
        simp only [absT, h.nodeAt, h.absT N sub hp_sub, h.absT N l hp_l, h.2.2.1]
      simp only [absCtx, List.map_cons, absFr]
      by_cases h1 : vAt V p 7 < cm
      · simp only [h1, if_true, propT]
        have hs := SetMax.set V p cm hlenp
        obtain ⟨k1, k2⟩ := key _ _ hs
        by_cases h2 : cm < cm
        · simp only [h2, if_true, propT_none]
          show absT _ N (plug (.node l p sub) rest) = _
          rw [absT_plug, k1, k2]; rfl
        · simp only [h2, if_false]
          show absT _ N (plug (.node l p sub) rest) = _
          rw [ih _ (.node l p sub) cm hn' (hlen' _ hs.2.2.2), k1, k2]; rfl
      · simp only [h1, if_false, propT]
        have hs := SetMax.refl V p
        obtain ⟨k1, k2⟩ := key _ _ hs
        by_cases h2 : cm < vAt V p 7
        · simp only [h2, if_true, propT_none]
          show absT _ N (plug (.node l p sub) rest) = _
          rw [absT_plug, k1]; rfl
        · simp only [h2, if_false]
          show absT _ N (plug (.node l p sub) rest) = _
          rw [ih _ (.node l p sub) _ hn' (hlen' _ rfl), k1]; rfl

end arrays
end XrsVerif.ILVs
