import XrsVerif.Proofs.ILangVssweep
import XrsVerif.Proofs.ViewshedEvents
/-
  Proofs/ILVsGeom.lean -- the generated `_calculate_event_row_col` and `_calc_event_pos` compute the model's corner
  tables `nbOff` / `posOff` (Model/ViewshedEvents.lean) for every (type, cell, observer); proved once for the templates
  `rcBody k p` / `posBody k p`, hence for the stand-alone programs and every inlined copy.
-/
namespace XrsVerif.ILSw
open XrsVerif XrsVerif.IL XrsVerif.ViewshedEvents
variable {F : Type} [Fl F]
set_option linter.unusedSectionVars false
set_option linter.unusedSimpArgs false
set_option linter.unusedVariables false

/-! ### the model's tables by position -/

theorem nbS_exit (ty sr sc : Int) (h : ty ≠ 1) : nbS ty sr sc = nbS (-1) sr sc := by
  unfold nbS pickS
  cases branch Gen.Viewshed.calcEventRowColTable sr sc with
  | none => rfl
  | some e => simp [h]

theorem posS_exit (ty sr sc : Int) (h : ty ≠ 1) (h0 : ty ≠ 0) : posS ty sr sc = posS (-1) sr sc := by
  unfold posS pickS
  simp only [h0, if_false]
  cases branch Gen.Viewshed.calcEventPosTable sr sc with
  | none => rfl
  | some e => simp [h]

theorem nbS_table :
    nbS 1 (-1) (-1) = (-1, 1) ∧ nbS (-1) (-1) (-1) = (1, -1) ∧
    nbS 1 (-1) 0 = (1, 1) ∧ nbS (-1) (-1) 0 = (1, -1) ∧
    nbS 1 (-1) 1 = (1, 1) ∧ nbS (-1) (-1) 1 = (-1, -1) ∧
    nbS 1 0 1 = (1, -1) ∧ nbS (-1) 0 1 = (-1, -1) ∧
    nbS 1 1 1 = (1, -1) ∧ nbS (-1) 1 1 = (-1, 1) ∧
    nbS 1 1 0 = (-1, -1) ∧ nbS (-1) 1 0 = (-1, 1) ∧
    nbS 1 1 (-1) = (-1, -1) ∧ nbS (-1) 1 (-1) = (1, 1) ∧
    nbS 1 0 (-1) = (-1, 1) ∧ nbS (-1) 0 (-1) = (1, 1) ∧
    nbS 1 0 0 = (0, 0) ∧ nbS (-1) 0 0 = (0, 0) := by decide

/-- the position of a cell relative to the observer: the nine cases with everything a proof needs -/
inductive Pos9 (dr dc : Int) : Prop
  | nw (h1 : dr < 0) (h2 : dc < 0)
  | n (h1 : dr < 0) (h2 : dc = 0)
  | ne (h1 : dr < 0) (h2 : 0 < dc)
  | e (h1 : dr = 0) (h2 : 0 < dc)
  | se (h1 : 0 < dr) (h2 : 0 < dc)
  | s (h1 : 0 < dr) (h2 : dc = 0)
  | sw (h1 : 0 < dr) (h2 : dc < 0)
  | w (h1 : dr = 0) (h2 : dc < 0)
  | o (h1 : dr = 0) (h2 : dc = 0)

theorem pos9 (dr dc : Int) : Pos9 dr dc := by
  rcases Int.lt_trichotomy dr 0 with h | h | h <;> rcases Int.lt_trichotomy dc 0 with g | g | g
  · exact .nw h g
  · exact .n h g
  · exact .ne h g
  · exact .w h g
  · exact .o h g
  · exact .e h g
  · exact .sw h g
  · exact .s h g
  · exact .se h g

/-- the offsets of the code's nine branches: (ENTER dy, dx), (EXIT dy, dx) -/
def offTable (dr dc : Int) : (Int × Int) × (Int × Int) :=
  if dr < 0 then (if dc < 0 then ((-1, 1), (1, -1)) else if dc = 0 then ((1, 1), (1, -1)) else ((1, 1), (-1, -1)))
  else if dr = 0 then (if dc < 0 then ((-1, 1), (1, 1)) else if dc = 0 then ((0, 0), (0, 0)) else ((1, -1), (-1, -1)))
  else (if dc < 0 then ((-1, -1), (1, 1)) else if dc = 0 then ((-1, -1), (-1, 1)) else ((1, -1), (-1, 1)))

/-- ENTER (`ty = 1`) / EXIT (any other non-zero code) offset of the code's branch -/
def offOf (ty dr dc : Int) : Int × Int := if ty = 1 then (offTable dr dc).1 else (offTable dr dc).2

theorem offOf_mem (ty dr dc : Int) :
    ((offOf ty dr dc).1 = 1 ∨ (offOf ty dr dc).1 = 0 ∨ (offOf ty dr dc).1 = -1) ∧
    ((offOf ty dr dc).2 = 1 ∨ (offOf ty dr dc).2 = 0 ∨ (offOf ty dr dc).2 = -1) := by
  unfold offOf offTable
  repeat' split
  all_goals simp

theorem sg_lt0 (x : Int) : (sg x < 0) = (x < 0) := by
  rcases sg_cases x with ⟨h, e⟩ | ⟨h, e⟩ | ⟨h, e⟩ <;> rw [e] <;> simp <;> omega

theorem sg_eq0 (x : Int) : (sg x = 0) = (x = 0) := by
  rcases sg_cases x with ⟨h, e⟩ | ⟨h, e⟩ | ⟨h, e⟩ <;> rw [e] <;> simp <;> omega

theorem offTable_sg (dr dc : Int) : offTable (sg dr) (sg dc) = offTable dr dc := by
  simp only [offTable, sg_lt0, sg_eq0]

theorem nbS_offTable : ∀ sr ∈ [-1, 0, 1], ∀ sc ∈ [-1, 0, 1],
    nbS 1 sr sc = (offTable sr sc).1 ∧ nbS (-1) sr sc = (offTable sr sc).2 := by decide

theorem posS_offTable : ∀ sr ∈ [-1, 0, 1], ∀ sc ∈ [-1, 0, 1],
    posS 1 sr sc = (offTable sr sc).1 ∧ posS (-1) sr sc = (offTable sr sc).2 := by decide

/-- **`_calculate_event_row_col`'s if-chain (as generated) is the model's `nbOff`** (the table read from the source) -/
theorem nbOff_eq_offOf (ty dr dc : Int) : nbOff ty dr dc = offOf ty dr dc := by
  have h := nbS_offTable _ (sg_mem dr) _ (sg_mem dc)
  rw [offTable_sg] at h
  rw [nbOff_eq, offOf]
  by_cases hty : ty = 1
  · subst hty; simp [h.1]
  · rw [nbS_exit _ _ _ hty]; simp [hty, h.2]

/-- **`_calc_event_pos`'s if-chain is the model's `posOff`** for the ENTER / EXIT codes -/
theorem posOff_eq_offOf (ty dr dc : Int) (h0 : ty ≠ 0) : posOff ty dr dc = offOf ty dr dc := by
  have h := posS_offTable _ (sg_mem dr) _ (sg_mem dc)
  rw [offTable_sg] at h
  rw [posOff_eq, offOf]
  by_cases hty : ty = 1
  · subst hty; simp [h.1]
  · rw [posS_exit _ _ _ hty h0]; simp [hty, h.2]

/-! ### execution of the templates -/

inductive Sgn3 (x : Int) : Prop
  | neg (h : x < 0) (h' : ¬ x = 0) (h'' : ¬ 0 < x)
  | zero (h : x = 0)
  | pos (h : 0 < x) (h' : ¬ x = 0) (h'' : ¬ x < 0)

theorem sgn3 (x : Int) : Sgn3 x := by
  rcases Int.lt_trichotomy x 0 with h | h | h
  · exact .neg h (by omega) (by omega)
  · exact .zero h
  · exact .pos h (by omega) (by omega)

theorem tyIs_ok (k : TyK) (p : String) (c : Int) (s : State F) : (tyIs k p c).ok s = true := by
  cases k <;> simp [tyIs, BE.ok, IE.ok, FE.ok]

theorem tyIs_eval (k : TyK) (p : String) (s s' : State F) (ty : Int) (hty : TyVal k p s ty)
    (hi : s'.ienv (p ++ "event_type") = s.ienv (p ++ "event_type"))
    (hf : s'.fenv (p ++ "event_type") = s.fenv (p ++ "event_type")) :
    (tyIs k p 0).eval s' = decide (ty = 0) ∧ (tyIs k p 1).eval s' = decide (ty = 1) := by
  cases k with
  | int => simp only [TyVal] at hty; simp [tyIs, BE.eval, IE.eval, cmpInt, hi, hty]
  | num =>
    obtain ⟨h1, h2, h3⟩ := hty
    simp [tyIs, BE.eval, IE.eval, FE.eval, CmpOp.eval, hf, h1, h2, h3]

/-- the offsets of the cell `event_row, event_col` of copy `p` in state `s` -/
def offS (p : String) (s : State F) (ty : Int) : Int × Int :=
  offOf ty (s.ienv (p ++ "event_row") - s.ienv (p ++ "viewpoint_row")) (s.ienv (p ++ "event_col") - s.ienv (p ++ "viewpoint_col"))

theorem rcChain_exec (k : TyK) (p : String) (s : State F) (fuel : Nat) (hs : s.ctl = .run) (ty : Int)
    (hty : TyVal k p s ty) :
    exec fuel (rcChain k p) s = { s with ienv := (setS (setS s.ienv (p ++ "y") (s.ienv (p ++ "event_row") + (offS p s ty).1))
      (p ++ "x") (s.ienv (p ++ "event_col") + (offS p s ty).2)) } := by
  unfold offS
  have hT := (tyIs_eval k p s s ty hty rfl rfl).2
  have hO := tyIs_ok (F := F) k p 1
  generalize her : s.ienv (p ++ "event_row") = er at *
  generalize hec : s.ienv (p ++ "event_col") = ec at *
  generalize hvr : s.ienv (p ++ "viewpoint_row") = vr at *
  generalize hvc : s.ienv (p ++ "viewpoint_col") = vc at *
  have e1 : (er < vr) = (er - vr < 0) := by apply propext; omega
  have e2 : (er = vr) = (er - vr = 0) := by apply propext; omega
  have e3 : (vr < er) = (0 < er - vr) := by apply propext; omega
  have e4 : (ec < vc) = (ec - vc < 0) := by apply propext; omega
  have e5 : (ec = vc) = (ec - vc = 0) := by apply propext; omega
  have e6 : (vc < ec) = (0 < ec - vc) := by apply propext; omega
  generalize er - vr = dr at *
  generalize ec - vc = dc at *
  have hc : (p ++ "x") ≠ (p ++ "y") := by simp
  by_cases h1 : ty = 1 <;>
  rcases sgn3 dr with ⟨a1, a2, a3⟩ | a1 | ⟨a1, a2, a3⟩ <;> rcases sgn3 dc with ⟨b1, b2, b3⟩ | b1 | ⟨b1, b2, b3⟩ <;>
  simp [rcChain, rcBr, rcSet, vR, vC, vVR, vVC, exec, hs, BE.ok, BE.eval, IE.ok, IE.eval, cmpInt, IOp.eval, setS_apply,
        offOf, offTable, her, hec, hvr, hvc, e1, e2, e3, e4, e5, e6, hT, hO, ← Int.sub_eq_add_neg, setS_comm _ _ _ _ _ hc, *]

theorem TyVal.frame {k : TyK} {p : String} {s s' : State F} {ty : Int} (h : TyVal k p s ty)
    (hi : s'.ienv (p ++ "event_type") = s.ienv (p ++ "event_type"))
    (hf : s'.fenv (p ++ "event_type") = s.fenv (p ++ "event_type")) : TyVal k p s' ty := by
  cases k with
  | int => simp only [TyVal] at h ⊢; rw [hi, h]
  | num => simp only [TyVal] at h ⊢; rw [hf]; exact h

/-- the integer environment after `_calculate_event_row_col` -/
def rcEnv (p : String) (s : State F) (ty : Int) : String → Int :=
  setS (setS (setS (setS s.ienv (p ++ "y") (s.ienv (p ++ "event_row") + (offS p s ty).1))
    (p ++ "x") (s.ienv (p ++ "event_col") + (offS p s ty).2))
    (p ++ "ret0") (s.ienv (p ++ "event_row") + (offS p s ty).1))
    (p ++ "ret1") (s.ienv (p ++ "event_col") + (offS p s ty).2)

theorem rcBody_exec (k : TyK) (p : String) (s : State F) (fuel : Nat) (hs : s.ctl = .run) (ty : Int)
    (hty : TyVal k p s ty) :
    (ty = 0 → (exec fuel (rcBody k p) s).ctl = .err "ValueError") ∧
    (ty ≠ 0 → exec fuel (rcBody k p) s = { s with ienv := rcEnv p s ty, ctl := .ret }) := by
  obtain ⟨ie, fe, be, ia, fa, shp, ext, ctl⟩ := s
  simp only at hs; subst hs
  let s1 : State F := ⟨setS (setS ie (p ++ "x") 0) (p ++ "y") 0, fe, be, ia, fa, shp, ext, .run⟩
  have ht1 : TyVal k p s1 ty := hty.frame (by simp [s1, setS_apply]) rfl
  have hT := (tyIs_eval k p s1 s1 ty ht1 rfl rfl).1
  have hO := tyIs_ok (F := F) k p 0
  have hch := rcChain_exec k p s1 fuel rfl ty ht1
  have hm := offOf_mem ty (ie (p ++ "event_row") - ie (p ++ "viewpoint_row")) (ie (p ++ "event_col") - ie (p ++ "viewpoint_col"))
  simp only [s1] at hch hT
  constructor
  · intro h0
    simp [rcBody, exec, IE.ok, IE.eval, hT, hO, h0, State.error]
  · intro h0
    simp [offS, setS_apply] at hch
    simp only [rcEnv, offS]
    generalize offOf ty (ie (p ++ "event_row") - ie (p ++ "viewpoint_row")) (ie (p ++ "event_col") - ie (p ++ "viewpoint_col")) = o at *
    have g1 : ¬ 1 < o.1 := by omega
    have g2 : ¬ 1 < o.2 := by omega
    simp [rcBody, exec, IE.ok, IE.eval, hT, hO, h0, hch, rcGuard, vC, vR, cmpInt, IOp.eval, setS_apply, BE.ok, BE.eval,
      g1, g2]
    env_eq
/-- index `i` moved by `o / 2` cells (`o` ∈ {1, 0, -1}), as the code computes it -/
def halfF (i o : Int) : F :=
  if o = 1 then Fl.add (Fl.lit i 1) (Fl.lit 1 2) else if o = 0 then Fl.lit i 1 else Fl.sub (Fl.lit i 1) (Fl.lit 1 2)

/-- the law of the number type `_calc_event_pos`'s closing assertion needs: a point half a cell away is less than one
    cell away (`|i - (i ± 1/2)| < 1`, `|i - i| < 1`) -/
def HalfOK (F : Type) [Fl F] : Prop :=
  ∀ (i o : Int), (o = 1 ∨ o = 0 ∨ o = -1) →
    Fl.lt (Fl.abs (Fl.sub (Fl.lit i 1) (halfF i o : F))) (Fl.lit 1 1) = true

theorem posChain_exec (k : TyK) (p : String) (s : State F) (fuel : Nat) (hs : s.ctl = .run) (ty : Int)
    (hty : TyVal k p s ty) :
    exec fuel (posChain k p) s = { s with fenv := (setS (setS s.fenv (p ++ "y") (halfF (s.ienv (p ++ "event_row")) (offS p s ty).1))
      (p ++ "x") (halfF (s.ienv (p ++ "event_col")) (offS p s ty).2)) } := by
  unfold offS
  have hT := (tyIs_eval k p s s ty hty rfl rfl).2
  have hO := tyIs_ok (F := F) k p 1
  generalize her : s.ienv (p ++ "event_row") = er at *
  generalize hec : s.ienv (p ++ "event_col") = ec at *
  generalize hvr : s.ienv (p ++ "viewpoint_row") = vr at *
  generalize hvc : s.ienv (p ++ "viewpoint_col") = vc at *
  have e1 : (er < vr) = (er - vr < 0) := by apply propext; omega
  have e2 : (er = vr) = (er - vr = 0) := by apply propext; omega
  have e3 : (vr < er) = (0 < er - vr) := by apply propext; omega
  have e4 : (ec < vc) = (ec - vc < 0) := by apply propext; omega
  have e5 : (ec = vc) = (ec - vc = 0) := by apply propext; omega
  have e6 : (vc < ec) = (0 < ec - vc) := by apply propext; omega
  generalize er - vr = dr at *
  generalize ec - vc = dc at *
  have hc : (p ++ "x") ≠ (p ++ "y") := by simp
  by_cases h1 : ty = 1 <;>
  rcases sgn3 dr with ⟨a1, a2, a3⟩ | a1 | ⟨a1, a2, a3⟩ <;> rcases sgn3 dc with ⟨b1, b2, b3⟩ | b1 | ⟨b1, b2, b3⟩ <;>
  simp [posChain, posBr, posSet, vR, vC, vVR, vVC, exec, hs, BE.ok, BE.eval, IE.ok, IE.eval, FE.ok, FE.eval, cmpInt, BinOp.eval,
        setS_apply, halfF, offOf, offTable, her, hec, hvr, hvc, e1, e2, e3, e4, e5, e6, hT, hO, setS_comm _ _ _ _ _ hc, *]


/-- the model's corner offset (doubled) of the cell of copy `p` in state `s` -/
def posS' (p : String) (s : State F) (ty : Int) : Int × Int :=
  posOff ty (s.ienv (p ++ "event_row") - s.ienv (p ++ "viewpoint_row")) (s.ienv (p ++ "event_col") - s.ienv (p ++ "viewpoint_col"))

/-- the numeric environment after `_calc_event_pos` -/
def posEnv (p : String) (s : State F) (ty : Int) : String → F :=
  setS (setS (setS (setS s.fenv (p ++ "y") (halfF (s.ienv (p ++ "event_row")) (posS' p s ty).1))
    (p ++ "x") (halfF (s.ienv (p ++ "event_col")) (posS' p s ty).2))
    (p ++ "ret0") (halfF (s.ienv (p ++ "event_row")) (posS' p s ty).1))
    (p ++ "ret1") (halfF (s.ienv (p ++ "event_col")) (posS' p s ty).2)

theorem posBody_exec (hH : HalfOK F) (k : TyK) (p : String) (s : State F) (fuel : Nat) (hs : s.ctl = .run) (ty : Int)
    (hty : TyVal k p s ty) :
    exec fuel (posBody k p) s = { s with fenv := posEnv p s ty, ctl := .ret } := by
  obtain ⟨ie, fe, be, ia, fa, shp, ext, ctl⟩ := s
  simp only at hs; subst hs
  let s1 : State F := ⟨ie, setS (setS fe (p ++ "x") (Fl.lit 0 1)) (p ++ "y") (Fl.lit 0 1), be, ia, fa, shp, ext, .run⟩
  have ht1 : TyVal k p s1 ty := hty.frame rfl (by simp [s1, setS_apply])
  have hT := (tyIs_eval k p s1 s1 ty ht1 rfl rfl).1
  have hO := tyIs_ok (F := F) k p 0
  have hch := posChain_exec k p s1 fuel rfl ty ht1
  simp only [s1] at hch hT
  simp only [posEnv, posS']
  by_cases h0 : ty = 0
  · subst h0
    simp [posBody, exec, IE.ok, IE.eval, FE.ok, FE.eval, hT, hO, vR, vC, setS_apply, posOff_centre, halfF]
    env_eq
  · rw [posOff_eq_offOf _ _ _ h0]
    have hm := offOf_mem ty (ie (p ++ "event_row") - ie (p ++ "viewpoint_row")) (ie (p ++ "event_col") - ie (p ++ "viewpoint_col"))
    simp [offS, setS_apply] at hch
    generalize offOf ty (ie (p ++ "event_row") - ie (p ++ "viewpoint_row")) (ie (p ++ "event_col") - ie (p ++ "viewpoint_col")) = o at *
    have g1 := hH (ie (p ++ "event_row")) o.1 hm.1
    have g2 := hH (ie (p ++ "event_col")) o.2 hm.2
    simp [posBody, exec, IE.ok, IE.eval, FE.ok, FE.eval, hT, hO, h0, hch, posAssert, vC, vR, BE.ok, BE.eval, CmpOp.eval, UnOp.eval,
      BinOp.eval, setS_apply, g1, g2]
    env_eq

/-! ### the stand-alone programs -/

/-- **the generated `_calculate_event_row_col` returns the model's diagonal neighbour** `(row, col) + nbOff` for every
    ENTER / EXIT code, cell and observer (the guard `abs(x - event_col > 1) or …` never fires); `CENTER` raises -/
theorem vsEventRowCol_refines (s : State F) (fuel : Nat) (hs : s.ctl = .run) :
    let r := Gen.IL.vsEventRowCol.run s fuel
    let ty := s.ienv "event_type"
    let o := nbOff ty (s.ienv "event_row" - s.ienv "viewpoint_row") (s.ienv "event_col" - s.ienv "viewpoint_col")
    (ty = 0 → r.ctl = .err "ValueError") ∧
    (ty ≠ 0 → r.ctl = .ret ∧ r.ienv "ret0" = s.ienv "event_row" + o.1 ∧ r.ienv "ret1" = s.ienv "event_col" + o.2 ∧
      r.fa = s.fa ∧ r.ia = s.ia ∧ r.fenv = s.fenv) := by
  simp only [Prog.run, vsEventRowCol_is_template]
  obtain ⟨h1, h2⟩ := rcBody_exec .int "" s fuel hs (s.ienv "event_type") rfl
  refine ⟨h1, fun h0 => ?_⟩
  rw [h2 h0, nbOff_eq_offOf]
  simp [rcEnv, offS, setS_apply]

/-- **the generated `_calc_event_pos` returns the model's event point**: the cell centre moved by half the model's doubled
    offset `posOff` (ENTER / EXIT corner, the centre itself for CENTER) -/
theorem vsEventPos_refines (hH : HalfOK F) (s : State F) (fuel : Nat) (hs : s.ctl = .run) :
    let r := Gen.IL.vsEventPos.run s fuel
    let o := posOff (s.ienv "event_type") (s.ienv "event_row" - s.ienv "viewpoint_row") (s.ienv "event_col" - s.ienv "viewpoint_col")
    r.ctl = .ret ∧ r.fenv "ret0" = halfF (s.ienv "event_row") o.1 ∧ r.fenv "ret1" = halfF (s.ienv "event_col") o.2 ∧
      r.fa = s.fa ∧ r.ia = s.ia ∧ r.ienv = s.ienv := by
  simp only [Prog.run, vsEventPos_is_template]
  rw [posBody_exec hH .int "" s fuel hs (s.ienv "event_type") rfl]
  simp [posEnv, posS', setS_apply]

end XrsVerif.ILSw
