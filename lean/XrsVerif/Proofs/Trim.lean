import XrsVerif.Model.Trim
/-! helper lemmas for Props/C18.lean (core Lean only) -/
namespace XrsVerif.Trim

theorem scan_fold_done (ys : List Nat) (hit : Nat → Bool) (c : Nat) :
    ys.foldl (fun (s : Nat × Bool) y => if s.2 then s else (y, hit y)) (c, true) = (c, true) := by
  induction ys with
  | nil => rfl
  | cons y ys ih => simpa using ih

theorem scan_fold (ys : List Nat) (hit : Nat → Bool) (c : Nat) :
    ys.foldl (fun (s : Nat × Bool) y => if s.2 then s else (y, hit y)) (c, false)
      = match ys.find? hit with
        | some y => (y, true)
        | none => (ys.getLast?.getD c, false) := by
  induction ys generalizing c with
  | nil => rfl
  | cons y ys ih =>
    simp only [List.foldl_cons, Bool.false_eq_true, ite_false, List.find?_cons]
    cases hy : hit y with
    | true => simp [scan_fold_done]
    | false =>
      rw [ih y]
      cases hf : ys.find? hit with
      | some z => rfl
      | none =>
        cases ys with
        | nil => simp
        | cons z zs => simp [List.getLast?_cons_cons, List.getLast?_eq_some_getLast (List.cons_ne_nil z zs)]

/-- a scan over a list ordered by `R` that contains a hit stops at the `R`-first hit -/
theorem scan_found {ys : List Nat} {R : Nat → Nat → Prop} {hit : Nat → Bool}
    (hpw : ys.Pairwise R) (h : ∃ y ∈ ys, hit y = true) :
    ∃ m, scan ys hit = (m, true) ∧ m ∈ ys ∧ hit m = true ∧ ∀ y ∈ ys, hit y = true → y = m ∨ R m y := by
  obtain ⟨y0, hy0, hh0⟩ := h
  cases hf : ys.find? hit with
  | none =>
    have := List.find?_eq_none.mp hf y0 hy0
    simp [hh0] at this
  | some m =>
    refine ⟨m, by simp [scan, scan_fold, hf], List.mem_of_find?_eq_some hf, List.find?_some hf, ?_⟩
    obtain ⟨_, as, bs, hsplit, has⟩ := List.find?_eq_some_iff_append.mp hf
    intro y hy hhy
    rw [hsplit] at hy hpw
    rcases List.mem_append.mp hy with hy | hy
    · have := has y hy; simp [hhy] at this
    · rcases List.mem_cons.mp hy with rfl | hy
      · exact Or.inl rfl
      · right
        have := (List.pairwise_append.mp hpw).2.1
        exact (List.pairwise_cons.mp this).1 y hy

theorem scan_none {ys : List Nat} {hit : Nat → Bool} (h : ∀ y ∈ ys, hit y = false) :
    (scan ys hit).2 = false := by
  have hf : ys.find? hit = none := List.find?_eq_none.mpr (by intro y hy; simp [h y hy])
  simp [scan, scan_fold, hf]

theorem rowHit_iff {cols : Nat} {hit : Nat → Nat → Bool} {y : Nat} :
    rowHit cols hit y = true ↔ ∃ x, x < cols ∧ hit y x = true := by
  simp [rowHit, List.any_eq_true, List.mem_range]

theorem colHit_iff {rows : Nat} {hit : Nat → Nat → Bool} {x : Nat} :
    colHit rows hit x = true ↔ ∃ y, y < rows ∧ hit y x = true := by
  simp [colHit, List.any_eq_true, List.mem_range]

/-- when some cell is a hit: the four scans return the extreme rows / columns that hold a hit -/
theorem bounds_of_hit (rows cols : Nat) (hit : Nat → Nat → Bool)
    (h : ∃ y x, y < rows ∧ x < cols ∧ hit y x = true) :
    ∃ t b l r : Nat, bounds rows cols hit = ⟨t, b, l, r⟩
      ∧ t < rows ∧ b < rows ∧ l < cols ∧ r < cols
      ∧ (∃ x, x < cols ∧ hit t x = true) ∧ (∃ x, x < cols ∧ hit b x = true)
      ∧ (∃ y, y < rows ∧ hit y l = true) ∧ (∃ y, y < rows ∧ hit y r = true)
      ∧ ∀ y x, y < rows → x < cols → hit y x = true → t ≤ y ∧ y ≤ b ∧ l ≤ x ∧ x ≤ r := by
  obtain ⟨y0, x0, hy0, hx0, h0⟩ := h
  have hr : ∃ y ∈ List.range rows, rowHit cols hit y = true :=
    ⟨y0, List.mem_range.mpr hy0, rowHit_iff.mpr ⟨x0, hx0, h0⟩⟩
  have hr' : ∃ y ∈ (List.range rows).reverse, rowHit cols hit y = true := by
    obtain ⟨y, hy, hh⟩ := hr; exact ⟨y, List.mem_reverse.mpr hy, hh⟩
  have hc : ∃ x ∈ List.range cols, colHit rows hit x = true :=
    ⟨x0, List.mem_range.mpr hx0, colHit_iff.mpr ⟨y0, hy0, h0⟩⟩
  have hc' : ∃ x ∈ (List.range cols).reverse, colHit rows hit x = true := by
    obtain ⟨x, hx, hh⟩ := hc; exact ⟨x, List.mem_reverse.mpr hx, hh⟩
  have pw : ∀ n, (List.range n).Pairwise (· < ·) := fun n => List.pairwise_lt_range
  have pw' : ∀ n, (List.range n).reverse.Pairwise (fun a b => b < a) := fun n =>
    List.pairwise_reverse.mpr (pw n)
  obtain ⟨t, ht, htm, hth, htmin⟩ := scan_found (pw rows) hr
  obtain ⟨b, hb, hbm, hbh, hbmax⟩ := scan_found (pw' rows) hr'
  obtain ⟨l, hl, hlm, hlh, hlmin⟩ := scan_found (pw cols) hc
  obtain ⟨r, hrr, hrm, hrh, hrmax⟩ := scan_found (pw' cols) hc'
  refine ⟨t, b, l, r, ?_, List.mem_range.mp htm, List.mem_range.mp (List.mem_reverse.mp hbm),
    List.mem_range.mp hlm, List.mem_range.mp (List.mem_reverse.mp hrm),
    rowHit_iff.mp hth, rowHit_iff.mp hbh, colHit_iff.mp hlh, colHit_iff.mp hrh, ?_⟩
  · simp [bounds, ht, hb, hl, hrr]
  · intro y x hy hx hh
    have hry : rowHit cols hit y = true := rowHit_iff.mpr ⟨x, hx, hh⟩
    have hcx : colHit rows hit x = true := colHit_iff.mpr ⟨y, hy, hh⟩
    have a1 := htmin y (List.mem_range.mpr hy) hry
    have a2 := hbmax y (List.mem_reverse.mpr (List.mem_range.mpr hy)) hry
    have a3 := hlmin x (List.mem_range.mpr hx) hcx
    have a4 := hrmax x (List.mem_reverse.mpr (List.mem_range.mpr hx)) hcx
    omega

/-- when no cell is a hit the kernels return the empty window -/
theorem bounds_of_no_hit (rows cols : Nat) (hit : Nat → Nat → Bool)
    (h : ∀ y x, y < rows → x < cols → hit y x = false) :
    bounds rows cols hit = ⟨0, -1, 0, -1⟩ := by
  have : (scan (List.range rows) (rowHit cols hit)).2 = false := by
    apply scan_none
    intro y hy
    cases hh : rowHit cols hit y with
    | false => rfl
    | true =>
      obtain ⟨x, hx, hxx⟩ := rowHit_iff.mp hh
      rw [h y x (List.mem_range.mp hy) hx] at hxx; cases hxx
  simp [bounds, this]

/-! ### only the cells of the raster matter -/

theorem scan_congr {ys : List Nat} {h h' : Nat → Bool} (e : ∀ y ∈ ys, h y = h' y) : scan ys h = scan ys h' := by
  unfold scan
  generalize ((0, false) : Nat × Bool) = c
  induction ys generalizing c with
  | nil => rfl
  | cons y ys ih =>
    simp only [List.foldl_cons, e y (by simp)]
    exact ih (fun z hz => e z (by simp [hz])) _

theorem bounds_congr (rows cols : Nat) (hit hit' : Nat → Nat → Bool)
    (e : ∀ y x, y < rows → x < cols → hit y x = hit' y x) : bounds rows cols hit = bounds rows cols hit' := by
  have hr : ∀ y, y < rows → rowHit cols hit y = rowHit cols hit' y := by
    intro y hy
    rw [Bool.eq_iff_iff, rowHit_iff, rowHit_iff]
    constructor <;> rintro ⟨x, hx, hh⟩
    · exact ⟨x, hx, by rw [← e y x hy hx]; exact hh⟩
    · exact ⟨x, hx, by rw [e y x hy hx]; exact hh⟩
  have hc : ∀ x, x < cols → colHit rows hit x = colHit rows hit' x := by
    intro x hx
    rw [Bool.eq_iff_iff, colHit_iff, colHit_iff]
    constructor <;> rintro ⟨y, hy, hh⟩
    · exact ⟨y, hy, by rw [← e y x hy hx]; exact hh⟩
    · exact ⟨y, hy, by rw [e y x hy hx]; exact hh⟩
  have s1 := scan_congr (ys := List.range rows) (fun y hy => hr y (List.mem_range.mp hy))
  have s2 := scan_congr (ys := (List.range rows).reverse)
    (fun y hy => hr y (List.mem_range.mp (List.mem_reverse.mp hy)))
  have s3 := scan_congr (ys := List.range cols) (fun x hx => hc x (List.mem_range.mp hx))
  have s4 := scan_congr (ys := (List.range cols).reverse)
    (fun x hx => hc x (List.mem_range.mp (List.mem_reverse.mp hx)))
  simp only [bounds, s1, s2, s3, s4]

/-! ### the slice -/

theorem sliceIdx_nat (n lo hi : Nat) : sliceIdx n (lo : Int) ((hi : Int) + 1) = List.range' lo (min (hi + 1) n - lo) := by
  simp only [sliceIdx, Int.toNat_natCast]
  have : ((hi : Int) + 1).toNat = hi + 1 := by omega
  rw [this]

theorem sliceIdx_empty (n : Nat) : sliceIdx n 0 (-1 + 1) = [] := by
  simp [sliceIdx]

end XrsVerif.Trim
