import XrsVerif.Core.KLang
import Mathlib.Algebra.Order.Field.Basic
import Mathlib.Tactic.Ring
import Mathlib.Tactic.Linarith
import Mathlib.Tactic.FieldSimp
/-
  The proof-side value domain for generated kernels: `NV K = Option K`, `none` = NaN, over any
  linearly ordered field `K`.  Arithmetic is NaN-strict, every comparison with NaN is false
  (IEEE), division by zero is undefined (NaN).  ±inf is not represented: theorems over `NV`
  speak about finite and NaN cells (stated in each theorem's docstring).

  Transcendental functions are the fields of an arbitrary `Trig K`: a theorem over `NV K`
  holds for every interpretation of sqrt/atan/... unless it assumes facts about them.
-/
set_option linter.unusedSectionVars false
namespace XrsVerif

class Trig (K : Type) where
  sqrt : K → K
  atan : K → K
  atan2 : K → K → K
  exp : K → K
  sin : K → K
  cos : K → K
  asin : K → K

abbrev NV (K : Type) := Option K

variable {K : Type} [Field K] [LinearOrder K] [IsStrictOrderedRing K] [Trig K]

def NV.map2 (f : K → K → K) : NV K → NV K → NV K
  | some a, some b => some (f a b)
  | _, _ => none

def NV.rel (r : K → K → Bool) : NV K → NV K → Bool
  | some a, some b => r a b
  | _, _ => false

instance instFlNV : Fl (NV K) where
  lit n d := some ((n : K) / (d : K))
  nan := none
  add := NV.map2 (· + ·)
  sub := NV.map2 (· - ·)
  mul := NV.map2 (· * ·)
  div a b := match a, b with
    | some x, some y => if y = 0 then none else some (x / y)
    | _, _ => none
  neg := Option.map (fun x => -x)
  abs := Option.map (fun x => |x|)
  lt := NV.rel (fun a b => decide (a < b))
  le := NV.rel (fun a b => decide (a ≤ b))
  eq := NV.rel (fun a b => decide (a = b))
  isnan a := a.isNone
  isfinite a := a.isSome
  sqrt := Option.map Trig.sqrt
  atan := Option.map Trig.atan
  atan2 := NV.map2 Trig.atan2
  exp := Option.map Trig.exp
  sin := Option.map Trig.sin
  cos := Option.map Trig.cos
  asin := Option.map Trig.asin

@[simp] theorem fl_lit (n : Int) (d : Nat) : (Fl.lit n d : NV K) = some ((n : K) / (d : K)) := rfl
@[simp] theorem fl_nan : (Fl.nan : NV K) = none := rfl
@[simp] theorem fl_add (a b : K) : Fl.add (some a : NV K) (some b) = some (a + b) := rfl
@[simp] theorem fl_sub (a b : K) : Fl.sub (some a : NV K) (some b) = some (a - b) := rfl
@[simp] theorem fl_mul (a b : K) : Fl.mul (some a : NV K) (some b) = some (a * b) := rfl
@[simp] theorem fl_div (a b : K) : Fl.div (some a : NV K) (some b) = if b = 0 then none else some (a / b) := rfl
@[simp] theorem fl_neg (a : K) : Fl.neg (some a : NV K) = some (-a) := rfl
@[simp] theorem fl_abs (a : K) : Fl.abs (some a : NV K) = some |a| := rfl
@[simp] theorem fl_lt (a b : K) : Fl.lt (some a : NV K) (some b) = decide (a < b) := rfl
@[simp] theorem fl_le (a b : K) : Fl.le (some a : NV K) (some b) = decide (a ≤ b) := rfl
@[simp] theorem fl_eq (a b : K) : Fl.eq (some a : NV K) (some b) = decide (a = b) := rfl
@[simp] theorem fl_isnan_some (a : K) : Fl.isnan (some a : NV K) = false := rfl
@[simp] theorem fl_isnan_none : Fl.isnan (none : NV K) = true := rfl
@[simp] theorem fl_isfinite_some (a : K) : Fl.isfinite (some a : NV K) = true := rfl
@[simp] theorem fl_isfinite_none : Fl.isfinite (none : NV K) = false := rfl
@[simp] theorem fl_sqrt (a : K) : Fl.sqrt (some a : NV K) = some (Trig.sqrt a) := rfl
@[simp] theorem fl_atan (a : K) : Fl.atan (some a : NV K) = some (Trig.atan a) := rfl
@[simp] theorem fl_atan2 (a b : K) : Fl.atan2 (some a : NV K) (some b) = some (Trig.atan2 a b) := rfl
@[simp] theorem fl_exp (a : K) : Fl.exp (some a : NV K) = some (Trig.exp a) := rfl
@[simp] theorem fl_sin (a : K) : Fl.sin (some a : NV K) = some (Trig.sin a) := rfl
@[simp] theorem fl_cos (a : K) : Fl.cos (some a : NV K) = some (Trig.cos a) := rfl
@[simp] theorem fl_asin (a : K) : Fl.asin (some a : NV K) = some (Trig.asin a) := rfl

@[simp] theorem fl_add_none_l (b : NV K) : Fl.add (none : NV K) b = none := by cases b <;> rfl
@[simp] theorem fl_add_none_r (a : NV K) : Fl.add a (none : NV K) = none := by cases a <;> rfl
@[simp] theorem fl_sub_none_l (b : NV K) : Fl.sub (none : NV K) b = none := by cases b <;> rfl
@[simp] theorem fl_sub_none_r (a : NV K) : Fl.sub a (none : NV K) = none := by cases a <;> rfl
@[simp] theorem fl_mul_none_l (b : NV K) : Fl.mul (none : NV K) b = none := by cases b <;> rfl
@[simp] theorem fl_mul_none_r (a : NV K) : Fl.mul a (none : NV K) = none := by cases a <;> rfl
@[simp] theorem fl_div_none_l (b : NV K) : Fl.div (none : NV K) b = none := by cases b <;> rfl
@[simp] theorem fl_div_none_r (a : NV K) : Fl.div a (none : NV K) = none := by cases a <;> rfl
@[simp] theorem fl_neg_none : Fl.neg (none : NV K) = none := rfl
@[simp] theorem fl_sqrt_none : Fl.sqrt (none : NV K) = none := rfl
@[simp] theorem fl_atan_none : Fl.atan (none : NV K) = none := rfl
@[simp] theorem fl_exp_none : Fl.exp (none : NV K) = none := rfl
@[simp] theorem fl_atan2_none_l (b : NV K) : Fl.atan2 (none : NV K) b = none := by cases b <;> rfl
@[simp] theorem fl_atan2_none_r (a : NV K) : Fl.atan2 a (none : NV K) = none := by cases a <;> rfl
@[simp] theorem fl_sin_none : Fl.sin (none : NV K) = none := rfl
@[simp] theorem fl_cos_none : Fl.cos (none : NV K) = none := rfl
@[simp] theorem fl_asin_none : Fl.asin (none : NV K) = none := rfl
@[simp] theorem fl_abs_none : Fl.abs (none : NV K) = none := rfl
@[simp] theorem fl_lt_none_l (b : NV K) : Fl.lt (none : NV K) b = false := by cases b <;> rfl
@[simp] theorem fl_lt_none_r (a : NV K) : Fl.lt a (none : NV K) = false := by cases a <;> rfl
@[simp] theorem fl_le_none_l (b : NV K) : Fl.le (none : NV K) b = false := by cases b <;> rfl
@[simp] theorem fl_le_none_r (a : NV K) : Fl.le a (none : NV K) = false := by cases a <;> rfl
@[simp] theorem fl_eq_none_l (b : NV K) : Fl.eq (none : NV K) b = false := by cases b <;> rfl
@[simp] theorem fl_eq_none_r (a : NV K) : Fl.eq a (none : NV K) = false := by cases a <;> rfl

/-- environment built from an association list (what the theorems feed to `Kernel.cell`) -/
def envOf {F : Type} [Fl F] (l : List (String × F)) : String → F :=
  fun n => ((l.find? (·.1 == n)).map (·.2)).getD Fl.nan

/-- window with one value per array at offset (0,0) (per-cell kernels) -/
def rd0 {F : Type} [Fl F] (l : List (String × F)) : String → Int → Int → F :=
  fun n _ _ => envOf l n

end XrsVerif
