import XrsVerif.Proofs.ILViewshedRotR
import XrsVerif.Proofs.ILViewshedIns
/-
  Proofs/ILViewshedLift.lean -- from a rotation of a subtree to the rotation *at a path* of the whole tree
  (`atPath (rotL S) p t` of the hand model, the step of `Rebal`).

  `lift_local`: a routine that replaces the subtree `old` at a position `ctx` of a well-linked tree by `new` (same rows),
  re-links `new` under the same parent, maps the abstraction of the subtree by `f`, redirects the child cell of the
  parent from the old root to the new one and writes nothing else outside the subtree's rows and the NIL row, leaves a
  well-linked tree whose abstraction is `atPath f (pathOf ctx)` of the old one.
  `vsLeftRotate_at_path` / `vsRightRotate_at_path`: the generated rotations are such routines.
-/
set_option linter.unusedSectionVars false
set_option linter.unusedVariables false
set_option linter.unusedSimpArgs false
namespace XrsVerif.ILVs
open XrsVerif XrsVerif.IL XrsVerif.Viewshed
variable {F : Type} [Fl F]

/-- the path from the root to a position (the model's `List Dir`) -/
def pathOf : Ctx → List Dir
  | [] => []
  | .L _ _ :: rest => pathOf rest ++ [.L]
  | .R _ _ :: rest => pathOf rest ++ [.R]

theorem atPath_append {α : Type} (f : Tree α → Tree α) : ∀ (p q : List Dir) (t : Tree α),
    atPath f (p ++ q) t = atPath (atPath f q) p t := by
  intro p
  induction p with
  | nil => intro q t; rfl
  | cons d p ih =>
    intro q t
    cases t with
    | nil => cases d <;> cases q <;> simp [atPath]
    | node l n mx c r => cases d <;> simp [atPath, ih]

/-- the side of a tree frame -/
def TFr.dir {α : Type} : TFr α → Dir
  | .L _ _ _ _ => .L
  | .R _ _ _ _ => .R

theorem atPath_plugT {α : Type} [LT α] [DecidableLT α] [LE α] [DecidableLE α] :
    ∀ (tc : List (TFr α)) (f : Tree α → Tree α) (t : Tree α) (p : List Dir),
      p = (tc.map TFr.dir).reverse →
      atPath f p (plugT t tc) = plugT (f t) tc := by
  intro tc
  induction tc with
  | nil => intro f t p hp; subst hp; rfl
  | cons fr rest ih =>
    intro f t p hp
    subst hp
    cases fr with
    | L n mx c r =>
      simp only [List.map_cons, List.reverse_cons, plugT, TFr.dir]
      rw [atPath_append, ih (atPath f [Dir.L]) _ _ rfl]
      rfl
    | R l n mx c =>
      simp only [List.map_cons, List.reverse_cons, plugT, TFr.dir]
      rw [atPath_append, ih (atPath f [Dir.R]) _ _ rfl]
      rfl

theorem pathOf_absCtx (V : List F) (N : List Int) : ∀ (ctx : Ctx),
    pathOf ctx = ((absCtx V N ctx).map TFr.dir).reverse := by
  intro ctx
  induction ctx with
  | nil => rfl
  | cons fr rest ih =>
    cases fr <;> simp [pathOf, absCtx, absFr, ih, TFr.dir]

/-- replacing the subtree at a position by one with the same rows, linked under the same parent -/
theorem lift_local {V V' : List F} {N N' : List Int} {n : Nat} (ctx : Ctx) (old new : Sh) (ro rn : Nat)
    (f : Tree (Fv F) → Tree (Fv F))
    (hL : Linked N n (-1) (plug old ctx)) (hN : (plug old ctx).idxs.Nodup)
    (hro : old.ptr = (ro : Int)) (hrn : new.ptr = (rn : Int)) (hperm : new.idxs.Perm old.idxs)
    (hLnew : Linked N' n (ctxPar ctx) new) (habs : absT V' N' new = f (absT V N old))
    (hV : ∀ i, i ∉ old.idxs → ∀ c, c < 8 → vAt V' i c = vAt V i c)
    (h0 : ∀ i, nAt N' i 0 = nAt N i 0)
    (h12 : ∀ i, i ∉ old.idxs → (ctxPar ctx < 0 ∨ (i : Int) ≠ ctxPar ctx) → nAt N' i 1 = nAt N i 1 ∧ nAt N' i 2 = nAt N i 2)
    (h3 : ∀ i, i ∉ old.idxs → i + 1 < n → nAt N' i 3 = nAt N i 3)
    (hpar : ∀ p : Nat, ctxPar ctx = (p : Int) →
      (nAt N p 1 = ro → nAt N' p 1 = rn ∧ nAt N' p 2 = nAt N p 2) ∧
      (nAt N p 1 ≠ ro → nAt N' p 2 = rn ∧ nAt N' p 1 = nAt N p 1)) :
    Linked N' n (-1) (plug new ctx) ∧ (plug new ctx).idxs.Nodup ∧
      absT V' N' (plug new ctx) = atPath f (pathOf ctx) (absT V N (plug old ctx)) := by
  obtain ⟨hlo, hco, hno⟩ := unplug ctx old hL hN
  have hnd := (nodup_plug_iff ctx old).mp hN
  have hdis : ∀ j ∈ ctxIdxs ctx, j ∉ old.idxs := fun j hj h => (List.nodup_append.mp hnd).2.2 j h j hj rfl
  have hctxlt : ∀ j ∈ ctxIdxs ctx, j + 1 < n := fun j hj =>
    Linked.idx_lt hL j ((mem_plug_iff ctx old j).mpr (Or.inr hj))
  -- the context after the update
  have hcn : CtxLinked N' n (rn : Int) ctx := by
    cases ctx with
    | nil => trivial
    | cons fr rest =>
      have hndc : (ctxIdxs (fr :: rest)).Nodup := (List.nodup_append.mp hnd).2.1
      have hoth : ∀ j ∈ ctxIdxs (fr :: rest), j ≠ fr.idx →
          nAt N' j 1 = nAt N j 1 ∧ nAt N' j 2 = nAt N j 2 ∧ nAt N' j 3 = nAt N j 3 := by
        intro j hj hne
        obtain ⟨a, b⟩ := h12 j (hdis j hj) (Or.inr (by rw [ctxPar_cons]; omega))
        exact ⟨a, b, h3 j (hdis j hj) (hctxlt j hj)⟩
      have hp3 : nAt N' fr.idx 3 = nAt N fr.idx 3 :=
        h3 fr.idx (hdis _ (by cases fr <;> simp [ctxIdxs, Fr.idx])) (hctxlt _ (by cases fr <;> simp [ctxIdxs, Fr.idx]))
      have hpp := hpar fr.idx (ctxPar_cons fr rest)
      rw [hro] at hco
      cases fr with
      | L p r0 =>
        obtain ⟨g1, g2, g3, g4, g5, g6, g7⟩ := hco
        have hnd' : (p :: (r0.idxs ++ ctxIdxs rest)).Nodup := by simpa [ctxIdxs] using hndc
        have hnd'' := List.nodup_cons.mp hnd'
        obtain ⟨e1, e2⟩ := hpp.1 g2
        have e1' : nAt N' p 1 = rn := e1
        have e2' : nAt N' p 2 = nAt N p 2 := e2
        have e3' : nAt N' p 3 = nAt N p 3 := hp3
        have hoth' : ∀ j ∈ ctxIdxs (Fr.L p r0 :: rest), j ≠ p →
            nAt N' j 1 = nAt N j 1 ∧ nAt N' j 2 = nAt N j 2 ∧ nAt N' j 3 = nAt N j 3 := hoth
        refine ⟨g1, e1', by rw [e2']; exact g3, fun _ e => ?_, by rw [e3']; exact g5, ?_, ?_⟩
        · -- the sibling's root is not the new root: the new root is a row of the old subtree
          have : rn ∈ old.idxs := hperm.mem_iff.mp (Sh.ptr_mem new rn hrn)
          exact hdis rn (by simp [ctxIdxs, Sh.ptr_mem r0 rn e]) this
        · exact g6.congr (fun j hj => hoth' j (by simp [ctxIdxs, hj]) (fun e => hnd''.1 (by simp [← e, hj])))
        · exact g7.congr (fun j hj => hoth' j (by simp [ctxIdxs, hj]) (fun e => hnd''.1 (by simp [← e, hj])))
      | R l0 p =>
        obtain ⟨g1, g2, g3, g4, g5, g6, g7⟩ := hco
        have hnd' : (p :: (l0.idxs ++ ctxIdxs rest)).Nodup := by simpa [ctxIdxs] using hndc
        have hnd'' := List.nodup_cons.mp hnd'
        have hne1 : nAt N p 1 ≠ (ro : Int) := by
          rw [g2]; exact g4 (by omega)
        obtain ⟨e1, e2⟩ := hpp.2 hne1
        have e1' : nAt N' p 2 = rn := e1
        have e2' : nAt N' p 1 = nAt N p 1 := e2
        have e3' : nAt N' p 3 = nAt N p 3 := hp3
        have hoth' : ∀ j ∈ ctxIdxs (Fr.R l0 p :: rest), j ≠ p →
            nAt N' j 1 = nAt N j 1 ∧ nAt N' j 2 = nAt N j 2 ∧ nAt N' j 3 = nAt N j 3 := hoth
        refine ⟨g1, by rw [e2']; exact g2, e1', fun _ e => ?_, by rw [e3']; exact g5, ?_, ?_⟩
        · have : rn ∈ old.idxs := hperm.mem_iff.mp (Sh.ptr_mem new rn hrn)
          exact hdis rn (by simp [ctxIdxs, Sh.ptr_mem l0 rn e]) this
        · exact g6.congr (fun j hj => hoth' j (by simp [ctxIdxs, hj]) (fun e => hnd''.1 (by simp [← e, hj])))
        · exact g7.congr (fun j hj => hoth' j (by simp [ctxIdxs, hj]) (fun e => hnd''.1 (by simp [← e, hj])))
  refine ⟨replug ctx new hLnew (by rw [hrn]; exact hcn), ?_, ?_⟩
  · rw [nodup_plug_iff]
    exact (List.Perm.append_right _ hperm).nodup_iff.mpr hnd
  · rw [absT_plug, absT_plug, habs]
    have hc : absCtx V' N' ctx = absCtx V N ctx :=
      absCtx_congr ctx (fun j hj => ⟨fun c hc => hV j (hdis j hj) c hc, h0 j⟩)
    rw [hc, atPath_plugT _ f _ _ (pathOf_absCtx V N ctx)]

/-- the parent of a position is NIL or a row outside the subtree -/
theorem ctxPar_cases {N : List Int} {n : Nat} (ctx : Ctx) (sub : Sh) (hL : Linked N n (-1) (plug sub ctx))
    (hN : (plug sub ctx).idxs.Nodup) :
    ctxPar ctx = -1 ∨ ∃ p : Nat, ctxPar ctx = (p : Int) ∧ p + 1 < n ∧ p ∉ sub.idxs := by
  cases ctx with
  | nil => left; rfl
  | cons fr rest =>
    right
    have hnd := (nodup_plug_iff (fr :: rest) sub).mp hN
    have hmem : fr.idx ∈ ctxIdxs (fr :: rest) := by cases fr <;> simp [ctxIdxs, Fr.idx]
    exact ⟨fr.idx, ctxPar_cons fr rest,
      Linked.idx_lt hL _ ((mem_plug_iff (fr :: rest) sub _).mpr (Or.inr hmem)),
      fun h => (List.nodup_append.mp hnd).2.2 _ h _ hmem rfl⟩

/-- **the generated `_left_rotate` at a position of the whole tree is the model's `atPath (rotL S)`** -/
theorem vsLeftRotate_at_path (s : State F) (fuel n : Nat) (hv : VS s n) (hrun : s.ctl = .run) (ctx : Ctx)
    (a : Sh) (x : Nat) (b : Sh) (y : Nat) (c : Sh)
    (hL : Linked (s.ia "tree_nodes") n (-1) (plug (.node a x (.node b y c)) ctx))
    (hN : (plug (.node a x (.node b y c)) ctx).idxs.Nodup) (hx : s.ienv "x" = x) :
    let q := Gen.IL.vsLeftRotate.run s fuel
    let S : Fv F := vAt (s.fa "tree_vals") (n - 1) 7
    q.ctl = .ret ∧ VS q n ∧ Linked (q.ia "tree_nodes") n (-1) (plug (.node (.node a x b) y c) ctx) ∧
      (plug (.node (.node a x b) y c) ctx).idxs.Nodup ∧
      absT (q.fa "tree_vals") (q.ia "tree_nodes") (plug (.node (.node a x b) y c) ctx) =
        atPath (rotL S) (pathOf ctx) (absT (s.fa "tree_vals") (s.ia "tree_nodes") (plug (.node a x (.node b y c)) ctx)) ∧
      q.ienv "ret0" = (if ctxPar ctx = -1 then (y : Int) else s.ienv "root") ∧
      vAt (q.fa "tree_vals") (n - 1) 7 = S := by
  intro q S
  obtain ⟨hlo, _, hno⟩ := unplug ctx _ hL hN
  have hpar := ctxPar_cases ctx _ hL hN
  obtain ⟨r1, r2, r3, r4, r5, r6, r7, r8⟩ := vsLeftRotate_refines s fuel n hv hrun a x b y c (ctxPar ctx) hlo hno hx hpar
  have hxin : x ∈ (Sh.node a x (.node b y c)).idxs := by simp [Sh.idxs]
  have hyin : y ∈ (Sh.node a x (.node b y c)).idxs := by simp [Sh.idxs]
  have hbrow := rowOf_ptr_cases hlo.2.2.2.2.2.2.2.2.2.1
  have hlift := lift_local (V := s.fa "tree_vals") (V' := q.fa "tree_vals") (N := s.ia "tree_nodes")
    (N' := q.ia "tree_nodes") ctx (.node a x (.node b y c)) (.node (.node a x b) y c) x y (rotL S) hL hN rfl rfl
    (by simp [Sh.idxs]) r4 r5
    (fun i hi cc hc => r7 i (fun e => hi (e ▸ hxin)) (fun e => hi (e ▸ hyin)) cc hc) r8.col0
    (fun i hi hp => r8.other12 i (fun e => hi (e ▸ hxin)) (fun e => hi (e ▸ hyin)) hp)
    (fun i hi hlt => r8.other3 i (fun e => hi (e ▸ hxin)) (fun e => hi (e ▸ hyin)) (fun e => by
      rcases hbrow with h | h
      · omega
      · exact hi (by simp [Sh.idxs, e ▸ h])))
    r8.parent
  exact ⟨r1, r2, hlift.1, hlift.2.1, hlift.2.2, r3, r6⟩

/-- **the generated `_right_rotate` at a position of the whole tree is the model's `atPath (rotR S)`** -/
theorem vsRightRotate_at_path (s : State F) (fuel n : Nat) (hv : VS s n) (hrun : s.ctl = .run) (ctx : Ctx)
    (a : Sh) (x : Nat) (b : Sh) (y : Nat) (c : Sh)
    (hL : Linked (s.ia "tree_nodes") n (-1) (plug (.node (.node a x b) y c) ctx))
    (hN : (plug (.node (.node a x b) y c) ctx).idxs.Nodup) (hy : s.ienv "y" = y) :
    let q := Gen.IL.vsRightRotate.run s fuel
    let S : Fv F := vAt (s.fa "tree_vals") (n - 1) 7
    q.ctl = .ret ∧ VS q n ∧ Linked (q.ia "tree_nodes") n (-1) (plug (.node a x (.node b y c)) ctx) ∧
      (plug (.node a x (.node b y c)) ctx).idxs.Nodup ∧
      absT (q.fa "tree_vals") (q.ia "tree_nodes") (plug (.node a x (.node b y c)) ctx) =
        atPath (rotR S) (pathOf ctx) (absT (s.fa "tree_vals") (s.ia "tree_nodes") (plug (.node (.node a x b) y c) ctx)) ∧
      q.ienv "ret0" = (if ctxPar ctx = -1 then (x : Int) else s.ienv "root") ∧
      vAt (q.fa "tree_vals") (n - 1) 7 = S := by
  intro q S
  obtain ⟨hlo, _, hno⟩ := unplug ctx _ hL hN
  have hpar := ctxPar_cases ctx _ hL hN
  obtain ⟨r1, r2, r3, r4, r5, r6, r7, r8⟩ := vsRightRotate_refines s fuel n hv hrun a x b y c (ctxPar ctx) hlo hno hy hpar
  have hxin : x ∈ (Sh.node (.node a x b) y c).idxs := by simp [Sh.idxs]
  have hyin : y ∈ (Sh.node (.node a x b) y c).idxs := by simp [Sh.idxs]
  have hbrow := rowOf_ptr_cases hlo.2.2.2.2.1.2.2.2.2.2
  have hlift := lift_local (V := s.fa "tree_vals") (V' := q.fa "tree_vals") (N := s.ia "tree_nodes")
    (N' := q.ia "tree_nodes") ctx (.node (.node a x b) y c) (.node a x (.node b y c)) y x (rotR S) hL hN rfl rfl
    (by simp [Sh.idxs]) r4 r5
    (fun i hi cc hc => r7 i (fun e => hi (e ▸ hxin)) (fun e => hi (e ▸ hyin)) cc hc) r8.col0
    (fun i hi hp => r8.other12 i (fun e => hi (e ▸ hxin)) (fun e => hi (e ▸ hyin)) hp)
    (fun i hi hlt => r8.other3 i (fun e => hi (e ▸ hxin)) (fun e => hi (e ▸ hyin)) (fun e => by
      rcases hbrow with h | h
      · omega
      · exact hi (by simp [Sh.idxs, e ▸ h])))
    r8.parent
  exact ⟨r1, r2, hlift.1, hlift.2.1, hlift.2.2, r3, r6⟩

end XrsVerif.ILVs
