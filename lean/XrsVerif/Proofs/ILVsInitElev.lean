import XrsVerif.Proofs.ILVsInitDefs
import XrsVerif.Proofs.ILVsGeom
/-
  Proofs/ILVsInitElev.lean -- the two inlined `_calc_event_elev` of the generated `_init_event_list`: each stores the
  model's corner elevation (`cornerElevF`: mean of the 2 x 2 block at the corner read from the three-row ring buffer,
  the cell's own elevation at the border or next to a NaN) into the event record `e`.
-/
namespace XrsVerif.ILSw
open XrsVerif XrsVerif.IL XrsVerif.ViewshedEvents
variable {F : Type} [Fl F]
set_option linter.unusedSectionVars false
set_option linter.unusedSimpArgs false
set_option linter.unusedVariables false

/-- `a[r, c]` of a 2-D array of width `w` stored row-major in `l` (integer indices) -/
def rdI (l : List F) (w : Nat) (r c : Int) : F := l.getD (r.toNat * w + c.toNat) Fl.nan

theorem ld2_rd (s : State F) (a : String) (R C : Nat) (iE jE : IE) (hshp : s.shp a = [R, C])
    (hoki : iE.ok s = true) (hokj : jE.ok s = true) (hr : 0 ≤ iE.eval s ∧ iE.eval s < R)
    (hc : 0 ≤ jE.eval s ∧ jE.eval s < C) :
    (FE.ld2 a iE jE).ok s = true ∧ (FE.ld2 a iE jE).eval s = rdI (s.fa a) C (iE.eval s) (jE.eval s) := by
  have n1 : ¬ iE.eval s < 0 := by omega
  have n2 : ¬ jE.eval s < 0 := by omega
  simp [FE.ok, FE.eval, hshp, hoki, hokj, inRange, normIdx, off2, rdI, n1, n2, hr.1, hr.2, hc.1, hc.2]


/-- the laws of the number type the numeric copies of the event functions need: the event codes `1, 0, -1` stored as
    numbers compare with the literals `0` and `1` as the integers do -/
def LitOK (F : Type) [Fl F] : Prop :=
  ∀ ty : Int, (ty = 1 ∨ ty = 0 ∨ ty = -1) →
    Fl.eq (Fl.lit ty 1 : F) (Fl.lit 0 1) = decide (ty = 0) ∧ Fl.eq (Fl.lit ty 1 : F) (Fl.lit 1 1) = decide (ty = 1)

/-- mean of the four cells at a corner, the cell's own elevation `D` when one of them is NaN -/
def cornerVal (A B C D : F) : F :=
  if (Fl.isnan A || (Fl.isnan B || (Fl.isnan C || Fl.isnan D))) = true then D
  else Fl.div (Fl.add (Fl.add (Fl.add A B) C) D) (Fl.lit 4 1)

/-- `_calc_event_elev` on a terrain `T` over any number type (`Model/ViewshedEvents.cornerElev` with the code's NaN
    fallback and the code's order of additions) -/
def cornerElevF (T : Int → Int → F) (h w : Nat) (vr vc ty row col : Int) : F :=
  let o := nbOff ty (row - vr) (col - vc)
  if 0 ≤ row + o.1 ∧ row + o.1 < h ∧ 0 ≤ col + o.2 ∧ col + o.2 < w then
    cornerVal (T (row + o.1) (col + o.2)) (T (row + o.1) col) (T row (col + o.2)) (T row col)
  else T row col

/-- the three-row buffer `inrast` while row `i` is processed: row `d` holds raster row `i + d - 1` (if there is one) -/
def Ring (inr : List F) (T : Int → Int → F) (h w : Nat) (i : Int) : Prop :=
  ∀ d c : Int, 0 ≤ d → d ≤ 2 → 0 ≤ i + d - 1 → i + d - 1 < h → 0 ≤ c → c < w → rdI inr w d c = T (i + d - 1) c

/-- the integer variables of `_init_event_list` that are live across the inlined calls -/
def liveVars : List String := ["i", "j", "e_row", "e_col", "n_rows", "n_cols", "vp_row", "vp_col", "count_event"]

/-- the live variables are untouched -/
def LiveI (ie ie' : String → Int) : Prop := ∀ v ∈ liveVars, ie' v = ie v

/-- a block of the per-cell code: control stays `run`, only scalars and the listed arrays change, the live variables keep
    their values -/
structure EvStep (s s' : State F) : Prop where
  ctl : s'.ctl = .run
  ia : s'.ia = s.ia
  shp : s'.shp = s.shp
  ext : s'.ext = s.ext
  live : LiveI s.ienv s'.ienv

/-- what an inlined `e[E_TYPE_ID] = ty; e[idx] = _calc_event_elev(…)` does (prefixes `p`, `q`) -/
def ElevCallSpec (F : Type) [Fl F] (p q : String) (ty idx : Int) (k : Nat) : Prop :=
  ∀ (hL : LitOK F) (rest : St) (s : State F) (fuel : Nat) (hs : s.ctl = .run)
    (T : Int → Int → F) (h w : Nat) (i j vr vc : Int)
    (hshp : s.shp "inrast" = [3, w]) (hshe : s.shp "e" = [7]) (hlen : (s.fa "e").length = 7)
    (hring : Ring (s.fa "inrast") T h w i) (hi : 0 ≤ i ∧ i < h) (hj : 0 ≤ j ∧ j < w)
    (h2 : s.ienv "e_row" = i) (h3 : s.ienv "e_col" = j) (h4 : s.ienv "n_rows" = h) (h5 : s.ienv "n_cols" = w)
    (h6 : s.ienv "vp_row" = vr) (h7 : s.ienv "vp_col" = vc),
    ∃ s' : State F, exec fuel (elevCall p q ty idx rest) s = exec fuel rest s' ∧ EvStep s s' ∧
      s'.fa = setS s.fa "e" (((s.fa "e").set 2 (Fl.lit ty 1)).set k (cornerElevF T h w vr vc ty i j))

theorem rcBody_num (q : String) (s : State F) (fuel : Nat) (ty : Int)
    (hz : Fl.eq (Fl.lit ty 1 : F) (Fl.lit 0 1) = decide (ty = 0)) (ho : Fl.eq (Fl.lit ty 1 : F) (Fl.lit 1 1) = decide (ty = 1))
    (h0 : ty ≠ 0) (hs : s.ctl = .run) (h1 : s.fenv (q ++ "event_type") = Fl.lit ty 1) :
    exec fuel (rcBody .num q) s = { s with ienv := rcEnv q s ty, ctl := .ret } :=
  (rcBody_exec .num q s fuel hs ty ⟨h1, hz, ho⟩).2 h0

set_option hygiene false in
/-- the proof of `ElevCallSpec` for one inlined copy (the prefix of its `_calculate_event_row_col` and the event code) -/
macro "elev_call_proof" q:str ty:term : tactic => `(tactic| (
    intro hL rest s fuel hs T h w i j vr vc hshp hshe hlen hring hi hj h2 h3 h4 h5 h6 h7
    obtain ⟨ie, fe, be, ia, fa, shp, ext, ctl⟩ := s
    simp only at hs hshp hshe hlen hring h2 h3 h4 h5 h6 h7; subst hs
    obtain ⟨e0, e1, e2, e3, e4, e5, e6, hE⟩ := list7 _ hlen
    have hl := hL $ty (by omega)
    have hrc := fun s => rcBody_num (F := F) $q s fuel $ty hl.1 hl.2 (by omega)
    rw [cornerElevF, nbOff_eq_offOf]
    have hm := offOf_mem $ty (i - vr) (j - vc)
    generalize ho : offOf $ty (i - vr) (j - vc) = o at *
    obtain ⟨o1, o2⟩ := o
    simp only at hm ⊢
    have hj1 : ¬ j < 0 := by omega
    have r11 := hring 1 j (by omega) (by omega) (by omega) (by omega) hj.1 hj.2
    simp [rdI] at r11
    by_cases hin : 0 ≤ i + o1 ∧ i + o1 < h ∧ 0 ≤ j + o2 ∧ j + o2 < w
    · have n1 : ¬ i + o1 < 0 := by omega
      have n2 : ¬ j + o2 < 0 := by omega
      have r12 := hring 1 (j + o2) (by omega) (by omega) (by omega) (by omega) hin.2.2.1 hin.2.2.2
      have r21 := hring (o1 + 1) j (by omega) (by omega) (by omega) (by omega) hj.1 hj.2
      have r22 := hring (o1 + 1) (j + o2) (by omega) (by omega) (by omega) (by omega) hin.2.2.1 hin.2.2.2
      rw [show i + (o1 + 1) - 1 = i + o1 by omega] at r21 r22
      rw [show i + 1 - 1 = i by omega] at r12
      have m1 : ¬ o1 + 1 < 0 := by omega
      have m2 : 0 ≤ o1 + 1 := by omega
      have m3 : o1 + 1 < 3 := by omega
      simp [rdI] at r12 r21 r22
      by_cases hnan : (Fl.isnan (T (i + o1) (j + o2)) || (Fl.isnan (T (i + o1) j) || (Fl.isnan (T i (j + o2)) || Fl.isnan (T i j)))) = true <;>
      simp at hnan <;>
      simp [elevCall, elevBody, exec, IE.ok, IE.eval, FE.ok, FE.eval, hshe, inRange, normIdx, off1, off2, hE, setS_apply, h2, h3, h4, h5, h6, h7,
            hrc, rcEnv, offS, ho, BE.ok, BE.eval, cmpInt, hin, hshp, hj.1, hj.2, hj1, n1, n2, IOp.eval, r11, r12, r21, r22, hnan, cornerVal,
            BinOp.eval, m1, m2, m3] <;>
      refine ⟨_, rfl, ⟨rfl, rfl, rfl, rfl, ?_⟩, ?_⟩
      · intro v hv
        simp [liveVars] at hv
        rcases hv with rfl | rfl | rfl | rfl | rfl | rfl | rfl | rfl | rfl <;> simp [setS_apply]
      · simp [setS_setS]
      · intro v hv
        simp [liveVars] at hv
        rcases hv with rfl | rfl | rfl | rfl | rfl | rfl | rfl | rfl | rfl <;> simp [setS_apply]
      · simp [setS_setS]
    · have hin' : ¬ ((0 ≤ i + o1 ∧ i + o1 < h) ∧ 0 ≤ j + o2 ∧ j + o2 < w) := fun hc => hin ⟨hc.1.1, hc.1.2, hc.2.1, hc.2.2⟩
      simp [elevCall, elevBody, exec, IE.ok, IE.eval, FE.ok, FE.eval, hshe, inRange, normIdx, off1, off2, hE, setS_apply, h2, h3, h4, h5, h6, h7,
            hrc, rcEnv, offS, ho, BE.ok, BE.eval, cmpInt, hin, hin', hshp, hj.1, hj.2, hj1, IOp.eval, r11]
      refine ⟨_, rfl, ⟨rfl, rfl, rfl, rfl, ?_⟩, ?_⟩
      · intro v hv
        simp [liveVars] at hv
        rcases hv with rfl | rfl | rfl | rfl | rfl | rfl | rfl | rfl | rfl <;> simp [setS_apply]
      · simp [setS_setS]))

theorem elevCall2 : ElevCallSpec F "_calc_event_elev2$" "_calc_event_elev2$_calculate_event_row_col3$" 1 4 4 := by
  elev_call_proof "_calc_event_elev2$_calculate_event_row_col3$" 1

theorem elevCall4 : ElevCallSpec F "_calc_event_elev4$" "_calc_event_elev4$_calculate_event_row_col5$" (-1) 6 6 := by
  elev_call_proof "_calc_event_elev4$_calculate_event_row_col5$" (-1)

end XrsVerif.ILSw
