import XrsVerif.Proofs.ILVsInitRow
/-
  Proofs/ILVsInitRing.lean -- the three-row ring buffer `inrast` of the generated `_init_event_list`: a row copy
  (`rowcp_exec`), and the rotation at the head of iteration `i` (`ringStep_exec`): `inrast[0] = inrast[1]`,
  `inrast[1] = inrast[2]`, `inrast[2] = tmprast` -- `tmprast` being the *view* `inrast[0]`, i.e. the row just overwritten,
  harmless because row 2 is then replaced by the next raster row or by NaN -- turns `PreRing` (rows 1, 2 = raster rows
  `i - 1`, `i`) into `Ring` (rows 0, 1, 2 = raster rows `i - 1`, `i`, `i + 1`).
-/
namespace XrsVerif.ILSw
open XrsVerif XrsVerif.IL XrsVerif.ViewshedEvents
variable {F : Type} [Fl F]
set_option linter.unusedSectionVars false
set_option linter.unusedSimpArgs false
set_option linter.unusedVariables false

theorem row_disjoint (r sr C k : Nat) (hk : k < C) (hne : sr ≠ r) : ¬ (r * C ≤ sr * C + k ∧ sr * C + k < r * C + C) := by
  intro ⟨h1, h2⟩
  rcases Nat.lt_or_gt_of_ne hne with h | h
  · have : (sr + 1) * C ≤ r * C := Nat.mul_le_mul_right C h
    rw [Nat.add_mul] at this; omega
  · have : (r + 1) * C ≤ sr * C := Nat.mul_le_mul_right C h
    rw [Nat.add_mul] at this; omega

/-- **a row copy** `dst[<q>r] = src[sv]` between 2-D arrays of the same width (the same array allowed, other row) -/
theorem rowcp_exec (q dst src sv : String) (hsv : sv ≠ q ++ "k") (s : State F) (fuel R C R' r sr : Nat)
    (hs : s.ctl = .run) (hshp : s.shp dst = [R, C]) (hlen : (s.fa dst).length = R * C) (hshs : s.shp src = [R', C])
    (hr : s.ienv (q ++ "r") = r) (hrR : r < R) (hsr : s.ienv sv = sr) (hsrR : sr < R') (hC : 0 < C)
    (hne : dst = src → sr ≠ r) :
    exec fuel (rowcp q dst src sv) s =
      { s with ienv := setS s.ienv (q ++ "k") ((C - 1 : Nat) : Int),
               fa := setS s.fa dst (setRow (s.fa dst) C r (fun k => (s.fa src).getD (sr * C + k) Fl.nan)) } := by
  refine rowLoop_exec dst (q ++ "k") (.dim dst 1) (.var (q ++ "r")) (.ld2 src (.var sv) (.var (q ++ "k"))) s fuel R C r _
    hs hshp hlen hrR hC ⟨by simp [IE.ok, hshp], by simp [IE.eval, hshp]⟩ ?_
  intro k l hk hl hout
  have i1 : inRange (sr : Int) R' = true := inRange_of_lt sr R' hsrR
  have i2 : inRange (k : Int) C = true := inRange_of_lt k C hk
  have o : off2 [R', C] (sr : Int) (k : Int) = sr * C + k := off2_nat R' C sr k
  by_cases hds : dst = src
  · subst hds
    have hsame : R' = R := by rw [hshp] at hshs; simpa using hshs.symm
    subst hsame
    have := hout (sr * C + k) (row_disjoint r sr C k hk (hne rfl))
    simp [IE.ok, IE.eval, FE.ok, FE.eval, setS_apply, hr, hsr, hsv, hshp, i1, i2, o]
    simpa using this
  · have hds' : ¬ src = dst := fun e => hds e.symm
    simp [IE.ok, IE.eval, FE.ok, FE.eval, setS_apply, hr, hsr, hsv, hshs, i1, i2, o, hds']


/-- the terrain the program reads -/
def terr (rast : List F) (w : Nat) : Int → Int → F := fun r c => rdI rast w r c

/-- the ring buffer at the head of iteration `i`, before its rotation: row 1 holds raster row `i - 1`, row 2 row `i` -/
def PreRing (inr : List F) (T : Int → Int → F) (h w : Nat) (i : Int) : Prop :=
  ∀ d c : Int, 1 ≤ d → d ≤ 2 → 0 ≤ i + d - 2 → i + d - 2 < h → 0 ≤ c → c < w → rdI inr w d c = T (i + d - 2) c

theorem Ring.pre {inr : List F} {T : Int → Int → F} {h w : Nat} {i : Int} (r : Ring inr T h w i) : PreRing inr T h w (i + 1) := by
  intro d c h1 h2 h3 h4 h5 h6
  have := r d c (by omega) h2 (by omega) (by omega) h5 h6
  rw [this]; congr 1; omega

/-- the integer variables the row loop relies on -/
def keepVars : List String := ["i", "n_rows", "n_cols", "vp_row", "vp_col", "count_event"]

/-- what the rotation of the ring buffer at the head of iteration `i` leaves behind -/
structure RingPost (s s' : State F) (T : Int → Int → F) (h w : Nat) (i : Nat) : Prop where
  ctl : s'.ctl = .run
  shp : s'.shp = s.shp
  ia : s'.ia = s.ia
  fa : ∀ a, a ≠ "inrast" → s'.fa a = s.fa a
  len : (s'.fa "inrast").length = 3 * w
  ring : Ring (s'.fa "inrast") T h w i
  keep : ∀ v ∈ keepVars, s'.ienv v = s.ienv v

theorem ring_of_rows (inr4 inr0 rast : List F) (h w : Nat) (i : Nat) (pre : PreRing inr0 (terr rast w) h w i)
    (r0 : ∀ c, c < w → inr4.getD c Fl.nan = inr0.getD (w + c) Fl.nan)
    (r1 : ∀ c, c < w → inr4.getD (w + c) Fl.nan = inr0.getD (2 * w + c) Fl.nan)
    (r2 : i + 1 < h → ∀ c, c < w → inr4.getD (2 * w + c) Fl.nan = rast.getD ((i + 1) * w + c) Fl.nan) :
    Ring inr4 (terr rast w) h w i := by
  intro d c h1 h2 h3 h4 h5 h6
  obtain ⟨cn, rfl⟩ := Int.eq_ofNat_of_zero_le h5
  have hcn : cn < w := by omega
  obtain rfl | rfl | rfl : d = 0 ∨ d = 1 ∨ d = 2 := by omega
  · have := pre 1 cn (by omega) (by omega) (by omega) (by omega) h5 h6
    have q := r0 cn hcn
    simp only [rdI] at this ⊢
    simp at this q ⊢
    rw [q, this]; congr 1; omega
  · have := pre 2 cn (by omega) (by omega) (by omega) (by omega) h5 h6
    have q := r1 cn hcn
    simp only [rdI] at this ⊢
    simp at this q ⊢
    rw [q, this]
  · have hi1 : i + 1 < h := by omega
    have q := r2 hi1 cn hcn
    simp only [rdI, terr]
    simp at q ⊢
    rw [q]
    have e : ((i : Int) + 2).toNat - 1 = i + 1 := by omega
    rw [e]

theorem ringStep_exec (s : State F) (fuel : Nat) (h w i : Nat) (hs : s.ctl = .run)
    (shInr : s.shp "inrast" = [3, w]) (lenInr : (s.fa "inrast").length = 3 * w) (shR : s.shp "raster" = [h, w])
    (pre : PreRing (s.fa "inrast") (terr (s.fa "raster") w) h w i) (vi : s.ienv "i" = i) (nr : s.ienv "n_rows" = h)
    (nc : s.ienv "n_cols" = w) (hw : 0 < w) (hih : i < h) :
    RingPost s (exec fuel (ILVs.seqL ringStep) s) (terr (s.fa "raster") w) h w i := by
  obtain ⟨ie, fe, be, ia, fa, shp, ext, ctl⟩ := s
  simp only at hs shInr lenInr shR pre vi nr nc; subst hs
  show Post fuel _ _ (fun r => RingPost _ r _ h w i)
  simp only [ringStep, ILVs.seqL]
  refine Post.seq_eq _ (exec_setI_lit _ _ _ _) rfl ?_
  refine Post.seq_eq _ (exec_setI_lit _ _ _ _) rfl ?_
  refine Post.seq_eq _ (exec_setI_lit _ _ _ _) rfl ?_
  refine Post.seq_eq _ (rowcp_exec "rowcp2$" "inrast" "inrast" "rowcp2$s" (by decide) _ fuel 3 w 3 0 1 rfl shInr lenInr shInr
    (by simp [setS_apply]) (by omega) (by simp [setS_apply]) (by omega) hw (by intro; omega)) rfl ?_
  refine Post.seq_eq _ (exec_setI_lit _ _ _ _) rfl ?_
  refine Post.seq_eq _ (exec_setI_lit _ _ _ _) rfl ?_
  refine Post.seq_eq _ (rowcp_exec "rowcp3$" "inrast" "inrast" "rowcp3$s" (by decide) _ fuel 3 w 3 1 2 rfl shInr
    (by simp [setS_apply, lenInr]) shInr
    (by simp [setS_apply]) (by omega) (by simp [setS_apply]) (by omega) hw (by intro; omega)) rfl ?_
  refine Post.seq_eq _ (exec_setI_lit _ _ _ _) rfl ?_
  refine Post.seq_eq _ (rowcp_exec "rowcp4$" "inrast" "inrast" "row$tmprast" (by decide) _ fuel 3 w 3 2 0 rfl shInr
    (by simp [setS_apply, lenInr]) shInr
    (by simp [setS_apply]) (by omega) (by simp [setS_apply]) (by omega) hw (by intro; omega)) rfl ?_
  simp only [setS_apply, setS_setS, if_true]
  -- the three rotated rows
  have hg : ∀ (l : List F) (idx : Nat), l.getD idx Fl.nan = l.getD idx Fl.nan := fun _ _ => rfl
  generalize hI3 : (setRow (setRow (setRow (fa "inrast") w 0 fun k => (fa "inrast").getD (1 * w + k) Fl.nan) w 1 fun k =>
      (setRow (fa "inrast") w 0 fun k => (fa "inrast").getD (1 * w + k) Fl.nan).getD (2 * w + k) Fl.nan) w 2 fun k =>
      (setRow (setRow (fa "inrast") w 0 fun k => (fa "inrast").getD (1 * w + k) Fl.nan) w 1 fun k =>
        (setRow (fa "inrast") w 0 fun k => (fa "inrast").getD (1 * w + k) Fl.nan).getD (2 * w + k) Fl.nan).getD (0 * w + k) Fl.nan) = inr3
  have len3 : inr3.length = 3 * w := by rw [← hI3]; simp [lenInr]
  have row0 : ∀ c, c < w → inr3.getD c Fl.nan = (fa "inrast").getD (w + c) Fl.nan := by
    intro c hc
    rw [← hI3]
    simp only [getD_setRow, length_setRow, lenInr]
    have a1 : ¬ (2 * w ≤ c ∧ c < 2 * w + w ∧ c < 3 * w) := by omega
    have a2 : ¬ (1 * w ≤ c ∧ c < 1 * w + w ∧ c < 3 * w) := by omega
    have a3 : (0 * w ≤ c ∧ c < 0 * w + w ∧ c < 3 * w) := by omega
    rw [if_neg a1, if_neg a2, if_pos a3]
    congr 1; omega
  have row1 : ∀ c, c < w → inr3.getD (w + c) Fl.nan = (fa "inrast").getD (2 * w + c) Fl.nan := by
    intro c hc
    rw [← hI3]
    simp only [getD_setRow, length_setRow, lenInr]
    have a1 : ¬ (2 * w ≤ w + c ∧ w + c < 2 * w + w ∧ w + c < 3 * w) := by omega
    have a2 : (1 * w ≤ w + c ∧ w + c < 1 * w + w ∧ w + c < 3 * w) := by omega
    have a3 : ¬ (0 * w ≤ 2 * w + (w + c - 1 * w) ∧ 2 * w + (w + c - 1 * w) < 0 * w + w ∧ 2 * w + (w + c - 1 * w) < 3 * w) := by omega
    rw [if_neg a1, if_pos a2, if_neg a3]
    congr 1; omega
  generalize hI9 : (setS (setS (setS (setS (setS (setS (setS (setS (setS ie "row$tmprast" 0) "rowcp2$r" 0) "rowcp2$s" 1)
      ("rowcp2$" ++ "k") ((w - 1 : Nat) : Int)) "rowcp3$r" 1) "rowcp3$s" 2) ("rowcp3$" ++ "k") ((w - 1 : Nat) : Int)) "rowcp4$r" 2)
      ("rowcp4$" ++ "k") ((w - 1 : Nat) : Int)) = ie9
  have keep9 : ∀ v ∈ keepVars, ie9 v = ie v := by
    intro v hv
    simp [keepVars] at hv
    rw [← hI9]
    rcases hv with rfl | rfl | rfl | rfl | rfl | rfl <;> simp [setS_apply]
  have vi9 : ie9 "i" = i := (keep9 _ (by simp [keepVars])).trans vi
  have nr9 : ie9 "n_rows" = h := (keep9 _ (by simp [keepVars])).trans nr
  have nc9 : ie9 "n_cols" = w := (keep9 _ (by simp [keepVars])).trans nc
  by_cases hlast : i + 1 < h
  · -- read the next raster row
    have hc : (BE.cmpI .lt (.var "i") (.bin .sub (.var "n_rows") (.lit 1))).eval
        (⟨ie9, fe, be, ia, setS fa "inrast" inr3, shp, ext, .run⟩ : State F) = true := by
      simp [BE.eval, IE.eval, cmpInt, IOp.eval, vi9, nr9]; omega
    unfold Post
    rw [ILVs.exec_ite_true _ _ _ _ _ (by simp [BE.ok, IE.ok]) hc]
    show Post fuel _ _ (fun r => RingPost _ r _ h w i)
    refine Post.seq_eq _ (exec_setI_lit _ _ _ _) rfl ?_
    refine Post.seq_eq _ (ILVs.exec_setI _ _ _ _ (by simp [IE.ok])) rfl ?_
    refine Post.of_eq _ (rowcp_exec "rowcp5$" "inrast" "raster" "rowcp5$s" (by decide) _ fuel 3 w h 2 (i + 1) rfl shInr
      (by simp [setS_apply, len3]) shR (by simp [setS_apply]) (by omega)
      (by simp [setS_apply, IE.eval, IOp.eval, vi9]) hlast hw (by intro e; exact absurd e (by decide))) ?_
    refine ⟨rfl, rfl, rfl, ?_, ?_, ?_, ?_⟩
    · intro a ha; simp [setS_apply, ha]
    · simp [setS_apply, len3]
    · simp only [setS_apply, if_true]
      refine ring_of_rows _ (fa "inrast") (fa "raster") h w i pre ?_ ?_ ?_
      · intro c hc
        rw [getD_setRow, len3]
        have a1 : ¬ (2 * w ≤ c ∧ c < 2 * w + w ∧ c < 3 * w) := by omega
        rw [if_neg a1]; exact row0 c hc
      · intro c hc
        rw [getD_setRow, len3]
        have a1 : ¬ (2 * w ≤ w + c ∧ w + c < 2 * w + w ∧ w + c < 3 * w) := by omega
        rw [if_neg a1]; exact row1 c hc
      · intro _ c hc
        rw [getD_setRow, len3]
        have a1 : (2 * w ≤ 2 * w + c ∧ 2 * w + c < 2 * w + w ∧ 2 * w + c < 3 * w) := by omega
        rw [if_pos a1]
        simp [setS_apply]
    · intro v hv
      have := keep9 v hv
      simp [keepVars] at hv
      rcases hv with rfl | rfl | rfl | rfl | rfl | rfl <;> simp [setS_apply, this]
  · -- past the last row: fill with NaN
    have hc : (BE.cmpI .lt (.var "i") (.bin .sub (.var "n_rows") (.lit 1))).eval
        (⟨ie9, fe, be, ia, setS fa "inrast" inr3, shp, ext, .run⟩ : State F) = false := by
      simp [BE.eval, IE.eval, cmpInt, IOp.eval, vi9, nr9]; omega
    unfold Post
    rw [ILVs.exec_ite_false _ _ _ _ _ (by simp [BE.ok, IE.ok]) hc]
    rw [rowLoop_exec "inrast" "j" (.var "n_cols") (.lit 2) .nan _ fuel 3 w 2 (fun _ => Fl.nan) rfl shInr
      (by simp [setS_apply, len3]) (by omega) hw ⟨by simp [IE.ok], by simp [IE.eval, nc9]⟩
      (by intro k l hk hl hout; simp [IE.ok, IE.eval, FE.ok, FE.eval])]
    refine ⟨rfl, rfl, rfl, ?_, ?_, ?_, ?_⟩
    · intro a ha; simp [setS_apply, ha]
    · simp [setS_apply, len3]
    · simp only [setS_apply, if_true]
      refine ring_of_rows _ (fa "inrast") (fa "raster") h w i pre ?_ ?_ ?_
      · intro c hc
        rw [getD_setRow, len3]
        have a1 : ¬ (2 * w ≤ c ∧ c < 2 * w + w ∧ c < 3 * w) := by omega
        rw [if_neg a1]; exact row0 c hc
      · intro c hc
        rw [getD_setRow, len3]
        have a1 : ¬ (2 * w ≤ w + c ∧ w + c < 2 * w + w ∧ w + c < 3 * w) := by omega
        rw [if_neg a1]; exact row1 c hc
      · intro hh; exact absurd hh hlast
    · intro v hv
      have := keep9 v hv
      simp [keepVars] at hv
      rcases hv with rfl | rfl | rfl | rfl | rfl | rfl <;> simp [setS_apply, this]
end XrsVerif.ILSw
