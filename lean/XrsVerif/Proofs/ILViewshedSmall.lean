import XrsVerif.Proofs.ILViewshedBase
/-
  Proofs/ILViewshedSmall.lean -- refinement of the small generated programs of viewshed's status tree
  (`Gen.IL.vsFindValueMin`, `vsTreeMinimum`, `vsSearch`), for every number type `[Fl F]`:

  * `vsFindValueMin_refines`  `_find_value_min_value` returns the hand model's `minv` of the addressed row;
  * `vsTreeMinimum_refines`   `_tree_minimum` returns the leftmost node (`minIdx`) of the subtree at `x`; that row holds
                              the first node of the model tree's in-order list (`minIdx_head`);
  * `vsSearch_refines`        `_search_for_node` (the `while ... and ...` loop with `_compare` inlined twice per
                              iteration) returns `findPtr`, the pointer version of the model's search;
                              `findPtr_contains`: it is NIL exactly when the model's `Tree.contains` is false.
  The loops are proved once for arbitrary variable names (`searchLoop N`, `minLoop x`): `_search_for_node` and
  `_tree_minimum` are inlined under other names in `_max_grad_in_status_struct`, `_tree_successor`, `_delete_from_tree`.
-/
set_option linter.unusedSectionVars false
set_option linter.unusedVariables false
set_option linter.unusedSimpArgs false
namespace XrsVerif.ILVs
open XrsVerif XrsVerif.IL XrsVerif.Viewshed
variable {F : Type} [Fl F]

/-! ### `_find_value_min_value` -/

theorem vsFindValueMin_refines (s : State F) (fuel n : Nat) (hv : VS s n) (hrun : s.ctl = .run)
    (hp : PtrOK n (s.ienv "node_id")) :
    let r := Gen.IL.vsFindValueMin.run s fuel
    r.ctl = .ret ∧ r.fenv "ret0" = (minv (nodeAt (s.fa "tree_vals") (rowOf n (s.ienv "node_id")))).v ∧
      r.fa = s.fa ∧ r.ia = s.ia := by
  have hb : Gen.IL.vsFindValueMin.body = .seq (.setF "ret0" (minvE "node_id")) .ret := rfl
  simp only [Prog.run, hb]
  rw [exec_seq, exec_setF _ _ _ _ (minvE_ok s n hv.shpV _ (inRange_ptr n _ hp hv.pos))]
  simp only [hrun, if_true, exec_ret, setS_same, minvE_eval s n hv.shpV, and_self]

/-! ### `_tree_minimum` -/

/-- index of the leftmost node of the tree `node l i _` -/
def minIdx : Sh → Nat → Nat
  | .nil, i => i
  | .node l j _, _ => minIdx l j

def Sh.lheight : Sh → Nat
  | .nil => 0
  | .node l _ _ => l.lheight + 1

/-- `while tree_nodes[x][TN_LEFT_ID] != NIL_ID: x = tree_nodes[x][TN_LEFT_ID]` -/
def minLoop (x : String) : St :=
  (.while (.cmpI .ne (.ld2 "tree_nodes" (.var x) (.lit 1)) (.lit (-1)))
        (.setI x (.ld2 "tree_nodes" (.var x) (.lit 1))))

theorem minLoop_spec (x : String) (n : Nat) : ∀ (l : Sh) (i : Nat) (r : Sh) (par : Int) (fuel : Nat) (s : State F),
    VS s n → s.ctl = .run → Linked (s.ia "tree_nodes") n par (.node l i r) → s.ienv x = i → l.lheight < fuel →
    exec fuel (minLoop x) s = { s with ienv := setS s.ienv x (minIdx l i) } := by
  intro l
  induction l with
  | nil =>
    intro i r par fuel s hv hrun hl hx hf
    obtain ⟨fuel, rfl⟩ : ∃ f, fuel = f + 1 := ⟨fuel - 1, by omega⟩
    have hin : inRange (s.ienv x) n = true := by rw [hx]; exact inRange_ptr n _ (by have := hl.1; omega) hv.pos
    have hok : (BE.cmpI .ne (.ld2 "tree_nodes" (.var x) (.lit 1)) (.lit (-1))).ok s = true := by
      simp only [BE.ok_cmpI, okN s n hv.shpN x 1 (by decide), hin, IE.ok_lit, Bool.and_self]
    have hev : (BE.cmpI .ne (.ld2 "tree_nodes" (.var x) (.lit 1)) (.lit (-1))).eval s = false := by
      simp only [BE.eval_cmpI, evalN s n hv.shpN x 1 (by decide), hx, rowOf_nat, IE.eval_lit, cmpInt]
      have := hl.2.1
      simp only [Int.toNat_one, Sh.ptr] at this ⊢
      simp [this]
    rw [minLoop, exec_while_exit _ _ _ _ hok hev]
    simp only [minIdx, ← hx, setS_self]
  | node ll j lr ih _ =>
    intro i r par fuel s hv hrun hl hx hf
    obtain ⟨fuel, rfl⟩ : ∃ f, fuel = f + 1 := ⟨fuel - 1, by omega⟩
    have hin : inRange (s.ienv x) n = true := by rw [hx]; exact inRange_ptr n _ (by have := hl.1; omega) hv.pos
    have hok : (BE.cmpI .ne (.ld2 "tree_nodes" (.var x) (.lit 1)) (.lit (-1))).ok s = true := by
      simp only [BE.ok_cmpI, okN s n hv.shpN x 1 (by decide), hin, IE.ok_lit, Bool.and_self]
    have hlnk : nAt (s.ia "tree_nodes") i 1 = (j : Int) := hl.2.1
    have hev : (BE.cmpI .ne (.ld2 "tree_nodes" (.var x) (.lit 1)) (.lit (-1))).eval s = true := by
      simp only [BE.eval_cmpI, evalN s n hv.shpN x 1 (by decide), hx, rowOf_nat, IE.eval_lit, cmpInt, Int.toNat_one, hlnk]
      simp
    have hbody : exec fuel (.setI x (.ld2 "tree_nodes" (.var x) (.lit 1))) s = { s with ienv := setS s.ienv x (j : Int) } := by
      rw [exec_setI _ _ _ _ (by rw [okN s n hv.shpN x 1 (by decide)]; exact hin)]
      simp only [evalN s n hv.shpN x 1 (by decide), hx, rowOf_nat, Int.toNat_one, hlnk]
    rw [minLoop, exec_while_step _ _ _ _ hok hev (by rw [hbody]; exact hrun), hbody]
    have := ih j lr (i : Int) fuel { s with ienv := setS s.ienv x (j : Int) } (hv.of_eq rfl rfl rfl) hrun hl.2.2.2.2.1
      (by simp) (by simp only [Sh.lheight] at hf; omega)
    rw [minLoop] at this
    rw [this]
    simp only [setS_setS_same, minIdx]

theorem vsTreeMinimum_body : Gen.IL.vsTreeMinimum.body = .seq (minLoop "x") (.seq (.setI "ret0" (.var "x")) .ret) := rfl

/-- `_tree_minimum(tree_nodes, x)` on the subtree `node l i r` at `x`: the leftmost node -/
theorem vsTreeMinimum_refines (s : State F) (fuel n : Nat) (hv : VS s n) (hrun : s.ctl = .run)
    (l : Sh) (i : Nat) (r : Sh) (par : Int) (hl : Linked (s.ia "tree_nodes") n par (.node l i r))
    (hx : s.ienv "x" = i) (hf : l.lheight < fuel) :
    let q := Gen.IL.vsTreeMinimum.run s fuel
    q.ctl = .ret ∧ q.ienv "ret0" = minIdx l i ∧ q.fa = s.fa ∧ q.ia = s.ia := by
  simp only [Prog.run, vsTreeMinimum_body]
  rw [exec_seq, minLoop_spec "x" n l i r par fuel s hv hrun hl hx hf]
  simp [hrun, exec, IE.ok, IE.eval]

/-- the row `_tree_minimum` returns holds the first node of the model tree's in-order list -/
theorem minIdx_head (vals : List F) (nodes : List Int) (l : Sh) (i : Nat) (r : Sh) :
    (absT vals nodes (.node l i r)).toList.head? = some (nodeAt vals (minIdx l i)) := by
  induction l generalizing i r with
  | nil => simp [absT, Tree.toList, minIdx]
  | node ll j lr ih _ =>
    have := ih j lr
    simp only [absT, Tree.toList, minIdx] at this ⊢
    rw [List.head?_append, this]; rfl

/-! ### `_search_for_node` -/

/-- the variables of one inlined copy of `_search_for_node` -/
structure SearchNames where
  cur : String
  key : String
  a1 : String
  b1 : String
  r1 : String
  a2 : String
  b2 : String
  r2 : String

def SearchNames.OK (N : SearchNames) : Prop :=
  N.cur ≠ N.r1 ∧ N.cur ≠ N.r2 ∧ N.key ≠ N.a1 ∧ N.key ≠ N.b1 ∧ N.key ≠ N.a2 ∧ N.key ≠ N.b2 ∧ N.a1 ≠ N.b1 ∧ N.a2 ≠ N.b2

def searchBody (N : SearchNames) : St :=
  (.seq (.ite (.cmpI .ne (.var N.cur) (.lit (-1))) .skip .brk)
  (.seq (.setF N.a1 (.var N.key))
  (.seq (.setF N.b1 (.ld2 "tree_vals" (.var N.cur) (.lit 0)))
  (.seq (cmpScope N.a1 N.b1 N.r1)
  (.seq (.ite (.cmpI .ne (.var N.r1) (.lit 0)) .skip .brk)
  (.seq (.setF N.a2 (.var N.key))
  (.seq (.setF N.b2 (.ld2 "tree_vals" (.var N.cur) (.lit 0)))
  (.seq (cmpScope N.a2 N.b2 N.r2)
  (.ite (.cmpI .eq (.var N.r2) (.lit (-1)))
    (.setI N.cur (.ld2 "tree_nodes" (.var N.cur) (.lit 1)))
    (.setI N.cur (.ld2 "tree_nodes" (.var N.cur) (.lit 2))))))))))))

def searchLoop (N : SearchNames) : St := .while .tt (searchBody N)

def SearchNames.iv (N : SearchNames) : List String := [N.cur, N.r1, N.r2]
def SearchNames.fv (N : SearchNames) : List String := [N.a1, N.b1, N.a2, N.b2]

theorem searchBody_nil (N : SearchNames) (fuel : Nat) (s : State F) (hrun : s.ctl = .run) (hc : s.ienv N.cur = -1) :
    exec fuel (searchBody N) s = { s with ctl := .brk } := by
  simp [searchBody, exec, BE.ok, BE.eval, IE.ok, IE.eval, cmpInt, hc]

theorem searchBody_node (N : SearchNames) (hN : N.OK) (n : Nat) (fuel : Nat) (s : State F) (hv : VS s n)
    (hrun : s.ctl = .run) (i : Nat) (hi : i + 1 < n) (hc : s.ienv N.cur = i) :
    let r := exec fuel (searchBody N) s
    let c := cmp3 (s.fenv N.key) (vAt (s.fa "tree_vals") i 0).v
    Frame N.iv N.fv [] s r ∧
    (c = 0 → r.ctl = .brk ∧ r.ienv N.cur = i) ∧
    (c = -1 → r.ctl = .run ∧ r.ienv N.cur = nAt (s.ia "tree_nodes") i 1) ∧
    (c = 1 → r.ctl = .run ∧ r.ienv N.cur = nAt (s.ia "tree_nodes") i 2) := by
  obtain ⟨n1, n2, n3, n4, n5, n6, n7, n8⟩ := hN
  have hin : inRange (i : Int) n = true := inRange_ptr n _ (by omega) hv.pos
  have hne : ¬ ((i : Int) = -1) := by omega
  have eV : ∀ (s' : State F), s'.shp = s.shp → s'.fa = s.fa → s'.ienv N.cur = i →
      FE.eval s' (.ld2 "tree_vals" (.var N.cur) (.lit 0)) = (vAt (s.fa "tree_vals") i 0).v := by
    intro s' h1 h2 h3
    rw [evalV s' n (by rw [h1]; exact hv.shpV) N.cur 0 (by decide), h2, h3]; simp
  have oV : ∀ (s' : State F), s'.shp = s.shp → s'.ienv N.cur = i →
      FE.ok s' (.ld2 "tree_vals" (.var N.cur) (.lit 0)) = true := by
    intro s' h1 h3
    rw [okV s' n (by rw [h1]; exact hv.shpV) N.cur 0 (by decide), h3]; exact hin
  have eN : ∀ (s' : State F) (c : Int) (hc : 0 ≤ c), s'.shp = s.shp → s'.ia = s.ia → s'.ienv N.cur = i →
      IE.eval s' (.ld2 "tree_nodes" (.var N.cur) (.lit c)) = nAt (s.ia "tree_nodes") i c.toNat := by
    intro s' c hc h1 h2 h3
    rw [evalN s' n (by rw [h1]; exact hv.shpN) N.cur c hc, h2, h3]; simp
  have oN : ∀ (s' : State F) (c : Int) (hc : 0 ≤ c ∧ c < 4), s'.shp = s.shp → s'.ienv N.cur = i →
      IE.ok s' (.ld2 "tree_nodes" (.var N.cur) (.lit c)) = true := by
    intro s' c hc h1 h3
    rw [okN s' n (by rw [h1]; exact hv.shpN) N.cur c hc, h3]; exact hin
  intro r c
  have hfr : ∀ (r' : State F), r'.ia = s.ia → r'.fa = s.fa → r'.shp = s.shp → r'.ext = s.ext → r'.benv = s.benv →
      (∀ v, v ∉ N.iv → r'.ienv v = s.ienv v) → (∀ v, v ∉ N.fv → r'.fenv v = s.fenv v) → Frame N.iv N.fv [] s r' :=
    fun r' a b c d e f g => ⟨a, b, c, d, f, g, fun _ _ => by rw [e]⟩
  by_cases h1 : Fl.lt (s.fenv N.key) (vAt (s.fa "tree_vals") i 0).v = true
  · have hcv : c = -1 := by simp [c, cmp3, h1]
    simp only [hcv]
    simp [r, searchBody, exec, cmpScope_spec, BE.ok, BE.eval, IE.ok_var, IE.ok_lit, IE.eval_var, IE.eval_lit, cmpInt, hc, hne,
      FE.ok_var, FE.eval_var, hrun, eV, oV, eN, oN, setS, n1, n2, n3, n4, n5, n6, n7, n8, Ne.symm n1, Ne.symm n2,
      Ne.symm n3, Ne.symm n4, Ne.symm n5, Ne.symm n6, Ne.symm n7, Ne.symm n8, cmp3, h1]
    apply hfr <;> try rfl
    all_goals intro v hv
    all_goals simp only [SearchNames.iv, SearchNames.fv, List.mem_cons, List.not_mem_nil, or_false, not_or] at hv
    all_goals simp [setS, hv]
  · by_cases h2 : Fl.lt (vAt (s.fa "tree_vals") i 0).v (s.fenv N.key) = true
    · have hcv : c = 1 := by simp [c, cmp3, h1, h2]
      simp only [hcv]
      simp [r, searchBody, exec, cmpScope_spec, BE.ok, BE.eval, IE.ok_var, IE.ok_lit, IE.eval_var, IE.eval_lit, cmpInt, hc, hne,
        FE.ok_var, FE.eval_var, hrun, eV, oV, eN, oN, setS, n1, n2, n3, n4, n5, n6, n7, n8, Ne.symm n1, Ne.symm n2,
        Ne.symm n3, Ne.symm n4, Ne.symm n5, Ne.symm n6, Ne.symm n7, Ne.symm n8, cmp3, h1, h2]
      apply hfr <;> try rfl
      all_goals intro v hv
      all_goals simp only [SearchNames.iv, SearchNames.fv, List.mem_cons, List.not_mem_nil, or_false, not_or] at hv
      all_goals simp [setS, hv]
    · have hcv : c = 0 := by simp [c, cmp3, h1, h2]
      simp only [hcv]
      simp [r, searchBody, exec, cmpScope_spec, BE.ok, BE.eval, IE.ok_var, IE.ok_lit, IE.eval_var, IE.eval_lit, cmpInt, hc, hne,
        FE.ok_var, FE.eval_var, hrun, eV, oV, eN, oN, setS, n1, n2, n3, n4, n5, n6, n7, n8, Ne.symm n1, Ne.symm n2,
        Ne.symm n3, Ne.symm n4, Ne.symm n5, Ne.symm n6, Ne.symm n7, Ne.symm n8, cmp3, h1, h2]
      apply hfr <;> try rfl
      all_goals intro v hv
      all_goals simp only [SearchNames.iv, SearchNames.fv, List.mem_cons, List.not_mem_nil, or_false, not_or] at hv
      all_goals simp [setS, hv]

/-- `_search_for_node` on a shape: the pointer to the node whose key is neither below nor above `K`, else NIL -/
def findPtr (vals : List F) (K : Fv F) : Sh → Int
  | .nil => -1
  | .node l i r =>
    if K < vAt vals i 0 then findPtr vals K l else if vAt vals i 0 < K then findPtr vals K r else (i : Int)

theorem searchLoop_spec (N : SearchNames) (hN : N.OK) (n : Nat) : ∀ (sh : Sh) (par : Int) (fuel : Nat) (s : State F),
    VS s n → s.ctl = .run → Linked (s.ia "tree_nodes") n par sh → s.ienv N.cur = sh.ptr → sh.height < fuel →
    let r := exec fuel (searchLoop N) s
    r.ctl = .run ∧ Frame N.iv N.fv [] s r ∧ r.ienv N.cur = findPtr (s.fa "tree_vals") ⟨s.fenv N.key⟩ sh := by
  intro sh
  induction sh with
  | nil =>
    intro par fuel s hv hrun hl hc hf
    obtain ⟨fuel, rfl⟩ : ∃ f, fuel = f + 1 := ⟨fuel - 1, by omega⟩
    have hb := searchBody_nil N fuel s hrun hc
    intro r
    have hr : r = s := by
      simp only [r, searchLoop]
      rw [exec_while_brk _ _ _ _ (BE.ok_tt s) (BE.eval_tt s) (by rw [hb]), hb]
      cases s; simp_all
    rw [hr]
    exact ⟨hrun, Frame.refl _ _ _ _, by simpa [findPtr, Sh.ptr] using hc⟩
  | node l i rr ihl ihr =>
    intro par fuel s hv hrun hl hc hf
    obtain ⟨fuel, rfl⟩ : ∃ f, fuel = f + 1 := ⟨fuel - 1, by omega⟩
    obtain ⟨hi, hL, hR, hP, hlL, hlR⟩ := hl
    simp only [Sh.ptr] at hc
    have hb := searchBody_node N hN n fuel s hv hrun i hi hc
    obtain ⟨hfr, h0, hm, hp⟩ := hb
    have hkey : (exec fuel (searchBody N) s).fenv N.key = s.fenv N.key := by
      apply hfr.fenv
      obtain ⟨n1, n2, n3, n4, n5, n6, n7, n8⟩ := hN
      simp [SearchNames.fv, n3, n4, n5, n6]
    simp only [Sh.height] at hf
    intro r
    simp only [findPtr, fv_lt]
    by_cases h1 : Fl.lt (s.fenv N.key) (vAt (s.fa "tree_vals") i 0).v = true
    · have hcv : cmp3 (s.fenv N.key) (vAt (s.fa "tree_vals") i 0).v = -1 := by simp [cmp3, h1]
      obtain ⟨hc1, hc2⟩ := hm hcv
      have := ihl (i : Int) fuel (exec fuel (searchBody N) s) (hv.of_eq hfr.shp hfr.fa hfr.ia) hc1
        (by rw [hfr.ia]; exact hlL) (by rw [hc2, hL]) (by omega)
      have hr : r = exec fuel (searchLoop N) (exec fuel (searchBody N) s) := by
        simp only [r, searchLoop]
        rw [exec_while_step _ _ _ _ (BE.ok_tt s) (BE.eval_tt s) hc1]
      rw [hr]
      simp only [h1, if_true]
      rw [hkey, hfr.fa] at this
      exact ⟨this.1, hfr.trans this.2.1, this.2.2⟩
    · by_cases h2 : Fl.lt (vAt (s.fa "tree_vals") i 0).v (s.fenv N.key) = true
      · have hcv : cmp3 (s.fenv N.key) (vAt (s.fa "tree_vals") i 0).v = 1 := by simp [cmp3, h1, h2]
        obtain ⟨hc1, hc2⟩ := hp hcv
        have := ihr (i : Int) fuel (exec fuel (searchBody N) s) (hv.of_eq hfr.shp hfr.fa hfr.ia) hc1
          (by rw [hfr.ia]; exact hlR) (by rw [hc2, hR]) (by omega)
        have hr : r = exec fuel (searchLoop N) (exec fuel (searchBody N) s) := by
          simp only [r, searchLoop]
          rw [exec_while_step _ _ _ _ (BE.ok_tt s) (BE.eval_tt s) hc1]
        rw [hr]
        simp only [h1, h2, if_true, if_false]
        rw [hkey, hfr.fa] at this
        exact ⟨this.1, hfr.trans this.2.1, this.2.2⟩
      · have hcv : cmp3 (s.fenv N.key) (vAt (s.fa "tree_vals") i 0).v = 0 := by simp [cmp3, h1, h2]
        obtain ⟨hc1, hc2⟩ := h0 hcv
        have hr : r = { exec fuel (searchBody N) s with ctl := .run } := by
          simp only [r, searchLoop]
          rw [exec_while_brk _ _ _ _ (BE.ok_tt s) (BE.eval_tt s) hc1]
        rw [hr]
        simp only [h1, h2, if_false]
        exact ⟨trivial, ⟨hfr.ia, hfr.fa, hfr.shp, hfr.ext, hfr.ienv, hfr.fenv, hfr.benv⟩, hc2⟩


/-- the names in `_search_for_node` itself -/
def searchNames0 : SearchNames :=
  ⟨"cur_node", "key", "_compare1$a", "_compare1$b", "_compare1$ret0", "_compare2$a", "_compare2$b", "_compare2$ret0"⟩

theorem vsSearch_body : Gen.IL.vsSearch.body =
    .seq (.setI "cur_node" (.var "root")) (.seq (searchLoop searchNames0) (.seq (.setI "ret0" (.var "cur_node")) .ret)) := rfl

/-- `_search_for_node(tree_vals, tree_nodes, root, key)` on a well-linked tree of shape `sh` at `root` returns
    `findPtr` (fuel: one unit per level and one for the last test) -/
theorem vsSearch_refines (s : State F) (fuel n : Nat) (hv : VS s n) (hrun : s.ctl = .run)
    (sh : Sh) (par : Int) (hl : Linked (s.ia "tree_nodes") n par sh) (hroot : s.ienv "root" = sh.ptr)
    (hf : sh.height < fuel) :
    let q := Gen.IL.vsSearch.run s fuel
    q.ctl = .ret ∧ q.ienv "ret0" = findPtr (s.fa "tree_vals") ⟨s.fenv "key"⟩ sh ∧ q.fa = s.fa ∧ q.ia = s.ia := by
  simp only [Prog.run, vsSearch_body]
  rw [exec_seq, exec_setI _ _ _ _ (IE.ok_var _ _)]
  simp only [hrun, if_true, IE.eval_var]
  have h := searchLoop_spec searchNames0 (by simp [SearchNames.OK, searchNames0]) n sh par fuel
    { s with ienv := setS s.ienv "cur_node" (s.ienv "root") } (hv.of_eq rfl rfl rfl) hrun hl
    (by simp [searchNames0, hroot]) hf
  have e1 : searchNames0.cur = "cur_node" := rfl
  have e2 : searchNames0.key = "key" := rfl
  simp only [e1, e2, hrun] at h
  obtain ⟨h1, h2, h3⟩ := h
  rw [exec_seq]
  simp only [h1, if_true]
  simp [exec, IE.ok, IE.eval, h1, h2.fa, h2.ia]
  exact h3

/-- the pointer search finds a node exactly when the model's `Tree.contains` says so -/
theorem findPtr_contains (vals : List F) (nodes : List Int) (K : Fv F) (sh : Sh) :
    (absT vals nodes sh).contains K = decide (findPtr vals K sh ≠ -1) := by
  induction sh with
  | nil => simp [absT, Tree.contains, findPtr]
  | node l i r ihl ihr =>
    simp only [absT, Tree.contains, findPtr, nodeAt]
    split
    · exact ihl
    · split
      · exact ihr
      · simp

/-- the node found is a node of the shape whose key is neither below nor above `K` -/
theorem findPtr_mem (vals : List F) (K : Fv F) (sh : Sh) (i : Nat) (h : findPtr vals K sh = (i : Int)) :
    i ∈ sh.idxs ∧ ¬ K < vAt vals i 0 ∧ ¬ vAt vals i 0 < K := by
  induction sh with
  | nil => simp [findPtr] at h
  | node l j r ihl ihr =>
    simp only [findPtr] at h
    simp only [Sh.idxs, List.mem_append, List.mem_cons]
    split at h
    · have := ihl h; exact ⟨Or.inl this.1, this.2⟩
    · split at h
      · have := ihr h; exact ⟨Or.inr (Or.inr this.1), this.2⟩
      · rename_i h1 h2
        have : j = i := by omega
        subst this
        exact ⟨Or.inr (Or.inl rfl), h1, h2⟩

end XrsVerif.ILVs
