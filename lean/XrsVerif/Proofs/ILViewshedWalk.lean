import XrsVerif.Proofs.ILViewshedZip
/-
  Proofs/ILViewshedWalk.lean -- the two pointer loops by which the status-tree routines move to the in-order
  predecessor (`_find_max_value_within_key`, phase 2), proved once for arbitrary variable names:
    `maxLoop x`           go right as long as possible          = `maxIdx`   (mirror of `minLoop`)
    `climbLoop cur last`  climb while coming from a left child  = `climbPtr` along the context
-/
set_option linter.unusedSectionVars false
set_option linter.unusedVariables false
set_option linter.unusedSimpArgs false
namespace XrsVerif.ILVs
open XrsVerif XrsVerif.IL XrsVerif.Viewshed
variable {F : Type} [Fl F]

/-! ### phase 2: the two pointer loops that move to the in-order predecessor -/

/-- `while tree_nodes[x][TN_RIGHT_ID] != NIL_ID: x = tree_nodes[x][TN_RIGHT_ID]` -/
def maxLoop (x : String) : St :=
  (.while (.cmpI .ne (.ld2 "tree_nodes" (.var x) (.lit 2)) (.lit (-1)))
        (.setI x (.ld2 "tree_nodes" (.var x) (.lit 2))))

theorem maxLoop_spec (x : String) (n : Nat) : ∀ (r : Sh) (i : Nat) (l : Sh) (par : Int) (fuel : Nat) (s : State F),
    VS s n → s.ctl = .run → Linked (s.ia "tree_nodes") n par (.node l i r) → s.ienv x = i → r.rheight < fuel →
    exec fuel (maxLoop x) s = { s with ienv := setS s.ienv x (maxIdx r i) } := by
  intro r
  induction r with
  | nil =>
    intro i l par fuel s hv hrun hl hx hf
    obtain ⟨fuel, rfl⟩ : ∃ f, fuel = f + 1 := ⟨fuel - 1, by omega⟩
    have hin : inRange (s.ienv x) n = true := by rw [hx]; exact inRange_ptr n _ (by have := hl.1; omega) hv.pos
    have hlnk : nAt (s.ia "tree_nodes") i 2 = -1 := hl.2.2.1
    rw [maxLoop, exec_while_exit]
    · simp only [maxIdx, ← hx, setS_self]
    · simp [BE.ok, okN s n hv.shpN, hin, IE.ok_lit]
    · simp [BE.eval, evalN s n hv.shpN, hx, hlnk, cmpInt, IE.eval_lit]
  | node rl j rr _ ih =>
    intro i l par fuel s hv hrun hl hx hf
    obtain ⟨fuel, rfl⟩ : ∃ f, fuel = f + 1 := ⟨fuel - 1, by omega⟩
    have hin : inRange (s.ienv x) n = true := by rw [hx]; exact inRange_ptr n _ (by have := hl.1; omega) hv.pos
    have hlnk : nAt (s.ia "tree_nodes") i 2 = (j : Int) := hl.2.2.1
    have hbody : exec fuel (.setI x (.ld2 "tree_nodes" (.var x) (.lit 2))) s = { s with ienv := setS s.ienv x (j : Int) } := by
      rw [exec_setI _ _ _ _ (by rw [okN s n hv.shpN x 2 (by decide)]; exact hin)]
      simp [evalN s n hv.shpN, hx, hlnk]
    rw [maxLoop, exec_while_step _ _ _ _ _ _ (by rw [hbody]; exact hrun), hbody]
    · have := ih j rl (i : Int) fuel { s with ienv := setS s.ienv x (j : Int) } (hv.of_eq rfl rfl rfl) hrun hl.2.2.2.2.2
        (by simp) (by simp only [Sh.rheight] at hf; omega)
      rw [maxLoop] at this
      rw [this]
      simp only [setS_setS_same, maxIdx]
    · simp [BE.ok, okN s n hv.shpN, hin, IE.ok_lit]
    · simp [BE.eval, evalN s n hv.shpN, hx, hlnk, cmpInt, IE.eval_lit]

/-- `while cur != NIL_ID and last == tree_nodes[cur][TN_LEFT_ID]: last = cur; cur = tree_nodes[cur][TN_PARENT_ID]` -/
def climbLoop (cur last : String) : St :=
  (.while (.and (.cmpI .ne (.var cur) (.lit (-1))) (.cmpI .eq (.var last) (.ld2 "tree_nodes" (.var cur) (.lit 1))))
    (.seq (.setI last (.var cur))
    (.setI cur (.ld2 "tree_nodes" (.var cur) (.lit 3)))))

theorem climbLoop_spec (cur last : String) (hne : cur ≠ last) (n : Nat) : ∀ (ctx : Ctx) (c : Nat) (fuel : Nat) (s : State F),
    VS s n → s.ctl = .run → CtxLinked (s.ia "tree_nodes") n (c : Int) ctx → s.ienv last = c → s.ienv cur = ctxPar ctx →
    ctx.length < fuel →
    let r := exec fuel (climbLoop cur last) s
    r.ctl = .run ∧ Frame [cur, last] [] [] s r ∧ r.ienv cur = climbPtr ctx := by
  intro ctx
  induction ctx with
  | nil =>
    intro c fuel s hv hrun hc hlast hcur hf
    obtain ⟨fuel, rfl⟩ : ∃ f, fuel = f + 1 := ⟨fuel - 1, by omega⟩
    intro r
    have hr : r = s := by
      simp only [r, climbLoop]
      rw [exec_while_exit]
      · simp [BE.ok, BE.eval, IE.ok_var, IE.ok_lit, IE.eval_var, IE.eval_lit, hcur, ctxPar, cmpInt]
      · simp [BE.eval, IE.eval_var, IE.eval_lit, hcur, ctxPar, cmpInt]
    rw [hr]
    exact ⟨hrun, Frame.refl _ _ _ _, by simpa [climbPtr, ctxPar] using hcur⟩
  | cons fr rest ih =>
    intro c fuel s hv hrun hc hlast hcur hf
    obtain ⟨fuel, rfl⟩ : ∃ f, fuel = f + 1 := ⟨fuel - 1, by omega⟩
    intro r
    cases fr with
    | L p pr =>
      obtain ⟨hp, hL, hR, hd, hP, hlr, hrest⟩ := hc
      simp only [ctxPar] at hcur
      have hin : inRange (p : Int) n = true := inRange_ptr n _ (by omega) hv.pos
      have hb : exec fuel (.seq (.setI last (.var cur)) (.setI cur (.ld2 "tree_nodes" (.var cur) (.lit 3)))) s =
          { s with ienv := setS (setS s.ienv last (p : Int)) cur (ctxPar rest) } := by
        simp [exec, IE.ok_var, IE.eval_var, okN _ n, evalN _ n, hv.shpN, hcur, setS, hne, hin, hP, hrun]
      have hr : r = exec fuel (climbLoop cur last) { s with ienv := setS (setS s.ienv last (p : Int)) cur (ctxPar rest) } := by
        simp only [r, climbLoop]
        rw [exec_while_step _ _ _ _ _ _ (by rw [hb]; exact hrun), hb]
        · simp [BE.ok, BE.eval, IE.ok_var, IE.ok_lit, IE.eval_var, IE.eval_lit, okN s n hv.shpN, hcur, hin]
        · simp [BE.eval, IE.eval_var, IE.eval_lit, evalN s n hv.shpN, hcur, hlast, hL, cmpInt]
      have := ih p fuel { s with ienv := setS (setS s.ienv last (p : Int)) cur (ctxPar rest) } (hv.of_eq rfl rfl rfl) hrun
        hrest (by simp [setS, hne.symm]) (by simp [setS]) (by simp only [List.length_cons] at hf; omega)
      rw [hr]
      refine ⟨this.1, Frame.trans ?_ this.2.1, this.2.2⟩
      refine ⟨rfl, rfl, rfl, rfl, ?_, fun _ _ => rfl, fun _ _ => rfl⟩
      intro v hv'
      simp only [List.mem_cons, List.not_mem_nil, or_false, not_or] at hv'
      simp [setS, hv']
    | R pl p =>
      obtain ⟨hp, hL, hR, hd, hP, hll, hrest⟩ := hc
      simp only [ctxPar] at hcur
      have hin : inRange (p : Int) n = true := inRange_ptr n _ (by omega) hv.pos
      have hr : r = s := by
        simp only [r, climbLoop]
        rw [exec_while_exit]
        · simp [BE.ok, BE.eval, IE.ok_var, IE.ok_lit, IE.eval_var, IE.eval_lit, okN s n hv.shpN, hcur, hin]
        · have : ¬ ((c : Int) = pl.ptr) := fun e => hd (by omega) e.symm
          simp [BE.eval, IE.eval_var, IE.eval_lit, evalN s n hv.shpN, hcur, hlast, hL, cmpInt, this]
      rw [hr]
      exact ⟨hrun, Frame.refl _ _ _ _, by simpa [climbPtr] using hcur⟩

end XrsVerif.ILVs
