import XrsVerif.Proofs.PolygonizeLosslessArea
/-
  C15, losslessness: the rings `_scan` returns are well formed (`ringWellFormed`): closed, on pixel corners,
  every edge axis-parallel of non-zero length, at least four vertices.

  `chain_orbit`     consecutive recorded vertices differ in exactly one coordinate (a vertex is recorded only
                    after at least one unit step in the previous heading);
  `four_dirs`       a closed cycle contains states of all four headings: the headings' components sum to zero
                    (stepping permutes the list and moves every corner by its heading), an E-headed state is
                    never followed by a W-headed one, and a run of one heading cannot go on for ever inside
                    the raster;
  `ringWellFormed_cyc`.
-/
set_option linter.unusedVariables false
set_option linter.unusedSimpArgs false
namespace XrsVerif.Polygonize

/-- consecutive points of `p :: l` differ in exactly one coordinate -/
def chainOK : Int × Int → List (Int × Int) → Prop
  | _, [] => True
  | p, q :: l => ((p.1 == q.1) != (p.2 == q.2)) = true ∧ chainOK q l

theorem edges_all_iff (p : Int × Int) (l : List (Int × Int)) :
    (edgesOf (p :: l)).all (fun e => (e.1.1 == e.2.1) != (e.1.2 == e.2.2)) = true ↔ chainOK p l := by
  induction l generalizing p with
  | nil => simp [edgesOf, chainOK]
  | cons q l ih =>
    have := ih q
    simp only [edgesOf, List.tail_cons, List.zip_cons_cons, List.all_cons, Bool.and_eq_true, chainOK] at this ⊢
    rw [this]

/-- `B` lies strictly ahead of `A` in direction `d` -/
def BehS (d : Dir) (A B : Int × Int) : Prop :=
  match d with
  | .E => A.2 = B.2 ∧ A.1 < B.1
  | .W => A.2 = B.2 ∧ B.1 < A.1
  | .N => A.1 = B.1 ∧ A.2 < B.2
  | .S => A.1 = B.1 ∧ B.2 < A.2

theorem behS_pair {d : Dir} {A B : Int × Int} (h : BehS d A B) : ((A.1 == B.1) != (A.2 == B.2)) = true := by
  obtain ⟨a1, a2⟩ := A
  obtain ⟨b1, b2⟩ := B
  cases d <;> simp only [BehS] at h <;> obtain ⟨h1, h2⟩ := h <;> subst h1 <;> simp <;> omega

theorem behS_next (d : Dir) (A B : Int × Int) (h : BehS d A B) : BehS d A (B.1 + d.dx, B.2 + d.dy) := by
  cases d <;> simp only [BehS, Dir.dx, Dir.dy] at h ⊢ <;> omega

theorem behS_self (d : Dir) (B : Int × Int) : BehS d B (B.1 + d.dx, B.2 + d.dy) := by
  cases d <;> simp [BehS, Dir.dx, Dir.dy]

theorem chain_orbit (R : Int → Int → Bool) : ∀ (k : Nat) (s : FSt) (d' : Dir) (A : Int × Int),
    BehS d' A s.corner →
    chainOK A (fwdPts (some d') (orbitL (step R) k s) ++ [(iterS (step R) k s).corner]) := by
  intro k
  induction k with
  | zero => intro s d' A h; simp only [orbitL, fwdPts, iterS, List.nil_append, chainOK]; exact ⟨behS_pair h, trivial⟩
  | succ k ih =>
    intro s d' A hb
    simp only [orbitL, fwdPts, iterS]
    have hc := corner_step R s
    split
    · rw [List.cons_append, chainOK]
      exact ⟨behS_pair hb, ih (step R s) s.d s.corner (by rw [hc]; exact behS_self _ _)⟩
    · rename_i heq
      have hd : d' = s.d := by
        have : some d' = some s.d := by simpa using heq
        exact Option.some.inj this
      subst hd
      exact ih (step R s) s.d A (by rw [hc]; exact behS_next _ _ _ hb)

theorem mem_fwdPts {prev : Option Dir} {l : List FSt} {p : Int × Int} (h : p ∈ fwdPts prev l) :
    ∃ s ∈ l, p = s.corner := by
  induction l generalizing prev with
  | nil => simp [fwdPts] at h
  | cons s l ih =>
    simp only [fwdPts] at h
    split at h
    · rcases List.mem_cons.mp h with e | e
      · exact ⟨s, List.mem_cons_self, e⟩
      · obtain ⟨t, ht, e'⟩ := ih e; exact ⟨t, List.mem_cons_of_mem _ ht, e'⟩
    · obtain ⟨t, ht, e'⟩ := ih h; exact ⟨t, List.mem_cons_of_mem _ ht, e'⟩

/-- the ring of a cycle, spelled out -/
theorem cycRing_eq (R : Int → Int → Bool) (k : Nat) (start : FSt) :
    cycRing (orbitL (step R) (k + 1) start) =
      start.corner :: (fwdPts (some start.d) (orbitL (step R) k (step R start)) ++ [start.corner]) := by
  simp only [cycRing, recPts_eq, List.append_nil, List.reverse_reverse]
  simp only [orbitL, fwdPts, ne_eq, reduceCtorEq, not_false_eq_true, if_true, List.cons_append,
    List.take_succ_cons, List.take_zero]

/-! ### all four headings occur -/

/-- number of recorded vertices ≥ number of distinct headings: the headings of the recorded vertices -/
def runDirs : Option Dir → List FSt → List Dir
  | _, [] => []
  | prev, s :: l => if prev ≠ some s.d then s.d :: runDirs (some s.d) l else runDirs (some s.d) l

theorem runDirs_length (prev : Option Dir) (l : List FSt) : (runDirs prev l).length = (fwdPts prev l).length := by
  induction l generalizing prev with
  | nil => rfl
  | cons s l ih => simp only [runDirs, fwdPts]; split <;> simp [ih]

theorem mem_runDirs {prev : Option Dir} {l : List FSt} {s : FSt} (hs : s ∈ l) :
    s.d ∈ runDirs prev l ∨ prev = some s.d := by
  induction l generalizing prev with
  | nil => cases hs
  | cons t l ih =>
    simp only [runDirs]
    rcases List.mem_cons.mp hs with e | e
    · subst e
      split
      · left; exact List.mem_cons_self
      · rename_i h; right; simpa using h
    · rcases ih (prev := some t.d) e with h | h
      · left; split
        · exact List.mem_cons_of_mem _ h
        · exact h
      · -- the previous heading equals s.d: it was recorded at t or before
        have htd : t.d = s.d := Option.some.inj h
        split
        · left; rw [← htd]; exact List.mem_cons_self
        · rename_i h'; right
          have : prev = some t.d := by simpa using h'
          rw [this, htd]

theorem four_le_length {l : List Dir} (hE : Dir.E ∈ l) (hN : Dir.N ∈ l) (hW : Dir.W ∈ l) (hS : Dir.S ∈ l) :
    4 ≤ l.length := by
  have key : ∀ l : List Dir, l.count .E + l.count .N + l.count .W + l.count .S ≤ l.length := by
    intro l
    induction l with
    | nil => simp
    | cons d l ih =>
      simp only [List.count_cons, List.length_cons]
      cases d <;> simp <;> omega
  have := key l
  have := List.count_pos_iff.mpr hE
  have := List.count_pos_iff.mpr hN
  have := List.count_pos_iff.mpr hW
  have := List.count_pos_iff.mpr hS
  omega

theorem sum_dy {R : Int → Int → Bool} {L : List FSt} (hL : Closed R L) : (L.map (fun s => s.d.dy)).sum = 0 := by
  have h1 := perm_sum ((hL.perm.map (fun s => s.corner.2)))
  rw [List.map_map] at h1
  have h2 : (L.map ((fun s => s.corner.2) ∘ step R)) = L.map (fun s => s.corner.2 + s.d.dy) := by
    apply List.map_congr_left; intro s _; simp only [Function.comp, corner_step]
  rw [h2, sum_map_add] at h1
  omega

theorem sum_dx_count (L : List FSt) : (L.map (fun s => s.d.dx)).sum =
    ((L.countP (fun s => s.d == .E) : Nat) : Int) - ((L.countP (fun s => s.d == .W) : Nat) : Int) := by
  induction L with
  | nil => simp
  | cons s L ih =>
    simp only [List.map_cons, List.sum_cons, List.countP_cons, ih]
    obtain ⟨x, y, d⟩ := s
    cases d <;> simp [Dir.dx] <;> omega

theorem sum_dy_count (L : List FSt) : (L.map (fun s => s.d.dy)).sum =
    ((L.countP (fun s => s.d == .N) : Nat) : Int) - ((L.countP (fun s => s.d == .S) : Nat) : Int) := by
  induction L with
  | nil => simp
  | cons s L ih =>
    simp only [List.map_cons, List.sum_cons, List.countP_cons, ih]
    obtain ⟨x, y, d⟩ := s
    cases d <;> simp [Dir.dy] <;> omega

theorem has_iff_count (L : List FSt) (d : Dir) : (∃ s ∈ L, s.d = d) ↔ 0 < L.countP (fun s => s.d == d) := by
  rw [List.countP_pos_iff]
  simp only [beq_iff_eq]

/-- a run of E-headed states cannot go on for ever: a closed list with an E-headed state has a vertical one -/
theorem no_E_run {R : Int → Int → Bool} {nx ny : Nat} {L : List FSt} (hL : Closed R L) (hR : InRaster R nx ny)
    {s : FSt} (hs : s ∈ L) (hd : s.d = .E) (hnoN : ¬ ∃ t ∈ L, t.d = .N) (hnoS : ¬ ∃ t ∈ L, t.d = .S) : False := by
  have key : ∀ k, iterS (step R) k s ∈ L ∧ (iterS (step R) k s).d = .E ∧ (iterS (step R) k s).x = s.x + k := by
    intro k
    induction k with
    | zero => exact ⟨hs, hd, by simp [iterS]⟩
    | succ k ih =>
      obtain ⟨h1, h2, h3⟩ := ih
      rw [iterS_succ']
      generalize iterS (step R) k s = t at h1 h2 h3
      have hmem := hL.mem_step h1
      obtain ⟨tx, ty, td⟩ := t
      simp only at h2 h3; subst h2
      rcases step_cases R ⟨tx, ty, .E⟩ with ⟨_, e⟩ | ⟨_, _, e⟩ | ⟨_, _, e⟩
      · exfalso; apply hnoS; exact ⟨_, hmem, by rw [e]; rfl⟩
      · rw [e] at hmem ⊢
        refine ⟨hmem, rfl, ?_⟩
        simp only [FSt.ahead, Dir.dx]; omega
      · exfalso; apply hnoN; exact ⟨_, hmem, by rw [e]; rfl⟩
  obtain ⟨h1, _, h3⟩ := key nx
  have b0 := hL.bounds hR hs
  have b1 := hL.bounds hR h1
  omega

theorem no_N_run {R : Int → Int → Bool} {nx ny : Nat} {L : List FSt} (hL : Closed R L) (hR : InRaster R nx ny)
    {s : FSt} (hs : s ∈ L) (hd : s.d = .N) (hnoE : ¬ ∃ t ∈ L, t.d = .E) (hnoW : ¬ ∃ t ∈ L, t.d = .W) : False := by
  have key : ∀ k, iterS (step R) k s ∈ L ∧ (iterS (step R) k s).d = .N ∧ (iterS (step R) k s).y = s.y + k := by
    intro k
    induction k with
    | zero => exact ⟨hs, hd, by simp [iterS]⟩
    | succ k ih =>
      obtain ⟨h1, h2, h3⟩ := ih
      rw [iterS_succ']
      generalize iterS (step R) k s = t at h1 h2 h3
      have hmem := hL.mem_step h1
      obtain ⟨tx, ty, td⟩ := t
      simp only at h2 h3; subst h2
      rcases step_cases R ⟨tx, ty, .N⟩ with ⟨_, e⟩ | ⟨_, _, e⟩ | ⟨_, _, e⟩
      · exfalso; apply hnoE; exact ⟨_, hmem, by rw [e]; rfl⟩
      · rw [e] at hmem ⊢
        refine ⟨hmem, rfl, ?_⟩
        simp only [FSt.ahead, Dir.dy]; omega
      · exfalso; apply hnoW; exact ⟨_, hmem, by rw [e]; rfl⟩
  obtain ⟨h1, _, h3⟩ := key ny
  have b0 := hL.bounds hR hs
  have b1 := hL.bounds hR h1
  omega

/-- a non-empty closed list of boundary edges inside the raster has states of all four headings -/
theorem four_dirs {R : Int → Int → Bool} {nx ny : Nat} {L : List FSt} (hL : Closed R L) (hR : InRaster R nx ny)
    {s0 : FSt} (hs0 : s0 ∈ L) : ∀ d : Dir, ∃ s ∈ L, s.d = d := by
  have hx := sum_dx hL
  have hy := sum_dy hL
  rw [sum_dx_count] at hx
  rw [sum_dy_count] at hy
  have hEW : (∃ s ∈ L, s.d = .E) ↔ (∃ s ∈ L, s.d = .W) := by
    rw [has_iff_count, has_iff_count]; omega
  have hNS : (∃ s ∈ L, s.d = .N) ↔ (∃ s ∈ L, s.d = .S) := by
    rw [has_iff_count, has_iff_count]; omega
  have hE : ∃ s ∈ L, s.d = .E := by
    by_cases h : ∃ s ∈ L, s.d = .E
    · exact h
    · exfalso
      have hW : ¬ ∃ s ∈ L, s.d = .W := fun hh => h (hEW.mpr hh)
      have hN : ∃ s ∈ L, s.d = .N := by
        obtain ⟨x, y, d⟩ := s0
        cases d
        · exact absurd ⟨_, hs0, rfl⟩ h
        · exact ⟨_, hs0, rfl⟩
        · exact absurd ⟨_, hs0, rfl⟩ hW
        · exact hNS.mpr ⟨_, hs0, rfl⟩
      obtain ⟨s, hs, hd⟩ := hN
      exact no_N_run hL hR hs hd h hW
  have hN : ∃ s ∈ L, s.d = .N := by
    by_cases h : ∃ s ∈ L, s.d = .N
    · exact h
    · exfalso
      obtain ⟨s, hs, hd⟩ := hE
      exact no_E_run hL hR hs hd h (fun hh => h (hNS.mpr hh))
  intro d
  cases d
  · exact hE
  · exact hN
  · exact hEW.mp hE
  · exact hNS.mp hN

/-- **the ring of a followed cycle is well formed** -/
theorem ringWellFormed_cyc {R : Int → Int → Bool} {nx ny : Nat} (hR : InRaster R nx ny) {c : List FSt}
    (hc : Closed R c ∧ ∃ m start, 1 ≤ m ∧ c = orbitL (step R) m start ∧ iterS (step R) m start = start) :
    ringWellFormed nx ny (cycRing c) = true := by
  obtain ⟨hcl, m, start, hm, e, hit⟩ := hc
  obtain ⟨k, rfl⟩ : ∃ k, m = k + 1 := ⟨m - 1, by omega⟩
  have hstart : start ∈ c := by rw [e]; exact mem_orbitL.mpr ⟨0, by omega, rfl⟩
  have hlen : 4 ≤ (fwdPts none c).length := by
    rw [← runDirs_length]
    have hd := four_dirs hcl hR hstart
    have get : ∀ d : Dir, d ∈ runDirs none c := by
      intro d
      obtain ⟨s, hs, hsd⟩ := hd d
      rcases mem_runDirs (prev := none) hs with h | h
      · rw [← hsd]; exact h
      · cases h
    exact four_le_length (get .E) (get .N) (get .W) (get .S)
  have hfw : fwdPts none c = start.corner :: fwdPts (some start.d) (orbitL (step R) k (step R start)) := by
    rw [e]; simp only [orbitL, fwdPts, ne_eq, reduceCtorEq, not_false_eq_true, if_true]
  rw [hfw, List.length_cons] at hlen
  rw [e, cycRing_eq]
  generalize hF : fwdPts (some start.d) (orbitL (step R) k (step R start)) = F at hlen
  have hFmem : ∀ p ∈ F, ∃ s ∈ c, p = s.corner := by
    intro p hp
    rw [← hF] at hp
    obtain ⟨s, hs, e'⟩ := mem_fwdPts hp
    refine ⟨s, ?_, e'⟩
    rw [e]; exact List.mem_cons_of_mem _ hs
  simp only [ringWellFormed, Bool.and_eq_true, decide_eq_true_eq]
  refine ⟨⟨⟨?_, ?_⟩, ?_⟩, ?_⟩
  · simp only [List.length_cons, List.length_append, List.length_nil]; omega
  · have : (start.corner :: (F ++ [start.corner])).getLast? = some start.corner := by
      rw [← List.cons_append, List.getLast?_append]; simp
    rw [this]; simp
  · rw [List.all_eq_true]
    intro p hp
    have hbox : InBox nx ny p := by
      rcases List.mem_cons.mp hp with e' | e'
      · rw [e']; exact corner_inBox hR (hcl.valid start hstart)
      · rcases List.mem_append.mp e' with e'' | e''
        · obtain ⟨s, hs, e3⟩ := hFmem p e''
          rw [e3]; exact corner_inBox hR (hcl.valid s hs)
        · rw [List.mem_singleton.mp e'']; exact corner_inBox hR (hcl.valid start hstart)
    obtain ⟨b0, b1, b2, b3⟩ := hbox
    simp only [Bool.and_eq_true, decide_eq_true_eq]
    exact ⟨⟨⟨b0, b1⟩, b2⟩, b3⟩
  · rw [edges_all_iff, ← hF]
    have := chain_orbit R k (step R start) start.d start.corner (by rw [corner_step]; exact behS_self _ _)
    have e2 : iterS (step R) k (step R start) = start := hit
    rw [e2] at this
    exact this

end XrsVerif.Polygonize
