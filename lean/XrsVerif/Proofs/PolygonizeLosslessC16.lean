import XrsVerif.Proofs.Regions
import XrsVerif.Proofs.PolygonizeLosslessParity
/-
  C15, losslessness: the region labelling of polygonize and the C16 labelling (`Regions.regions`) induce the
  same partition of the unmasked pixels (`comp_iff_region`): both are the equivalence closure of "adjacent
  (4 / 8), both unmasked, values close" -- `ConnP` (chains of W/S/SW/SE links on flat indices) on the one side,
  `Regions.Connected` (chains of `Adj` steps on (row, column) cells) on the other.  `losslessB` expresses "same
  connected region" through the C16 labelling.
-/
set_option linter.unusedVariables false
namespace XrsVerif.Polygonize
open XrsVerif.Regions (Cell Adj Step Connected gridCells mem_gridCells)

/-- C16 (`complete_connected` of Props/C16, re-derived from the same lemmas of Proofs/Regions) -/
theorem C16_complete {V : Type} {rows cols : Nat} {n8 : Bool} {m : V → V → Bool} {data : Cell → Option V}
    (hsym : ∀ a b, m a b = m b a) {p q : Cell} (h : Connected rows cols n8 m data p q) :
    Regions.regions rows cols n8 m data p = Regions.regions rows cols n8 m data q := by
  induction h with
  | step hs =>
    obtain ⟨hp', hq', hadj, v, w, hv, hw, hm⟩ := hs
    have := Regions.complete_g (m := m) (data := data) (Regions.gridCells_nodup rows cols)
      (Regions.gridNbrs_closed rows cols n8) hp' hq' hv hw (Regions.mem_gridNbrs_of_adj hp' hq' hadj)
      (Regions.mem_gridNbrs_of_adj hq' hp' hadj.symm) hm (by rw [hsym]; exact hm)
    simp [Regions.regions, Regions.result, hv, hw, this]
  | refl p _ => rfl
  | symm _ ih => exact ih.symm
  | trans _ _ ih1 ih2 => exact ih1.trans ih2

/-- C16 (`components_iff` of Props/C16): two non-NaN cells get the same C16 label iff they are joined by a
    chain of adjacent matching cells -/
theorem C16_components {V : Type} {rows cols : Nat} {n8 : Bool} {m : V → V → Bool} {data : Cell → Option V}
    (hsym : ∀ a b, m a b = m b a) {p q : Cell} (hp : p ∈ gridCells rows cols) (hdp : data p ≠ none) :
    Regions.regions rows cols n8 m data p = Regions.regions rows cols n8 m data q ↔
      Connected rows cols n8 m data p q := by
  constructor
  · intro h
    simp only [Regions.regions, Regions.result] at h
    cases hdp' : data p with
    | none => exact absurd hdp' hdp
    | some v =>
      cases hdq : data q with
      | none => simp [hdp', hdq] at h
      | some w =>
        simp only [hdp', hdq, Option.some.injEq] at h
        exact Regions.connected_of_conn
          (Regions.sound_g (Regions.gridCells_nodup rows cols) (Regions.gridNbrs_closed rows cols n8) hp
            (by simp [hdp']) h) hp
  · exact C16_complete hsym

section bridge
variable {V : Type} (nx ny : Nat) (conn8 : Bool) (close : V → V → Bool) (values : Nat → V) (mask : Nat → Bool)

/-- the raster as C16 sees it: cell `(row, column)`, masked-out = NaN -/
def gdata : Cell → Option V :=
  fun c => if mask (c.2 + c.1 * nx) then some (values (c.2 + c.1 * nx)) else none

/-- `q` is the W, S, SW or SE neighbour of `p` (cells are (row, column)) -/
def Earlier (n8 : Bool) (p q : Cell) : Prop :=
  (q.1 = p.1 ∧ q.2 + 1 = p.2) ∨ (q.1 + 1 = p.1 ∧ q.2 = p.2) ∨
  (n8 = true ∧ q.1 + 1 = p.1 ∧ q.2 + 1 = p.2) ∨ (n8 = true ∧ q.1 + 1 = p.1 ∧ q.2 = p.2 + 1)

theorem adj_earlier {n8 : Bool} {p q : Cell} (h : Adj n8 p q) : Earlier n8 p q ∨ Earlier n8 q p := by
  obtain ⟨y, x⟩ := p
  obtain ⟨y', x'⟩ := q
  unfold Adj at h
  unfold Earlier
  cases n8 <;> simp at h ⊢ <;> omega

theorem earlier_adj {n8 : Bool} {p q : Cell} (h : Earlier n8 p q) : Adj n8 p q := by
  obtain ⟨y, x⟩ := p
  obtain ⟨y', x'⟩ := q
  unfold Adj
  unfold Earlier at h
  cases n8 <;> simp at h ⊢ <;> omega

theorem earlier_back {p q : Cell} (hp : p.2 < nx) (hq : q.2 < nx) (h : Earlier conn8 p q) :
    (q.2 + q.1 * nx) ∈ back nx conn8 (p.2 + p.1 * nx) := by
  obtain ⟨y, x⟩ := p
  obtain ⟨y', x'⟩ := q
  unfold Earlier at h
  dsimp only at hp hq h ⊢
  rw [mem_back, (xy_of x y hp).1]
  rcases h with ⟨h1, h2⟩ | ⟨h1, h2⟩ | ⟨h0, h1, h2⟩ | ⟨h0, h1, h2⟩
  · left; subst h1; exact ⟨by omega, by omega⟩
  · right; left; subst h2; rw [← h1, Nat.add_mul, Nat.one_mul]; exact ⟨by omega, by omega⟩
  · right; right; left; rw [← h1, Nat.add_mul, Nat.one_mul]; exact ⟨h0, by omega, by omega, by omega⟩
  · right; right; right; rw [← h1, Nat.add_mul, Nat.one_mul]; exact ⟨h0, by omega, by omega, by omega⟩

theorem back_earlier (hnx : 0 < nx) {u v : Nat} (h : v ∈ back nx conn8 u) :
    Earlier conn8 (u / nx, u % nx) (v / nx, v % nx) := by
  have hd := decode_ij nx u
  have hX := Nat.mod_lt u hnx
  generalize hXe : u % nx = X at *
  generalize hYe : u / nx = Y at *
  have hY1 : nx ≤ u → 1 ≤ Y := by
    intro h1
    cases Y with
    | zero => simp at hd; omega
    | succ Y => omega
  have hmul : nx ≤ u → (Y - 1) * nx + nx = Y * nx := by
    intro h1
    have := hY1 h1
    have : Y = (Y - 1) + 1 := by omega
    rw [this, Nat.add_mul]; simp
  unfold Earlier
  simp only
  rcases (mem_back nx conn8).mp h with ⟨h1, e⟩ | ⟨h1, e⟩ | ⟨h0, h1, h2, e⟩ | ⟨h0, h1, h2, e⟩
  · left
    have e2 : v = (X - 1) + Y * nx := by omega
    have := xy_of (nx := nx) (X - 1) Y (by omega)
    rw [e2, this.1, this.2]; omega
  · right; left
    have := hmul h1
    have e2 : v = X + (Y - 1) * nx := by omega
    have hxy := xy_of (nx := nx) X (Y - 1) (by omega)
    have := hY1 h1
    rw [e2, hxy.1, hxy.2]; omega
  · right; right; left
    have := hmul h1
    have e2 : v = (X - 1) + (Y - 1) * nx := by omega
    have hxy := xy_of (nx := nx) (X - 1) (Y - 1) (by omega)
    have := hY1 h1
    rw [e2, hxy.1, hxy.2]; exact ⟨h0, by omega, by omega⟩
  · right; right; right
    have := hmul h1
    have e2 : v = (X + 1) + (Y - 1) * nx := by omega
    have hxy := xy_of (nx := nx) (X + 1) (Y - 1) (by omega)
    have := hY1 h1
    rw [e2, hxy.1, hxy.2]; exact ⟨h0, by omega, by omega⟩

theorem idx_lt {c : Cell} (hc : c ∈ gridCells ny nx) : c.2 + c.1 * nx < nx * ny := by
  rw [mem_gridCells] at hc
  have : (c.1 + 1) * nx ≤ ny * nx := Nat.mul_le_mul_right nx hc.1
  rw [Nat.add_mul, Nat.mul_comm ny nx] at this; omega

theorem gdata_some {c : Cell} {v : V} (h : gdata nx values mask c = some v) :
    mask (c.2 + c.1 * nx) = true ∧ v = values (c.2 + c.1 * nx) := by
  unfold gdata at h
  split at h
  · rename_i hm; exact ⟨hm, (Option.some.inj h).symm⟩
  · cases h

/-- a C16 chain gives a polygonize chain -/
theorem connected_connP (hsymm : ∀ a b, close a b = true → close b a = true) {p q : Cell}
    (h : Connected ny nx conn8 close (gdata nx values mask) p q) :
    ConnP nx conn8 close values mask (nx * ny) (p.2 + p.1 * nx) (q.2 + q.1 * nx) := by
  induction h with
  | refl p _ => exact Cl.refl _
  | symm _ ih => exact Cl.symm ih
  | trans _ _ ih1 ih2 => exact Cl.trans ih1 ih2
  | step hs =>
    rename_i p q
    obtain ⟨hp, hq, hadj, v, w, hv, hw, hm⟩ := hs
    obtain ⟨hmp, rfl⟩ := gdata_some nx values mask hv
    obtain ⟨hmq, rfl⟩ := gdata_some nx values mask hw
    have hp2 := (mem_gridCells.mp hp).2
    have hq2 := (mem_gridCells.mp hq).2
    rcases adj_earlier hadj with he | he
    · exact Cl.base ⟨idx_lt nx ny hp, earlier_back nx conn8 hp2 hq2 he, hmp, hmq, hm⟩
    · exact Cl.symm (Cl.base ⟨idx_lt nx ny hq, earlier_back nx conn8 hq2 hp2 he, hmq, hmp, hsymm _ _ hm⟩)

/-- a polygonize chain gives a C16 chain -/
theorem connP_connected (hnx : 0 < nx) {u v : Nat}
    (h : ConnP nx conn8 close values mask (nx * ny) u v) :
    (u < nx * ny → Connected ny nx conn8 close (gdata nx values mask) (u / nx, u % nx) (v / nx, v % nx)) ∧
    (u < nx * ny ↔ v < nx * ny) := by
  have hcell : ∀ w, w < nx * ny → ((w / nx, w % nx) : Cell) ∈ gridCells ny nx := by
    intro w hw; rw [mem_gridCells]; exact ⟨div_lt_ny hnx hw, Nat.mod_lt w hnx⟩
  induction h with
  | refl u => exact ⟨fun hu => Connected.refl _ (hcell u hu), Iff.rfl⟩
  | symm _ ih => exact ⟨fun hv => Connected.symm (ih.1 (ih.2.mpr hv)), ih.2.symm⟩
  | trans _ _ ih1 ih2 =>
    exact ⟨fun hu => Connected.trans (ih1.1 hu) (ih2.1 (ih1.2.mp hu)), ih1.2.trans ih2.2⟩
  | base e =>
    rename_i u v
    obtain ⟨hu, hb, hmu, hmv, hcl⟩ := e
    have hv : v < nx * ny := Nat.lt_trans (back_lt nx conn8 hnx hb) hu
    refine ⟨fun _ => Connected.step ⟨hcell u hu, hcell v hv, earlier_adj (back_earlier nx conn8 hnx hb),
      values u, values v, ?_, ?_, hcl⟩, ⟨fun _ => hv, fun _ => hu⟩⟩
    · simp only [gdata, decode_ij, hmu, if_true]
    · simp only [gdata, decode_ij, hmv, if_true]

/-- **the C16 labelling and the polygonize labelling agree** on which unmasked pixels belong together -/
theorem comp_iff_region (hnx : 0 < nx)
    (hsymm : ∀ a b, close a b = true → close b a = true)
    (htrans : ∀ a b c, close a b = true → close b c = true → close a c = true)
    {X Y X' Y' : Nat} (hX : X < nx) (hY : Y < ny) (hX' : X' < nx) (hY' : Y' < ny)
    (hm : mask (X + Y * nx) = true) (hm' : mask (X' + Y' * nx) = true) :
    Regions.regions ny nx conn8 close (gdata nx values mask) (Y, X) =
        Regions.regions ny nx conn8 close (gdata nx values mask) (Y', X') ↔
      regionId nx ny conn8 close values mask (X + Y * nx) =
        regionId nx ny conn8 close values mask (X' + Y' * nx) := by
  have hsym : ∀ a b, close a b = close b a := by
    intro a b
    cases h1 : close a b with
    | true => exact (hsymm a b h1).symm
    | false =>
      cases h2 : close b a with
      | false => rfl
      | true => rw [hsymm b a h2] at h1; cases h1
  have hp : ((Y, X) : Cell) ∈ gridCells ny nx := mem_gridCells.mpr ⟨hY, hX⟩
  have hidx : X + Y * nx < nx * ny := idx_lt nx ny hp
  have hidx' : X' + Y' * nx < nx * ny := idx_lt nx ny (c := (Y', X')) (mem_gridCells.mpr ⟨hY', hX'⟩)
  rw [C16_components hsym hp (by simp [gdata, hm]),
    (regionId_spec nx ny conn8 close values mask hnx hsymm htrans hidx hidx').2.2 hm hm']
  constructor
  · intro h; exact connected_connP nx ny conn8 close values mask hsymm h
  · intro h
    have := (connP_connected nx ny conn8 close values mask hnx h).1 hidx
    rw [(xy_of X Y hX).1, (xy_of X Y hX).2, (xy_of X' Y' hX').1, (xy_of X' Y' hX').2] at this
    exact this

end bridge

end XrsVerif.Polygonize
