import XrsVerif.Proofs.ILViewshedZip
/-
  Proofs/ILViewshedArr.lean -- writes to the two arrays of the status structure, for the refinement proofs of the
  routines that modify the tree (`_left_rotate`, `_right_rotate`, `_insert_into_tree`, `_delete_from_tree`):

  * `vAt_set`, `nAt_set`          read after write, in (row, column) form;
  * `exec_stN`, `exec_stV`        the stores `tree_nodes[x][c] = e`, `tree_vals[x][c] = e` of the generated programs;
  * `selMax`, `stMax`             the two shapes `if a > b: t = a else: t = b` of the augmentation repairs (one
                                  assignment of the model's `mx2`, no case split left in the refinement proofs);
  * `Linked.congr`, `absT_congr`  frame rules: a subtree none of whose rows is written stays linked / keeps its
                                  abstraction; the parent pointer of its root may be redirected.
-/
set_option linter.unusedSectionVars false
set_option linter.unusedVariables false
set_option linter.unusedSimpArgs false
namespace XrsVerif.ILVs
open XrsVerif XrsVerif.IL XrsVerif.Viewshed
variable {F : Type} [Fl F]

/-! ### read after write -/

theorem nAt_set (l : List Int) (a b : Nat) (v : Int) (i c : Nat) (hb : b < 4) (hc : c < 4) (ha : a * 4 + b < l.length) :
    nAt (l.set (a * 4 + b) v) i c = if i = a ∧ c = b then v else nAt l i c := by
  unfold nAt
  rw [List.getD_eq_getElem?_getD, List.getElem?_set]
  by_cases h : i = a ∧ c = b
  · obtain ⟨rfl, rfl⟩ := h
    simp [ha]
  · have : ¬ (a * 4 + b = i * 4 + c) := by omega
    simp only [this, if_false, h, List.getD_eq_getElem?_getD]

theorem vAt_set (l : List F) (a b : Nat) (v : F) (i c : Nat) (hb : b < 8) (hc : c < 8) (ha : a * 8 + b < l.length) :
    vAt (l.set (a * 8 + b) v) i c = if i = a ∧ c = b then ⟨v⟩ else vAt l i c := by
  unfold vAt
  rw [List.getD_eq_getElem?_getD, List.getElem?_set]
  by_cases h : i = a ∧ c = b
  · obtain ⟨rfl, rfl⟩ := h
    simp [ha]
  · have : ¬ (a * 8 + b = i * 8 + c) := by omega
    simp only [this, if_false, h, List.getD_eq_getElem?_getD]

theorem nAt_set0 (l : List Int) (a : Nat) (v : Int) (i c : Nat) (hc : c < 4) (ha : a * 4 < l.length) :
    nAt (l.set (a * 4) v) i c = if i = a ∧ c = 0 then v else nAt l i c := by
  have := nAt_set l a 0 v i c (by decide) hc (by omega)
  simpa using this

theorem vAt_set0 (l : List F) (a : Nat) (v : F) (i c : Nat) (hc : c < 8) (ha : a * 8 < l.length) :
    vAt (l.set (a * 8) v) i c = if i = a ∧ c = 0 then ⟨v⟩ else vAt l i c := by
  have := vAt_set l a 0 v i c (by decide) hc (by omega)
  simpa using this

/-- a write to the stored maximum (column 7) leaves every node's values alone -/
theorem nodeAt_set7 (l : List F) (a : Nat) (v : F) (i : Nat) : nodeAt (l.set (a * 8 + 7) v) i = nodeAt l i := by
  have h : ∀ c, c < 7 → vAt (l.set (a * 8 + 7) v) i c = vAt l i c := by
    intro c hc
    unfold vAt
    rw [List.getD_eq_getElem?_getD, List.getElem?_set]
    have : ¬ (a * 8 + 7 = i * 8 + c) := by omega
    simp only [this, if_false, List.getD_eq_getElem?_getD]
  simp only [nodeAt, h 0 (by decide), h 1 (by decide), h 2 (by decide), h 3 (by decide), h 4 (by decide), h 5 (by decide),
    h 6 (by decide)]

/-! ### the stores of the generated programs -/

theorem exec_stN (fuel : Nat) (s : State F) (n : Nat) (hs : s.shp "tree_nodes" = [n, 4]) (x : String) (c : Int) (e : IE)
    (hc : 0 ≤ c ∧ c < 4) (hin : inRange (s.ienv x) n = true) (he : e.ok s = true) :
    exec fuel (.stI2 "tree_nodes" (.var x) (.lit c) e) s =
      { s with ia := (setS s.ia "tree_nodes"
          ((s.ia "tree_nodes").set (rowOf n (s.ienv x) * 4 + c.toNat) (e.eval s))) } := by
  obtain ⟨k, rfl⟩ := Int.eq_ofNat_of_zero_le hc.1
  have hk : k < 4 := by omega
  simp only [exec, IE.ok_var, IE.ok_lit, IE.eval_var, IE.eval_lit, he, hs, List.length_cons, List.length_nil,
    List.getD_cons_zero, List.getD_cons_succ, hin, inRange_col 4 k hk, Bool.and_self, decide_true, if_true]
  rw [off2_ptr n 4 _ k]
  simp

theorem exec_stV (fuel : Nat) (s : State F) (n : Nat) (hs : s.shp "tree_vals" = [n, 8]) (x : String) (c : Int) (e : FE)
    (hc : 0 ≤ c ∧ c < 8) (hin : inRange (s.ienv x) n = true) (he : e.ok s = true) :
    exec fuel (.stF2 "tree_vals" (.var x) (.lit c) e) s =
      { s with fa := (setS s.fa "tree_vals"
          ((s.fa "tree_vals").set (rowOf n (s.ienv x) * 8 + c.toNat) (e.eval s))) } := by
  obtain ⟨k, rfl⟩ := Int.eq_ofNat_of_zero_le hc.1
  have hk : k < 8 := by omega
  simp only [exec, IE.ok_var, IE.ok_lit, IE.eval_var, IE.eval_lit, he, hs, List.length_cons, List.length_nil,
    List.getD_cons_zero, List.getD_cons_succ, hin, inRange_col 8 k hk, Bool.and_self, decide_true, if_true]
  rw [off2_ptr n 8 _ k]
  simp

/-- `if A > B: t = A else: t = B` -/
def selMax (t : String) (A B : FE) : St := .ite (.cmpF .gt A B) (.setF t A) (.setF t B)

theorem selMax_spec (fuel : Nat) (t : String) (A B : FE) (s : State F) (hA : A.ok s = true) (hB : B.ok s = true) :
    exec fuel (selMax t A B) s = { s with fenv := setS s.fenv t (mx2 (⟨A.eval s⟩ : Fv F) ⟨B.eval s⟩).v } := by
  unfold selMax
  by_cases h : Fl.lt (B.eval s) (A.eval s) = true
  · simp [exec, BE.ok, BE.eval, CmpOp.eval, hA, hB, h, mx2_v]
  · simp [exec, BE.ok, BE.eval, CmpOp.eval, hA, hB, h, mx2_v]

/-- `if A > B: tree_vals[x][c] = A else: tree_vals[x][c] = B` -/
def stMax (arr : String) (i j : IE) (A B : FE) : St := .ite (.cmpF .gt A B) (.stF2 arr i j A) (.stF2 arr i j B)

theorem stMax_spec (fuel : Nat) (s : State F) (n : Nat) (hs : s.shp "tree_vals" = [n, 8]) (x : String) (c : Int)
    (A B : FE) (hc : 0 ≤ c ∧ c < 8) (hin : inRange (s.ienv x) n = true) (hA : A.ok s = true) (hB : B.ok s = true) :
    exec fuel (stMax "tree_vals" (.var x) (.lit c) A B) s =
      { s with fa := (setS s.fa "tree_vals"
          ((s.fa "tree_vals").set (rowOf n (s.ienv x) * 8 + c.toNat) (mx2 (⟨A.eval s⟩ : Fv F) ⟨B.eval s⟩).v)) } := by
  unfold stMax
  by_cases h : Fl.lt (B.eval s) (A.eval s) = true
  · rw [exec_ite_true _ _ _ _ _ (by simp [BE.ok, hA, hB]) (by simp [BE.eval, CmpOp.eval, h]),
      exec_stV fuel s n hs x c A hc hin hA]
    simp [mx2_v, h]
  · rw [exec_ite_false _ _ _ _ _ (by simp [BE.ok, hA, hB]) (by simpa [BE.eval, CmpOp.eval] using h),
      exec_stV fuel s n hs x c B hc hin hB]
    simp [mx2_v, h]

/-! ### frame rules -/

theorem Linked.idx_lt {N : List Int} {n : Nat} : ∀ {sh : Sh} {par : Int}, Linked N n par sh → ∀ i ∈ sh.idxs, i + 1 < n := by
  intro sh
  induction sh with
  | nil => intro _ _ i hi; simp [Sh.idxs] at hi
  | node l j r ihl ihr =>
    intro par h i hi
    simp only [Sh.idxs, List.mem_append, List.mem_cons] at hi
    rcases hi with hi | rfl | hi
    · exact ihl h.2.2.2.2.1 i hi
    · exact h.1
    · exact ihr h.2.2.2.2.2 i hi



/-- a subtree none of whose link cells is written stays linked -/
theorem Linked.congr {N N' : List Int} {n : Nat} : ∀ {sh : Sh} {par : Int},
    Linked N n par sh →
    (∀ i ∈ sh.idxs, nAt N' i 1 = nAt N i 1 ∧ nAt N' i 2 = nAt N i 2 ∧ nAt N' i 3 = nAt N i 3) →
    Linked N' n par sh := by
  intro sh
  induction sh with
  | nil => intro _ _ _; trivial
  | node l i r ihl ihr =>
    intro par h hc
    obtain ⟨hi, hL, hR, hP, hlL, hlR⟩ := h
    obtain ⟨c1, c2, c3⟩ := hc i (by simp [Sh.idxs])
    exact ⟨hi, by rw [c1]; exact hL, by rw [c2]; exact hR, by rw [c3]; exact hP,
      ihl hlL (fun j hj => hc j (by simp [Sh.idxs, hj])), ihr hlR (fun j hj => hc j (by simp [Sh.idxs, hj]))⟩

/-- ... and the parent pointer of its root may be redirected -/
theorem Linked.reparent {N N' : List Int} {n : Nat} {sh : Sh} {par par' : Int} (h : Linked N n par sh)
    (hn : sh.idxs.Nodup)
    (h12 : ∀ i ∈ sh.idxs, nAt N' i 1 = nAt N i 1 ∧ nAt N' i 2 = nAt N i 2)
    (h3 : ∀ i ∈ sh.idxs, (i : Int) ≠ sh.ptr → nAt N' i 3 = nAt N i 3)
    (hroot : ∀ i : Nat, sh.ptr = (i : Int) → nAt N' i 3 = par') :
    Linked N' n par' sh := by
  cases sh with
  | nil => trivial
  | node l i r =>
    obtain ⟨hi, hL, hR, hP, hlL, hlR⟩ := h
    have hd := Sh.ptr_ne_of_nodup l r i hn
    obtain ⟨c1, c2⟩ := h12 i (by simp [Sh.idxs])
    refine ⟨hi, by rw [c1]; exact hL, by rw [c2]; exact hR, hroot i rfl, ?_, ?_⟩
    · refine hlL.congr (fun j hj => ?_)
      have hji : j ≠ i := fun e => hd.2.2.2.2.1 (e ▸ hj)
      obtain ⟨d1, d2⟩ := h12 j (by simp [Sh.idxs, hj])
      exact ⟨d1, d2, h3 j (by simp [Sh.idxs, hj]) (by simp only [Sh.ptr]; omega)⟩
    · refine hlR.congr (fun j hj => ?_)
      have hji : j ≠ i := fun e => hd.2.2.2.2.2 (e ▸ hj)
      obtain ⟨d1, d2⟩ := h12 j (by simp [Sh.idxs, hj])
      exact ⟨d1, d2, h3 j (by simp [Sh.idxs, hj]) (by simp only [Sh.ptr]; omega)⟩

/-- the abstraction of a subtree none of whose rows is written is unchanged -/
theorem absT_congr {V V' : List F} {N N' : List Int} : ∀ (sh : Sh),
    (∀ i ∈ sh.idxs, (∀ c, c < 8 → vAt V' i c = vAt V i c) ∧ nAt N' i 0 = nAt N i 0) →
    absT V' N' sh = absT V N sh := by
  intro sh
  induction sh with
  | nil => intro _; rfl
  | node l i r ihl ihr =>
    intro h
    obtain ⟨hv, hn⟩ := h i (by simp [Sh.idxs])
    simp only [absT, nodeAt, hv 0 (by decide), hv 1 (by decide), hv 2 (by decide), hv 3 (by decide), hv 4 (by decide),
      hv 5 (by decide), hv 6 (by decide), hv 7 (by decide), hn,
      ihl (fun j hj => h j (by simp [Sh.idxs, hj])), ihr (fun j hj => h j (by simp [Sh.idxs, hj]))]

end XrsVerif.ILVs
