import XrsVerif.Proofs.ILApply
/-
  Proofs/ILApplyRefines.lean -- refinement (layer T3), part 2: the seven programs generated from `_apply_numpy`
  (`Gen.IL.applyMean`, `applySum`, `applyMin`, `applyMax`, `applyRange`, `applyStd`, `applyVar`) compute the hand
  model `applyFlat` of Model/Focal.lean with the model's reducer -- for every raster (also empty, also smaller than the
  kernel) and every kernel of odd shape, any fuel.

  * `red_eval_*`: numba's one-pass reductions `RedOp.eval` (Core/ILang.lean) *are* the model's `nanmean` … `nanstd`
    (same filter, same fold order, NaN for an empty selection) -- by `rfl`.
  * `RedSpec red rv f`: the inlined reducer `red` leaves `f kernel_values` in the variable `rv` and changes nothing else
    that matters; `redOf_spec`, `redRange_spec` (`_calc_range` inlines `_calc_min` and `_calc_max`: `max − min`).
  * `apply_cell`: the per-cell body; `apply_raster`: the raster double loop (`exec_for2_store`); `apply_prefix`: the
    straight-line prefix; `applyBody_refines`: the shared theorem; `apply*_refines`: one corollary per program.
-/
namespace XrsVerif.Focal
open XrsVerif XrsVerif.IL XrsVerif.IL.Sd XrsVerif.IL.Fc XrsVerif.Gen.Focal
set_option linter.unusedSectionVars false
set_option linter.unusedSimpArgs false
set_option linter.unusedVariables false
variable {F : Type} [Fl F]

/-! ### `RedOp.eval` is the model's reduction -/

theorem red_eval_nansum (xs : List F) : RedOp.eval .nansum xs = nansum xs := rfl
theorem red_eval_nanmean (xs : List F) : RedOp.eval .nanmean xs = nanmean xs := rfl
theorem red_eval_nanvar (xs : List F) : RedOp.eval .nanvar xs = nanvar xs := rfl
theorem red_eval_nanstd (xs : List F) : RedOp.eval .nanstd xs = nanstd xs := rfl
theorem red_eval_nanmin (xs : List F) : RedOp.eval .nanmin xs = nanmin xs := by
  simp only [RedOp.eval, nanmin, nonNan, valid]
  cases List.filter (fun x => !Fl.isnan x) xs <;> rfl
theorem red_eval_nanmax (xs : List F) : RedOp.eval .nanmax xs = nanmax xs := by
  simp only [RedOp.eval, nanmax, nonNan, valid]
  cases List.filter (fun x => !Fl.isnan x) xs <;> rfl

/-! ### the inlined reducers -/

/-- `red` (run in any running state) ends running, leaves shapes, arrays and integer variables alone and puts
    `f kernel_values` into `rv` -/
def RedSpec (red : St) (rv : String) (f : List F → F) : Prop :=
  ∀ (fuel : Nat) (s : State F), s.ctl = .run →
    (exec fuel red s).ctl = .run ∧ (exec fuel red s).shp = s.shp ∧ (exec fuel red s).fa = s.fa ∧
    (exec fuel red s).ienv = s.ienv ∧ (exec fuel red s).fenv rv = f (s.fa "kernel_values")

theorem redOf_spec (rv : String) (op : RedOp) : RedSpec (F := F) (redOf rv op) rv (RedOp.eval op) := by
  intro fuel s hs
  simp [redOf, exec, FE.ok, FE.eval, hs]

theorem redRange_spec :
    RedSpec (F := F) redRange "_calc_range1$ret0" (fun l => Fl.sub (RedOp.eval .nanmax l) (RedOp.eval .nanmin l)) := by
  intro fuel s hs
  simp [redRange, exec, FE.ok, FE.eval, BinOp.eval, setS, hs]

/-! ### the per-cell body -/

/-- the value stored at output cell `(p, q)` -/
abbrev applyVal (f : List F → F) (data kernel : List F) (rows cols kr kc : Nat) (p q : Nat) : F :=
  f (specWindow (listArr data cols) (listArr kernel kc) rows cols kr kc (p : Int) (q : Int)).flatten

theorem apply_cell (red : St) (rv : String) (f : List F → F) (hred : RedSpec red rv f)
    (data kernel : List F) (rows cols kr kc : Nat) (hkr : kr % 2 = 1) (hkc : kc % 2 = 1)
    (fuel : Nat) (s : State F) (p q : Nat) (hI : AInv data kernel rows cols kr kc s)
    (vy : s.ienv "y" = p) (vx : s.ienv "x" = q) (hp : p < rows) (hq : q < cols) :
    let r := exec fuel (stCellA red rv) s
    r.ctl = .run ∧ AInv data kernel rows cols kr kc r ∧ r.ienv "y" = p ∧
    r.fa "out" = (s.fa "out").set (p * cols + q) (applyVal f data kernel rows cols kr kc p q) := by
  intro r
  have hs := hI.ctl
  -- kernel_values.fill(np.nan)
  have h1 : exec fuel stFill s =
      { s with fa := setS s.fa "kernel_values" (List.replicate (kr * kc) Fl.nan) } := by
    have e : setS s.shp "kernel_values" [kr, kc] = s.shp := by rw [← hI.shv]; exact setS_self _ _
    simp [stFill, exec, IE.ok, IE.eval, FE.ok, FE.eval, hI.shv, e]
  have hF1 : Frame ["ky", "kx", "kyidx", "kxidx"] ["kernel_values", "out"] [] s
      { s with fa := setS s.fa "kernel_values" (List.replicate (kr * kc) Fl.nan) } := by
    refine ⟨hs, fun _ _ => rfl, ?_, fun _ _ => rfl⟩
    intro a ha
    simp only [List.mem_cons, List.mem_nil_iff, or_false, not_or] at ha
    simp only [setS, ha.1, if_false]
  have hI1 := hI.frame hF1 (by decide) (by decide) (by decide) (by decide) (by decide) (by decide)
  -- the gather loops
  obtain ⟨hF2, hkv⟩ := gather_ky data kernel rows cols kr kc fuel _ (p : Int) (q : Int) hI1
    (by rw [hF1.ienv _ (by decide)]; exact vy) (by rw [hF1.ienv _ (by decide)]; exact vx) hkr hkc
  have hF2' := hF1.trans (hF2.mono (FA' := ["kernel_values", "out"]) (by simp) (by simp) (by simp))
  simp only [setS_same] at hkv
  rw [gather_fold_eq _ _ rows cols kr kc _ _ hkr hkc] at hkv
  -- the reducer
  obtain ⟨hc3, hsh3, hfa3, hie3, hrv3⟩ := hred fuel _ hF2.ctl
  have hF3 : Frame ["ky", "kx", "kyidx", "kxidx"] ["kernel_values", "out"] [] s
      (exec fuel red (exec fuel stGather { s with fa := setS s.fa "kernel_values" (List.replicate (kr * kc) Fl.nan) })) :=
    ⟨hc3, fun a ha => by rw [hsh3]; exact hF2'.shp a ha, fun a ha => by rw [hfa3]; exact hF2'.fa a ha,
     fun v hv => by rw [hie3]; exact hF2'.ienv v hv⟩
  have hI3 := hI.frame hF3 (by decide) (by decide) (by decide) (by decide) (by decide) (by decide)
  -- the store
  have h4 := exec_stF2_vars fuel "out" "y" "x" rv _ rows cols (p : Int) (q : Int) hI3.sho
    (by rw [hF3.ienv _ (by decide)]; exact vy) (by rw [hF3.ienv _ (by decide)]; exact vx)
    (by omega) (by omega) (by omega) (by omega)
  have hr : r = exec fuel (.stF2 "out" (.var "y") (.var "x") (.var rv))
      (exec fuel red (exec fuel stGather { s with fa := setS s.fa "kernel_values" (List.replicate (kr * kc) Fl.nan) })) := by
    simp only [r, stCellA]
    rw [exec_seq_eq fuel _ _ _ _ h1 hs, exec_seq_eq fuel _ _ _ _ rfl hF2.ctl, exec_seq_eq fuel _ _ _ _ rfl hc3]
  rw [hr, h4]
  have hout : (exec fuel red (exec fuel stGather { s with fa := setS s.fa "kernel_values" (List.replicate (kr * kc) Fl.nan) })).fa "out"
      = s.fa "out" := by
    rw [hfa3, hF2.fa _ (by decide)]
    simp [setS]
  refine ⟨hc3, ?_, ?_, ?_⟩
  · exact ⟨hc3, hI3.shd, hI3.shk, hI3.sho, hI3.shv, by simp [setS, hI3.fad], by simp [setS, hI3.fak],
      hI3.vrows, hI3.vcols, hI3.vhr, hI3.vhc⟩
  · show (exec fuel red _).ienv "y" = _
    rw [hF3.ienv _ (by decide)]; exact vy
  · simp only [setS_same, Int.toNat_natCast, hout, hrv3, hkv]

/-! ### the raster loop -/

theorem apply_raster (red : St) (rv : String) (f : List F → F) (hred : RedSpec red rv f)
    (data kernel : List F) (rows cols kr kc : Nat) (hkr : kr % 2 = 1) (hkc : kc % 2 = 1)
    (fuel : Nat) (s : State F) (hI : AInv data kernel rows cols kr kc s) :
    let r := exec fuel (stRaster red rv) s
    r.ctl = .run ∧ AInv data kernel rows cols kr kc r ∧
    r.fa "out" = (List.range rows).foldl (fun o p => (List.range cols).foldl
      (fun o q => o.set (p * cols + q) (applyVal f data kernel rows cols kr kc p q)) o) (s.fa "out") := by
  have hset : ∀ (v : String) (st : State F) (i : Int), v ≠ "rows" → v ≠ "cols" → v ≠ "hrows" → v ≠ "hcols" →
      AInv data kernel rows cols kr kc st → AInv data kernel rows cols kr kc { st with ienv := setS st.ienv v i } := by
    intro v st i n1 n2 n3 n4 h
    exact ⟨h.ctl, h.shd, h.shk, h.sho, h.shv, h.fad, h.fak, by simp [setS, Ne.symm n1, h.vrows],
      by simp [setS, Ne.symm n2, h.vcols], by simp [setS, Ne.symm n3, h.vhr], by simp [setS, Ne.symm n4, h.vhc]⟩
  exact exec_for2_store fuel "y" "x" (.var "rows") (.var "cols") (stCellA red rv) "out" rows cols
    (applyVal f data kernel rows cols kr kc) (AInv data kernel rows cols kr kc) (by decide)
    (fun st i h => hset "y" st i (by decide) (by decide) (by decide) (by decide) h)
    (fun st i h => hset "x" st i (by decide) (by decide) (by decide) (by decide) h)
    (fun st h => ⟨rfl, h.vrows⟩) (fun st h => ⟨rfl, h.vcols⟩)
    (fun st p q hc hg vy vx hp hq =>
      apply_cell red rv f hred data kernel rows cols kr kc hkr hkc fuel st p q hg vy vx hp hq)
    s hI.ctl hI

/-! ### the whole program -/

/-- well-formed inputs of `_apply_numpy`: a 2-D raster and a 2-D kernel -/
structure ApplyInput (data kernel : List F) (rows cols kr kc : Nat) (s : State F) : Prop where
  ctl : s.ctl = .run
  shd : s.shp "data" = [rows, cols]
  shk : s.shp "kernel" = [kr, kc]
  fad : s.fa "data" = data
  fak : s.fa "kernel" = kernel

/-- the state in which the raster loop is entered: sizes, half widths (`int(krows / 2)`), `out` and
    `kernel_values` allocated and zero-filled -/
def applyStart (s : State F) (rows cols kr kc : Nat) : State F :=
  { s with
    ienv := setS (setS (setS (setS (setS (setS s.ienv "rows" (rows : Int)) "cols" (cols : Int)) "krows" (kr : Int))
              "kcols" (kc : Int)) "hrows" ((kr / 2 : Nat) : Int)) "hcols" ((kc / 2 : Nat) : Int),
    shp := setS (setS s.shp "out" [rows, cols]) "kernel_values" [kr, kc],
    fa := setS (setS s.fa "out" (List.replicate (rows * cols) (Fl.lit 0 1))) "kernel_values"
            (List.replicate (kr * kc) (Fl.lit 0 1)) }

theorem tdiv_two (n : Nat) : Int.tdiv (n : Int) 2 = ((n / 2 : Nat) : Int) := by
  rw [Int.tdiv_eq_ediv_of_nonneg (by omega)]
  omega

theorem apply_prefix (data kernel : List F) (rows cols kr kc : Nat) (fuel : Nat) (s : State F)
    (hin : ApplyInput data kernel rows cols kr kc s) (rest : St) :
    exec fuel
      (.seq (.allocF "out" [(.dim "data" 0), (.dim "data" 1)] (.lit 0 1))
      (.seq (.setI "rows" (.dim "data" 0))
      (.seq (.setI "cols" (.dim "data" 1))
      (.seq (.setI "krows" (.dim "kernel" 0))
      (.seq (.setI "kcols" (.dim "kernel" 1))
      (.seq (.setI "hrows" (.bin .tdiv (.var "krows") (.lit 2)))
      (.seq (.setI "hcols" (.bin .tdiv (.var "kcols") (.lit 2)))
      (.seq (.allocF "kernel_values" [(.dim "kernel" 0), (.dim "kernel" 1)] (.lit 0 1))
      rest)))))))) s = exec fuel rest (applyStart s rows cols kr kc) := by
  have hs := hin.ctl
  rw [exec_seq_eq fuel _ _ s { s with shp := setS s.shp "out" [rows, cols], fa := setS s.fa "out" (List.replicate (rows * cols) (Fl.lit 0 1)) }
        (by simp [exec, IE.ok, IE.eval, FE.ok, FE.eval, hin.shd]) hs]
  rw [exec_seq_eq fuel _ _ _ { s with ienv := setS s.ienv "rows" (rows : Int), shp := setS s.shp "out" [rows, cols], fa := setS s.fa "out" (List.replicate (rows * cols) (Fl.lit 0 1)) }
        (by simp [exec, IE.ok, IE.eval, setS, hin.shd]) hs]
  rw [exec_seq_eq fuel _ _ _ { s with ienv := setS (setS s.ienv "rows" (rows : Int)) "cols" (cols : Int), shp := setS s.shp "out" [rows, cols], fa := setS s.fa "out" (List.replicate (rows * cols) (Fl.lit 0 1)) }
        (by simp [exec, IE.ok, IE.eval, setS, hin.shd]) hs]
  rw [exec_seq_eq fuel _ _ _ { s with ienv := setS (setS (setS s.ienv "rows" (rows : Int)) "cols" (cols : Int)) "krows" (kr : Int), shp := setS s.shp "out" [rows, cols], fa := setS s.fa "out" (List.replicate (rows * cols) (Fl.lit 0 1)) }
        (by simp [exec, IE.ok, IE.eval, setS, hin.shk]) hs]
  rw [exec_seq_eq fuel _ _ _ { s with ienv := setS (setS (setS (setS s.ienv "rows" (rows : Int)) "cols" (cols : Int)) "krows" (kr : Int)) "kcols" (kc : Int), shp := setS s.shp "out" [rows, cols], fa := setS s.fa "out" (List.replicate (rows * cols) (Fl.lit 0 1)) }
        (by simp [exec, IE.ok, IE.eval, setS, hin.shk]) hs]
  rw [exec_seq_eq fuel _ _ _ { s with ienv := setS (setS (setS (setS (setS s.ienv "rows" (rows : Int)) "cols" (cols : Int)) "krows" (kr : Int)) "kcols" (kc : Int)) "hrows" ((kr / 2 : Nat) : Int), shp := setS s.shp "out" [rows, cols], fa := setS s.fa "out" (List.replicate (rows * cols) (Fl.lit 0 1)) }
        (by simp only [exec, IE.ok, IE.eval, IOp.eval]; simp [setS, tdiv_two]) hs]
  rw [exec_seq_eq fuel _ _ _ { s with ienv := setS (setS (setS (setS (setS (setS s.ienv "rows" (rows : Int)) "cols" (cols : Int)) "krows" (kr : Int)) "kcols" (kc : Int)) "hrows" ((kr / 2 : Nat) : Int)) "hcols" ((kc / 2 : Nat) : Int), shp := setS s.shp "out" [rows, cols], fa := setS s.fa "out" (List.replicate (rows * cols) (Fl.lit 0 1)) }
        (by simp only [exec, IE.ok, IE.eval, IOp.eval]; simp [setS, tdiv_two]) hs]
  rw [exec_seq_eq fuel _ _ _ (applyStart s rows cols kr kc)
        (by simp [exec, IE.ok, IE.eval, FE.ok, FE.eval, applyStart, setS, hin.shk]) hs]

theorem applyStart_inv (data kernel : List F) (rows cols kr kc : Nat) (s : State F)
    (hin : ApplyInput data kernel rows cols kr kc s) :
    AInv data kernel rows cols kr kc (applyStart s rows cols kr kc) :=
  ⟨hin.ctl, by simp [applyStart, setS, hin.shd], by simp [applyStart, setS, hin.shk], by simp [applyStart, setS],
    by simp [applyStart], by simp [applyStart, setS, hin.fad], by simp [applyStart, setS, hin.fak],
    by simp [applyStart, setS], by simp [applyStart, setS], by simp [applyStart, setS], by simp [applyStart, setS]⟩

theorem allCells_eq_pairs (r c : Nat) :
    allCells r c = (pairs r c).map (fun ab : Nat × Nat => ((ab.1 : Int), (ab.2 : Int))) := by
  rw [allCells_eq]; rfl

/-- **refinement, shared by the seven programs.** `_apply_numpy` with a reducer `red` that computes `f` of the buffer,
    run on any raster and any kernel of odd shape: ends with `return`, no out-of-range access, inputs unchanged, and
    `out` (raster shape) is the hand model `applyFlat` with the reducer `f` on the flattened window -/
theorem applyBody_refines (red : St) (rv : String) (f : List F → F) (hred : RedSpec red rv f)
    (data kernel : List F) (rows cols kr kc : Nat) (hkr : kr % 2 = 1) (hkc : kc % 2 = 1) (s : State F) (fuel : Nat)
    (hin : ApplyInput data kernel rows cols kr kc s) :
    let r := exec fuel (applyBody red rv) s
    r.ctl = .ret ∧ r.shp "out" = [rows, cols] ∧ r.fa "data" = data ∧ r.fa "kernel" = kernel ∧
    r.fa "out" = applyFlat (listArr data cols) (listArr kernel kc) rows cols kr kc (fun w => f w.flatten) := by
  simp only [applyBody]
  rw [apply_prefix data kernel rows cols kr kc fuel s hin]
  have hI := applyStart_inv data kernel rows cols kr kc s hin
  obtain ⟨hc, hI', hout⟩ := apply_raster red rv f hred data kernel rows cols kr kc hkr hkc fuel _ hI
  rw [exec_seq_eq fuel _ _ _ _ rfl hc]
  simp only [exec]
  refine ⟨trivial, hI'.sho, hI'.fad, hI'.fak, ?_⟩
  rw [hout]
  have hlen : ((applyStart s rows cols kr kc).fa "out").length = rows * cols := by simp [applyStart, setS]
  rw [fold2_set_eq rows cols _ _ hlen]
  unfold applyFlat
  rw [applyCells_eq _ _ _ _ _ _ _ rfl, allCells_eq_pairs, List.map_map]
  rfl

/-! ### the seven generated programs -/

theorem applyMean_refines (data kernel : List F) (rows cols kr kc : Nat) (hkr : kr % 2 = 1) (hkc : kc % 2 = 1)
    (s : State F) (fuel : Nat) (hin : ApplyInput data kernel rows cols kr kc s) :
    let r := Gen.IL.applyMean.run s fuel
    r.ctl = .ret ∧ r.shp "out" = [rows, cols] ∧ r.fa "data" = data ∧ r.fa "kernel" = kernel ∧
    r.fa "out" = applyFlat (listArr data cols) (listArr kernel kc) rows cols kr kc (fun w => nanmean w.flatten) := by
  simp only [Prog.run, applyMean_body]
  exact applyBody_refines _ _ _ (redOf_spec _ _) data kernel rows cols kr kc hkr hkc s fuel hin

theorem applySum_refines (data kernel : List F) (rows cols kr kc : Nat) (hkr : kr % 2 = 1) (hkc : kc % 2 = 1)
    (s : State F) (fuel : Nat) (hin : ApplyInput data kernel rows cols kr kc s) :
    let r := Gen.IL.applySum.run s fuel
    r.ctl = .ret ∧ r.shp "out" = [rows, cols] ∧ r.fa "data" = data ∧ r.fa "kernel" = kernel ∧
    r.fa "out" = applyFlat (listArr data cols) (listArr kernel kc) rows cols kr kc (fun w => nansum w.flatten) := by
  simp only [Prog.run, applySum_body]
  exact applyBody_refines _ _ _ (redOf_spec _ _) data kernel rows cols kr kc hkr hkc s fuel hin

theorem applyMin_refines (data kernel : List F) (rows cols kr kc : Nat) (hkr : kr % 2 = 1) (hkc : kc % 2 = 1)
    (s : State F) (fuel : Nat) (hin : ApplyInput data kernel rows cols kr kc s) :
    let r := Gen.IL.applyMin.run s fuel
    r.ctl = .ret ∧ r.shp "out" = [rows, cols] ∧ r.fa "data" = data ∧ r.fa "kernel" = kernel ∧
    r.fa "out" = applyFlat (listArr data cols) (listArr kernel kc) rows cols kr kc (fun w => nanmin w.flatten) := by
  simp only [Prog.run, applyMin_body]
  have h := applyBody_refines _ _ _ (redOf_spec "_calc_min1$ret0" .nanmin) data kernel rows cols kr kc hkr hkc s fuel hin
  simp only [red_eval_nanmin] at h
  exact h

theorem applyMax_refines (data kernel : List F) (rows cols kr kc : Nat) (hkr : kr % 2 = 1) (hkc : kc % 2 = 1)
    (s : State F) (fuel : Nat) (hin : ApplyInput data kernel rows cols kr kc s) :
    let r := Gen.IL.applyMax.run s fuel
    r.ctl = .ret ∧ r.shp "out" = [rows, cols] ∧ r.fa "data" = data ∧ r.fa "kernel" = kernel ∧
    r.fa "out" = applyFlat (listArr data cols) (listArr kernel kc) rows cols kr kc (fun w => nanmax w.flatten) := by
  simp only [Prog.run, applyMax_body]
  have h := applyBody_refines _ _ _ (redOf_spec "_calc_max1$ret0" .nanmax) data kernel rows cols kr kc hkr hkc s fuel hin
  simp only [red_eval_nanmax] at h
  exact h

theorem applyStd_refines (data kernel : List F) (rows cols kr kc : Nat) (hkr : kr % 2 = 1) (hkc : kc % 2 = 1)
    (s : State F) (fuel : Nat) (hin : ApplyInput data kernel rows cols kr kc s) :
    let r := Gen.IL.applyStd.run s fuel
    r.ctl = .ret ∧ r.shp "out" = [rows, cols] ∧ r.fa "data" = data ∧ r.fa "kernel" = kernel ∧
    r.fa "out" = applyFlat (listArr data cols) (listArr kernel kc) rows cols kr kc (fun w => nanstd w.flatten) := by
  simp only [Prog.run, applyStd_body]
  exact applyBody_refines _ _ _ (redOf_spec _ _) data kernel rows cols kr kc hkr hkc s fuel hin

theorem applyVar_refines (data kernel : List F) (rows cols kr kc : Nat) (hkr : kr % 2 = 1) (hkc : kc % 2 = 1)
    (s : State F) (fuel : Nat) (hin : ApplyInput data kernel rows cols kr kc s) :
    let r := Gen.IL.applyVar.run s fuel
    r.ctl = .ret ∧ r.shp "out" = [rows, cols] ∧ r.fa "data" = data ∧ r.fa "kernel" = kernel ∧
    r.fa "out" = applyFlat (listArr data cols) (listArr kernel kc) rows cols kr kc (fun w => nanvar w.flatten) := by
  simp only [Prog.run, applyVar_body]
  exact applyBody_refines _ _ _ (redOf_spec _ _) data kernel rows cols kr kc hkr hkc s fuel hin

theorem applyRange_refines (data kernel : List F) (rows cols kr kc : Nat) (hkr : kr % 2 = 1) (hkc : kc % 2 = 1)
    (s : State F) (fuel : Nat) (hin : ApplyInput data kernel rows cols kr kc s) :
    let r := Gen.IL.applyRange.run s fuel
    r.ctl = .ret ∧ r.shp "out" = [rows, cols] ∧ r.fa "data" = data ∧ r.fa "kernel" = kernel ∧
    r.fa "out" = applyFlat (listArr data cols) (listArr kernel kc) rows cols kr kc
      (fun w => Fl.sub (nanmax w.flatten) (nanmin w.flatten)) := by
  simp only [Prog.run, applyRange_body]
  have h := applyBody_refines _ _ _ redRange_spec data kernel rows cols kr kc hkr hkc s fuel hin
  simp only [red_eval_nanmin, red_eval_nanmax] at h
  exact h

/-- a state holding the two arrays and nothing else -/
def applyState (data kernel : List F) (rows cols kr kc : Nat) : State F :=
  { (State.empty : State F) with
    fa := fun x => if x = "data" then data else if x = "kernel" then kernel else []
    shp := fun x => if x = "data" then [rows, cols] else if x = "kernel" then [kr, kc] else [] }

theorem applyState_input (data kernel : List F) (rows cols kr kc : Nat) :
    ApplyInput data kernel rows cols kr kc (applyState data kernel rows cols kr kc) :=
  ⟨rfl, by simp [applyState], by simp [applyState], by simp [applyState], by simp [applyState]⟩

end XrsVerif.Focal
