import XrsVerif.Proofs.ILViewshedWalk
/-
  Proofs/ILViewshedSucc.lean -- refinement of `Gen.IL.vsTreeSuccessor` (`_tree_successor` with `_tree_minimum`
  inlined), for every `[Fl F]` (the routine reads only `tree_nodes`):

  * the node has a right subtree: the leftmost node of it (`minIdx`) -- the in-order successor, the only case
    `_delete_from_tree` uses;
  * otherwise: climb while coming from a right child; the first ancestor reached from its left child, *or the root*
    when there is none (the code returns `y` when `y`'s parent is NIL -- not NIL), or NIL when the node is the root
    itself (`climbR`).
-/
set_option linter.unusedSectionVars false
set_option linter.unusedVariables false
set_option linter.unusedSimpArgs false
namespace XrsVerif.ILVs
open XrsVerif XrsVerif.IL XrsVerif.Viewshed
variable {F : Type} [Fl F]

/-- the climb of `_tree_successor`: `(value, left through the early return)` -/
def climbR : Ctx → Int × Bool
  | [] => (-1, false)
  | .L p _ :: _ => ((p : Int), false)
  | .R _ p :: [] => ((p : Int), true)
  | .R _ _ :: fr :: rest => climbR (fr :: rest)

def succClimbBody : St :=
  (.seq (.setI "x" (.var "y"))
  (.seq (.ite (.cmpI .eq (.ld2 "tree_nodes" (.var "y") (.lit 3)) (.lit (-1)))
      (.seq (.setI "ret0" (.var "y")) .ret)
      .skip)
  (.setI "y" (.ld2 "tree_nodes" (.var "y") (.lit 3)))))

def succClimb : St :=
  .while (.and (.cmpI .ne (.var "y") (.lit (-1))) (.cmpI .eq (.var "x") (.ld2 "tree_nodes" (.var "y") (.lit 2))))
    succClimbBody

theorem succClimb_spec (n : Nat) : ∀ (ctx : Ctx) (c : Nat) (fuel : Nat) (s : State F),
    VS s n → s.ctl = .run → CtxLinked (s.ia "tree_nodes") n (c : Int) ctx → s.ienv "x" = c → s.ienv "y" = ctxPar ctx →
    ctx.length < fuel →
    let r := exec fuel succClimb s
    r.ia = s.ia ∧ r.fa = s.fa ∧
      ((climbR ctx).2 = false → r.ctl = .run ∧ r.ienv "y" = (climbR ctx).1) ∧
      ((climbR ctx).2 = true → r.ctl = .ret ∧ r.ienv "ret0" = (climbR ctx).1) := by
  intro ctx
  induction ctx with
  | nil =>
    intro c fuel s hv hrun hc hx hy hf
    obtain ⟨fuel, rfl⟩ : ∃ f, fuel = f + 1 := ⟨fuel - 1, by omega⟩
    intro r
    have hr : r = s := by
      simp only [r, succClimb]
      rw [exec_while_exit]
      · simp [BE.ok, BE.eval, IE.ok_var, IE.ok_lit, IE.eval_var, IE.eval_lit, hy, ctxPar, cmpInt]
      · simp [BE.eval, IE.eval_var, IE.eval_lit, hy, ctxPar, cmpInt]
    rw [hr]
    exact ⟨rfl, rfl, fun _ => ⟨hrun, by simpa [climbR, ctxPar] using hy⟩, fun h => by simp [climbR] at h⟩
  | cons fr rest ih =>
    intro c fuel s hv hrun hc hx hy hf
    obtain ⟨fuel, rfl⟩ : ∃ f, fuel = f + 1 := ⟨fuel - 1, by omega⟩
    intro r
    cases fr with
    | L p pr =>
      obtain ⟨hp, hL, hR, hd, hP, hlr, hrest⟩ := hc
      simp only [ctxPar] at hy
      have hin : inRange (p : Int) n = true := inRange_ptr n _ (by omega) hv.pos
      have hr : r = s := by
        simp only [r, succClimb]
        rw [exec_while_exit]
        · simp [BE.ok, BE.eval, IE.ok_var, IE.ok_lit, IE.eval_var, IE.eval_lit, okN s n hv.shpN, hy, hin]
        · have : ¬ ((c : Int) = pr.ptr) := fun e => hd (by omega) e.symm
          simp [BE.eval, IE.eval_var, IE.eval_lit, evalN s n hv.shpN, hy, hx, hR, cmpInt, this]
      rw [hr]
      exact ⟨rfl, rfl, fun _ => ⟨hrun, by simpa [climbR] using hy⟩, fun h => by simp [climbR] at h⟩
    | R pl p =>
      obtain ⟨hp, hL, hR, hd, hP, hll, hrest⟩ := hc
      simp only [ctxPar] at hy
      have hin : inRange (p : Int) n = true := inRange_ptr n _ (by omega) hv.pos
      have hok : (BE.and (.cmpI .ne (.var "y") (.lit (-1))) (.cmpI .eq (.var "x") (.ld2 "tree_nodes" (.var "y") (.lit 2)))).ok s
          = true := by
        simp [BE.ok, BE.eval, IE.ok_var, IE.ok_lit, IE.eval_var, IE.eval_lit, okN s n hv.shpN, hy, hin]
      have hev : (BE.and (.cmpI .ne (.var "y") (.lit (-1))) (.cmpI .eq (.var "x") (.ld2 "tree_nodes" (.var "y") (.lit 2)))).eval s
          = true := by
        simp [BE.eval, IE.eval_var, IE.eval_lit, evalN s n hv.shpN, hy, hx, hR, cmpInt]
      cases rest with
      | nil =>
        simp only [ctxPar] at hP
        have hb : exec fuel succClimbBody s =
            { s with ienv := setS (setS s.ienv "x" (p : Int)) "ret0" (p : Int), ctl := .ret } := by
          simp [succClimbBody, exec, IE.ok_var, IE.eval_var, IE.ok_lit, IE.eval_lit, BE.ok, BE.eval, okN _ n, evalN _ n,
            hv.shpN, hy, setS, hin, hP, hrun, cmpInt]
        have hr : r = { s with ienv := setS (setS s.ienv "x" (p : Int)) "ret0" (p : Int), ctl := .ret } := by
          simp only [r, succClimb]
          rw [exec_while_ret _ _ _ _ hok hev (by rw [hb]), hb]
        rw [hr]
        exact ⟨rfl, rfl, fun h => by simp [climbR] at h, fun _ => ⟨rfl, by simp [climbR, setS]⟩⟩
      | cons fr2 rest2 =>
        have hq : ∃ q : Nat, ctxPar (fr2 :: rest2) = (q : Int) := by cases fr2 <;> exact ⟨_, rfl⟩
        obtain ⟨q, hq⟩ := hq
        rw [hq] at hP
        have hne : ¬ ((q : Int) = -1) := by omega
        have hb : exec fuel succClimbBody s =
            { s with ienv := setS (setS s.ienv "x" (p : Int)) "y" (q : Int) } := by
          simp [succClimbBody, exec, IE.ok_var, IE.eval_var, IE.ok_lit, IE.eval_lit, BE.ok, BE.eval, okN _ n, evalN _ n,
            hv.shpN, hy, setS, hin, hP, hrun, cmpInt, hne]
        have hr : r = exec fuel succClimb { s with ienv := setS (setS s.ienv "x" (p : Int)) "y" (q : Int) } := by
          simp only [r, succClimb]
          rw [exec_while_step _ _ _ _ hok hev (by rw [hb]; exact hrun), hb]
        have := ih p fuel { s with ienv := setS (setS s.ienv "x" (p : Int)) "y" (q : Int) } (hv.of_eq rfl rfl rfl) hrun
          hrest (by simp [setS]) (by simp [setS, hq]) (by simp only [List.length_cons] at hf ⊢; omega)
        rw [hr]
        simpa [climbR] using this

/-- the in-order successor pointer `_tree_successor` returns at the position `(l, i, r, ctx)` -/
def succPtr (i : Nat) (r : Sh) (ctx : Ctx) : Int :=
  match r with
  | .node rl m _ => (minIdx rl m : Int)
  | .nil => (climbR ctx).1

theorem vsTreeSuccessor_body : Gen.IL.vsTreeSuccessor.body =
    (.seq (.ite (.cmpI .ne (.ld2 "tree_nodes" (.var "x") (.lit 2)) (.lit (-1)))
        (.seq (.setI "_tree_minimum1$x" (.ld2 "tree_nodes" (.var "x") (.lit 2)))
        (.seq (.scope (.seq (minLoop "_tree_minimum1$x")
        (.seq (.setI "_tree_minimum1$ret0" (.var "_tree_minimum1$x"))
        .ret)))
        (.seq (.setI "ret0" (.var "_tree_minimum1$ret0"))
        .ret)))
        .skip)
      (.seq (.setI "y" (.ld2 "tree_nodes" (.var "x") (.lit 3)))
      (.seq succClimb
      (.seq (.setI "ret0" (.var "y"))
      .ret)))) := rfl

/-- **Refinement of `_tree_successor`** at a position of a well-linked tree -/
theorem vsTreeSuccessor_refines (s : State F) (fuel n : Nat) (hv : VS s n) (hrun : s.ctl = .run)
    (l : Sh) (i : Nat) (r : Sh) (ctx : Ctx)
    (hl : Linked (s.ia "tree_nodes") n (ctxPar ctx) (.node l i r)) (hc : CtxLinked (s.ia "tree_nodes") n (i : Int) ctx)
    (hx : s.ienv "x" = i) (hf : r.height + ctx.length + 1 < fuel) :
    let q := Gen.IL.vsTreeSuccessor.run s fuel
    q.ctl = .ret ∧ q.ienv "ret0" = succPtr i r ctx ∧ q.fa = s.fa ∧ q.ia = s.ia := by
  obtain ⟨hi, hL, hR, hP, hlL, hlR⟩ := hl
  have hin : inRange (i : Int) n = true := inRange_ptr n _ (by omega) hv.pos
  simp only [Prog.run, vsTreeSuccessor_body]
  cases r with
  | node rl m rr =>
    simp only [Sh.ptr] at hR
    have h1 : exec fuel (.setI "_tree_minimum1$x" (.ld2 "tree_nodes" (.var "x") (.lit 2))) s =
        { s with ienv := setS s.ienv "_tree_minimum1$x" (m : Int) } := by
      simp [exec, okN _ n, evalN _ n, hv.shpN, hx, hin, hR]
    have hml := minLoop_spec "_tree_minimum1$x" n rl m rr (i : Int) fuel
      { s with ienv := setS s.ienv "_tree_minimum1$x" (m : Int) } (hv.of_eq rfl rfl rfl) hrun hlR (by simp [setS])
      (by have := Sh.lheight_le rl; simp only [Sh.height] at hf; omega)
    rw [exec_seq, exec_ite_true _ _ _ _ _ (by simp [BE.ok, okN s n hv.shpN, hx, hin, IE.ok_lit])
      (by simp [BE.eval, evalN s n hv.shpN, hx, hR, cmpInt, IE.eval_lit])]
    rw [exec_seq, h1]
    simp only [hrun, if_true] at hml ⊢
    rw [exec_seq, exec_scope, exec_seq, hml]
    simp [exec, IE.ok_var, IE.eval_var, setS, succPtr]
  | nil =>
    simp only [Sh.ptr] at hR
    have hite : exec fuel (.ite (.cmpI .ne (.ld2 "tree_nodes" (.var "x") (.lit 2)) (.lit (-1)))
        (.seq (.setI "_tree_minimum1$x" (.ld2 "tree_nodes" (.var "x") (.lit 2)))
        (.seq (.scope (.seq (minLoop "_tree_minimum1$x")
        (.seq (.setI "_tree_minimum1$ret0" (.var "_tree_minimum1$x"))
        .ret)))
        (.seq (.setI "ret0" (.var "_tree_minimum1$ret0"))
        .ret)))
        .skip) s = s := by
      rw [exec_ite_false _ _ _ _ _ (by simp [BE.ok, okN s n hv.shpN, hx, hin, IE.ok_lit])
        (by simp [BE.eval, evalN s n hv.shpN, hx, hR, cmpInt, IE.eval_lit]), exec_skip]
    have h1 : exec fuel (.setI "y" (.ld2 "tree_nodes" (.var "x") (.lit 3))) s =
        { s with ienv := setS s.ienv "y" (ctxPar ctx) } := by
      simp [exec, okN _ n, evalN _ n, hv.shpN, hx, hin, hP]
    have hcl := succClimb_spec n ctx i fuel { s with ienv := setS s.ienv "y" (ctxPar ctx) } (hv.of_eq rfl rfl rfl) hrun hc
      (by simpa [setS] using hx) (by simp [setS]) (by omega)
    rw [exec_seq_run _ _ _ _ (by rw [hite]; exact hrun), hite, exec_seq_run _ _ _ _ (by rw [h1]; exact hrun), h1]
    obtain ⟨c1, c2, c3, c4⟩ := hcl
    by_cases hb : (climbR ctx).2 = true
    · obtain ⟨d1, d2⟩ := c4 hb
      rw [exec_seq_stop _ _ _ _ (by rw [d1]; simp)]
      exact ⟨d1, by simpa [succPtr] using d2, c2, c1⟩
    · obtain ⟨d1, d2⟩ := c3 (by simpa using hb)
      rw [exec_seq_run _ _ _ _ d1]
      simp [exec, IE.ok_var, IE.eval_var, d1, d2, c1, c2, succPtr]

/-- when there is a right subtree the row returned holds the model's in-order successor: the first node of the right
    subtree's in-order list -/
theorem succPtr_head (vals : List F) (nodes : List Int) (i : Nat) (rl : Sh) (m : Nat) (rr : Sh) (ctx : Ctx) :
    ∃ k : Nat, succPtr i (.node rl m rr) ctx = (k : Int) ∧
      (absT vals nodes (.node rl m rr)).toList.head? = some (nodeAt vals k) :=
  ⟨minIdx rl m, rfl, minIdx_head vals nodes rl m rr⟩

end XrsVerif.ILVs
