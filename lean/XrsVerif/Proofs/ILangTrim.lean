import XrsVerif.Proofs.ILang
/-
  Proofs/ILangTrim.lean -- generic ILang lemmas used by the refinement proofs of `_trim` / `_crop`
  (Proofs/ILTrim.lean): one-step unfoldings of `exec` for the statement forms that occur there, stated so
  that a `simp only` with them never unfolds more than one statement, and `loopOver` over a list of
  naturals cast to `Int`.
-/
namespace XrsVerif.IL.Tr
open XrsVerif XrsVerif.IL
variable {F : Type} [Fl F]
set_option linter.unusedSectionVars false

theorem exec_seq (fuel : Nat) (a b : St) (s : State F) :
    exec fuel (.seq a b) s = if (exec fuel a s).ctl = .run then exec fuel b (exec fuel a s) else exec fuel a s := by
  rw [exec]

theorem exec_skip (fuel : Nat) (s : State F) : exec fuel .skip s = s := by rw [exec]

theorem exec_brk (fuel : Nat) (s : State F) : exec fuel .brk s = { s with ctl := .brk } := by rw [exec]

theorem exec_cont (fuel : Nat) (s : State F) : exec fuel .cont s = { s with ctl := .cont } := by rw [exec]

theorem exec_ret (fuel : Nat) (s : State F) : exec fuel .ret s = { s with ctl := .ret } := by rw [exec]

theorem exec_setI (fuel : Nat) (v : String) (e : IE) (s : State F) :
    exec fuel (.setI v e) s = if e.ok s then { s with ienv := setS s.ienv v (e.eval s) } else s.error "index" := by
  rw [exec]

theorem exec_setF (fuel : Nat) (v : String) (e : FE) (s : State F) :
    exec fuel (.setF v e) s = if e.ok s then { s with fenv := setS s.fenv v (e.eval s) } else s.error "index" := by
  rw [exec]

theorem exec_setB (fuel : Nat) (v : String) (c : BE) (s : State F) :
    exec fuel (.setB v c) s = if c.ok s then { s with benv := setS s.benv v (c.eval s) } else s.error "index" := by
  rw [exec]

theorem exec_ite (fuel : Nat) (c : BE) (t f : St) (s : State F) :
    exec fuel (.ite c t f) s =
      if c.ok s then (if c.eval s then exec fuel t s else exec fuel f s) else s.error "index" := by
  rw [exec]

theorem exec_forRange (fuel : Nat) (v : String) (lo hi step : IE) (body : St) (s : State F) :
    exec fuel (.forRange v lo hi step body) s =
      if lo.ok s && hi.ok s && step.ok s && decide (step.eval s ≠ 0) then
        loopOver (fun st i => exec fuel body { st with ienv := setS st.ienv v i })
          (rangeList (lo.eval s) (hi.eval s) (step.eval s)) s
      else s.error "index" := by
  rw [exec]

theorem exec_forIn (fuel : Nat) (v a : String) (body : St) (s : State F) :
    exec fuel (.forIn v a body) s =
      if (s.shp a).length = 1 then
        loopOver (fun st x => exec fuel body { st with fenv := setS st.fenv v x }) (s.fa a) s
      else s.error "index" := by
  rw [exec]

/-- `a; b; c; rest` (right-nested, as the translator emits it) is `(a; b; c); rest` -/
theorem exec_seq3 (fuel : Nat) (a b c rest : St) (s : State F) :
    exec fuel (.seq a (.seq b (.seq c rest))) s =
      if (exec fuel (.seq a (.seq b c)) s).ctl = .run then exec fuel rest (exec fuel (.seq a (.seq b c)) s)
      else exec fuel (.seq a (.seq b c)) s := by
  simp only [exec_seq]
  by_cases h1 : (exec fuel a s).ctl = .run
  · simp only [h1, if_true]
    by_cases h2 : (exec fuel b (exec fuel a s)).ctl = .run
    · simp only [h2, if_true]
    · simp only [h2, if_false]
  · simp only [h1, if_false]

/-- `a; b` when `a` is known to end normally in `s1` -/
theorem exec_seq_of_run (fuel : Nat) (a b : St) (s s1 : State F) (h : exec fuel a s = s1) (hr : s1.ctl = .run) :
    exec fuel (.seq a b) s = exec fuel b s1 := by
  rw [exec_seq, h, if_pos hr]

/-- a loop that leaves with `break` at its first element -/
theorem loopOver_cons_brk {α} (f : State F → α → State F) (x : α) (xs : List α) (s : State F)
    (h : s.ctl = .run) (hb : (f s x).ctl = .brk) :
    loopOver f (x :: xs) s = { f s x with ctl := .run } := by
  rw [loopOver_cons _ _ _ _ h]
  have h1 : afterBody (f s x) = f s x := by simp [afterBody, hb]
  rw [h1]
  simp [hb, afterLoop]

/-- a loop whose first iteration ends normally (or with `continue`) goes on with the rest -/
theorem loopOver_cons_run {α} (f : State F → α → State F) (x : α) (xs : List α) (s : State F)
    (h : s.ctl = .run) (hb : (afterBody (f s x)).ctl = .run) :
    loopOver f (x :: xs) s = loopOver f xs (afterBody (f s x)) := by
  rw [loopOver_cons _ _ _ _ h]
  simp [hb]

end XrsVerif.IL.Tr
