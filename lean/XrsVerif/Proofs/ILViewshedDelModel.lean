import XrsVerif.Proofs.ILViewshedDelTree
import XrsVerif.Proofs.Viewshed
/-
  Proofs/ILViewshedDelModel.lean -- over a linear order the code-form deletion `rbDeleteP eqv` (search, four passes
  over the ancestors as the code runs them, colour fix-up; Proofs/ILViewshedDelTree.lean) is the hand model's deletion:
  `delCore` (Model/Viewshed.lean: one bottom-up recursion `del` / `ancestor` that carries what the passes need)
  followed by the colour fix-up `rbDelFix` at the position of `x` -- `rbDelete` below.

  * `del_fold`, `delMin_fold`   the recursion of the hand model is a fold of `ancestor` over the ancestors of `y`;
  * `foldAnc_below`, `foldAnc_above`   that fold, frame by frame, is loop L1 carried along (`l1Go`) with F1 at the
                                first frame, C at `z`, L2 above `z`;
  * `l1Go_run`                  loop L1 carried along = the pass `scanT (l1Step ..)`;
  * `delPassT_eq_delCore`       hence `plugT (delPassT eqv ..)` = `delCore`;  `rbDeleteP_eq_rbDelete`.
-/
set_option linter.unusedSectionVars false
set_option linter.unusedVariables false
set_option linter.unusedSimpArgs false
namespace XrsVerif.ILVs
open XrsVerif XrsVerif.Viewshed

section
variable {α : Type} [LinearOrder α]

def TFr.col : TFr α → Bool
  | .L _ _ c _ => c
  | .R _ _ _ c => c

def TFr.sb : TFr α → Viewshed.Tree α
  | .L _ _ _ r => r
  | .R l _ _ _ => l

/-- one step of the hand model's recursion at a frame -/
def ancFr (S : α) (fr : TFr α) (res : DelRes α) : DelRes α := ancestor S fr.dir fr.nd fr.mx fr.col fr.sb res

def foldAnc (S : α) (res : DelRes α) (fs : List (TFr α)) : DelRes α := fs.foldl (fun r fr => ancFr S fr r) res

theorem foldAnc_nil (S : α) (res : DelRes α) : foldAnc S res [] = res := rfl
theorem foldAnc_cons (S : α) (res : DelRes α) (fr : TFr α) (fs : List (TFr α)) :
    foldAnc S res (fr :: fs) = foldAnc S (ancFr S fr res) fs := rfl
theorem foldAnc_append (S : α) (res : DelRes α) (a b : List (TFr α)) :
    foldAnc S res (a ++ b) = foldAnc S (foldAnc S res a) b := by simp [foldAnc, List.foldl_append]

/-- what the recursion starts with at `y`: `xT` the subtree of its only child -/
def baseRes (S : α) (xT : Viewshed.Tree α) (yn : Node α) : DelRes α :=
  { t := xT, m1 := mxOf S xT, l1 := true, yv := minv yn, atY := true, xpr := S, zg := none }

/-- the step at `z` in the successor case -/
def zStep (S : α) (l : Viewshed.Tree α) (n : Node α) (mx : α) (c : Bool) (yn : Node α) (res : DelRes α) : DelRes α :=
  { t := .node l yn (recompM (mxOf S l) (mxOf S res.t) (minv yn)) c res.t,
    m1 := if (res.l1 && eqv mx res.yv) then recompM (mxOf S l) res.m1 (minv n) else mx,
    l1 := res.l1 && eqv mx res.yv, yv := res.yv, atY := false,
    xpr := if res.atY then mxOf S res.t else res.xpr, zg := some (minv n) }

/-- `del` at the node that holds the key -/
def delHere (S : α) (l : Viewshed.Tree α) (n : Node α) (mx : α) (c : Bool) (r : Viewshed.Tree α) : Option (DelRes α) :=
  match l, r with
  | .nil, _ => some (baseRes S r n)
  | _, .nil => some (baseRes S l n)
  | _, _ =>
    match delMin S r with
    | none => none
    | some (yn, res) => some (zStep S l n mx c yn res)

theorem del_node (S k : α) (l : Viewshed.Tree α) (n : Node α) (mx : α) (c : Bool) (r : Viewshed.Tree α) :
    del S k (.node l n mx c r) =
      if k < n.key then (del S k l).map (ancestor S .L n mx c r)
      else if n.key < k then (del S k r).map (ancestor S .R n mx c l)
      else delHere S l n mx c r := by
  cases l <;> cases r <;> simp only [del, delHere] <;> rfl

/-- the hand model's recursion is a fold of `ancestor` over the ancestors of the node found -/
theorem del_fold (S k : α) : ∀ (t : Viewshed.Tree α) (acc : List (TFr α)) (l : Viewshed.Tree α) (n : Node α) (mx : α) (c : Bool)
    (r : Viewshed.Tree α) (acc' : List (TFr α)), findTZ k t acc = some (l, n, mx, c, r, acc') →
    ∃ fs, acc' = fs ++ acc ∧ del S k t = (delHere S l n mx c r).map (fun res => foldAnc S res fs) := by
  intro t
  induction t with
  | nil => intro acc l n mx c r acc' h; simp [findTZ] at h
  | node tl tn tm tc tr ihl ihr =>
    intro acc l n mx c r acc' h
    simp only [findTZ] at h
    rw [del_node]
    by_cases h1 : k < tn.key
    · rw [if_pos h1] at h ⊢
      obtain ⟨fs, e1, e2⟩ := ihl _ _ _ _ _ _ _ h
      refine ⟨fs ++ [.L tn tm tc tr], by rw [e1]; simp, ?_⟩
      rw [e2, Option.map_map]
      congr 1
      funext res
      simp only [Function.comp, foldAnc_append, foldAnc_cons, foldAnc_nil]
      rfl
    · rw [if_neg h1] at h ⊢
      by_cases h2 : tn.key < k
      · rw [if_pos h2] at h ⊢
        obtain ⟨fs, e1, e2⟩ := ihr _ _ _ _ _ _ _ h
        refine ⟨fs ++ [.R tl tn tm tc], by rw [e1]; simp, ?_⟩
        rw [e2, Option.map_map]
        congr 1
        funext res
        simp only [Function.comp, foldAnc_append, foldAnc_cons, foldAnc_nil]
        rfl
      · rw [if_neg h2] at h ⊢
        simp only [Option.some.injEq, Prod.mk.injEq] at h
        obtain ⟨rfl, rfl, rfl, rfl, rfl, rfl⟩ := h
        exact ⟨[], rfl, by simp [foldAnc_nil]⟩

theorem delMin_node (S : α) (a : Viewshed.Tree α) (b : Node α) (bm : α) (bc : Bool) (cc : Viewshed.Tree α) (n : Node α) (mx : α) (c : Bool)
    (r : Viewshed.Tree α) : delMin S (.node (.node a b bm bc cc) n mx c r) =
      match delMin S (.node a b bm bc cc) with
      | none => none
      | some (yn, res) => some (yn, ancestor S .L n mx c r res) := by
  simp only [delMin]
  generalize delMin S (.node a b bm bc cc) = o
  cases o with
  | none => rfl
  | some p => cases p; rfl

/-- the successor's splice is a fold over the left spine -/
theorem delMin_fold (S : α) : ∀ (rl : Viewshed.Tree α) (m : Node α) (mm : α) (mc : Bool) (rr : Viewshed.Tree α) (acc : List (TFr α)),
    ∃ fs, (leftmostTZ rl m mm mc rr acc).2.2.2 = fs ++ acc ∧
      delMin S (.node rl m mm mc rr) = some ((leftmostTZ rl m mm mc rr acc).1,
        foldAnc S (baseRes S (leftmostTZ rl m mm mc rr acc).2.2.1 (leftmostTZ rl m mm mc rr acc).1) fs) := by
  intro rl
  induction rl with
  | nil => intro m mm mc rr acc; exact ⟨[], rfl, rfl⟩
  | node a b bm bc cc iha _ =>
    intro m mm mc rr acc
    obtain ⟨fs, e1, e2⟩ := iha b bm bc cc (.L m mm mc rr :: acc)
    refine ⟨fs ++ [.L m mm mc rr], ?_, ?_⟩
    · show (leftmostTZ a b bm bc cc (.L m mm mc rr :: acc)).2.2.2 = _
      rw [e1]; simp
    · rw [delMin_node, e2]
      show some (_, _) = some ((leftmostTZ a b bm bc cc (.L m mm mc rr :: acc)).1,
        foldAnc S (baseRes S (leftmostTZ a b bm bc cc (.L m mm mc rr :: acc)).2.2.1
          (leftmostTZ a b bm bc cc (.L m mm mc rr :: acc)).1) (fs ++ [.L m mm mc rr]))
      rw [foldAnc_append]
      rfl

/-! ### the fold, frame by frame -/

theorem DelRes.ext' {a b : DelRes α} (h1 : a.t = b.t) (h2 : a.m1 = b.m1) (h3 : a.l1 = b.l1) (h4 : a.yv = b.yv)
    (h5 : a.atY = b.atY) (h6 : a.xpr = b.xpr) (h7 : a.zg = b.zg) : a = b := by
  cases a; cases b; simp_all

/-- a frame around a subtree -/
def TFr.fill (t : Viewshed.Tree α) : TFr α → Viewshed.Tree α
  | .L n mx c r => .node t n mx c r
  | .R l n mx c => .node l n mx c t

theorem plugT_cons (t : Viewshed.Tree α) (fr : TFr α) (rest : List (TFr α)) :
    plugT t (fr :: rest) = plugT (fr.fill t) rest := by cases fr <;> rfl

theorem plugT_append (t : Viewshed.Tree α) : ∀ (a b : List (TFr α)), plugT t (a ++ b) = plugT (plugT t a) b := by
  intro a
  induction a generalizing t with
  | nil => intro b; rfl
  | cons fr rest ih => intro b; rw [List.cons_append, plugT_cons, plugT_cons, ih]

theorem mxOf_fill (S : α) (t : Viewshed.Tree α) (fr : TFr α) : mxOf S (fr.fill t) = fr.mx := by cases fr <;> rfl

theorem mxOf_plugT (S : α) : ∀ (fs : List (TFr α)) (t : Viewshed.Tree α), mxOf S (plugT t fs) = lastMx (mxOf S t) fs := by
  intro fs
  induction fs with
  | nil => intro t; rfl
  | cons fr rest ih => intro t; rw [plugT_cons, ih, mxOf_fill]; rfl

theorem setMx_setMx (fr : TFr α) (a b : α) : (fr.setMx a).setMx b = fr.setMx b := by cases fr <;> rfl
theorem setMx_self (fr : TFr α) : fr.setMx fr.mx = fr := by cases fr <;> rfl
theorem setMx_mx (fr : TFr α) (a : α) : (fr.setMx a).mx = a := by cases fr <;> rfl
theorem setMx_nd (fr : TFr α) (a : α) : (fr.setMx a).nd = fr.nd := by cases fr <;> rfl
theorem setMx_kids (S cm : α) (fr : TFr α) (a : α) : (fr.setMx a).kids S cm = fr.kids S cm := by cases fr <;> rfl

/-- the value loop L1 gives a frame: recomputed while the loop runs and the stored maximum equals `minv y` -/
def l1P1 (S yv : α) (run : Bool) (cm : α) (fr : TFr α) : α :=
  if (run && eqv fr.mx yv) then recompM (fr.kids S cm).1 (fr.kids S cm).2 (minv fr.nd) else fr.mx

/-- loop L1 carried along the ancestors: the frames afterwards, the maximum of the topmost one, whether L1 still runs -/
def l1Go (S yv : α) : Bool → α → List (TFr α) → List (TFr α) × α × Bool
  | run, cm, [] => ([], cm, run)
  | run, cm, fr :: rest =>
    (fr.setMx (l1P1 S yv run cm fr) :: (l1Go S yv (run && eqv fr.mx yv) (l1P1 S yv run cm fr) rest).1,
      (l1Go S yv (run && eqv fr.mx yv) (l1P1 S yv run cm fr) rest).2.1,
      (l1Go S yv (run && eqv fr.mx yv) (l1P1 S yv run cm fr) rest).2.2)

/-- the value loop L2 gives a frame -/
def l2V (S zg xpr cm : α) (fr : TFr α) : α :=
  if eqv fr.mx zg then
    (if !(eqv (minv fr.nd) zg) && !(eqv (fr.kids S cm).1 zg && eqv xpr zg) then fr.recompL S cm else fr.mx)
  else (if fr.mx < cm then cm else fr.mx)

theorem l2Step_eq (S zg xpr cm : α) (fr : TFr α) : l2Step eqv S zg xpr cm fr = some (l2V S zg xpr cm fr) := rfl

theorem ancFr_none (S : α) (fr : TFr α) (res : DelRes α) (hz : res.zg = none) (ha : res.atY = false) :
    ancFr S fr res = DelRes.mk ((fr.setMx (l1P1 S res.yv res.l1 res.m1 fr)).fill res.t)
        (l1P1 S res.yv res.l1 res.m1 fr)
        (res.l1 && eqv fr.mx res.yv)
        (res.yv)
        (false)
        (res.xpr)
        (none) := by
  cases fr <;>
    simp only [ancFr, ancestor, hz, ha, TFr.dir, TFr.nd, TFr.mx, TFr.col, TFr.sb, l1P1, TFr.kids, TFr.setMx, TFr.fill,
      Bool.false_eq_true, if_false]

theorem ancFr_some (S : α) (fr : TFr α) (res : DelRes α) (zg : α) (hz : res.zg = some zg) (ha : res.atY = false) :
    ancFr S fr res =
      DelRes.mk ((fr.setMx (l2V S zg res.xpr (mxOf S res.t) (fr.setMx (l1P1 S res.yv res.l1 res.m1 fr)))).fill res.t)
        (l1P1 S res.yv res.l1 res.m1 fr)
        (res.l1 && eqv fr.mx res.yv)
        (res.yv)
        (false)
        (res.xpr)
        (some zg) := by
  cases fr <;>
    simp only [ancFr, ancestor, hz, ha, TFr.dir, TFr.nd, TFr.mx, TFr.col, TFr.sb, l1P1, TFr.kids, TFr.setMx, TFr.fill,
      Bool.false_eq_true, if_false, l2V, TFr.recompL, recompM, mx2_eq_max, max_comm]

theorem ancFr_base (S : α) (fr : TFr α) (xT : Viewshed.Tree α) (yn : Node α) :
    ancFr S fr (baseRes S xT yn) =
      DelRes.mk ((fr.setMx (fr.recompF S (mxOf S xT))).fill xT)
        (l1P1 S (minv yn) true (mxOf S xT) fr)
        (eqv fr.mx (minv yn))
        (minv yn)
        (false)
        (xprOf S xT [fr])
        (none) := by
  cases fr <;>
    simp only [ancFr, ancestor, baseRes, TFr.dir, TFr.nd, TFr.mx, TFr.col, TFr.sb, l1P1, TFr.kids, TFr.setMx, TFr.fill,
      Bool.true_and, if_true, TFr.recompF, recompM, xprOf]

/-- below `z`: the fold is loop L1 carried along -/
theorem foldAnc_below (S : α) : ∀ (fs : List (TFr α)) (res : DelRes α), res.zg = none → res.atY = false →
    foldAnc S res fs = DelRes.mk (plugT res.t (l1Go S res.yv res.l1 res.m1 fs).1)
        ((l1Go S res.yv res.l1 res.m1 fs).2.1)
        ((l1Go S res.yv res.l1 res.m1 fs).2.2)
        (res.yv)
        (false)
        (res.xpr)
        (none) := by
  intro fs
  induction fs with
  | nil => intro res hz ha; exact DelRes.ext' rfl rfl rfl rfl ha rfl hz
  | cons fr rest ih =>
    intro res hz ha
    rw [foldAnc_cons, ancFr_none S fr res hz ha, ih _ rfl rfl]
    exact DelRes.ext' (by simp only [l1Go]; rw [plugT_cons]) rfl rfl rfl rfl rfl rfl

/-- above `z`: the fold is loop L1 carried along, then loop L2 over the result -/
theorem foldAnc_above (S : α) (zg : α) : ∀ (fs : List (TFr α)) (res : DelRes α), res.zg = some zg → res.atY = false →
    foldAnc S res fs =
      DelRes.mk (plugT res.t (scanT (l2Step eqv S zg res.xpr) (mxOf S res.t) (l1Go S res.yv res.l1 res.m1 fs).1))
        ((l1Go S res.yv res.l1 res.m1 fs).2.1)
        ((l1Go S res.yv res.l1 res.m1 fs).2.2)
        (res.yv)
        (false)
        (res.xpr)
        (some zg) := by
  intro fs
  induction fs with
  | nil => intro res hz ha; exact DelRes.ext' rfl rfl rfl rfl ha rfl hz
  | cons fr rest ih =>
    intro res hz ha
    rw [foldAnc_cons, ancFr_some S fr res zg hz ha, ih _ rfl rfl]
    refine DelRes.ext' ?_ rfl rfl rfl rfl rfl rfl
    simp only [l1Go, scanT, l2Step_eq, mxOf_fill, setMx_mx, setMx_setMx]
    rw [plugT_cons]

theorem l1Go_stopped (S yv : α) : ∀ (fs : List (TFr α)) (cm : α), (l1Go S yv false cm fs).1 = fs := by
  intro fs
  induction fs with
  | nil => intro cm; rfl
  | cons fr rest ih =>
    intro cm
    simp only [l1Go, l1P1, Bool.false_and, Bool.false_eq_true, if_false, setMx_self, ih]

/-- **loop L1 carried along is the pass of the code** -/
theorem l1Go_run (S yv : α) : ∀ (fs : List (TFr α)) (cm : α),
    (l1Go S yv true cm fs).1 = scanT (l1Step eqv S yv) cm fs := by
  intro fs
  induction fs with
  | nil => intro cm; rfl
  | cons fr rest ih =>
    intro cm
    by_cases h : eqv fr.mx yv = true
    · have e : fr.recompL S cm = recompM (fr.kids S cm).1 (fr.kids S cm).2 (minv fr.nd) := by
        simp only [TFr.recompL, recompM, mx2_eq_max, max_comm]
      simp only [l1Go, l1P1, Bool.true_and, h, if_true, scanT, l1Step, e, ih]
    · have h' : eqv fr.mx yv = false := by
        cases hh : eqv fr.mx yv
        · rfl
        · exact absurd hh h
      simp only [l1Go, l1P1, Bool.true_and, h', Bool.false_eq_true, if_false, scanT, l1Step, setMx_self, l1Go_stopped]

theorem l1Go_append (S yv : α) : ∀ (a b : List (TFr α)) (run : Bool) (cm : α),
    l1Go S yv run cm (a ++ b) =
      ((l1Go S yv run cm a).1 ++ (l1Go S yv (l1Go S yv run cm a).2.2 (l1Go S yv run cm a).2.1 b).1,
        (l1Go S yv (l1Go S yv run cm a).2.2 (l1Go S yv run cm a).2.1 b).2.1,
        (l1Go S yv (l1Go S yv run cm a).2.2 (l1Go S yv run cm a).2.1 b).2.2) := by
  intro a
  induction a with
  | nil => intro b run cm; rfl
  | cons fr rest ih =>
    intro b run cm
    simp only [List.cons_append, l1Go, ih]

theorem l1Go_length (S yv : α) : ∀ (fs : List (TFr α)) (run : Bool) (cm : α), (l1Go S yv run cm fs).1.length = fs.length := by
  intro fs
  induction fs with
  | nil => intro run cm; rfl
  | cons fr rest ih => intro run cm; simp only [l1Go, List.length_cons, ih]

/-- loop L1 and F1 on a non-empty list of ancestors -/
theorem l1f1T_cons (S : α) (xT : Viewshed.Tree α) (yn : Node α) (f0 : TFr α) (rest : List (TFr α)) :
    l1f1T eqv S xT yn (f0 :: rest) =
      (xT, f0.setMx (f0.recompF S (mxOf S xT)) ::
        (l1Go S (minv yn) (eqv f0.mx (minv yn)) (l1P1 S (minv yn) true (mxOf S xT) f0) rest).1) := by
  have hrf : ∀ a : α, (f0.setMx a).recompF S (mxOf S xT) = f0.recompF S (mxOf S xT) := fun a => by
    cases f0 <;> rfl
  by_cases h : eqv f0.mx (minv yn) = true
  · have e : f0.recompL S (mxOf S xT) = recompM (f0.kids S (mxOf S xT)).1 (f0.kids S (mxOf S xT)).2 (minv f0.nd) := by
      simp only [TFr.recompL, recompM, mx2_eq_max, max_comm]
    simp only [l1f1T, scanT, l1Step, h, if_true, hrf, setMx_setMx, l1P1, Bool.true_and, e, l1Go_run]
  · have h' : eqv f0.mx (minv yn) = false := by
      cases hh : eqv f0.mx (minv yn)
      · rfl
      · exact absurd hh h
    simp only [l1f1T, scanT, l1Step, h', Bool.false_eq_true, if_false, l1Go_stopped]

theorem xprOf_setMx (S : α) (xT : Viewshed.Tree α) (f0 : TFr α) (a : α) (rest rest' : List (TFr α)) :
    xprOf S xT (f0.setMx a :: rest) = xprOf S xT (f0 :: rest') := by cases f0 <;> rfl

/-! ### the passes are the recursion -/

/-- no successor: loop L1 and F1 -/
theorem foldAnc_plain (S : α) (xT : Viewshed.Tree α) (yn : Node α) (fs : List (TFr α)) :
    (if (foldAnc S (baseRes S xT yn) fs).atY then refresh S (foldAnc S (baseRes S xT yn) fs).t
      else (foldAnc S (baseRes S xT yn) fs).t) =
      plugT (delPassT eqv S xT yn fs none).1 (delPassT eqv S xT yn fs none).2 := by
  cases fs with
  | nil => rfl
  | cons f0 rest =>
    rw [foldAnc_cons, ancFr_base, foldAnc_below S rest _ rfl rfl]
    simp only [delPassT, l1f1T_cons, Bool.false_eq_true, if_false]
    rw [plugT_cons]

/-- the successor case: loop L1, F1, C at `z`, loop L2 above -/
theorem foldAnc_succ (S : α) (l : Viewshed.Tree α) (n : Node α) (mx : α) (c : Bool) (yn : Node α) (yr : Viewshed.Tree α)
    (below above : List (TFr α)) :
    (foldAnc S (zStep S l n mx c yn (foldAnc S (baseRes S yr yn) below)) above).t =
      plugT (delPassT eqv S yr yn (below ++ .R l n mx c :: above) (some below.length)).1
        (delPassT eqv S yr yn (below ++ .R l n mx c :: above) (some below.length)).2 ∧
    (foldAnc S (zStep S l n mx c yn (foldAnc S (baseRes S yr yn) below)) above).atY = false := by
  cases below with
  | nil =>
    rw [foldAnc_nil, foldAnc_above S (minv n) above _ rfl rfl]
    refine ⟨?_, rfl⟩
    simp only [zStep, baseRes, delPassT, List.nil_append, List.length_nil, l1f1T_cons, cl2T, TFr.setMx, TFr.setNd,
      TFr.recompF, TFr.kids, TFr.nd, TFr.mx, xprOf, l1P1, Bool.true_and, if_true, plugT, mxOf, recompM]
  | cons b0 brest =>
    rw [foldAnc_cons, ancFr_base, foldAnc_below S brest _ rfl rfl, foldAnc_above S (minv n) above _ rfl rfl]
    refine ⟨?_, rfl⟩
    obtain ⟨B, hB⟩ : ∃ B, B = l1Go S (minv yn) (eqv b0.mx (minv yn)) (l1P1 S (minv yn) true (mxOf S yr) b0) brest := ⟨_, rfl⟩
    obtain ⟨b0', hb0⟩ : ∃ b0', b0' = b0.setMx (b0.recompF S (mxOf S yr)) := ⟨_, rfl⟩
    rw [← hB, ← hb0]
    dsimp only [zStep]
    simp only [Bool.false_eq_true, if_false]
    -- the pass side
    obtain ⟨pz, hpz⟩ : ∃ pz, pz = (if (B.2.2 && eqv mx (minv yn)) then recompM (mxOf S l) B.2.1 (minv n) else mx) := ⟨_, rfl⟩
    obtain ⟨A1, hA1⟩ : ∃ A1, A1 = (l1Go S (minv yn) (B.2.2 && eqv mx (minv yn)) pz above).1 := ⟨_, rfl⟩
    rw [← hpz, ← hA1]
    have hL : l1f1T eqv S yr yn ((b0 :: brest) ++ TFr.R l n mx c :: above) = (yr, (b0' :: B.1) ++ TFr.R l n pz c :: A1) := by
      rw [List.cons_append, l1f1T_cons, l1Go_append, ← hB, ← hb0, hA1, hpz]
      rfl
    have hj : (b0 :: brest).length = (b0' :: B.1).length := by
      rw [hB]; simp only [List.length_cons, l1Go_length]
    have hTb : plugT (b0'.fill yr) B.1 = plugT yr (b0' :: B.1) := (plugT_cons yr b0' B.1).symm
    have hxp : xprOf S yr ((b0' :: B.1) ++ TFr.R l n pz c :: A1) = xprOf S yr [b0] := by
      rw [List.cons_append, hb0]; exact xprOf_setMx S yr b0 _ _ []
    simp only [delPassT, hL]
    rw [hj, cl2T_append, hxp, hTb, plugT_append, mxOf_plugT]
    rfl

/-- **the pass form is the hand model's recursion**: with the key found at `(l, n, mx, c, r)` below the ancestors `fs`,
    `delCore` is the tree after the four passes of the code -/
theorem delPassT_eq_delCore (S k : α) (t : Viewshed.Tree α) (l : Viewshed.Tree α) (n : Node α) (mx : α) (c : Bool)
    (r : Viewshed.Tree α) (fs : List (TFr α)) (hf : findTZ k t [] = some (l, n, mx, c, r, fs)) :
    delCore S k t = some (plugT
      (delPassT eqv S (splicePosT l n mx c r fs).1 (splicePosT l n mx c r fs).2.1 (splicePosT l n mx c r fs).2.2.2.1
        (splicePosT l n mx c r fs).2.2.2.2).1
      (delPassT eqv S (splicePosT l n mx c r fs).1 (splicePosT l n mx c r fs).2.1 (splicePosT l n mx c r fs).2.2.2.1
        (splicePosT l n mx c r fs).2.2.2.2).2) := by
  obtain ⟨fs', e1, e2⟩ := del_fold S k t [] l n mx c r fs hf
  rw [List.append_nil] at e1
  subst e1
  unfold delCore
  rw [e2]
  cases l with
  | nil =>
    simp only [delHere, Option.map_some, splicePosT]
    exact congrArg some (foldAnc_plain S r n fs)
  | node a b bm bc cc =>
    cases r with
    | nil =>
      simp only [delHere, Option.map_some, splicePosT]
      exact congrArg some (foldAnc_plain S _ n fs)
    | node rl m mm mc rr =>
      obtain ⟨below, h1, h2⟩ := delMin_fold S rl m mm mc rr (.R (.node a b bm bc cc) n mx c :: fs)
      have hlen : (leftmostTZ rl m mm mc rr (.R (.node a b bm bc cc) n mx c :: fs)).2.2.2.length - (fs.length + 1) =
          below.length := by rw [h1]; simp
      simp only [delHere, h2, Option.map_some, splicePosT, hlen]
      rw [h1]
      obtain ⟨g1, g2⟩ := foldAnc_succ S (.node a b bm bc cc) n mx c _ _ below fs
      rw [g2]
      exact congrArg some g1

/-! ### the complete deletion -/

theorem isNil_eq (t : Viewshed.Tree α) : isNil t = isNilT t := by cases t <;> rfl

theorem minInfo_leftmost : ∀ (rl : Viewshed.Tree α) (m : Node α) (mm : α) (mc : Bool) (rr : Viewshed.Tree α)
    (acc : List (TFr α)),
    minInfo rl mc rr (acc.map TFr.dir) =
      ((leftmostTZ rl m mm mc rr acc).2.2.2.map TFr.dir, (leftmostTZ rl m mm mc rr acc).2.1,
        isNilT (leftmostTZ rl m mm mc rr acc).2.2.1) := by
  intro rl
  induction rl with
  | nil => intro m mm mc rr acc; simp only [minInfo, leftmostTZ, isNil_eq]
  | node a b bm bc cc iha _ =>
    intro m mm mc rr acc
    exact iha b bm bc cc (.L m mm mc rr :: acc)

theorem spliceInfo_findTZ (k : α) : ∀ (t : Viewshed.Tree α) (acc : List (TFr α)),
    spliceInfo k t (acc.map TFr.dir) =
      (findTZ k t acc).map fun p =>
        ((splicePosT p.1 p.2.1 p.2.2.1 p.2.2.2.1 p.2.2.2.2.1 p.2.2.2.2.2).2.2.2.1.map TFr.dir,
          (splicePosT p.1 p.2.1 p.2.2.1 p.2.2.2.1 p.2.2.2.2.1 p.2.2.2.2.2).2.2.1,
          isNilT (splicePosT p.1 p.2.1 p.2.2.1 p.2.2.2.1 p.2.2.2.2.1 p.2.2.2.2.2).1) := by
  intro t
  induction t with
  | nil => intro acc; rfl
  | node l n mx c r ihl ihr =>
    intro acc
    simp only [spliceInfo, findTZ]
    by_cases h1 : k < n.key
    · rw [if_pos h1, if_pos h1]; exact ihl (.L n mx c r :: acc)
    · rw [if_neg h1, if_neg h1]
      by_cases h2 : n.key < k
      · rw [if_pos h2, if_pos h2]; exact ihr (.R l n mx c :: acc)
      · rw [if_neg h2, if_neg h2]
        cases l with
        | nil => simp only [Option.map_some, splicePosT, isNil_eq]
        | node a b bm bc cc =>
          cases r with
          | nil => simp only [Option.map_some, splicePosT, isNilT]
          | node rl m mm mc rr =>
            simp only [Option.map_some, splicePosT]
            exact congrArg some (minInfo_leftmost rl m mm mc rr (.R (.node a b bm bc cc) n mx c :: acc))

/-- **over a linear order the deletion as the code has it is the hand model's deletion** -/
theorem rbDeleteP_eq_rbDelete (S k : α) (t : Viewshed.Tree α) : rbDeleteP eqv S k t = rbDelete S k t := by
  unfold rbDeleteP rbDelete
  have hsi := spliceInfo_findTZ k t []
  rw [List.map_nil] at hsi
  rw [hsi]
  cases hf : findTZ k t [] with
  | none => rfl
  | some p =>
    obtain ⟨l, n, mx, c, r, fs⟩ := p
    simp only [Option.map_some]
    rw [delPassT_eq_delCore S k t l n mx c r fs hf]
    rfl

end
end XrsVerif.ILVs
