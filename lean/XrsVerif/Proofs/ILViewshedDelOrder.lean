import XrsVerif.Proofs.ILViewshedDelModel
import XrsVerif.Proofs.ILViewshedFixOrder
/-
  Proofs/ILViewshedDelOrder.lean -- the code-form deletion `rbDeleteP` commutes with the embedding of a tree over a
  linearly ordered field `K` into the ILang value domain `NV K` (`rbDeleteP_emb`); hence the generated
  `_delete_from_tree`, run at `NV K` on arrays holding the image of a tree `t0`, leaves the image of the hand model's
  `rbDelete S k t0` -- `delCore` followed by the colour fix-up -- (`vsDelete_model`).
-/
set_option linter.unusedSectionVars false
set_option linter.unusedVariables false
set_option linter.unusedSimpArgs false
namespace XrsVerif.ILVs
open XrsVerif XrsVerif.IL XrsVerif.Viewshed

section field
variable {K : Type} [Field K] [LinearOrder K] [IsStrictOrderedRing K] [Trig K]

/-- the image of a frame -/
def mapFr : TFr K → TFr (Fv (NV K))
  | .L n mx c r => .L (mapN emb n) (emb mx) c (mapT emb r)
  | .R l n mx c => .R (mapT emb l) (mapN emb n) (emb mx) c

theorem feq_emb (a b : K) : feq (emb a) (emb b) = eqv a b := by
  show Fl.eq (some a : NV K) (some b) = _
  by_cases h : a = b
  · subst h; simp [eqv]
  · have : eqv a b = false := by
      rw [Bool.eq_false_iff]; exact fun h' => h ((eqv_iff _ _).mp h')
    rw [this]; simp [h]

theorem mapFr_mx (f : TFr K) : (mapFr f).mx = emb f.mx := by cases f <;> rfl
theorem mapFr_nd (f : TFr K) : (mapFr f).nd = mapN emb f.nd := by cases f <;> rfl
theorem mapFr_dir (f : TFr K) : (mapFr f).dir = f.dir := by cases f <;> rfl
theorem mapFr_setMx (f : TFr K) (a : K) : (mapFr f).setMx (emb a) = mapFr (f.setMx a) := by cases f <;> rfl
theorem mapFr_setNd (f : TFr K) (n : Viewshed.Node K) : (mapFr f).setNd (mapN emb n) = mapFr (f.setNd n) := by cases f <;> rfl
theorem mapFr_kids (S cm : K) (f : TFr K) :
    (mapFr f).kids (emb S) (emb cm) = (emb (f.kids S cm).1, emb (f.kids S cm).2) := by
  cases f <;> simp only [mapFr, TFr.kids, mxOf_emb]
theorem mapFr_recompL (S cm : K) (f : TFr K) : (mapFr f).recompL (emb S) (emb cm) = emb (f.recompL S cm) := by
  simp only [TFr.recompL, mapFr_kids, mapFr_nd, minv_emb, mx2_emb]
theorem mapFr_recompF (S cm : K) (f : TFr K) : (mapFr f).recompF (emb S) (emb cm) = emb (f.recompF S cm) := by
  simp only [TFr.recompF, mapFr_kids, mapFr_nd, minv_emb, mx2_emb]

theorem map_dir_mapFr (fs : List (TFr K)) : (fs.map mapFr).map TFr.dir = fs.map TFr.dir := by
  rw [List.map_map]; exact List.map_congr_left (fun f _ => mapFr_dir f)

theorem plugT_emb : ∀ (fs : List (TFr K)) (t : Viewshed.Tree K), plugT (mapT emb t) (fs.map mapFr) = mapT emb (plugT t fs) := by
  intro fs
  induction fs with
  | nil => intro t; rfl
  | cons f rest ih =>
    intro t
    cases f with
    | L n mx c r => exact ih (.node t n mx c r)
    | R l n mx c => exact ih (.node l n mx c t)

theorem isNilT_emb (t : Viewshed.Tree K) : isNilT (mapT emb t) = isNilT t := by cases t <;> rfl

theorem scanT_emb (step' : Fv (NV K) → TFr (Fv (NV K)) → Option (Fv (NV K))) (step : K → TFr K → Option K)
    (h : ∀ cm fr, step' (emb cm) (mapFr fr) = (step cm fr).map emb) : ∀ (fs : List (TFr K)) (cm : K),
    scanT step' (emb cm) (fs.map mapFr) = (scanT step cm fs).map mapFr := by
  intro fs
  induction fs with
  | nil => intro cm; rfl
  | cons f rest ih =>
    intro cm
    simp only [List.map_cons, scanT, h]
    cases hs : step cm f with
    | none => rfl
    | some m => simp only [Option.map_some, List.map_cons, mapFr_setMx, ih]

theorem l1Step_emb (S yv cm : K) (fr : TFr K) :
    l1Step feq (emb S) (emb yv) (emb cm) (mapFr fr) = (l1Step eqv S yv cm fr).map emb := by
  simp only [l1Step, mapFr_mx, feq_emb, mapFr_recompL]
  split <;> rfl

theorem l2Step_emb (S zg xpr cm : K) (fr : TFr K) :
    l2Step feq (emb S) (emb zg) (emb xpr) (emb cm) (mapFr fr) = (l2Step eqv S zg xpr cm fr).map emb := by
  simp only [l2Step, mapFr_mx, mapFr_nd, minv_emb, mapFr_kids, feq_emb, mapFr_recompL, emb_lt, Option.map_some]
  congr 1
  split
  · split <;> rfl
  · split <;> rfl

theorem cl2T_emb (S : K) (yn : Viewshed.Node K) (xpr : K) : ∀ (j : Nat) (cm : K) (fs : List (TFr K)),
    cl2T feq (emb S) (mapN emb yn) (emb xpr) j (emb cm) (fs.map mapFr) = (cl2T eqv S yn xpr j cm fs).map mapFr := by
  intro j
  induction j with
  | zero =>
    intro cm fs
    cases fs with
    | nil => rfl
    | cons zf above =>
      simp only [List.map_cons, cl2T, mapFr_setNd, mapFr_recompF, mapFr_setMx, mapFr_nd, minv_emb]
      rw [scanT_emb _ _ (fun cm fr => l2Step_emb S (minv zf.nd) xpr cm fr)]
  | succ j ih =>
    intro cm fs
    cases fs with
    | nil => rfl
    | cons fr rest => simp only [List.map_cons, cl2T, mapFr_mx, ih]

theorem xprOf_emb (S : K) (xT : Viewshed.Tree K) (fs : List (TFr K)) :
    xprOf (emb S) (mapT emb xT) (fs.map mapFr) = emb (xprOf S xT fs) := by
  cases fs with
  | nil => rfl
  | cons f rest => cases f <;> simp only [List.map_cons, mapFr, xprOf, mxOf_emb]

theorem refresh_emb (S : K) (t : Viewshed.Tree K) : refresh (emb S) (mapT emb t) = mapT emb (refresh S t) := by
  cases t with
  | nil => rfl
  | node l n mx c r => simp only [mapT, refresh, recomp, mxOf_emb, minv_emb, mx2_emb]

theorem l1f1T_emb (S : K) (xT : Viewshed.Tree K) (yn : Viewshed.Node K) (fs : List (TFr K)) :
    l1f1T feq (emb S) (mapT emb xT) (mapN emb yn) (fs.map mapFr) =
      (mapT emb (l1f1T eqv S xT yn fs).1, (l1f1T eqv S xT yn fs).2.map mapFr) := by
  simp only [l1f1T, minv_emb, mxOf_emb]
  rw [scanT_emb _ _ (fun cm fr => l1Step_emb S (minv yn) cm fr)]
  cases scanT (l1Step eqv S (minv yn)) (mxOf S xT) fs with
  | nil => simp only [List.map_nil, refresh_emb]
  | cons f rest => simp only [List.map_cons, mapFr_recompF, mapFr_setMx]

theorem delPassT_emb (S : K) (xT : Viewshed.Tree K) (yn : Viewshed.Node K) (fs : List (TFr K)) (jz : Option Nat) :
    delPassT feq (emb S) (mapT emb xT) (mapN emb yn) (fs.map mapFr) jz =
      (mapT emb (delPassT eqv S xT yn fs jz).1, (delPassT eqv S xT yn fs jz).2.map mapFr) := by
  cases jz with
  | none => exact l1f1T_emb S xT yn fs
  | some j =>
    simp only [delPassT, l1f1T_emb, xprOf_emb, mxOf_emb, cl2T_emb]

/-! ### the fix-up -/

theorem dfB_emb (S : K) (dx : Dir) (c1 : Bool) (rq1 : List Dir)
    (k' : Viewshed.Tree (Fv (NV K)) → Viewshed.Tree (Fv (NV K)) × List Dir) (k : Viewshed.Tree K → Viewshed.Tree K × List Dir)
    (hk : ∀ u, k' (mapT emb u) = (mapT emb (k u).1, (k u).2)) (t1 : Viewshed.Tree K) :
    dfB (emb S) dx c1 rq1 k' (mapT emb t1) = (mapT emb (dfB S dx c1 rq1 k t1).1, (dfB S dx c1 rq1 k t1).2) := by
  have hc := fun (c : Bool) (p : List Dir) (u : Viewshed.Tree K) => atPath_emb _ _ (setCol_emb c) p u
  have hr := fun (d : Dir) (p : List Dir) (u : Viewshed.Tree K) => atPath_emb _ _ (rotD_emb S d) p u
  simp only [dfB, subAt_emb]
  cases hw : subAt (rq1.reverse ++ [dx.flip]) t1 with
  | nil =>
    simp only [mapT]
    cases c1 <;> simp [hk]
  | node wl wn wm wc wr =>
    simp only [mapT]
    cases dx <;> simp only [isRed_emb] <;> split
    · cases c1 <;> simp [hk, hc]
    · split <;> simp only [hc, hr, subAt_emb, isRed_emb]
    · cases c1 <;> simp [hk, hc]
    · split <;> simp only [hc, hr, subAt_emb, isRed_emb]

theorem delFixP_emb (S : K) : ∀ (rp : List Dir) (t : Viewshed.Tree K),
    delFixP (emb S) rp (mapT emb t) = (mapT emb (delFixP S rp t).1, (delFixP S rp t).2) := by
  intro rp
  induction rp with
  | nil => intro t; simp [delFixP]
  | cons dx rq ih =>
    intro t
    have hc := fun (c : Bool) (p : List Dir) (u : Viewshed.Tree K) => atPath_emb _ _ (setCol_emb c) p u
    have hr := fun (d : Dir) (p : List Dir) (u : Viewshed.Tree K) => atPath_emb _ _ (rotD_emb S d) p u
    simp only [delFixP, subAt_emb, isRed_emb]
    split
    · rfl
    · split
      · rw [hc, hc, hr]
        exact dfB_emb S dx true (dx :: rq) _ _ ih _
      · exact dfB_emb S dx false rq _ _ ih _

theorem rbDelFix_emb (S : K) (rp : List Dir) (t : Viewshed.Tree K) :
    rbDelFix (emb S) rp (mapT emb t) = mapT emb (rbDelFix S rp t) := by
  unfold rbDelFix
  rw [delFixP_emb]
  exact atPath_emb _ _ (setCol_emb false) _ _

/-! ### positions -/

theorem findTZ_emb (k : K) : ∀ (t : Viewshed.Tree K) (acc : List (TFr K)),
    findTZ (emb k) (mapT emb t) (acc.map mapFr) =
      (findTZ k t acc).map fun p =>
        (mapT emb p.1, mapN emb p.2.1, emb p.2.2.1, p.2.2.2.1, mapT emb p.2.2.2.2.1, p.2.2.2.2.2.map mapFr) := by
  intro t
  induction t with
  | nil => intro acc; rfl
  | node l n mx c r ihl ihr =>
    intro acc
    have hk1 : (emb k < (mapN emb n).key) ↔ k < n.key := by simp only [mapN, emb_lt]
    have hk2 : ((mapN emb n).key < emb k) ↔ n.key < k := by simp only [mapN, emb_lt]
    simp only [mapT, findTZ, hk1, hk2]
    split
    · exact ihl (.L n mx c r :: acc)
    · split
      · exact ihr (.R l n mx c :: acc)
      · rfl

theorem leftmostTZ_emb : ∀ (rl : Viewshed.Tree K) (m : Viewshed.Node K) (mm : K) (mc : Bool) (rr : Viewshed.Tree K)
    (acc : List (TFr K)),
    leftmostTZ (mapT emb rl) (mapN emb m) (emb mm) mc (mapT emb rr) (acc.map mapFr) =
      (mapN emb (leftmostTZ rl m mm mc rr acc).1, (leftmostTZ rl m mm mc rr acc).2.1,
        mapT emb (leftmostTZ rl m mm mc rr acc).2.2.1, (leftmostTZ rl m mm mc rr acc).2.2.2.map mapFr) := by
  intro rl
  induction rl with
  | nil => intro m mm mc rr acc; rfl
  | node a b bm bc cc iha _ =>
    intro m mm mc rr acc
    exact iha b bm bc cc (.L m mm mc rr :: acc)

theorem splicePosT_emb (l : Viewshed.Tree K) (n : Viewshed.Node K) (mx : K) (c : Bool) (r : Viewshed.Tree K)
    (acc : List (TFr K)) :
    splicePosT (mapT emb l) (mapN emb n) (emb mx) c (mapT emb r) (acc.map mapFr) =
      (mapT emb (splicePosT l n mx c r acc).1, mapN emb (splicePosT l n mx c r acc).2.1,
        (splicePosT l n mx c r acc).2.2.1, (splicePosT l n mx c r acc).2.2.2.1.map mapFr,
        (splicePosT l n mx c r acc).2.2.2.2) := by
  cases l with
  | nil => rfl
  | node a b bm bc cc =>
    cases r with
    | nil => rfl
    | node rl m mm mc rr =>
      have h := leftmostTZ_emb rl m mm mc rr (.R (.node a b bm bc cc) n mx c :: acc)
      simp only [mapT, splicePosT]
      have h' : leftmostTZ (mapT emb rl) (mapN emb m) (emb mm) mc (mapT emb rr)
          (TFr.R (Viewshed.Tree.node (mapT emb a) (mapN emb b) (emb bm) bc (mapT emb cc)) (mapN emb n) (emb mx) c ::
            acc.map mapFr) = _ := h
      rw [h']
      simp only [List.length_map]

/-- **the code-form deletion commutes with the embedding** -/
theorem rbDeleteP_emb (S k : K) (t : Viewshed.Tree K) :
    rbDeleteP feq (emb S) (emb k) (mapT emb t) = (rbDeleteP eqv S k t).map (mapT emb) := by
  unfold rbDeleteP
  have hf := findTZ_emb k t []
  rw [List.map_nil] at hf
  rw [hf]
  cases findTZ k t [] with
  | none => rfl
  | some p =>
    simp only [Option.map_some, splicePosT_emb, rbDeleteAt, delPassT_emb, plugT_emb, isNilT_emb, map_dir_mapFr,
      rbDelFix_emb]
    congr 1
    split <;> rfl

/-- **the generated `_delete_from_tree` computes the hand model's complete deletion** -/
theorem vsDelete_model (s : State (NV K)) (fuel n : Nat) (hv : VS s n) (hrun : s.ctl = .run) (sh : Sh)
    (hL : Linked (s.ia "tree_nodes") n (-1) sh) (hN : sh.idxs.Nodup) (hroot : s.ienv "root" = sh.ptr)
    (l : Sh) (z : Nat) (r : Sh) (ctx : Ctx)
    (hfind : findZ (s.fa "tree_vals") ⟨s.fenv "key"⟩ sh [] = some (l, z, r, ctx))
    (hbig : ¬ (l = .nil ∧ r = .nil ∧ ctx = []))
    (hnil : nAt (s.ia "tree_nodes") (n - 1) 0 = 1) (hcol : ∀ j ∈ sh.idxs, ColV (nAt (s.ia "tree_nodes") j 0))
    (hf : sh.height + 2 ≤ fuel) (S : K) (hS : vAt (s.fa "tree_vals") (n - 1) 7 = emb S)
    (t0 : Viewshed.Tree K) (k : K) (habs : absT (s.fa "tree_vals") (s.ia "tree_nodes") sh = mapT emb t0)
    (hkey : s.fenv "key" = some k) :
    let q := Gen.IL.vsDelete.run s fuel
    q.ctl = .ret ∧ VS q n ∧ ∃ (sh' : Sh) (t1 : Viewshed.Tree K), rbDelete S k t0 = some t1 ∧
      Linked (q.ia "tree_nodes") n (-1) sh' ∧ sh'.idxs.Nodup ∧
      ((splicePos l z r ctx).2.1 :: sh'.idxs).Perm sh.idxs ∧
      absT (q.fa "tree_vals") (q.ia "tree_nodes") sh' = mapT emb t1 ∧
      q.ienv "ret0" = sh'.ptr ∧ q.ienv "ret1" = (splicePos l z r ctx).2.1 ∧ vAt (q.fa "tree_vals") (n - 1) 7 = emb S ∧
      nAt (q.ia "tree_nodes") (n - 1) 0 = 1 ∧ (∀ j ∈ sh'.idxs, ColV (nAt (q.ia "tree_nodes") j 0)) := by
  intro q
  obtain ⟨c1, c2, sh', c3, c4, c5, c6, c7, c8, c9, c10, c11, _⟩ :=
    vsDelete_refines_tree s fuel n hv hrun sh hL hN hroot l z r ctx hfind hbig hnil hcol hf
  have hK : (⟨s.fenv "key"⟩ : Fv (NV K)) = emb k := by rw [hkey]; rfl
  rw [habs, hS, hK, rbDeleteP_emb, rbDeleteP_eq_rbDelete] at c6
  cases hd : rbDelete S k t0 with
  | none => rw [hd] at c6; simp at c6
  | some t1 =>
    rw [hd] at c6
    simp only [Option.map_some, Option.some.injEq] at c6
    exact ⟨c1, c2, sh', t1, rfl, c3, c4, c5, c6.symm, c7, c8, by rw [c9, hS], c10, c11⟩

end field
end XrsVerif.ILVs
