import XrsVerif.Proofs.AStarInv
import Mathlib.Algebra.Order.Floor.Ring
import Mathlib.Data.Rat.Floor
import Mathlib.Tactic.Ring
import Mathlib.Tactic.Linarith
import Mathlib.Tactic.FieldSimp
/-
  Coordinates -> cells (`pixelId`, over `Rat`) and snapping (`findNearest`).
-/
set_option linter.unusedSectionVars false
set_option linter.unusedVariables false
namespace XrsVerif.AStar

theorem absR_eq_abs (q : ℚ) : absR q = |q| := by
  unfold absR
  split
  · rename_i h; rw [abs_of_neg h]
  · rename_i h; rw [abs_of_nonneg (not_lt.mp h)]

theorem pixelId_eq_floor (c0 cs p : ℚ) : pixelId c0 cs p = ⌊|p - c0| / cs + 1 / 2⌋ := by
  unfold pixelId; rw [absR_eq_abs]; rfl

/-- the index is the integer nearest to `|p - c0| / cellsize` (ties upward) -/
theorem pixelId_bounds (c0 cs p : ℚ) :
    (pixelId c0 cs p : ℚ) - 1 / 2 ≤ |p - c0| / cs ∧ |p - c0| / cs < (pixelId c0 cs p : ℚ) + 1 / 2 := by
  rw [pixelId_eq_floor]
  have h1 := Int.floor_le (|p - c0| / cs + 1 / 2)
  have h2 := Int.lt_floor_add_one (|p - c0| / cs + 1 / 2)
  constructor <;> linarith

/-- a cell's own coordinate denotes that cell: any first centre `c0`, any non-zero (positive or
    negative, fractional) spacing, any index -/
theorem pixelId_own (c0 step : ℚ) (hstep : step ≠ 0) (i : ℕ) :
    pixelId c0 (absR step) (c0 + (i : ℚ) * step) = (i : ℤ) := by
  rw [pixelId_eq_floor, absR_eq_abs]
  have hpos : 0 < |step| := abs_pos.mpr hstep
  have : |c0 + (i : ℚ) * step - c0| / |step| = (i : ℚ) := by
    rw [add_sub_cancel_left, abs_mul, abs_of_nonneg (by positivity : (0 : ℚ) ≤ (i : ℚ))]
    field_simp
  rw [this, Int.floor_eq_iff]
  constructor <;> push_cast <;> linarith

/-- the index is that of the nearest centre: no other centre `c0 + j*step` is closer to `p`
    (for `p` on the raster's side of the first centre) -/
theorem pixelId_nearest (c0 step p : ℚ) (hstep : step ≠ 0) (hside : 0 ≤ (p - c0) / step) (j : ℤ) :
    |p - (c0 + (pixelId c0 (absR step) p : ℚ) * step)| ≤ |p - (c0 + (j : ℚ) * step)| := by
  obtain ⟨h1, h2⟩ := pixelId_bounds c0 (absR step) p
  rw [absR_eq_abs] at h1 h2 ⊢
  generalize pixelId c0 |step| p = k at *
  have hpos : 0 < |step| := abs_pos.mpr hstep
  -- t = (p - c0)/step is the position of p in units of cells
  have ht : |p - c0| / |step| = (p - c0) / step := by
    rw [← abs_div, abs_of_nonneg hside]
  rw [ht] at h1 h2
  have key : ∀ m : ℤ, |p - (c0 + (m : ℚ) * step)| = |(p - c0) / step - (m : ℚ)| * |step| := by
    intro m
    rw [← abs_mul]
    congr 1
    field_simp
    ring
  rw [key k, key j]
  apply mul_le_mul_of_nonneg_right _ (le_of_lt hpos)
  have hk : |(p - c0) / step - (k : ℚ)| ≤ 1 / 2 := by
    rw [abs_le]; constructor <;> linarith
  by_cases hjk : j = k
  · rw [hjk]
  · -- another integer is at least 1/2 away
    have hk2 : (k : ℚ) - 1 / 2 ≤ (p - c0) / step ∧ (p - c0) / step < (k : ℚ) + 1 / 2 := ⟨h1, h2⟩
    rcases lt_or_gt_of_ne hjk with hlt | hgt
    · have : (j : ℚ) + 1 ≤ (k : ℚ) := by exact_mod_cast hlt
      have : 1 / 2 ≤ (p - c0) / step - (j : ℚ) := by linarith
      exact le_trans hk (le_trans this (le_abs_self _))
    · have : (k : ℚ) + 1 ≤ (j : ℚ) := by exact_mod_cast hgt
      have : 1 / 2 ≤ -((p - c0) / step - (j : ℚ)) := by linarith
      exact le_trans hk (le_trans this (neg_le_abs _))

/-- e.g. 0.9 on a unit grid is cell 1, and x = 2.3 on the grid 2.0, 2.1, ... is cell 3 -/
example : pixelId 0 1 (9 / 10) = 1 := by decide +kernel
example : pixelId 2 (1 / 10) (23 / 10) = 3 := by decide +kernel

/-! ### snapping -/

theorem sqDist_nonneg (a b : Cell) : 0 ≤ sqDist a b := by
  unfold sqDist; nlinarith [mul_self_nonneg (a.2 - b.2), mul_self_nonneg (a.1 - b.1)]

theorem sqDist_self (a : Cell) : sqDist a a = 0 := by simp [sqDist]

theorem nearFold_spec (cross : Cell → Bool) (p : Cell) (l : List Cell) :
    (∀ c m, l.foldl (nearStep cross p) none = some (c, m) →
        m = sqDist c p ∧ cross c = true ∧ c ∈ l) ∧
    (∀ a ∈ l, cross a = true → ∃ c m, l.foldl (nearStep cross p) none = some (c, m) ∧ m ≤ sqDist a p) := by
  have := foldl_inv (nearStep cross p)
    (fun b => ∀ c m, b = some (c, m) → m = sqDist c p ∧ cross c = true ∧ c ∈ l)
    (fun a b => cross a = true → ∃ c m, b = some (c, m) ∧ m ≤ sqDist a p)
    l none (by simp)
    (by
      intro b a ha hb
      unfold nearStep
      by_cases hca : cross a = true
      · simp only [hca, if_true]
        cases b with
        | none =>
          refine ⟨?_, fun _ => ⟨a, _, rfl, le_refl _⟩⟩
          intro c m h; simp at h; obtain ⟨rfl, rfl⟩ := h; exact ⟨rfl, hca, ha⟩
        | some cm =>
          obtain ⟨c0, m0⟩ := cm
          simp only
          by_cases hlt : sqDist a p < m0
          · simp only [hlt, if_true]
            refine ⟨?_, fun _ => ⟨a, _, rfl, le_refl _⟩⟩
            intro c m h; simp at h; obtain ⟨rfl, rfl⟩ := h; exact ⟨rfl, hca, ha⟩
          · simp only [hlt, if_false]
            exact ⟨hb, fun _ => ⟨c0, m0, rfl, not_lt.mp hlt⟩⟩
      · simp only [hca, Bool.false_eq_true, if_false]
        exact ⟨hb, fun h => h.elim⟩)
    (by
      intro b a a' _ _ hq hca
      obtain ⟨c, m, rfl, hm⟩ := hq hca
      unfold nearStep
      by_cases hca' : cross a' = true
      · simp only [hca', if_true]
        by_cases hlt : sqDist a' p < m
        · simp only [hlt, if_true]
          exact ⟨a', _, rfl, le_of_lt (lt_of_lt_of_le hlt hm)⟩
        · simp only [hlt, if_false]
          exact ⟨c, m, rfl, hm⟩
      · simp only [hca', Bool.false_eq_true, if_false]
        exact ⟨c, m, rfl, hm⟩)
  exact this

/-- snapping: a crossable cell at minimum distance when one exists (the cell itself when it is
    crossable), `none` exactly when nothing is crossable -/
theorem findNearest_spec (h w : Nat) (cross : Cell → Bool) (p : Cell) :
    (cross p = true → findNearest h w cross p = some p) ∧
    (∀ c, findNearest h w cross p = some c →
      cross c = true ∧ (inside h w p = true → inside h w c = true) ∧
      ∀ c', inside h w c' = true → cross c' = true → sqDist c p ≤ sqDist c' p) ∧
    (findNearest h w cross p = none → ∀ c', inside h w c' = true → cross c' = false) := by
  obtain ⟨f1, f2⟩ := nearFold_spec cross p (cells h w)
  unfold findNearest
  by_cases hp : cross p = true
  · simp only [hp, if_true]
    refine ⟨fun _ => trivial, ?_, fun h => by simp at h⟩
    intro c hc
    simp at hc; subst hc
    exact ⟨hp, id, fun c' _ _ => by rw [sqDist_self]; exact sqDist_nonneg _ _⟩
  · simp only [hp, Bool.false_eq_true, if_false]
    refine ⟨fun h => h.elim, ?_, ?_⟩
    · intro c hc
      simp only [Option.map_eq_some_iff] at hc
      obtain ⟨⟨c1, m⟩, hfold, rfl⟩ := hc
      obtain ⟨rfl, hcr, hmem⟩ := f1 c1 m hfold
      refine ⟨hcr, fun _ => mem_cells.mp hmem, ?_⟩
      intro c' hin hcr'
      obtain ⟨c2, m2, h2, hle⟩ := f2 c' (mem_cells.mpr hin) hcr'
      rw [hfold] at h2
      simp at h2
      rw [← h2.2] at hle
      exact hle
    · intro hnone c' hin
      by_contra hcr
      obtain ⟨c2, m2, h2, _⟩ := f2 c' (mem_cells.mpr hin) (by simpa using hcr)
      rw [h2] at hnone
      simp at hnone

end XrsVerif.AStar
