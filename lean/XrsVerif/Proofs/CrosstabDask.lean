import XrsVerif.Proofs.ZonalDask
/-
  Proofs/CrosstabDask.lean -- the dask path of 2-D `crosstab`: the per-block tables, added key-wise,
  are the table of the whole raster -- for *any* treatment of the running category offset (so the
  statement does not depend on defect D3) and any partition of the cells into aligned blocks.
-/
set_option linter.unusedSectionVars false
set_option linter.unusedVariables false
namespace XrsVerif.Zonal

variable {κ γ : Type} [LinearOrder κ] [LinearOrder γ]

/-! ### the per-zone loop with an arbitrary (global) category list -/

theorem zoneRows2d_rows_gen (always : Bool) (zones : Nat → X κ) (values : Nat → X γ) (valid : X γ → Bool)
    (cells perm : List Nat) (uniq : List κ) (sel : κ → Bool) (uniqCats cats : List γ)
    (hp : SortsCells zones cells perm) (hu : CoversCells zones cells uniq)
    (hc : uniqCats.Pairwise (· < ·))
    (hcov : ∀ i ∈ cells, valid (values i) = true → ∀ c, values i = .fin c → c ∈ uniqCats) :
    (zoneRows2d true always zones values valid uniq sel uniqCats cats perm).map
        (fun r => (r.1, cats.map (fun c => lookupD 0 c r.2)))
      = (uniq.filter sel).map (fun z =>
          rowOf always uniqCats cats (zoneCells zones values valid perm z).length
            (uniqCats.map (countZC zones values valid perm z))) := by
  rw [zoneRows2d_fixed always zones values valid cells perm uniq sel uniqCats cats hp hu, List.map_map]
  apply List.map_congr_left
  intro z _
  have hmem : ∀ x ∈ finVals valid ((perm.filter (fun i => zones i == .fin z)).map values), x ∈ uniqCats := by
    intro x hx
    unfold finVals at hx
    rw [List.mem_filterMap] at hx
    obtain ⟨v, hv, hvx⟩ := hx
    rw [List.mem_filter, List.mem_map] at hv
    obtain ⟨⟨i, hi, rfl⟩, hval⟩ := hv
    apply hcov i (hp.isPerm.subset (List.mem_filter.mp hi).1) hval
    cases hvi : values i <;> simp_all [X.toFin?]
  simp only [Function.comp]
  rw [singleZone2d_eq always valid uniqCats cats _ hc hmem]
  rfl

/-! ### the emitted rows are additive in the counts -/

theorem emit_lookup_add (always : Bool) (sel : γ → Bool) (c : γ) (us : List γ) :
    ∀ (ks1 ks2 : List Nat) (a1 a2 : Nat), ks1.length = us.length → ks2.length = us.length →
    lookupD 0 c (emit always sel (a1 + a2) (us.zip (List.zipWith (· + ·) ks1 ks2)))
      = lookupD 0 c (emit always sel a1 (us.zip ks1)) + lookupD 0 c (emit always sel a2 (us.zip ks2)) := by
  induction us with
  | nil => intro ks1 ks2 a1 a2 _ _; simp [emit, lookupD]
  | cons u us ih =>
    intro ks1 ks2 a1 a2 h1 h2
    cases ks1 with
    | nil => simp at h1
    | cons k1 r1 =>
      cases ks2 with
      | nil => simp at h2
      | cons k2 r2 =>
        have h1' : r1.length = us.length := by simpa using h1
        have h2' : r2.length = us.length := by simpa using h2
        simp only [List.zipWith_cons_cons, List.zip_cons_cons, emit]
        by_cases hs : sel u = true
        · simp only [hs, if_true, lookupD]
          by_cases huc : u = c
          · simp only [huc, if_true]; omega
          · simp only [huc, if_false]
            have := ih r1 r2 0 0 h1' h2'
            simpa using this
        · have hs' : sel u = false := by simpa using hs
          simp only [hs', Bool.false_eq_true, if_false]
          cases always with
          | true =>
            simp only [if_true]
            have := ih r1 r2 0 0 h1' h2'
            simpa using this
          | false =>
            simp only [Bool.false_eq_true, if_false]
            have := ih r1 r2 (a1 + k1) (a2 + k2) h1' h2'
            have e : a1 + a2 + (k1 + k2) = a1 + k1 + (a2 + k2) := by omega
            rw [e]
            exact this

theorem addRow_rowOf (always : Bool) (uniqCats cats : List γ) (t1 t2 : Nat) (g1 g2 : γ → Nat) :
    ((rowOf always uniqCats cats t1 (uniqCats.map g1)).1 + (rowOf always uniqCats cats t2 (uniqCats.map g2)).1,
      List.zipWith (· + ·) (rowOf always uniqCats cats t1 (uniqCats.map g1)).2
        (rowOf always uniqCats cats t2 (uniqCats.map g2)).2)
      = rowOf always uniqCats cats (t1 + t2) (uniqCats.map (fun c => g1 c + g2 c)) := by
  unfold rowOf
  simp only
  congr 1
  rw [zipWith_map_map]
  apply List.map_congr_left
  intro c _
  have := emit_lookup_add always (fun c => cats.contains c) c uniqCats (uniqCats.map g1) (uniqCats.map g2) 0 0
    (by simp) (by simp)
  rw [zipWith_map_map] at this
  simpa using this.symm

theorem addRows_rowOf (always : Bool) (uniqCats cats : List γ) (W : List κ) (t1 t2 : κ → Nat) (g1 g2 : κ → γ → Nat) :
    addRows (W.map (fun z => rowOf always uniqCats cats (t1 z) (uniqCats.map (g1 z))))
        (W.map (fun z => rowOf always uniqCats cats (t2 z) (uniqCats.map (g2 z))))
      = W.map (fun z => rowOf always uniqCats cats (t1 z + t2 z) (uniqCats.map (fun c => g1 z c + g2 z c))) := by
  unfold addRows
  rw [zipWith_map_map]
  apply List.map_congr_left
  intro z _
  exact addRow_rowOf always uniqCats cats (t1 z) (t2 z) (g1 z) (g2 z)

/-- folding `addRows` over the blocks' tables adds totals and counts block by block -/
theorem foldl_addRows {β : Type} (always : Bool) (uniqCats cats : List γ) (W : List κ) (bs : List β)
    (tot : β → κ → Nat) (cnt : β → κ → γ → Nat) (T : κ → Nat) (C : κ → γ → Nat) :
    (bs.map (fun b => W.map (fun z => rowOf always uniqCats cats (tot b z) (uniqCats.map (cnt b z))))).foldl addRows
        (W.map (fun z => rowOf always uniqCats cats (T z) (uniqCats.map (C z))))
      = W.map (fun z => rowOf always uniqCats cats (T z + (bs.map (fun b => tot b z)).sum)
          (uniqCats.map (fun c => C z c + (bs.map (fun b => cnt b z c)).sum))) := by
  induction bs generalizing T C with
  | nil => simp
  | cons b bs ih =>
    simp only [List.map_cons, List.foldl_cons, List.sum_cons]
    rw [addRows_rowOf, ih]
    apply List.map_congr_left
    intro z _
    congr 1
    · omega
    · apply List.map_congr_left
      intro c _
      omega

/-! ### counts and totals are additive over blocks -/

theorem countZC_append (zones : Nat → X κ) (values : Nat → X γ) (valid : X γ → Bool) (a b : List Nat) (z : κ) (c : γ) :
    countZC zones values valid (a ++ b) z c = countZC zones values valid a z c + countZC zones values valid b z c := by
  simp [countZC, finVals, List.filterMap_append]

theorem countZC_flatten (zones : Nat → X κ) (values : Nat → X γ) (valid : X γ → Bool) (bs : List (List Nat)) (z : κ) (c : γ) :
    countZC zones values valid bs.flatten z c = (bs.map (fun b => countZC zones values valid b z c)).sum := by
  induction bs with
  | nil => rfl
  | cons b bs ih => simp [countZC_append, ih]

theorem total_flatten {ν : Type} (zones : Nat → X κ) (values : Nat → ν) (valid : ν → Bool) (bs : List (List Nat)) (z : κ) :
    (zoneCells zones values valid bs.flatten z).length = (bs.map (fun b => (zoneCells zones values valid b z).length)).sum := by
  induction bs with
  | nil => rfl
  | cons b bs ih => simp [zoneCells_append, ih]

theorem countZC_block (zones : Nat → X κ) (values : Nat → X γ) (valid : X γ → Bool) (zc : List Nat) (z : κ) (c : γ) :
    countZC (Block.fn zc zones) (Block.fn zc values) valid (List.range zc.length) z c
      = countZC zones values valid zc z c := by
  have h := zoneCells_block zones values valid zc z
  unfold countZC finVals
  unfold zoneCells at h
  rw [h]

/-! ### the dask table -/

/-- the (looked-up) rows one good block contributes -/
theorem block_rows (always : Bool) (zones : Nat → X κ) (values : Nat → X γ) (valid : X γ → Bool)
    (cells : List Nat) (uniq : List κ) (sel : κ → Bool) (uniqCats cats : List γ) (b : Block)
    (hu : CoversCells zones cells uniq) (hc : uniqCats.Pairwise (· < ·))
    (hcov : ∀ i ∈ cells, valid (values i) = true → ∀ c, values i = .fin c → c ∈ uniqCats)
    (hal : b.vc = b.zc) (hsub : ∀ g ∈ b.zc, g ∈ cells)
    (hs : SortsCells (Block.fn b.zc zones) (List.range b.zc.length) b.perm) :
    (zoneRows2d true always (Block.fn b.zc zones) (Block.fn b.vc values) valid uniq sel uniqCats cats b.perm).map
        (fun r => (r.1, cats.map (fun c => lookupD 0 c r.2)))
      = (uniq.filter sel).map (fun z =>
          rowOf always uniqCats cats (zoneCells zones values valid b.zc z).length
            (uniqCats.map (countZC zones values valid b.zc z))) := by
  rw [hal, zoneRows2d_rows_gen always (Block.fn b.zc zones) (Block.fn b.zc values) valid (List.range b.zc.length)
    b.perm uniq sel uniqCats cats hs (block_covers zones cells b.zc uniq hu hsub) hc]
  · apply List.map_congr_left
    intro z _
    congr 1
    · rw [(zoneCells_perm _ _ valid b.perm (List.range b.zc.length) hs.isPerm z).length_eq, zoneCells_block]
    · apply List.map_congr_left
      intro c _
      rw [countZC_perm _ _ valid b.perm (List.range b.zc.length) hs.isPerm z c, countZC_block]
  · intro i hi hv c hvc
    have hi' : i < b.zc.length := List.mem_range.mp hi
    apply hcov (b.zc.getD i 0) (hsub _ ?_) hv c hvc
    rw [List.getD_eq_getElem?_getD, List.getElem?_eq_getElem hi']
    exact List.getElem_mem hi'

/-- **block tables add up to the whole table**: for every `always` (treatment of `cat_start`), every
    labelling flag, every good family of blocks, the dask crosstab is the NumPy crosstab -/
theorem crosstabDask2d_eq_numpy (always sortedRows : Bool) (zones : Nat → X κ) (values : Nat → X γ)
    (valid : X γ → Bool) (cells perm : List Nat) (zoneIds : Option (List κ)) (catIds : Option (List γ))
    (blocks : List Block) (hb : GoodBlocks zones cells blocks) (hne : blocks ≠ [])
    (hp : SortsCells zones cells perm) :
    crosstabDask2d true always sortedRows zones values valid cells zoneIds catIds blocks
      = crosstabNumpy2d true always sortedRows zones values valid cells zoneIds catIds perm := by
  have hu := uniqueZones_covers zones cells
  have hc : (findCats2d values valid cells).Pairwise (· < ·) := by unfold findCats2d; exact sorted_sortDedup _
  have hcov : ∀ i ∈ cells, valid (values i) = true → ∀ c, values i = .fin c → c ∈ findCats2d values valid cells := by
    intro i hi hv c hvc
    exact (mem_findCats2d values valid cells c).mpr ⟨i, hi, hv, hvc⟩
  -- NumPy side
  have hnp := zoneRows2d_rows_gen always zones values valid cells perm (uniqueZones zones cells)
    (fun u => (selectIds (uniqueZones zones cells) zoneIds).contains u) (findCats2d values valid cells)
    (selectIds (findCats2d values valid cells) catIds) hp hu hc hcov
  -- dask side
  cases blocks with
  | nil => exact absurd rfl hne
  | cons b0 bs =>
    unfold crosstabDask2d crosstabNumpy2d
    rw [if_neg (by rw [blocks_ok _ hb.aligned]; simp)]
    simp only [List.map_cons]
    have hrow : ∀ b ∈ b0 :: bs,
        (zoneRows2d true always (Block.fn b.zc zones) (Block.fn b.vc values) valid (uniqueZones zones cells)
            (fun u => (selectIds (uniqueZones zones cells) zoneIds).contains u) (findCats2d values valid cells)
            (selectIds (findCats2d values valid cells) catIds) b.perm).map
          (fun r => (r.1, (selectIds (findCats2d values valid cells) catIds).map (fun c => lookupD 0 c r.2)))
        = ((uniqueZones zones cells).filter (fun u => (selectIds (uniqueZones zones cells) zoneIds).contains u)).map
            (fun z => rowOf always (findCats2d values valid cells) (selectIds (findCats2d values valid cells) catIds)
              (zoneCells zones values valid b.zc z).length
              ((findCats2d values valid cells).map (countZC zones values valid b.zc z))) := by
      intro b hbm
      exact block_rows always zones values valid cells _ _ _ _ b hu hc hcov (hb.aligned b hbm) (hb.sub b hbm) (hb.sorts b hbm)
    rw [hrow b0 (by simp)]
    have hrest : bs.map (fun b =>
          (zoneRows2d true always (Block.fn b.zc zones) (Block.fn b.vc values) valid (uniqueZones zones cells)
              (fun u => (selectIds (uniqueZones zones cells) zoneIds).contains u) (findCats2d values valid cells)
              (selectIds (findCats2d values valid cells) catIds) b.perm).map
            (fun r => (r.1, (selectIds (findCats2d values valid cells) catIds).map (fun c => lookupD 0 c r.2))))
        = bs.map (fun b =>
            ((uniqueZones zones cells).filter (fun u => (selectIds (uniqueZones zones cells) zoneIds).contains u)).map
              (fun z => rowOf always (findCats2d values valid cells) (selectIds (findCats2d values valid cells) catIds)
                (zoneCells zones values valid b.zc z).length
                ((findCats2d values valid cells).map (countZC zones values valid b.zc z)))) := by
      apply List.map_congr_left
      intro b hbm
      exact hrow b (List.mem_cons_of_mem _ hbm)
    rw [hrest, foldl_addRows]
    -- both sides are now tables over the same row list
    have hsum : ∀ z,
        rowOf always (findCats2d values valid cells) (selectIds (findCats2d values valid cells) catIds)
          ((zoneCells zones values valid b0.zc z).length + (bs.map (fun b => (zoneCells zones values valid b.zc z).length)).sum)
          ((findCats2d values valid cells).map (fun c => countZC zones values valid b0.zc z c
            + (bs.map (fun b => countZC zones values valid b.zc z c)).sum))
        = rowOf always (findCats2d values valid cells) (selectIds (findCats2d values valid cells) catIds)
            (zoneCells zones values valid perm z).length
            ((findCats2d values valid cells).map (countZC zones values valid perm z)) := by
      intro z
      have hperm : ((b0 :: bs).map (fun b => b.zc)).flatten.Perm perm := hb.part.trans hp.isPerm.symm
      congr 1
      · have := total_flatten zones values valid ((b0 :: bs).map (fun b => b.zc)) z
        simp only [List.map_cons, List.map_map, Function.comp_def, List.sum_cons] at this
        rw [← this]
        exact (zoneCells_perm zones values valid _ _ hperm z).length_eq
      · apply List.map_congr_left
        intro c _
        have := countZC_flatten zones values valid ((b0 :: bs).map (fun b => b.zc)) z c
        simp only [List.map_cons, List.map_map, Function.comp_def, List.sum_cons] at this
        rw [← this]
        exact countZC_perm zones values valid _ _ hperm z c
    simp only [hsum]
    rw [← hnp]
    simp only [List.length_map, List.map_map, Function.comp_def]

/-! ### 3-D (`agg='count'`) -/

section d3
variable {ν : Type}

/-- a column family indexed by the selected layers: `T l z` for the layer found under label `c` -/
def colsOf (layers : List (γ × (Nat → ν))) (cats : List γ) (W : List κ) (T : (γ × (Nat → ν)) → κ → Nat) : List (List Nat) :=
  cats.map (fun c => optCol (layers.find? (fun l => l.1 == c)) (fun l => W.map (T l)))

theorem zipWith_colsOf (layers : List (γ × (Nat → ν))) (cats : List γ) (W : List κ)
    (T1 T2 : (γ × (Nat → ν)) → κ → Nat) :
    List.zipWith (List.zipWith (· + ·)) (colsOf layers cats W T1) (colsOf layers cats W T2)
      = colsOf layers cats W (fun l z => T1 l z + T2 l z) := by
  unfold colsOf
  rw [zipWith_map_map]
  apply List.map_congr_left
  intro c _
  cases layers.find? (fun l => l.1 == c) with
  | none => rfl
  | some l => simp only [optCol]; rw [zipWith_map_map]

theorem foldl_colsOf {β : Type} (layers : List (γ × (Nat → ν))) (cats : List γ) (W : List κ) (bs : List β)
    (tb : β → (γ × (Nat → ν)) → κ → Nat) (T : (γ × (Nat → ν)) → κ → Nat) :
    (bs.map (fun b => colsOf layers cats W (tb b))).foldl (List.zipWith (List.zipWith (· + ·))) (colsOf layers cats W T)
      = colsOf layers cats W (fun l z => T l z + (bs.map (fun b => tb b l z)).sum) := by
  induction bs generalizing T with
  | nil => simp
  | cons b bs ih =>
    simp only [List.map_cons, List.foldl_cons, List.sum_cons]
    rw [zipWith_colsOf, ih]
    unfold colsOf
    apply List.map_congr_left
    intro c _
    cases layers.find? (fun l => l.1 == c) with
    | none => rfl
    | some l =>
      simp only [optCol]
      apply List.map_congr_left
      intro z _
      omega

/-- **3-D block tables add up**: dask `crosstab` with `agg='count'` on 3-D values equals the NumPy table -/
theorem crosstabDask3d_eq_numpy (sortedRows : Bool) (zones : Nat → X κ) (layers : List (γ × (Nat → ν)))
    (valid : ν → Bool) (cells perm : List Nat) (zoneIds : Option (List κ)) (catIds : Option (List γ))
    (blocks : List Block) (hb : GoodBlocks zones cells blocks) (hne : blocks ≠ [])
    (hp : SortsCells zones cells perm) :
    crosstabDask3d true sortedRows zones layers valid cells zoneIds catIds blocks
      = crosstabNumpy3d true sortedRows zones layers valid List.length cells zoneIds catIds perm := by
  have hu := uniqueZones_covers zones cells
  cases blocks with
  | nil => exact absurd rfl hne
  | cons b0 bs =>
    unfold crosstabDask3d crosstabNumpy3d
    rw [if_neg (by rw [blocks_ok _ hb.aligned]; simp)]
    simp only [List.map_cons]
    -- every block's columns
    have hblock : ∀ b ∈ b0 :: bs,
        (selectIds (layers.map Prod.fst) catIds).map (fun c => optCol (layers.find? (fun l => l.1 == c))
          (fun l => layerCol true (Block.fn b.zc zones) (Block.fn b.vc l.2) valid List.length
              (uniqueZones zones cells) (fun u => (selectIds (uniqueZones zones cells) zoneIds).contains u) b.perm))
        = colsOf layers (selectIds (layers.map Prod.fst) catIds)
            ((uniqueZones zones cells).filter (fun u => (selectIds (uniqueZones zones cells) zoneIds).contains u))
            (fun l z => (zoneCells zones l.2 valid b.zc z).length) := by
      intro b hbm
      unfold colsOf
      apply List.map_congr_left
      intro c _
      cases layers.find? (fun l => l.1 == c) with
      | none => rfl
      | some l =>
        simp only [optCol]
        rw [hb.aligned b hbm, layerCol_fixed (Block.fn b.zc zones) (Block.fn b.zc l.2) valid List.length
          (List.range b.zc.length) b.perm _ _ (hb.sorts b hbm) (block_covers zones cells b.zc _ hu (hb.sub b hbm))]
        apply List.map_congr_left
        intro z _
        rw [(zoneCells_perm _ _ valid b.perm (List.range b.zc.length) (hb.sorts b hbm).isPerm z).length_eq,
          zoneCells_block]
    rw [hblock b0 (by simp)]
    have hrest : bs.map (fun b => (selectIds (layers.map Prod.fst) catIds).map (fun c =>
          optCol (layers.find? (fun l => l.1 == c))
          (fun l => layerCol true (Block.fn b.zc zones) (Block.fn b.vc l.2) valid List.length
              (uniqueZones zones cells) (fun u => (selectIds (uniqueZones zones cells) zoneIds).contains u) b.perm)))
        = bs.map (fun b => colsOf layers (selectIds (layers.map Prod.fst) catIds)
            ((uniqueZones zones cells).filter (fun u => (selectIds (uniqueZones zones cells) zoneIds).contains u))
            (fun l z => (zoneCells zones l.2 valid b.zc z).length)) := by
      apply List.map_congr_left
      intro b hbm
      exact hblock b (List.mem_cons_of_mem _ hbm)
    rw [hrest, foldl_colsOf]
    -- the NumPy columns
    have hnp : (selectIds (layers.map Prod.fst) catIds).map (fun c =>
          optCol (layers.find? (fun l => l.1 == c))
          (fun l => layerCol true zones l.2 valid List.length (uniqueZones zones cells)
              (fun u => (selectIds (uniqueZones zones cells) zoneIds).contains u) perm))
        = colsOf layers (selectIds (layers.map Prod.fst) catIds)
            ((uniqueZones zones cells).filter (fun u => (selectIds (uniqueZones zones cells) zoneIds).contains u))
            (fun l z => (zoneCells zones l.2 valid b0.zc z).length
              + (bs.map (fun b => (zoneCells zones l.2 valid b.zc z).length)).sum) := by
      unfold colsOf
      apply List.map_congr_left
      intro c _
      cases layers.find? (fun l => l.1 == c) with
      | none => rfl
      | some l =>
        simp only [optCol]
        rw [layerCol_fixed zones l.2 valid List.length cells perm _ _ hp hu]
        apply List.map_congr_left
        intro z _
        have hperm : ((b0 :: bs).map (fun b => b.zc)).flatten.Perm perm := hb.part.trans hp.isPerm.symm
        have := total_flatten zones l.2 valid ((b0 :: bs).map (fun b => b.zc)) z
        simp only [List.map_cons, List.map_map, Function.comp_def, List.sum_cons] at this
        rw [← this]
        exact (zoneCells_perm zones l.2 valid _ _ hperm z).length_eq.symm
    rw [hnp]

end d3

end XrsVerif.Zonal
