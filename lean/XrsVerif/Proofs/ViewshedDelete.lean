import XrsVerif.Proofs.ViewshedOps
/-!
  C05 helper lemmas, part 5: the deletion (splice / successor copy) keeps the keys ordered and removes
  exactly the node with the given key -- whatever the augmentation repairs compute.
-/
set_option linter.unusedSectionVars false
set_option linter.unusedVariables false
namespace XrsVerif.Viewshed

variable {α : Type} [LinearOrder α]

theorem BST.pairwise {t : Tree α} (h : BST t) : t.toList.Pairwise (fun a b => a.key < b.key) := by
  induction t with
  | nil => simp [Tree.toList]
  | node l n mx c r ihl ihr =>
    obtain ⟨hl, hr, hbl, hbr⟩ := h
    simp only [Tree.toList, List.pairwise_append, List.pairwise_cons, List.mem_cons]
    refine ⟨ihl hbl, ⟨hr, ihr hbr⟩, ?_⟩
    rintro a ha b (rfl | hb)
    · exact hl a ha
    · exact lt_trans (hl a ha) (hr b hb)

theorem ancestor_t_L (S : α) (n : Node α) (mx : α) (c : Bool) (o : Tree α) (res : DelRes α) :
    ∃ fin, (ancestor S .L n mx c o res).t = .node res.t n fin c o := ⟨_, rfl⟩

theorem ancestor_t_R (S : α) (n : Node α) (mx : α) (c : Bool) (o : Tree α) (res : DelRes α) :
    ∃ fin, (ancestor S .R n mx c o res).t = .node o n fin c res.t := ⟨_, rfl⟩

theorem delMin_spec (S : α) {t : Tree α} {yn : Node α} {res : DelRes α}
    (h : delMin S t = some (yn, res)) (hb : BST t) : BST res.t ∧ t.toList = yn :: res.t.toList := by
  induction t generalizing yn res with
  | nil => simp [delMin] at h
  | node l n mx c r ihl ihr =>
    obtain ⟨hl, hr, hbl, hbr⟩ := hb
    cases l with
    | nil =>
      simp only [delMin, Option.some.injEq, Prod.mk.injEq] at h
      obtain ⟨rfl, rfl⟩ := h
      exact ⟨hbr, by simp [Tree.toList]⟩
    | node ll ln lmx lc lr =>
      simp only [delMin] at h
      split at h
      · simp at h
      · rename_i yn0 res0 heq
        simp only [Option.some.injEq, Prod.mk.injEq] at h
        obtain ⟨rfl, rfl⟩ := h
        obtain ⟨hb0, hl0⟩ := ihl heq hbl
        obtain ⟨fin, hfin⟩ := ancestor_t_L S n mx c r res0
        rw [hfin]
        refine ⟨⟨fun a ha => hl a (by rw [hl0]; exact List.mem_cons_of_mem _ ha), hr, hb0, hbr⟩, ?_⟩
        simp only [Tree.toList] at hl0 ⊢
        rw [hl0]; rfl

theorem del_spec (S : α) (k : α) {t : Tree α} {res : DelRes α} (h : del S k t = some res) (hb : BST t) :
    BST res.t ∧ ∀ a, a ∈ res.t.toList ↔ (a ∈ t.toList ∧ a.key ≠ k) := by
  induction t generalizing res with
  | nil => simp [del] at h
  | node l n mx c r ihl ihr =>
    obtain ⟨hl, hr, hbl, hbr⟩ := hb
    simp only [del] at h
    split at h
    · rename_i hlt
      rw [Option.map_eq_some_iff] at h
      obtain ⟨res0, h0, rfl⟩ := h
      obtain ⟨hb0, hm0⟩ := ihl h0 hbl
      obtain ⟨fin, hfin⟩ := ancestor_t_L S n mx c r res0
      rw [hfin]
      refine ⟨⟨fun a ha => hl a ((hm0 a).mp ha).1, hr, hb0, hbr⟩, fun a => ?_⟩
      simp only [Tree.toList, List.mem_append, List.mem_cons, hm0]
      constructor
      · rintro (⟨ha, hk⟩ | rfl | ha)
        · exact ⟨Or.inl ha, hk⟩
        · exact ⟨Or.inr (Or.inl rfl), ne_of_gt hlt⟩
        · exact ⟨Or.inr (Or.inr ha), ne_of_gt (lt_trans hlt (hr a ha))⟩
      · rintro ⟨ha | rfl | ha, hk⟩
        · exact Or.inl ⟨ha, hk⟩
        · exact Or.inr (Or.inl rfl)
        · exact Or.inr (Or.inr ha)
    · rename_i hnlt
      split at h
      · rename_i hgt
        rw [Option.map_eq_some_iff] at h
        obtain ⟨res0, h0, rfl⟩ := h
        obtain ⟨hb0, hm0⟩ := ihr h0 hbr
        obtain ⟨fin, hfin⟩ := ancestor_t_R S n mx c l res0
        rw [hfin]
        refine ⟨⟨hl, fun a ha => hr a ((hm0 a).mp ha).1, hbl, hb0⟩, fun a => ?_⟩
        simp only [Tree.toList, List.mem_append, List.mem_cons, hm0]
        constructor
        · rintro (ha | rfl | ⟨ha, hk⟩)
          · exact ⟨Or.inl ha, ne_of_lt (lt_trans (hl a ha) hgt)⟩
          · exact ⟨Or.inr (Or.inl rfl), ne_of_lt hgt⟩
          · exact ⟨Or.inr (Or.inr ha), hk⟩
        · rintro ⟨ha | rfl | ha, hk⟩
          · exact Or.inl ha
          · exact Or.inr (Or.inl rfl)
          · exact Or.inr (Or.inr ⟨ha, hk⟩)
      · rename_i hngt
        have hkey : n.key = k := le_antisymm (not_lt.mp hnlt) (not_lt.mp hngt)
        have mem_t : ∀ a, (a ∈ (Tree.node l n mx c r).toList ∧ a.key ≠ k) ↔ (a ∈ l.toList ∨ a ∈ r.toList) := by
          intro a
          simp only [Tree.toList, List.mem_append, List.mem_cons]
          constructor
          · rintro ⟨ha | rfl | ha, hk⟩
            · exact Or.inl ha
            · exact absurd hkey hk
            · exact Or.inr ha
          · rintro (ha | ha)
            · exact ⟨Or.inl ha, by rw [← hkey]; exact ne_of_lt (hl a ha)⟩
            · exact ⟨Or.inr (Or.inr ha), by rw [← hkey]; exact ne_of_gt (hr a ha)⟩
        split at h
        · simp only [Option.some.injEq] at h
          subst h
          refine ⟨hbr, fun a => ?_⟩
          rw [mem_t]; simp [Tree.toList]
        · simp only [Option.some.injEq] at h
          subst h
          refine ⟨hbl, fun a => ?_⟩
          rw [mem_t]; simp [Tree.toList]
        · split at h
          · simp at h
          · rename_i yn res0 heq
            simp only [Option.some.injEq] at h
            subst h
            obtain ⟨hb0, hr0⟩ := delMin_spec S heq hbr
            have hpw := hbr.pairwise
            rw [hr0, List.pairwise_cons] at hpw
            have hyn : yn ∈ r.toList := by rw [hr0]; exact List.mem_cons_self
            refine ⟨⟨fun a ha => lt_trans (hl a ha) (hr yn hyn), hpw.1, hbl, hb0⟩, fun a => ?_⟩
            rw [mem_t]
            simp only [Tree.toList, List.mem_append, List.mem_cons, hr0]

/-- deletion up to the fixup: the keys stay strictly ordered and exactly the node with key `k` goes -/
theorem delCore_spec (S : α) (k : α) {t u : Tree α} (h : delCore S k t = some u) (hb : BST t) :
    BST u ∧ ∀ a, a ∈ u.toList ↔ (a ∈ t.toList ∧ a.key ≠ k) := by
  unfold delCore at h
  rw [Option.map_eq_some_iff] at h
  obtain ⟨res, hres, rfl⟩ := h
  obtain ⟨hb', hm⟩ := del_spec S k hres hb
  split
  · cases hrt : res.t with
    | nil => simp only [refresh]; rw [hrt] at hb' hm; exact ⟨hb', hm⟩
    | node l n mx c r =>
      rw [hrt] at hb' hm
      exact ⟨hb', hm⟩
  · exact ⟨hb', hm⟩

theorem delMin_isSome (S : α) (l : Tree α) (n : Node α) (mx : α) (c : Bool) (r : Tree α) :
    (delMin S (.node l n mx c r)).isSome = true := by
  induction l generalizing n mx c r with
  | nil => simp [delMin]
  | node a b m d e iha _ =>
    simp only [delMin]
    have := iha b m d e
    cases hd : delMin S (Tree.node a b m d e) with
    | none => rw [hd] at this; simp at this
    | some v => obtain ⟨yn, res⟩ := v; rfl

/-- the key is found whenever it is present -/
theorem del_isSome (S : α) (k : α) {t : Tree α} (hk : ∃ n ∈ t.toList, n.key = k) (hb : BST t) :
    (del S k t).isSome = true := by
  induction t with
  | nil => simp [Tree.toList] at hk
  | node l n mx c r ihl ihr =>
    obtain ⟨hl, hr, hbl, hbr⟩ := hb
    obtain ⟨a, ha, rfl⟩ := hk
    simp only [Tree.toList, List.mem_append, List.mem_cons] at ha
    simp only [del]
    split
    · rename_i hlt
      rcases ha with ha | rfl | ha
      · simpa using ihl ⟨a, ha, rfl⟩ hbl
      · exact absurd hlt (lt_irrefl _)
      · exact absurd (lt_trans hlt (hr a ha)) (lt_irrefl _)
    · split
      · rename_i _ hgt
        rcases ha with ha | rfl | ha
        · exact absurd (lt_trans (hl a ha) hgt) (lt_irrefl _)
        · exact absurd hgt (lt_irrefl _)
        · simpa using ihr ⟨a, ha, rfl⟩ hbr
      · split
        · rfl
        · rfl
        · rename_i hnl hnr
          cases r with
          | nil => exact absurd rfl (hnr)
          | node rl rn rmx rc rr =>
            have := delMin_isSome S rl rn rmx rc rr
            cases hd : delMin S (Tree.node rl rn rmx rc rr) with
            | none => rw [hd] at this; simp at this
            | some v => obtain ⟨yn, res⟩ := v; rfl

end XrsVerif.Viewshed
