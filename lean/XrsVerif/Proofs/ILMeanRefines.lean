import XrsVerif.Proofs.ILMean
/-
  Proofs/ILMeanRefines.lean -- refinement (layer T3), part 2 for `Gen.IL.meanNumpy`: the clipped 3×3 window, the
  per-cell body, the raster loop and the whole program; the bridge to the nested-rows model `meanPass` / `meanN`.
-/
namespace XrsVerif.Focal
open XrsVerif XrsVerif.IL XrsVerif.IL.Sd XrsVerif.IL.Fc XrsVerif.Gen.Focal
set_option linter.unusedSectionVars false
set_option linter.unusedSimpArgs false
set_option linter.unusedVariables false
variable {F : Type} [Fl F]

theorem red_eval_nanmean' (xs : List F) : RedOp.eval .nanmean xs = nanmean xs := rfl

theorem allCells_eq_pairs' (r c : Nat) :
    allCells r c = (pairs r c).map (fun ab : Nat × Nat => ((ab.1 : Int), (ab.2 : Int))) := by
  rw [allCells_eq]; rfl

/-! ### the slice copy -/

/-- the state in which the copy loops run: the scratch array has shape `h × w`, the slice starts at `(B, L)` -/
structure SInv (data excl : List F) (rows cols ne h w : Nat) (B L : Int) (p q : Nat) (O : List F) (s : State F) : Prop where
  inv : MInv data excl rows cols ne s
  shs : s.shp "slice1$a" = [h, w]
  vr0 : s.ienv "slice1$r0" = B
  vc0 : s.ienv "slice1$c0" = L
  vy : s.ienv "y" = p
  vx : s.ienv "x" = q
  out : s.fa "out" = O

theorem SInv.setI {data excl : List F} {rows cols ne h w : Nat} {B L : Int} {p q : Nat} {O : List F} {s : State F}
    (hS : SInv data excl rows cols ne h w B L p q O s) (v : String) (i : Int)
    (n1 : v ≠ "rows") (n2 : v ≠ "cols") (n3 : v ≠ "slice1$r0") (n4 : v ≠ "slice1$c0") (n5 : v ≠ "y") (n6 : v ≠ "x") :
    SInv data excl rows cols ne h w B L p q O { s with ienv := setS s.ienv v i } :=
  ⟨⟨hS.inv.ctl, hS.inv.shd, hS.inv.she, hS.inv.sho, hS.inv.fad, hS.inv.fae,
    by simp [setS, Ne.symm n1, hS.inv.vrows], by simp [setS, Ne.symm n2, hS.inv.vcols]⟩,
   hS.shs, by simp [setS, Ne.symm n3, hS.vr0], by simp [setS, Ne.symm n4, hS.vc0],
   by simp [setS, Ne.symm n5, hS.vy], by simp [setS, Ne.symm n6, hS.vx], hS.out⟩

theorem slice_copy (data excl : List F) (rows cols ne h w : Nat) (B L : Int) (p q : Nat) (O : List F)
    (fuel : Nat) (s : State F) (hS : SInv data excl rows cols ne h w B L p q O s)
    (hB0 : 0 ≤ B) (hB1 : B + h ≤ rows) (hL0 : 0 ≤ L) (hL1 : L + w ≤ cols) :
    let r := exec fuel stCopy s
    r.ctl = .run ∧ SInv data excl rows cols ne h w B L p q O r ∧
    r.fa "slice1$a" = (List.range h).foldl (fun o i => (List.range w).foldl
      (fun o j => o.set (i * w + j) (listArr data cols (B + (i : Int)) (L + (j : Int)))) o) (s.fa "slice1$a") := by
  exact exec_for2_store fuel "slice1$i" "slice1$j" (.dim "slice1$a" 0) (.dim "slice1$a" 1) _ "slice1$a" h w
    (fun i j => listArr data cols (B + (i : Int)) (L + (j : Int))) (SInv data excl rows cols ne h w B L p q O) (by decide)
    (fun st i hg => hg.setI "slice1$i" i (by decide) (by decide) (by decide) (by decide) (by decide) (by decide))
    (fun st i hg => hg.setI "slice1$j" i (by decide) (by decide) (by decide) (by decide) (by decide) (by decide))
    (fun st hg => by simp [IE.ok, IE.eval, hg.shs]) (fun st hg => by simp [IE.ok, IE.eval, hg.shs])
    (fun st i j hc hg vi vj hi hj => by
      have hI := hg.inv
      have r1 : inRange (i : Int) h = true := inRange_of_lt _ _ hi
      have r2 : inRange (j : Int) w = true := inRange_of_lt _ _ hj
      have r3 : inRange (B + (i : Int)) rows = true := inRange_of_nonneg_lt _ _ (by omega) (by omega)
      have r4 : inRange (L + (j : Int)) cols = true := inRange_of_nonneg_lt _ _ (by omega) (by omega)
      have o1 : off2 [h, w] (i : Int) (j : Int) = i * w + j := off2_nat _ _ _ _
      have o2 : off2 [rows, cols] (B + (i : Int)) (L + (j : Int)) = (B + (i : Int)).toNat * cols + (L + (j : Int)).toNat :=
        off2_nonneg _ _ _ _ (by omega) (by omega)
      have e : exec fuel (.stF2 "slice1$a" (.var "slice1$i") (.var "slice1$j") (.ld2 "data" (.bin .add (.var "slice1$r0") (.var "slice1$i")) (.bin .add (.var "slice1$c0") (.var "slice1$j")))) st =
          { st with fa := setS st.fa "slice1$a" ((st.fa "slice1$a").set (i * w + j)
              (listArr data cols (B + (i : Int)) (L + (j : Int)))) } := by
        simp [exec, IE.ok, IE.eval, iop_add, FE.ok, FE.eval, hg.shs, hI.shd, hI.fad, hg.vr0, hg.vc0, vi, vj, r1, r2, r3, r4,
          o1, o2, listArr]
      rw [e]
      refine ⟨hc, ?_, vi, by simp⟩
      exact ⟨⟨hc, hI.shd, hI.she, hI.sho, by simp [setS, hI.fad], by simp [setS, hI.fae], hI.vrows, hI.vcols⟩,
        hg.shs, hg.vr0, hg.vc0, hg.vy, hg.vx, by simp [setS, hg.out]⟩)
    s hS.inv.ctl hS

/-- the copied slice, row-major, is the model's `sliceCells` -/
theorem pairs_slice (D : Arr F) (B T L R : Int) :
    (pairs (T - B).toNat (R - L).toNat).map (fun x => D (B + (x.1 : Int)) (L + (x.2 : Int))) = sliceCells D B T L R := by
  unfold pairs sliceCells intRange
  rw [List.map_flatMap, List.flatMap_map]
  apply List.flatMap_congr
  intro i _
  rw [List.map_map, List.map_map]
  rfl

/-! ### the clipped window and `np.nanmean` -/

theorem mean_window (data excl : List F) (rows cols ne : Nat) (fuel : Nat) (s : State F) (p q : Nat)
    (hI : MInv data excl rows cols ne s) (vy : s.ienv "y" = p) (vx : s.ienv "x" = q) (hp : p < rows) (hq : q < cols) :
    let r := exec fuel stWindow s
    r.ctl = .run ∧ MInv data excl rows cols ne r ∧ r.ienv "y" = p ∧
    r.fa "out" = (s.fa "out").set (p * cols + q)
      (nanmean (sliceCells (listArr data cols) (max ((p : Int) - 1) 0) (min ((p : Int) + 2) rows)
        (max ((q : Int) - 1) 0) (min ((q : Int) + 2) cols))) := by
  intro r
  have hs := hI.ctl
  obtain ⟨B, hB⟩ : ∃ B : Int, B = max ((p : Int) - 1) 0 := ⟨_, rfl⟩
  obtain ⟨T, hT⟩ : ∃ T : Int, T = min ((p : Int) + 2) rows := ⟨_, rfl⟩
  obtain ⟨L, hL⟩ : ∃ L : Int, L = max ((q : Int) - 1) 0 := ⟨_, rfl⟩
  obtain ⟨R, hR⟩ : ∃ R : Int, R = min ((q : Int) + 2) cols := ⟨_, rfl⟩
  rw [← hB, ← hT, ← hL, ← hR]
  have h1 := exec_setI_eq fuel "left" (.bin .max (.bin .sub (.var "x") (.lit 1)) (.lit 0)) s L rfl
    (by simp only [IE.eval, iop_max, iop_sub, vx]; omega)
  have h2 := exec_setI_eq fuel "right" (.bin .min (.bin .add (.var "x") (.lit 2)) (.var "cols"))
    { s with ienv := setS s.ienv "left" L } R rfl
    (by simp [IE.eval, iop_min, iop_add, setS, vx, hI.vcols]; omega)
  have h3 := exec_setI_eq fuel "bottom" (.bin .max (.bin .sub (.var "y") (.lit 1)) (.lit 0))
    { s with ienv := setS (setS s.ienv "left" L) "right" R } B rfl
    (by simp [IE.eval, iop_max, iop_sub, setS, vy]; omega)
  have h4 := exec_setI_eq fuel "top" (.bin .min (.bin .add (.var "y") (.lit 2)) (.var "rows"))
    { s with ienv := setS (setS (setS s.ienv "left" L) "right" R) "bottom" B } T rfl
    (by simp [IE.eval, iop_min, iop_add, setS, vy, hI.vrows]; omega)
  have h5 := exec_setI_eq fuel "slice1$r0" (.var "bottom")
    { s with ienv := setS (setS (setS (setS s.ienv "left" L) "right" R) "bottom" B) "top" T } B rfl
    (by simp [IE.eval, setS])
  have h6 := exec_setI_eq fuel "slice1$c0" (.var "left")
    { s with ienv := setS (setS (setS (setS (setS s.ienv "left" L) "right" R) "bottom" B) "top" T) "slice1$r0" B } L rfl
    (by simp [IE.eval, setS])
  have h7 : exec fuel (.allocF "slice1$a" [(.bin .max (.bin .sub (.var "top") (.var "slice1$r0")) (.lit 0)), (.bin .max (.bin .sub (.var "right") (.var "slice1$c0")) (.lit 0))] .nan)
      { s with ienv := setS (setS (setS (setS (setS (setS s.ienv "left" L) "right" R) "bottom" B) "top" T) "slice1$r0" B) "slice1$c0" L } =
      { s with ienv := setS (setS (setS (setS (setS (setS s.ienv "left" L) "right" R) "bottom" B) "top" T) "slice1$r0" B) "slice1$c0" L,
               shp := setS s.shp "slice1$a" [(T - B).toNat, (R - L).toNat],
               fa := setS s.fa "slice1$a" (List.replicate ((T - B).toNat * (R - L).toNat) Fl.nan) } :=
    exec_allocF2 fuel "slice1$a" (.bin .max (.bin .sub (.var "top") (.var "slice1$r0")) (.lit 0))
    (.bin .max (.bin .sub (.var "right") (.var "slice1$c0")) (.lit 0)) .nan
    { s with ienv := setS (setS (setS (setS (setS (setS s.ienv "left" L) "right" R) "bottom" B) "top" T) "slice1$r0" B) "slice1$c0" L }
    (T - B).toNat (R - L).toNat rfl rfl rfl
    (by simp [IE.eval, iop_max, iop_sub, setS]) (by simp [IE.eval, iop_max, iop_sub, setS])
  have hS : SInv data excl rows cols ne (T - B).toNat (R - L).toNat B L p q (s.fa "out")
      { s with ienv := setS (setS (setS (setS (setS (setS s.ienv "left" L) "right" R) "bottom" B) "top" T) "slice1$r0" B) "slice1$c0" L,
               shp := setS s.shp "slice1$a" [(T - B).toNat, (R - L).toNat],
               fa := setS s.fa "slice1$a" (List.replicate ((T - B).toNat * (R - L).toNat) Fl.nan) } :=
    ⟨⟨hs, by simp [setS, hI.shd], by simp [setS, hI.she], by simp [setS, hI.sho], by simp [setS, hI.fad],
      by simp [setS, hI.fae], by simp [setS, hI.vrows], by simp [setS, hI.vcols]⟩,
     by simp, by simp [setS], by simp, by simp [setS, vy], by simp [setS, vx], by simp [setS]⟩
  obtain ⟨hc8, hS8, hsl⟩ := slice_copy data excl rows cols ne (T - B).toNat (R - L).toNat B L p q (s.fa "out") fuel _ hS
    (by omega) (by omega) (by omega) (by omega)
  simp only [setS_same] at hsl
  rw [fold2_set_eq _ _ _ _ (by simp), pairs_slice (listArr data cols) B T L R] at hsl
  have hI8 := hS8.inv
  have hr : r = exec fuel (.stF2 "out" (.var "y") (.var "x") (.red .nanmean "slice1$a")) (exec fuel stCopy
      { s with ienv := setS (setS (setS (setS (setS (setS s.ienv "left" L) "right" R) "bottom" B) "top" T) "slice1$r0" B) "slice1$c0" L,
               shp := setS s.shp "slice1$a" [(T - B).toNat, (R - L).toNat],
               fa := setS s.fa "slice1$a" (List.replicate ((T - B).toNat * (R - L).toNat) Fl.nan) }) := by
    simp only [r, stWindow]
    rw [exec_seq_eq fuel _ _ _ _ h1 hs, exec_seq_eq fuel _ _ _ _ h2 hs, exec_seq_eq fuel _ _ _ _ h3 hs,
      exec_seq_eq fuel _ _ _ _ h4 hs, exec_seq_eq fuel _ _ _ _ h5 hs, exec_seq_eq fuel _ _ _ _ h6 hs,
      exec_seq_eq fuel _ _ _ _ h7 hs, exec_seq_eq fuel _ _ _ _ rfl hc8]
  rw [hr]
  generalize exec fuel stCopy (_ : State F) = s8 at *
  have r1 : inRange (p : Int) rows = true := inRange_of_lt _ _ hp
  have r2 : inRange (q : Int) cols = true := inRange_of_lt _ _ hq
  have o1 : off2 [rows, cols] (p : Int) (q : Int) = p * cols + q := off2_nat _ _ _ _
  have e : exec fuel (.stF2 "out" (.var "y") (.var "x") (.red .nanmean "slice1$a")) s8 =
      { s8 with fa := setS s8.fa "out" ((s8.fa "out").set (p * cols + q) (nanmean (s8.fa "slice1$a"))) } := by
    simp [exec, IE.ok, IE.eval, FE.ok, FE.eval, hI8.sho, hS8.vy, hS8.vx, r1, r2, o1, red_eval_nanmean']
  rw [e]
  exact ⟨hc8, ⟨hc8, hI8.shd, hI8.she, hI8.sho, by simp [setS, hI8.fad], by simp [setS, hI8.fae], hI8.vrows, hI8.vcols⟩,
    hS8.vy, by simp only [setS_same, hS8.out, hsl]⟩

/-! ### the per-cell body -/

theorem mean_cell (data excl : List F) (rows cols ne : Nat) (fuel : Nat) (s : State F) (p q : Nat)
    (hI : MInv data excl rows cols ne s) (vy : s.ienv "y" = p) (vx : s.ienv "x" = q) (hp : p < rows) (hq : q < cols) :
    let r := exec fuel stCellM s
    r.ctl = .run ∧ MInv data excl rows cols ne r ∧ r.ienv "y" = p ∧
    r.fa "out" = (s.fa "out").set (p * cols + q) (meanCell (listArr data cols) rows cols excl (p : Int) (q : Int)) := by
  intro r
  have hs := hI.ctl
  have h1 : exec fuel (.setB "exclude" .ff) s = { s with benv := setS s.benv "exclude" false } := by
    simp [exec, BE.ok, BE.eval]
  have hI1 : MInv data excl rows cols ne { s with benv := setS s.benv "exclude" false } :=
    ⟨hs, hI.shd, hI.she, hI.sho, hI.fad, hI.fae, hI.vrows, hI.vcols⟩
  obtain ⟨c2, sh2, fa2, ie2, ex2⟩ := ex_loop data excl rows cols ne fuel _ p q hI1 vy vx hp hq (by simp)
  have hr : r = exec fuel (.ite (.not (.var "exclude")) stWindow stPass)
      (exec fuel stExLoop { s with benv := setS s.benv "exclude" false }) := by
    simp only [r, stCellM]
    rw [exec_seq_eq fuel _ _ _ _ h1 hs, exec_seq_eq fuel _ _ _ _ rfl c2]
  rw [hr]
  generalize exec fuel stExLoop (_ : State F) = s2 at *
  have hI2 : MInv data excl rows cols ne s2 :=
    ⟨c2, by rw [sh2]; exact hI.shd, by rw [sh2]; exact hI.she, by rw [sh2]; exact hI.sho, by rw [fa2]; exact hI.fad,
      by rw [fa2]; exact hI.fae, by rw [ie2]; exact hI.vrows, by rw [ie2]; exact hI.vcols⟩
  have vy2 : s2.ienv "y" = p := by rw [ie2]; exact vy
  have vx2 : s2.ienv "x" = q := by rw [ie2]; exact vx
  have hout2 : s2.fa "out" = s.fa "out" := by rw [fa2]
  have hmc : meanCell (listArr data cols) rows cols excl (p : Int) (q : Int) =
      if isExcluded excl (listArr data cols p q) = true then listArr data cols p q
      else nanmean (sliceCells (listArr data cols) (max ((p : Int) - 1) 0) (min ((p : Int) + 2) rows)
        (max ((q : Int) - 1) 0) (min ((q : Int) + 2) cols)) := by
    simp only [meanCell, mean_excluded_pass_through, if_true, mean_reducer, npReducer, mean_row_lo, mean_row_hi,
      mean_col_lo, mean_col_hi]
  rw [hmc]
  by_cases hex : isExcluded excl (listArr data cols p q) = true
  · rw [exec_ite_false fuel _ _ _ _ rfl (by simp [BE.eval, ex2, hex]), if_pos hex]
    have r1 : inRange (p : Int) rows = true := inRange_of_lt _ _ hp
    have r2 : inRange (q : Int) cols = true := inRange_of_lt _ _ hq
    have o1 : off2 [rows, cols] (p : Int) (q : Int) = p * cols + q := off2_nat _ _ _ _
    have e : exec fuel stPass s2 =
        { s2 with fa := setS s2.fa "out" ((s2.fa "out").set (p * cols + q) (listArr data cols p q)) } := by
      simp [stPass, exec, IE.ok, IE.eval, FE.ok, FE.eval, hI2.sho, hI2.shd, hI2.fad, vy2, vx2, r1, r2, o1, listArr]
    rw [e]
    exact ⟨c2, ⟨c2, hI2.shd, hI2.she, hI2.sho, by simp [setS, hI2.fad], by simp [setS, hI2.fae], hI2.vrows, hI2.vcols⟩,
      vy2, by simp only [setS_same, hout2]⟩
  · rw [exec_ite_true fuel _ _ _ _ rfl (by simp [BE.eval, ex2, hex]), if_neg hex]
    obtain ⟨w1, w2, w3, w4⟩ := mean_window data excl rows cols ne fuel s2 p q hI2 vy2 vx2 hp hq
    exact ⟨w1, w2, w3, by rw [w4, hout2]⟩

/-! ### the raster loop and the whole program -/

theorem mean_raster (data excl : List F) (rows cols ne : Nat) (fuel : Nat) (s : State F)
    (hI : MInv data excl rows cols ne s) :
    let r := exec fuel stRasterM s
    r.ctl = .run ∧ MInv data excl rows cols ne r ∧
    r.fa "out" = (List.range rows).foldl (fun o p => (List.range cols).foldl
      (fun o q => o.set (p * cols + q) (meanCell (listArr data cols) rows cols excl (p : Int) (q : Int))) o) (s.fa "out") := by
  have hset : ∀ (v : String) (st : State F) (i : Int), v ≠ "rows" → v ≠ "cols" →
      MInv data excl rows cols ne st → MInv data excl rows cols ne { st with ienv := setS st.ienv v i } := by
    intro v st i n1 n2 h
    exact ⟨h.ctl, h.shd, h.she, h.sho, h.fad, h.fae, by simp [setS, Ne.symm n1, h.vrows], by simp [setS, Ne.symm n2, h.vcols]⟩
  exact exec_for2_store fuel "y" "x" (.var "rows") (.var "cols") stCellM "out" rows cols
    (fun p q => meanCell (listArr data cols) rows cols excl (p : Int) (q : Int)) (MInv data excl rows cols ne) (by decide)
    (fun st i h => hset "y" st i (by decide) (by decide) h) (fun st i h => hset "x" st i (by decide) (by decide) h)
    (fun st h => ⟨rfl, h.vrows⟩) (fun st h => ⟨rfl, h.vcols⟩)
    (fun st p q hc hg vy vx hp hq => mean_cell data excl rows cols ne fuel st p q hg vy vx hp hq)
    s hI.ctl hI

/-- well-formed inputs of `_mean_numpy`: a 2-D raster and a 1-D array of excluded values -/
structure MeanInput (data excl : List F) (rows cols ne : Nat) (s : State F) : Prop where
  ctl : s.ctl = .run
  shd : s.shp "data" = [rows, cols]
  she : s.shp "excludes" = [ne]
  fad : s.fa "data" = data
  fae : s.fa "excludes" = excl

/-- the model's one-pass output, row-major, over a flat raster -/
def meanOut (data excl : List F) (rows cols : Nat) : List F :=
  (allCells rows cols).map fun c => meanCell (listArr data cols) rows cols excl c.1 c.2

/-- **refinement.** the program generated from `_mean_numpy`, run on any raster (also empty, one row, one column) and
    any excludes list: ends with `return`, no out-of-range access, inputs unchanged, and `out` (raster shape) holds the
    hand model's `meanCell` at every cell: an excluded cell passed through, any other cell the one-pass NaN-ignoring mean
    of the 3×3 window clipped at the raster edge -/
theorem meanNumpy_refines (data excl : List F) (rows cols ne : Nat) (s : State F) (fuel : Nat)
    (hin : MeanInput data excl rows cols ne s) :
    let r := Gen.IL.meanNumpy.run s fuel
    r.ctl = .ret ∧ r.shp "out" = [rows, cols] ∧ r.fa "data" = data ∧ r.fa "excludes" = excl ∧
    r.fa "out" = meanOut data excl rows cols := by
  simp only [Prog.run, meanNumpy_body, meanBody]
  have hs := hin.ctl
  have h1 := exec_allocF2 fuel "out" (.dim "data" 0) (.dim "data" 1) (.lit 0 1) s rows cols
    (by simp [IE.ok, hin.shd]) (by simp [IE.ok, hin.shd]) rfl (by simp [IE.eval, hin.shd]) (by simp [IE.eval, hin.shd])
  have h2 := exec_setI_eq fuel "rows" (.dim "data" 0)
    { s with shp := setS s.shp "out" [rows, cols], fa := setS s.fa "out" (List.replicate (rows * cols) (FE.eval s (.lit 0 1))) }
    rows (by simp [IE.ok, setS, hin.shd]) (by simp [IE.eval, setS, hin.shd])
  have h3 := exec_setI_eq fuel "cols" (.dim "data" 1)
    { s with ienv := setS s.ienv "rows" (rows : Int), shp := setS s.shp "out" [rows, cols], fa := setS s.fa "out" (List.replicate (rows * cols) (FE.eval s (.lit 0 1))) }
    cols (by simp [IE.ok, setS, hin.shd]) (by simp [IE.eval, setS, hin.shd])
  rw [exec_seq_eq fuel _ _ _ _ h1 hs, exec_seq_eq fuel _ _ _ _ h2 hs, exec_seq_eq fuel _ _ _ _ h3 hs]
  have hI : MInv data excl rows cols ne
      { s with ienv := setS (setS s.ienv "rows" (rows : Int)) "cols" (cols : Int), shp := setS s.shp "out" [rows, cols], fa := setS s.fa "out" (List.replicate (rows * cols) (FE.eval s (.lit 0 1))) } :=
    ⟨hs, by simp [setS, hin.shd], by simp [setS, hin.she], by simp, by simp [setS, hin.fad], by simp [setS, hin.fae],
      by simp [setS], by simp⟩
  obtain ⟨hc, hI', hout⟩ := mean_raster data excl rows cols ne fuel _ hI
  rw [exec_seq_eq fuel _ _ _ _ rfl hc]
  simp only [exec]
  refine ⟨trivial, hI'.sho, hI'.fad, hI'.fae, ?_⟩
  rw [hout, fold2_set_eq rows cols _ _ (by simp)]
  unfold meanOut
  rw [allCells_eq_pairs', List.map_map]
  rfl

/-- a state holding the two arrays and nothing else -/
def meanState (data excl : List F) (rows cols : Nat) : State F :=
  { (State.empty : State F) with
    fa := fun x => if x = "data" then data else if x = "excludes" then excl else []
    shp := fun x => if x = "data" then [rows, cols] else if x = "excludes" then [excl.length] else [] }

theorem meanState_input (data excl : List F) (rows cols : Nat) :
    MeanInput data excl rows cols excl.length (meanState data excl rows cols) :=
  ⟨rfl, by simp [meanState], by simp [meanState], by simp [meanState], by simp [meanState]⟩

end XrsVerif.Focal
