import XrsVerif.Proofs.ViewshedQuery
import XrsVerif.Proofs.ViewshedOps
/-!
  C05 helper lemmas, part 4: the sweep run with the tree equals the sweep run with the list.
-/
set_option linter.unusedSectionVars false
set_option linter.unusedVariables false
namespace XrsVerif.Viewshed

variable {α : Type} [Field α] [LinearOrder α] [IsStrictOrderedRing α]

theorem visL_iff (st : List (Node α)) (k ang g : α) :
    visL st k ang g = true ↔ ∀ n ∈ st, n.key < k → spans n ang = true → itp n ang ≤ g := by
  simp only [visL, List.all_eq_true, Bool.or_eq_true, Bool.not_eq_eq_eq_not, Bool.not_true,
    Bool.and_eq_false_imp, decide_eq_true_eq]
  constructor
  · intro h n hn hk hs
    rcases h n hn with h | h
    · exact absurd hs (by simpa using h hk)
    · exact h
  · intro h n hn
    by_cases hk : n.key < k
    · by_cases hs : spans n ang = true
      · exact Or.inr (h n hn hk hs)
      · exact Or.inl (fun _ => by simpa using hs)
    · exact Or.inl (fun hk' => absurd hk' hk)

/-- on related states the tree query and the list scan take the same decision -/
theorem visT_eq_visL {S : α} {d : Node α} {t : Tree α} {st : List (Node α)} {k ang g : α}
    (hr : Rel S d t st) (hq : QOK S d st k ang g) : visT S t k ang g = visL st k ang g := by
  obtain ⟨hb, ha, hm⟩ := hr
  obtain ⟨hS, ⟨kn, hkn, hkk⟩, hsp, hdm, hdi⟩ := hq
  have hdec := query_decides' (S := S) (t := t) k ang g hS hb ha
    ⟨kn, (hm kn).mpr (Or.inr hkn), hkk⟩
    (fun n hn hk => by
      rcases (hm n).mp hn with rfl | hn
      · exact Or.inr hdm
      · exact Or.inl (hsp n hn hk))
  rw [Bool.eq_iff_iff, visL_iff]
  unfold visT
  rw [decide_eq_true_eq, hdec]
  constructor
  · intro h n hn; exact h n ((hm n).mpr (Or.inr hn))
  · intro h n hn hk hs
    rcases (hm n).mp hn with rfl | hn
    · exact hdi hs
    · exact h n hn hk hs

/-- **refinement along a run.**  If every state of the tree run is related to the state of the list
    run (BST, no overestimate, same nodes) and the queries are the sweep's, both runs report the same
    visible cells. -/
theorem sweep_refines_along {S : α} {d : Node α} (O : TreeOps α) :
    ∀ (ops : List (Op α)) (t : Tree α) (st : List (Node α)),
      InvAlong S d O t st ops → OpsOK S d st ops → runT S O t ops = runL st ops := by
  intro ops
  induction ops with
  | nil => intros; rfl
  | cons op ops ih =>
    intro t st hi ho
    obtain ⟨hr, hi'⟩ := hi
    obtain ⟨hok, ho'⟩ := ho
    cases op with
    | ins n => simpa [runT, runL, stepT, stepL] using ih _ _ hi' ho'
    | del k => simpa [runT, runL, stepT, stepL] using ih _ _ hi' ho'
    | qry k ang g =>
      have := ih _ _ hi' ho'
      simp only [stepT, stepL] at this
      simp only [runT, runL, stepT, stepL, visT_eq_visL hr hok, this]

theorem invAlong_of_preserves {S : α} {d : Node α} (O : TreeOps α) (hp : Preserves S d O) :
    ∀ (ops : List (Op α)) (t : Tree α) (st : List (Node α)),
      Rel S d t st → OpsOK S d st ops → InvAlong S d O t st ops := by
  intro ops
  induction ops with
  | nil => intro t st hr _; exact hr
  | cons op ops ih =>
    intro t st hr ho
    obtain ⟨hok, ho'⟩ := ho
    refine ⟨hr, ?_⟩
    cases op with
    | ins n => exact ih _ _ (hp.1 t st n hr hok.1 hok.2) ho'
    | del k => exact ih _ _ (hp.2 t st k hr) ho'
    | qry k ang g => exact ih _ _ hr ho'

/-! ### what the fixups may do keeps everything -/

theorem Rebal.toList {S : α} {t u : Tree α} (h : Rebal S t u) : u.toList = t.toList := by
  induction h with
  | refl t => rfl
  | rotL p _ ih => rw [ih, atPath_toList (rotL_toList S)]
  | rotR p _ ih => rw [ih, atPath_toList (rotR_toList S)]
  | colour f _ ih => rw [ih, recolour_toList]

theorem Rebal.bst {S : α} {t u : Tree α} (h : Rebal S t u) (hb : BST t) : BST u := by
  induction h with
  | refl t => exact hb
  | rotL p _ ih => exact ih (atPath_BST (rotL_toList S) (fun _ => rotL_BST S) p hb)
  | rotR p _ ih => exact ih (atPath_BST (rotR_toList S) (fun _ => rotR_BST S) p hb)
  | colour f _ ih => exact ih (recolour_BST f [] hb)

theorem Rebal.augLeQ {S : α} {t u : Tree α} (h : Rebal S t u) (ha : AugLeQ S t) : AugLeQ S u := by
  induction h with
  | refl t => exact ha
  | rotL p _ ih => exact ih (atPath_AugLeQ S (rotL_toList S) (fun _ => rotL_AugLe S) (fun _ => rotL_AugLeQ S) p ha)
  | rotR p _ ih => exact ih (atPath_AugLeQ S (rotR_toList S) (fun _ => rotR_AugLe S) (fun _ => rotR_AugLeQ S) p ha)
  | colour f _ ih => exact ih (recolour_AugLeQ S f [] ha)

theorem Rebal.exact {S : α} {t u : Tree α} (h : Rebal S t u) (ha : Exact S t) : Exact S u := by
  induction h with
  | refl t => exact ha
  | rotL p _ ih => exact ih (atPath_Exact S (rotL_toList S) (fun _ => rotL_Exact S) p ha)
  | rotR p _ ih => exact ih (atPath_Exact S (rotR_toList S) (fun _ => rotR_Exact S) p ha)
  | colour f _ ih => exact ih (recolour_Exact S f [] ha)

theorem Rebal.augLe {S : α} {t u : Tree α} (h : Rebal S t u) (ha : AugLe S t) : AugLe S u := by
  induction h with
  | refl t => exact ha
  | rotL p _ ih => exact ih (atPath_AugLe S (rotL_toList S) (fun _ => rotL_AugLe S) p ha)
  | rotR p _ ih => exact ih (atPath_AugLe S (rotR_toList S) (fun _ => rotR_AugLe S) p ha)
  | colour f _ ih => exact ih (recolour_AugLe S f [] ha)

end XrsVerif.Viewshed
