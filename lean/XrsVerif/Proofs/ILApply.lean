import XrsVerif.Proofs.ILangFocal
import XrsVerif.Proofs.ILFocal
import XrsVerif.Proofs.Focal
/-
  Proofs/ILApply.lean -- refinement (layer T3), part 1: the gather block of `_apply_numpy`.

  The seven generated programs `Gen.IL.applyMean` … `Gen.IL.applyVar` (xrspatial/focal.py `_apply_numpy` specialised to
  each `_calc_*` reducer) have the same body up to the inlined reducer: `applyBody red rv` (`apply*_body`, by `rfl`).
  This file is about the part in front of the reducer: for output cell `(y, x)`, after `kernel_values.fill(np.nan)` and
  the two gather loops, `kernel_values` is -- for **every** raster and every kernel of odd shape -- the row-major list
  of the model's gather buffer `applyGather … nanArr y x` (Model/Focal.lean: the same two loops as folds over `Arr`),
  i.e. `data[y - krows/2 + a, x - kcols/2 + b]` where `kernel[a, b] == 1` and that cell is inside the raster, NaN
  elsewhere (`applyGather_eq` of Proofs/Focal.lean).  One proof for the seven programs (`gather_cell`).
-/
namespace XrsVerif.Focal
open XrsVerif XrsVerif.IL XrsVerif.IL.Sd XrsVerif.IL.Fc XrsVerif.Gen.Focal
set_option linter.unusedSectionVars false
set_option linter.unusedSimpArgs false
set_option linter.unusedVariables false
variable {F : Type} [Fl F]

/-! ### the pieces of `_apply_numpy` -/

def stGatherStep : St :=
  .ite (.and (.cmpI .ge (.var "ky") (.lit 0)) (.and (.cmpI .lt (.var "ky") (.var "rows")) (.and (.cmpI .ge (.var "kx") (.lit 0)) (.cmpI .lt (.var "kx") (.var "cols")))))
    (.seq (.setI "kyidx" (.bin .sub (.var "ky") (.bin .sub (.var "y") (.var "hrows"))))
    (.seq (.setI "kxidx" (.bin .sub (.var "kx") (.bin .sub (.var "x") (.var "hcols"))))
    (.ite (.cmpF .eq (.ld2 "kernel" (.var "kyidx") (.var "kxidx")) (.ofInt (.lit 1)))
      (.stF2 "kernel_values" (.var "kyidx") (.var "kxidx") (.ld2 "data" (.var "ky") (.var "kx")))
      .skip)))
    .skip

def stGatherKx : St :=
  .forRange "kx" (.bin .sub (.var "x") (.var "hcols")) (.bin .add (.bin .add (.var "x") (.var "hcols")) (.lit 1)) (.lit 1)
    stGatherStep

def stGather : St :=
  .forRange "ky" (.bin .sub (.var "y") (.var "hrows")) (.bin .add (.bin .add (.var "y") (.var "hrows")) (.lit 1)) (.lit 1)
    stGatherKx

def stFill : St := .allocF "kernel_values" [(.dim "kernel_values" 0), (.dim "kernel_values" 1)] .nan

/-- the per-cell body: reset the buffer, gather, reduce (`red` leaves its result in the numeric variable `rv`), store -/
def stCellA (red : St) (rv : String) : St :=
  .seq stFill (.seq stGather (.seq red (.stF2 "out" (.var "y") (.var "x") (.var rv))))

def stRaster (red : St) (rv : String) : St :=
  .forRange "y" (.lit 0) (.var "rows") (.lit 1) (.forRange "x" (.lit 0) (.var "cols") (.lit 1) (stCellA red rv))

/-- `_apply_numpy` with the reducer `red` inlined -/
def applyBody (red : St) (rv : String) : St :=
  .seq (.allocF "out" [(.dim "data" 0), (.dim "data" 1)] (.lit 0 1))
  (.seq (.setI "rows" (.dim "data" 0))
  (.seq (.setI "cols" (.dim "data" 1))
  (.seq (.setI "krows" (.dim "kernel" 0))
  (.seq (.setI "kcols" (.dim "kernel" 1))
  (.seq (.setI "hrows" (.bin .tdiv (.var "krows") (.lit 2)))
  (.seq (.setI "hcols" (.bin .tdiv (.var "kcols") (.lit 2)))
  (.seq (.allocF "kernel_values" [(.dim "kernel" 0), (.dim "kernel" 1)] (.lit 0 1))
  (.seq (stRaster red rv)
  .ret))))))))

/-- an inlined one-line reducer `return np.<op>(array)` -/
def redOf (rv : String) (op : RedOp) : St := .scope (.seq (.setF rv (.red op "kernel_values")) .ret)

/-- `_calc_range`, with its two callees inlined -/
def redRange : St :=
  .scope (.seq (.scope (.seq (.setF "_calc_range1$_calc_min2$ret0" (.red .nanmin "kernel_values")) .ret))
    (.seq (.setF "_calc_range1$value_min" (.var "_calc_range1$_calc_min2$ret0"))
    (.seq (.scope (.seq (.setF "_calc_range1$_calc_max3$ret0" (.red .nanmax "kernel_values")) .ret))
    (.seq (.setF "_calc_range1$value_max" (.var "_calc_range1$_calc_max3$ret0"))
    (.seq (.setF "_calc_range1$ret0" (.bin .sub (.var "_calc_range1$value_max") (.var "_calc_range1$value_min")))
    .ret)))))

theorem applyMean_body : Gen.IL.applyMean.body = applyBody (redOf "_calc_mean1$ret0" .nanmean) "_calc_mean1$ret0" := rfl
theorem applySum_body : Gen.IL.applySum.body = applyBody (redOf "_calc_sum1$ret0" .nansum) "_calc_sum1$ret0" := rfl
theorem applyMin_body : Gen.IL.applyMin.body = applyBody (redOf "_calc_min1$ret0" .nanmin) "_calc_min1$ret0" := rfl
theorem applyMax_body : Gen.IL.applyMax.body = applyBody (redOf "_calc_max1$ret0" .nanmax) "_calc_max1$ret0" := rfl
theorem applyStd_body : Gen.IL.applyStd.body = applyBody (redOf "_calc_std1$ret0" .nanstd) "_calc_std1$ret0" := rfl
theorem applyVar_body : Gen.IL.applyVar.body = applyBody (redOf "_calc_var1$ret0" .nanvar) "_calc_var1$ret0" := rfl
theorem applyRange_body : Gen.IL.applyRange.body = applyBody redRange "_calc_range1$ret0" := rfl

/-! ### the state the raster loop runs in -/

/-- sizes, half widths, shapes and the two input arrays; `out` and `kernel_values` are allocated -/
structure AInv (data kernel : List F) (rows cols kr kc : Nat) (s : State F) : Prop where
  ctl : s.ctl = .run
  shd : s.shp "data" = [rows, cols]
  shk : s.shp "kernel" = [kr, kc]
  sho : s.shp "out" = [rows, cols]
  shv : s.shp "kernel_values" = [kr, kc]
  fad : s.fa "data" = data
  fak : s.fa "kernel" = kernel
  vrows : s.ienv "rows" = rows
  vcols : s.ienv "cols" = cols
  vhr : s.ienv "hrows" = ((kr / 2 : Nat) : Int)
  vhc : s.ienv "hcols" = ((kc / 2 : Nat) : Int)

theorem AInv.frame {data kernel : List F} {rows cols kr kc : Nat} {IV FA : List String} {s r : State F}
    (h : AInv data kernel rows cols kr kc s) (hf : Frame IV FA [] s r)
    (h1 : "rows" ∉ IV) (h2 : "cols" ∉ IV) (h3 : "hrows" ∉ IV) (h4 : "hcols" ∉ IV)
    (h5 : "data" ∉ FA) (h6 : "kernel" ∉ FA) : AInv data kernel rows cols kr kc r :=
  ⟨hf.ctl, by rw [hf.shp _ (by simp)]; exact h.shd, by rw [hf.shp _ (by simp)]; exact h.shk,
   by rw [hf.shp _ (by simp)]; exact h.sho, by rw [hf.shp _ (by simp)]; exact h.shv,
   by rw [hf.fa _ h5]; exact h.fad, by rw [hf.fa _ h6]; exact h.fak,
   by rw [hf.ienv _ h1]; exact h.vrows, by rw [hf.ienv _ h2]; exact h.vcols,
   by rw [hf.ienv _ h3]; exact h.vhr, by rw [hf.ienv _ h4]; exact h.vhc⟩

/-! ### one gather iteration -/

/-- what one iteration of the innermost loop does to the flat buffer -/
def gStepL (D K : Arr F) (rows cols kr kc : Nat) (y x ky kx : Int) (l : List F) : List F :=
  if 0 ≤ ky ∧ ky < rows ∧ 0 ≤ kx ∧ kx < cols then
    if Fl.eq (K (ky - (y - ((kr / 2 : Nat) : Int))) (kx - (x - ((kc / 2 : Nat) : Int)))) (Fl.lit 1 1) = true then
      l.set ((ky - (y - ((kr / 2 : Nat) : Int))).toNat * kc + (kx - (x - ((kc / 2 : Nat) : Int))).toNat) (D ky kx)
    else l
  else l

/-- the body of the `kx` loop at `(ky, kx)`, kernel index `(ky - (y - hrows), kx - (x - hcols))` inside the kernel -/
theorem gather_step (data kernel : List F) (rows cols kr kc : Nat) (fuel : Nat) (s : State F) (y x ky kx : Int)
    (hI : AInv data kernel rows cols kr kc s) (vy : s.ienv "y" = y) (vx : s.ienv "x" = x) (vky : s.ienv "ky" = ky)
    (ha0 : 0 ≤ ky - (y - ((kr / 2 : Nat) : Int))) (ha1 : ky - (y - ((kr / 2 : Nat) : Int)) < kr)
    (hb0 : 0 ≤ kx - (x - ((kc / 2 : Nat) : Int))) (hb1 : kx - (x - ((kc / 2 : Nat) : Int)) < kc) :
    let r := exec fuel stGatherStep { s with ienv := setS s.ienv "kx" kx }
    Frame ["kx", "kyidx", "kxidx"] ["kernel_values"] [] s r ∧
    r.fa "kernel_values" =
      gStepL (listArr data cols) (listArr kernel kc) rows cols kr kc y x ky kx (s.fa "kernel_values") := by
  intro r
  have hs := hI.ctl
  have vhr := hI.vhr
  have vhc := hI.vhc
  simp only [gStepL]
  generalize ((kr / 2 : Nat) : Int) = hr' at *
  generalize ((kc / 2 : Nat) : Int) = hc' at *
  generalize ha : ky - (y - hr') = a at *
  generalize hb : kx - (x - hc') = b at *
  have hcok : BE.ok { s with ienv := setS s.ienv "kx" kx }
      (.and (.cmpI .ge (.var "ky") (.lit 0)) (.and (.cmpI .lt (.var "ky") (.var "rows")) (.and (.cmpI .ge (.var "kx") (.lit 0)) (.cmpI .lt (.var "kx") (.var "cols"))))) = true := by
    simp [BE.ok, IE.ok]
  have hcev : BE.eval { s with ienv := setS s.ienv "kx" kx }
      (.and (.cmpI .ge (.var "ky") (.lit 0)) (.and (.cmpI .lt (.var "ky") (.var "rows")) (.and (.cmpI .ge (.var "kx") (.lit 0)) (.cmpI .lt (.var "kx") (.var "cols"))))) =
      decide (0 ≤ ky ∧ ky < rows ∧ 0 ≤ kx ∧ kx < cols) := by
    simp [BE.eval, IE.eval, cmpInt, setS, vky, hI.vrows, hI.vcols]
  by_cases hin : 0 ≤ ky ∧ ky < rows ∧ 0 ≤ kx ∧ kx < cols
  · have r1 : inRange a kr = true := inRange_of_nonneg_lt _ _ ha0 ha1
    have r2 : inRange b kc = true := inRange_of_nonneg_lt _ _ hb0 hb1
    have r3 : inRange ky rows = true := inRange_of_nonneg_lt _ _ hin.1 hin.2.1
    have r4 : inRange kx cols = true := inRange_of_nonneg_lt _ _ hin.2.2.1 hin.2.2.2
    have o1 : off2 [kr, kc] a b = a.toNat * kc + b.toNat := off2_nonneg _ _ _ _ ha0 hb0
    have o2 : off2 [rows, cols] ky kx = ky.toNat * cols + kx.toNat := off2_nonneg _ _ _ _ hin.1 hin.2.2.1
    have hr1 : r = exec fuel (.ite (.cmpF .eq (.ld2 "kernel" (.var "kyidx") (.var "kxidx")) (.ofInt (.lit 1)))
          (.stF2 "kernel_values" (.var "kyidx") (.var "kxidx") (.ld2 "data" (.var "ky") (.var "kx"))) .skip)
        { s with ienv := setS (setS (setS s.ienv "kx" kx) "kyidx" a) "kxidx" b } := by
      simp only [r, stGatherStep]
      rw [exec_ite_true fuel _ _ _ _ hcok (by rw [hcev]; simp [hin])]
      rw [exec_seq_eq fuel _ _ _ { s with ienv := setS (setS s.ienv "kx" kx) "kyidx" a }
        (by simp [exec, IE.ok, IE.eval, IOp.eval, setS, vy, vky, vhr, ha]) hs]
      rw [exec_seq_eq fuel _ _ _ { s with ienv := setS (setS (setS s.ienv "kx" kx) "kyidx" a) "kxidx" b }
        (by simp [exec, IE.ok, IE.eval, IOp.eval, setS, vx, vhc, hb]) hs]
    have hfr : Frame ["kx", "kyidx", "kxidx"] ["kernel_values"] [] s
        { s with ienv := setS (setS (setS s.ienv "kx" kx) "kyidx" a) "kxidx" b } := by
      refine ⟨hs, fun _ _ => rfl, fun _ _ => rfl, ?_⟩
      intro v hv
      simp only [List.mem_cons, List.mem_nil_iff, or_false, not_or] at hv
      simp only [setS, hv.1, hv.2.1, hv.2.2, if_false]
    have hkok : BE.ok { s with ienv := setS (setS (setS s.ienv "kx" kx) "kyidx" a) "kxidx" b }
        (.cmpF .eq (.ld2 "kernel" (.var "kyidx") (.var "kxidx")) (.ofInt (.lit 1))) = true := by
      simp [BE.ok, FE.ok, IE.ok, IE.eval, setS, hI.shk, r1, r2]
    have hkev : BE.eval { s with ienv := setS (setS (setS s.ienv "kx" kx) "kyidx" a) "kxidx" b }
        (.cmpF .eq (.ld2 "kernel" (.var "kyidx") (.var "kxidx")) (.ofInt (.lit 1))) =
        Fl.eq (listArr kernel kc a b) (Fl.lit 1 1) := by
      simp [BE.eval, FE.eval, IE.eval, CmpOp.eval, setS, hI.shk, hI.fak, o1, listArr]
    by_cases hk : Fl.eq (listArr kernel kc a b) (Fl.lit 1 1) = true
    · rw [hr1, exec_ite_true fuel _ _ _ _ hkok (by rw [hkev]; exact hk)]
      have hst : exec fuel (.stF2 "kernel_values" (.var "kyidx") (.var "kxidx") (.ld2 "data" (.var "ky") (.var "kx")))
            { s with ienv := setS (setS (setS s.ienv "kx" kx) "kyidx" a) "kxidx" b } =
          { s with ienv := setS (setS (setS s.ienv "kx" kx) "kyidx" a) "kxidx" b,
                   fa := setS s.fa "kernel_values" ((s.fa "kernel_values").set (a.toNat * kc + b.toNat)
                     (listArr data cols ky kx)) } := by
        simp [exec, IE.ok, IE.eval, FE.ok, FE.eval, setS, hI.shv, hI.shd, hI.fad, vky, r1, r2, r3, r4, o1, o2, listArr]
      rw [hst]
      refine ⟨⟨hs, fun _ _ => rfl, ?_, hfr.ienv⟩, ?_⟩
      · intro a' ha'
        simp only [List.mem_cons, List.mem_nil_iff, or_false] at ha'
        simp only [setS, ha', if_false]
      · simp only [setS_same, hin, and_self, if_true, hk]
    · rw [hr1, exec_ite_false fuel _ _ _ _ hkok (by rw [hkev]; simpa using hk)]
      simp only [exec]
      refine ⟨hfr, ?_⟩
      simp only [hin, and_self, if_true, hk]
      simp
  · have hr1 : r = { s with ienv := setS s.ienv "kx" kx } := by
      simp only [r, stGatherStep]
      rw [exec_ite_false fuel _ _ _ _ hcok (by rw [hcev]; simp [hin])]
      simp only [exec]
    rw [hr1]
    refine ⟨(Frame.setI _ _ _ s "kx" kx hs (by simp)), ?_⟩
    simp only [hin, if_false]

/-! ### the two gather loops -/

/-- the `kx` loop for kernel row `ky - (y - hrows)`; `kc` odd -/
theorem gather_kx (data kernel : List F) (rows cols kr kc : Nat) (fuel : Nat) (s : State F) (y x ky : Int)
    (hI : AInv data kernel rows cols kr kc s) (vy : s.ienv "y" = y) (vx : s.ienv "x" = x) (vky : s.ienv "ky" = ky)
    (ha0 : 0 ≤ ky - (y - ((kr / 2 : Nat) : Int))) (ha1 : ky - (y - ((kr / 2 : Nat) : Int)) < kr)
    (hkc : kc % 2 = 1) :
    let r := exec fuel stGatherKx s
    Frame ["kx", "kyidx", "kxidx"] ["kernel_values"] [] s r ∧
    r.fa "kernel_values" =
      (intRange (x - ((kc / 2 : Nat) : Int)) (x + ((kc / 2 : Nat) : Int) + 1)).foldl
        (fun l kx => gStepL (listArr data cols) (listArr kernel kc) rows cols kr kc y x ky kx l)
        (s.fa "kernel_values") := by
  intro r
  have hr : r = loopOver (fun st i => exec fuel stGatherStep { st with ienv := setS st.ienv "kx" i })
      (intRange (x - ((kc / 2 : Nat) : Int)) (x + ((kc / 2 : Nat) : Int) + 1)) s := by
    simp only [r, stGatherKx]
    rw [exec_forRange_step1 _ _ _ _ _ _ rfl rfl]
    simp only [IE.eval, IOp.eval, vx, hI.vhc, intRange_eq]
  have h := loopOver_foldl (fun st i => exec fuel stGatherStep { st with ienv := setS st.ienv "kx" i })
    (intRange (x - ((kc / 2 : Nat) : Int)) (x + ((kc / 2 : Nat) : Int) + 1))
    (fun st => Frame ["kx", "kyidx", "kxidx"] ["kernel_values"] [] s st) (fun st => st.fa "kernel_values")
    (fun l kx => gStepL (listArr data cols) (listArr kernel kc) rows cols kr kc y x ky kx l)
    (by
      intro st kx hx hc hF
      have hx' := (mem_intRange' _ _ _).mp hx
      have hI' := hI.frame hF (by decide) (by decide) (by decide) (by decide) (by decide) (by decide)
      obtain ⟨h1, h2⟩ := gather_step data kernel rows cols kr kc fuel st y x ky kx hI'
        (by rw [hF.ienv _ (by decide)]; exact vy) (by rw [hF.ienv _ (by decide)]; exact vx)
        (by rw [hF.ienv _ (by decide)]; exact vky) ha0 ha1 (by omega) (by omega)
      exact ⟨h1.ctl, hF.trans h1, h2⟩)
    s hI.ctl (Frame.refl _ _ _ s hI.ctl)
  rw [← hr] at h
  exact ⟨h.2.1, h.2.2⟩

/-- the `ky` loop: the whole window of cell `(y, x)`; `kr`, `kc` odd -/
theorem gather_ky (data kernel : List F) (rows cols kr kc : Nat) (fuel : Nat) (s : State F) (y x : Int)
    (hI : AInv data kernel rows cols kr kc s) (vy : s.ienv "y" = y) (vx : s.ienv "x" = x)
    (hkr : kr % 2 = 1) (hkc : kc % 2 = 1) :
    let r := exec fuel stGather s
    Frame ["ky", "kx", "kyidx", "kxidx"] ["kernel_values"] [] s r ∧
    r.fa "kernel_values" =
      (intRange (y - ((kr / 2 : Nat) : Int)) (y + ((kr / 2 : Nat) : Int) + 1)).foldl (fun l ky =>
        (intRange (x - ((kc / 2 : Nat) : Int)) (x + ((kc / 2 : Nat) : Int) + 1)).foldl
          (fun l kx => gStepL (listArr data cols) (listArr kernel kc) rows cols kr kc y x ky kx l) l)
        (s.fa "kernel_values") := by
  intro r
  have hr : r = loopOver (fun st i => exec fuel stGatherKx { st with ienv := setS st.ienv "ky" i })
      (intRange (y - ((kr / 2 : Nat) : Int)) (y + ((kr / 2 : Nat) : Int) + 1)) s := by
    simp only [r, stGather]
    rw [exec_forRange_step1 _ _ _ _ _ _ rfl rfl]
    simp only [IE.eval, IOp.eval, vy, hI.vhr, intRange_eq]
  have h := loopOver_foldl (fun st i => exec fuel stGatherKx { st with ienv := setS st.ienv "ky" i })
    (intRange (y - ((kr / 2 : Nat) : Int)) (y + ((kr / 2 : Nat) : Int) + 1))
    (fun st => Frame ["ky", "kx", "kyidx", "kxidx"] ["kernel_values"] [] s st) (fun st => st.fa "kernel_values")
    (fun l ky => (intRange (x - ((kc / 2 : Nat) : Int)) (x + ((kc / 2 : Nat) : Int) + 1)).foldl
          (fun l kx => gStepL (listArr data cols) (listArr kernel kc) rows cols kr kc y x ky kx l) l)
    (by
      intro st ky hx hc hF
      have hx' := (mem_intRange' _ _ _).mp hx
      have hF1 : Frame ["ky", "kx", "kyidx", "kxidx"] ["kernel_values"] [] st { st with ienv := setS st.ienv "ky" ky } :=
        Frame.setI _ _ _ st "ky" ky hc (by simp)
      have hF2 := hF.trans hF1
      have hI' := hI.frame hF2 (by decide) (by decide) (by decide) (by decide) (by decide) (by decide)
      obtain ⟨h1, h2⟩ := gather_kx data kernel rows cols kr kc fuel _ y x ky hI'
        (by rw [hF2.ienv _ (by decide)]; exact vy) (by rw [hF2.ienv _ (by decide)]; exact vx)
        (by simp) (by omega) (by omega) hkc
      exact ⟨h1.ctl, hF2.trans (h1.mono (by simp) (by simp) (by simp)), h2⟩)
    s hI.ctl (Frame.refl _ _ _ s hI.ctl)
  rw [← hr] at h
  exact ⟨h.2.1, h.2.2⟩

/-! ### flat buffer and the model's `Arr` buffer -/

/-- the flat `kr × kc` buffer `l` holds the entries of `b` -/
def BufRel (kr kc : Nat) (l : List F) (b : Arr F) : Prop :=
  l.length = kr * kc ∧ ∀ p q : Nat, p < kr → q < kc → l[p * kc + q]? = some (b (p : Int) (q : Int))

theorem BufRel.eq_map {kr kc : Nat} {l : List F} {b : Arr F} (h : BufRel kr kc l b) :
    l = (allCells kr kc).map fun p => b p.1 p.2 := by
  apply List.ext_getElem?
  intro t
  by_cases ht : t < kr * kc
  · have hm : 0 < kc := by
      rcases Nat.eq_zero_or_pos kc with h0 | h0
      · subst h0; simp at ht
      · exact h0
    have hq : t % kc < kc := Nat.mod_lt _ hm
    have hp : t / kc < kr := Nat.div_lt_of_lt_mul (by rw [Nat.mul_comm]; exact ht)
    have htd : (t / kc) * kc + t % kc = t := by rw [Nat.mul_comm]; exact Nat.div_add_mod t kc
    rw [← htd, h.2 _ _ hp hq, List.getElem?_map, allCells_getElem? kr kc _ _ hp hq]
    rfl
  · rw [List.getElem?_eq_none (by rw [h.1]; omega),
      List.getElem?_eq_none (by rw [List.length_map, allCells_length]; omega)]

theorem BufRel.replicate (kr kc : Nat) : BufRel kr kc (List.replicate (kr * kc) (Fl.nan : F)) nanArr := by
  refine ⟨by simp, ?_⟩
  intro p q hp hq
  have : p * kc + q < kr * kc := by
    calc p * kc + q < p * kc + kc := by omega
      _ = (p + 1) * kc := by rw [Nat.succ_mul]
      _ ≤ kr * kc := Nat.mul_le_mul_right kc hp
  simp [this, nanArr]

/-- the model's gather step with the generated index expressions spelled out -/
theorem applyStep_vars (D K : Arr F) (rows cols kr kc : Nat) (y x ky kx : Int) (b : Arr F) (i j : Int) :
    applyStep D K { applyVars rows cols kr kc y x with ky := ky, kx := kx } b i j =
      if (0 ≤ ky ∧ ky < rows ∧ 0 ≤ kx ∧ kx < cols) ∧
          Fl.eq (K (ky - (y - ((kr / 2 : Nat) : Int))) (kx - (x - ((kc / 2 : Nat) : Int)))) (Fl.lit 1 1) = true ∧
          i = ky - (y - ((kr / 2 : Nat) : Int)) ∧ j = kx - (x - ((kc / 2 : Nat) : Int))
      then D ky kx else b i j := by
  rw [applyStep_at]
  apply if_congr _ rfl rfl
  constructor
  · rintro ⟨h1, h2, h3, h4⟩
    simp only [apply_in_bounds, Bool.and_eq_true] at h1
    obtain ⟨⟨⟨a1, a2⟩, a3⟩, a4⟩ := h1
    exact ⟨⟨of_decide_eq_true a1, of_decide_eq_true a2, of_decide_eq_true a3, of_decide_eq_true a4⟩, h2, h3, h4⟩
  · rintro ⟨⟨a1, a2, a3, a4⟩, h2, h3, h4⟩
    refine ⟨?_, h2, h3, h4⟩
    simp only [apply_in_bounds, Bool.and_eq_true]
    exact ⟨⟨⟨decide_eq_true a1, decide_eq_true a2⟩, decide_eq_true a3⟩, decide_eq_true a4⟩

/-- one gather iteration on the flat buffer is the model's `applyStep` on the `Arr` buffer -/
theorem BufRel.step {kr kc : Nat} {l : List F} {b : Arr F} (D K : Arr F) (rows cols : Nat) (y x ky kx : Int)
    (h : BufRel kr kc l b)
    (ha0 : 0 ≤ ky - (y - ((kr / 2 : Nat) : Int))) (ha1 : ky - (y - ((kr / 2 : Nat) : Int)) < kr)
    (hb0 : 0 ≤ kx - (x - ((kc / 2 : Nat) : Int))) (hb1 : kx - (x - ((kc / 2 : Nat) : Int)) < kc) :
    BufRel kr kc (gStepL D K rows cols kr kc y x ky kx l)
      (applyStep D K { applyVars rows cols kr kc y x with ky := ky, kx := kx } b) := by
  refine ⟨?_, ?_⟩
  · unfold gStepL
    split
    · split
      · rw [List.length_set]; exact h.1
      · exact h.1
    · exact h.1
  · intro p q hp hq
    rw [applyStep_vars]
    simp only [gStepL]
    by_cases hin : 0 ≤ ky ∧ ky < rows ∧ 0 ≤ kx ∧ kx < cols
    · rw [if_pos hin]
      by_cases hk : Fl.eq (K (ky - (y - ((kr / 2 : Nat) : Int))) (kx - (x - ((kc / 2 : Nat) : Int)))) (Fl.lit 1 1) = true
      · rw [if_pos hk]
        by_cases hpq : (p : Int) = ky - (y - ((kr / 2 : Nat) : Int)) ∧ (q : Int) = kx - (x - ((kc / 2 : Nat) : Int))
        · have e : (ky - (y - ((kr / 2 : Nat) : Int))).toNat * kc + (kx - (x - ((kc / 2 : Nat) : Int))).toNat = p * kc + q := by
            have e1 : (ky - (y - ((kr / 2 : Nat) : Int))).toNat = p := by omega
            have e2 : (kx - (x - ((kc / 2 : Nat) : Int))).toNat = q := by omega
            rw [e1, e2]
          rw [if_pos ⟨hin, hk, hpq⟩, e, List.getElem?_set_self (by
            rw [h.1]
            calc p * kc + q < p * kc + kc := by omega
              _ = (p + 1) * kc := by rw [Nat.succ_mul]
              _ ≤ kr * kc := Nat.mul_le_mul_right kc hp)]
        · rw [if_neg (fun hc => hpq hc.2.2), List.getElem?_set_ne, h.2 p q hp hq]
          intro e
          have := idx_inj' (ky - (y - ((kr / 2 : Nat) : Int))).toNat (kx - (x - ((kc / 2 : Nat) : Int))).toNat p q kc
            (by omega) hq e
          apply hpq
          omega
      · rw [if_neg hk, if_neg (fun hc => hk hc.2.1)]
        exact h.2 p q hp hq
    · rw [if_neg hin, if_neg (fun hc => hin hc.1)]
      exact h.2 p q hp hq

/-- two folds over the same list whose steps preserve a relation -/
theorem foldl_rel {α β κ : Type} (R : α → β → Prop) (ks : List κ) (f : α → κ → α) (g : β → κ → β)
    (hstep : ∀ k ∈ ks, ∀ a b, R a b → R (f a k) (g b k)) (a : α) (b : β) (h : R a b) :
    R (ks.foldl f a) (ks.foldl g b) := by
  induction ks generalizing a b with
  | nil => exact h
  | cons k ks ih =>
    simp only [List.foldl_cons]
    exact ih (fun k' hk' => hstep k' (List.mem_cons_of_mem _ hk')) _ _ (hstep k List.mem_cons_self a b h)

/-- the list-level double fold of `gather_ky` on the NaN-filled buffer is the model's gather buffer -/
theorem gather_fold_rel (D K : Arr F) (rows cols kr kc : Nat) (y x : Int) (hkr : kr % 2 = 1) (hkc : kc % 2 = 1) :
    BufRel kr kc
      ((intRange (y - ((kr / 2 : Nat) : Int)) (y + ((kr / 2 : Nat) : Int) + 1)).foldl (fun l ky =>
        (intRange (x - ((kc / 2 : Nat) : Int)) (x + ((kc / 2 : Nat) : Int) + 1)).foldl
          (fun l kx => gStepL D K rows cols kr kc y x ky kx l) l) (List.replicate (kr * kc) Fl.nan))
      (applyGather D K rows cols kr kc nanArr y x) := by
  unfold applyGather
  simp only [apply_ky_lo, apply_ky_hi, apply_kx_lo, apply_kx_hi]
  apply foldl_rel (BufRel kr kc)
  · intro ky hky l b hR
    have hky' := (mem_intRange' _ _ _).mp hky
    try simp only [applyVars, apply_hrows, apply_hcols] at hky'
    apply foldl_rel (BufRel kr kc)
    · intro kx hkx l2 b2 hR2
      have hkx' := (mem_intRange' _ _ _).mp hkx
      try simp only [applyVars, apply_hrows, apply_hcols] at hkx'
      exact BufRel.step D K rows cols y x ky kx hR2 (by omega) (by omega) (by omega) (by omega)
    · exact hR
  · exact BufRel.replicate kr kc

/-- the closed form of the gathered window, row-major: `specWindow` of Proofs/Focal.lean flattened -/
theorem gather_fold_eq (D K : Arr F) (rows cols kr kc : Nat) (y x : Int) (hkr : kr % 2 = 1) (hkc : kc % 2 = 1) :
    (intRange (y - ((kr / 2 : Nat) : Int)) (y + ((kr / 2 : Nat) : Int) + 1)).foldl (fun l ky =>
        (intRange (x - ((kc / 2 : Nat) : Int)) (x + ((kc / 2 : Nat) : Int) + 1)).foldl
          (fun l kx => gStepL D K rows cols kr kc y x ky kx l) l) (List.replicate (kr * kc) Fl.nan) =
      (specWindow D K rows cols kr kc y x).flatten := by
  rw [(gather_fold_rel D K rows cols kr kc y x hkr hkc).eq_map, specWindow, flatten_windowOf]
  apply List.map_congr_left
  intro p hp
  obtain ⟨a, b, ha, hb, rfl⟩ := (mem_allCells _ _ _).mp hp
  exact applyGather_eq D K rows cols kr kc nanArr y x a b (by omega) (by omega) (by omega) (by omega)

end XrsVerif.Focal
