import XrsVerif.Proofs.ILangVstree
import XrsVerif.Proofs.ILangProx
import XrsVerif.Gen.IL
/-
  Proofs/ILangVssweep.lean -- generic ILang lemmas and the *templates over a name prefix* for the small geometry
  functions of `xrspatial/viewshed.py` that the translator inlines (`.scope`, locals prefixed `<callee><k>$`) into
  `_init_event_list` and `_viewshed_cpu_sweep`:

    `rcBody k p`   `_calculate_event_row_col`   (stand-alone: `Gen.IL.vsEventRowCol`, `rcBody .int ""`)
    `posBody k p`  `_calc_event_pos`            (stand-alone: `Gen.IL.vsEventPos`,    `posBody .int ""`)
    `angBody p`    `_calculate_angle`           (stand-alone: `Gen.IL.vsAngle`,       `angBody ""`)
    `vangBody p`   `_get_vertical_ang`          (stand-alone: `Gen.IL.vsVerticalAng`, `vangBody ""`)

  `k : TyK` says how the copy sees `event_type`: as an integer variable (stand-alone programs, the sweep) or as a numeric
  one (`_init_event_list` passes `e[E_TYPE_ID]`, a float64).  The `…_is_template` theorems are checked by `rfl`: an edit
  of one of the functions in /repo changes `Gen/IL.lean` and breaks them.
-/
namespace XrsVerif.ILSw
open XrsVerif XrsVerif.IL
variable {F : Type} [Fl F]
set_option linter.unusedSectionVars false
set_option linter.unusedSimpArgs false
set_option linter.unusedVariables false

/-! ### environments, sequencing -/

theorem setS_apply {α} (env : String → α) (v w : String) (x : α) : setS env v x w = if w = v then x else env w := rfl

theorem setS_comm {α} (env : String → α) (v w : String) (x y : α) (h : v ≠ w) :
    setS (setS env v x) w y = setS (setS env w y) v x := by
  funext u; simp only [setS]; by_cases h1 : u = w <;> by_cases h2 : u = v <;> simp [h1, h2]
  · exact absurd (h2.symm.trans h1) h
  · intro e; exact absurd e.symm h
  · intro e; exact absurd e h

/-- closes `setS (setS … ) … = setS (setS …) …` between environments that agree pointwise -/
macro "env_eq" : tactic =>
  `(tactic| (funext v; simp only [setS_apply]; repeat' split; all_goals simp_all))

theorem exec_seq_eq (fuel : Nat) (a b : St) (s s' : State F) (h : exec fuel a s = s') (hr : s'.ctl = .run) :
    exec fuel (.seq a b) s = exec fuel b s' := by
  rw [ILVs.exec_seq_run _ _ _ _ (by rw [h]; exact hr), h]

/-! ### writing a row of a 2-D array -/

/-- the first `k` cells of row `r` (of width `C`) overwritten with `f 0 … f (k-1)` -/
def setRowK {α} (l : List α) (C r : Nat) (f : Nat → α) (k : Nat) : List α :=
  (List.range k).foldl (fun acc c => acc.set (r * C + c) (f c)) l

/-- row `r` overwritten with `f` -/
def setRow {α} (l : List α) (C r : Nat) (f : Nat → α) : List α := setRowK l C r f C

theorem setRowK_succ {α} (l : List α) (C r : Nat) (f : Nat → α) (k : Nat) :
    setRowK l C r f (k + 1) = (setRowK l C r f k).set (r * C + k) (f k) := by
  simp [setRowK, List.range_succ, List.foldl_append]

@[simp] theorem length_setRowK {α} (l : List α) (C r : Nat) (f : Nat → α) (k : Nat) :
    (setRowK l C r f k).length = l.length := by
  induction k with
  | zero => rfl
  | succ k ih => rw [setRowK_succ, List.length_set, ih]

@[simp] theorem length_setRow {α} (l : List α) (C r : Nat) (f : Nat → α) : (setRow l C r f).length = l.length :=
  length_setRowK l C r f C

theorem getD_setRowK {α} (l : List α) (C r : Nat) (f : Nat → α) (k idx : Nat) (d : α) :
    (setRowK l C r f k).getD idx d =
      if r * C ≤ idx ∧ idx < r * C + k ∧ idx < l.length then f (idx - r * C) else l.getD idx d := by
  induction k with
  | zero =>
    have : ¬ (r * C ≤ idx ∧ idx < r * C + 0 ∧ idx < l.length) := by omega
    simp only [this, if_false]; rfl
  | succ k ih =>
    rw [setRowK_succ, Px.getD_set, ih, length_setRowK]
    by_cases h1 : r * C + k = idx
    · subst h1
      by_cases h2 : r * C + k < l.length
      · simp [h2]
      · simp [h2]
    · by_cases h2 : r * C ≤ idx ∧ idx < r * C + k ∧ idx < l.length
      · have : r * C ≤ idx ∧ idx < r * C + (k + 1) ∧ idx < l.length := by omega
        simp [h1, h2, this]
      · have : ¬ (r * C ≤ idx ∧ idx < r * C + (k + 1) ∧ idx < l.length) := by omega
        simp [h1, h2, this]

theorem getD_setRow {α} (l : List α) (C r : Nat) (f : Nat → α) (idx : Nat) (d : α) :
    (setRow l C r f).getD idx d =
      if r * C ≤ idx ∧ idx < r * C + C ∧ idx < l.length then f (idx - r * C) else l.getD idx d :=
  getD_setRowK l C r f C idx d


theorem setS_self' {α} (env : String → α) (v : String) : setS env v (env v) = env := by
  funext w; simp only [setS]; split <;> simp_all

theorem setS_setS {α} (env : String → α) (v : String) (a b : α) : setS (setS env v a) v b = setS env v b := by
  funext w; simp only [setS]; split <;> rfl

/-- **a loop that fills one row of a 2-D numeric array**: `for kv in range(C): dst[rE, kv] = val` with `rE` evaluating to the
    row `r` and `val` to `f kv` whatever the row `r` of `dst` currently holds -/
theorem rowLoop_exec (dst kv : String) (hiE rE : IE) (val : FE) (s : State F) (fuel R C r : Nat) (f : Nat → F)
    (hs : s.ctl = .run) (hshp : s.shp dst = [R, C]) (hlen : (s.fa dst).length = R * C) (hr : r < R) (hC : 0 < C)
    (hhi : hiE.ok s = true ∧ hiE.eval s = (C : Int))
    (hst : ∀ (k : Nat) (l : List F), k < C → l.length = R * C →
      (∀ idx, ¬ (r * C ≤ idx ∧ idx < r * C + C) → l.getD idx Fl.nan = (s.fa dst).getD idx Fl.nan) →
      rE.ok { s with ienv := setS s.ienv kv (k : Int), fa := setS s.fa dst l } = true ∧
      rE.eval { s with ienv := setS s.ienv kv (k : Int), fa := setS s.fa dst l } = (r : Int) ∧
      val.ok { s with ienv := setS s.ienv kv (k : Int), fa := setS s.fa dst l } = true ∧
      val.eval { s with ienv := setS s.ienv kv (k : Int), fa := setS s.fa dst l } = f k) :
    exec fuel (.forRange kv (.lit 0) hiE (.lit 1) (.stF2 dst rE (.var kv) val)) s =
      { s with ienv := setS s.ienv kv ((C - 1 : Nat) : Int), fa := setS s.fa dst (setRow (s.fa dst) C r f) } := by
  obtain ⟨ie, fe, be, ia, fa, shp, ext, ctl⟩ := s
  simp only at hs hshp hlen hhi hst
  subst hs
  have h := Px.forRange_up kv hiE (.stF2 dst rE (.var kv) val) _ fuel C rfl hhi.1 hhi.2
    (fun k st => st = ⟨setS ie kv (if k = 0 then ie kv else ((k - 1 : Nat) : Int)), fe, be, ia,
        setS fa dst (setRowK (fa dst) C r f k), shp, ext, .run⟩)
    (by
      have e1 : setS ie kv (ie kv) = ie := setS_self' _ _
      have e2 : setS fa dst (fa dst) = fa := setS_self' _ _
      simp [setRowK, e1, e2])
    (fun k hk st hrun hP => by
      subst hP
      obtain ⟨o1, o2, o3, o4⟩ := hst k (setRowK (fa dst) C r f k) hk (by simp [hlen])
        (fun idx hidx => by
          rw [getD_setRowK]
          have : ¬ (r * C ≤ idx ∧ idx < r * C + k ∧ idx < (fa dst).length) := by omega
          simp [this])
      simp only [setS_setS] at *
      have hin1 : inRange (r : Int) R = true := inRange_of_lt r R hr
      have hin2 : inRange (k : Int) C = true := inRange_of_lt k C hk
      simp [exec, o1, o2, o3, o4, IE.ok, IE.eval, hshp, hin1, hin2, off2_nat, setS_apply, afterBody, setRowK_succ,
        setS_setS])
  rw [h.2]
  have : ¬ C = 0 := by omega
  simp [this, setRow]
/-! ### postconditions -/

/-- postcondition of running a statement -/
def Post (fuel : Nat) (st : St) (s : State F) (Q : State F → Prop) : Prop := Q (exec fuel st s)

theorem Post.seq_eq {fuel : Nat} {a b : St} {s : State F} {Q : State F → Prop} (s' : State F)
    (h : exec fuel a s = s') (hr : s'.ctl = .run) (k : Post fuel b s' Q) : Post fuel (.seq a b) s Q := by
  unfold Post at *; rw [exec_seq_eq _ _ _ _ _ h hr]; exact k

theorem Post.of_eq {fuel : Nat} {a : St} {s : State F} {Q : State F → Prop} (s' : State F)
    (h : exec fuel a s = s') (k : Q s') : Post fuel a s Q := by
  unfold Post; rw [h]; exact k

theorem Post.rw {fuel : Nat} {a b : St} {s s' : State F} {Q : State F → Prop}
    (h : exec fuel a s = exec fuel b s') (k : Post fuel b s' Q) : Post fuel a s Q := by
  unfold Post at *; rw [h]; exact k

theorem exec_setI_lit (fuel : Nat) (v : String) (n : Int) (s : State F) :
    exec fuel (.setI v (.lit n)) s = { s with ienv := setS s.ienv v n } := by
  simp [exec, IE.ok, IE.eval]


theorem list7 {α} (l : List α) (h : l.length = 7) : ∃ e0 e1 e2 e3 e4 e5 e6, l = [e0, e1, e2, e3, e4, e5, e6] := by
  match l, h with
  | [a, b, c, d, e, f, g], _ => exact ⟨a, b, c, d, e, f, g, rfl⟩

/-! ### names -/

@[simp] theorem pfx_eq (p a b : String) : (p ++ a = p ++ b) = (a = b) :=
  propext (String.append_right_inj p)

/-- how a copy of an event function sees `event_type` -/
inductive TyK | int | num
  deriving DecidableEq, Repr

/-- the test `event_type == c` -/
def tyIs (k : TyK) (p : String) (c : Int) : BE :=
  match k with
  | .int => .cmpI .eq (.var (p ++ "event_type")) (.lit c)
  | .num => .cmpF .eq (.var (p ++ "event_type")) (.ofInt (.lit c))

/-- the variable `event_type` of the copy holds the event code `ty` (a numeric copy: as the literal the caller stored,
    which compares with the literals 0 and 1 as integers do -- true of every IEEE / field instance) -/
def TyVal (k : TyK) (p : String) (s : State F) (ty : Int) : Prop :=
  match k with
  | .int => s.ienv (p ++ "event_type") = ty
  | .num => s.fenv (p ++ "event_type") = Fl.lit ty 1 ∧
      Fl.eq (Fl.lit ty 1 : F) (Fl.lit 0 1) = decide (ty = 0) ∧ Fl.eq (Fl.lit ty 1 : F) (Fl.lit 1 1) = decide (ty = 1)

/-! ### `_calculate_event_row_col` -/

/-- `y = event_row ± 1; x = event_col ± 1` (`+` for an offset 1, `-` otherwise) -/
def rcSet (p : String) (oy ox : Int) : St :=
  .seq (.setI (p ++ "y") (.bin (if oy = 1 then .add else .sub) (.var (p ++ "event_row")) (.lit 1)))
    (.setI (p ++ "x") (.bin (if ox = 1 then .add else .sub) (.var (p ++ "event_col")) (.lit 1)))

/-- one branch of the if-chain: ENTER offsets, EXIT offsets -/
def rcBr (k : TyK) (p : String) (ey ex xy xx : Int) : St :=
  .ite (tyIs k p 1) (rcSet p ey ex) (rcSet p xy xx)

def vR (p : String) : IE := .var (p ++ "event_row")
def vC (p : String) : IE := .var (p ++ "event_col")
def vVR (p : String) : IE := .var (p ++ "viewpoint_row")
def vVC (p : String) : IE := .var (p ++ "viewpoint_col")

def rcChain (k : TyK) (p : String) : St :=
  .ite (.and (.cmpI .lt (vR p) (vVR p)) (.cmpI .lt (vC p) (vVC p))) (rcBr k p (-1) 1 1 (-1))
  (.ite (.and (.cmpI .eq (vC p) (vVC p)) (.cmpI .lt (vR p) (vVR p))) (rcBr k p 1 1 1 (-1))
  (.ite (.and (.cmpI .gt (vC p) (vVC p)) (.cmpI .lt (vR p) (vVR p))) (rcBr k p 1 1 (-1) (-1))
  (.ite (.and (.cmpI .gt (vC p) (vVC p)) (.cmpI .eq (vR p) (vVR p))) (rcBr k p 1 (-1) (-1) (-1))
  (.ite (.and (.cmpI .gt (vC p) (vVC p)) (.cmpI .gt (vR p) (vVR p))) (rcBr k p 1 (-1) (-1) 1)
  (.ite (.and (.cmpI .eq (vC p) (vVC p)) (.cmpI .gt (vR p) (vVR p))) (rcBr k p (-1) (-1) (-1) 1)
  (.ite (.and (.cmpI .lt (vC p) (vVC p)) (.cmpI .gt (vR p) (vVR p))) (rcBr k p (-1) (-1) 1 1)
  (.ite (.and (.cmpI .lt (vC p) (vVC p)) (.cmpI .eq (vR p) (vVR p))) (rcBr k p (-1) 1 1 1)
    (.seq (.ite (.and (.cmpI .eq (vR p) (vVR p)) (.cmpI .eq (vC p) (vVC p))) .skip (.fail "AssertionError"))
    (.seq (.setI (p ++ "x") (vC p))
    (.setI (p ++ "y") (vR p)))))))))))

/-- the (ineffective) guard `if abs(x - event_col > 1) or abs(y - event_row > 1): raise ValueError` -/
def rcGuard (p : String) : St :=
  .ite (.or (.cmpI .gt (.bin .sub (.var (p ++ "x")) (vC p)) (.lit 1)) (.cmpI .gt (.bin .sub (.var (p ++ "y")) (vR p)) (.lit 1)))
    (.fail "ValueError") .skip

def rcBody (k : TyK) (p : String) : St :=
  (.seq (.setI (p ++ "x") (.lit 0))
  (.seq (.setI (p ++ "y") (.lit 0))
  (.seq (.ite (tyIs k p 0) (.fail "ValueError") .skip)
  (.seq (rcChain k p)
  (.seq (rcGuard p)
  (.seq (.setI (p ++ "ret0") (.var (p ++ "y")))
  (.seq (.setI (p ++ "ret1") (.var (p ++ "x")))
  .ret)))))))

theorem vsEventRowCol_is_template : Gen.IL.vsEventRowCol.body = rcBody .int "" := rfl

/-! ### `_calc_event_pos` -/

def posSet (p : String) (oy ox : Int) : St :=
  .seq (.setF (p ++ "y") (.bin (if oy = 1 then .add else .sub) (.ofInt (vR p)) (.lit 1 2)))
    (.setF (p ++ "x") (.bin (if ox = 1 then .add else .sub) (.ofInt (vC p)) (.lit 1 2)))

def posBr (k : TyK) (p : String) (ey ex xy xx : Int) : St :=
  .ite (tyIs k p 1) (posSet p ey ex) (posSet p xy xx)

def posChain (k : TyK) (p : String) : St :=
  .ite (.and (.cmpI .lt (vR p) (vVR p)) (.cmpI .lt (vC p) (vVC p))) (posBr k p (-1) 1 1 (-1))
  (.ite (.and (.cmpI .lt (vR p) (vVR p)) (.cmpI .eq (vC p) (vVC p))) (posBr k p 1 1 1 (-1))
  (.ite (.and (.cmpI .lt (vR p) (vVR p)) (.cmpI .gt (vC p) (vVC p))) (posBr k p 1 1 (-1) (-1))
  (.ite (.and (.cmpI .eq (vR p) (vVR p)) (.cmpI .gt (vC p) (vVC p))) (posBr k p 1 (-1) (-1) (-1))
  (.ite (.and (.cmpI .gt (vR p) (vVR p)) (.cmpI .gt (vC p) (vVC p))) (posBr k p 1 (-1) (-1) 1)
  (.ite (.and (.cmpI .gt (vR p) (vVR p)) (.cmpI .eq (vC p) (vVC p))) (posBr k p (-1) (-1) (-1) 1)
  (.ite (.and (.cmpI .gt (vR p) (vVR p)) (.cmpI .lt (vC p) (vVC p))) (posBr k p (-1) (-1) 1 1)
  (.ite (.and (.cmpI .eq (vR p) (vVR p)) (.cmpI .lt (vC p) (vVC p))) (posBr k p (-1) 1 1 1)
    (.seq (.ite (.and (.cmpI .eq (vR p) (vVR p)) (.cmpI .eq (vC p) (vVC p))) .skip (.fail "AssertionError"))
    (.seq (.setF (p ++ "x") (.ofInt (vC p)))
    (.setF (p ++ "y") (.ofInt (vR p))))))))))))

/-- `assert abs(event_col - x) < 1 and abs(event_row - y) < 1` -/
def posAssert (p : String) : St :=
  .ite (.and (.cmpF .lt (.un .abs (.bin .sub (.ofInt (vC p)) (.var (p ++ "x")))) (.ofInt (.lit 1)))
             (.cmpF .lt (.un .abs (.bin .sub (.ofInt (vR p)) (.var (p ++ "y")))) (.ofInt (.lit 1))))
    .skip (.fail "AssertionError")

def posBody (k : TyK) (p : String) : St :=
  (.seq (.setF (p ++ "x") (.ofInt (.lit 0)))
  (.seq (.setF (p ++ "y") (.ofInt (.lit 0)))
  (.seq (.ite (tyIs k p 0)
    (.seq (.setF (p ++ "y") (.ofInt (vR p)))
    (.seq (.setF (p ++ "x") (.ofInt (vC p)))
    (.seq (.setF (p ++ "ret0") (.var (p ++ "y")))
    (.seq (.setF (p ++ "ret1") (.var (p ++ "x")))
    .ret))))
    .skip)
  (.seq (posChain k p)
  (.seq (posAssert p)
  (.seq (.setF (p ++ "ret0") (.var (p ++ "y")))
  (.seq (.setF (p ++ "ret1") (.var (p ++ "x")))
  .ret)))))))

theorem vsEventPos_is_template : Gen.IL.vsEventPos.body = posBody .int "" := rfl

/-! ### `_calculate_angle` -/

def aEX (p : String) : FE := .var (p ++ "event_x")
def aEY (p : String) : FE := .var (p ++ "event_y")
def aVX (p : String) : FE := .ofInt (.var (p ++ "viewpoint_x"))
def aVY (p : String) : FE := .ofInt (.var (p ++ "viewpoint_y"))

/-- `if c: return e` -/
def retIf (p : String) (c : BE) (e : FE) : St := .ite c (.seq (.setF (p ++ "ret0") e) .ret) .skip

def angBody (p : String) : St :=
  (.seq (retIf p (.and (.cmpF .eq (aVX p) (aEX p)) (.cmpF .gt (aVY p) (aEY p))) (.bin .div .pi (.ofInt (.lit 2))))
  (.seq (retIf p (.and (.cmpF .eq (aVX p) (aEX p)) (.cmpF .lt (aVY p) (aEY p))) (.bin .div (.bin .mul .pi (.lit 3 1)) (.lit 2 1)))
  (.seq (retIf p (.and (.cmpF .eq (aEX p) (aVX p)) (.cmpF .eq (aEY p) (aVY p))) (.ofInt (.lit 0)))
  (.seq (retIf p (.and (.cmpF .eq (aVY p) (aEY p)) (.cmpF .gt (aEX p) (aVX p))) (.ofInt (.lit 0)))
  (.seq (retIf p (.and (.cmpF .gt (aVX p) (aEX p)) (.cmpF .eq (aVY p) (aEY p))) .pi)
  (.seq (.setF (p ++ "ang") (.un .atan (.bin .div (.un .abs (.bin .sub (aEY p) (aVY p))) (.un .abs (.bin .sub (aEX p) (aVX p))))))
  (.seq (retIf p (.and (.cmpF .gt (aEX p) (aVX p)) (.cmpF .lt (aEY p) (aVY p))) (.var (p ++ "ang")))
  (.seq (retIf p (.and (.cmpF .gt (aVX p) (aEX p)) (.cmpF .gt (aVY p) (aEY p))) (.bin .sub .pi (.var (p ++ "ang"))))
  (.seq (retIf p (.and (.cmpF .gt (aVX p) (aEX p)) (.cmpF .lt (aVY p) (aEY p))) (.bin .add .pi (.var (p ++ "ang"))))
  (.seq (retIf p (.and (.cmpF .lt (aVX p) (aEX p)) (.cmpF .lt (aVY p) (aEY p))) (.bin .sub (.bin .mul .pi (.lit 2 1)) (.var (p ++ "ang"))))
  (.seq (.setF (p ++ "ret0") (.ofInt (.lit 0)))
  .ret)))))))))))

theorem vsAngle_is_template : Gen.IL.vsAngle.body = angBody "" := rfl

/-! ### `_get_vertical_ang` -/

def vangBody (p : String) : St :=
  (.seq (.setF (p ++ "diff_elev") (.bin .sub (.var (p ++ "viewpoint_elev")) (.var (p ++ "elev"))))
  (.seq (.ite (.cmpF .gt (.un .abs (.var (p ++ "distance_to_viewpoint"))) (.lit 0 1)) .skip (.fail "AssertionError"))
  (.seq (.ite (.cmpF .eq (.var (p ++ "diff_elev")) (.lit 0 1))
    (.seq (.setF (p ++ "ret0") (.ofInt (.lit 90))) .ret)
    (.ite (.cmpF .gt (.var (p ++ "diff_elev")) (.ofInt (.lit 0)))
      (.seq (.setF (p ++ "ret0") (.bin .div (.bin .mul (.un .atan (.bin .div (.un .sqrt (.var (p ++ "distance_to_viewpoint"))) (.var (p ++ "diff_elev")))) (.ofInt (.lit 180))) .pi))
      .ret)
      .skip))
  (.seq (.setF (p ++ "ret0") (.bin .add (.bin .div (.bin .mul (.un .atan (.bin .div (.un .abs (.var (p ++ "diff_elev"))) (.un .sqrt (.var (p ++ "distance_to_viewpoint"))))) (.ofInt (.lit 180))) .pi) (.ofInt (.lit 90))))
  .ret))))

theorem vsVerticalAng_is_template : Gen.IL.vsVerticalAng.body = vangBody "" := rfl

end XrsVerif.ILSw
