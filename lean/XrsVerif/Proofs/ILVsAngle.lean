import XrsVerif.Proofs.ILVsGeom
/-
  Proofs/ILVsAngle.lean -- the generated `_calculate_angle` (template `angBody p`): the bearing as an expression in
  `Fl.atan`, `angF`, for every number type.
-/
namespace XrsVerif.ILSw
open XrsVerif XrsVerif.IL
variable {F : Type} [Fl F]
set_option linter.unusedSectionVars false
set_option linter.unusedSimpArgs false
set_option linter.unusedVariables false

/-- π as the generated programs compute it -/
def piF : F := Fl.mul (Fl.lit 4 1) (Fl.atan (Fl.lit 1 1))

/-- one of the five axis cases of `_calculate_angle` applies (`ang` is not computed) -/
def angAxis (ex ey vx vy : F) : Bool :=
  (Fl.eq vx ex && Fl.lt ey vy) || (Fl.eq vx ex && Fl.lt vy ey) || (Fl.eq ex vx && Fl.eq ey vy) ||
  (Fl.eq vy ey && Fl.lt vx ex) || (Fl.lt ex vx && Fl.eq vy ey)

/-- `atan(|Δy| / |Δx|)` -/
def angAcute (ex ey vx vy : F) : F := Fl.atan (Fl.div (Fl.abs (Fl.sub ey vy)) (Fl.abs (Fl.sub ex vx)))

/-- **`_calculate_angle(event_x, event_y, viewpoint_x, viewpoint_y)` on numbers**: the bearing of the event point seen
    from the viewpoint, counter-clockwise from east, rows growing downwards (so `event_y < viewpoint_y` is north) -/
def angF (ex ey vx vy : F) : F :=
  if (Fl.eq vx ex && Fl.lt ey vy) = true then Fl.div piF (Fl.lit 2 1)
  else if (Fl.eq vx ex && Fl.lt vy ey) = true then Fl.div (Fl.mul piF (Fl.lit 3 1)) (Fl.lit 2 1)
  else if (Fl.eq ex vx && Fl.eq ey vy) = true then Fl.lit 0 1
  else if (Fl.eq vy ey && Fl.lt vx ex) = true then Fl.lit 0 1
  else if (Fl.lt ex vx && Fl.eq vy ey) = true then piF
  else if (Fl.lt vx ex && Fl.lt ey vy) = true then angAcute ex ey vx vy
  else if (Fl.lt ex vx && Fl.lt ey vy) = true then Fl.sub piF (angAcute ex ey vx vy)
  else if (Fl.lt ex vx && Fl.lt vy ey) = true then Fl.add piF (angAcute ex ey vx vy)
  else if (Fl.lt vx ex && Fl.lt vy ey) = true then Fl.sub (Fl.mul piF (Fl.lit 2 1)) (angAcute ex ey vx vy)
  else Fl.lit 0 1

/-- the numeric environment after `_calculate_angle` -/
def angEnv (p : String) (s : State F) : String → F :=
  let ex := s.fenv (p ++ "event_x")
  let ey := s.fenv (p ++ "event_y")
  let vx : F := Fl.lit (s.ienv (p ++ "viewpoint_x")) 1
  let vy : F := Fl.lit (s.ienv (p ++ "viewpoint_y")) 1
  setS (setS s.fenv (p ++ "ang") (if angAxis ex ey vx vy = true then s.fenv (p ++ "ang") else angAcute ex ey vx vy))
    (p ++ "ret0") (angF ex ey vx vy)

theorem angBody_exec (p : String) (s : State F) (fuel : Nat) (hs : s.ctl = .run) :
    exec fuel (angBody p) s = { s with fenv := angEnv p s, ctl := .ret } := by
  obtain ⟨ie, fe, be, ia, fa, shp, ext, ctl⟩ := s
  simp only at hs; subst hs
  generalize hvx : (Fl.lit (ie (p ++ "viewpoint_x")) 1 : F) = vx
  generalize hvy : (Fl.lit (ie (p ++ "viewpoint_y")) 1 : F) = vy
  cases h1 : Fl.eq vx (fe (p ++ "event_x")) <;> cases h2 : Fl.lt (fe (p ++ "event_y")) vy <;>
  cases h3 : Fl.lt vy (fe (p ++ "event_y")) <;> cases h4 : Fl.eq (fe (p ++ "event_x")) vx <;>
  cases h5 : Fl.eq (fe (p ++ "event_y")) vy <;> cases h6 : Fl.eq vy (fe (p ++ "event_y")) <;>
  cases h7 : Fl.lt vx (fe (p ++ "event_x")) <;> cases h8 : Fl.lt (fe (p ++ "event_x")) vx <;>
  simp [angBody, retIf, aEX, aEY, aVX, aVY, exec, BE.ok, BE.eval, FE.ok, FE.eval, IE.ok, IE.eval, CmpOp.eval, BinOp.eval, UnOp.eval,
      setS_apply, piF, angEnv, angF, angAxis, angAcute, setS_self', hvx, hvy, h1, h2, h3, h4, h5, h6, h7, h8]

/-- **the generated `_calculate_angle` computes `angF`** (generic in the number type; nothing else changes) -/
theorem vsAngle_refines (s : State F) (fuel : Nat) (hs : s.ctl = .run) :
    let r := Gen.IL.vsAngle.run s fuel
    r.ctl = .ret ∧
      r.fenv "ret0" = angF (s.fenv "event_x") (s.fenv "event_y") (Fl.lit (s.ienv "viewpoint_x") 1) (Fl.lit (s.ienv "viewpoint_y") 1) ∧
      r.fa = s.fa ∧ r.ia = s.ia ∧ r.ienv = s.ienv := by
  simp only [Prog.run, vsAngle_is_template]
  rw [angBody_exec "" s fuel hs]
  simp [angEnv, setS_apply]

end XrsVerif.ILSw
