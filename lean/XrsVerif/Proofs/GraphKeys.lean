/-
  Proofs/GraphKeys -- what `Core/Dataflow.lean` takes for granted: *different tasks have different keys*.

  `DF.Graph` numbers its tasks (`Nat → …`): a task *is* its key, two tasks cannot share one.  A dask graph is a
  dictionary `key ↦ task`, and several lazy results evaluated together -- `dask.compute(a, b)`, `a - b`, the
  variables of one `xr.Dataset` -- are evaluated in the *merge* of their dictionaries: tasks with equal keys are taken
  to be the same task, one replaces the other.  This file models that:

  * `Graph K V` = association list key ↦ (keys read, function of their values); `eval` = the value of a key;
  * `merge` = concatenation (which of two entries with the same key survives does not matter below);
  * `joint_eval_eq_alone`: if the graphs *agree* pairwise (equal key ⇒ equal task), every key evaluates in the merged
    graph to what it evaluates to in its own graph -- each result computed together = the result computed alone (and
    the latter is what section 1-5 of Props/C01 and `DF.schedule_independent` speak about);
  * `collision_replaces_a_result`: without agreement it is false -- two one-task graphs under the same key;
  * layers: the keys of a `map_blocks` / `map_overlap` layer are `(name, i, j)`; when the name is a *faithful* function
    of the call (equal names ⇒ equal block tasks: dask's `funcname-tokenize(func, args, kwargs)`), the layers of any
    calls agree (`faithful_names_agree`); a name chosen by the call site that forgets an argument is not faithful
    (`constant_name_not_faithful`).
  That no call site of the library chooses its own name is a generated fact (Props/C01 `no_call_site_names_its_graph_key`).
  Core Lean only (no Mathlib).
-/
set_option linter.unusedSectionVars false
namespace XrsVerif.GraphKeys

/-- a task: the keys it reads and what it computes from their values -/
structure Task (K V : Type) where
  deps : List K
  f : List V → V

/-- a dask graph: a dictionary from keys to tasks -/
abbrev Graph (K V : Type) := List (K × Task K V)

variable {K V : Type} [BEq K]

def task? (g : Graph K V) (k : K) : Option (Task K V) := List.lookup k g

def sequence : List (Option V) → Option (List V)
  | [] => some []
  | none :: _ => none
  | some v :: r => (sequence r).map (v :: ·)

/-- the value of key `k` (`fuel` bounds the depth of the dependency chain) -/
def eval (g : Graph K V) : Nat → K → Option V
  | 0, _ => none
  | n + 1, k =>
    match task? g k with
    | none => none
    | some t => (sequence (t.deps.map (eval g n))).map t.f

/-- evaluating several collections together = evaluating in the merged dictionary -/
def merge (gs : List (Graph K V)) : Graph K V := gs.flatten

/-- `M` holds every entry of `g` -/
def Extends (M g : Graph K V) : Prop := ∀ k t, task? g k = some t → task? M k = some t

/-- equal key ⇒ equal task -/
def Agree (g₁ g₂ : Graph K V) : Prop := ∀ k t₁ t₂, task? g₁ k = some t₁ → task? g₂ k = some t₂ → t₁ = t₂

theorem sequence_mono (f g : K → Option V) (h : ∀ k v, f k = some v → g k = some v) :
    ∀ (ks : List K) (vs : List V), sequence (ks.map f) = some vs → sequence (ks.map g) = some vs := by
  intro ks
  induction ks with
  | nil => intro vs h0; exact h0
  | cons k r ih =>
    intro vs h0
    simp only [List.map_cons] at h0 ⊢
    cases hk : f k with
    | none => rw [hk] at h0; simp [sequence] at h0
    | some v =>
      rw [hk] at h0
      rw [h k v hk]
      simp only [sequence] at h0 ⊢
      cases hr : sequence (r.map f) with
      | none => rw [hr] at h0; simp at h0
      | some ws =>
        rw [hr] at h0
        rw [ih ws hr]
        exact h0

/-- a graph that holds every entry of `g` evaluates every key of `g` to the same value -/
theorem eval_mono (M g : Graph K V) (hx : Extends M g) :
    ∀ (n : Nat) (k : K) (v : V), eval g n k = some v → eval M n k = some v := by
  intro n
  induction n with
  | zero => intro k v h; simp [eval] at h
  | succ n ih =>
    intro k v h
    simp only [eval] at h ⊢
    cases ht : task? g k with
    | none => rw [ht] at h; simp at h
    | some t =>
      rw [ht] at h
      rw [hx k t ht]
      simp only [] at h ⊢
      cases hs : sequence (t.deps.map (eval g n)) with
      | none => rw [hs] at h; simp at h
      | some vs =>
        rw [hs] at h
        rw [sequence_mono (eval g n) (eval M n) ih t.deps vs hs]
        exact h

theorem merge_extends (gs : List (Graph K V)) (hag : ∀ g₁ ∈ gs, ∀ g₂ ∈ gs, Agree g₁ g₂) :
    ∀ g ∈ gs, Extends (merge gs) g := by
  induction gs with
  | nil => intro g hg; cases hg
  | cons g0 rest ih =>
    intro g hg k t ht
    have hrest : ∀ g₁ ∈ rest, ∀ g₂ ∈ rest, Agree g₁ g₂ :=
      fun g₁ h₁ g₂ h₂ => hag g₁ (List.mem_cons_of_mem _ h₁) g₂ (List.mem_cons_of_mem _ h₂)
    show List.lookup k ((g0 :: rest).flatten) = some t
    rw [List.flatten_cons, List.lookup_append]
    cases h0 : List.lookup k g0 with
    | some t0 =>
      -- the first graph has the key: by agreement it is the same task
      have : t0 = t := hag g0 (List.mem_cons_self ..) g hg k t0 t h0 ht
      simp [Option.or, this]
    | none =>
      simp only [Option.or]
      rcases List.mem_cons.mp hg with h | h
      · subst h
        have : List.lookup k g = some t := ht
        rw [h0] at this; cases this
      · exact ih hrest g h k t ht

/-- **each result computed together = the result computed alone**, provided equal keys stand for equal tasks -/
theorem joint_eval_eq_alone (gs : List (Graph K V)) (hag : ∀ g₁ ∈ gs, ∀ g₂ ∈ gs, Agree g₁ g₂)
    (g : Graph K V) (hg : g ∈ gs) (n : Nat) (k : K) (v : V) (h : eval g n k = some v) :
    eval (merge gs) n k = some v :=
  eval_mono (merge gs) g (merge_extends gs hag g hg) n k v h

/-! ### the hypothesis is needed: two tasks under one key -/
def gOne : Graph Nat Nat := [(0, ⟨[], fun _ => 1⟩)]
def gTwo : Graph Nat Nat := [(0, ⟨[], fun _ => 2⟩)]

/-- alone each gives its own value; together the second gets the first one's -/
theorem collision_replaces_a_result :
    eval gOne 1 0 = some 1 ∧ eval gTwo 1 0 = some 2 ∧ eval (merge [gOne, gTwo]) 1 0 = some 1 := by
  decide

/-! ### layers of blocks named after the call -/
section layers
variable {C : Type}

/-- the layer a call contributes: one task per block, keyed `(name, i, j)` -/
def layer (name : C → String) (task : C → Nat × Nat → Task (String × Nat × Nat) V) (blocks : List (Nat × Nat)) (c : C) :
    Graph (String × Nat × Nat) V :=
  blocks.map fun b => ((name c, b.1, b.2), task c b)

theorem layer_lookup (name : C → String) (task : C → Nat × Nat → Task (String × Nat × Nat) V)
    (blocks : List (Nat × Nat)) (c : C) (k : String × Nat × Nat) (t : Task (String × Nat × Nat) V)
    (h : task? (layer name task blocks c) k = some t) : k.1 = name c ∧ t = task c k.2 := by
  induction blocks with
  | nil => simp [layer, task?] at h
  | cons b r ih =>
    simp only [layer, task?, List.map_cons, List.lookup_cons] at h
    split at h
    · rename_i hk
      have hk' : k = (name c, b.1, b.2) := by simpa using hk
      injection h with h
      subst hk'
      exact ⟨rfl, h.symm⟩
    · exact ih h

/-- a naming is *faithful* when calls that get the same name map the same task over every block: what dask's
    `funcname(func) ++ "-" ++ tokenize(func, *args, **kwargs)` provides (a deterministic hash of the function and of
    every argument; distinct closures get distinct tokens) -/
def Faithful (name : C → String) (task : C → Nat × Nat → Task (String × Nat × Nat) V) : Prop :=
  ∀ c₁ c₂, name c₁ = name c₂ → task c₁ = task c₂

/-- layers of any two calls under a faithful naming agree -- whatever the chunkings of the two calls are -/
theorem faithful_names_agree (name : C → String) (task : C → Nat × Nat → Task (String × Nat × Nat) V)
    (hf : Faithful name task) (b₁ b₂ : List (Nat × Nat)) (c₁ c₂ : C) :
    Agree (layer name task b₁ c₁) (layer name task b₂ c₂) := by
  intro k t₁ t₂ h₁ h₂
  obtain ⟨n₁, e₁⟩ := layer_lookup name task b₁ c₁ k t₁ h₁
  obtain ⟨n₂, e₂⟩ := layer_lookup name task b₂ c₂ k t₂ h₂
  rw [e₁, e₂, hf c₁ c₂ (n₁.symm.trans n₂)]

/-- so the layers of any number of calls can be evaluated together -/
theorem joint_layers_eq_alone (name : C → String) (task : C → Nat × Nat → Task (String × Nat × Nat) V)
    (hf : Faithful name task) (blocks : C → List (Nat × Nat)) (calls : List C) (c : C) (hc : c ∈ calls)
    (n : Nat) (k : String × Nat × Nat) (v : V) (h : eval (layer name task (blocks c) c) n k = some v) :
    eval (merge (calls.map fun c => layer name task (blocks c) c)) n k = some v := by
  have hag : ∀ g₁ ∈ calls.map (fun c => layer name task (blocks c) c),
      ∀ g₂ ∈ calls.map (fun c => layer name task (blocks c) c), Agree g₁ g₂ := by
    intro g₁ h₁ g₂ h₂
    obtain ⟨c₁, _, rfl⟩ := List.mem_map.mp h₁
    obtain ⟨c₂, _, rfl⟩ := List.mem_map.mp h₂
    exact faithful_names_agree name task hf _ _ c₁ c₂
  exact joint_eval_eq_alone (calls.map fun c => layer name task (blocks c) c) hag (layer name task (blocks c) c)
    (List.mem_map.mpr ⟨c, hc, rfl⟩) n k v h

/-- a name the call site writes down itself and that forgets what distinguishes two calls is not faithful:
    `name='normalized_ratio'` for every pair of bands; a token of the first band only; a token without `target_values` -/
theorem constant_name_not_faithful (task : C → Nat × Nat → Task (String × Nat × Nat) V) (s : String) (c₁ c₂ : C)
    (hd : task c₁ ≠ task c₂) : ¬ Faithful (fun _ => s) task :=
  fun hf => hd (hf c₁ c₂ rfl)

/-- more generally: a name computed from a *view* of the call (some of its arguments) is unfaithful as soon as two calls with
    the same view differ in their task -/
theorem partial_token_not_faithful {A : Type} (view : C → A) (tok : A → String)
    (task : C → Nat × Nat → Task (String × Nat × Nat) V) (c₁ c₂ : C) (hv : view c₁ = view c₂) (hd : task c₁ ≠ task c₂) :
    ¬ Faithful (fun c => tok (view c)) task :=
  fun hf => hd (hf c₁ c₂ (by simp [hv]))
end layers

end XrsVerif.GraphKeys
