import XrsVerif.Proofs.PolygonizeRegions
/-
  C15, losslessness: the region ids of `_calculate_regions` are first-pixel ranks.

  `regionId_ranked`  if a pixel has region id `r + 1 ≥ 2` then an earlier pixel (scan order) has id `r`: the
                     regions are numbered in the order of their first pixels, which is what `_scan` relies
                     on (`regions[ij] == region_done + 1` detects exactly the first pixel of the next region).
  Proof: provisional ids are handed out in increasing order along the scan (`MInv`), the compaction numbers
  the roots in increasing order (`SInv`), and every provisional id of a class is at least its root.
  Core Lean only.
-/
set_option linter.unusedVariables false
set_option linter.unusedSectionVars false
namespace XrsVerif.Polygonize
open XrsVerif.Regions (setL)

/-- provisional ids are bounded by the counter and each one is created at a pixel before which only
    smaller ids occur -/
structure MInv (k : Nat) (st : CR) : Prop where
  le : ∀ q, st.raw q ≤ st.region
  cr : ∀ u, 1 ≤ u → u ≤ st.region → ∃ p, p < k ∧ st.raw p = u ∧ ∀ q, q < p → st.raw q < u

section pass
variable {V : Type} (nx : Nat) (conn8 : Bool) (close : V → V → Bool) (values : Nat → V) (mask : Nat → Bool)

theorem MInv_set {k : Nat} {st : CR} (h : MInv k st) (v : Nat) (hv : v ≤ st.region) (lk : Lookup) :
    MInv (k + 1) ⟨setL st.raw k v, lk, st.region⟩ := by
  constructor
  · intro q; simp only [setL]; split
    · exact hv
    · exact h.le q
  · intro u h1 h2
    obtain ⟨p, hp, hr, hq⟩ := h.cr u h1 h2
    refine ⟨p, by omega, ?_, ?_⟩
    · simp only [setL]; rw [if_neg (by omega)]; exact hr
    · intro q hqp; simp only [setL]; rw [if_neg (by omega)]; exact hq q hqp

theorem calcStep_MInv {k : Nat} {st : CR} (h : MInv k st) :
    MInv (k + 1) (calcStep nx conn8 close values mask st k) := by
  have hw : (probeW nx conn8 close values mask st.raw k).2 ≤ st.region := by
    simp only [probeW]; split <;> exact h.le _
  have hs : (probeS nx conn8 close values mask st.raw k).2 ≤ st.region := by
    simp only [probeS]; split <;> exact h.le _
  unfold calcStep
  split
  · exact MInv_set h 0 (by omega) _
  · simp only
    split
    · refine MInv_set h _ ?_ _
      unfold minMax; split <;> simp only <;> assumption
    · split
      · exact MInv_set h _ hw _
      · split
        · exact MInv_set h _ hs _
        · constructor
          · intro q; simp only [setL]; split
            · omega
            · have := h.le q; omega
          · intro u h1 h2
            simp only at h2
            by_cases hu : u ≤ st.region
            · obtain ⟨p, hp, hr, hq⟩ := h.cr u h1 hu
              refine ⟨p, by omega, ?_, ?_⟩
              · simp only [setL]; rw [if_neg (by omega)]; exact hr
              · intro q hqp; simp only [setL]; rw [if_neg (by omega)]; exact hq q hqp
            · refine ⟨k, by omega, ?_, ?_⟩
              · simp only [setL, if_true]; omega
              · intro q hqk; simp only [setL]; rw [if_neg (by omega)]
                have := h.le q; omega

theorem foldl_calcStep_MInv : ∀ (m : Nat) (st : CR) (k : Nat), MInv k st →
    MInv (k + m) ((List.range' k m).foldl (calcStep nx conn8 close values mask) st) := by
  intro m
  induction m with
  | zero => intro st k h; simpa using h
  | succ m ih =>
    intro st k h
    rw [List.range'_succ, List.foldl_cons]
    have := ih (calcStep nx conn8 close values mask st k) (k + 1) (calcStep_MInv nx conn8 close values mask h)
    rw [show k + 1 + m = k + (m + 1) by omega] at this
    exact this

end pass

theorem calcPass_MInv {V : Type} (nx ny : Nat) (conn8 : Bool) (close : V → V → Bool) (values : Nat → V)
    (mask : Nat → Bool) : MInv (nx * ny) (calcPass nx ny conn8 close values mask) := by
  have h0 : MInv 0 ⟨fun _ => 0, ⟨fun _ => 0, max 64 (max nx ny)⟩, 0⟩ :=
    ⟨fun q => Nat.le_refl 0, by intro u h1 h2; simp only at h2; omega⟩
  have := foldl_calcStep_MInv nx conn8 close values mask (nx * ny) _ 0 h0
  rw [Nat.zero_add] at this
  unfold calcPass
  rw [List.range_eq_range']
  exact this

/-- the compaction hands out the new ids `0, 1, 2, …` in increasing order of the old ids -/
structure SInv (k : Nat) (nl : Nat → Nat) (cnt : Nat) : Prop where
  all : ∀ c, c < cnt → ∃ u, u < k ∧ nl u = c
  below : ∀ u, u < k → ∀ c, c < nl u → ∃ u', u' < u ∧ nl u' = c

theorem compactStep_SInv {lk : Lookup} (hF : Forest lk.get) (hZ : ∀ j, lk.size ≤ j → lk.get j = 0)
    {k : Nat} {st : (Nat → Nat) × Nat} (h : SInv k st.1 st.2) :
    SInv (k + 1) (compactStep lk st k).1 (compactStep lk st k).2 := by
  obtain ⟨nl, cnt⟩ := st
  simp only at h
  have htarget : (if k < lk.size then lk.get k else 0) = lk.get k := by
    split
    · rfl
    · rename_i hh; exact (hZ k (by omega)).symm
  simp only [compactStep, htarget]
  by_cases hk0 : lk.get k = 0
  · rw [if_pos hk0]
    simp only
    constructor
    · intro c hc
      by_cases hc2 : c < cnt
      · obtain ⟨u, hu, e⟩ := h.all c hc2
        exact ⟨u, by omega, by simp only [setL]; rw [if_neg (by omega)]; exact e⟩
      · exact ⟨k, by omega, by simp only [setL, if_true]; omega⟩
    · intro u hu c hc
      by_cases huk : u = k
      · subst huk
        simp only [setL, if_pos] at hc
        obtain ⟨u', hu', e⟩ := h.all c (by simpa using hc)
        exact ⟨u', hu', by simp only [setL]; rw [if_neg (by omega)]; exact e⟩
      · simp only [setL] at hc; rw [if_neg huk] at hc
        obtain ⟨u', hu', e⟩ := h.below u (by omega) c hc
        exact ⟨u', hu', by simp only [setL]; rw [if_neg (by omega)]; exact e⟩
  · rw [if_neg hk0]
    simp only
    have hlt : lk.get k < k := hF k hk0
    constructor
    · intro c hc
      obtain ⟨u, hu, e⟩ := h.all c hc
      exact ⟨u, by omega, by simp only [setL]; rw [if_neg (by omega)]; exact e⟩
    · intro u hu c hc
      by_cases huk : u = k
      · subst huk
        simp only [setL, if_pos] at hc
        obtain ⟨u', hu', e⟩ := h.below (lk.get u) hlt c (by simpa using hc)
        exact ⟨u', by omega, by simp only [setL]; rw [if_neg (by omega)]; exact e⟩
      · simp only [setL] at hc; rw [if_neg huk] at hc
        obtain ⟨u', hu', e⟩ := h.below u (by omega) c hc
        exact ⟨u', hu', by simp only [setL]; rw [if_neg (by omega)]; exact e⟩

theorem compact_SInv {lk : Lookup} (hF : Forest lk.get) (hZ : ∀ j, lk.size ≤ j → lk.get j = 0) (region : Nat) :
    SInv (region + 1) (compact lk region).1 (compact lk region).2 := by
  have key : ∀ n (st : (Nat → Nat) × Nat) k, SInv k st.1 st.2 →
      SInv (k + n) (((List.range' k n).foldl (compactStep lk) st)).1
        (((List.range' k n).foldl (compactStep lk) st)).2 := by
    intro n
    induction n with
    | zero => intro st k h; simpa using h
    | succ n ih =>
      intro st k h
      rw [List.range'_succ, List.foldl_cons]
      have := ih (compactStep lk st k) (k + 1) (compactStep_SInv hF hZ h)
      rw [show k + 1 + n = k + (n + 1) by omega] at this
      exact this
  have h0 : SInv 0 (fun _ => 0) 0 := ⟨by intro c hc; omega, by intro u hu; omega⟩
  have := key (region + 1) ((fun _ => 0), 0) 0 h0
  rw [Nat.zero_add] at this
  unfold compact
  rw [List.range_eq_range']
  exact this

/-- **region ids are first-pixel ranks**: a pixel with id `r + 1 ≥ 2` is preceded by a pixel with id `r` -/
theorem regionId_ranked {V : Type} (nx ny : Nat) (conn8 : Bool) (close : V → V → Bool) (values : Nat → V)
    (mask : Nat → Bool) (hnx : 0 < nx) (hsymm : ∀ a b, close a b = true → close b a = true)
    (htrans : ∀ a b c, close a b = true → close b c = true → close a c = true)
    {ij r : Nat} (hij : ij < nx * ny) (hr : 1 ≤ r)
    (h : regionId nx ny conn8 close values mask ij = r + 1) :
    ∃ p, p < ij ∧ regionId nx ny conn8 close values mask p = r := by
  have I := calcPass_CInv nx ny conn8 close values mask hnx hsymm htrans
  have M := calcPass_MInv nx ny conn8 close values mask
  have K := compact_KInv I.F I.B (calcPass nx ny conn8 close values mask).region
  have S := compact_SInv I.F I.B (calcPass nx ny conn8 close values mask).region
  simp only [regionId] at h ⊢
  generalize hst : calcPass nx ny conn8 close values mask = st at *
  have hv := M.le ij
  obtain ⟨u', hu', e⟩ := S.below (st.raw ij) (by omega) r (by omega)
  have hu0 : u' ≠ 0 := by
    intro h0; subst h0
    have := (K.zero (by omega)).1
    omega
  obtain ⟨p, hp, hraw, hbefore⟩ := M.cr u' (by omega) (by omega)
  refine ⟨p, ?_, by rw [hraw]; exact e⟩
  by_cases hlt : p < ij
  · exact hlt
  · exfalso
    by_cases heq : p = ij
    · subst heq; omega
    · have := hbefore ij (by omega); omega

end XrsVerif.Polygonize
