import XrsVerif.Core.Halo
import XrsVerif.Proofs.KSimp
/-
  Dask = NumPy for generated 3x3 stencil kernels over `NV K` (NaN or a field element):
  the halo theorem handles every cell; at the raster's border NumPy leaves the allocation value
  (NaN) while Dask evaluates the kernel on a NaN-padded window, so the kernel has to be NaN-strict
  in every edge row / column of its window (`EdgeStrict`, proved per kernel by symbolic execution).
-/
set_option linter.unusedSectionVars false
namespace XrsVerif

variable {K : Type} [Field K] [LinearOrder K] [IsStrictOrderedRing K] [Trig K]

/-- NaN padding of every array -/
def nanFill : String → NV K := fun _ => none

/-- a NaN edge row or column of the 3x3 window makes the cell NaN -/
def EdgeStrict (K : Type) [Field K] [LinearOrder K] [IsStrictOrderedRing K] [Trig K] (k : Kernel) : Prop :=
  ∀ (env : String → NV K) (vec : String → List (NV K)) (rd : String → Int → Int → NV K),
    ((∀ a dx, rd a (-1) dx = none) ∨ (∀ a dx, rd a 1 dx = none) ∨
     (∀ a dy, rd a dy (-1) = none) ∨ (∀ a dy, rd a dy 1 = none)) →
    k.cell env rd vec = none

/-- **Dask = NumPy at every cell, for every chunking** for a 3x3 kernel with NaN borders -/
theorem Kernel.stencil1_dask_eq_numpy (k : Kernel)
    (hw : readsWithin k.body.reads 1 1 = true)
    (ht : k.top = 1) (hb : k.bottom = 1) (hl : k.left = 1) (hr : k.right = 1)
    (hfill : k.fill = .nan) (hs : EdgeStrict K k)
    (dr dc : Nat) (hdr : 1 ≤ dr) (hdc : 1 ≤ dc)
    (env : String → NV K) (vec : String → List (NV K)) (dflt : NV K)
    (rch cch : List Nat) (g : Grid (String → NV K))
    (hrs : rch.sum = g.h) (hcs : cch.sum = g.w)
    (i j : Int) (hi : 0 ≤ i) (hi' : i < g.h) (hj : 0 ≤ j) (hj' : j < g.w) :
    (mapOverlap nanFill dflt dr dc (k.runG env vec) rch cch g).cell i j = (k.runG env vec g).cell i j := by
  rw [Kernel.overlap_eq_spec k env vec 1 1 dr dc hw hdr hdc (by omega) (by omega) (by omega) (by omega)
      nanFill dflt rch cch g hrs hcs i j hi hi' hj hj']
  by_cases hin : (k.top : Int) ≤ i ∧ i + k.bottom < g.h ∧ (k.left : Int) ≤ j ∧ j + k.right < g.w
  · rw [Kernel.numpy_eq_spec_interior k env vec 1 1 hw (by omega) (by omega) (by omega) (by omega) nanFill g i j hin]
  · -- border cell: NumPy leaves NaN; the padded window has a NaN edge
    have hnp : (k.runG env vec g).cell i j = none := by
      simp only [Kernel.runG, if_neg hin, hfill, Fill.val, fl_nan]
    rw [hnp]
    unfold spec Kernel.win
    apply hs
    have hcase : i = 0 ∨ i = g.h - 1 ∨ j = 0 ∨ j = g.w - 1 := by
      rw [ht, hb, hl, hr] at hin; omega
    rcases hcase with h | h | h | h
    · left; intro a dx; simp only [Grid.get]; rw [if_neg (by omega)]; rfl
    · right; left; intro a dx; simp only [Grid.get]; rw [if_neg (by omega)]; rfl
    · right; right; left; intro a dy; simp only [Grid.get]; rw [if_neg (by omega)]; rfl
    · right; right; right; intro a dy; simp only [Grid.get]; rw [if_neg (by omega)]; rfl

end XrsVerif
