import XrsVerif.Proofs.ILVsInitElev
import XrsVerif.Proofs.ILVsAngle
/-
  Proofs/ILVsInitPos.lean -- the three inlined `_calc_event_pos` + `_calculate_angle` of the generated `_init_event_list`
  (each stores the bearing of the model's event point into the event record `e`) and the append `event_list[count_event] = e`.
-/
namespace XrsVerif.ILSw
open XrsVerif XrsVerif.IL XrsVerif.ViewshedEvents
variable {F : Type} [Fl F]
set_option linter.unusedSectionVars false
set_option linter.unusedSimpArgs false
set_option linter.unusedVariables false

/-- the bearing `_init_event_list` stores for the event `ty` of cell `(i, j)` seen from `(vr, vc)`:
    `_calculate_angle` of the event point `_calc_event_pos` returns -/
def bearingF (i j vr vc ty : Int) : F :=
  angF (halfF j (posOff ty (i - vr) (j - vc)).2) (halfF i (posOff ty (i - vr) (j - vc)).1) (Fl.lit vc 1) (Fl.lit vr 1)

theorem posBody_num (hH : HalfOK F) (p : String) (s : State F) (fuel : Nat) (ty : Int)
    (hz : Fl.eq (Fl.lit ty 1 : F) (Fl.lit 0 1) = decide (ty = 0)) (ho : Fl.eq (Fl.lit ty 1 : F) (Fl.lit 1 1) = decide (ty = 1))
    (hs : s.ctl = .run) (h1 : s.fenv (p ++ "event_type") = Fl.lit ty 1) :
    exec fuel (posBody .num p) s = { s with fenv := posEnv p s ty, ctl := .ret } :=
  posBody_exec hH .num p s fuel hs ty ⟨h1, hz, ho⟩

theorem angEnv_ret (p : String) (s : State F) (r : String) (hr : r = p ++ "ret0") :
    angEnv p s r = angF (s.fenv (p ++ "event_x")) (s.fenv (p ++ "event_y")) (Fl.lit (s.ienv (p ++ "viewpoint_x")) 1)
      (Fl.lit (s.ienv (p ++ "viewpoint_y")) 1) := by
  subst hr; simp [angEnv, setS_apply]

/-- what an inlined `e[E_TYPE_ID] = ty; ay, ax = _calc_event_pos(…); e[E_ANG_ID] = _calculate_angle(…)` does -/
def PosAngSpec (F : Type) [Fl F] (p a : String) (ty : Int) : Prop :=
  ∀ (hL : LitOK F) (hH : HalfOK F) (rest : St) (s : State F) (fuel : Nat) (hs : s.ctl = .run) (i j vr vc : Int)
    (hshe : s.shp "e" = [7]) (hlen : (s.fa "e").length = 7)
    (h2 : s.ienv "e_row" = i) (h3 : s.ienv "e_col" = j) (h6 : s.ienv "vp_row" = vr) (h7 : s.ienv "vp_col" = vc),
    ∃ s' : State F, exec fuel (posAng p a ty rest) s = exec fuel rest s' ∧ EvStep s s' ∧
      s'.fa = setS s.fa "e" (((s.fa "e").set 2 (Fl.lit ty 1)).set 3 (bearingF i j vr vc ty))

set_option hygiene false in
macro "pos_ang_proof" p:str a:str ty:term : tactic => `(tactic| (
  intro hL hH rest s fuel hs i j vr vc hshe hlen h2 h3 h6 h7
  obtain ⟨ie, fe, be, ia, fa, shp, ext, ctl⟩ := s
  simp only at hs hshe hlen h2 h3 h6 h7; subst hs
  obtain ⟨e0, e1, e2, e3, e4, e5, e6, hE⟩ := list7 _ hlen
  have hl := hL $ty (by omega)
  have hpb := fun s => posBody_num (F := F) hH $p s fuel $ty hl.1 hl.2
  have hab := fun s => angBody_exec (F := F) $a s fuel
  simp [posAng, exec, IE.ok, IE.eval, FE.ok, FE.eval, hshe, inRange, normIdx, off1, hE, setS_apply, h2, h3, h6, h7,
    hpb, posEnv, posS', hab]
  refine ⟨_, rfl, ⟨rfl, rfl, rfl, rfl, ?_⟩, ?_⟩
  · intro v hv
    simp [liveVars] at hv
    rcases hv with rfl | rfl | rfl | rfl | rfl | rfl | rfl | rfl | rfl <;> simp [setS_apply]
  · rw [angEnv_ret _ _ _ (by decide)]
    simp [setS_setS, setS_apply, bearingF]))

theorem posAng6 : PosAngSpec F "_calc_event_pos6$" "_calculate_angle7$" 1 := by
  pos_ang_proof "_calc_event_pos6$" "_calculate_angle7$" 1

theorem posAng8 : PosAngSpec F "_calc_event_pos8$" "_calculate_angle9$" 0 := by
  pos_ang_proof "_calc_event_pos8$" "_calculate_angle9$" 0

theorem posAng10 : PosAngSpec F "_calc_event_pos10$" "_calculate_angle11$" (-1) := by
  pos_ang_proof "_calc_event_pos10$" "_calculate_angle11$" (-1)


/-- `event_list[count_event] = e`: row `count_event` of the event list becomes the event record -/
theorem appendE_exec (cp : String) (hcp : ∀ v ∈ liveVars, v ≠ cp ++ "r" ∧ v ≠ cp ++ "k") (rest : St) (s : State F) (fuel n c : Nat)
    (hs : s.ctl = .run) (hshp : s.shp "event_list" = [n, 7]) (hlen : (s.fa "event_list").length = n * 7)
    (hshe : s.shp "e" = [7]) (hc : s.ienv "count_event" = c) (hcn : c < n) :
    ∃ s' : State F, exec fuel (appendE cp rest) s = exec fuel rest s' ∧ EvStep s s' ∧ s'.fenv = s.fenv ∧
      s'.fa = setS s.fa "event_list" (setRow (s.fa "event_list") 7 c (fun k => (s.fa "e").getD k Fl.nan)) := by
  obtain ⟨ie, fe, be, ia, fa, shp, ext, ctl⟩ := s
  simp only at hs hshp hlen hshe hc; subst hs
  have hne : "count_event" ≠ cp ++ "r" := (hcp _ (by simp [liveVars])).1
  have h1 : exec fuel (.setI (cp ++ "r") (.var "count_event")) ⟨ie, fe, be, ia, fa, shp, ext, .run⟩ =
      ⟨setS ie (cp ++ "r") c, fe, be, ia, fa, shp, ext, .run⟩ := by
    simp [exec, IE.ok, IE.eval, hc]
  have h2 := rowLoop_exec "event_list" (cp ++ "k") (.dim "event_list" 1) (.var (cp ++ "r")) (.ld1 "e" (.var (cp ++ "k")))
    ⟨setS ie (cp ++ "r") c, fe, be, ia, fa, shp, ext, .run⟩ fuel n 7 c (fun k => (fa "e").getD k Fl.nan) rfl hshp hlen hcn
    (by omega) (by simp [IE.ok, IE.eval, hshp])
    (by
      intro k l hk hl hout
      have hin : inRange (k : Int) 7 = true := inRange_of_lt k 7 hk
      simp [IE.ok, IE.eval, FE.ok, FE.eval, setS_apply, hshe, hin, off1_nat])
  simp only [appendE]
  rw [exec_seq_eq _ _ _ _ _ h1 rfl, rowcpE, exec_seq_eq _ _ _ _ _ h2 rfl]
  refine ⟨_, rfl, ⟨rfl, rfl, rfl, rfl, ?_⟩, rfl, rfl⟩
  intro v hv
  have := hcp v hv
  simp [setS_apply, this.1, this.2]

end XrsVerif.ILSw
