import XrsVerif.Proofs.PolygonizeLosslessScanDefs
import XrsVerif.Proofs.PolygonizeOrbit
/-
  C15, losslessness: the exterior half of a `_scan` step preserves the invariant (`ext_part`).
  A pixel whose region id is `regionDone + 1` is the first pixel of its region (ids are first-pixel ranks),
  it is not flagged in `v1`, its S edge is a boundary edge, so `follow` returns a cycle which becomes the
  exterior of the new polygon.
-/
set_option linter.unusedVariables false
namespace XrsVerif.Polygonize

/-- region ids are first-pixel ranks -/
def Ranked (regs : Nat → Nat) (n : Nat) : Prop :=
  ∀ ij, ij < n → ∀ r, 1 ≤ r → regs ij = r + 1 → ∃ p, p < ij ∧ regs p = r

theorem ext_part {V : Type} (nx ny : Nat) (hnx : 0 < nx) (regs : Nat → Nat) (values : Nat → V)
    (hrank : Ranked regs (nx * ny)) {k : Nat} (hk : k < nx * ny) {st : Scan V}
    {cyc : Nat → List (List FSt)} {fs : Nat → Nat} (h : ScanInv nx ny regs values k k st cyc fs) :
    ∃ cyc' fs', ScanInv nx ny regs values (k + 1) k (extPart nx ny regs values st k) cyc' fs' := by
  by_cases hreg : regs k = st.regionDone + 1
  · -- a new region starts here
    have hnot : st.v1.contains k = false := by
      cases hc : st.v1.contains k with
      | false => rfl
      | true => have := h.v1 k (List.contains_iff_mem.mp hc); omega
    have hcond : (!(st.v1.contains k) && regs k == st.regionDone + 1) = true := by
      rw [hnot, hreg]; simp
    have hstart : Valid (inRegion nx ny regs (regs k)) ⟨(k % nx : Nat), (k / nx : Nat), if false then .W else .E⟩ :=
      exterior_start_valid nx ny regs k hnx hk (fun hge => by have := h.seen (k - nx) (by omega); omega)
    have hsome := follow_isSome nx ny regs k false hstart
    obtain ⟨tr, hf⟩ := Option.isSome_iff_exists.mp hsome
    obtain ⟨c, hcl, hnd, ⟨m, hm, hc, hit⟩, hpts, hv2, hv1⟩ := follow_char nx ny regs k false tr hstart hf
    have hE : Est nx k ∈ c := by
      rw [hc]; exact mem_orbitL.mpr ⟨0, by omega, rfl⟩
    refine ⟨fun r => if r = regs k then [c] else cyc r, fun r => if r = regs k then k else fs r, ?_⟩
    unfold extPart
    rw [if_pos hcond, hf]
    simp only
    constructor
    · exact h.ok
    · simp only
      rw [hreg, List.range_succ, List.map_append, h.polys]
      congr 1
      · apply List.map_congr_left
        intro i hi
        have := List.mem_range.mp hi
        rw [if_neg (by omega)]
      · simp [hpts]
    · simp only
      rw [hreg, List.range_succ, List.map_append, List.reverse_append, h.col]
      simp only [List.map_cons, List.map_nil, List.reverse_cons, List.reverse_nil, List.nil_append,
        List.singleton_append, if_true]
      congr 2
      apply List.map_congr_left
      intro i hi
      have := List.mem_range.mp hi
      rw [if_neg (by omega)]
    · intro p hp
      simp only
      by_cases hpk : p = k
      · subst hpk; omega
      · have := h.seen p (by omega); omega
    · intro r h1 h2
      simp only at h2
      by_cases hr : r = regs k
      · subst hr
        simp only [if_true]
        refine ⟨⟨hk, rfl, ?_, ⟨c, [], rfl, hE, fun c' hc' => absurd hc' List.not_mem_nil⟩, ?_, by simpa using hnd⟩, by omega⟩
        · intro p hp; have := h.seen p hp; omega
        · intro c' hc'
          rw [List.mem_singleton.mp hc']
          exact ⟨hcl, m, _, hm, hc, hit⟩
      · simp only [if_neg hr]
        have := h.good r h1 (by omega)
        exact ⟨this.1, by omega⟩
    · intro q
      simp only
      rw [List.mem_append, hv2 q, trv2_iff hnx hcl.valid q, h.v2 q]
      by_cases hq : regs (q - nx) = regs k
      · simp only [hq, if_true, List.flatten_cons, List.flatten_nil, List.append_nil]
        constructor
        · rintro (⟨a, b, _, d⟩ | ⟨a, b, _, e, _⟩)
          · exact ⟨a, b, by omega, by omega, d⟩
          · omega
        · rintro ⟨a, b, _, _, d⟩
          exact Or.inl ⟨a, b, trivial, d⟩
      · simp only [if_neg hq]
        constructor
        · rintro (⟨_, _, e, _⟩ | ⟨a, b, c1, e, d⟩)
          · exact absurd e hq
          · exact ⟨a, b, c1, by omega, d⟩
        · rintro ⟨a, b, c1, e, d⟩
          exact Or.inr ⟨a, b, c1, by omega, d⟩
    · intro q hq
      simp only at hq ⊢
      rcases List.mem_append.mp hq with hq | hq
      · obtain ⟨s, hs, _, e⟩ := hv1 q hq
        obtain ⟨_, _, _, e4⟩ := state_coords (hcl.valid s hs).1
        rw [e, e4]; omega
      · have := h.v1 q hq; omega
    · intro q h1 h2 h3 h4
      exact List.mem_append_right _ (h.cov q h1 h2 h3 h4)
  · -- nothing starts here
    have hcond : (!(st.v1.contains k) && regs k == st.regionDone + 1) = false := by
      have : (regs k == st.regionDone + 1) = false := by simpa using hreg
      rw [this]; simp
    refine ⟨cyc, fs, ?_⟩
    unfold extPart
    rw [hcond]
    simp only [Bool.false_eq_true, if_false]
    refine ⟨h.ok, h.polys, h.col, ?_, ?_, h.v2, h.v1, h.cov⟩
    · intro p hp
      by_cases hpk : p = k
      · subst hpk
        by_cases h0 : regs p = 0
        · omega
        · by_cases h1 : regs p = 1
          · omega
          · obtain ⟨p', hp', e⟩ := hrank p hk (regs p - 1) (by omega) (by omega)
            have := h.seen p' hp'
            omega
      · exact h.seen p (by omega)
    · intro r h1 h2
      have := h.good r h1 h2
      exact ⟨this.1, by omega⟩

end XrsVerif.Polygonize
