import XrsVerif.Proofs.PolygonizeLosslessScan
import XrsVerif.Proofs.PolygonizeLosslessAreaScan
import XrsVerif.Proofs.PolygonizeLosslessRanks
/-
  C15, losslessness of `Polygonize.scan` on the region array of `calculateRegions` (`scan_regions_lossless`):
  `regionId` has first-pixel ranks (`regionId_ranked`) and connected regions (`regionId_spec`), so
  `scan_lossless` applies.
-/
set_option linter.unusedVariables false
namespace XrsVerif.Polygonize

/-- the region array as `scan` reads it -/
def scanRegs {V : Type} (nx ny : Nat) (conn8 : Bool) (close : V → V → Bool) (values : Nat → V)
    (mask : Nat → Bool) : Nat → Nat :=
  fun ij => (calculateRegions nx ny conn8 close values mask).toArray.getD ij 0

theorem scan_eq {V : Type} (nx ny : Nat) (conn8 : Bool) (close : V → V → Bool) (values : Nat → V)
    (mask : Nat → Bool) :
    scan nx ny conn8 close values mask =
      (List.range (nx * ny)).foldl (scanStep nx ny (scanRegs nx ny conn8 close values mask) values)
        ⟨[], [], 0, [], [], true⟩ := rfl

theorem scanRegs_eq {V : Type} (nx ny : Nat) (conn8 : Bool) (close : V → V → Bool) (values : Nat → V)
    (mask : Nat → Bool) {ij : Nat} (hij : ij < nx * ny) :
    scanRegs nx ny conn8 close values mask ij = regionId nx ny conn8 close values mask ij := by
  unfold scanRegs
  rw [calculateRegions_eq]
  simp [Array.getD, hij]

/-- values are close along a chain of links -/
theorem connP_close {V : Type} (nx : Nat) (conn8 : Bool) (close : V → V → Bool) (values : Nat → V)
    (mask : Nat → Bool) (n : Nat) (hrefl : ∀ a, close a a = true)
    (hsymm : ∀ a b, close a b = true → close b a = true)
    (htrans : ∀ a b c, close a b = true → close b c = true → close a c = true) {p q : Nat}
    (h : ConnP nx conn8 close values mask n p q) : close (values p) (values q) = true := by
  induction h with
  | base e => exact e.2.2.2.2
  | refl u => exact hrefl _
  | symm _ ih => exact hsymm _ _ ih
  | trans _ _ ih1 ih2 => exact htrans _ _ _ ih1 ih2

section facts
variable {V : Type} (nx ny : Nat) (conn8 : Bool) (close : V → V → Bool) (values : Nat → V) (mask : Nat → Bool)
  (hnx : 0 < nx) (hsymm : ∀ a b, close a b = true → close b a = true)
  (htrans : ∀ a b c, close a b = true → close b c = true → close a c = true)
include hnx hsymm htrans

theorem scanRegs_ranked : Ranked (scanRegs nx ny conn8 close values mask) (nx * ny) := by
  intro ij hij r hr h
  rw [scanRegs_eq nx ny conn8 close values mask hij] at h
  obtain ⟨p, hp, e⟩ := regionId_ranked nx ny conn8 close values mask hnx hsymm htrans hij hr h
  exact ⟨p, hp, by rw [scanRegs_eq nx ny conn8 close values mask (show p < nx * ny by omega)]; exact e⟩

theorem scanRegs_link : ∀ p q, Link nx conn8 close values mask (nx * ny) p q →
    p < nx * ny ∧ q ∈ back nx conn8 p ∧
      scanRegs nx ny conn8 close values mask p = scanRegs nx ny conn8 close values mask q := by
  intro p q hl
  have hq : q < nx * ny := Nat.lt_trans (back_lt nx conn8 hnx hl.2.1) hl.1
  refine ⟨hl.1, hl.2.1, ?_⟩
  rw [scanRegs_eq nx ny conn8 close values mask hl.1, scanRegs_eq nx ny conn8 close values mask hq]
  exact ((regionId_spec nx ny conn8 close values mask hnx hsymm htrans hl.1 hq).2.2 hl.2.2.1 hl.2.2.2.1).mpr
    (Cl.base hl)

theorem scanRegs_conn : ∀ p q, p < nx * ny → q < nx * ny →
    scanRegs nx ny conn8 close values mask p = scanRegs nx ny conn8 close values mask q →
    scanRegs nx ny conn8 close values mask p ≠ 0 →
    Cl (fun p q => Link nx conn8 close values mask (nx * ny) p q) p q := by
  intro p q hp hq he hne
  rw [scanRegs_eq nx ny conn8 close values mask hp] at he hne
  rw [scanRegs_eq nx ny conn8 close values mask hq] at he
  have sp := regionId_spec nx ny conn8 close values mask hnx hsymm htrans hp hq
  have sq := regionId_spec nx ny conn8 close values mask hnx hsymm htrans hq hp
  have hmp : mask p = true := by
    cases hm : mask p with
    | true => rfl
    | false => exact absurd (sp.1 hm) hne
  have hmq : mask q = true := by
    cases hm : mask q with
    | true => rfl
    | false => exact absurd (he.trans (sq.1 hm)) hne
  exact (sp.2.2 hmp hmq).mp he

end facts

theorem scan_regions_lossless {V : Type} (nx ny : Nat) (conn8 : Bool) (close : V → V → Bool)
    (values : Nat → V) (mask : Nat → Bool) (hnx : 0 < nx)
    (hsymm : ∀ a b, close a b = true → close b a = true)
    (htrans : ∀ a b c, close a b = true → close b c = true → close a c = true) :
    let sc := scan nx ny conn8 close values mask
    let rid := regionId nx ny conn8 close values mask
    sc.ok = true ∧ sc.polys.length = sc.regionDone ∧ sc.column.length = sc.regionDone ∧
    (∀ p, p < nx * ny → rid p ≤ sc.regionDone) ∧
    (∀ i, i < sc.regionDone → ∃ f, f < nx * ny ∧ rid f = i + 1 ∧ (∀ p, p < f → rid p ≠ i + 1) ∧
      sc.column.reverse[i]? = some (values f)) ∧
    (∀ i, i < sc.regionDone → ∀ X Y : Nat, X < nx → Y < ny →
      inPolygon (sc.polys.getD i []) (X : Int) (Y : Int) = (rid (X + Y * nx) == i + 1) ∧
      ((sc.polys.getD i []).map (fun ring => crossings ring (X : Int) (Y : Int))).sum % 2 =
        if rid (X + Y * nx) = i + 1 then 1 else 0) := by
  intro sc rid
  have hreq : ∀ ij, ij < nx * ny → scanRegs nx ny conn8 close values mask ij = rid ij :=
    fun ij hij => scanRegs_eq nx ny conn8 close values mask hij
  have hrank := scanRegs_ranked nx ny conn8 close values mask hnx hsymm htrans
  have hE := scanRegs_link nx ny conn8 close values mask hnx hsymm htrans
  have hconn := scanRegs_conn nx ny conn8 close values mask hnx hsymm htrans
  have main := scan_lossless nx ny hnx (scanRegs nx ny conn8 close values mask) conn8
    (fun p q => Link nx conn8 close values mask (nx * ny) p q) hE hconn values hrank
  rw [← scan_eq] at main
  obtain ⟨h1, h2, h3, h4, h5, h6⟩ := main
  refine ⟨h1, h2, h3, ?_, ?_, ?_⟩
  · intro p hp; rw [← hreq p hp]; exact h4 p hp
  · intro i hi
    obtain ⟨f, hf, e1, e2, e3⟩ := h5 i hi
    refine ⟨f, hf, by rw [← hreq f hf]; exact e1, ?_, e3⟩
    intro p hp; rw [← hreq p (by omega)]; exact e2 p hp
  · intro i hi X Y hX hY
    have hp : X + Y * nx < nx * ny := by
      have : (Y + 1) * nx ≤ ny * nx := Nat.mul_le_mul_right nx hY
      rw [Nat.add_mul, Nat.mul_comm ny nx] at this; omega
    rw [← hreq _ hp]; exact h6 i hi X Y hX hY

theorem pix_lt {nx ny X Y : Nat} (hX : X < nx) (hY : Y < ny) : X + Y * nx < nx * ny := by
  have : (Y + 1) * nx ≤ ny * nx := Nat.mul_le_mul_right nx hY
  rw [Nat.add_mul, Nat.mul_comm ny nx] at this; omega

/-- the cell-assignment clause of C15 for `scan` -/
theorem scan_cells_lossless {V : Type} (nx ny : Nat) (conn8 : Bool) (close : V → V → Bool)
    (values : Nat → V) (mask : Nat → Bool) (hnx : 0 < nx) (hrefl : ∀ a, close a a = true)
    (hsymm : ∀ a b, close a b = true → close b a = true)
    (htrans : ∀ a b c, close a b = true → close b c = true → close a c = true)
    (sc : Scan V) (hsc : scan nx ny conn8 close values mask = sc) :
    sc.ok = true ∧ sc.column.length = sc.polys.length ∧
    ∀ X Y : Nat, X < nx → Y < ny →
      (mask (X + Y * nx) = false →
        ∀ k, k < sc.polys.length → inPolygon (sc.polys.getD k []) (X : Int) (Y : Int) = false) ∧
      (mask (X + Y * nx) = true →
        ∃ k, k < sc.polys.length ∧ k + 1 = regionId nx ny conn8 close values mask (X + Y * nx) ∧
          (∀ k', k' < sc.polys.length →
            (inPolygon (sc.polys.getD k' []) (X : Int) (Y : Int) = true ↔ k' = k)) ∧
          ∃ v, sc.column.reverse[k]? = some v ∧ close v (values (X + Y * nx)) = true) := by
  subst hsc
  obtain ⟨h1, h2, h3, h4, h5, h6⟩ := scan_regions_lossless nx ny conn8 close values mask hnx hsymm htrans
  have h2' := h2
  refine ⟨h1, by rw [h2']; exact h3, ?_⟩
  intro X Y hX hY
  have hp := pix_lt hX hY
  have sp := regionId_spec nx ny conn8 close values mask hnx hsymm htrans hp hp
  constructor
  · intro hm k hk
    rw [(h6 k (by omega) X Y hX hY).1, sp.1 hm]
    simp
  · intro hm
    have hpos := sp.2.1 hm
    have hle := h4 _ hp
    refine ⟨regionId nx ny conn8 close values mask (X + Y * nx) - 1, by omega, by omega, ?_, ?_⟩
    · intro k' hk'
      rw [(h6 k' (by omega) X Y hX hY).1, beq_iff_eq]
      omega
    · obtain ⟨f, hf, e1, _, e3⟩ := h5 (regionId nx ny conn8 close values mask (X + Y * nx) - 1) (by omega)
      refine ⟨values f, e3, ?_⟩
      have sf := regionId_spec nx ny conn8 close values mask hnx hsymm htrans hf hp
      have hmf : mask f = true := by
        cases hmm : mask f with
        | true => rfl
        | false => have := sf.1 hmm; omega
      exact connP_close nx conn8 close values mask (nx * ny) hrefl hsymm htrans
        ((sf.2.2 hmf hm).mp (by omega))

/-- polygons and connected regions correspond one to one -/
theorem scan_polygons_components {V : Type} (nx ny : Nat) (conn8 : Bool) (close : V → V → Bool)
    (values : Nat → V) (mask : Nat → Bool) (hnx : 0 < nx)
    (hsymm : ∀ a b, close a b = true → close b a = true)
    (htrans : ∀ a b c, close a b = true → close b c = true → close a c = true)
    (sc : Scan V) (hsc : scan nx ny conn8 close values mask = sc) :
    (∀ k, k < sc.polys.length → ∃ X Y : Nat, X < nx ∧ Y < ny ∧ mask (X + Y * nx) = true ∧
      inPolygon (sc.polys.getD k []) (X : Int) (Y : Int) = true) ∧
    (∀ X Y X' Y' : Nat, X < nx → Y < ny → X' < nx → Y' < ny → mask (X + Y * nx) = true →
      mask (X' + Y' * nx) = true →
      ((∃ k, k < sc.polys.length ∧ inPolygon (sc.polys.getD k []) (X : Int) (Y : Int) = true ∧
          inPolygon (sc.polys.getD k []) (X' : Int) (Y' : Int) = true) ↔
        ConnP nx conn8 close values mask (nx * ny) (X + Y * nx) (X' + Y' * nx))) := by
  subst hsc
  obtain ⟨h1, h2, h3, h4, h5, h6⟩ := scan_regions_lossless nx ny conn8 close values mask hnx hsymm htrans
  have h2' := h2
  constructor
  · intro k hk
    obtain ⟨f, hf, e1, _, _⟩ := h5 k (by omega)
    have hx : f % nx < nx := Nat.mod_lt f hnx
    have hy : f / nx < ny := div_lt_ny hnx hf
    have sf := regionId_spec nx ny conn8 close values mask hnx hsymm htrans hf hf
    have hmf : mask f = true := by
      cases hmm : mask f with
      | true => rfl
      | false => have := sf.1 hmm; omega
    refine ⟨f % nx, f / nx, hx, hy, by rw [decode_ij]; exact hmf, ?_⟩
    rw [(h6 k (by omega) _ _ hx hy).1, decode_ij, e1]; simp
  · intro X Y X' Y' hX hY hX' hY' hm hm'
    have hp := pix_lt hX hY
    have hp' := pix_lt hX' hY'
    have sp := regionId_spec nx ny conn8 close values mask hnx hsymm htrans hp hp'
    rw [← sp.2.2 hm hm']
    constructor
    · rintro ⟨k, hk, a, b⟩
      rw [(h6 k (by omega) X Y hX hY).1, beq_iff_eq] at a
      rw [(h6 k (by omega) X' Y' hX' hY').1, beq_iff_eq] at b
      omega
    · intro e
      have hpos := sp.2.1 hm
      have hle := h4 _ hp
      refine ⟨regionId nx ny conn8 close values mask (X + Y * nx) - 1, by omega, ?_, ?_⟩
      · rw [(h6 _ (by omega) X Y hX hY).1, beq_iff_eq]; omega
      · rw [(h6 _ (by omega) X' Y' hX' hY').1, beq_iff_eq]; omega

/-- area and orientation of the polygons of `scan` -/
theorem scan_regions_area {V : Type} (nx ny : Nat) (conn8 : Bool) (close : V → V → Bool)
    (values : Nat → V) (mask : Nat → Bool) (hnx : 0 < nx)
    (hsymm : ∀ a b, close a b = true → close b a = true)
    (htrans : ∀ a b c, close a b = true → close b c = true → close a c = true)
    (sc : Scan V) (hsc : scan nx ny conn8 close values mask = sc) :
    ∀ k, k < sc.polys.length →
      ((sc.polys.getD k []).map area2).sum =
        2 * (((List.range (nx * ny)).countP
          (fun p => regionId nx ny conn8 close values mask p == k + 1) : Nat) : Int) ∧
      ∃ ext holes, sc.polys.getD k [] = ext :: holes ∧ 0 < area2 ext ∧ ∀ h ∈ holes, area2 h < 0 := by
  intro k hk
  have hlen := (scan_regions_lossless nx ny conn8 close values mask hnx hsymm htrans).2.1
  rw [hsc] at hlen
  have := scan_area nx ny hnx (scanRegs nx ny conn8 close values mask) conn8
    (fun p q => Link nx conn8 close values mask (nx * ny) p q)
    (scanRegs_link nx ny conn8 close values mask hnx hsymm htrans)
    (scanRegs_conn nx ny conn8 close values mask hnx hsymm htrans) values
    (scanRegs_ranked nx ny conn8 close values mask hnx hsymm htrans) sc
    (by rw [← scan_eq]; exact hsc) k (by omega)
  obtain ⟨a, b⟩ := this
  refine ⟨?_, b⟩
  rw [a]
  congr 2
  apply List.countP_congr
  intro p hp
  rw [scanRegs_eq nx ny conn8 close values mask (List.mem_range.mp hp)]

/-- every ring of `scan` is well formed -/
theorem scan_regions_wf {V : Type} (nx ny : Nat) (conn8 : Bool) (close : V → V → Bool)
    (values : Nat → V) (mask : Nat → Bool) (hnx : 0 < nx)
    (hsymm : ∀ a b, close a b = true → close b a = true)
    (htrans : ∀ a b c, close a b = true → close b c = true → close a c = true)
    (sc : Scan V) (hsc : scan nx ny conn8 close values mask = sc) :
    ∀ k, k < sc.polys.length → ∀ ring ∈ sc.polys.getD k [], ringWellFormed nx ny ring = true := by
  intro k hk
  have hlen := (scan_regions_lossless nx ny conn8 close values mask hnx hsymm htrans).2.1
  rw [hsc] at hlen
  exact scan_wf nx ny hnx (scanRegs nx ny conn8 close values mask) conn8
    (fun p q => Link nx conn8 close values mask (nx * ny) p q)
    (scanRegs_link nx ny conn8 close values mask hnx hsymm htrans)
    (scanRegs_conn nx ny conn8 close values mask hnx hsymm htrans) values
    (scanRegs_ranked nx ny conn8 close values mask hnx hsymm htrans) sc
    (by rw [← scan_eq]; exact hsc) k (by omega)

end XrsVerif.Polygonize
