import XrsVerif.Proofs.PolygonizeLosslessScan
import XrsVerif.Proofs.PolygonizeLosslessRanks
/-
  C15, losslessness of `Polygonize.scan` on the region array of `calculateRegions` (`scan_regions_lossless`):
  `regionId` has first-pixel ranks (`regionId_ranked`) and connected regions (`regionId_spec`), so
  `scan_lossless` applies.
-/
set_option linter.unusedVariables false
namespace XrsVerif.Polygonize

/-- the region array as `scan` reads it -/
def scanRegs {V : Type} (nx ny : Nat) (conn8 : Bool) (close : V → V → Bool) (values : Nat → V)
    (mask : Nat → Bool) : Nat → Nat :=
  fun ij => (calculateRegions nx ny conn8 close values mask).toArray.getD ij 0

theorem scan_eq {V : Type} (nx ny : Nat) (conn8 : Bool) (close : V → V → Bool) (values : Nat → V)
    (mask : Nat → Bool) :
    scan nx ny conn8 close values mask =
      (List.range (nx * ny)).foldl (scanStep nx ny (scanRegs nx ny conn8 close values mask) values)
        ⟨[], [], 0, [], [], true⟩ := rfl

theorem scanRegs_eq {V : Type} (nx ny : Nat) (conn8 : Bool) (close : V → V → Bool) (values : Nat → V)
    (mask : Nat → Bool) {ij : Nat} (hij : ij < nx * ny) :
    scanRegs nx ny conn8 close values mask ij = regionId nx ny conn8 close values mask ij := by
  unfold scanRegs
  rw [calculateRegions_eq]
  simp [Array.getD, hij]

/-- values are close along a chain of links -/
theorem connP_close {V : Type} (nx : Nat) (conn8 : Bool) (close : V → V → Bool) (values : Nat → V)
    (mask : Nat → Bool) (n : Nat) (hrefl : ∀ a, close a a = true)
    (hsymm : ∀ a b, close a b = true → close b a = true)
    (htrans : ∀ a b c, close a b = true → close b c = true → close a c = true) {p q : Nat}
    (h : ConnP nx conn8 close values mask n p q) : close (values p) (values q) = true := by
  induction h with
  | base e => exact e.2.2.2.2
  | refl u => exact hrefl _
  | symm _ ih => exact hsymm _ _ ih
  | trans _ _ ih1 ih2 => exact htrans _ _ _ ih1 ih2

theorem scan_regions_lossless {V : Type} (nx ny : Nat) (conn8 : Bool) (close : V → V → Bool)
    (values : Nat → V) (mask : Nat → Bool) (hnx : 0 < nx)
    (hsymm : ∀ a b, close a b = true → close b a = true)
    (htrans : ∀ a b c, close a b = true → close b c = true → close a c = true) :
    let sc := scan nx ny conn8 close values mask
    let rid := regionId nx ny conn8 close values mask
    sc.ok = true ∧ sc.polys.length = sc.regionDone ∧ sc.column.length = sc.regionDone ∧
    (∀ p, p < nx * ny → rid p ≤ sc.regionDone) ∧
    (∀ i, i < sc.regionDone → ∃ f, f < nx * ny ∧ rid f = i + 1 ∧ (∀ p, p < f → rid p ≠ i + 1) ∧
      sc.column.reverse[i]? = some (values f)) ∧
    (∀ i, i < sc.regionDone → ∀ X Y : Nat, X < nx → Y < ny →
      inPolygon (sc.polys.getD i []) (X : Int) (Y : Int) = (rid (X + Y * nx) == i + 1)) := by
  intro sc rid
  have hreq : ∀ ij, ij < nx * ny → scanRegs nx ny conn8 close values mask ij = rid ij :=
    fun ij hij => scanRegs_eq nx ny conn8 close values mask hij
  have hrank : Ranked (scanRegs nx ny conn8 close values mask) (nx * ny) := by
    intro ij hij r hr h
    rw [hreq ij hij] at h
    obtain ⟨p, hp, e⟩ := regionId_ranked nx ny conn8 close values mask hnx hsymm htrans hij hr h
    exact ⟨p, hp, by rw [hreq p (by omega)]; exact e⟩
  have hE : ∀ p q, Link nx conn8 close values mask (nx * ny) p q →
      p < nx * ny ∧ q ∈ back nx conn8 p ∧
        scanRegs nx ny conn8 close values mask p = scanRegs nx ny conn8 close values mask q := by
    intro p q hl
    have hq : q < nx * ny := Nat.lt_trans (back_lt nx conn8 hnx hl.2.1) hl.1
    refine ⟨hl.1, hl.2.1, ?_⟩
    rw [hreq p hl.1, hreq q hq]
    exact ((regionId_spec nx ny conn8 close values mask hnx hsymm htrans hl.1 hq).2.2 hl.2.2.1 hl.2.2.2.1).mpr
      (Cl.base hl)
  have hconn : ∀ p q, p < nx * ny → q < nx * ny →
      scanRegs nx ny conn8 close values mask p = scanRegs nx ny conn8 close values mask q →
      scanRegs nx ny conn8 close values mask p ≠ 0 →
      Cl (fun p q => Link nx conn8 close values mask (nx * ny) p q) p q := by
    intro p q hp hq he hne
    rw [hreq p hp] at he hne
    rw [hreq q hq] at he
    have sp := regionId_spec nx ny conn8 close values mask hnx hsymm htrans hp hq
    have sq := regionId_spec nx ny conn8 close values mask hnx hsymm htrans hq hp
    have hmp : mask p = true := by
      cases hm : mask p with
      | true => rfl
      | false => exact absurd (sp.1 hm) hne
    have hmq : mask q = true := by
      cases hm : mask q with
      | true => rfl
      | false => exact absurd (he.trans (sq.1 hm)) hne
    exact (sp.2.2 hmp hmq).mp he
  have main := scan_lossless nx ny hnx (scanRegs nx ny conn8 close values mask) conn8
    (fun p q => Link nx conn8 close values mask (nx * ny) p q) hE hconn values hrank
  rw [← scan_eq] at main
  obtain ⟨h1, h2, h3, h4, h5, h6⟩ := main
  refine ⟨h1, h2, h3, ?_, ?_, ?_⟩
  · intro p hp; rw [← hreq p hp]; exact h4 p hp
  · intro i hi
    obtain ⟨f, hf, e1, e2, e3⟩ := h5 i hi
    refine ⟨f, hf, by rw [← hreq f hf]; exact e1, ?_, e3⟩
    intro p hp; rw [← hreq p (by omega)]; exact e2 p hp
  · intro i hi X Y hX hY
    have hp : X + Y * nx < nx * ny := by
      have : (Y + 1) * nx ≤ ny * nx := Nat.mul_le_mul_right nx hY
      rw [Nat.add_mul, Nat.mul_comm ny nx] at this; omega
    rw [← hreq _ hp]; exact h6 i hi X Y hX hY

end XrsVerif.Polygonize
