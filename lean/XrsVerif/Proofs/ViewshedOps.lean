import XrsVerif.Proofs.Viewshed
import Mathlib.Tactic.Order
/-!
  C05 helper lemmas, part 3: rotations, recolouring and the leaf insertion preserve
  `BST`, the node list, `AugLe` and `Exact`.
-/
set_option linter.unusedSectionVars false
set_option linter.unusedVariables false
namespace XrsVerif.Viewshed

variable {α : Type} [LinearOrder α]

@[simp] theorem recomp_eq (S : α) (l : Tree α) (n : Node α) (r : Tree α) :
    recomp S l n r = max (max (mxOf S l) (mxOf S r)) (minv n) := by simp [recomp]

/-! ### rotations -/

theorem rotL_toList (S : α) (t : Tree α) : (rotL S t).toList = t.toList := by
  unfold rotL
  split <;> simp [Tree.toList, List.append_assoc]

theorem rotR_toList (S : α) (t : Tree α) : (rotR S t).toList = t.toList := by
  unfold rotR
  split <;> simp [Tree.toList, List.append_assoc]

theorem rotL_BST (S : α) {t : Tree α} (h : BST t) : BST (rotL S t) := by
  unfold rotL
  split
  · obtain ⟨hxl, hxr, hbxl, hyl, hyr, hbyl, hbyr⟩ := h
    simp only [Tree.toList, List.mem_append, List.mem_cons] at hxr
    refine ⟨?_, hyr, ⟨hxl, fun b hb => hxr b (Or.inl hb), hbxl, hbyl⟩, hbyr⟩
    intro a ha
    simp only [Tree.toList, List.mem_append, List.mem_cons] at ha
    rcases ha with ha | rfl | ha
    · exact lt_trans (hxl a ha) (hxr _ (Or.inr (Or.inl rfl)))
    · exact hxr _ (Or.inr (Or.inl rfl))
    · exact hyl a ha
  · exact h

theorem rotR_BST (S : α) {t : Tree α} (h : BST t) : BST (rotR S t) := by
  unfold rotR
  split
  · obtain ⟨hyl, hyr, ⟨hxl, hxr, hbxl, hbxr⟩, hbyr⟩ := h
    simp only [Tree.toList, List.mem_append, List.mem_cons] at hyl
    refine ⟨hxl, ?_, hbxl, fun a ha => hyl a (Or.inr (Or.inr ha)), hyr, hbxr, hbyr⟩
    intro b hb
    simp only [Tree.toList, List.mem_append, List.mem_cons] at hb
    rcases hb with hb | rfl | hb
    · exact hxr b hb
    · exact hyl _ (Or.inr (Or.inl rfl))
    · exact lt_trans (hyl _ (Or.inr (Or.inl rfl))) (hyr b hb)
  · exact h

theorem rotL_AugLe (S : α) {t : Tree α} (h : AugLe S t) : AugLe S (rotL S t) := by
  unfold rotL
  split
  · obtain ⟨_, hxl, _, hyl, hyr⟩ := h
    have h1 := hxl.mxOf_le
    have h2 := hyl.mxOf_le
    have h3 := hyr.mxOf_le
    simp only [AugLe, trueMax_node, recomp_eq, recompM_eq]
    refine ⟨?_, ⟨?_, hxl, hyl⟩, hyr⟩ <;> order
  · exact h

theorem rotR_AugLe (S : α) {t : Tree α} (h : AugLe S t) : AugLe S (rotR S t) := by
  unfold rotR
  split
  · obtain ⟨_, ⟨_, hxl, hxr⟩, hyr⟩ := h
    have h1 := hxl.mxOf_le
    have h2 := hxr.mxOf_le
    have h3 := hyr.mxOf_le
    simp only [AugLe, trueMax_node, recomp_eq, recompM_eq]
    refine ⟨?_, hxl, ?_, hxr, hyr⟩ <;> order
  · exact h

theorem rotL_Exact (S : α) {t : Tree α} (h : Exact S t) : Exact S (rotL S t) := by
  unfold rotL
  split
  · obtain ⟨_, hxl, _, hyl, hyr⟩ := h
    have h1 := hxl.mxOf_eq
    have h2 := hyl.mxOf_eq
    have h3 := hyr.mxOf_eq
    simp only [Exact, trueMax_node, recomp_eq, recompM_eq]
    refine ⟨?_, ⟨?_, hxl, hyl⟩, hyr⟩ <;> order
  · exact h

theorem rotR_Exact (S : α) {t : Tree α} (h : Exact S t) : Exact S (rotR S t) := by
  unfold rotR
  split
  · obtain ⟨_, ⟨_, hxl, hxr⟩, hyr⟩ := h
    have h1 := hxl.mxOf_eq
    have h2 := hxr.mxOf_eq
    have h3 := hyr.mxOf_eq
    simp only [Exact, trueMax_node, recomp_eq, recompM_eq]
    refine ⟨?_, hxl, ?_, hxr, hyr⟩ <;> order
  · exact h

theorem rotL_AugLeQ (S : α) {t : Tree α} (h : AugLeQ S t) : AugLeQ S (rotL S t) := by
  unfold rotL
  split
  · obtain ⟨hxl, _, hyl, hyr⟩ := h
    have h1 := hxl.mxOf_le
    have h2 := hyl.mxOf_le
    simp only [AugLeQ, AugLe, trueMax_node, recomp_eq]
    refine ⟨⟨?_, hxl, hyl⟩, hyr⟩; order
  · exact h

theorem rotR_AugLeQ (S : α) {t : Tree α} (h : AugLeQ S t) : AugLeQ S (rotR S t) := by
  unfold rotR
  split
  · obtain ⟨⟨_, hxl, hxr⟩, hyr⟩ := h
    have h2 := hxr.mxOf_le
    have h3 := hyr.mxOf_le
    simp only [AugLeQ, AugLe, trueMax_node, recomp_eq]
    refine ⟨hxl, ?_, hxr, hyr⟩; order
  · exact h

/-! ### an operation applied somewhere inside the tree -/

theorem atPath_toList {f : Tree α → Tree α} (hf : ∀ t, (f t).toList = t.toList) (p : List Dir) (t : Tree α) :
    (atPath f p t).toList = t.toList := by
  induction p generalizing t with
  | nil => exact hf t
  | cons d p ih =>
    cases t with
    | nil => rfl
    | node l n mx c r => cases d <;> simp [atPath, Tree.toList, ih]

theorem atPath_BST {f : Tree α → Tree α} (hf : ∀ t, (f t).toList = t.toList) (hb : ∀ t, BST t → BST (f t))
    (p : List Dir) {t : Tree α} (h : BST t) : BST (atPath f p t) := by
  induction p generalizing t with
  | nil => exact hb t h
  | cons d p ih =>
    cases t with
    | nil => exact h
    | node l n mx c r =>
      obtain ⟨hl, hr, hbl, hbr⟩ := h
      cases d
      · exact ⟨by rw [atPath_toList hf]; exact hl, hr, ih hbl, hbr⟩
      · exact ⟨hl, by rw [atPath_toList hf]; exact hr, hbl, ih hbr⟩

theorem trueMax_atPath (S : α) {f : Tree α → Tree α} (hf : ∀ t, (f t).toList = t.toList) (p : List Dir) (t : Tree α) :
    trueMax S (atPath f p t) = trueMax S t :=
  trueMax_congr S (fun n => by rw [atPath_toList hf])

theorem atPath_AugLe (S : α) {f : Tree α → Tree α} (hf : ∀ t, (f t).toList = t.toList)
    (ha : ∀ t, AugLe S t → AugLe S (f t)) (p : List Dir) {t : Tree α} (h : AugLe S t) : AugLe S (atPath f p t) := by
  induction p generalizing t with
  | nil => exact ha t h
  | cons d p ih =>
    cases t with
    | nil => exact h
    | node l n mx c r =>
      obtain ⟨hm, hl, hr⟩ := h
      cases d
      · refine ⟨?_, ih hl, hr⟩
        rw [trueMax_node] at hm ⊢
        rw [trueMax_atPath S hf]; exact hm
      · refine ⟨?_, hl, ih hr⟩
        rw [trueMax_node] at hm ⊢
        rw [trueMax_atPath S hf]; exact hm

theorem atPath_AugLeQ (S : α) {f : Tree α → Tree α} (hf : ∀ t, (f t).toList = t.toList)
    (ha : ∀ t, AugLe S t → AugLe S (f t)) (hq : ∀ t, AugLeQ S t → AugLeQ S (f t)) (p : List Dir) {t : Tree α}
    (h : AugLeQ S t) : AugLeQ S (atPath f p t) := by
  cases p with
  | nil => exact hq t h
  | cons d p =>
    cases t with
    | nil => exact h
    | node l n mx c r =>
      cases d
      · exact ⟨atPath_AugLe S hf ha p h.1, h.2⟩
      · exact ⟨h.1, atPath_AugLe S hf ha p h.2⟩

theorem atPath_Exact (S : α) {f : Tree α → Tree α} (hf : ∀ t, (f t).toList = t.toList)
    (ha : ∀ t, Exact S t → Exact S (f t)) (p : List Dir) {t : Tree α} (h : Exact S t) : Exact S (atPath f p t) := by
  induction p generalizing t with
  | nil => exact ha t h
  | cons d p ih =>
    cases t with
    | nil => exact h
    | node l n mx c r =>
      obtain ⟨hm, hl, hr⟩ := h
      cases d
      · refine ⟨?_, ih hl, hr⟩
        rw [trueMax_node] at hm ⊢
        rw [trueMax_atPath S hf]; exact hm
      · refine ⟨?_, hl, ih hr⟩
        rw [trueMax_node] at hm ⊢
        rw [trueMax_atPath S hf]; exact hm

/-! ### recolouring changes nothing the query or the invariants look at -/

theorem recolour_toList (f : List Dir → Bool → Bool) (p : List Dir) (t : Tree α) :
    (recolour f p t).toList = t.toList := by
  induction t generalizing p with
  | nil => rfl
  | node l n mx c r ihl ihr => simp [recolour, Tree.toList, ihl, ihr]

theorem recolour_mxOf (S : α) (f : List Dir → Bool → Bool) (p : List Dir) (t : Tree α) :
    mxOf S (recolour f p t) = mxOf S t := by
  cases t <;> rfl

theorem recolour_trueMax (S : α) (f : List Dir → Bool → Bool) (p : List Dir) (t : Tree α) :
    trueMax S (recolour f p t) = trueMax S t :=
  trueMax_congr S (fun n => by rw [recolour_toList])

theorem recolour_BST (f : List Dir → Bool → Bool) (p : List Dir) {t : Tree α} (h : BST t) : BST (recolour f p t) := by
  induction t generalizing p with
  | nil => exact h
  | node l n mx c r ihl ihr =>
    obtain ⟨hl, hr, hbl, hbr⟩ := h
    exact ⟨by rw [recolour_toList]; exact hl, by rw [recolour_toList]; exact hr, ihl _ hbl, ihr _ hbr⟩

theorem recolour_AugLe (S : α) (f : List Dir → Bool → Bool) (p : List Dir) {t : Tree α} (h : AugLe S t) :
    AugLe S (recolour f p t) := by
  induction t generalizing p with
  | nil => exact h
  | node l n mx c r ihl ihr =>
    obtain ⟨hm, hl, hr⟩ := h
    refine ⟨?_, ihl _ hl, ihr _ hr⟩
    rw [trueMax_node] at hm ⊢
    rw [recolour_trueMax, recolour_trueMax]; exact hm

theorem recolour_AugLeQ (S : α) (f : List Dir → Bool → Bool) (p : List Dir) {t : Tree α} (h : AugLeQ S t) :
    AugLeQ S (recolour f p t) := by
  cases t with
  | nil => exact h
  | node l n mx c r => exact ⟨recolour_AugLe S f _ h.1, recolour_AugLe S f _ h.2⟩

theorem recolour_Exact (S : α) (f : List Dir → Bool → Bool) (p : List Dir) {t : Tree α} (h : Exact S t) :
    Exact S (recolour f p t) := by
  induction t generalizing p with
  | nil => exact h
  | node l n mx c r ihl ihr =>
    obtain ⟨hm, hl, hr⟩ := h
    refine ⟨?_, ihl _ hl, ihr _ hr⟩
    rw [trueMax_node] at hm ⊢
    rw [recolour_trueMax, recolour_trueMax]; exact hm

theorem recolour_short (S : α) (f : List Dir → Bool → Bool) (p : List Dir) (t : Tree α) (K : α) :
    short S (recolour f p t) K = short S t K := by
  induction t generalizing p with
  | nil => rfl
  | node l n mx c r ihl ihr =>
    simp only [recolour, short, ihl, ihr, recolour_mxOf]

theorem recolour_contains (f : List Dir → Bool → Bool) (p : List Dir) (t : Tree α) (K : α) :
    (recolour f p t).contains K = t.contains K := by
  induction t generalizing p with
  | nil => rfl
  | node l n mx c r ihl ihr =>
    simp only [recolour, Tree.contains, ihl, ihr]

/-! ### the leaf insertion with its upward propagation -/

theorem insCore_toList (nn : Node α) (t : Tree α) :
    ∀ n, n ∈ (insCore nn t).1.toList ↔ n = nn ∨ n ∈ t.toList := by
  induction t with
  | nil => intro n; simp [insCore, Tree.toList]
  | node l m mx c r ihl ihr =>
    intro n
    simp only [insCore]
    split
    · split <;> (simp only [Tree.toList, List.mem_append, List.mem_cons, ihl]; tauto)
    · split <;> (simp only [Tree.toList, List.mem_append, List.mem_cons, ihr]; tauto)

theorem insCore_BST (nn : Node α) {t : Tree α} (h : BST t) (hk : ∀ n ∈ t.toList, n.key ≠ nn.key) :
    BST (insCore nn t).1 := by
  induction t with
  | nil => simp [insCore, BST, Tree.toList]
  | node l m mx c r ihl ihr =>
    obtain ⟨hl, hr, hbl, hbr⟩ := h
    have hkl : ∀ n ∈ l.toList, n.key ≠ nn.key := fun n hn => hk n (by simp [Tree.toList, hn])
    have hkr : ∀ n ∈ r.toList, n.key ≠ nn.key := fun n hn => hk n (by simp [Tree.toList, hn])
    have hkm : m.key ≠ nn.key := hk m (by simp [Tree.toList])
    simp only [insCore]
    split
    · rename_i hlt
      have key : ∀ a ∈ (insCore nn l).1.toList, a.key < m.key := fun a ha => by
        rcases (insCore_toList nn l a).mp ha with rfl | ha
        · exact hlt
        · exact hl a ha
      split <;> exact ⟨key, hr, ihl hbl hkl, hbr⟩
    · rename_i hnl
      have hgt : m.key < nn.key := lt_of_le_of_ne (not_lt.mp hnl) hkm
      have key : ∀ b ∈ (insCore nn r).1.toList, m.key < b.key := fun b hb => by
        rcases (insCore_toList nn r b).mp hb with rfl | hb
        · exact hgt
        · exact hr b hb
      split <;> exact ⟨hl, key, hbl, ihr hbr hkr⟩

theorem trueMax_insCore (S : α) (nn : Node α) (t : Tree α) :
    trueMax S (insCore nn t).1 = max (trueMax S t) (minv nn) := by
  apply le_antisymm
  · rw [trueMax_le_iff]
    refine ⟨le_trans (S_le_trueMax S t) (le_max_left _ _), fun n hn => ?_⟩
    rcases (insCore_toList nn t n).mp hn with rfl | hn
    · exact le_max_right _ _
    · exact le_trans (minv_le_trueMax S t hn) (le_max_left _ _)
  · apply max_le
    · rw [trueMax_le_iff]
      exact ⟨S_le_trueMax S _, fun n hn => minv_le_trueMax S _ ((insCore_toList nn t n).mpr (Or.inr hn))⟩
    · exact minv_le_trueMax S _ ((insCore_toList nn t nn).mpr (Or.inl rfl))

/-- the upward propagation never overestimates -/
theorem insCore_AugLe (S : α) (nn : Node α) {t : Tree α} (h : AugLe S t) : AugLe S (insCore nn t).1 := by
  induction t with
  | nil =>
    refine ⟨?_, trivial, trivial⟩
    exact minv_le_trueMax S (Tree.node .nil nn (minv nn) true .nil) (by simp [Tree.toList])
  | node l m mx c r ihl ihr =>
    obtain ⟨hm, hl, hr⟩ := h
    rw [trueMax_node] at hm
    simp only [insCore]
    split
    · have ht := trueMax_insCore S nn l
      split
      · refine ⟨?_, ihl hl, hr⟩
        rw [trueMax_node, ht]
        split <;> order
      · refine ⟨?_, ihl hl, hr⟩
        rw [trueMax_node, ht]; order
    · have ht := trueMax_insCore S nn r
      split
      · refine ⟨?_, hl, ihr hr⟩
        rw [trueMax_node, ht]
        split <;> order
      · refine ⟨?_, hl, ihr hr⟩
        rw [trueMax_node, ht]; order

theorem insCore_AugLeQ (S : α) (nn : Node α) {t : Tree α} (h : AugLeQ S t) : AugLeQ S (insCore nn t).1 := by
  cases t with
  | nil => exact ⟨trivial, trivial⟩
  | node l m mx c r =>
    simp only [insCore]
    split
    · split <;> exact ⟨insCore_AugLe S nn h.1, h.2⟩
    · split <;> exact ⟨h.1, insCore_AugLe S nn h.2⟩

/-- while the propagation is still running the subtree's stored maximum is exactly the new node's
    minimum gradient -/
theorem insCore_Exact_aux (S : α) (nn : Node α) {t : Tree α} (h : Exact S t) (hS : S ≤ minv nn) :
    Exact S (insCore nn t).1 ∧
      ((insCore nn t).2 = true → trueMax S (insCore nn t).1 = minv nn) ∧
      ((insCore nn t).2 = false → trueMax S (insCore nn t).1 = trueMax S t) := by
  induction t with
  | nil =>
    have e : trueMax S (Tree.node .nil nn (minv nn) true .nil) = minv nn := by
      rw [trueMax_node]; simp only [trueMax]; order
    exact ⟨⟨e.symm, trivial, trivial⟩, fun _ => e, fun h => by simp [insCore] at h⟩
  | node l m mx c r ihl ihr =>
    obtain ⟨hm, hl, hr⟩ := h
    rw [trueMax_node] at hm
    simp only [insCore]
    split
    · obtain ⟨he, h1, h2⟩ := ihl hl
      have ht := trueMax_insCore S nn l
      split
      · rename_i hp
        have h1' := h1 hp
        refine ⟨⟨?_, he, hr⟩, ?_, ?_⟩
        · rw [trueMax_node, ht]; split <;> order
        · intro hc
          simp only [Bool.not_eq_eq_eq_not, Bool.not_true, decide_eq_false_iff_not, not_lt] at hc
          rw [trueMax_node, ht]
          split at hc <;> order
        · intro hc
          simp only [Bool.not_eq_eq_eq_not, Bool.not_false, decide_eq_true_eq] at hc
          rw [trueMax_node, trueMax_node, ht]
          split at hc <;> order
      · rename_i hp
        have h2' := h2 (by simpa using hp)
        refine ⟨⟨?_, he, hr⟩, fun hc => by simp at hc, fun _ => ?_⟩
        · rw [trueMax_node, h2']; exact hm
        · rw [trueMax_node, trueMax_node, h2']
    · obtain ⟨he, h1, h2⟩ := ihr hr
      have ht := trueMax_insCore S nn r
      split
      · rename_i hp
        have h1' := h1 hp
        refine ⟨⟨?_, hl, he⟩, ?_, ?_⟩
        · rw [trueMax_node, ht]; split <;> order
        · intro hc
          simp only [Bool.not_eq_eq_eq_not, Bool.not_true, decide_eq_false_iff_not, not_lt] at hc
          rw [trueMax_node, ht]
          split at hc <;> order
        · intro hc
          simp only [Bool.not_eq_eq_eq_not, Bool.not_false, decide_eq_true_eq] at hc
          rw [trueMax_node, trueMax_node, ht]
          split at hc <;> order
      · rename_i hp
        have h2' := h2 (by simpa using hp)
        refine ⟨⟨?_, hl, he⟩, fun hc => by simp at hc, fun _ => ?_⟩
        · rw [trueMax_node, h2']; exact hm
        · rw [trueMax_node, trueMax_node, h2']

end XrsVerif.Viewshed
