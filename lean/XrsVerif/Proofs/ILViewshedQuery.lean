import XrsVerif.Proofs.ILViewshedWalk
/-
  Proofs/ILViewshedQuery.lean -- refinement of `Gen.IL.vsQuery`, the translation of
  `_max_grad_in_status_struct` (with `_find_max_value_within_key`, `_search_for_node`, `_compare`,
  `_find_max_value`, `_find_value_min_value` inlined), to the hand model's two-phase `query`, for every `[Fl F]`.

  The program is cut into blocks (`qInner`, `p1Loop`, `p2Loop` = `p2Proc ; p2Move`); `vsQuery_body` ties them to
  the regenerated program by `rfl`.
    phase 1 (`p1Loop_spec`)   the walk from the key's node to the root = `shortCtx` along the context = `short`;
    phase 2 (`p2Loop_spec`)   the in-order predecessor walk by pointers (rightmost of the left subtree, else climb
                              while coming from a left child) with the early exit = the model's `walk` over the
                              predecessors, nearest first.
-/
set_option linter.unusedSectionVars false
set_option linter.unusedVariables false
set_option linter.unusedSimpArgs false
namespace XrsVerif.ILVs
open XrsVerif XrsVerif.IL XrsVerif.Viewshed
variable {F : Type} [Fl F]

/-! ### the blocks of the generated program (names abbreviated by local macros) -/

local macro "q__find_max_value5_ret0" : term => `("_find_max_value_within_key1$_find_max_value5$ret0")
local macro "q__find_max_value5_row_tree_vals" : term => `("_find_max_value_within_key1$_find_max_value5$row$tree_vals")
local macro "q__find_value_min_value6_node_id" : term => `("_find_max_value_within_key1$_find_value_min_value6$node_id")
local macro "q__find_value_min_value6_ret0" : term => `("_find_max_value_within_key1$_find_value_min_value6$ret0")
local macro "q__search_for_node2__compare3_a" : term => `("_find_max_value_within_key1$_search_for_node2$_compare3$a")
local macro "q__search_for_node2__compare3_b" : term => `("_find_max_value_within_key1$_search_for_node2$_compare3$b")
local macro "q__search_for_node2__compare3_ret0" : term => `("_find_max_value_within_key1$_search_for_node2$_compare3$ret0")
local macro "q__search_for_node2__compare4_a" : term => `("_find_max_value_within_key1$_search_for_node2$_compare4$a")
local macro "q__search_for_node2__compare4_b" : term => `("_find_max_value_within_key1$_search_for_node2$_compare4$b")
local macro "q__search_for_node2__compare4_ret0" : term => `("_find_max_value_within_key1$_search_for_node2$_compare4$ret0")
local macro "q__search_for_node2_cur_node" : term => `("_find_max_value_within_key1$_search_for_node2$cur_node")
local macro "q__search_for_node2_key" : term => `("_find_max_value_within_key1$_search_for_node2$key")
local macro "q__search_for_node2_ret0" : term => `("_find_max_value_within_key1$_search_for_node2$ret0")
local macro "q__search_for_node2_root" : term => `("_find_max_value_within_key1$_search_for_node2$root")
local macro "q_ang" : term => `("_find_max_value_within_key1$ang")
local macro "q_check_me" : term => `("_find_max_value_within_key1$check_me")
local macro "q_cur_grad" : term => `("_find_max_value_within_key1$cur_grad")
local macro "q_cur_node" : term => `("_find_max_value_within_key1$cur_node")
local macro "q_cur_parent" : term => `("_find_max_value_within_key1$cur_parent")
local macro "q_cur_parent_left" : term => `("_find_max_value_within_key1$cur_parent_left")
local macro "q_gradient" : term => `("_find_max_value_within_key1$gradient")
local macro "q_key_node" : term => `("_find_max_value_within_key1$key_node")
local macro "q_last_node" : term => `("_find_max_value_within_key1$last_node")
local macro "q_max" : term => `("_find_max_value_within_key1$max")
local macro "q_max_key" : term => `("_find_max_value_within_key1$max_key")
local macro "q_min_value" : term => `("_find_max_value_within_key1$min_value")
local macro "q_ret0" : term => `("_find_max_value_within_key1$ret0")
local macro "q_root" : term => `("_find_max_value_within_key1$root")
local macro "q_tmp_max" : term => `("_find_max_value_within_key1$tmp_max")

/-- the names of the inlined `_search_for_node` -/
def qSearchNames : SearchNames :=
  ⟨q__search_for_node2_cur_node, q__search_for_node2_key, q__search_for_node2__compare3_a,
   q__search_for_node2__compare3_b, q__search_for_node2__compare3_ret0, q__search_for_node2__compare4_a,
   q__search_for_node2__compare4_b, q__search_for_node2__compare4_ret0⟩

def p2Span : St :=
  (.ite (.and (.cmpF .le (.ld2 "tree_vals" (.var q_cur_node) (.lit 4)) (.var q_ang)) (.cmpF .le (.var q_ang) (.ld2 "tree_vals" (.var q_cur_node) (.lit 6))))
    (.setB q_check_me .tt)
    .skip)

def p2Grad : St :=
  (.ite (.cmpF .lt (.var q_ang) (.ld2 "tree_vals" (.var q_cur_node) (.lit 5)))
    (.setF q_cur_grad (.bin .add (.ld2 "tree_vals" (.var q_cur_node) (.lit 2)) (.bin .div (.bin .mul (.bin .sub (.ld2 "tree_vals" (.var q_cur_node) (.lit 1)) (.ld2 "tree_vals" (.var q_cur_node) (.lit 2))) (.bin .sub (.ld2 "tree_vals" (.var q_cur_node) (.lit 5)) (.var q_ang))) (.bin .sub (.ld2 "tree_vals" (.var q_cur_node) (.lit 5)) (.ld2 "tree_vals" (.var q_cur_node) (.lit 4))))))
    (.ite (.cmpF .gt (.var q_ang) (.ld2 "tree_vals" (.var q_cur_node) (.lit 5)))
      (.setF q_cur_grad (.bin .add (.ld2 "tree_vals" (.var q_cur_node) (.lit 2)) (.bin .div (.bin .mul (.bin .sub (.ld2 "tree_vals" (.var q_cur_node) (.lit 3)) (.ld2 "tree_vals" (.var q_cur_node) (.lit 2))) (.bin .sub (.var q_ang) (.ld2 "tree_vals" (.var q_cur_node) (.lit 5)))) (.bin .sub (.ld2 "tree_vals" (.var q_cur_node) (.lit 6)) (.ld2 "tree_vals" (.var q_cur_node) (.lit 5))))))
      (.setF q_cur_grad (.ld2 "tree_vals" (.var q_cur_node) (.lit 2)))))

def p1Body : St :=
  (.seq (.setI q_cur_parent (.ld2 "tree_nodes" (.var q_cur_node) (.lit 3)))
  (.seq (.ite (.cmpI .eq (.var q_cur_node) (.ld2 "tree_nodes" (.var q_cur_parent) (.lit 2)))
      (.seq (.setI q_cur_parent_left (.ld2 "tree_nodes" (.var q_cur_parent) (.lit 1)))
      (.seq (.setI q__find_max_value5_row_tree_vals (.var q_cur_parent_left))
      (.seq (.scope (.seq (.setF q__find_max_value5_ret0 (.ld2 "tree_vals" (.var q__find_max_value5_row_tree_vals) (.lit 7)))
          .ret))
      (.seq (.setF q_tmp_max (.var q__find_max_value5_ret0))
      (.seq (maxUpd q_tmp_max q_max)
      (.seq (.setI q__find_value_min_value6_node_id (.var q_cur_parent))
      (.seq (minvScope q__find_value_min_value6_node_id q__find_value_min_value6_ret0)
      (.seq (.setF q_min_value (.var q__find_value_min_value6_ret0)) (maxUpd q_min_value q_max)))))))))
      .skip)
  (.setI q_cur_node (.var q_cur_parent))))

def p2Proc : St :=
  (.seq (.setB q_check_me .ff)
  (.seq p2Span
  (.seq (.ite (.and (.not (.var q_check_me)) (.cmpF .gt (.ld2 "tree_vals" (.var q_cur_node) (.lit 0)) (.ofInt (.lit 0))))
      .skip
      .skip)
  (.seq (.ite (.cmpF .gt (.ld2 "tree_vals" (.var q_cur_node) (.lit 0)) (.var q_max_key))
      (.fail "ValueError")
      .skip)
  (.ite (.and (.var q_check_me) (.cmpI .ne (.var q_cur_node) (.var q_key_node)))
    (.seq p2Grad
    (.seq (maxUpd q_cur_grad q_max)
    (.ite (.cmpF .gt (.var q_max) (.var q_gradient)) (.seq (.setF q_ret0 (.var q_max)) .ret) .skip)))
    .skip)))))

def p2Move : St :=
  (.ite (.cmpI .ne (.ld2 "tree_nodes" (.var q_cur_node) (.lit 1)) (.lit (-1)))
    (.seq (.setI q_cur_node (.ld2 "tree_nodes" (.var q_cur_node) (.lit 1))) (maxLoop q_cur_node))
    (.seq (.setI q_last_node (.var q_cur_node))
    (.seq (.setI q_cur_node (.ld2 "tree_nodes" (.var q_cur_node) (.lit 3)))
    (climbLoop q_cur_node q_last_node))))

def p2Body : St :=
  (.seq (.setB q_check_me .ff)
  (.seq p2Span
  (.seq (.ite (.and (.not (.var q_check_me)) (.cmpF .gt (.ld2 "tree_vals" (.var q_cur_node) (.lit 0)) (.ofInt (.lit 0))))
      .skip
      .skip)
  (.seq (.ite (.cmpF .gt (.ld2 "tree_vals" (.var q_cur_node) (.lit 0)) (.var q_max_key))
      (.fail "ValueError")
      .skip)
  (.seq (.ite (.and (.var q_check_me) (.cmpI .ne (.var q_cur_node) (.var q_key_node)))
      (.seq p2Grad
      (.seq (maxUpd q_cur_grad q_max)
      (.ite (.cmpF .gt (.var q_max) (.var q_gradient)) (.seq (.setF q_ret0 (.var q_max)) .ret) .skip)))
      .skip)
  p2Move)))))

def p1Loop : St := .while (.cmpI .ne (.ld2 "tree_nodes" (.var q_cur_node) (.lit 3)) (.lit (-1))) p1Body

def p2Loop : St := .while (.cmpI .ne (.var q_cur_node) (.lit (-1))) p2Body

def qSearch : St :=
  (.scope (.seq (.setI q__search_for_node2_cur_node (.var q__search_for_node2_root))
    (.seq (searchLoop qSearchNames)
    (.seq (.setI q__search_for_node2_ret0 (.var q__search_for_node2_cur_node)) .ret))))

def qPhase2 : St :=
  (.seq (.setF q_max (.lit (-10000000000000000000000) 1))
  (.seq (.setI q_cur_node (.var q_key_node)) (.seq p2Loop (.seq (.setF q_ret0 (.var q_max)) .ret))))

def qTail : St :=
  (.seq (.setI q_cur_node (.var q_key_node))
  (.seq (.setF q_max (.lit (-10000000000000000000000) 1))
  (.seq p1Loop
  (.seq (.ite (.cmpF .gt (.var q_max) (.var q_gradient)) (.seq (.setF q_ret0 (.var q_max)) .ret) .skip)
  qPhase2))))

def qInner : St :=
  (.seq (.setI q__search_for_node2_root (.var q_root))
  (.seq (.setF q__search_for_node2_key (.var q_max_key))
  (.seq qSearch
  (.seq (.setI q_key_node (.var q__search_for_node2_ret0))
  (.seq (.ite (.cmpI .eq (.var q_key_node) (.lit (-1)))
      (.seq (.setF q_ret0 (.lit (-10000000000000000000000) 1)) .ret)
      .skip)
  qTail)))))

theorem vsQuery_body : Gen.IL.vsQuery.body =
    (.seq (.ite (.cmpI .eq (.var "root") (.lit (-1)))
        (.seq (.setF "ret0" (.lit (-10000000000000000000000) 1)) .ret)
        .skip)
    (.seq (.setI q_root (.var "root"))
    (.seq (.setF q_max_key (.var "distance"))
    (.seq (.setF q_ang (.var "angle"))
    (.seq (.setF q_gradient (.var "gradient"))
    (.seq (.scope qInner) (.seq (.setF "ret0" (.var q_ret0)) .ret))))))) := rfl

/-! ### phase 1: from the key's node to the root -/

def p1iv : List String :=
  [q_cur_node, q_cur_parent, q_cur_parent_left, q__find_max_value5_row_tree_vals, q__find_value_min_value6_node_id]
def p1fv : List String :=
  [q_max, q_tmp_max, q_min_value, q__find_max_value5_ret0, q__find_value_min_value6_ret0]

/-- one frame of phase 1 -/
def shortStep (vals : List F) (n : Nat) (acc : Fv F) : Fr → Fv F
  | .L _ _ => acc
  | .R l i => mx2 (minv (nodeAt vals i)) (mx2 (mxAt vals n l.ptr) acc)

theorem p1Body_spec (n fuel : Nat) (s : State F) (hv : VS s n) (hrun : s.ctl = .run) (i : Nat) (fr : Fr) (rest : Ctx)
    (hc : CtxLinked (s.ia "tree_nodes") n (i : Int) (fr :: rest))
    (hpar : nAt (s.ia "tree_nodes") i 3 = ctxPar (fr :: rest)) (hi : i + 1 < n)
    (hcur : s.ienv q_cur_node = i) :
    let r := exec fuel p1Body s
    r.ctl = .run ∧ Frame p1iv p1fv [] s r ∧ r.ienv q_cur_node = fr.idx ∧
      r.fenv q_max = (shortStep (s.fa "tree_vals") n ⟨s.fenv q_max⟩ fr).v := by
  have eN := fun (s' : State F) => evalN s' n
  have oN := fun (s' : State F) => okN s' n
  have eV := fun (s' : State F) => evalV s' n
  have oV := fun (s' : State F) => okV s' n
  have hin : inRange (i : Int) n = true := inRange_ptr n _ (by omega) hv.pos
  cases fr with
  | L p pr =>
    obtain ⟨hp, hL, hR, hne, hP, hlr, hrest⟩ := hc
    simp only [ctxPar] at hpar
    have hinp : inRange (p : Int) n = true := inRange_ptr n _ (by omega) hv.pos
    have hne' : ¬ ((i : Int) = pr.ptr) := fun e => hne (by omega) e.symm
    intro r
    have hr : r = { s with ienv := setS (setS s.ienv q_cur_parent (p : Int)) q_cur_node (p : Int) } := by
      simp [r, p1Body, exec, eN, oN, hv.shpN, hcur, hin, hinp, hpar, hR, hne', BE.ok, BE.eval, IE.ok_var, IE.eval_var,
        cmpInt, setS, hrun]
    rw [hr]
    refine ⟨hrun, ?_, by simp [setS, Fr.idx], by simp [shortStep]⟩
    refine ⟨rfl, rfl, rfl, rfl, ?_, fun _ _ => rfl, fun _ _ => rfl⟩
    intro v hv'
    simp only [p1iv, List.mem_cons, List.not_mem_nil, or_false, not_or] at hv'
    simp [setS, hv']
  | R pl p =>
    obtain ⟨hp, hL, hR, hne, hP, hll, hrest⟩ := hc
    simp only [ctxPar] at hpar
    have hinp : inRange (p : Int) n = true := inRange_ptr n _ (by omega) hv.pos
    have hinl : inRange pl.ptr n = true := inRange_ptr n _ (hll.ptrOK hv.pos) hv.pos
    intro r
    have mS := fun (a b : String) (s' : State F) => minvScope_spec a b fuel n s'
    simp [r, p1Body, exec, mS, maxUpd_spec, eN, oN, eV, oV, hv.shpN, hv.shpV, hcur, hin, hinp, hinl, hpar, hR, hL, BE.ok, BE.eval,
      IE.ok_var, IE.eval_var, FE.ok_var, FE.eval_var, cmpInt, setS, hrun, CmpOp.eval]
    refine ⟨?_, by simp [Fr.idx], by simp [shortStep, mxAt]⟩
    refine ⟨rfl, rfl, rfl, rfl, ?_, ?_, fun _ _ => rfl⟩ <;> intro v hv' <;>
      simp only [p1iv, p1fv, List.mem_cons, List.not_mem_nil, or_false, not_or] at hv' <;> simp [setS, hv']

theorem shortCtx_cons (vals : List F) (n : Nat) (acc : Fv F) (fr : Fr) (rest : Ctx) :
    shortCtx vals n acc (fr :: rest) = shortCtx vals n (shortStep vals n acc fr) rest := by
  cases fr <;> rfl

theorem p1Loop_spec (n : Nat) : ∀ (ctx : Ctx) (i : Nat) (fuel : Nat) (s : State F), VS s n → s.ctl = .run →
    CtxLinked (s.ia "tree_nodes") n (i : Int) ctx → nAt (s.ia "tree_nodes") i 3 = ctxPar ctx → i + 1 < n →
    s.ienv q_cur_node = i → ctx.length < fuel →
    let r := exec fuel p1Loop s
    r.ctl = .run ∧ Frame p1iv p1fv [] s r ∧
      r.fenv q_max = (shortCtx (s.fa "tree_vals") n ⟨s.fenv q_max⟩ ctx).v := by
  intro ctx
  induction ctx with
  | nil =>
    intro i fuel s hv hrun hc hpar hi hcur hf
    obtain ⟨fuel, rfl⟩ : ∃ f, fuel = f + 1 := ⟨fuel - 1, by omega⟩
    have hin : inRange (i : Int) n = true := inRange_ptr n _ (by omega) hv.pos
    intro r
    have hr : r = s := by
      simp only [r, p1Loop]
      rw [exec_while_exit]
      · simp [BE.ok, okN s n hv.shpN, hcur, hin, IE.ok_lit]
      · simp [BE.eval, evalN s n hv.shpN, hcur, hpar, ctxPar, cmpInt, IE.eval_lit]
    rw [hr]
    exact ⟨hrun, Frame.refl _ _ _ _, rfl⟩
  | cons fr rest ih =>
    intro i fuel s hv hrun hc hpar hi hcur hf
    obtain ⟨fuel, rfl⟩ : ∃ f, fuel = f + 1 := ⟨fuel - 1, by omega⟩
    have hin : inRange (i : Int) n = true := inRange_ptr n _ (by omega) hv.pos
    obtain ⟨hb1, hb2, hb3, hb4⟩ := p1Body_spec n fuel s hv hrun i fr rest hc hpar hi hcur
    obtain ⟨hs1, hs2, hs3⟩ := hc.step
    intro r
    have hr : r = exec fuel p1Loop (exec fuel p1Body s) := by
      simp only [r, p1Loop]
      rw [exec_while_step _ _ _ _ _ _ hb1]
      · simp [BE.ok, okN s n hv.shpN, hcur, hin, IE.ok_lit]
      · simp [BE.eval, evalN s n hv.shpN, hcur, hpar, ctxPar_cons, cmpInt, IE.eval_lit]
    have := ih fr.idx fuel (exec fuel p1Body s) (hb2.vs hv) hb1 (by rw [hb2.ia]; exact hs3)
      (by rw [hb2.ia]; exact hs2) hs1 hb3 (by simp only [List.length_cons] at hf; omega)
    rw [hr]
    refine ⟨this.1, hb2.trans this.2.1, ?_⟩
    rw [this.2.2, hb2.fa, hb4, shortCtx_cons]

/-! ### phase 2 -/

theorem p2Move_spec (n fuel : Nat) (s : State F) (hv : VS s n) (hrun : s.ctl = .run) (l : Sh) (j : Nat) (r : Sh) (ctx : Ctx)
    (hl : Linked (s.ia "tree_nodes") n (ctxPar ctx) (.node l j r)) (hc : CtxLinked (s.ia "tree_nodes") n (j : Int) ctx)
    (hcur : s.ienv q_cur_node = j) (hf : l.height + ctx.length + 1 < fuel) :
    let q := exec fuel p2Move s
    q.ctl = .run ∧ Frame [q_cur_node, q_last_node] [] [] s q ∧ q.ienv q_cur_node = predPtr l ctx := by
  obtain ⟨hj, hL, hR, hP, hlL, hlR⟩ := hl
  have hin : inRange (j : Int) n = true := inRange_ptr n _ (by omega) hv.pos
  intro q
  cases l with
  | nil =>
    simp only [Sh.ptr] at hL
    have h1 : exec fuel (.seq (.setI q_last_node (.var q_cur_node))
        (.setI q_cur_node (.ld2 "tree_nodes" (.var q_cur_node) (.lit 3)))) s =
        { s with ienv := setS (setS s.ienv q_last_node (j : Int)) q_cur_node (ctxPar ctx) } := by
      simp [exec, IE.ok_var, IE.eval_var, okN _ n, evalN _ n, hv.shpN, hcur, setS, hin, hP, hrun]
    have hcl := climbLoop_spec q_cur_node q_last_node (by decide) n ctx j fuel
      { s with ienv := setS (setS s.ienv q_last_node (j : Int)) q_cur_node (ctxPar ctx) } (hv.of_eq rfl rfl rfl) hrun hc
      (by simp [setS]) (by simp [setS]) (by omega)
    have hq : q = exec fuel (climbLoop q_cur_node q_last_node)
        { s with ienv := setS (setS s.ienv q_last_node (j : Int)) q_cur_node (ctxPar ctx) } := by
      simp only [q, p2Move]
      rw [exec_ite_false, exec_seq_assoc, exec_seq, h1]
      · simp [hrun]
      · simp [BE.ok, okN s n hv.shpN, hcur, hin, IE.ok_lit]
      · simp [BE.eval, evalN s n hv.shpN, hcur, hL, cmpInt, IE.eval_lit]
    rw [hq]
    refine ⟨hcl.1, Frame.trans ?_ hcl.2.1, by simpa [predPtr] using hcl.2.2⟩
    refine ⟨rfl, rfl, rfl, rfl, ?_, fun _ _ => rfl, fun _ _ => rfl⟩
    intro v hv'
    simp only [List.mem_cons, List.not_mem_nil, or_false, not_or] at hv'
    simp [setS, hv']
  | node ll m lr =>
    simp only [Sh.ptr] at hL
    have h1 : exec fuel (.setI q_cur_node (.ld2 "tree_nodes" (.var q_cur_node) (.lit 1))) s =
        { s with ienv := setS s.ienv q_cur_node (m : Int) } := by
      simp [exec, okN _ n, evalN _ n, hv.shpN, hcur, hin, hL]
    have hml := maxLoop_spec q_cur_node n lr m ll (j : Int) fuel { s with ienv := setS s.ienv q_cur_node (m : Int) }
      (hv.of_eq rfl rfl rfl) hrun hlL (by simp [setS])
      (by have := Sh.rheight_le lr; simp only [Sh.height] at hf; omega)
    have hq : q = { s with ienv := setS s.ienv q_cur_node (maxIdx lr m : Int) } := by
      simp only [q, p2Move]
      rw [exec_ite_true, exec_seq, h1]
      · simp only [hrun, if_true] at hml ⊢
        rw [hml]; simp [setS_setS_same]
      · simp [BE.ok, okN s n hv.shpN, hcur, hin, IE.ok_lit]
      · simp [BE.eval, evalN s n hv.shpN, hcur, hL, cmpInt, IE.eval_lit]
    rw [hq]
    refine ⟨hrun, ?_, by simp [predPtr]⟩
    refine ⟨rfl, rfl, rfl, rfl, ?_, fun _ _ => rfl, fun _ _ => rfl⟩
    intro v hv'
    simp only [List.mem_cons, List.not_mem_nil, or_false, not_or] at hv'
    simp [setS, hv']

theorem seq5_regroup (fuel : Nat) (a b c d e m : St) (s : State F) :
    exec fuel (.seq a (.seq b (.seq c (.seq d (.seq e m))))) s =
      exec fuel (.seq (.seq a (.seq b (.seq c (.seq d e)))) m) s := by
  have cg : ∀ (x y y' : St), (∀ s : State F, exec fuel y s = exec fuel y' s) →
      ∀ s : State F, exec fuel (.seq x y) s = exec fuel (.seq x y') s := by
    intro x y y' h s; simp only [exec_seq, h]
  have e3 : ∀ s : State F, exec fuel (.seq d (.seq e m)) s = exec fuel (.seq (.seq d e) m) s :=
    fun s => exec_seq_assoc fuel d e m s
  have e2 : ∀ s : State F, exec fuel (.seq c (.seq d (.seq e m))) s = exec fuel (.seq (.seq c (.seq d e)) m) s :=
    fun s => (cg c _ _ e3 s).trans (exec_seq_assoc fuel c _ m s)
  have e1 : ∀ s : State F, exec fuel (.seq b (.seq c (.seq d (.seq e m)))) s =
      exec fuel (.seq (.seq b (.seq c (.seq d e))) m) s :=
    fun s => (cg b _ _ e2 s).trans (exec_seq_assoc fuel b _ m s)
  exact (cg a _ _ e1 s).trans (exec_seq_assoc fuel a _ m s)

theorem p2Body_exec (fuel : Nat) (s : State F) : exec fuel p2Body s = exec fuel (.seq p2Proc p2Move) s := by
  unfold p2Body p2Proc
  exact seq5_regroup fuel _ _ _ _ _ _ s

/-- `check_me` becomes true when the node spans the bearing -/
theorem p2Span_spec (fuel n : Nat) (s : State F) (hs : s.shp "tree_vals" = [n, 8])
    (hin : inRange (s.ienv q_cur_node) n = true) :
    exec fuel p2Span s = { s with benv := (setS s.benv q_check_me
      (s.benv q_check_me || spans (nodeAt (s.fa "tree_vals") (rowOf n (s.ienv q_cur_node))) (⟨s.fenv q_ang⟩ : Fv F))) } := by
  have e4 := evalV s n hs q_cur_node 4 (by decide)
  have e6 := evalV s n hs q_cur_node 6 (by decide)
  have o4 := okV s n hs q_cur_node 4 (by decide)
  have o6 := okV s n hs q_cur_node 6 (by decide)
  simp only [show Int.toNat 4 = 4 from rfl, show Int.toNat 6 = 6 from rfl] at e4 e6
  have hsp : spans (nodeAt (s.fa "tree_vals") (rowOf n (s.ienv q_cur_node))) (⟨s.fenv q_ang⟩ : Fv F) =
      (Fl.le (vAt (s.fa "tree_vals") (rowOf n (s.ienv q_cur_node)) 4).v (s.fenv q_ang) &&
        Fl.le (s.fenv q_ang) (vAt (s.fa "tree_vals") (rowOf n (s.ienv q_cur_node)) 6).v) := by
    rw [spans_fl]; rfl
  rw [hsp]
  by_cases h1 : Fl.le (vAt (s.fa "tree_vals") (rowOf n (s.ienv q_cur_node)) 4).v (s.fenv q_ang) = true
  · by_cases h2 : Fl.le (s.fenv q_ang) (vAt (s.fa "tree_vals") (rowOf n (s.ienv q_cur_node)) 6).v = true
    · simp [p2Span, exec, BE.ok, BE.eval, FE.ok_var, FE.eval_var, CmpOp.eval, e4, e6, o4, o6, hin, h1, h2]
    · simp [p2Span, exec, BE.ok, BE.eval, FE.ok_var, FE.eval_var, CmpOp.eval, e4, e6, o4, o6, hin, h1, h2, setS_self]
  · simp [p2Span, exec, BE.ok, BE.eval, FE.ok_var, FE.eval_var, CmpOp.eval, e4, e6, o4, o6, hin, h1, setS_self]

/-- `cur_grad` becomes the node's interpolated gradient at the bearing -/
theorem p2Grad_spec (fuel n : Nat) (s : State F) (hs : s.shp "tree_vals" = [n, 8])
    (hin : inRange (s.ienv q_cur_node) n = true) :
    exec fuel p2Grad s = { s with fenv := (setS s.fenv q_cur_grad
      (itp (nodeAt (s.fa "tree_vals") (rowOf n (s.ienv q_cur_node))) (⟨s.fenv q_ang⟩ : Fv F)).v) } := by
  have e1 := evalV s n hs q_cur_node 1 (by decide)
  have e2 := evalV s n hs q_cur_node 2 (by decide)
  have e3 := evalV s n hs q_cur_node 3 (by decide)
  have e4 := evalV s n hs q_cur_node 4 (by decide)
  have e5 := evalV s n hs q_cur_node 5 (by decide)
  have e6 := evalV s n hs q_cur_node 6 (by decide)
  have o1 := okV s n hs q_cur_node 1 (by decide)
  have o2 := okV s n hs q_cur_node 2 (by decide)
  have o3 := okV s n hs q_cur_node 3 (by decide)
  have o4 := okV s n hs q_cur_node 4 (by decide)
  have o5 := okV s n hs q_cur_node 5 (by decide)
  have o6 := okV s n hs q_cur_node 6 (by decide)
  simp only [show Int.toNat 1 = 1 from rfl, show Int.toNat 2 = 2 from rfl, show Int.toNat 3 = 3 from rfl,
    show Int.toNat 4 = 4 from rfl, show Int.toNat 5 = 5 from rfl, show Int.toNat 6 = 6 from rfl] at e1 e2 e3 e4 e5 e6
  rw [itp_v]
  simp only [nodeAt_a0, nodeAt_a1, nodeAt_a2, nodeAt_g0, nodeAt_g1, nodeAt_g2]
  by_cases h1 : Fl.lt (s.fenv q_ang) (vAt (s.fa "tree_vals") (rowOf n (s.ienv q_cur_node)) 5).v = true
  · simp [p2Grad, exec, BE.ok, BE.eval, FE.ok_var, FE.eval_var, FE.ok_bin, FE.eval_bin, BinOp.eval, CmpOp.eval,
      e1, e2, e3, e4, e5, e6, o1, o2, o3, o4, o5, o6, hin, h1]
  · by_cases h2 : Fl.lt (vAt (s.fa "tree_vals") (rowOf n (s.ienv q_cur_node)) 5).v (s.fenv q_ang) = true
    · simp [p2Grad, exec, BE.ok, BE.eval, FE.ok_var, FE.eval_var, FE.ok_bin, FE.eval_bin, BinOp.eval, CmpOp.eval,
        e1, e2, e3, e4, e5, e6, o1, o2, o3, o4, o5, o6, hin, h1, h2]
    · simp [p2Grad, exec, BE.ok, BE.eval, FE.ok_var, FE.eval_var, FE.ok_bin, FE.eval_bin, BinOp.eval, CmpOp.eval,
        e1, e2, e3, e4, e5, e6, o1, o2, o3, o4, o5, o6, hin, h1, h2]

def p2fv : List String := [q_cur_grad, q_max, q_ret0]

/-- the processing half of one iteration of phase 2 at row `j`: one step of the model's `walk` (none at the key's own
    node), leaving through `return` when the early exit fires -/
theorem p2Proc_spec (n fuel : Nat) (s : State F) (hv : VS s n) (hrun : s.ctl = .run) (j : Nat) (hj : j + 1 < n)
    (hcur : s.ienv q_cur_node = j) (hnf : Fl.lt (s.fenv q_max_key) (vAt (s.fa "tree_vals") j 0).v = false) :
    let ang : Fv F := ⟨s.fenv q_ang⟩
    let w := walkE ang ⟨s.fenv q_gradient⟩ (fun m => itp m ang)
      (if (j : Int) = s.ienv q_key_node then [] else [nodeAt (s.fa "tree_vals") j]) ⟨s.fenv q_max⟩
    let q := exec fuel p2Proc s
    Frame [] p2fv [q_check_me] s q ∧
      (w.2 = true → q.ctl = .ret ∧ q.fenv q_ret0 = w.1.v) ∧ (w.2 = false → q.ctl = .run ∧ q.fenv q_max = w.1.v) := by
  have eV := fun (s' : State F) => evalV s' n
  have oV := fun (s' : State F) => okV s' n
  have sS := fun (s' : State F) => p2Span_spec fuel n s'
  have gS := fun (s' : State F) => p2Grad_spec fuel n s'
  have hin : inRange (j : Int) n = true := inRange_ptr n _ (by omega) hv.pos
  intro ang w q
  have hfr : ∀ (q' : State F), q'.ia = s.ia → q'.fa = s.fa → q'.shp = s.shp → q'.ext = s.ext → q'.ienv = s.ienv →
      (∀ v, v ∉ p2fv → q'.fenv v = s.fenv v) → (∀ v, v ∉ [q_check_me] → q'.benv v = s.benv v) →
      Frame [] p2fv [q_check_me] s q' :=
    fun q' a b c d e f g => ⟨a, b, c, d, fun _ _ => by rw [e], f, g⟩
  by_cases hb : spans (nodeAt (s.fa "tree_vals") j) ang = true
  · by_cases hk : (j : Int) = s.ienv q_key_node
    · have hw : w = (⟨s.fenv q_max⟩, false) := by simp [w, hk, walkE]
      have hq : q = { s with benv := setS s.benv q_check_me true } := by
        simp [q, p2Proc, exec, sS, hv.shpV, hcur, hin, hb, ang, BE.ok, BE.eval, FE.ok_var, FE.eval_var, FE.ok_ofInt,
          IE.ok_lit, IE.ok_var, IE.eval_var, eV, oV, CmpOp.eval, hnf, cmpInt, setS, hk.symm, hrun, setS_setS_same]
      rw [hw, hq]
      refine ⟨?_, by simp, by simp [hrun]⟩
      apply hfr <;> try rfl
      · intro v _; rfl
      · intro v hv'; simp only [List.mem_cons, List.not_mem_nil, or_false] at hv'; simp [setS, hv']
    · have hk' : ¬ (s.ienv q_key_node = (j : Int)) := fun e => hk e.symm
      by_cases hx : Fl.lt (s.fenv q_gradient)
          (mx2 (itp (nodeAt (s.fa "tree_vals") j) ang) (⟨s.fenv q_max⟩ : Fv F)).v = true
      · have hw : w = (mx2 (itp (nodeAt (s.fa "tree_vals") j) ang) ⟨s.fenv q_max⟩, true) := by
          simp only [w, hk, if_false, walkE, hb, if_true]
          rw [if_pos (show (⟨s.fenv q_gradient⟩ : Fv F) < _ from hx)]
        simp [q, p2Proc, exec, sS, gS, maxUpd_spec, hv.shpV, hcur, hin, hb, ang, BE.ok, BE.eval, FE.ok_var, FE.eval_var,
          FE.ok_ofInt, IE.ok_lit, IE.ok_var, IE.eval_var, eV, oV, CmpOp.eval, hnf, cmpInt, setS, hk, hk', hrun,
          setS_setS_same, hx]
        rw [hw]
        refine ⟨?_, by simp [ang], by simp [ang]⟩
        apply hfr <;> try rfl
        · intro v hv'; simp only [p2fv, List.mem_cons, List.not_mem_nil, or_false, not_or] at hv'; simp [setS, hv']
        · intro v hv'; simp only [List.mem_cons, List.not_mem_nil, or_false] at hv'; simp [setS, hv']
      · have hw : w = (mx2 (itp (nodeAt (s.fa "tree_vals") j) ang) ⟨s.fenv q_max⟩, false) := by
          simp only [w, hk, if_false, walkE, hb, if_true]
          rw [if_neg (show ¬ (⟨s.fenv q_gradient⟩ : Fv F) < _ from hx)]
        simp [q, p2Proc, exec, sS, gS, maxUpd_spec, hv.shpV, hcur, hin, hb, ang, BE.ok, BE.eval, FE.ok_var, FE.eval_var,
          FE.ok_ofInt, IE.ok_lit, IE.ok_var, IE.eval_var, eV, oV, CmpOp.eval, hnf, cmpInt, setS, hk, hk', hrun,
          setS_setS_same, hx]
        rw [hw]
        refine ⟨?_, by simp [ang], by simp [ang]⟩
        apply hfr <;> try rfl
        · intro v hv'; simp only [p2fv, List.mem_cons, List.not_mem_nil, or_false, not_or] at hv'; simp [setS, hv']
        · intro v hv'; simp only [List.mem_cons, List.not_mem_nil, or_false] at hv'; simp [setS, hv']
  · have hb' : spans (nodeAt (s.fa "tree_vals") j) ang = false := by simpa using hb
    have hw : w = (⟨s.fenv q_max⟩, false) := by
      simp only [w]; split <;> simp [walkE, hb']
    have hq : q = { s with benv := setS s.benv q_check_me false } := by
      simp [q, p2Proc, exec, sS, hv.shpV, hcur, hin, hb', ang, BE.ok, BE.eval, FE.ok_var, FE.eval_var, FE.ok_ofInt,
        IE.ok_lit, IE.ok_var, IE.eval_var, eV, oV, CmpOp.eval, hnf, cmpInt, setS, hrun, setS_setS_same]
    rw [hw, hq]
    refine ⟨?_, by simp, by simp [hrun]⟩
    apply hfr <;> try rfl
    · intro v _; rfl
    · intro v hv'; simp only [List.mem_cons, List.not_mem_nil, or_false] at hv'; simp [setS, hv']

theorem walkE_append {α : Type} [LT α] [DecidableLT α] [LE α] [DecidableLE α] (ang g : α) (f : Node α → α)
    (xs ys : List (Node α)) (acc : α) :
    walkE ang g f (xs ++ ys) acc =
      if (walkE ang g f xs acc).2 = true then walkE ang g f xs acc else walkE ang g f ys (walkE ang g f xs acc).1 := by
  induction xs generalizing acc with
  | nil => simp [walkE]
  | cons x xs ih =>
    simp only [List.cons_append, walkE]
    split
    · split
      · simp
      · exact ih _
    · exact ih _

def p2iv : List String := [q_cur_node, q_last_node]

/-- phase 2 from any position: the model's `walk` over the node itself (unless it is the key's node) and its in-order
    predecessors, nearest first; the loop is left by `return` exactly when the walk exits early -/
theorem p2Loop_spec (n : Nat) (sh : Sh) (k : Nat) : ∀ (m : Nat) (l : Sh) (j : Nat) (r : Sh) (ctx : Ctx) (fuel : Nat)
    (s : State F), VS s n → s.ctl = .run → Linked (s.ia "tree_nodes") n (-1) sh → sh.idxs.Nodup →
    plug (.node l j r) ctx = sh → s.ienv q_cur_node = j → s.ienv q_key_node = k →
    (l.rev ++ predsCtx ctx).length ≤ m →
    (∀ i ∈ j :: (l.rev ++ predsCtx ctx), Fl.lt (s.fenv q_max_key) (vAt (s.fa "tree_vals") i 0).v = false) →
    (∀ i ∈ l.rev ++ predsCtx ctx, i ≠ k) →
    m + sh.height + 2 ≤ fuel →
    let ang : Fv F := ⟨s.fenv q_ang⟩
    let w := walkE ang ⟨s.fenv q_gradient⟩ (fun nd => itp nd ang)
      (((if j = k then [] else [j]) ++ (l.rev ++ predsCtx ctx)).map (nodeAt (s.fa "tree_vals"))) ⟨s.fenv q_max⟩
    let q := exec fuel p2Loop s
    Frame p2iv p2fv [q_check_me] s q ∧
      (w.2 = true → q.ctl = .ret ∧ q.fenv q_ret0 = w.1.v) ∧ (w.2 = false → q.ctl = .run ∧ q.fenv q_max = w.1.v) := by
  intro m
  induction m using Nat.strongRecOn with
  | _ m ih =>
  intro l j r ctx fuel s hv hrun hL hN hplug hcur hkey hlen hnf hne hfuel
  obtain ⟨fuel, rfl⟩ : ∃ f, fuel = f + 1 := ⟨fuel - 1, by omega⟩
  -- local facts at this position
  obtain ⟨hl, hc, _⟩ := unplug ctx (.node l j r) (by rw [hplug]; exact hL) (by rw [hplug]; exact hN)
  have hj : j + 1 < n := hl.1
  have hph := plug_height ctx (.node l j r)
  rw [hplug] at hph
  simp only [Sh.height] at hph
  -- the loop test
  have hok : (BE.cmpI .ne (.var q_cur_node) (.lit (-1))).ok s = true := by simp [BE.ok, IE.ok_var, IE.ok_lit]
  have hev : (BE.cmpI .ne (.var q_cur_node) (.lit (-1))).eval s = true := by
    simp [BE.eval, IE.eval_var, IE.eval_lit, hcur, cmpInt]
  -- the processing half
  have hP := p2Proc_spec n fuel s hv hrun j hj hcur (hnf j List.mem_cons_self)
  simp only [hkey] at hP
  obtain ⟨hP1, hP2, hP3⟩ := hP
  intro ang w q
  -- the walk splits into the step at `j` and the rest
  have hlist1 : (if (j : Int) = (k : Int) then ([] : List (Node (Fv F))) else [nodeAt (s.fa "tree_vals") j]) =
      (if j = k then [] else [j]).map (nodeAt (s.fa "tree_vals")) := by
    by_cases e : j = k
    · simp [e]
    · have : ¬ ((j : Int) = (k : Int)) := by omega
      simp [e, this]
  have hsplit := walkE_append ang ⟨s.fenv q_gradient⟩ (fun nd => itp nd ang)
    (if (j : Int) = (k : Int) then ([] : List (Node (Fv F))) else [nodeAt (s.fa "tree_vals") j])
    ((l.rev ++ predsCtx ctx).map (nodeAt (s.fa "tree_vals"))) ⟨s.fenv q_max⟩
  rw [hlist1, ← List.map_append] at hsplit
  rw [← hlist1] at hsplit
  change w = _ at hsplit
  generalize hw1 : walkE ang ⟨s.fenv q_gradient⟩ (fun nd => itp nd ang)
        (if (j : Int) = (k : Int) then [] else [nodeAt (s.fa "tree_vals") j]) ⟨s.fenv q_max⟩ = w1 at hsplit hP2 hP3
  have hbody : exec fuel p2Body s = exec fuel (.seq p2Proc p2Move) s := p2Body_exec fuel s
  by_cases hx : w1.2 = true
  · -- early exit inside the processing half
    obtain ⟨hq1, hq2⟩ := hP2 hx
    have hb : exec fuel p2Body s = exec fuel p2Proc s := by
      rw [hbody, exec_seq_stop]; rw [hq1]; simp
    have hq : q = exec fuel p2Proc s := by
      simp only [q, p2Loop]
      rw [exec_while_ret _ _ _ _ hok hev (by rw [hb]; exact hq1), hb]
    have hw : w = w1 := by rw [hsplit]; simp [hx]
    rw [hq, hw]
    exact ⟨hP1.mono (by simp) (fun _ h => h) (fun _ h => h), fun _ => ⟨hq1, hq2⟩, fun h => (by rw [hx] at h; cases h)⟩
  · have hx' : w1.2 = false := by simpa using hx
    obtain ⟨hq1, hq2⟩ := hP3 hx'
    -- the move to the predecessor
    have hM := p2Move_spec n fuel (exec fuel p2Proc s) (hP1.vs hv) hq1 l j r ctx (by rw [hP1.ia]; exact hl)
      (by rw [hP1.ia]; exact hc) (by rw [hP1.ienv _ (by simp)]; exact hcur) (by omega)
    obtain ⟨hM1, hM2, hM3⟩ := hM
    have hb : exec fuel p2Body s = exec fuel p2Move (exec fuel p2Proc s) := by
      rw [hbody, exec_seq_run _ _ _ _ hq1]
    have hfr2 : Frame p2iv p2fv [q_check_me] s (exec fuel p2Body s) := by
      rw [hb]
      exact (hP1.mono (by simp) (fun _ h => h) (fun _ h => h)).trans
        (hM2.mono (fun _ h => h) (by simp) (by simp))
    have hq : q = exec fuel p2Loop (exec fuel p2Body s) := by
      simp only [q, p2Loop]
      rw [exec_while_step _ _ _ _ hok hev (by rw [hb]; exact hM1)]
    have hw : w = walkE ang ⟨s.fenv q_gradient⟩ (fun nd => itp nd ang)
        ((l.rev ++ predsCtx ctx).map (nodeAt (s.fa "tree_vals"))) w1.1 := by rw [hsplit]; simp [hx]
    -- values in the state after the body
    have hfe : ∀ v, v ∉ p2fv → (exec fuel p2Body s).fenv v = s.fenv v := hfr2.fenv
    have hmax : (exec fuel p2Body s).fenv q_max = w1.1.v := by
      rw [hb, hM2.fenv _ (by simp)]; exact hq2
    have hcur2 : (exec fuel p2Body s).ienv q_cur_node = predPtr l ctx := by rw [hb]; exact hM3
    have hkey2 : (exec fuel p2Body s).ienv q_key_node = k := by
      rw [hfr2.ienv _ (by simp [p2iv])]; exact hkey
    rw [predPos_ptr l j r ctx] at hcur2
    cases hpp : predPos l j r ctx with
    | none =>
      rw [hpp] at hcur2
      have hnil := predPos_none l j r ctx hpp
      obtain ⟨f2, rfl⟩ : ∃ f, fuel = f + 1 := ⟨fuel - 1, by omega⟩
      have hq' : q = exec (f2 + 1) p2Body s := by
        rw [hq, p2Loop, exec_while_exit]
        · simp [BE.ok, IE.ok_var, IE.ok_lit]
        · simp [BE.eval, IE.eval_var, IE.eval_lit, hcur2, cmpInt]
      rw [hq', hw, hnil]
      simp only [List.map_nil, walkE]
      exact ⟨hfr2, fun h => (by cases h), fun _ => ⟨by rw [hb]; exact hM1, hmax⟩⟩
    | some pos =>
      obtain ⟨l', j', r', c'⟩ := pos
      rw [hpp] at hcur2
      obtain ⟨hpl, hlist⟩ := predPos_some l j r ctx l' j' r' c' hpp
      have hlen' : (l'.rev ++ predsCtx c').length < m := by
        have : (j' :: l'.rev ++ predsCtx c').length ≤ m := by rw [hlist]; exact hlen
        simp only [List.cons_append, List.length_cons] at this; omega
      have hj'k : j' ≠ k := hne j' (by rw [← hlist]; simp)
      have := ih (l'.rev ++ predsCtx c').length hlen' l' j' r' c' fuel (exec fuel p2Body s) (hfr2.vs hv)
        (by rw [hb]; exact hM1) (by rw [hfr2.ia]; exact hL) hN (hpl.trans hplug) hcur2 hkey2 (Nat.le_refl _)
        (by
          intro i hi
          rw [hfe _ (by simp [p2fv]), hfr2.fa]
          exact hnf i (List.mem_cons_of_mem _ (by rw [← hlist]; simpa using hi)))
        (by intro i hi; exact hne i (by rw [← hlist]; simp only [List.cons_append, List.mem_cons]; exact Or.inr hi))
        (by omega)
      simp only [hj'k, if_false] at this
      rw [hfe _ (by simp [p2fv]), hfe _ (by simp [p2fv]), hmax, hfr2.fa] at this
      have hl2 : [j'] ++ (l'.rev ++ predsCtx c') = l.rev ++ predsCtx ctx := by rw [← hlist]; simp
      rw [hl2] at this
      rw [hq, hw]
      exact ⟨hfr2.trans this.1, this.2⟩

/-! ### the whole of `_find_max_value_within_key` -/

theorem qPhase2_spec (n : Nat) (sh : Sh) (l : Sh) (k : Nat) (r : Sh) (ctx : Ctx) (fuel : Nat) (s : State F)
    (hv : VS s n) (hrun : s.ctl = .run) (hL : Linked (s.ia "tree_nodes") n (-1) sh) (hN : sh.idxs.Nodup)
    (hplug : plug (.node l k r) ctx = sh) (hkey : s.ienv q_key_node = k)
    (hnf : ∀ i ∈ k :: (l.rev ++ predsCtx ctx), Fl.lt (s.fenv q_max_key) (vAt (s.fa "tree_vals") i 0).v = false)
    (hfuel : sh.size + sh.height + 2 ≤ fuel) :
    let ang : Fv F := ⟨s.fenv q_ang⟩
    let q := exec fuel qPhase2 s
    q.ctl = .ret ∧
      q.fenv q_ret0 = (walk ang ⟨s.fenv q_gradient⟩ (fun nd => itp nd ang)
        ((l.rev ++ predsCtx ctx).map (nodeAt (s.fa "tree_vals"))) smallest).v ∧
      q.fa = s.fa ∧ q.ia = s.ia ∧ q.shp = s.shp := by
  intro ang q
  have hpre : exec fuel (.seq (.setF q_max (.lit (-10000000000000000000000) 1)) (.setI q_cur_node (.var q_key_node))) s =
      { s with fenv := setS s.fenv q_max (smallest : Fv F).v, ienv := setS s.ienv q_cur_node (k : Int) } := by
    simp [exec, FE.ok_lit, FE.eval_lit, IE.ok_var, IE.eval_var, hkey, hrun, smallest]
  have hlen : (l.rev ++ predsCtx ctx).length ≤ sh.size := by
    have := predsCtx_length ctx (.node l k r)
    rw [hplug] at this
    simp only [Sh.size, List.length_append, Sh.rev_length] at this ⊢; omega
  have hnk := nodup_of_plug ctx (.node l k r) (by rw [hplug]; exact hN)
  have hne : ∀ i ∈ l.rev ++ predsCtx ctx, i ≠ k := by
    intro i hi
    rw [List.mem_append] at hi
    rcases hi with hi | hi
    · rw [Sh.rev_eq, List.mem_reverse] at hi
      intro e; subst e
      exact (Sh.ptr_ne_of_nodup l r i hnk).2.2.2.2.1 hi
    · exact predsCtx_ne k ctx (.node l k r) (by simp [Sh.idxs]) (by rw [hplug]; exact hN) i hi
  have hloop := p2Loop_spec n sh k sh.size l k r ctx fuel
    { s with fenv := setS s.fenv q_max (smallest : Fv F).v, ienv := setS s.ienv q_cur_node (k : Int) }
    (hv.of_eq rfl rfl rfl) hrun hL hN hplug (by simp [setS]) (by simpa [setS] using hkey) hlen
    (by simpa [setS] using hnf) hne hfuel
  simp only [if_true] at hloop
  have e1 : (setS s.fenv q_max (smallest : Fv F).v) q_ang = s.fenv q_ang := by simp [setS]
  have e2 : (setS s.fenv q_max (smallest : Fv F).v) q_gradient = s.fenv q_gradient := by simp [setS]
  have e3 : (setS s.fenv q_max (smallest : Fv F).v) q_max = (smallest : Fv F).v := by simp [setS]
  simp only [e1, e2, e3, List.nil_append, Fv.mk_v] at hloop
  obtain ⟨hf, hw1, hw2⟩ := hloop
  have hq : q = exec fuel (.seq p2Loop (.seq (.setF q_ret0 (.var q_max)) .ret))
      { s with fenv := setS s.fenv q_max (smallest : Fv F).v, ienv := setS s.ienv q_cur_node (k : Int) } := by
    simp only [q, qPhase2]
    rw [exec_seq_assoc, exec_seq_run _ _ _ _ (by rw [hpre]; exact hrun), hpre]
  rw [hq, ← walkE_fst]
  generalize walkE ang ⟨s.fenv q_gradient⟩ (fun nd => itp nd ang)
    ((l.rev ++ predsCtx ctx).map (nodeAt (s.fa "tree_vals"))) smallest = w at hw1 hw2 ⊢
  by_cases hx : w.2 = true
  · obtain ⟨h1, h2⟩ := hw1 hx
    rw [exec_seq_stop _ _ _ _ (by rw [h1]; simp)]
    exact ⟨h1, h2, hf.fa, hf.ia, hf.shp⟩
  · obtain ⟨h1, h2⟩ := hw2 (by simpa using hx)
    rw [exec_seq_run _ _ _ _ h1]
    simp [exec, FE.ok_var, FE.eval_var, h1, h2, hf.fa, hf.ia, hf.shp]

/-- the value `_find_max_value_within_key` computes once the key's node `k` is found at position `(l, k, r, ctx)` -/
def queryPos (vals : List F) (n : Nat) (l : Sh) (ctx : Ctx) (ang g : Fv F) : Fv F :=
  let s1 := shortCtx vals n smallest ctx
  if g < s1 then s1
  else walk ang g (fun nd => itp nd ang) ((l.rev ++ predsCtx ctx).map (nodeAt vals)) smallest

theorem qTail_spec (n : Nat) (sh : Sh) (l : Sh) (k : Nat) (r : Sh) (ctx : Ctx) (fuel : Nat) (s : State F)
    (hv : VS s n) (hrun : s.ctl = .run) (hL : Linked (s.ia "tree_nodes") n (-1) sh) (hN : sh.idxs.Nodup)
    (hplug : plug (.node l k r) ctx = sh) (hkey : s.ienv q_key_node = k)
    (hnf : ∀ i ∈ k :: (l.rev ++ predsCtx ctx), Fl.lt (s.fenv q_max_key) (vAt (s.fa "tree_vals") i 0).v = false)
    (hfuel : sh.size + sh.height + 2 ≤ fuel) :
    let q := exec fuel qTail s
    q.ctl = .ret ∧
      q.fenv q_ret0 = (queryPos (s.fa "tree_vals") n l ctx ⟨s.fenv q_ang⟩ ⟨s.fenv q_gradient⟩).v ∧
      q.fa = s.fa ∧ q.ia = s.ia ∧ q.shp = s.shp := by
  intro q
  obtain ⟨hl, hc, _⟩ := unplug ctx (.node l k r) (by rw [hplug]; exact hL) (by rw [hplug]; exact hN)
  have hph := plug_height ctx (.node l k r)
  rw [hplug] at hph
  have hpre : exec fuel (.seq (.setI q_cur_node (.var q_key_node)) (.setF q_max (.lit (-10000000000000000000000) 1))) s =
      { s with ienv := setS s.ienv q_cur_node (k : Int), fenv := setS s.fenv q_max (smallest : Fv F).v } := by
    simp [exec, FE.ok_lit, FE.eval_lit, IE.ok_var, IE.eval_var, hkey, hrun, smallest]
  have h1 := p1Loop_spec n ctx k fuel
    { s with ienv := setS s.ienv q_cur_node (k : Int), fenv := setS s.fenv q_max (smallest : Fv F).v }
    (hv.of_eq rfl rfl rfl) hrun hc hl.2.2.2.1 hl.1 (by simp [setS]) (by have := Sh.height_le_size sh; omega)
  obtain ⟨h1a, h1b, h1c⟩ := h1
  have e3 : (setS s.fenv q_max (smallest : Fv F).v) q_max = (smallest : Fv F).v := by simp [setS]
  simp only [e3, Fv.mk_v] at h1c
  generalize hs1 : exec fuel p1Loop
    { s with ienv := setS s.ienv q_cur_node (k : Int), fenv := setS s.fenv q_max (smallest : Fv F).v } = s1 at h1a h1b h1c
  have hq : q = exec fuel (.seq (.ite (.cmpF .gt (.var q_max) (.var q_gradient)) (.seq (.setF q_ret0 (.var q_max)) .ret) .skip)
      qPhase2) s1 := by
    simp only [q, qTail]
    rw [exec_seq_assoc, exec_seq_run _ _ _ _ (by rw [hpre]; exact hrun), hpre, exec_seq_run _ _ _ _ (by rw [hs1]; exact h1a), hs1]
  have hg : s1.fenv q_gradient = s.fenv q_gradient := by rw [h1b.fenv _ (by simp [p1fv])]; simp [setS]
  have ha : s1.fenv q_ang = s.fenv q_ang := by rw [h1b.fenv _ (by simp [p1fv])]; simp [setS]
  have hk : s1.fenv q_max_key = s.fenv q_max_key := by rw [h1b.fenv _ (by simp [p1fv])]; simp [setS]
  have hkn : s1.ienv q_key_node = k := by rw [h1b.ienv _ (by simp [p1iv])]; simpa [setS] using hkey
  rw [hq]
  unfold queryPos
  by_cases hx : Fl.lt (s.fenv q_gradient) (shortCtx (s.fa "tree_vals") n smallest ctx).v = true
  · rw [if_pos (show (⟨s.fenv q_gradient⟩ : Fv F) < _ from hx)]
    simp [exec, BE.ok, BE.eval, FE.ok_var, FE.eval_var, CmpOp.eval, hg, h1c, hx, h1a, h1b.fa, h1b.ia, h1b.shp]
  · rw [if_neg (show ¬ (⟨s.fenv q_gradient⟩ : Fv F) < _ from hx)]
    have h2 := qPhase2_spec n sh l k r ctx fuel s1 (h1b.vs (hv.of_eq rfl rfl rfl)) h1a (by rw [h1b.ia]; exact hL) hN hplug hkn
      (by rw [hk, h1b.fa]; exact hnf) hfuel
    rw [ha, hg, h1b.fa, h1b.ia, h1b.shp] at h2
    have hite : exec fuel (.ite (.cmpF .gt (.var q_max) (.var q_gradient)) (.seq (.setF q_ret0 (.var q_max)) .ret) .skip) s1
        = s1 := by
      simp [exec, BE.ok, BE.eval, FE.ok_var, FE.eval_var, CmpOp.eval, hg, h1c, hx]
    rw [exec_seq_run _ _ _ _ (by rw [hite]; exact h1a), hite]
    simpa using h2

def qsiv : List String := q__search_for_node2_ret0 :: qSearchNames.iv

theorem qSearch_spec (n : Nat) (sh : Sh) (fuel : Nat) (s : State F) (hv : VS s n) (hrun : s.ctl = .run)
    (hL : Linked (s.ia "tree_nodes") n (-1) sh) (hroot : s.ienv q__search_for_node2_root = sh.ptr)
    (hf : sh.height < fuel) :
    let q := exec fuel qSearch s
    q.ctl = .run ∧ Frame qsiv qSearchNames.fv [] s q ∧
      q.ienv q__search_for_node2_ret0 = findPtr (s.fa "tree_vals") ⟨s.fenv q__search_for_node2_key⟩ sh := by
  intro q
  have hN : qSearchNames.OK := by simp [SearchNames.OK, qSearchNames]
  have h := searchLoop_spec qSearchNames hN n sh (-1) fuel
    { s with ienv := setS s.ienv q__search_for_node2_cur_node (s.ienv q__search_for_node2_root) } (hv.of_eq rfl rfl rfl)
    hrun hL (by simp [qSearchNames, hroot]) hf
  have e1 : qSearchNames.cur = q__search_for_node2_cur_node := rfl
  have e2 : qSearchNames.key = q__search_for_node2_key := rfl
  simp only [e1, e2] at h
  obtain ⟨h1, h2, h3⟩ := h
  generalize hsB : exec fuel (searchLoop qSearchNames)
    { s with ienv := setS s.ienv q__search_for_node2_cur_node (s.ienv q__search_for_node2_root) } = sB at h1 h2 h3
  have hq : q = { sB with ienv := setS sB.ienv q__search_for_node2_ret0 (sB.ienv q__search_for_node2_cur_node) } := by
    simp only [q, qSearch]
    rw [exec_scope, exec_seq_run _ _ _ _ (by simp [exec, IE.ok_var, hrun])]
    simp only [exec_setI _ _ _ _ (IE.ok_var _ _), IE.eval_var]
    rw [exec_seq_run _ _ _ _ (by rw [hsB]; exact h1), hsB]
    simp [exec, IE.ok_var, IE.eval_var, h1]
  rw [hq]
  refine ⟨h1, ?_, by simpa [setS] using h3⟩
  have hfr0 : Frame qsiv qSearchNames.fv [] s
      { s with ienv := setS s.ienv q__search_for_node2_cur_node (s.ienv q__search_for_node2_root) } := by
    refine ⟨rfl, rfl, rfl, rfl, ?_, fun _ _ => rfl, fun _ _ => rfl⟩
    intro v hv'
    simp only [qsiv, SearchNames.iv, qSearchNames, List.mem_cons, List.not_mem_nil, or_false, not_or] at hv'
    simp [setS, hv']
  refine (hfr0.trans (h2.mono (fun v h => List.mem_cons_of_mem _ h) (fun _ h => h) (fun _ h => h))).trans ?_
  refine ⟨rfl, rfl, rfl, rfl, ?_, fun _ _ => rfl, fun _ _ => rfl⟩
  intro v hv'
  simp only [qsiv, List.mem_cons, not_or] at hv'
  simp [setS, hv'.1]

/-- what the generated program computes, on the zipper: search, then `queryPos` at the node found -/
def queryZ (vals : List F) (n : Nat) (sh : Sh) (K ang g : Fv F) : Fv F :=
  match findZ vals K sh [] with
  | none => smallest
  | some (l, _, _, c) => queryPos vals n l c ang g

/-- the code's `raise ValueError` is never reached: no in-order predecessor of the key's node has a key above `K` -/
def QueryNoFail (vals : List F) (sh : Sh) (K : Fv F) : Prop :=
  match findZ vals K sh [] with
  | none => True
  | some (l, _, _, c) => ∀ i ∈ l.rev ++ predsCtx c, Fl.lt K.v (vAt vals i 0).v = false

theorem qInner_spec (n : Nat) (sh : Sh) (fuel : Nat) (s : State F) (hv : VS s n) (hrun : s.ctl = .run)
    (hL : Linked (s.ia "tree_nodes") n (-1) sh) (hN : sh.idxs.Nodup) (hroot : s.ienv q_root = sh.ptr)
    (hnf : QueryNoFail (s.fa "tree_vals") sh ⟨s.fenv q_max_key⟩) (hfuel : sh.size + sh.height + 2 ≤ fuel) :
    let q := exec fuel qInner s
    q.ctl = .ret ∧
      q.fenv q_ret0 = (queryZ (s.fa "tree_vals") n sh ⟨s.fenv q_max_key⟩ ⟨s.fenv q_ang⟩ ⟨s.fenv q_gradient⟩).v ∧
      q.fa = s.fa ∧ q.ia = s.ia ∧ q.shp = s.shp := by
  intro q
  have hpre : exec fuel (.seq (.setI q__search_for_node2_root (.var q_root))
      (.setF q__search_for_node2_key (.var q_max_key))) s =
      { s with ienv := setS s.ienv q__search_for_node2_root sh.ptr,
               fenv := setS s.fenv q__search_for_node2_key (s.fenv q_max_key) } := by
    simp [exec, FE.ok_var, FE.eval_var, IE.ok_var, IE.eval_var, hroot, hrun]
  have hS := qSearch_spec n sh fuel
    { s with ienv := setS s.ienv q__search_for_node2_root sh.ptr,
             fenv := setS s.fenv q__search_for_node2_key (s.fenv q_max_key) }
    (hv.of_eq rfl rfl rfl) hrun hL (by simp [setS]) (by have := Sh.height_le_size sh; omega)
  obtain ⟨hS1, hS2, hS3⟩ := hS
  have e0 : (setS s.fenv q__search_for_node2_key (s.fenv q_max_key)) q__search_for_node2_key = s.fenv q_max_key := by
    simp [setS]
  simp only [e0] at hS3
  generalize hsS : exec fuel qSearch
    { s with ienv := setS s.ienv q__search_for_node2_root sh.ptr,
             fenv := setS s.fenv q__search_for_node2_key (s.fenv q_max_key) } = sS at hS1 hS2 hS3
  -- after `key_node = ...`
  have hq : q = exec fuel (.seq (.ite (.cmpI .eq (.var q_key_node) (.lit (-1)))
        (.seq (.setF q_ret0 (.lit (-10000000000000000000000) 1)) .ret) .skip) qTail)
      { sS with ienv := setS sS.ienv q_key_node (sS.ienv q__search_for_node2_ret0) } := by
    simp only [q, qInner]
    rw [exec_seq_assoc, exec_seq_run _ _ _ _ (by rw [hpre]; exact hrun), hpre,
      exec_seq_run _ _ _ _ (by rw [hsS]; exact hS1), hsS,
      exec_seq_run _ _ _ _ (by simp [exec, IE.ok_var, hS1])]
    simp only [exec_setI _ _ _ _ (IE.ok_var _ _), IE.eval_var]
  -- what the frame keeps
  have hfe : ∀ v, v ∉ qSearchNames.fv → v ≠ q__search_for_node2_key → sS.fenv v = s.fenv v := by
    intro v h1 h2; rw [hS2.fenv v h1]; simp [setS, h2]
  have hang : sS.fenv q_ang = s.fenv q_ang := hfe _ (by simp [SearchNames.fv, qSearchNames]) (by decide)
  have hgr : sS.fenv q_gradient = s.fenv q_gradient := hfe _ (by simp [SearchNames.fv, qSearchNames]) (by decide)
  have hmk : sS.fenv q_max_key = s.fenv q_max_key := hfe _ (by simp [SearchNames.fv, qSearchNames]) (by decide)
  rw [hq]
  unfold queryZ
  unfold QueryNoFail at hnf
  cases hfz : findZ (s.fa "tree_vals") ⟨s.fenv q_max_key⟩ sh [] with
  | none =>
    have hp := findZ_none _ _ sh [] hfz
    rw [hp] at hS3
    simp [exec, BE.ok, BE.eval, IE.ok_var, IE.ok_lit, IE.eval_var, IE.eval_lit, cmpInt, setS, hS3, FE.ok_lit, FE.eval_lit,
      hS1, hS2.fa, hS2.ia, hS2.shp, smallest]
  | some pos =>
    obtain ⟨l, k, r, c⟩ := pos
    rw [hfz] at hnf
    obtain ⟨hp, hplug, hk1, hk2⟩ := findZ_some _ _ sh [] l k r c hfz
    simp only [plug] at hplug
    rw [hp] at hS3
    have hite : exec fuel (.ite (.cmpI .eq (.var q_key_node) (.lit (-1)))
        (.seq (.setF q_ret0 (.lit (-10000000000000000000000) 1)) .ret) .skip)
        { sS with ienv := setS sS.ienv q_key_node (sS.ienv q__search_for_node2_ret0) } =
        { sS with ienv := setS sS.ienv q_key_node (k : Int) } := by
      have : ¬ ((k : Int) = -1) := by omega
      simp [exec, BE.ok, BE.eval, IE.ok_var, IE.ok_lit, IE.eval_var, IE.eval_lit, cmpInt, setS, hS3, this]
    rw [exec_seq_run _ _ _ _ (by rw [hite]; exact hS1), hite]
    have hT := qTail_spec n sh l k r c fuel { sS with ienv := setS sS.ienv q_key_node (k : Int) }
      ((hS2.vs (hv.of_eq rfl rfl rfl)).of_eq rfl rfl rfl) hS1 (by rw [hS2.ia]; exact hL) hN hplug (by simp [setS])
      (by
        intro i hi
        rw [hmk, hS2.fa]
        rcases List.mem_cons.mp hi with rfl | hi
        · have : ¬ (Fl.lt (s.fenv q_max_key) (vAt (s.fa "tree_vals") i 0).v = true) := hk1
          simpa using this
        · exact hnf i hi)
      hfuel
    obtain ⟨t1, t2, t3, t4, t5⟩ := hT
    refine ⟨t1, ?_, t3.trans hS2.fa, t4.trans hS2.ia, t5.trans hS2.shp⟩
    rw [t2]
    simp only [hang, hgr, hS2.fa]

/-! ### `_max_grad_in_status_struct` -/

/-- the generated `_max_grad_in_status_struct` computes `queryZ` -/
theorem vsQuery_run (s : State F) (fuel n : Nat) (hv : VS s n) (hrun : s.ctl = .run) (sh : Sh)
    (hL : Linked (s.ia "tree_nodes") n (-1) sh) (hN : sh.idxs.Nodup) (hroot : s.ienv "root" = sh.ptr)
    (hnf : QueryNoFail (s.fa "tree_vals") sh ⟨s.fenv "distance"⟩) (hfuel : sh.size + sh.height + 2 ≤ fuel) :
    let q := Gen.IL.vsQuery.run s fuel
    q.ctl = .ret ∧
      q.fenv "ret0" = (queryZ (s.fa "tree_vals") n sh ⟨s.fenv "distance"⟩ ⟨s.fenv "angle"⟩ ⟨s.fenv "gradient"⟩).v ∧
      q.fa = s.fa ∧ q.ia = s.ia := by
  simp only [Prog.run, vsQuery_body]
  cases sh with
  | nil =>
    simp only [Sh.ptr] at hroot
    simp [exec, BE.ok, BE.eval, IE.ok_var, IE.ok_lit, IE.eval_var, IE.eval_lit, cmpInt, hroot, FE.ok_lit, FE.eval_lit, hrun,
      queryZ, findZ, smallest]
  | node l i r =>
    simp only [Sh.ptr] at hroot
    have hne : ¬ ((i : Int) = -1) := by omega
    have hite : exec fuel (.ite (.cmpI .eq (.var "root") (.lit (-1)))
        (.seq (.setF "ret0" (.lit (-10000000000000000000000) 1)) .ret) .skip) s = s := by
      simp [exec, BE.ok, BE.eval, IE.ok_var, IE.ok_lit, IE.eval_var, IE.eval_lit, cmpInt, hroot, hne]
    rw [exec_seq_run _ _ _ _ (by rw [hite]; exact hrun), hite]
    have hpre : exec fuel (.seq (.setI q_root (.var "root")) (.seq (.setF q_max_key (.var "distance"))
        (.seq (.setF q_ang (.var "angle")) (.setF q_gradient (.var "gradient"))))) s =
        { s with ienv := setS s.ienv q_root (i : Int),
                 fenv := setS (setS (setS s.fenv q_max_key (s.fenv "distance")) q_ang (s.fenv "angle")) q_gradient
                   (s.fenv "gradient") } := by
      simp [exec, FE.ok_var, FE.eval_var, IE.ok_var, IE.eval_var, hroot, hrun, setS]
    have hI := qInner_spec n (.node l i r) fuel
      { s with ienv := setS s.ienv q_root (i : Int),
               fenv := setS (setS (setS s.fenv q_max_key (s.fenv "distance")) q_ang (s.fenv "angle")) q_gradient
                 (s.fenv "gradient") }
      (hv.of_eq rfl rfl rfl) hrun hL hN (by simp [setS, Sh.ptr]) (by simpa [setS] using hnf) hfuel
    have e1 : (setS (setS (setS s.fenv q_max_key (s.fenv "distance")) q_ang (s.fenv "angle")) q_gradient
        (s.fenv "gradient")) q_max_key = s.fenv "distance" := by simp [setS]
    have e2 : (setS (setS (setS s.fenv q_max_key (s.fenv "distance")) q_ang (s.fenv "angle")) q_gradient
        (s.fenv "gradient")) q_ang = s.fenv "angle" := by simp [setS]
    have e3 : (setS (setS (setS s.fenv q_max_key (s.fenv "distance")) q_ang (s.fenv "angle")) q_gradient
        (s.fenv "gradient")) q_gradient = s.fenv "gradient" := by simp [setS]
    simp only [e1, e2, e3] at hI
    obtain ⟨hI1, hI2, hI3, hI4, hI5⟩ := hI
    have hreg : ∀ (a b c d e f : St) (s' : State F),
        exec fuel (.seq a (.seq b (.seq c (.seq d (.seq e f))))) s' =
          exec fuel (.seq (.seq a (.seq b (.seq c d))) (.seq e f)) s' := by
      intro a b c d e f s'
      have := seq5_regroup fuel a b c d (.seq e f) .skip s'
      simp only [exec_seq, exec_skip] at this ⊢
      by_cases h1 : (exec fuel a s').ctl = .run <;> simp [h1]
      by_cases h2 : (exec fuel b (exec fuel a s')).ctl = .run <;> simp [h2]
      by_cases h3 : (exec fuel c (exec fuel b (exec fuel a s'))).ctl = .run <;> simp [h3]
    rw [hreg, exec_seq_run _ _ _ _ (by rw [hpre]; exact hrun), hpre, exec_seq, exec_scope]
    simp only [hI1, if_true]
    simp [exec, FE.ok_var, FE.eval_var, hI2, hI3, hI4]

end XrsVerif.ILVs
