import XrsVerif.Proofs.PolygonizeLosslessWinding
/-
  C15, losslessness: what `follow` returns, in terms of the cycle of states it runs through.

  `followLoop_char`  a successful `followLoop` ran through `cur, step cur, …, step^[m-1] cur`, `m ≥ 1` minimal
                     with `step^[m] cur = start`, and its result is the fold of `visit` over that list;
  `cycle_nodup`, `cycle_closed`   for a boundary-edge start with `step^[m] start = start` (m minimal) the list
                     is duplicate free and closed (stepping permutes it);
  `cycle_reach`      from every state of the cycle the start is reached by iterating `step`;
  `mem_v2_fold`, `mem_v1_fold`    which pixels get flagged.
  Core Lean only.
-/
set_option linter.unusedVariables false
namespace XrsVerif.Polygonize

/-- `f^[m] s` -/
def iterS (f : FSt → FSt) : Nat → FSt → FSt
  | 0, s => s
  | m + 1, s => iterS f m (f s)

/-- `[s, f s, …, f^[m-1] s]` -/
def orbitL (f : FSt → FSt) : Nat → FSt → List FSt
  | 0, _ => []
  | m + 1, s => s :: orbitL f m (f s)

theorem iterS_add (f : FSt → FSt) (a b : Nat) (s : FSt) : iterS f (a + b) s = iterS f b (iterS f a s) := by
  induction a generalizing s with
  | zero => simp [iterS]
  | succ a ih => rw [show a + 1 + b = (a + b) + 1 by omega]; simp only [iterS]; exact ih (f s)

theorem iterS_succ' (f : FSt → FSt) (a : Nat) (s : FSt) : iterS f (a + 1) s = f (iterS f a s) := by
  rw [iterS_add]; rfl

theorem orbitL_length (f : FSt → FSt) (m : Nat) (s : FSt) : (orbitL f m s).length = m := by
  induction m generalizing s with
  | zero => rfl
  | succ m ih => simp [orbitL, ih]

theorem mem_orbitL {f : FSt → FSt} {m : Nat} {s t : FSt} : t ∈ orbitL f m s ↔ ∃ i, i < m ∧ t = iterS f i s := by
  induction m generalizing s with
  | zero => simp [orbitL]
  | succ m ih =>
    simp only [orbitL, List.mem_cons, ih]
    constructor
    · rintro (h | ⟨i, hi, h⟩)
      · exact ⟨0, by omega, h⟩
      · exact ⟨i + 1, by omega, h⟩
    · rintro ⟨i, hi, h⟩
      cases i with
      | zero => left; exact h
      | succ i => right; exact ⟨i, by omega, h⟩

theorem map_orbitL (f : FSt → FSt) (m : Nat) (s : FSt) : (orbitL f m s).map f = orbitL f m (f s) := by
  induction m generalizing s with
  | zero => rfl
  | succ m ih => simp [orbitL, ih]

theorem orbitL_snoc (f : FSt → FSt) (m : Nat) (s : FSt) : orbitL f (m + 1) s = orbitL f m s ++ [iterS f m s] := by
  induction m generalizing s with
  | zero => rfl
  | succ m ih =>
    rw [orbitL, ih (f s)]; rfl

/-- one iteration of the `_follow` loop on the accumulated (previous heading, trace) -/
def visit (nx ny : Nat) (hole : Bool) (acc : Option Dir × Trace) (cur : FSt) : Option Dir × Trace :=
  let ij := (cur.x + cur.y * nx).toNat
  (some cur.d,
   ⟨if acc.1 ≠ some cur.d then cur.corner :: acc.2.pts else acc.2.pts,
    if cur.d = .E ∧ hole = false then ij :: acc.2.v1 else acc.2.v1,
    if ¬(cur.d = .E ∧ hole = false) ∧ cur.d = .W ∧ ij + nx < nx * ny then (ij + nx) :: acc.2.v2 else acc.2.v2⟩)

theorem followLoop_char (R : Int → Int → Bool) (nx ny : Nat) (hole : Bool) (start : FSt) :
    ∀ (fuel : Nat) (cur : FSt) (prev : Option Dir) (tr res : Trace),
      followLoop R nx ny hole start fuel cur prev tr = some res →
      ∃ m, 1 ≤ m ∧ iterS (step R) m cur = start ∧ (∀ i, 1 ≤ i → i < m → iterS (step R) i cur ≠ start) ∧
        res = ((orbitL (step R) m cur).foldl (visit nx ny hole) (prev, tr)).2 := by
  intro fuel
  induction fuel with
  | zero => intro cur prev tr res h; simp [followLoop] at h
  | succ fuel ih =>
    intro cur prev tr res h
    simp only [followLoop] at h
    split at h
    · rename_i hs
      simp only [Option.some.injEq] at h
      refine ⟨1, by omega, hs, by intro i h1 h2; omega, ?_⟩
      rw [← h]; rfl
    · rename_i hs
      obtain ⟨m, hm, hit, hmin, hres⟩ := ih _ _ _ _ h
      refine ⟨m + 1, by omega, hit, ?_, ?_⟩
      · intro i h1 h2
        cases i with
        | zero => omega
        | succ i =>
          cases i with
          | zero => exact hs
          | succ i => exact hmin (i + 1) (by omega) (by omega)
      · rw [hres]; rfl

/-! ### the cycle -/

theorem iterS_valid {R : Int → Int → Bool} {s : FSt} (hs : Valid R s) : ∀ i, Valid R (iterS (step R) i s) := by
  intro i
  induction i generalizing s with
  | zero => exact hs
  | succ i ih => exact ih (step_valid R s hs)

theorem iterS_inj {R : Int → Int → Bool} : ∀ (i : Nat) {a b : FSt}, Valid R a → Valid R b →
    iterS (step R) i a = iterS (step R) i b → a = b := by
  intro i
  induction i with
  | zero => intro a b _ _ h; exact h
  | succ i ih =>
    intro a b ha hb h
    exact step_injective R a b ha hb (ih (step_valid R a ha) (step_valid R b hb) h)

theorem cycle_nodup {R : Int → Int → Bool} {start : FSt} (hv : Valid R start) {m : Nat}
    (hmin : ∀ i, 1 ≤ i → i < m → iterS (step R) i start ≠ start) :
    ∀ k, k ≤ m → ∀ i j, i < j → j < k → iterS (step R) i start ≠ iterS (step R) j start := by
  intro k hk i j hij hj h
  have e : j = i + (j - i) := by omega
  rw [e, iterS_add] at h
  -- iterS i start = iterS (j-i) (iterS i start); commute
  have h2 : iterS (step R) i start = iterS (step R) i (iterS (step R) (j - i) start) := by
    rw [← iterS_add, Nat.add_comm, iterS_add]; exact h
  have := iterS_inj i hv (iterS_valid hv (j - i)) h2
  exact hmin (j - i) (by omega) (by omega) this.symm

theorem orbitL_nodup {R : Int → Int → Bool} {start : FSt} (hv : Valid R start) {m : Nat}
    (hmin : ∀ i, 1 ≤ i → i < m → iterS (step R) i start ≠ start) : (orbitL (step R) m start).Nodup := by
  have key : ∀ k (s : FSt) (off : Nat), off + k ≤ m → s = iterS (step R) off start →
      (orbitL (step R) k s).Nodup := by
    intro k
    induction k with
    | zero => intro s off _ _; simp [orbitL]
    | succ k ih =>
      intro s off hoff hs
      rw [orbitL, List.nodup_cons]
      refine ⟨?_, ih (step R s) (off + 1) (by omega) (by rw [iterS_succ', hs])⟩
      intro hmem
      obtain ⟨i, hi, e⟩ := mem_orbitL.mp hmem
      have e2 : iterS (step R) off start = iterS (step R) (off + (i + 1)) start := by
        rw [iterS_add, ← hs]; exact e
      exact cycle_nodup hv hmin m (Nat.le_refl m) off (off + (i + 1)) (by omega) (by omega) e2
  exact key m start 0 (by omega) rfl

theorem cycle_closed {R : Int → Int → Bool} {start : FSt} (hv : Valid R start) {m : Nat} (hm : 1 ≤ m)
    (hit : iterS (step R) m start = start) : Closed R (orbitL (step R) m start) := by
  constructor
  · intro s hs
    obtain ⟨i, _, e⟩ := mem_orbitL.mp hs
    rw [e]; exact iterS_valid hv i
  · rw [map_orbitL]
    obtain ⟨k, rfl⟩ : ∃ k, m = k + 1 := ⟨m - 1, by omega⟩
    have h1 : orbitL (step R) (k + 1) start = [start] ++ orbitL (step R) k (step R start) := rfl
    have h2 : orbitL (step R) (k + 1) (step R start) = orbitL (step R) k (step R start) ++ [start] := by
      rw [orbitL_snoc]
      congr 2
    rw [h1, h2]
    exact List.perm_append_comm

/-- from every state of the cycle the start is reached again -/
theorem cycle_reach {R : Int → Int → Bool} {start : FSt} {m : Nat} (hit : iterS (step R) m start = start)
    {t : FSt} (ht : t ∈ orbitL (step R) m start) : ∃ j, iterS (step R) j t = start := by
  obtain ⟨i, hi, e⟩ := mem_orbitL.mp ht
  refine ⟨m - i, ?_⟩
  rw [e, ← iterS_add, show i + (m - i) = m by omega, hit]

theorem Closed.mem_step {R : Int → Int → Bool} {L : List FSt} (hL : Closed R L) {s : FSt} (hs : s ∈ L) :
    step R s ∈ L :=
  hL.perm.mem_iff.mp (List.mem_map_of_mem hs)

theorem Closed.mem_iter {R : Int → Int → Bool} {L : List FSt} (hL : Closed R L) {s : FSt} (hs : s ∈ L) :
    ∀ j, iterS (step R) j s ∈ L := by
  intro j
  induction j generalizing s with
  | zero => exact hs
  | succ j ih => exact ih (hL.mem_step hs)

/-- two cycles that share a state: the start of the one lies on the other (closed) list -/
theorem start_mem_of_common {R : Int → Int → Bool} {L : List FSt} (hL : Closed R L) {start : FSt} {m : Nat}
    (hit : iterS (step R) m start = start) {t : FSt} (ht : t ∈ orbitL (step R) m start) (htL : t ∈ L) :
    start ∈ L := by
  obtain ⟨j, hj⟩ := cycle_reach hit ht
  rw [← hj]; exact hL.mem_iter htL j

/-! ### the flags and vertices recorded along a list of states -/

/-- flat index of the pixel of a state -/
def FSt.idx (nx : Nat) (s : FSt) : Nat := (s.x + s.y * nx).toNat

theorem visit_v2 (nx ny : Nat) (hole : Bool) (q : Nat) (acc : Option Dir × Trace) (s : FSt) :
    q ∈ (visit nx ny hole acc s).2.v2 ↔ q ∈ acc.2.v2 ∨ (s.d = .W ∧ q = s.idx nx + nx ∧ q < nx * ny) := by
  simp only [visit, FSt.idx]
  split
  · rename_i hc
    rw [List.mem_cons]
    constructor
    · rintro (h | h)
      · right; exact ⟨hc.2.1, h, by omega⟩
      · left; exact h
    · rintro (h | ⟨_, h, _⟩)
      · right; exact h
      · left; exact h
  · rename_i hc
    constructor
    · intro h; left; exact h
    · rintro (h | ⟨h1, h2, h3⟩)
      · exact h
      · exfalso; apply hc
        refine ⟨?_, h1, by omega⟩
        rw [h1]; simp

theorem mem_v2_fold (nx ny : Nat) (hole : Bool) (q : Nat) : ∀ (l : List FSt) (acc : Option Dir × Trace),
    q ∈ (l.foldl (visit nx ny hole) acc).2.v2 ↔
      q ∈ acc.2.v2 ∨ ∃ s ∈ l, s.d = .W ∧ q = s.idx nx + nx ∧ q < nx * ny := by
  intro l
  induction l with
  | nil => intro acc; simp
  | cons s l ih =>
    intro acc
    rw [List.foldl_cons, ih, visit_v2]
    simp only [List.mem_cons, exists_eq_or_imp]
    exact or_assoc

theorem mem_v1_fold (nx ny : Nat) (hole : Bool) (q : Nat) : ∀ (l : List FSt) (acc : Option Dir × Trace),
    q ∈ (l.foldl (visit nx ny hole) acc).2.v1 →
      q ∈ acc.2.v1 ∨ ∃ s ∈ l, s.d = .E ∧ q = s.idx nx := by
  intro l
  induction l with
  | nil => intro acc h; left; simpa using h
  | cons s l ih =>
    intro acc h
    rw [List.foldl_cons] at h
    rcases ih _ h with h1 | ⟨t, ht, h1⟩
    · simp only [visit] at h1
      split at h1
      · rename_i hc
        rcases List.mem_cons.mp h1 with e | e
        · right; exact ⟨s, List.mem_cons_self, hc.1, e⟩
        · left; exact e
      · left; exact h1
    · right; exact ⟨t, List.mem_cons_of_mem _ ht, h1⟩

/-- the vertices recorded along a list of states (most recent first): one whenever the heading changes -/
def recPts : Option Dir → List FSt → List (Int × Int) → List (Int × Int)
  | _, [], acc => acc
  | prev, s :: l, acc => recPts (some s.d) l (if prev ≠ some s.d then s.corner :: acc else acc)

theorem pts_fold (nx ny : Nat) (hole : Bool) : ∀ (l : List FSt) (acc : Option Dir × Trace),
    (l.foldl (visit nx ny hole) acc).2.pts = recPts acc.1 l acc.2.pts := by
  intro l
  induction l with
  | nil => intro acc; rfl
  | cons s l ih => intro acc; rw [List.foldl_cons, ih]; rfl

/-- the ring `follow` builds from a cycle of states -/
def cycRing (c : List FSt) : Ring :=
  let P := (recPts none c []).reverse
  P ++ P.take 1

/-- **what `follow` returns**: it runs once through a duplicate-free closed cycle of boundary-edge states
    beginning with the start; the ring is `cycRing` of that cycle; `v2` holds the pixels above the W-headed
    states (inside the raster), `v1` only pixels of E-headed states -/
theorem follow_char (nx ny : Nat) (regs : Nat → Nat) (ij : Nat) (hole : Bool) (tr : Trace)
    (hstart : Valid (inRegion nx ny regs (regs ij)) ⟨(ij % nx : Nat), (ij / nx : Nat), if hole then .W else .E⟩)
    (h : follow nx ny regs ij hole = some tr) :
    ∃ c : List FSt, Closed (inRegion nx ny regs (regs ij)) c ∧ c.Nodup ∧
      (∃ m, 1 ≤ m ∧ c = orbitL (step (inRegion nx ny regs (regs ij))) m
          ⟨(ij % nx : Nat), (ij / nx : Nat), if hole then .W else .E⟩ ∧
        iterS (step (inRegion nx ny regs (regs ij))) m
          ⟨(ij % nx : Nat), (ij / nx : Nat), if hole then .W else .E⟩ =
          ⟨(ij % nx : Nat), (ij / nx : Nat), if hole then .W else .E⟩) ∧
      tr.pts = cycRing c ∧
      (∀ q, q ∈ tr.v2 ↔ ∃ s ∈ c, s.d = .W ∧ q = s.idx nx + nx ∧ q < nx * ny) ∧
      (∀ q, q ∈ tr.v1 → ∃ s ∈ c, s.d = .E ∧ q = s.idx nx) := by
  unfold follow at h
  simp only at h
  split at h
  · cases h
  · rename_i res hres
    simp only [Option.some.injEq] at h
    obtain ⟨m, hm, hit, hmin, hr⟩ := followLoop_char _ nx ny hole _ _ _ _ _ _ hres
    refine ⟨_, cycle_closed hstart hm hit, orbitL_nodup hstart hmin, ⟨m, hm, rfl, hit⟩, ?_, ?_, ?_⟩
    · rw [← h]; simp only [cycRing]; rw [hr, pts_fold]
    · intro q
      rw [← h]; simp only; rw [hr, mem_v2_fold]; simp
    · intro q hq
      rw [← h] at hq; simp only at hq; rw [hr] at hq
      rcases mem_v1_fold nx ny hole q _ _ hq with h1 | h1
      · simp at h1
      · exact h1

end XrsVerif.Polygonize
