import XrsVerif.Proofs.ILApplyRefines
/-
  Proofs/ILApplyEven.lean -- `_apply_numpy` with a kernel that has an even side (outside the property's domain:
  `custom_kernel` rejects such kernels before `apply` / `focal_stats` reach `_apply_numpy`).

  With `hrows = int(krows / 2)` the gather loops visit the kernel rows `ky - (y - hrows) = 0 … 2·hrows`; for an even
  `krows = 2·hrows` the last one does not exist (likewise for columns).  Unlike in `_convolve_2d_numpy` the visit is
  guarded by "is the data cell inside the raster", so the out-of-range index is only reached when the raster cell
  `(y + hrows, ·)` (resp. `(·, x + hcols)`) exists: then `kernel[kyidx, kxidx]` is read -- and, if it happens to be 1,
  `kernel_values[kyidx, kxidx]` written -- past the end.  numba performs no bounds check (undefined behaviour); ILang
  stops with `Ctl.err "index"`: `applyBody_even_err` (any inlined reducer).
-/
namespace XrsVerif.Focal
open XrsVerif XrsVerif.IL XrsVerif.IL.Sd XrsVerif.IL.Fc XrsVerif.Gen.Focal
set_option linter.unusedSectionVars false
set_option linter.unusedSimpArgs false
set_option linter.unusedVariables false
variable {F : Type} [Fl F]

/-- a loop whose iterations either run normally (keeping `Good`) or fail with `msg` ends running and `Good`, or with
    that error -/
theorem loopOver_run_or_err {α} (f : State F → α → State F) (xs : List α) (Good : State F → Prop) (msg : String)
    (hstep : ∀ (st : State F) (x : α), x ∈ xs → st.ctl = .run → Good st →
      ((f st x).ctl = .run ∧ Good (f st x)) ∨ (f st x).ctl = .err msg)
    (s : State F) (h0 : s.ctl = .run) (hg : Good s) :
    ((loopOver f xs s).ctl = .run ∧ Good (loopOver f xs s)) ∨ (loopOver f xs s).ctl = .err msg := by
  induction xs generalizing s with
  | nil => left; simp [h0, hg]
  | cons x xs ih =>
    rw [loopOver_cons _ _ _ _ h0]
    rcases hstep s x (by simp) h0 hg with ⟨hc, hgd⟩ | he
    · rw [afterBody_run _ hc]
      simp only [hc, if_true]
      exact ih (fun st y hy => hstep st y (by simp [hy])) _ hc hgd
    · right
      rw [afterBody_err _ _ he]
      simp only [he]
      rw [afterLoop_err _ _ he]; exact he

/-- the gather step up to the kernel test: outside the raster nothing happens, inside the two index variables are set -/
theorem gather_step_pre (data kernel : List F) (rows cols kr kc : Nat) (fuel : Nat) (s : State F) (y x ky kx : Int)
    (hI : AInv data kernel rows cols kr kc s) (vy : s.ienv "y" = y) (vx : s.ienv "x" = x) (vky : s.ienv "ky" = ky) :
    exec fuel stGatherStep { s with ienv := setS s.ienv "kx" kx } =
      if 0 ≤ ky ∧ ky < rows ∧ 0 ≤ kx ∧ kx < cols then
        exec fuel (.ite (.cmpF .eq (.ld2 "kernel" (.var "kyidx") (.var "kxidx")) (.ofInt (.lit 1)))
          (.stF2 "kernel_values" (.var "kyidx") (.var "kxidx") (.ld2 "data" (.var "ky") (.var "kx"))) .skip)
        { s with ienv := setS (setS (setS s.ienv "kx" kx) "kyidx" (ky - (y - ((kr / 2 : Nat) : Int))))
                   "kxidx" (kx - (x - ((kc / 2 : Nat) : Int))) }
      else { s with ienv := setS s.ienv "kx" kx } := by
  have hs := hI.ctl
  have vhr := hI.vhr
  have vhc := hI.vhc
  generalize ((kr / 2 : Nat) : Int) = hr' at *
  generalize ((kc / 2 : Nat) : Int) = hc' at *
  have hcok : BE.ok { s with ienv := setS s.ienv "kx" kx }
      (.and (.cmpI .ge (.var "ky") (.lit 0)) (.and (.cmpI .lt (.var "ky") (.var "rows")) (.and (.cmpI .ge (.var "kx") (.lit 0)) (.cmpI .lt (.var "kx") (.var "cols"))))) = true := by
    simp [BE.ok, IE.ok]
  have hcev : BE.eval { s with ienv := setS s.ienv "kx" kx }
      (.and (.cmpI .ge (.var "ky") (.lit 0)) (.and (.cmpI .lt (.var "ky") (.var "rows")) (.and (.cmpI .ge (.var "kx") (.lit 0)) (.cmpI .lt (.var "kx") (.var "cols"))))) =
      decide (0 ≤ ky ∧ ky < rows ∧ 0 ≤ kx ∧ kx < cols) := by
    simp [BE.eval, IE.eval, cmpInt, setS, vky, hI.vrows, hI.vcols]
  by_cases hin : 0 ≤ ky ∧ ky < rows ∧ 0 ≤ kx ∧ kx < cols
  · rw [if_pos hin]
    simp only [stGatherStep]
    rw [exec_ite_true fuel _ _ _ _ hcok (by rw [hcev]; simp [hin])]
    rw [exec_seq_eq fuel _ _ _ { s with ienv := setS (setS s.ienv "kx" kx) "kyidx" (ky - (y - hr')) }
      (by simp [exec, IE.ok, IE.eval, IOp.eval, setS, vy, vky, vhr]) hs]
    rw [exec_seq_eq fuel _ _ _ { s with ienv := setS (setS (setS s.ienv "kx" kx) "kyidx" (ky - (y - hr'))) "kxidx" (kx - (x - hc')) }
      (by simp [exec, IE.ok, IE.eval, IOp.eval, setS, vx, vhc]) hs]
  · rw [if_neg hin]
    simp only [stGatherStep]
    rw [exec_ite_false fuel _ _ _ _ hcok (by rw [hcev]; simp [hin])]
    simp only [exec]

/-- inside the raster, with the kernel index at or beyond an extent of the kernel: the read `kernel[kyidx, kxidx]` fails -/
theorem gather_step_err (data kernel : List F) (rows cols kr kc : Nat) (fuel : Nat) (s : State F) (y x ky kx : Int)
    (hI : AInv data kernel rows cols kr kc s) (vy : s.ienv "y" = y) (vx : s.ienv "x" = x) (vky : s.ienv "ky" = ky)
    (hin : 0 ≤ ky ∧ ky < rows ∧ 0 ≤ kx ∧ kx < cols)
    (hbad : (kr : Int) ≤ ky - (y - ((kr / 2 : Nat) : Int)) ∨ (kc : Int) ≤ kx - (x - ((kc / 2 : Nat) : Int))) :
    (exec fuel stGatherStep { s with ienv := setS s.ienv "kx" kx }).ctl = .err "index" := by
  rw [gather_step_pre data kernel rows cols kr kc fuel s y x ky kx hI vy vx vky, if_pos hin]
  have shk := hI.shk
  generalize ((kr / 2 : Nat) : Int) = hr' at *
  generalize ((kc / 2 : Nat) : Int) = hc' at *
  have hbad' : inRange (ky - (y - hr')) kr = false ∨ inRange (kx - (x - hc')) kc = false := by
    rcases hbad with h | h
    · left; exact inRange_ge _ _ h
    · right; exact inRange_ge _ _ h
  rw [exec_ite_err]
  · rfl
  · rcases hbad' with h | h <;> simp [BE.ok, FE.ok, IE.ok, IE.eval, setS, shk, h]

/-- any gather step with non-negative kernel index runs normally or fails with an index error -/
theorem gather_step_weak (data kernel : List F) (rows cols kr kc : Nat) (fuel : Nat) (s : State F) (y x ky kx : Int)
    (hI : AInv data kernel rows cols kr kc s) (vy : s.ienv "y" = y) (vx : s.ienv "x" = x) (vky : s.ienv "ky" = ky)
    (ha0 : 0 ≤ ky - (y - ((kr / 2 : Nat) : Int))) (hb0 : 0 ≤ kx - (x - ((kc / 2 : Nat) : Int))) :
    Frame ["kx", "kyidx", "kxidx"] ["kernel_values"] [] s (exec fuel stGatherStep { s with ienv := setS s.ienv "kx" kx }) ∨
    (exec fuel stGatherStep { s with ienv := setS s.ienv "kx" kx }).ctl = .err "index" := by
  by_cases hlt : ky - (y - ((kr / 2 : Nat) : Int)) < kr ∧ kx - (x - ((kc / 2 : Nat) : Int)) < kc
  · left
    exact (gather_step data kernel rows cols kr kc fuel s y x ky kx hI vy vx vky ha0 hlt.1 hb0 hlt.2).1
  · by_cases hin : 0 ≤ ky ∧ ky < rows ∧ 0 ≤ kx ∧ kx < cols
    · right
      exact gather_step_err data kernel rows cols kr kc fuel s y x ky kx hI vy vx vky hin (by omega)
    · left
      rw [gather_step_pre data kernel rows cols kr kc fuel s y x ky kx hI vy vx vky, if_neg hin]
      exact Frame.setI _ _ _ s "kx" kx hI.ctl (by simp)

/-- the `kx` loop runs normally or fails with an index error -/
theorem gather_kx_weak (data kernel : List F) (rows cols kr kc : Nat) (fuel : Nat) (s : State F) (y x ky : Int)
    (hI : AInv data kernel rows cols kr kc s) (vy : s.ienv "y" = y) (vx : s.ienv "x" = x) (vky : s.ienv "ky" = ky)
    (ha0 : 0 ≤ ky - (y - ((kr / 2 : Nat) : Int))) :
    Frame ["kx", "kyidx", "kxidx"] ["kernel_values"] [] s (exec fuel stGatherKx s) ∨
    (exec fuel stGatherKx s).ctl = .err "index" := by
  have hr : exec fuel stGatherKx s = loopOver (fun st i => exec fuel stGatherStep { st with ienv := setS st.ienv "kx" i })
      (intRange (x - ((kc / 2 : Nat) : Int)) (x + ((kc / 2 : Nat) : Int) + 1)) s := by
    simp only [stGatherKx]
    rw [exec_forRange_step1 _ _ _ _ _ _ rfl rfl]
    simp only [IE.eval, IOp.eval, vx, hI.vhc, intRange_eq]
  rw [hr]
  rcases loopOver_run_or_err (fun st i => exec fuel stGatherStep { st with ienv := setS st.ienv "kx" i })
    (intRange (x - ((kc / 2 : Nat) : Int)) (x + ((kc / 2 : Nat) : Int) + 1))
    (fun st => Frame ["kx", "kyidx", "kxidx"] ["kernel_values"] [] s st) "index"
    (by
      intro st kx hx hc hF
      have hx' := (mem_intRange' _ _ _).mp hx
      have hI' := hI.frame hF (by decide) (by decide) (by decide) (by decide) (by decide) (by decide)
      rcases gather_step_weak data kernel rows cols kr kc fuel st y x ky kx hI'
        (by rw [hF.ienv _ (by decide)]; exact vy) (by rw [hF.ienv _ (by decide)]; exact vx)
        (by rw [hF.ienv _ (by decide)]; exact vky) ha0 (by omega) with h | h
      · exact Or.inl ⟨h.ctl, hF.trans h⟩
      · exact Or.inr h)
    s hI.ctl (Frame.refl _ _ _ s hI.ctl) with h | h
  · exact Or.inl h.2
  · exact Or.inr h

/-- the `kx` loop fails when it visits a raster cell whose kernel index is out of range -/
theorem gather_kx_err (data kernel : List F) (rows cols kr kc : Nat) (fuel : Nat) (s : State F) (y x ky kx0 : Int)
    (hI : AInv data kernel rows cols kr kc s) (vy : s.ienv "y" = y) (vx : s.ienv "x" = x) (vky : s.ienv "ky" = ky)
    (ha0 : 0 ≤ ky - (y - ((kr / 2 : Nat) : Int)))
    (hk0 : x - ((kc / 2 : Nat) : Int) ≤ kx0) (hk1 : kx0 < x + ((kc / 2 : Nat) : Int) + 1)
    (hin : 0 ≤ ky ∧ ky < rows ∧ 0 ≤ kx0 ∧ kx0 < cols)
    (hbad : (kr : Int) ≤ ky - (y - ((kr / 2 : Nat) : Int)) ∨ (kc : Int) ≤ kx0 - (x - ((kc / 2 : Nat) : Int))) :
    (exec fuel stGatherKx s).ctl = .err "index" := by
  have hr : exec fuel stGatherKx s = loopOver (fun st i => exec fuel stGatherStep { st with ienv := setS st.ienv "kx" i })
      (intRange (x - ((kc / 2 : Nat) : Int)) (x + ((kc / 2 : Nat) : Int) + 1)) s := by
    simp only [stGatherKx]
    rw [exec_forRange_step1 _ _ _ _ _ _ rfl rfl]
    simp only [IE.eval, IOp.eval, vx, hI.vhc, intRange_eq]
  rw [hr]
  have hlen : (kx0 - (x - ((kc / 2 : Nat) : Int))).toNat < (intRange (x - ((kc / 2 : Nat) : Int)) (x + ((kc / 2 : Nat) : Int) + 1)).length := by
    simp only [intRange, List.length_map, List.length_range]; omega
  apply loopOver_err_weak _ _ (fun st => Frame ["kx", "kyidx", "kxidx"] ["kernel_values"] [] s st) "index"
    (kx0 - (x - ((kc / 2 : Nat) : Int))).toNat hlen _ _ s hI.ctl (Frame.refl _ _ _ s hI.ctl)
  · intro st i hi hc hF
    have hI' := hI.frame hF (by decide) (by decide) (by decide) (by decide) (by decide) (by decide)
    simp only [intRange, List.getElem_map, List.getElem_range]
    rcases gather_step_weak data kernel rows cols kr kc fuel st y x ky (x - ((kc / 2 : Nat) : Int) + (i : Int)) hI'
      (by rw [hF.ienv _ (by decide)]; exact vy) (by rw [hF.ienv _ (by decide)]; exact vx)
      (by rw [hF.ienv _ (by decide)]; exact vky) ha0 (by omega) with h | h
    · exact Or.inl ⟨h.ctl, hF.trans h⟩
    · exact Or.inr h
  · intro st hc hF
    have hI' := hI.frame hF (by decide) (by decide) (by decide) (by decide) (by decide) (by decide)
    simp only [intRange, List.getElem_map, List.getElem_range]
    have e : x - ((kc / 2 : Nat) : Int) + ((kx0 - (x - ((kc / 2 : Nat) : Int))).toNat : Int) = kx0 := by omega
    rw [e]
    exact gather_step_err data kernel rows cols kr kc fuel st y x ky kx0 hI'
      (by rw [hF.ienv _ (by decide)]; exact vy) (by rw [hF.ienv _ (by decide)]; exact vx)
      (by rw [hF.ienv _ (by decide)]; exact vky) hin hbad

/-- the `ky` loop fails when the window of cell `(y, x)` contains a raster cell whose kernel index is out of range -/
theorem gather_ky_err (data kernel : List F) (rows cols kr kc : Nat) (fuel : Nat) (s : State F) (y x ky0 kx0 : Int)
    (hI : AInv data kernel rows cols kr kc s) (vy : s.ienv "y" = y) (vx : s.ienv "x" = x)
    (hy0 : y - ((kr / 2 : Nat) : Int) ≤ ky0) (hy1 : ky0 < y + ((kr / 2 : Nat) : Int) + 1)
    (hk0 : x - ((kc / 2 : Nat) : Int) ≤ kx0) (hk1 : kx0 < x + ((kc / 2 : Nat) : Int) + 1)
    (hin : 0 ≤ ky0 ∧ ky0 < rows ∧ 0 ≤ kx0 ∧ kx0 < cols)
    (hbad : (kr : Int) ≤ ky0 - (y - ((kr / 2 : Nat) : Int)) ∨ (kc : Int) ≤ kx0 - (x - ((kc / 2 : Nat) : Int))) :
    (exec fuel stGather s).ctl = .err "index" := by
  have hr : exec fuel stGather s = loopOver (fun st i => exec fuel stGatherKx { st with ienv := setS st.ienv "ky" i })
      (intRange (y - ((kr / 2 : Nat) : Int)) (y + ((kr / 2 : Nat) : Int) + 1)) s := by
    simp only [stGather]
    rw [exec_forRange_step1 _ _ _ _ _ _ rfl rfl]
    simp only [IE.eval, IOp.eval, vy, hI.vhr, intRange_eq]
  rw [hr]
  have hlen : (ky0 - (y - ((kr / 2 : Nat) : Int))).toNat < (intRange (y - ((kr / 2 : Nat) : Int)) (y + ((kr / 2 : Nat) : Int) + 1)).length := by
    simp only [intRange, List.length_map, List.length_range]; omega
  have hpre : ∀ (st : State F) (ky : Int), st.ctl = .run → Frame ["ky", "kx", "kyidx", "kxidx"] ["kernel_values"] [] s st →
      Frame ["ky", "kx", "kyidx", "kxidx"] ["kernel_values"] [] s { st with ienv := setS st.ienv "ky" ky } :=
    fun st ky hc hF => hF.trans (Frame.setI _ _ _ st "ky" ky hc (by simp))
  apply loopOver_err_weak _ _ (fun st => Frame ["ky", "kx", "kyidx", "kxidx"] ["kernel_values"] [] s st) "index"
    (ky0 - (y - ((kr / 2 : Nat) : Int))).toNat hlen _ _ s hI.ctl (Frame.refl _ _ _ s hI.ctl)
  · intro st i hi hc hF
    have hF2 := hpre st (y - ((kr / 2 : Nat) : Int) + (i : Int)) hc hF
    have hI' := hI.frame hF2 (by decide) (by decide) (by decide) (by decide) (by decide) (by decide)
    simp only [intRange, List.getElem_map, List.getElem_range]
    rcases gather_kx_weak data kernel rows cols kr kc fuel _ y x (y - ((kr / 2 : Nat) : Int) + (i : Int)) hI'
      (by rw [hF2.ienv _ (by decide)]; exact vy) (by rw [hF2.ienv _ (by decide)]; exact vx) (by simp) (by omega) with h | h
    · exact Or.inl ⟨h.ctl, hF2.trans (h.mono (by simp) (by simp) (by simp))⟩
    · exact Or.inr h
  · intro st hc hF
    simp only [intRange, List.getElem_map, List.getElem_range]
    have e : y - ((kr / 2 : Nat) : Int) + ((ky0 - (y - ((kr / 2 : Nat) : Int))).toNat : Int) = ky0 := by omega
    rw [e]
    have hF2 := hpre st ky0 hc hF
    have hI' := hI.frame hF2 (by decide) (by decide) (by decide) (by decide) (by decide) (by decide)
    exact gather_kx_err data kernel rows cols kr kc fuel _ y x ky0 kx0 hI'
      (by rw [hF2.ienv _ (by decide)]; exact vy) (by rw [hF2.ienv _ (by decide)]; exact vx) (by simp) (by omega)
      hk0 hk1 hin hbad

/-- the per-cell body fails in that case, whatever the reducer -/
theorem apply_cell_err (red : St) (rv : String) (data kernel : List F) (rows cols kr kc : Nat)
    (fuel : Nat) (s : State F) (y x ky0 kx0 : Int) (hI : AInv data kernel rows cols kr kc s)
    (vy : s.ienv "y" = y) (vx : s.ienv "x" = x)
    (hy0 : y - ((kr / 2 : Nat) : Int) ≤ ky0) (hy1 : ky0 < y + ((kr / 2 : Nat) : Int) + 1)
    (hk0 : x - ((kc / 2 : Nat) : Int) ≤ kx0) (hk1 : kx0 < x + ((kc / 2 : Nat) : Int) + 1)
    (hin : 0 ≤ ky0 ∧ ky0 < rows ∧ 0 ≤ kx0 ∧ kx0 < cols)
    (hbad : (kr : Int) ≤ ky0 - (y - ((kr / 2 : Nat) : Int)) ∨ (kc : Int) ≤ kx0 - (x - ((kc / 2 : Nat) : Int))) :
    (exec fuel (stCellA red rv) s).ctl = .err "index" := by
  have hs := hI.ctl
  have h1 : exec fuel stFill s =
      { s with fa := setS s.fa "kernel_values" (List.replicate (kr * kc) Fl.nan) } := by
    have e : setS s.shp "kernel_values" [kr, kc] = s.shp := by rw [← hI.shv]; exact setS_self _ _
    simp [stFill, exec, IE.ok, IE.eval, FE.ok, FE.eval, hI.shv, e]
  have hI1 : AInv data kernel rows cols kr kc { s with fa := setS s.fa "kernel_values" (List.replicate (kr * kc) Fl.nan) } :=
    ⟨hs, hI.shd, hI.shk, hI.sho, hI.shv, by simp [setS, hI.fad], by simp [setS, hI.fak], hI.vrows, hI.vcols, hI.vhr, hI.vhc⟩
  have herr := gather_ky_err data kernel rows cols kr kc fuel _ y x ky0 kx0 hI1 vy vx hy0 hy1 hk0 hk1 hin hbad
  simp only [stCellA]
  rw [exec_seq_eq fuel _ _ _ _ h1 hs, exec_seq_stop fuel _ _ _ (by rw [herr]; simp)]
  exact herr

/-- **even kernels.** `_apply_numpy` (any inlined reducer) with a kernel whose row count is even and at most twice
    the raster's (`krows / 2 < rows`, at least one column), or whose column count is even (`kcols / 2 < cols`, at least one
    row): already at output cell `(0, 0)` the program stops with an out-of-range read of `kernel` -/
theorem applyBody_even_err (red : St) (rv : String) (data kernel : List F) (rows cols kr kc : Nat) (s : State F) (fuel : Nat)
    (hin : ApplyInput data kernel rows cols kr kc s)
    (heven : (kr % 2 = 0 ∧ kr / 2 < rows ∧ 0 < cols) ∨ (kc % 2 = 0 ∧ kc / 2 < cols ∧ 0 < rows)) :
    (exec fuel (applyBody red rv) s).ctl = .err "index" := by
  simp only [applyBody]
  rw [apply_prefix data kernel rows cols kr kc fuel s hin]
  have hI := applyStart_inv data kernel rows cols kr kc s hin
  generalize applyStart s rows cols kr kc = s0 at *
  have hrows : 0 < rows := by rcases heven with h | h <;> omega
  have hcols : 0 < cols := by rcases heven with h | h <;> omega
  -- the witness: a raster cell in the window of output cell (0, 0) whose kernel index is out of range
  obtain ⟨ky0, kx0, w1, w2, w3, w4, w5, w6⟩ : ∃ ky0 kx0 : Int,
      (0 : Int) - ((kr / 2 : Nat) : Int) ≤ ky0 ∧ ky0 < (0 : Int) + ((kr / 2 : Nat) : Int) + 1 ∧
      (0 : Int) - ((kc / 2 : Nat) : Int) ≤ kx0 ∧ kx0 < (0 : Int) + ((kc / 2 : Nat) : Int) + 1 ∧
      (0 ≤ ky0 ∧ ky0 < rows ∧ 0 ≤ kx0 ∧ kx0 < cols) ∧
      ((kr : Int) ≤ ky0 - ((0 : Int) - ((kr / 2 : Nat) : Int)) ∨ (kc : Int) ≤ kx0 - ((0 : Int) - ((kc / 2 : Nat) : Int))) := by
    rcases heven with h | h
    · exact ⟨((kr / 2 : Nat) : Int), 0, by omega, by omega, by omega, by omega, ⟨by omega, by omega, by omega, by omega⟩,
        Or.inl (by omega)⟩
    · exact ⟨0, ((kc / 2 : Nat) : Int), by omega, by omega, by omega, by omega, ⟨by omega, by omega, by omega, by omega⟩,
        Or.inr (by omega)⟩
  have hset : ∀ (v : String) (st : State F) (i : Int), v ≠ "rows" → v ≠ "cols" → v ≠ "hrows" → v ≠ "hcols" →
      AInv data kernel rows cols kr kc st → AInv data kernel rows cols kr kc { st with ienv := setS st.ienv v i } := by
    intro v st i n1 n2 n3 n4 h
    exact ⟨h.ctl, h.shd, h.shk, h.sho, h.shv, h.fad, h.fak, by simp [setS, Ne.symm n1, h.vrows],
      by simp [setS, Ne.symm n2, h.vcols], by simp [setS, Ne.symm n3, h.vhr], by simp [setS, Ne.symm n4, h.vhc]⟩
  have herr : (exec fuel (stRaster red rv) s0).ctl = .err "index" := by
    simp only [stRaster]
    rw [exec_forRange_up fuel "y" (.var "rows") _ s0 rows rfl hI.vrows]
    have hlen : 0 < ((List.range rows).map (fun (k : Nat) => (k : Int))).length := by simpa using hrows
    apply loopOver_err _ _ (fun st => st = s0) "index" 0 hlen (fun _ _ hi => absurd hi (Nat.not_lt_zero _)) _ s0 hI.ctl rfl
    intro st hc hst
    subst hst
    have hx : ((List.range rows).map (fun (k : Nat) => (k : Int)))[0] = (0 : Int) := by simp
    rw [hx]
    have hI1 := hset "y" st 0 (by decide) (by decide) (by decide) (by decide) hI
    rw [exec_forRange_up fuel "x" (.var "cols") _ _ cols rfl hI1.vcols]
    have hlen2 : 0 < ((List.range cols).map (fun (k : Nat) => (k : Int))).length := by simpa using hcols
    apply loopOver_err _ _ (fun st' => st' = { st with ienv := setS st.ienv "y" 0 }) "index" 0 hlen2
      (fun _ _ hi => absurd hi (Nat.not_lt_zero _)) _ _ hI1.ctl rfl
    intro st' hc' hst'
    subst hst'
    have hx2 : ((List.range cols).map (fun (k : Nat) => (k : Int)))[0] = (0 : Int) := by simp
    rw [hx2]
    have hI2 := hset "x" _ 0 (by decide) (by decide) (by decide) (by decide) hI1
    exact apply_cell_err red rv data kernel rows cols kr kc fuel _ 0 0 ky0 kx0 hI2 (by simp [setS]) (by simp)
      w1 w2 w3 w4 w5 w6
  rw [exec_seq_stop fuel _ _ _ (by rw [herr]; simp)]
  exact herr

end XrsVerif.Focal
