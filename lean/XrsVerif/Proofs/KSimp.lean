import XrsVerif.Proofs.NV
/-! `ksimp`: symbolic execution of a generated kernel by `simp` -/
namespace XrsVerif

/-- unfold the KLang semantics (plus the given definitions) and simplify -/
syntax "ksimp" ("[" Lean.Parser.Tactic.simpLemma,* "]")? : tactic
macro_rules
  | `(tactic| ksimp) => `(tactic| simp [Kernel.cell, Kernel.cellFailed, S.exec, E.eval, C.eval, CmpOp.eval, BinOp.eval,
      UnOp.eval, setVar, Fill.val, envOf, rd0])
  | `(tactic| ksimp [$ts,*]) => `(tactic| simp [Kernel.cell, Kernel.cellFailed, S.exec, E.eval, C.eval, CmpOp.eval,
      BinOp.eval, UnOp.eval, setVar, Fill.val, envOf, rd0, $ts,*])

end XrsVerif
