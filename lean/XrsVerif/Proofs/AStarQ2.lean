import XrsVerif.Proofs.AStarHom
/-
  The executable exact instance `opsQ2` (costs `a + b√2` as pairs of naturals, heuristic 0, i.e.
  Dijkstra) is a homomorphic image of exact field arithmetic, so `search_exact` applies to what
  the driver actually runs.
-/
set_option linter.unusedSectionVars false
set_option linter.unusedVariables false
namespace XrsVerif.AStar
variable {K : Type} [Field K] [LinearOrder K] [IsStrictOrderedRing K]

/-- the value of the pair `(a, b)`: `a + b·s` -/
def q2val (s : K) (x : Q2) : K := (x.1 : K) + (x.2 : K) * s

theorem lt_iff_sq {a b : K} (ha : 0 ≤ a) (hb : 0 ≤ b) : a < b ↔ a * a < b * b :=
  mul_self_lt_mul_self_iff ha hb

theorem Q2.lt_spec (s : K) (hs0 : 0 < s) (hs : s * s = 2) (x y : Q2) :
    Q2.lt x y = decide (q2val s x < q2val s y) := by
  -- p < q·s  with p = x.1 - y.1, q = y.2 - x.2
  have key : q2val s x < q2val s y ↔ (((x.1 : Int) - y.1 : Int) : K) < (((y.2 : Int) - x.2 : Int) : K) * s := by
    unfold q2val; push_cast; constructor <;> intro h <;> linarith
  unfold Q2.lt
  simp only
  generalize ((x.1 : Int) - y.1) = p at *
  generalize ((y.2 : Int) - x.2) = q at *
  rw [decide_eq_decide.mpr key]
  by_cases hp : p < 0
  · simp only [hp, if_true]
    have hpK : (p : K) < 0 := by exact_mod_cast hp
    by_cases hq : q ≥ 0
    · simp only [hq, if_true]
      have hqK : (0 : K) ≤ (q : K) := by exact_mod_cast hq
      symm; rw [decide_eq_true_iff]
      have : 0 ≤ (q : K) * s := mul_nonneg hqK (le_of_lt hs0)
      linarith
    · simp only [hq, if_false]
      have hq' : q < 0 := not_le.mp hq
      have hqK : (q : K) < 0 := by exact_mod_cast hq'
      rw [decide_eq_decide]
      -- p < q s  <->  (-q) s < -p  <->  ((-q) s)^2 < p^2
      have h1 : (p : K) < (q : K) * s ↔ (-(q : K)) * s < -(p : K) := by constructor <;> intro h <;> linarith
      rw [h1, lt_iff_sq (mul_nonneg (by linarith) (le_of_lt hs0)) (by linarith)]
      have h2 : -(q : K) * s * (-(q : K) * s) = 2 * (q : K) * (q : K) := by
        have : -(q : K) * s * (-(q : K) * s) = (q : K) * (q : K) * (s * s) := by ring
        rw [this, hs]; ring
      have h3 : -(p : K) * -(p : K) = (p : K) * (p : K) := by ring
      rw [h2, h3]
      constructor
      · intro h; exact_mod_cast h
      · intro h; exact_mod_cast h
  · simp only [hp, if_false]
    have hp' : 0 ≤ p := not_lt.mp hp
    have hpK : (0 : K) ≤ (p : K) := by exact_mod_cast hp'
    by_cases hq : q ≤ 0
    · simp only [hq, if_true]
      have hqK : (q : K) ≤ 0 := by exact_mod_cast hq
      symm; rw [decide_eq_false_iff_not]
      have : (q : K) * s ≤ 0 := mul_nonpos_of_nonpos_of_nonneg hqK (le_of_lt hs0)
      linarith
    · simp only [hq, if_false]
      have hq' : 0 < q := not_le.mp hq
      have hqK : (0 : K) < (q : K) := by exact_mod_cast hq'
      rw [decide_eq_decide]
      rw [lt_iff_sq hpK (mul_nonneg (le_of_lt hqK) (le_of_lt hs0))]
      have h2 : (q : K) * s * ((q : K) * s) = 2 * (q : K) * (q : K) := by
        have : (q : K) * s * ((q : K) * s) = (q : K) * (q : K) * (s * s) := by ring
        rw [this, hs]; ring
      rw [h2]
      constructor
      · intro h; exact_mod_cast h
      · intro h; exact_mod_cast h

/-- the step lengths of `opsQ2` as field elements: `1` along a row or column, `s` diagonally -/
def wtQ (s : K) (u v : Cell) : K := q2val s (stepQ2 u v)

theorem wtQ_cases (s : K) (u v : Cell) : wtQ s u v = 1 ∨ wtQ s u v = s := by
  unfold wtQ stepQ2 q2val
  split <;> simp

theorem opsQ2_hom (s : K) (hs0 : 0 < s) (hs : s * s = 2) :
    OpsHom (q2val s) opsQ2 (fieldOps (wtQ s) (fun _ _ => 0)) where
  zero := by simp [q2val, opsQ2, fieldOps]
  add a b := by simp only [q2val, opsQ2, fieldOps]; push_cast; ring
  lt a b := by simp only [opsQ2, fieldOps]; exact Q2.lt_spec s hs0 hs a b
  step u v := rfl
  heur u v := by simp [q2val, opsQ2, fieldOps]
  big h w := by simp only [q2val, opsQ2, fieldOps]; push_cast; ring

/-- **the exact instance the driver runs is complete and optimal**: for every square root of two
    `s` in an ordered field, the pair `(a, b)` it reports at the goal satisfies
    `a + b·s ≤` the length of every route (steps cost `1` or `s`), it reports a path whenever a
    route exists, and it never reaches the sentinel -/
theorem search_q2_exact (s : K) (hs : s * s = 2) (hs0 : 0 < s) (e : Env Q2) (hops : e.ops = opsQ2)
    (hstart : inside e.h e.w e.start = true) :
    match search e with
    | .path chain g => ValidPath e chain g ∧
        ∀ l, Route (e.withOps (fieldOps (wtQ s) (fun _ _ => 0))) e.goal l → q2val s (g e.goal) ≤ l
    | .noPath => ∀ l, ¬ Route e e.goal l
    | .anomaly _ => False := by
  have hs1 : 1 ≤ s := by by_contra h; have := not_le.mp h; nlinarith
  have hs2 : s < 2 := by by_contra h; have := not_lt.mp h; nlinarith
  have hom : OpsHom (q2val s) e.ops (fieldOps (wtQ s) (fun _ _ => 0)) := hops ▸ opsQ2_hom s hs0 hs
  have hK := search_exact (e := e.withOps (fieldOps (wtQ s) (fun _ _ => 0))) (wt := wtQ s)
    (hh := fun _ _ => 0) rfl
    (by
      intro u v _ _ _
      rcases wtQ_cases s u v with h | h
      · rw [h]; simp
      · rw [h]; simp; linarith)
    hstart (s := s) (le_of_lt hs0) hs2
    (by intro u v _; rcases wtQ_cases s u v with h | h
        · rw [h]; exact hs1
        · rw [h])
    (by intro v _; positivity)
  rw [← search_map hom] at hK
  have hgen := search_spec e hstart (fun _ => True) (fun _ _ _ _ _ _ => trivial) trivial
  cases hsr : search e with
  | path chain g =>
    rw [hsr] at hK hgen
    simp only [Outcome.map] at hK
    exact ⟨hgen.1, hK.2⟩
  | noPath => rw [hsr] at hgen; exact hgen
  | anomaly w => rw [hsr] at hK; simp [Outcome.map] at hK

end XrsVerif.AStar
