import XrsVerif.Proofs.ILangVssweep
/-
  Proofs/ILVsSweepDefs.lean -- the generated `_viewshed_cpu_sweep` (`Gen.IL.vsSweep`, 2200 lines) cut into named pieces.

  The sweep's own code (status-structure creation, the idle stack, the initial fill of the observer's row, the event loop
  with its three branches) is written out as a template over the inlined geometry functions (`posBody`, `angBody`,
  `vangBody` of Proofs/ILangVssweep.lean; `gradBody`, `distBody` here).  The four inlined status-tree routines -- two copies
  of `_insert_into_tree`, `_delete_from_tree`, `_max_grad_in_status_struct`, 1400 lines -- are *parameters* of the template:
  they are cut out of the generated program itself (`scopeAfter`), so that the template check
  `vsSweep_is_template : Gen.IL.vsSweep.body = sweepBody insFill insLoop delLoop qryLoop` (by `rfl`) pins down everything
  around them, and the iteration theorems (Proofs/ILVsSweep*.lean) can treat them as black boxes with a stated contract.
-/
namespace XrsVerif.ILSw
open XrsVerif XrsVerif.IL

/-- the body of the first `.scope` that directly follows an assignment to the scalar `v` -/
def scopeAfter (v : String) : St → Option St
  | .seq a b =>
    (match a, b with
      | .setI v' _, .seq (.scope body) _ => if v' = v then some body else none
      | .setF v' _, .seq (.scope body) _ => if v' = v then some body else none
      | .setI v' _, .scope body => if v' = v then some body else none
      | _, _ => none) <|> scopeAfter v a <|> scopeAfter v b
  | .ite _ t f => scopeAfter v t <|> scopeAfter v f
  | .while _ b => scopeAfter v b
  | .forRange _ _ _ _ b => scopeAfter v b
  | .forIn _ _ b => scopeAfter v b
  | .scope b => scopeAfter v b
  | _ => none

/-- the four inlined status-tree routines of the generated sweep -/
def insFill : St := (scopeAfter "_insert_into_tree15$node_id" Gen.IL.vsSweep.body).getD .skip
def insLoop : St := (scopeAfter "_insert_into_tree45$node_id" Gen.IL.vsSweep.body).getD .skip
def delLoop : St := (scopeAfter "_delete_from_tree64$key" Gen.IL.vsSweep.body).getD .skip
def qryLoop : St := (scopeAfter "_max_grad_in_status_struct101$gradient" Gen.IL.vsSweep.body).getD .skip

/-! ### the small inlined functions -/

/-- `_init_status_node(status_node)` -/
def initNode : St :=
  .scope (.seq (.stF1 "status_node" (.lit 0) (.ofInt (.lit (-1))))
    (.seq (.stF1 "status_node" (.lit 1) .nan) (.seq (.stF1 "status_node" (.lit 2) .nan) (.seq (.stF1 "status_node" (.lit 3) .nan)
    (.seq (.stF1 "status_node" (.lit 4) .nan) (.seq (.stF1 "status_node" (.lit 5) .nan) (.seq (.stF1 "status_node" (.lit 6) .nan)
    .ret)))))))

/-- the gradient part shared by `_calc_event_grad` and `_calc_dist_n_grad` -/
def gradIte (p : String) : St :=
  .ite (.cmpF .eq (.var (p ++ "distance_to_viewpoint")) (.ofInt (.lit 0)))
    (.ite (.cmpF .gt (.var (p ++ "diff_elev")) (.ofInt (.lit 0)))
      (.setF (p ++ "gradient") (.bin .div .pi (.ofInt (.lit 2))))
      (.ite (.cmpF .lt (.var (p ++ "diff_elev")) (.ofInt (.lit 0)))
        (.setF (p ++ "gradient") (.bin .div (.un .neg .pi) (.ofInt (.lit 2))))
        (.setF (p ++ "gradient") (.ofInt (.lit 0)))))
    (.setF (p ++ "gradient") (.un .atan (.bin .div (.var (p ++ "diff_elev")) (.un .sqrt (.var (p ++ "distance_to_viewpoint"))))))

def dist2 (p : String) : St :=
  .setF (p ++ "distance_to_viewpoint") (.bin .add (.bin .mul (.var (p ++ "dx")) (.var (p ++ "dx"))) (.bin .mul (.var (p ++ "dy")) (.var (p ++ "dy"))))

/-- the body of `_calc_event_grad(row, col, elev, …)` (numeric `row`, `col`: an event point) -/
def gradBody (p : String) : St :=
  (.seq (.setF (p ++ "diff_elev") (.bin .sub (.var (p ++ "elev")) (.var (p ++ "viewpoint_elev"))))
  (.seq (.setF (p ++ "dx") (.bin .mul (.bin .sub (.var (p ++ "col")) (.ofInt (.var (p ++ "viewpoint_col")))) (.var (p ++ "ew_res"))))
  (.seq (.setF (p ++ "dy") (.bin .mul (.bin .sub (.var (p ++ "row")) (.ofInt (.var (p ++ "viewpoint_row")))) (.var (p ++ "ns_res"))))
  (.seq (dist2 p)
  (.seq (gradIte p)
  (.seq (.setF (p ++ "ret0") (.var (p ++ "gradient")))
  .ret))))))

/-- the body of `_calc_dist_n_grad(status_node_row, status_node_col, elev, …)` (integer row, column: a cell centre) -/
def distBody (p : String) : St :=
  (.seq (.setF (p ++ "diff_elev") (.bin .sub (.var (p ++ "elev")) (.var (p ++ "viewpoint_elev"))))
  (.seq (.setF (p ++ "dx") (.bin .mul (.ofInt (.bin .sub (.var (p ++ "status_node_col")) (.var (p ++ "viewpoint_col")))) (.var (p ++ "ew_res"))))
  (.seq (.setF (p ++ "dy") (.bin .mul (.ofInt (.bin .sub (.var (p ++ "status_node_row")) (.var (p ++ "viewpoint_row")))) (.var (p ++ "ns_res"))))
  (.seq (dist2 p)
  (.seq (gradIte p)
  (.seq (.setF (p ++ "ret0") (.var (p ++ "distance_to_viewpoint")))
  (.seq (.setF (p ++ "ret1") (.var (p ++ "gradient")))
  .ret)))))))

/-- `ay, ax = _calc_event_pos(ty, row, col, vp_row, vp_col)` -/
def posCallI (p : String) (tyE rowE colE : IE) (rest : St) : St :=
  (.seq (.setI (p ++ "event_type") tyE)
  (.seq (.setI (p ++ "event_row") rowE)
  (.seq (.setI (p ++ "event_col") colE)
  (.seq (.setI (p ++ "viewpoint_row") (.var "vp_row"))
  (.seq (.setI (p ++ "viewpoint_col") (.var "vp_col"))
  (.seq (.scope (posBody .int p))
  (.seq (.setF "ay" (.var (p ++ "ret0")))
  (.seq (.setF "ax" (.var (p ++ "ret1")))
  rest))))))))

/-- `status_node[k] = _calculate_angle(ax, ay, vp_col, vp_row)` -/
def angCall (a : String) (k : Int) (rest : St) : St :=
  (.seq (.setF (a ++ "event_x") (.var "ax"))
  (.seq (.setF (a ++ "event_y") (.var "ay"))
  (.seq (.setI (a ++ "viewpoint_x") (.var "vp_col"))
  (.seq (.setI (a ++ "viewpoint_y") (.var "vp_row"))
  (.seq (.scope (angBody a))
  (.seq (.stF1 "status_node" (.lit k) (.var (a ++ "ret0")))
  rest))))))

/-- `status_node[k] = _calc_event_grad(ay, ax, elev, vp_row, vp_col, vp_elev, ew_res, ns_res)` -/
def gradCall (g : String) (elevE : FE) (k : Int) (rest : St) : St :=
  (.seq (.setF (g ++ "row") (.var "ay"))
  (.seq (.setF (g ++ "col") (.var "ax"))
  (.seq (.setF (g ++ "elev") elevE)
  (.seq (.setI (g ++ "viewpoint_row") (.var "vp_row"))
  (.seq (.setI (g ++ "viewpoint_col") (.var "vp_col"))
  (.seq (.setF (g ++ "viewpoint_elev") (.var "vp_elev"))
  (.seq (.setF (g ++ "ew_res") (.var "ew_res"))
  (.seq (.setF (g ++ "ns_res") (.var "ns_res"))
  (.seq (.scope (gradBody g))
  (.seq (.stF1 "status_node" (.lit k) (.var (g ++ "ret0")))
  rest))))))))))

/-- `status_node[TN_KEY_ID], status_node[TN_GRAD_1] = _calc_dist_n_grad(status_row, status_col, elev, …)` -/
def distCall (d : String) (elevE : FE) (t1 t2 : String) (rest : St) : St :=
  (.seq (.setI (d ++ "status_node_row") (.var "status_row"))
  (.seq (.setI (d ++ "status_node_col") (.var "status_col"))
  (.seq (.setF (d ++ "elev") elevE)
  (.seq (.setI (d ++ "viewpoint_row") (.var "vp_row"))
  (.seq (.setI (d ++ "viewpoint_col") (.var "vp_col"))
  (.seq (.setF (d ++ "viewpoint_elev") (.var "vp_elev"))
  (.seq (.setF (d ++ "ew_res") (.var "ew_res"))
  (.seq (.setF (d ++ "ns_res") (.var "ns_res"))
  (.seq (.scope (distBody d))
  (.seq (.setF (t1 ++ "v") (.var (d ++ "ret0")))
  (.seq (.stF1 "status_node" (.lit 0) (.var (t1 ++ "v")))
  (.seq (.setF (t2 ++ "v") (.var (d ++ "ret1")))
  (.seq (.stF1 "status_node" (.lit 2) (.var (t2 ++ "v")))
  rest)))))))))))))

/-- `id = _pop(idle)` -/
def popCall (p : String) (rest : St) : St :=
  (.seq (.scope (.seq (.setI (p ++ "item") (.ld1 "idle" (.ld1 "idle" (.lit 0))))
    (.seq (.stI1 "idle" (.lit 0) (.bin .sub (.ld1 "idle" (.lit 0)) (.lit 1)))
    (.seq (.setI (p ++ "ret0") (.var (p ++ "item")))
    .ret))))
  (.seq (.setI "id" (.var (p ++ "ret0")))
  rest))

/-- `root = _insert_into_tree(status_values, status_struct, root, id, status_node)` with the inlined routine `ins` -/
def insCall (p : String) (ins : St) : St :=
  (.seq (.setI (p ++ "root") (.var "root"))
  (.seq (.setI (p ++ "node_id") (.var "id"))
  (.seq (.scope ins)
  (.setI "root" (.var (p ++ "ret0"))))))

/-! ### set-up -/

/-- `_create_tree_nodes(tree_vals, tree_nodes, x, val, color)` with the dummy value array -/
def createNode (p dv : String) : St :=
  .scope
    (.seq (.stF2 "status_values" (.var (p ++ "x")) (.lit 0) (.ld1 dv (.lit 0)))
    (.seq (.stF2 "status_values" (.var (p ++ "x")) (.lit 1) (.ld1 dv (.lit 1)))
    (.seq (.stF2 "status_values" (.var (p ++ "x")) (.lit 2) (.ld1 dv (.lit 2)))
    (.seq (.stF2 "status_values" (.var (p ++ "x")) (.lit 3) (.ld1 dv (.lit 3)))
    (.seq (.stF2 "status_values" (.var (p ++ "x")) (.lit 4) (.ld1 dv (.lit 4)))
    (.seq (.stF2 "status_values" (.var (p ++ "x")) (.lit 5) (.ld1 dv (.lit 5)))
    (.seq (.stF2 "status_values" (.var (p ++ "x")) (.lit 6) (.ld1 dv (.lit 6)))
    (.seq (.stF2 "status_values" (.var (p ++ "x")) (.lit 7) (.lit (-10000000000000000000000) 1))
    (.seq (.stI2 "status_struct" (.var (p ++ "x")) (.lit 0) (.var (p ++ "color")))
    (.seq (.stI2 "status_struct" (.var (p ++ "x")) (.lit 1) (.lit (-1)))
    (.seq (.stI2 "status_struct" (.var (p ++ "x")) (.lit 2) (.lit (-1)))
    (.seq (.stI2 "status_struct" (.var (p ++ "x")) (.lit 3) (.lit (-1)))
    .ret))))))))))))

/-- the body of `_create_status_struct(status_values, status_struct)` -/
def createStruct : St :=
  let c := "_create_status_struct1$"
  let dv := "_create_status_struct1$dummy_node_value"
  (.seq (.allocF dv [(.lit 10)] (.lit 0 1))
  (.seq (.stF1 dv (.lit 0) (.lit 0 1))
  (.seq (.stF1 dv (.lit 1) (.ofInt (.lit (-1))))
  (.seq (.stF1 dv (.lit 2) (.ofInt (.lit (-1))))
  (.seq (.stF1 dv (.lit 3) (.lit (-10000000000000000000000) 1))
  (.seq (.stF1 dv (.lit 4) (.lit (-10000000000000000000000) 1))
  (.seq (.stF1 dv (.lit 5) (.lit (-10000000000000000000000) 1))
  (.seq (.stF1 dv (.lit 6) (.lit 0 1))
  (.seq (.stF1 dv (.lit 7) (.lit 0 1))
  (.seq (.stF1 dv (.lit 8) (.lit 0 1))
  (.seq (.stF1 dv (.lit 9) (.lit (-10000000000000000000000) 1))
  (.seq (.setI (c ++ "root") (.lit 0))
  (.seq (.setI (c ++ "_create_tree_nodes2$x") (.var (c ++ "root")))
  (.seq (.setI (c ++ "_create_tree_nodes2$color") (.lit 1))
  (.seq (createNode (c ++ "_create_tree_nodes2$") dv)
  (.seq (.setI (c ++ "_create_tree_nodes3$x") (.lit (-1)))
  (.seq (.setI (c ++ "_create_tree_nodes3$color") (.lit 1))
  (.seq (createNode (c ++ "_create_tree_nodes3$") dv)
  (.seq (.setI (c ++ "num_nodes") (.dim "status_values" 0))
  (.seq (.stI2 "status_struct" (.lit (-1)) (.lit 1) (.var (c ++ "num_nodes")))
  (.seq (.stI2 "status_struct" (.lit (-1)) (.lit 2) (.var (c ++ "num_nodes")))
  (.seq (.stI2 "status_struct" (.lit (-1)) (.lit 3) (.var (c ++ "num_nodes")))
  (.seq (.setI (c ++ "ret0") (.var (c ++ "root")))
  .ret)))))))))))))))))))))))

/-- everything before the initial fill: sizes, the two arrays of the status structure with the dummy root and the NIL row,
    the stack of idle rows, the node buffer -/
def sweepSetup : List St :=
  [.setI "n_rows" (.dim "raster" 0), .setI "n_cols" (.dim "raster" 1),
   .setI "num_nodes" (.bin .add (.bin .add (.bin .sub (.var "n_cols") (.var "vp_col")) (.bin .mul (.var "n_cols") (.var "n_rows"))) (.lit 10)),
   .allocF "status_values" [(.var "num_nodes"), (.lit 8)] (.lit 0 1),
   .allocI "status_struct" [(.var "num_nodes"), (.lit 4)] (.lit 0),
   .scope createStruct,
   .setI "root" (.var "_create_status_struct1$ret0"),
   .allocI "idle" [(.var "num_nodes")] (.lit 0),
   .forRange "i" (.lit 0) (.bin .sub (.var "num_nodes") (.lit 1)) (.lit 1) (.stI1 "idle" (.var "i") (.bin .sub (.var "num_nodes") (.var "i"))),
   .stI1 "idle" (.lit 0) (.bin .sub (.var "num_nodes") (.lit 2)),
   .allocF "status_node" [(.lit 7)] (.lit 0 1)]

/-! ### the initial fill -/

/-- after the node of an initial cell is complete: the assertion on the centre bearing, the `- 2π` adjustment of the entering
    bearing, an idle row, the insertion -/
def fillTail (ins : St) : St :=
  (.seq (.ite (.cmpF .eq (.ld1 "status_node" (.lit 5)) (.ofInt (.lit 0))) .skip (.fail "AssertionError"))
  (.seq (.ite (.cmpF .gt (.ld1 "status_node" (.lit 4)) (.ld1 "status_node" (.lit 5)))
    (.stF1 "status_node" (.lit 4) (.bin .sub (.ld1 "status_node" (.lit 4)) (.bin .mul (.ofInt (.lit 2)) .pi)))
    .skip)
  (popCall "_pop14$"
  (insCall "_insert_into_tree15$" ins))))

/-- the node of the observer-row cell `(vp_row, i)`: three bearings, three gradients, the key -/
def fillNode (rest : St) : St :=
  (.seq (.setI "e_type" (.lit 1))
  (posCallI "_calc_event_pos5$" (.var "e_type") (.var "e_row") (.var "e_col")
  (angCall "_calculate_angle6$" 4
  (gradCall "_calc_event_grad7$" (.var "e_elev_0") 1
  (.seq (.setI "e_type" (.lit 0))
  (posCallI "_calc_event_pos8$" (.var "e_type") (.var "e_row") (.var "e_col")
  (angCall "_calculate_angle9$" 5
  (distCall "_calc_dist_n_grad10$" (.var "e_elev_1") "tup1$" "tup2$"
  (.seq (.setI "e_type" (.lit (-1)))
  (posCallI "_calc_event_pos11$" (.var "e_type") (.var "e_row") (.var "e_col")
  (angCall "_calculate_angle12$" 6
  (gradCall "_calc_event_grad13$" (.var "e_elev_2") 3
  rest))))))))))))

def fillCore (ins : St) : St := fillNode (fillTail ins)

def fillBody (ins : St) : St :=
  (.seq initNode
  (.seq (.setI "status_row" (.var "vp_row"))
  (.seq (.setI "status_col" (.var "i"))
  (.seq (.setI "e_row" (.var "vp_row"))
  (.seq (.setI "e_col" (.var "i"))
  (.seq (.setF "e_elev_0" (.ld2 "data" (.lit 0) (.var "i")))
  (.seq (.setF "e_elev_1" (.ld2 "data" (.lit 1) (.var "i")))
  (.seq (.setF "e_elev_2" (.ld2 "data" (.lit 2) (.var "i")))
  (.ite (.not (.isnan (.ld2 "data" (.lit 1) (.var "i")))) (fillCore ins) .skip)))))))))

def fillLoop (ins : St) : St := .forRange "i" (.bin .add (.var "vp_col") (.lit 1)) (.var "n_cols") (.lit 1) (fillBody ins)

/-! ### the event loop -/

def rct (k : Int) : IE := .ld2 "event_rcts" (.var "row$e_rct") (.lit k)
def ae (k : Int) : FE := .ld2 "event_aes" (.var "row$e_ae") (.lit k)

/-- after the node of an entering cell is complete: the bearing adjustments across the east ray, an idle row, the insertion -/
def enterTail (ins : St) : St :=
  (.seq (.ite (.cmpF .lt (ae 0) .pi)
    (.ite (.cmpF .gt (.ld1 "status_node" (.lit 4)) (.ld1 "status_node" (.lit 5)))
      (.stF1 "status_node" (.lit 4) (.bin .sub (.ld1 "status_node" (.lit 4)) (.bin .mul (.ofInt (.lit 2)) .pi)))
      .skip)
    (.ite (.cmpF .gt (.ld1 "status_node" (.lit 4)) (.ld1 "status_node" (.lit 5)))
      (.seq (.stF1 "status_node" (.lit 5) (.bin .add (.ld1 "status_node" (.lit 5)) (.bin .mul (.ofInt (.lit 2)) .pi)))
      (.stF1 "status_node" (.lit 6) (.bin .add (.ld1 "status_node" (.lit 6)) (.bin .mul (.ofInt (.lit 2)) .pi))))
      .skip))
  (popCall "_pop44$"
  (insCall "_insert_into_tree45$" ins)))

/-- ENTER: build the node of the cell from the event record (entering bearing as stored, the others recomputed) -/
def enterNode (rest : St) : St :=
  (posCallI "_calc_event_pos36$" (rct 2) (rct 0) (rct 1)
  (.seq (.stF1 "status_node" (.lit 4) (ae 0))
  (gradCall "_calc_event_grad37$" (ae 1) 1
  (.seq (.stI2 "event_rcts" (.var "row$e_rct") (.lit 2) (.lit 0))
  (posCallI "_calc_event_pos38$" (rct 2) (rct 0) (rct 1)
  (angCall "_calculate_angle39$" 5
  (distCall "_calc_dist_n_grad40$" (ae 2) "tup5$" "tup6$"
  (.seq (.stI2 "event_rcts" (.var "row$e_rct") (.lit 2) (.lit (-1)))
  (posCallI "_calc_event_pos41$" (rct 2) (rct 0) (rct 1)
  (angCall "_calculate_angle42$" 6
  (gradCall "_calc_event_grad43$" (ae 3) 3
  (.seq (.stI2 "event_rcts" (.var "row$e_rct") (.lit 2) (.lit 1))
  rest))))))))))))

def enterBranch (ins : St) : St := enterNode (enterTail ins)

/-- EXIT: delete the cell's node, push its row onto the idle stack -/
def exitBranch (del : St) : St :=
  (.seq (.setI "_delete_from_tree64$root" (.var "root"))
  (.seq (.setF "_delete_from_tree64$key" (.ld1 "status_node" (.lit 0)))
  (.seq (.scope del)
  (.seq (.setI "root" (.var "_delete_from_tree64$ret0"))
  (.seq (.setI "deleted" (.var "_delete_from_tree64$ret1"))
  (.seq (.setI "_push100$item" (.var "deleted"))
  (.scope (.seq (.stI1 "idle" (.lit 0) (.bin .add (.ld1 "idle" (.lit 0)) (.lit 1)))
    (.seq (.stI1 "idle" (.ld1 "idle" (.lit 0)) (.var "_push100$item"))
    .ret)))))))))

/-- the visibility write: `vert_ang = _get_vertical_ang(…); _set_visibility(visibility_grid, status_row, status_col, vert_ang)` -/
def visWrite : St :=
  (.seq (.setF "_get_vertical_ang108$viewpoint_elev" (.var "vp_elev"))
  (.seq (.setF "_get_vertical_ang108$distance_to_viewpoint" (.ld1 "status_node" (.lit 0)))
  (.seq (.setF "_get_vertical_ang108$elev" (.bin .add (ae 2) (.var "vp_target")))
  (.seq (.scope (vangBody "_get_vertical_ang108$"))
  (.seq (.setF "vert_ang" (.var "_get_vertical_ang108$ret0"))
  (.seq (.setI "_set_visibility109$i" (.var "status_row"))
  (.seq (.setI "_set_visibility109$j" (.var "status_col"))
  (.seq (.setF "_set_visibility109$value" (.var "vert_ang"))
  (.seq (.scope (.seq (.stF2 "visibility_grid" (.var "_set_visibility109$i") (.var "_set_visibility109$j") (.var "_set_visibility109$value"))
    .ret))
  (.ite (.cmpF .ge (.var "vert_ang") (.ofInt (.lit 0))) .skip (.fail "AssertionError")))))))))))

/-- CENTER: query the status structure; the cell is visible iff `max <= status_node[TN_GRAD_1]` -/
def centerBranch (qry : St) : St :=
  (.seq (.setI "_max_grad_in_status_struct101$root" (.var "root"))
  (.seq (.setF "_max_grad_in_status_struct101$distance" (.ld1 "status_node" (.lit 0)))
  (.seq (.setF "_max_grad_in_status_struct101$angle" (ae 0))
  (.seq (.setF "_max_grad_in_status_struct101$gradient" (.ld1 "status_node" (.lit 2)))
  (.seq (.scope qry)
  (.seq (.setF "max" (.var "_max_grad_in_status_struct101$ret0"))
  (.ite (.cmpF .le (.var "max") (.ld1 "status_node" (.lit 2))) visWrite .skip)))))))

/-- what every event starts with: the node buffer reset, the cell, its key and centre gradient (target height added) -/
def evPrefix (rest : St) : St :=
  (.seq (.setI "row$e_rct" (.var "i"))
  (.seq (.setI "row$e_ae" (.var "i"))
  (.seq initNode
  (.seq (.setI "status_row" (rct 0))
  (.seq (.setI "status_col" (rct 1))
  (distCall "_calc_dist_n_grad35$" (.bin .add (ae 2) (.var "vp_target")) "tup3$" "tup4$"
  (.seq (.setI "etype" (rct 2))
  rest)))))))

def evBody (ins del qry : St) : St :=
  evPrefix
    (.ite (.cmpI .eq (.var "etype") (.lit 1)) (enterBranch ins)
    (.ite (.cmpI .eq (.var "etype") (.lit (-1))) (exitBranch del)
    (.ite (.cmpI .eq (.var "etype") (.lit 0)) (centerBranch qry)
    .skip)))

def evLoop (ins del qry : St) : St := .forRange "i" (.lit 0) (.var "nevents") (.lit 1) (evBody ins del qry)

def sweepBody (ins1 ins2 del qry : St) : St :=
  ILVs.seqK sweepSetup
    (.seq (fillLoop ins1)
    (.seq (.setI "nevents" (.dim "event_rcts" 0))
    (.seq (evLoop ins2 del qry)
    .ret)))

set_option maxRecDepth 20000 in
/-- **the generated `_viewshed_cpu_sweep` is this template around its four inlined status-tree routines** -/
theorem vsSweep_is_template : Gen.IL.vsSweep.body = sweepBody insFill insLoop delLoop qryLoop := by rfl

end XrsVerif.ILSw
